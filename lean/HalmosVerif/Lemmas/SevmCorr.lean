/-
Lemmas.SevmCorr — `step_corr`: every dispatch step of the symbolic core machine corresponds (`Corr`, see
Lemmas.SevmStep) to what the reference EVM does on every related frame. One lemma per opcode class, then the
assembly following the `if`-chain of `Model.Sevm.step`.
-/
import HalmosVerif.Lemmas.SevmSto

set_option linter.unusedSectionVars false
set_option linter.unusedSimpArgs false
set_option linter.unusedVariables false

namespace HalmosVerif.Lemmas.Sevm
open HalmosVerif.Model HalmosVerif.Model.Sevm HalmosVerif.Spec HalmosVerif.Lemmas.Word

section
variable {I : Interp} {env : Env} {code : List Nat} {p : Evm.Params} {w : Evm.World}
variable {s : Simp} {o : Oracle} {cfg : Cfg} {st : SState} {f : Evm.Frame}

/-! ### POP, DUP, SWAP -/

theorem corr_pop (hR : R I env code p st f) (hsat : Sat I st.path) (hl : f.stack.length ≤ 1024) (hop : opAt code st.pc = 0x50) :
    Corr I env code p w s o cfg st f
      (match st.stack with
       | _ :: rest => contOut { st with pc := st.pc + 1, stack := rest }
       | [] => haltOut st .stackUnderflow) := by
  have hstk := hR.stack
  cases hst : st.stack with
  | nil =>
    rw [hst] at hstk
    exact Corr.halt rfl (evm_pop_nil (hR.hop hop) (by omega) hstk.nil_inv)
  | cons v rest =>
    rw [hst] at hstk
    obtain ⟨n, cs, hcs, hw, hr⟩ := hstk.cons_inv
    refine Corr.cont1 hsat rfl rfl (evm_pop (hR.hop hop) (by omega) hcs) (hR.next' sc! rfl rfl rfl rfl rfl ?_ hr)
    simp only [hR.pc]

theorem corr_dup (hR : R I env code p st f) (hsat : Sat I st.path) (hl : f.stack.length ≤ 1024) {op : Nat} (hop : opAt code st.pc = op)
    (h1 : 0x80 ≤ op) (h2 : op ≤ 0x8f) :
    Corr I env code p w s o cfg st f
      (match st.stack[op - 0x80]? with
       | some v => contOut { st with pc := st.pc + 1, stack := v :: st.stack }
       | none => haltOut st .stackUnderflow) := by
  have hstep := evm_dup (p := p) (w := w) (hR.hop hop) h1 h2 (by omega)
  rcases hR.stack.get (op - 0x80) with ⟨e1, e2⟩ | ⟨v, c, e1, e2, hw⟩
  · simp only [e1]
    simp only [e2] at hstep
    exact Corr.halt rfl hstep
  · simp only [e1]
    simp only [e2] at hstep
    refine Corr.cont1 hsat rfl rfl hstep (hR.next' sc! rfl rfl rfl rfl rfl ?_ (StackRel.cons hw hR.stack))
    simp only [hR.pc]

theorem corr_swap (hR : R I env code p st f) (hsat : Sat I st.path) (hl : f.stack.length ≤ 1024) {op : Nat} (hop : opAt code st.pc = op)
    (h1 : 0x90 ≤ op) (h2 : op ≤ 0x9f) :
    Corr I env code p w s o cfg st f
      (match st.stack, st.stack[op - 0x8f]? with
       | a :: _, some b => contOut { st with pc := st.pc + 1, stack := (st.stack.set 0 b).set (op - 0x8f) a }
       | _, _ => haltOut st .stackUnderflow) := by
  have hstep := evm_swap (p := p) (w := w) (hR.hop hop) h1 h2 (by omega)
  have hstk := hR.stack
  cases hst : st.stack with
  | nil =>
    rw [hst] at hstk
    simp only [hstk.nil_inv] at hstep
    exact Corr.halt rfl hstep
  | cons a rest =>
    have hstk' := hstk
    rw [hst] at hstk'
    obtain ⟨ca, cs, hcs, hwa, hr⟩ := hstk'.cons_inv
    rcases hstk.get (op - 0x8f) with ⟨e1, e2⟩ | ⟨b, cb, e1, e2, hwb⟩
    · rw [hst] at e1
      simp only [e1]
      rw [hcs] at e2
      simp only [hcs, e2] at hstep
      exact Corr.halt rfl hstep
    · have e1' := e1
      rw [hst] at e1'
      simp only [e1']
      rw [hcs] at e2
      simp only [hcs, e2] at hstep
      refine Corr.cont1 hsat rfl rfl hstep (hR.next' sc! rfl rfl rfl rfl rfl ?_ ?_)
      · simp only [hR.pc]
      · simp only [← hst, ← hcs]
        exact (hstk.set 0 hwb).set (op - 0x8f) hwa

/-! ### CALLDATALOAD -/

/-- `calldataload`: a loaded word that is a plain variable is replaced by the literal the path binds it to -/
theorem loaded_ok (hso : SubstOk I st) (hsat : Sat I st.path) {t : T} (ht : t.WF) :
    (match t with
      | .var _ _ => (substGet st.subst t).getD t
      | _ => t).WF ∧
    (match t with
      | .var _ _ => (substGet st.subst t).getD t
      | _ => t).eval I = t.eval I := by
  split
  · rename_i x wd
    cases hg : substGet st.subst (T.var x wd) with
    | none => exact ⟨ht, rfl⟩
    | some v =>
      obtain ⟨vwf, he⟩ := substGet_ok hso hg
      exact ⟨vwf, (he hsat).symm⟩
  · exact ⟨ht, rfl⟩

theorem corr_calldataload (hs : SimpSound s) (hR : R I env code p st f) (hsat : Sat I st.path)
    (hl : f.stack.length ≤ 1024)
    (hop : opAt code st.pc = 0x35) {v : HV} {rest : List HV} (hst : st.stack = v :: rest) {sz off : Nat}
    (ht : toBV256 s v = .bv sz (.con off)) :
    Corr I env code p w s o cfg st f
      (contOut { st with pc := st.pc + 1, stack := mkBV s (.term
          (match env.cd off with
            | .var _ _ => (substGet st.subst (env.cd off)).getD (env.cd off)
            | _ => env.cd off)) 256 :: rest }) := by
  have hstk := hR.stack
  rw [hst] at hstk
  obtain ⟨n, cs, hcs, hw, hr⟩ := hstk.cons_inv
  have hoff := toBV256_con hs hw ht
  subst hoff
  have hstep := evm_calldataload (p := p) (w := w) (hR.hop hop) (by omega)
  simp only [Evm.op1, hcs] at hstep
  obtain ⟨cwf, cw, ce⟩ := hR.env.cd off
  obtain ⟨lwf, le⟩ := loaded_ok hR.subst hsat cwf
  refine Corr.cont1 hsat rfl rfl hstep (hR.next' sc! rfl rfl rfl rfl rfl ?_ (StackRel.cons ?_ hr))
  · simp only [hR.pc]
  · exact wordRel_mkBV hs lwf (by rw [le, ce]; rfl)

/-! ### JUMP -/

theorem corr_jump (hR : R I env code p st f) (hsat : Sat I st.path) (hl : f.stack.length ≤ 1024) (hop : opAt code st.pc = 0x56)
    {v : HV} {rest : List HV} (hst : st.stack = v :: rest) {dst : Nat} (hd : v.denote I = dst) :
    Corr I env code p w s o cfg st f
      (if (Evm.validJumpdests code).contains dst then contOut { st with pc := dst + 1, stack := rest }
       else haltOut st .invalidJump) := by
  have hstk := hR.stack
  rw [hst] at hstk
  obtain ⟨n, cs, hcs, hw, hr⟩ := hstk.cons_inv
  have hn : n = dst := hw.2.2.symm.trans hd
  subst hn
  have hstep := evm_jump (p := p) (w := w) (hR.hop hop) (by omega) hcs
  have hcode : Evm.validJumpdests f.code = Evm.validJumpdests code := by rw [hR.code]
  rw [hcode] at hstep
  have hlen : cs.length ≤ 1024 := by rw [hcs] at hl; simp at hl; omega
  split
  · rename_i hv
    rw [if_pos hv] at hstep
    obtain ⟨hR1, f2, hstep2, hR2⟩ := corr_land (w := w) hR hr hlen hv
    exact Corr.cont0 hsat rfl ((CReach.single hstep).tail hstep2) hR2
  · rename_i hv
    rw [if_neg hv] at hstep
    exact Corr.halt rfl hstep

/-! ### JUMPI -/

theorem corr_jumpi_dispatch (hs : SimpSound s) (hR : R I env code p st f) (hsat : Sat I st.path) (hl : f.stack.length ≤ 1024)
    (hop : opAt code st.pc = 0x57) {tv cv : HV} {rest : List HV} (hst : st.stack = tv :: cv :: rest)
    {sz target : Nat} (ht : toBV256 s tv = .bv sz (.con target)) (r : BRep) (wf : (HV.bool r).WF)
    (hval : ∀ c0, WordRel I cv c0 → BRep.val I r = (c0 != 0)) :
    Corr I env code p w s o cfg st f
      (match (Except.ok (HV.bool r) : Except PyErr HV) with
       | .ok (.bool (.con true)) =>
         if (Evm.validJumpdests code).contains target then
           contOut { ({ st with stack := rest } : SState) with pc := target + 1 }
         else haltOut { st with stack := rest } .invalidJump
       | .ok (.bool (.con false)) => contOut { ({ st with stack := rest } : SState) with pc := st.pc + 1 }
       | .ok (.bool (.sym c)) => jumpi s o cfg code { st with stack := rest } target c (st.pc + 1)
       | .ok (.bv _ _) => stuckOut st (.internal .typeError)
       | .error e => stuckOut st (.internal e)) := by
  have hstk := hR.stack
  rw [hst] at hstk
  obtain ⟨dst, cs0, hcs0, hwt, hr0⟩ := hstk.cons_inv
  obtain ⟨c0, cs, hcs1, hwc, hr⟩ := hr0.cons_inv
  have hcs : f.stack = dst :: c0 :: cs := by rw [hcs0, hcs1]
  have hdst := toBV256_con hs hwt ht
  subst hdst
  have hv0 := hval c0 hwc
  have hstep := evm_jumpi (p := p) (w := w) (hR.hop hop) (by omega) hcs
  have hcode : Evm.validJumpdests f.code = Evm.validJumpdests code := by rw [hR.code]
  rw [hcode] at hstep
  have hlen : cs.length ≤ 1024 := by rw [hcs] at hl; simp at hl; omega
  -- the two concrete continuations
  have hfall : c0 = 0 → ∃ f1, Evm.step p w f = .next w f1 ∧
      R I env code p { ({ st with stack := rest } : SState) with pc := st.pc + 1 } f1 := by
    intro h0
    rw [if_pos h0] at hstep
    exact ⟨_, hstep, hR.next' sc! rfl rfl rfl rfl rfl (by simp only [hR.pc]) hr⟩
  have htake : c0 ≠ 0 → (Evm.validJumpdests code).contains target = true →
      ∃ f1 f2, Evm.step p w f = .next w f1 ∧
        R I env code p { ({ st with stack := rest } : SState) with pc := target } f1 ∧
        Evm.step p w f1 = .next w f2 ∧
        R I env code p { ({ st with stack := rest } : SState) with pc := target + 1 } f2 := by
    intro h0 hv
    rw [if_neg h0, if_pos hv] at hstep
    obtain ⟨hR1, f2, hstep2, hR2⟩ := corr_land (w := w) hR hr hlen hv
    exact ⟨_, f2, hstep, hR1, hstep2, hR2⟩
  have hbad : c0 ≠ 0 → ¬ (Evm.validJumpdests code).contains target = true →
      Evm.step p w f = .halt w .invalidJump := by
    intro h0 hv
    rw [if_neg h0, if_neg hv] at hstep
    exact hstep
  rcases r with (_ | _) | c
  · -- literal false
    simp only
    have h0 : c0 = 0 := by
      simp only [BRep.val] at hv0
      by_contra hne
      have : (c0 != 0) = true := by simpa using hne
      rw [this] at hv0; cases hv0
    obtain ⟨f1, hs1, hR1⟩ := hfall h0
    exact Corr.cont1 hsat rfl rfl hs1 hR1
  · -- literal true
    simp only
    have h0 : c0 ≠ 0 := by
      simp only [BRep.val] at hv0
      intro h; rw [h] at hv0; cases hv0
    split
    · rename_i hv
      obtain ⟨f1, f2, hs1, _, hs2, hR2⟩ := htake h0 hv
      exact Corr.cont0 hsat rfl ((CReach.single hs1).tail hs2) hR2
    · rename_i hv
      exact Corr.halt rfl (hbad h0 hv)
  · -- symbolic condition
    simp only
    simp only [BRep.val] at hv0
    refine Or.inr (Or.inr (Or.inr ⟨_, target, c, rfl, wf, rfl, rfl, rfl, rfl, ?_, ?_, ?_⟩))
    · intro hc hv
      have h0 : c0 ≠ 0 := by
        intro h; rw [h, hc] at hv0; cases hv0
      obtain ⟨f1, f2, hs1, hR1, hs2, hR2⟩ := htake h0 (by simpa using hv)
      exact ⟨f1, f2, CReach.single hs1, hR1, (CReach.single hs1).tail hs2, hR2⟩
    · intro hc hv
      have h0 : c0 ≠ 0 := by
        intro h; rw [h, hc] at hv0; cases hv0
      exact hbad h0 (by simpa using hv)
    · intro hc
      have h0 : c0 = 0 := by
        by_contra hne
        have : (c0 != 0) = true := by simpa using hne
        rw [this, hc] at hv0; cases hv0
      obtain ⟨f1, hs1, hR1⟩ := hfall h0
      exact ⟨f1, CReach.single hs1, hR1⟩

/-- the condition of JUMPI as a Bool: `Bool(cond_val)` (`is_non_zero`) for a bit-vector, itself for a Bool -/
theorem jumpi_cond_bv (hs : SimpSound s) {sz : Nat} {x : Rep} {c0 : Nat} (hw : WordRel I (.bv sz x) c0) :
    ∃ r, bvIsNonZero s x = .ok (.bool r) ∧ (HV.bool r).WF ∧ BRep.val I r = (c0 != 0) := by
  obtain ⟨r, e, wf, d⟩ := bvIsNonZero_ok hs I hw.1
  refine ⟨r, e, wf, ?_⟩
  rw [bool_denote, hw.2.2] at d
  cases hv : BRep.val I r <;> cases hc : (c0 != 0) <;> simp [hv, hc] at d ⊢

theorem jumpi_cond_bool {r : BRep} {c0 : Nat} (hw : WordRel I (.bool r) c0) : BRep.val I r = (c0 != 0) := by
  have d := hw.2.2
  rw [bool_denote] at d
  subst d
  cases BRep.val I r <;> rfl

/-! ### RETURN / REVERT of zero bytes -/

theorem conc_ret_zero (hs : SimpSound s) (hR : R I env code p st f) (hl : f.stack.length ≤ 1024) {op : Nat}
    (hop : opAt code st.pc = op) (h : op = 0xf3 ∨ op = 0xfd) {ov sv : HV} {rest : List HV}
    (hst : st.stack = ov :: sv :: rest) {sz : Nat} (hz : toBV256 s sv = .bv sz (.con 0)) :
    Evm.step p w f = .halt w (if op = 0xf3 then .success [] else .revert []) := by
  have hstk := hR.stack
  rw [hst] at hstk
  obtain ⟨off, cs0, hcs0, hwo, hr0⟩ := hstk.cons_inv
  obtain ⟨len, cs, hcs1, hwl, hr⟩ := hr0.cons_inv
  have hlen := toBV256_con hs hwl hz
  subst hlen
  exact evm_ret_zero (hR.hop hop) h (by omega) (by rw [hcs0, hcs1])

theorem conc_short (hR : R I env code p st f) {n : Nat} (h : st.stack.length < n) : f.stack.length < n := by
  rw [← hR.stack.length]; exact h

/-! ### assembly -/

/-- **step_corr.** For every program, every symbolic state and every concrete frame related to it (stack within the
    EVM limit), the result of the symbolic dispatch step corresponds to the concrete step(s). -/
theorem step_corr (hs : SimpSound s) (hI : I.Std) (hR : R I env code p st f) (hsat : Sat I st.path)
    (hl : f.stack.length ≤ 1024) (hmem : cfg.maxMem + 32 ≤ p.memLimit) (hcode : ∀ b ∈ code, b < 256)
    {w0 : Evm.World} (hW : WRel I w0 w f.this st.storage st.transient) :
    Corr I env code p w s o cfg st f (step s o cfg env code st) := by
  have hl' : ¬ f.stack.length > 1024 := by omega
  unfold step
  simp only
  generalize hop : opAt code st.pc = op
  split
  · -- the 25 word instructions
    rename_i wop hw
    split
    · rename_i hlt
      have hu := conc_word_underflow (w := w) hR hl hop hw hlt
      split
      · split
        · exact Corr.halt rfl hu
        · exact Corr.stuck rfl
      · exact Corr.halt rfl hu
    · rename_i hge
      split
      · rename_i r aux hex
        exact corr_word hs hI hR hsat hl hop hw hge hex
      · exact Corr.stuck rfl
      · exact Corr.stuck rfl
  · rename_i hw
    by_cases h00 : op = 0x00
    · rw [if_pos h00]; subst h00
      exact Corr.halt rfl (evm_stop (hR.hop hop) hl')
    rw [if_neg h00]
    by_cases hfe : op = 0xfe
    · rw [if_pos hfe]; subst hfe
      exact Corr.halt rfl (evm_invalid (hR.hop hop) hl')
    rw [if_neg hfe]
    by_cases h5b : op = 0x5b
    · rw [if_pos h5b]; subst h5b
      refine Corr.cont1 hsat rfl rfl (evm_jumpdest (hR.hop hop) hl') (hR.next' sc! rfl rfl rfl rfl rfl ?_ hR.stack)
      simp only [hR.pc]
    rw [if_neg h5b]
    by_cases h50 : op = 0x50
    · rw [if_pos h50]; subst h50
      exact corr_pop hR hsat hl hop
    rw [if_neg h50]
    by_cases h5f : op = 0x5f
    · rw [if_pos h5f]; subst h5f
      exact corr_push hR hsat (wordRel_con (by decide)) (evm_push0 (hR.hop hop) hl')
    rw [if_neg h5f]
    by_cases hpush : Evm.isPush op = true
    · rw [if_pos hpush]
      have hlen : Evm.pushLen op ≤ 32 := by
        have h := hpush
        simp only [Evm.isPush, Bool.and_eq_true, decide_eq_true_eq] at h
        simp only [Evm.pushLen, hpush, ↓reduceIte]; omega
      have hstep := evm_push (p := p) (w := w) (hR.hop hop) hpush hl'
      have hrd : Evm.readBytes f.code (f.pc + 1) (Evm.pushLen op) =
          Evm.readBytes code (st.pc + 1) (Evm.pushLen op) := by rw [hR.code, hR.pc]
      rw [hrd] at hstep
      refine Corr.cont1 hsat rfl rfl hstep (hR.next' sc! rfl rfl rfl rfl rfl ?_ ?_)
      · simp only [hR.pc]
      · exact StackRel.cons (wordRel_con (push_value_lt _ _ _ hlen)) hR.stack
    rw [if_neg hpush]
    by_cases hdup : 0x80 ≤ op ∧ op ≤ 0x8f
    · rw [if_pos hdup]
      exact corr_dup hR hsat hl hop hdup.1 hdup.2
    rw [if_neg hdup]
    by_cases hswap : 0x90 ≤ op ∧ op ≤ 0x9f
    · rw [if_pos hswap]
      exact corr_swap hR hsat hl hop hswap.1 hswap.2
    rw [if_neg hswap]
    by_cases h58 : op = 0x58
    · rw [if_pos h58]; subst h58
      refine corr_push hR hsat (wordRel_con (Nat.mod_lt _ (by decide))) ?_
      rw [evm_pc (hR.hop hop) hl', push_eq, hR.pc]
    rw [if_neg h58]
    by_cases h33 : op = 0x33
    · rw [if_pos h33]; subst h33
      obtain ⟨twf, _, te⟩ := hR.env.caller
      refine corr_push hR hsat (wordRel_mkBV hs twf rfl) ?_
      rw [evm_caller (hR.hop hop) hl', push_eq, te]
    rw [if_neg h33]
    by_cases h34 : op = 0x34
    · rw [if_pos h34]; subst h34
      obtain ⟨twf, _, te⟩ := hR.env.callvalue
      refine corr_push hR hsat (wordRel_mkBV hs twf rfl) ?_
      rw [evm_callvalue (hR.hop hop) hl', push_eq, te]
    rw [if_neg h34]
    by_cases h32 : op = 0x32
    · rw [if_pos h32]; subst h32
      obtain ⟨twf, _, te⟩ := hR.env.origin
      refine corr_push hR hsat (wordRel_mkBV hs twf rfl) ?_
      rw [evm_origin (hR.hop hop) hl', push_eq, te]
    rw [if_neg h32]
    by_cases h30 : op = 0x30
    · rw [if_pos h30]; subst h30
      obtain ⟨twf, _, te⟩ := hR.env.address
      refine corr_push hR hsat (wordRel_mkBV hs twf rfl) ?_
      rw [evm_address (hR.hop hop) hl', push_eq, te]
    rw [if_neg h30]
    by_cases h36 : op = 0x36
    · rw [if_pos h36]; subst h36
      refine corr_push hR hsat (wordRel_con (Nat.mod_lt _ (by decide))) ?_
      rw [evm_calldatasize (hR.hop hop) hl', push_eq, hR.env.cdSize]
    rw [if_neg h36]
    by_cases h38 : op = 0x38
    · rw [if_pos h38]; subst h38
      refine corr_push hR hsat (wordRel_con (Nat.mod_lt _ (by decide))) ?_
      rw [evm_codesize (hR.hop hop) hl', push_eq, hR.code]
    rw [if_neg h38]
    by_cases h35 : op = 0x35
    · rw [if_pos h35]; subst h35
      split
      · rename_i v rest hst
        split
        · rename_i sz off ht
          exact corr_calldataload hs hR hsat hl hop hst ht
        · exact Corr.stuck rfl
      · rename_i hst
        refine Corr.halt rfl ?_
        rw [evm_calldataload (hR.hop hop) hl']
        have : f.stack = [] := (hst ▸ hR.stack).nil_inv
        simp only [Evm.op1, this]
    rw [if_neg h35]
    by_cases h56 : op = 0x56
    · rw [if_pos h56]; subst h56
      split
      · rename_i v rest hst
        split
        · exact corr_jump hR hsat hl hop hst rfl
        · exact corr_jump hR hsat hl hop hst rfl
        · exact Corr.stuck rfl
      · rename_i hst
        exact Corr.halt rfl (evm_jump_nil (hR.hop hop) hl' (hst ▸ hR.stack).nil_inv)
    rw [if_neg h56]
    by_cases h57 : op = 0x57
    · rw [if_pos h57]; subst h57
      split
      · rename_i hst
        exact Corr.halt rfl (evm_jumpi_short (hR.hop hop) hl' (conc_short hR (by rw [hst]; simp)))
      · rename_i tv rest0 hst
        split
        · rename_i sz target ht
          split
          · exact Corr.halt rfl (evm_jumpi_short (hR.hop hop) hl' (conc_short hR (by rw [hst]; simp)))
          · rename_i cv rest
            have hwc : ∀ c0, WordRel I cv c0 → True := fun _ _ => trivial
            cases cv with
            | bv szc rc =>
              simp only
              have hcw : ∃ c0, WordRel I (HV.bv szc rc) c0 := by
                have hstk := hR.stack
                rw [hst] at hstk
                obtain ⟨_, _, _, _, hr0⟩ := hstk.cons_inv
                obtain ⟨c0, _, _, hwc, _⟩ := hr0.cons_inv
                exact ⟨c0, hwc⟩
              obtain ⟨c0, hwc0⟩ := hcw
              obtain ⟨r, e, wf, hv⟩ := jumpi_cond_bv hs hwc0
              rw [e]
              refine corr_jumpi_dispatch hs hR hsat hl hop hst ht r wf ?_
              intro c1 hw1
              have : c1 = c0 := hw1.2.2.symm.trans hwc0.2.2
              rw [this]; exact hv
            | bool r =>
              simp only
              have hwf : (HV.bool r).WF := by
                have hstk := hR.stack
                rw [hst] at hstk
                obtain ⟨_, _, _, _, hr0⟩ := hstk.cons_inv
                obtain ⟨c0, _, _, hwc, _⟩ := hr0.cons_inv
                exact hwc.1
              exact corr_jumpi_dispatch hs hR hsat hl hop hst ht r hwf (fun c0 hw0 => jumpi_cond_bool hw0)
        · exact Corr.stuck rfl
    rw [if_neg h57]
    by_cases hret : op = 0xf3 ∨ op = 0xfd
    · rw [if_pos hret]
      split
      · rename_i hst
        exact Corr.halt rfl (evm_ret_short (hR.hop hop) hret hl' (conc_short hR (by rw [hst]; simp)))
      · rename_i ov rest0 hst
        split
        · rename_i szo loc ho
          split
          · exact Corr.halt rfl (evm_ret_short (hR.hop hop) hret hl' (conc_short hR (by rw [hst]; simp)))
          · rename_i sv rest
            split
            · rename_i szs size hz
              split
              · rename_i h0
                subst h0
                exact corr_ret hs hR hl hmem hop hret hst ho hz (Or.inl rfl)
              · split
                · exact Corr.limit rfl
                · rename_i hle
                  exact corr_ret hs hR hl hmem hop hret hst ho hz (Or.inr (by omega))
            · exact Corr.stuck rfl
        · exact Corr.stuck rfl
    rw [if_neg hret]
    by_cases hmop : op = 0x51 ∨ op = 0x52 ∨ op = 0x53
    · rw [if_pos hmop]
      split
      · rename_i hst
        refine Corr.halt rfl (evm_mem_short (hR.hop hop) hl' ?_)
        have : f.stack = [] := (hst ▸ hR.stack).nil_inv
        rcases hmop with h1 | h1 | h1
        · exact Or.inl ⟨h1, this⟩
        · exact Or.inr ⟨Or.inl h1, by rw [this]; simp⟩
        · exact Or.inr ⟨Or.inr h1, by rw [this]; simp⟩
      · rename_i lv rest0 hst
        split
        · rename_i sz loc ht
          split
          · exact Corr.limit rfl
          · rename_i hle
            split
            · rename_i h51
              subst h51
              exact corr_mload hs hR hsat hl hmem hop hst ht hle
            · rename_i h51
              have h23 : op = 0x52 ∨ op = 0x53 := by
                rcases hmop with h1 | h1 | h1
                · exact absurd h1 h51
                · exact Or.inl h1
                · exact Or.inr h1
              split
              · exact Corr.halt rfl (evm_mem_short (hR.hop hop) hl'
                  (Or.inr ⟨h23, conc_short hR (by rw [hst]; simp)⟩))
              · rename_i v rest
                split
                · rename_i h52
                  subst h52
                  split
                  · rename_i szv r hv
                    exact corr_mstore hs hR hsat hl hmem hop hst ht hle hv
                  · exact Corr.stuck rfl
                · rename_i h52
                  have h53 : op = 0x53 := by
                    rcases h23 with h1 | h1
                    · exact absurd h1 h52
                    · exact h1
                  subst h53
                  split
                  · rename_i szv r hv
                    exact corr_mstore8 hs hR hsat hl hmem hop hst ht hle hv
                  · exact Corr.stuck rfl
        · exact Corr.stuck rfl
    rw [if_neg hmop]
    by_cases h37 : op = 0x37
    · rw [if_pos h37]; subst h37
      split
      · rename_i hst
        exact Corr.halt rfl (evm_copy_short (hR.hop hop) (Or.inl rfl) hl' (conc_short hR (by rw [hst]; simp)))
      · rename_i lv r1 hst
        split
        · rename_i s1 loc h1
          split
          · exact Corr.halt rfl (evm_copy_short (hR.hop hop) (Or.inl rfl) hl' (conc_short hR (by rw [hst]; simp)))
          · rename_i ov r2
            split
            · rename_i s2 off h2
              split
              · exact Corr.halt rfl (evm_copy_short (hR.hop hop) (Or.inl rfl) hl'
                  (conc_short hR (by rw [hst]; simp)))
              · rename_i sv rest
                split
                · rename_i s3 size h3
                  exact corr_calldatacopy hs hR hsat hl hmem hop hst h1 h2 h3
                · exact Corr.stuck rfl
            · exact Corr.stuck rfl
        · exact Corr.stuck rfl
    rw [if_neg h37]
    by_cases h39 : op = 0x39
    · rw [if_pos h39]; subst h39
      split
      · rename_i hst
        exact Corr.halt rfl (evm_copy_short (hR.hop hop) (Or.inr rfl) hl' (conc_short hR (by rw [hst]; simp)))
      · rename_i lv r1 hst
        split
        · rename_i s1 loc h1
          split
          · exact Corr.halt rfl (evm_copy_short (hR.hop hop) (Or.inr rfl) hl' (conc_short hR (by rw [hst]; simp)))
          · rename_i ov r2
            split
            · exact Corr.halt rfl (evm_copy_short (hR.hop hop) (Or.inr rfl) hl'
                (conc_short hR (by rw [hst]; simp)))
            · rename_i sv rest
              split
              · rename_i s3 size h3
                split
                · rename_i h0
                  subst h0
                  exact corr_codecopy_empty hs hR hsat hl hop hst h1 h3
                · split
                  · rename_i s2 off h2
                    exact corr_codecopy hs hR hsat hl hmem hcode hop hst h1 h2 h3
                  · exact Corr.stuck rfl
              · exact Corr.stuck rfl
        · exact Corr.stuck rfl
    rw [if_neg h39]
    by_cases h3d : op = 0x3d
    · rw [if_pos h3d]; subst h3d
      refine corr_push hR hsat (wordRel_con (Nat.mod_lt _ (by decide))) ?_
      rw [evm_returndatasize (hR.hop hop) hl', push_eq, retdata_length hR]
    rw [if_neg h3d]
    by_cases h3e : op = 0x3e
    · rw [if_pos h3e]; subst h3e
      split
      · rename_i hst
        exact Corr.halt rfl (evm_returndatacopy_short (hR.hop hop) hl' (conc_short hR (by rw [hst]; simp)))
      · rename_i lv r1 hst
        split
        · rename_i s1 loc h1
          split
          · exact Corr.halt rfl (evm_returndatacopy_short (hR.hop hop) hl' (conc_short hR (by rw [hst]; simp)))
          · rename_i ov r2
            split
            · rename_i s2 off h2
              split
              · exact Corr.halt rfl (evm_returndatacopy_short (hR.hop hop) hl'
                  (conc_short hR (by rw [hst]; simp)))
              · rename_i sv rest
                split
                · rename_i s3 size h3
                  exact corr_returndatacopy hs hR hsat hl hmem hop hst h1 h2 h3
                · exact Corr.stuck rfl
            · exact Corr.stuck rfl
        · exact Corr.stuck rfl
    rw [if_neg h3e]
    by_cases hld : op = 0x54 ∨ op = 0x5c
    · rw [if_pos hld]
      split
      · rename_i hst
        refine Corr.halt rfl ?_
        have hnil : f.stack = [] := (hst ▸ hR.stack).nil_inv
        rcases hld with rfl | rfl
        · rw [evm_sload (hR.hop hop) hl']; simp only [Evm.op1, hnil]
        · rw [evm_tload (hR.hop hop) hl']; simp only [Evm.op1, hnil]
      · rename_i kv rest hst
        split
        · rename_i sz slot ht
          split
          · rename_i hlt
            exact corr_load hs hR hsat hl hW hop hld hst ht hlt
          · exact Corr.stuck rfl
        · exact Corr.stuck rfl
    rw [if_neg hld]
    by_cases hso : op = 0x55 ∨ op = 0x5d
    · rw [if_pos hso]
      split
      · rename_i kv v rest hst
        split
        · rename_i hstatic
          exact Corr.halt rfl (conc_store_static hR hl hop hso hst hstatic)
        · rename_i hstatic
          split
          · rename_i sz slot ht
            split
            · rename_i hlt
              split
              · rename_i szv r hv
                exact corr_store hs hR hsat hl hop hso hst hstatic ht hlt hv
              · exact Corr.stuck rfl
            · exact Corr.stuck rfl
          · exact Corr.stuck rfl
      · rename_i hno
        exact Corr.halt rfl (evm_store_short (hR.hop hop) hso hl' (conc_short hR (short_of_not_cons2 hno)))
    rw [if_neg hso]
    exact Corr.stuck rfl

end
end HalmosVerif.Lemmas.Sevm
