/-
Lemmas.SevmEvm — the concrete side of each core instruction: `Evm.step p w f` written out per opcode (class) for a
frame whose stack has at most 1024 items, plus the facts about code the simulation needs (a valid jump destination
holds a JUMPDEST byte; a PUSH operand is below 2^256).
-/
import HalmosVerif.Lemmas.SevmRel
import Mathlib.Tactic.IntervalCases

set_option linter.unusedSectionVars false
set_option linter.unusedSimpArgs false
set_option linter.unusedVariables false

namespace HalmosVerif.Lemmas.Sevm
open HalmosVerif.Model HalmosVerif.Model.Sevm HalmosVerif.Spec HalmosVerif.Lemmas.Word

/-! ### code facts -/

theorem validJumpdestsFrom_mem {code : List Nat} {fuel pc : Nat} {acc : List Nat} {x : Nat}
    (h : x ∈ Evm.validJumpdestsFrom code pc fuel acc) : x ∈ acc ∨ code[x]? = some 0x5b := by
  induction fuel generalizing pc acc with
  | zero => left; simpa [Evm.validJumpdestsFrom] using h
  | succ fuel ih =>
    unfold Evm.validJumpdestsFrom at h
    split at h
    · left; exact h
    · rename_i op hop
      rcases ih h with h | h
      · split at h
        · rename_i h5b
          rcases List.mem_cons.1 h with rfl | h
          · right; rw [hop, h5b]
          · left; exact h
        · left; exact h
      · right; exact h

/-- a valid jump destination holds the JUMPDEST byte -/
theorem jumpdest_opcode {code : List Nat} {d : Nat} (h : (Evm.validJumpdests code).contains d = true) :
    (code[d]?).getD 0 = 0x5b := by
  have hm : d ∈ Evm.validJumpdests code := by simpa using h
  rcases validJumpdestsFrom_mem hm with h | h
  · cases h
  · rw [h]; rfl

theorem foldl_bytes_lt (bs : List Nat) (a : Nat) :
    bs.foldl (fun acc b => acc * 256 + b % 256) a + 1 ≤ (a + 1) * 256 ^ bs.length := by
  induction bs generalizing a with
  | nil => simp
  | cons b bs ih =>
    simp only [List.foldl_cons, List.length_cons]
    refine Nat.le_trans (ih _) ?_
    have : a * 256 + b % 256 + 1 ≤ (a + 1) * 256 := by omega
    calc (a * 256 + b % 256 + 1) * 256 ^ bs.length ≤ ((a + 1) * 256) * 256 ^ bs.length :=
          Nat.mul_le_mul_right _ this
      _ = (a + 1) * 256 ^ (bs.length + 1) := by rw [Nat.mul_assoc, Nat.pow_succ, Nat.mul_comm 256]

theorem bytesToNat_lt (bs : List Nat) : Evm.bytesToNat bs < 256 ^ bs.length := by
  have := foldl_bytes_lt bs 0
  unfold Evm.bytesToNat
  omega

theorem readBytes_length (m : List Nat) (off n : Nat) : (Evm.readBytes m off n).length = n := by
  simp [Evm.readBytes]

/-- the operand of PUSH1..PUSH32 is a word -/
theorem push_value_lt (code : List Nat) (off n : Nat) (hn : n ≤ 32) :
    Evm.bytesToNat (Evm.readBytes code off n) < 2 ^ 256 := by
  have h := bytesToNat_lt (Evm.readBytes code off n)
  rw [readBytes_length] at h
  refine Nat.lt_of_lt_of_le h ?_
  calc 256 ^ n ≤ 256 ^ 32 := Nat.pow_le_pow_right (by decide) hn
    _ = 2 ^ 256 := by norm_num

/-! ### word instructions -/

/-- what `Evm.step` does for each of the 25 word opcodes -/
def wordStep (wop : WordOp) (w : Evm.World) (f : Evm.Frame) : Evm.Step :=
  match wop with
  | .ADD => Evm.op2 w f Word.add | .MUL => Evm.op2 w f Word.mul | .SUB => Evm.op2 w f Word.sub
  | .DIV => Evm.op2 w f Word.div | .SDIV => Evm.op2 w f Word.sdiv | .MOD => Evm.op2 w f Word.mod
  | .SMOD => Evm.op2 w f Word.smod | .ADDMOD => Evm.op3 w f Word.addmod | .MULMOD => Evm.op3 w f Word.mulmod
  | .EXP => Evm.op2 w f Word.exp | .SIGNEXTEND => Evm.op2 w f Word.signextend
  | .LT => Evm.op2 w f Word.lt | .GT => Evm.op2 w f Word.gt | .SLT => Evm.op2 w f Word.slt
  | .SGT => Evm.op2 w f Word.sgt | .EQ => Evm.op2 w f Word.eq | .ISZERO => Evm.op1 w f Word.iszero
  | .AND => Evm.op2 w f Word.and | .OR => Evm.op2 w f Word.or | .XOR => Evm.op2 w f Word.xor
  | .NOT => Evm.op1 w f Word.not | .BYTE => Evm.op2 w f Word.byte | .SHL => Evm.op2 w f Word.shl
  | .SHR => Evm.op2 w f Word.shr | .SAR => Evm.op2 w f Word.sar

theorem evm_word {p w} {f : Evm.Frame} {op : Nat} {wop : WordOp} (hop : (f.code[f.pc]?).getD 0 = op)
    (hl : ¬ f.stack.length > 1024) (hw : wordOpOf op = some wop) : Evm.step p w f = wordStep wop w f := by
  have hlt : op ≤ 0x1d := by
    unfold wordOpOf at hw
    split at hw <;> first | omega | cases hw
  unfold Evm.step; simp only [hop, hl, ↓reduceIte]
  split <;> first | (cases hw; rfl) | (exfalso; omega) | (exfalso; simp [wordOpOf] at hw)

theorem wordArity_eq (wop : WordOp) : wordArity wop = arity wop := by cases wop <;> rfl

/-- enough operands: the instruction replaces them by the specified result -/
theorem wordStep_ok {w} {f : Evm.Frame} (wop : WordOp) {args rest : List Nat} (hst : f.stack = args ++ rest)
    (hlen : args.length = arity wop) :
    wordStep wop w f = .next w { f with stack := specOp wop args % 2 ^ 256 :: rest, pc := f.pc + 1 } := by
  cases wop
  case ISZERO | NOT =>
    obtain ⟨a, rfl⟩ := len1 hlen
    simp only [wordStep, Evm.op1, hst, List.cons_append, List.nil_append, specOp, Evm.W]
  case ADDMOD | MULMOD =>
    obtain ⟨a, b, c, rfl⟩ := len3 hlen
    simp only [wordStep, Evm.op3, hst, List.cons_append, List.nil_append, specOp, Evm.W]
  all_goals
    obtain ⟨a, b, rfl⟩ := len2 hlen
    simp only [wordStep, Evm.op2, hst, List.cons_append, List.nil_append, specOp, Evm.W]

/-- too few operands: stack underflow -/
theorem wordStep_underflow {w} {f : Evm.Frame} (wop : WordOp) (h : f.stack.length < arity wop) :
    wordStep wop w f = .halt w .stackUnderflow := by
  cases wop
  case ISZERO | NOT =>
    match hst : f.stack, h with
    | [], _ => simp only [wordStep, Evm.op1, hst]
  case ADDMOD | MULMOD =>
    match hst : f.stack, h with
    | [], _ => simp only [wordStep, Evm.op3, hst]
    | [_], _ => simp only [wordStep, Evm.op3, hst]
    | [_, _], _ => simp only [wordStep, Evm.op3, hst]
  all_goals
    match hst : f.stack, h with
    | [], _ => simp only [wordStep, Evm.op2, hst]
    | [_], _ => simp only [wordStep, Evm.op2, hst]

/-! ### the other core instructions -/

section
variable {p : Evm.Params} {w : Evm.World} {f : Evm.Frame}

theorem evm_stop (hop : (f.code[f.pc]?).getD 0 = 0x00) (hl : ¬ f.stack.length > 1024) :
    Evm.step p w f = .halt w (.success []) := by
  unfold Evm.step; simp only [hop, hl, ↓reduceIte]

theorem evm_invalid (hop : (f.code[f.pc]?).getD 0 = 0xfe) (hl : ¬ f.stack.length > 1024) :
    Evm.step p w f = .halt w .invalidOpcode := by
  unfold Evm.step; simp only [hop, hl, ↓reduceIte]

theorem evm_jumpdest (hop : (f.code[f.pc]?).getD 0 = 0x5b) (hl : ¬ f.stack.length > 1024) :
    Evm.step p w f = .next w { f with pc := f.pc + 1 } := by
  unfold Evm.step; simp only [hop, hl, ↓reduceIte]

theorem evm_pop_raw (hop : (f.code[f.pc]?).getD 0 = 0x50) (hl : ¬ f.stack.length > 1024) :
    Evm.step p w f = match f.stack with
      | _ :: s => .next w { f with stack := s, pc := f.pc + 1 }
      | _ => .halt w .stackUnderflow := by
  unfold Evm.step; simp only [hop, hl, ↓reduceIte]
  generalize f.stack = st
  rcases st with _ | ⟨a, s⟩ <;> rfl

theorem evm_pop (hop : (f.code[f.pc]?).getD 0 = 0x50) (hl : ¬ f.stack.length > 1024) {a s} (hst : f.stack = a :: s) :
    Evm.step p w f = .next w { f with stack := s, pc := f.pc + 1 } := by
  rw [evm_pop_raw hop hl]; simp only [hst]

theorem evm_pop_nil (hop : (f.code[f.pc]?).getD 0 = 0x50) (hl : ¬ f.stack.length > 1024) (hst : f.stack = []) :
    Evm.step p w f = .halt w .stackUnderflow := by
  rw [evm_pop_raw hop hl]; simp only [hst]

/-- the pushes of a value the frame determines: PUSH0, PC, ADDRESS, ORIGIN, CALLER, CALLVALUE, CALLDATASIZE -/
theorem evm_push0 (hop : (f.code[f.pc]?).getD 0 = 0x5f) (hl : ¬ f.stack.length > 1024) :
    Evm.step p w f = .next w (Evm.push f 0) := by
  unfold Evm.step; simp only [hop, hl, ↓reduceIte]

theorem evm_pc (hop : (f.code[f.pc]?).getD 0 = 0x58) (hl : ¬ f.stack.length > 1024) :
    Evm.step p w f = .next w (Evm.push f f.pc) := by
  unfold Evm.step; simp only [hop, hl, ↓reduceIte]

theorem evm_address (hop : (f.code[f.pc]?).getD 0 = 0x30) (hl : ¬ f.stack.length > 1024) :
    Evm.step p w f = .next w (Evm.push f f.this) := by
  unfold Evm.step; simp only [hop, hl, ↓reduceIte]

theorem evm_origin (hop : (f.code[f.pc]?).getD 0 = 0x32) (hl : ¬ f.stack.length > 1024) :
    Evm.step p w f = .next w (Evm.push f p.origin) := by
  unfold Evm.step; simp only [hop, hl, ↓reduceIte]

theorem evm_caller (hop : (f.code[f.pc]?).getD 0 = 0x33) (hl : ¬ f.stack.length > 1024) :
    Evm.step p w f = .next w (Evm.push f f.caller) := by
  unfold Evm.step; simp only [hop, hl, ↓reduceIte]

theorem evm_callvalue (hop : (f.code[f.pc]?).getD 0 = 0x34) (hl : ¬ f.stack.length > 1024) :
    Evm.step p w f = .next w (Evm.push f f.value) := by
  unfold Evm.step; simp only [hop, hl, ↓reduceIte]

theorem evm_calldatasize (hop : (f.code[f.pc]?).getD 0 = 0x36) (hl : ¬ f.stack.length > 1024) :
    Evm.step p w f = .next w (Evm.push f f.calldata.length) := by
  unfold Evm.step; simp only [hop, hl, ↓reduceIte]

theorem evm_codesize (hop : (f.code[f.pc]?).getD 0 = 0x38) (hl : ¬ f.stack.length > 1024) :
    Evm.step p w f = .next w (Evm.push f f.code.length) := by
  unfold Evm.step; simp only [hop, hl, ↓reduceIte]

theorem evm_calldataload (hop : (f.code[f.pc]?).getD 0 = 0x35) (hl : ¬ f.stack.length > 1024) :
    Evm.step p w f = Evm.op1 w f fun off => Evm.bytesToNat (Evm.readBytes f.calldata off 32) := by
  unfold Evm.step; simp only [hop, hl, ↓reduceIte]

theorem evm_jump_raw (hop : (f.code[f.pc]?).getD 0 = 0x56) (hl : ¬ f.stack.length > 1024) :
    Evm.step p w f = match f.stack with
      | dst :: s =>
        if (Evm.validJumpdests f.code).contains dst then .next w { f with stack := s, pc := dst }
        else .halt w .invalidJump
      | _ => .halt w .stackUnderflow := by
  unfold Evm.step; simp only [hop, hl, ↓reduceIte]
  generalize f.stack = st
  rcases st with _ | ⟨a, s⟩ <;> rfl

theorem evm_jump (hop : (f.code[f.pc]?).getD 0 = 0x56) (hl : ¬ f.stack.length > 1024) {dst s} (hst : f.stack = dst :: s) :
    Evm.step p w f =
      if (Evm.validJumpdests f.code).contains dst then .next w { f with stack := s, pc := dst }
      else .halt w .invalidJump := by
  rw [evm_jump_raw hop hl]; simp only [hst]

theorem evm_jump_nil (hop : (f.code[f.pc]?).getD 0 = 0x56) (hl : ¬ f.stack.length > 1024) (hst : f.stack = []) :
    Evm.step p w f = .halt w .stackUnderflow := by
  rw [evm_jump_raw hop hl]; simp only [hst]

theorem evm_jumpi_raw (hop : (f.code[f.pc]?).getD 0 = 0x57) (hl : ¬ f.stack.length > 1024) :
    Evm.step p w f = match f.stack with
      | dst :: c :: s =>
        if c = 0 then .next w { f with stack := s, pc := f.pc + 1 }
        else if (Evm.validJumpdests f.code).contains dst then .next w { f with stack := s, pc := dst }
        else .halt w .invalidJump
      | _ => .halt w .stackUnderflow := by
  unfold Evm.step; simp only [hop, hl, ↓reduceIte]
  generalize f.stack = st
  rcases st with _ | ⟨a, _ | ⟨b, s⟩⟩ <;> rfl

theorem evm_jumpi (hop : (f.code[f.pc]?).getD 0 = 0x57) (hl : ¬ f.stack.length > 1024) {dst c s}
    (hst : f.stack = dst :: c :: s) :
    Evm.step p w f =
      if c = 0 then .next w { f with stack := s, pc := f.pc + 1 }
      else if (Evm.validJumpdests f.code).contains dst then .next w { f with stack := s, pc := dst }
      else .halt w .invalidJump := by
  rw [evm_jumpi_raw hop hl]; simp only [hst]

theorem evm_jumpi_short (hop : (f.code[f.pc]?).getD 0 = 0x57) (hl : ¬ f.stack.length > 1024)
    (hst : f.stack.length < 2) : Evm.step p w f = .halt w .stackUnderflow := by
  rw [evm_jumpi_raw hop hl]
  match h : f.stack, hst with
  | [], _ => rfl
  | [_], _ => rfl

theorem evm_ret_raw {op : Nat} (hop : (f.code[f.pc]?).getD 0 = op) (h : op = 0xf3 ∨ op = 0xfd)
    (hl : ¬ f.stack.length > 1024) :
    Evm.step p w f = match f.stack with
      | off :: len :: _ =>
        if !Evm.memOk p off len then .halt w .outOfGas
        else .halt w (if op = 0xf3 then .success (Evm.readBytes f.mem off len) else .revert (Evm.readBytes f.mem off len))
      | _ => .halt w .stackUnderflow := by
  rcases h with rfl | rfl <;>
    (unfold Evm.step; simp only [hop, hl, ↓reduceIte]
     generalize f.stack = st
     rcases st with _ | ⟨a, _ | ⟨b, s⟩⟩ <;> rfl)

/-- RETURN / REVERT of zero bytes -/
theorem evm_ret_zero {op : Nat} (hop : (f.code[f.pc]?).getD 0 = op) (h : op = 0xf3 ∨ op = 0xfd)
    (hl : ¬ f.stack.length > 1024) {off s} (hst : f.stack = off :: 0 :: s) :
    Evm.step p w f = .halt w (if op = 0xf3 then .success [] else .revert []) := by
  rw [evm_ret_raw hop h hl]; simp only [hst]
  simp [Evm.memOk, Evm.readBytes]

theorem evm_ret_short {op : Nat} (hop : (f.code[f.pc]?).getD 0 = op) (h : op = 0xf3 ∨ op = 0xfd)
    (hl : ¬ f.stack.length > 1024) (hst : f.stack.length < 2) : Evm.step p w f = .halt w .stackUnderflow := by
  rw [evm_ret_raw hop h hl]
  match h : f.stack, hst with
  | [], _ => rfl
  | [_], _ => rfl

/-- the default branch of `Evm.step`: PUSH1..32, DUP, SWAP (LOG is outside the core) -/
theorem evm_default {op : Nat} (hop : (f.code[f.pc]?).getD 0 = op) (h1 : 0x60 ≤ op) (h2 : op ≤ 0x9f)
    (hl : ¬ f.stack.length > 1024) :
    Evm.step p w f =
    if Evm.isPush op then
      let n := Evm.pushLen op
      .next w { f with stack := Evm.bytesToNat (Evm.readBytes f.code (f.pc + 1) n) :: f.stack, pc := f.pc + 1 + n }
    else if 0x80 ≤ op && op ≤ 0x8f then
      match f.stack[op - 0x80]? with
      | some v => .next w { f with stack := v :: f.stack, pc := f.pc + 1 }
      | none => .halt w .stackUnderflow
    else
      let n := op - 0x8f
      match f.stack, f.stack[n]? with
      | a :: _, some b => .next w { f with stack := (f.stack.set 0 b).set n a, pc := f.pc + 1 }
      | _, _ => .halt w .stackUnderflow := by
  unfold Evm.step; simp only [hop, hl, ↓reduceIte]
  split <;> first
    | omega
    | (have h3 : (0x90 ≤ op && op ≤ 0x9f) = true ∨ Evm.isPush op = true ∨ (0x80 ≤ op && op ≤ 0x8f) = true := by
         simp only [Evm.isPush, Bool.and_eq_true, decide_eq_true_eq]; omega
       rcases h3 with h3 | h3 | h3 <;> simp only [h3, ↓reduceIte] <;> rfl)

theorem evm_push {op : Nat} (hop : (f.code[f.pc]?).getD 0 = op) (hp : Evm.isPush op = true)
    (hl : ¬ f.stack.length > 1024) :
    Evm.step p w f = .next w { f with
      stack := Evm.bytesToNat (Evm.readBytes f.code (f.pc + 1) (Evm.pushLen op)) :: f.stack,
      pc := f.pc + 1 + Evm.pushLen op } := by
  have h := hp
  simp only [Evm.isPush, Bool.and_eq_true, decide_eq_true_eq] at h
  rw [evm_default hop (by omega) (by omega) hl]; simp only [hp, ↓reduceIte]

theorem evm_dup {op : Nat} (hop : (f.code[f.pc]?).getD 0 = op) (h1 : 0x80 ≤ op) (h2 : op ≤ 0x8f)
    (hl : ¬ f.stack.length > 1024) :
    Evm.step p w f = match f.stack[op - 0x80]? with
      | some v => .next w { f with stack := v :: f.stack, pc := f.pc + 1 }
      | none => .halt w .stackUnderflow := by
  rw [evm_default hop (by omega) (by omega) hl]
  have hp : Evm.isPush op = false := by simp [Evm.isPush]; omega
  have hd : (0x80 ≤ op && op ≤ 0x8f) = true := by simp; omega
  simp only [hp, hd, ↓reduceIte, Bool.false_eq_true]

theorem evm_swap {op : Nat} (hop : (f.code[f.pc]?).getD 0 = op) (h1 : 0x90 ≤ op) (h2 : op ≤ 0x9f)
    (hl : ¬ f.stack.length > 1024) :
    Evm.step p w f = match f.stack, f.stack[op - 0x8f]? with
      | a :: _, some b => .next w { f with stack := (f.stack.set 0 b).set (op - 0x8f) a, pc := f.pc + 1 }
      | _, _ => .halt w .stackUnderflow := by
  rw [evm_default hop (by omega) (by omega) hl]
  have hp : Evm.isPush op = false := by simp [Evm.isPush]; omega
  have hd : (0x80 ≤ op && op ≤ 0x8f) = false := by simp; omega
  simp only [hp, hd, ↓reduceIte, Bool.false_eq_true]

/-! ### memory -/

theorem touch_code (f : Evm.Frame) (off n : Nat) : (f.touch off n).code = f.code := by
  unfold Evm.Frame.touch; split <;> rfl
theorem touch_caller (f : Evm.Frame) (off n : Nat) : (f.touch off n).caller = f.caller := by
  unfold Evm.Frame.touch; split <;> rfl
theorem touch_value (f : Evm.Frame) (off n : Nat) : (f.touch off n).value = f.value := by
  unfold Evm.Frame.touch; split <;> rfl
theorem touch_this (f : Evm.Frame) (off n : Nat) : (f.touch off n).this = f.this := by
  unfold Evm.Frame.touch; split <;> rfl
theorem touch_calldata (f : Evm.Frame) (off n : Nat) : (f.touch off n).calldata = f.calldata := by
  unfold Evm.Frame.touch; split <;> rfl
theorem touch_isStatic (f : Evm.Frame) (off n : Nat) : (f.touch off n).isStatic = f.isStatic := by
  unfold Evm.Frame.touch; split <;> rfl
theorem touch_returndata (f : Evm.Frame) (off n : Nat) : (f.touch off n).returndata = f.returndata := by
  unfold Evm.Frame.touch; split <;> rfl
theorem touch_mem (f : Evm.Frame) (off n : Nat) : (f.touch off n).mem = f.mem := by
  unfold Evm.Frame.touch; split <;> rfl
theorem touch_pc (f : Evm.Frame) (off n : Nat) : (f.touch off n).pc = f.pc := by
  unfold Evm.Frame.touch; split <;> rfl

theorem memOk_of_le {p : Evm.Params} {off n : Nat} (h : off + n ≤ p.memLimit) : Evm.memOk p off n = true := by
  simp [Evm.memOk, h]

theorem evm_mload (hop : (f.code[f.pc]?).getD 0 = 0x51) (hl : ¬ f.stack.length > 1024) {off s}
    (hst : f.stack = off :: s) (hok : off + 32 ≤ p.memLimit) :
    ∃ f', Evm.step p w f = .next w f' ∧ SameCtx f' f ∧ f'.pc = f.pc + 1 ∧ f'.mem = f.mem ∧
      f'.stack = Evm.bytesToNat (Evm.readBytes f.mem off 32) :: s := by
  unfold Evm.step; simp only [hop, hl, ↓reduceIte]
  simp only [hst, memOk_of_le hok, Bool.not_true, Bool.false_eq_true, ↓reduceIte]
  exact ⟨_, rfl, ⟨touch_code .., touch_caller .., touch_value .., touch_this .., touch_calldata .., touch_isStatic .., touch_returndata ..⟩,
    by simp only [touch_pc], by simp only [touch_mem], by simp only [touch_mem]⟩

theorem evm_mstore (hop : (f.code[f.pc]?).getD 0 = 0x52) (hl : ¬ f.stack.length > 1024) {off v s}
    (hst : f.stack = off :: v :: s) (hok : off + 32 ≤ p.memLimit) :
    ∃ f', Evm.step p w f = .next w f' ∧ SameCtx f' f ∧ f'.pc = f.pc + 1 ∧ f'.stack = s ∧
      f'.mem = Evm.writeBytes f.mem off (Evm.natToBytes 32 v) := by
  unfold Evm.step; simp only [hop, hl, ↓reduceIte]
  simp only [hst, memOk_of_le hok, Bool.not_true, Bool.false_eq_true, ↓reduceIte]
  exact ⟨_, rfl, ⟨touch_code .., touch_caller .., touch_value .., touch_this .., touch_calldata .., touch_isStatic .., touch_returndata ..⟩,
    by simp only [touch_pc], rfl, by simp only [touch_mem]⟩

theorem evm_mstore8 (hop : (f.code[f.pc]?).getD 0 = 0x53) (hl : ¬ f.stack.length > 1024) {off v s}
    (hst : f.stack = off :: v :: s) (hok : off + 1 ≤ p.memLimit) :
    ∃ f', Evm.step p w f = .next w f' ∧ SameCtx f' f ∧ f'.pc = f.pc + 1 ∧ f'.stack = s ∧
      f'.mem = Evm.writeBytes f.mem off [v % 256] := by
  unfold Evm.step; simp only [hop, hl, ↓reduceIte]
  simp only [hst, memOk_of_le hok, Bool.not_true, Bool.false_eq_true, ↓reduceIte]
  exact ⟨_, rfl, ⟨touch_code .., touch_caller .., touch_value .., touch_this .., touch_calldata .., touch_isStatic .., touch_returndata ..⟩,
    by simp only [touch_pc], rfl, by simp only [touch_mem]⟩

/-- MLOAD / MSTORE / MSTORE8 with too few operands -/
theorem evm_mem_short {op : Nat} (hop : (f.code[f.pc]?).getD 0 = op) (hl : ¬ f.stack.length > 1024)
    (h : (op = 0x51 ∧ f.stack = []) ∨ ((op = 0x52 ∨ op = 0x53) ∧ f.stack.length < 2)) :
    Evm.step p w f = .halt w .stackUnderflow := by
  rcases h with ⟨rfl, hst⟩ | ⟨rfl | rfl, hst⟩
  · unfold Evm.step; simp only [hop, hl, ↓reduceIte]; simp only [hst]
  · unfold Evm.step; simp only [hop, hl, ↓reduceIte]
    match h : f.stack, hst with
    | [], _ => rfl
    | [_], _ => rfl
  · unfold Evm.step; simp only [hop, hl, ↓reduceIte]
    match h : f.stack, hst with
    | [], _ => rfl
    | [_], _ => rfl

/-- RETURN / REVERT of a memory range within the limit -/
theorem evm_ret {op : Nat} (hop : (f.code[f.pc]?).getD 0 = op) (h : op = 0xf3 ∨ op = 0xfd)
    (hl : ¬ f.stack.length > 1024) {off len s} (hst : f.stack = off :: len :: s)
    (hok : len = 0 ∨ off + len ≤ p.memLimit) :
    Evm.step p w f = .halt w (if op = 0xf3 then .success (Evm.readBytes f.mem off len)
                              else .revert (Evm.readBytes f.mem off len)) := by
  rw [evm_ret_raw hop h hl]; simp only [hst]
  have : Evm.memOk p off len = true := by
    rcases hok with h0 | h0
    · simp [Evm.memOk, h0]
    · exact memOk_of_le h0
  simp only [this, Bool.not_true, Bool.false_eq_true, ↓reduceIte]

theorem memOk_of {p : Evm.Params} {off n : Nat} (h : n = 0 ∨ off + n ≤ p.memLimit) : Evm.memOk p off n = true := by
  rcases h with h | h
  · simp [Evm.memOk, h]
  · exact memOk_of_le h

theorem copyToMem_ok {src : List Nat} {dst srcOff len : Nat} {s : List Nat}
    (hok : len = 0 ∨ dst + len ≤ p.memLimit) :
    ∃ f', Evm.copyToMem p w f s src dst srcOff len = .next w f' ∧ SameCtx f' f ∧ f'.pc = f.pc + 1 ∧ f'.stack = s ∧
      f'.mem = Evm.writeBytes f.mem dst (Evm.readBytes src srcOff len) := by
  unfold Evm.copyToMem
  simp only [memOk_of hok, Bool.not_true, Bool.false_eq_true, ↓reduceIte]
  exact ⟨_, rfl, ⟨touch_code .., touch_caller .., touch_value .., touch_this .., touch_calldata .., touch_isStatic .., touch_returndata ..⟩,
    by simp only [touch_pc], rfl, by simp only [touch_mem]⟩

theorem evm_calldatacopy (hop : (f.code[f.pc]?).getD 0 = 0x37) (hl : ¬ f.stack.length > 1024) {dst src len s}
    (hst : f.stack = dst :: src :: len :: s) (hok : len = 0 ∨ dst + len ≤ p.memLimit) :
    ∃ f', Evm.step p w f = .next w f' ∧ SameCtx f' f ∧ f'.pc = f.pc + 1 ∧ f'.stack = s ∧
      f'.mem = Evm.writeBytes f.mem dst (Evm.readBytes f.calldata src len) := by
  have : Evm.step p w f = Evm.copyToMem p w f s f.calldata dst src len := by
    unfold Evm.step; simp only [hop, hl, ↓reduceIte]; simp only [hst]
  rw [this]; exact copyToMem_ok hok

theorem evm_codecopy (hop : (f.code[f.pc]?).getD 0 = 0x39) (hl : ¬ f.stack.length > 1024) {dst src len s}
    (hst : f.stack = dst :: src :: len :: s) (hok : len = 0 ∨ dst + len ≤ p.memLimit) :
    ∃ f', Evm.step p w f = .next w f' ∧ SameCtx f' f ∧ f'.pc = f.pc + 1 ∧ f'.stack = s ∧
      f'.mem = Evm.writeBytes f.mem dst (Evm.readBytes f.code src len) := by
  have : Evm.step p w f = Evm.copyToMem p w f s f.code dst src len := by
    unfold Evm.step; simp only [hop, hl, ↓reduceIte]; simp only [hst]
  rw [this]; exact copyToMem_ok hok

theorem evm_copy_short {op : Nat} (hop : (f.code[f.pc]?).getD 0 = op) (h : op = 0x37 ∨ op = 0x39)
    (hl : ¬ f.stack.length > 1024) (hst : f.stack.length < 3) : Evm.step p w f = .halt w .stackUnderflow := by
  rcases h with rfl | rfl <;>
    (unfold Evm.step; simp only [hop, hl, ↓reduceIte]
     match h : f.stack, hst with
     | [], _ => rfl
     | [_], _ => rfl
     | [_, _], _ => rfl)

theorem evm_returndatasize (hop : (f.code[f.pc]?).getD 0 = 0x3d) (hl : ¬ f.stack.length > 1024) :
    Evm.step p w f = .next w (Evm.push f f.returndata.length) := by
  unfold Evm.step; simp only [hop, hl, ↓reduceIte]

theorem evm_returndatacopy (hop : (f.code[f.pc]?).getD 0 = 0x3e) (hl : ¬ f.stack.length > 1024) {dst src len s}
    (hst : f.stack = dst :: src :: len :: s) :
    Evm.step p w f =
      if src + len > f.returndata.length then .halt w .outOfBoundsRead
      else Evm.copyToMem p w f s f.returndata dst src len := by
  unfold Evm.step; simp only [hop, hl, ↓reduceIte]; simp only [hst]

theorem evm_returndatacopy_short (hop : (f.code[f.pc]?).getD 0 = 0x3e) (hl : ¬ f.stack.length > 1024)
    (hst : f.stack.length < 3) : Evm.step p w f = .halt w .stackUnderflow := by
  unfold Evm.step; simp only [hop, hl, ↓reduceIte]
  match h : f.stack, hst with
  | [], _ => rfl
  | [_], _ => rfl
  | [_, _], _ => rfl

/-! ### storage -/

theorem evm_sload (hop : (f.code[f.pc]?).getD 0 = 0x54) (hl : ¬ f.stack.length > 1024) :
    Evm.step p w f = Evm.op1 w f fun slot => Evm.lookupD w.storage (f.this, slot) := by
  unfold Evm.step; simp only [hop, hl, ↓reduceIte]

theorem evm_tload (hop : (f.code[f.pc]?).getD 0 = 0x5c) (hl : ¬ f.stack.length > 1024) :
    Evm.step p w f = Evm.op1 w f fun slot => Evm.lookupD w.transient (f.this, slot) := by
  unfold Evm.step; simp only [hop, hl, ↓reduceIte]

theorem evm_sstore (hop : (f.code[f.pc]?).getD 0 = 0x55) (hl : ¬ f.stack.length > 1024) {slot v s}
    (hst : f.stack = slot :: v :: s) :
    Evm.step p w f =
      if f.isStatic then .halt w .writeInStatic
      else .next { w with storage := Evm.insert w.storage (f.this, slot) v } { f with stack := s, pc := f.pc + 1 } := by
  unfold Evm.step; simp only [hop, hl, ↓reduceIte]; simp only [hst]

theorem evm_tstore (hop : (f.code[f.pc]?).getD 0 = 0x5d) (hl : ¬ f.stack.length > 1024) {slot v s}
    (hst : f.stack = slot :: v :: s) :
    Evm.step p w f =
      if f.isStatic then .halt w .writeInStatic
      else .next { w with transient := Evm.insert w.transient (f.this, slot) v }
        { f with stack := s, pc := f.pc + 1 } := by
  unfold Evm.step; simp only [hop, hl, ↓reduceIte]; simp only [hst]

theorem evm_store_short {op : Nat} (hop : (f.code[f.pc]?).getD 0 = op) (h : op = 0x55 ∨ op = 0x5d)
    (hl : ¬ f.stack.length > 1024) (hst : f.stack.length < 2) : Evm.step p w f = .halt w .stackUnderflow := by
  rcases h with rfl | rfl <;>
    (unfold Evm.step; simp only [hop, hl, ↓reduceIte]
     match h : f.stack, hst with
     | [], _ => rfl
     | [_], _ => rfl)

end
end HalmosVerif.Lemmas.Sevm
