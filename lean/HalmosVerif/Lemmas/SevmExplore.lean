/-
Lemmas.SevmExplore — the worklist loop `explore`: soundness and completeness by induction on the model's fuel, with
invariants over the worklist and the accumulated result. No bound on program size, number of steps or input values
appears in any statement (the fuel is universally quantified; running out of it is a reported flag).
-/
import HalmosVerif.Lemmas.SevmSim
import HalmosVerif.Model.SevmCalls

set_option linter.unusedSectionVars false
set_option linter.unusedSimpArgs false
set_option linter.unusedVariables false

namespace HalmosVerif.Lemmas.Sevm
open HalmosVerif.Model HalmosVerif.Model.Sevm HalmosVerif.Spec HalmosVerif.Lemmas.Word

/-- the state `run` starts from -/
def initState : SState := { pc := 0, stack := [], path := [] }

/-- every frame related to a symbolic state of the run belongs to the same account -/
theorem R.this_eq {I : Interp} {env : Env} {code : List Nat} {p : Evm.Params} {st st' : SState} {f f' : Evm.Frame}
    (h : R I env code p st f) (h' : R I env code p st' f') : f'.this = f.this :=
  h'.env.address.2.2.symm.trans h.env.address.2.2

theorem evm_overflow {p : Evm.Params} {w : Evm.World} {f : Evm.Frame} (h : f.stack.length > 1024) :
    Evm.step p w f = .halt w .stackOverflow := by
  unfold Evm.step; simp only [h, ↓reduceIte]

theorem explore_nil (s : Simp) (o : Oracle) (cfg : Cfg) (env : Env) (code : List Nat) (fuel steps : Nat)
    (acc : Result) : explore s o cfg env code fuel steps [] acc = acc := by
  cases fuel <;> rfl

theorem explore_zero (s : Simp) (o : Oracle) (cfg : Cfg) (env : Env) (code : List Nat) (steps : Nat)
    (st : SState) (wl : List SState) (acc : Result) :
    explore s o cfg env code 0 steps (st :: wl) acc = { acc with outOfFuel := true } := rfl

theorem explore_succ (s : Simp) (o : Oracle) (cfg : Cfg) (env : Env) (code : List Nat) (fuel steps : Nat)
    (st : SState) (wl : List SState) (acc : Result) :
    explore s o cfg env code (fuel + 1) steps (st :: wl) acc =
      if cfg.depth ≠ 0 ∧ steps + 1 > cfg.depth then
        explore s o cfg env code fuel (steps + 1) wl { acc with depthCut := true }
      else
        explore s o cfg env code fuel (steps + 1) ((stepL s o cfg env code st).next.reverse ++ wl)
          { acc with ends := acc.ends ++ (stepL s o cfg env code st).ends,
                     boundedLoops := acc.boundedLoops ++ (stepL s o cfg env code st).bounded } := rfl

/-! ### soundness -/

section
variable (s : Simp) (o : Oracle) (cfg : Cfg) (env : Env) (code : List Nat) (p : Evm.Params) (w : Evm.World)

/-- a worklist state is *good*: every valuation satisfying its path drives the concrete machine from any related
    initial frame (in the start world `w`, whose storage for the executing account is zero) to a world and a frame
    related to it, the world being described by its storage maps -/
def GoodState (st : SState) : Prop :=
  ∀ I : Interp, I.Std → ∀ f0, R I env code p initState f0 → WRel I w w f0.this [] [] → Sat I st.path →
    ∃ w' f, CReach p (w, f0) (w', f) ∧ R I env code p st f ∧ WRel I w w' f0.this st.storage st.transient

/-- an end state is *good*: if it is an untagged EVM outcome of kind `h`, every valuation satisfying its path drives
    the concrete machine to a world and a frame at which it halts with exactly `h` and the end state's data evaluated,
    in the world the end state's storage maps describe -/
def GoodEnd (e : EndState) : Prop :=
  e.tag = .normal → ∀ h, e.out = .halt h → ∀ I : Interp, I.Std → ∀ f0, R I env code p initState f0 →
    WRel I w w f0.this [] [] → Sat I e.st.path →
      ∃ w' f, CReach p (w, f0) (w', f) ∧ Evm.step p w' f = .halt w' (haltWith h (e.data.map (·.eval I))) ∧
        WRel I w w' f0.this e.st.storage e.st.transient

end

section
variable {s : Simp} {o : Oracle} {cfg : Cfg} {env : Env} {code : List Nat} {p : Evm.Params} {w : Evm.World}

theorem goodState_init : GoodState env code p w initState :=
  fun _ _ f0 hR0 hW0 _ => ⟨w, f0, CReach.refl _, hR0, hW0⟩

theorem step_good (hs : SimpSound s) (hmem : cfg.maxMem + 32 ≤ p.memLimit) (hcode : ∀ b ∈ code, b < 256)
    {st : SState}
    (hg : GoodState env code p w st) :
    (∀ st' ∈ (stepL s o cfg env code st).next, GoodState env code p w st') ∧
    (∀ e ∈ (stepL s o cfg env code st).ends, GoodEnd env code p w e) := by
  refine ⟨?_, ?_⟩
  · intro st' hm I hI f0 hR0 hW0 hsat'
    obtain ⟨ext, hp⟩ := stepL_next_path hm
    have hsat : Sat I st.path := by rw [hp] at hsat'; exact (sat_append.1 hsat').1
    obtain ⟨w1, f, hreach, hR, hW⟩ := hg I hI f0 hR0 hW0 hsat
    have hthis := hR0.this_eq hR
    rw [← hthis] at hW
    obtain ⟨w2, f', hr', hR', hW'⟩ :=
      (stepL_sound (w := w1) (o := o) (cfg := cfg) hs hI hR hsat hmem hcode hW).1 st' hm hsat'
    rw [hthis] at hW'
    exact ⟨w2, f', hreach.trans hr', hR', hW'⟩
  · intro e hm htag h hout I hI f0 hR0 hW0 hsat'
    have hsat : Sat I st.path := by rw [← stepL_end_path hm]; exact hsat'
    obtain ⟨w1, f, hreach, hR, hW⟩ := hg I hI f0 hR0 hW0 hsat
    have hthis := hR0.this_eq hR
    have hW1 := hW
    rw [← hthis] at hW1
    obtain ⟨hstep, hs1, ht1, _⟩ :=
      (stepL_sound (w := w1) (o := o) (cfg := cfg) hs hI hR hsat hmem hcode hW1).2 e hm htag h hout
    exact ⟨w1, f, hreach, hstep, by rw [hs1, ht1]; exact hW⟩

/-- **explore_sound.** Good worklist and good accumulated end states give good end states at the end. -/
theorem explore_sound (hs : SimpSound s) (hmem : cfg.maxMem + 32 ≤ p.memLimit) (hcode : ∀ b ∈ code, b < 256)
    (fuel : Nat) : ∀ (steps : Nat) (wl : List SState) (acc : Result),
    (∀ st ∈ wl, GoodState env code p w st) → (∀ e ∈ acc.ends, GoodEnd env code p w e) →
    ∀ e ∈ (explore s o cfg env code fuel steps wl acc).ends, GoodEnd env code p w e := by
  induction fuel with
  | zero =>
    intro steps wl acc hwl hacc
    cases wl with
    | nil => rw [explore_nil]; exact hacc
    | cons st wl => rw [explore_zero]; exact hacc
  | succ fuel ih =>
    intro steps wl acc hwl hacc
    cases wl with
    | nil => rw [explore_nil]; exact hacc
    | cons st wl =>
      rw [explore_succ]
      split
      · exact ih _ _ _ (fun x hx => hwl x (List.mem_cons_of_mem _ hx)) hacc
      · obtain ⟨hn, he⟩ := step_good (o := o) (cfg := cfg) hs hmem hcode (hwl st (List.mem_cons_self ..))
        refine ih _ _ _ ?_ ?_
        · intro x hx
          rcases List.mem_append.1 hx with hx | hx
          · exact hn x (List.mem_reverse.1 hx)
          · exact hwl x (List.mem_cons_of_mem _ hx)
        · intro e hm
          rcases List.mem_append.1 hm with hm | hm
          · exact hacc e hm
          · exact he e hm

end

/-! ### completeness -/

/-- the run reports that it did not explore everything -/
def Flagged (res : Result) : Prop :=
  res.boundedLoops ≠ [] ∨ res.depthCut = true ∨ res.outOfFuel = true

/-- the concrete result `r = (world, outcome)` of the valuation `I` is accounted for by the run's result -/
def Covered (I : Interp) (w0 : Evm.World) (this : Nat) (r : Evm.World × Evm.Halt) (res : Result) : Prop :=
  (∃ e ∈ res.ends, EndCovers I w0 this r e) ∨ Flagged res

theorem Covered.mono {I : Interp} {w0 : Evm.World} {this : Nat} {r : Evm.World × Evm.Halt} {a b : Result}
    (he : ∀ e ∈ a.ends, e ∈ b.ends)
    (hb : a.boundedLoops ≠ [] → b.boundedLoops ≠ []) (hd : a.depthCut = true → b.depthCut = true)
    (hf : a.outOfFuel = true → b.outOfFuel = true) (hc : Covered I w0 this r a) : Covered I w0 this r b := by
  rcases hc with ⟨e, hm, hcov⟩ | hb' | hd' | hf'
  · exact Or.inl ⟨e, he e hm, hcov⟩
  · exact Or.inr (Or.inl (hb hb'))
  · exact Or.inr (Or.inr (Or.inl (hd hd')))
  · exact Or.inr (Or.inr (Or.inr (hf hf')))

section
variable {s : Simp} {o : Oracle} {cfg : Cfg} {env : Env} {code : List Nat} {p : Evm.Params}

/-- nothing that covers an outcome is ever removed from the result -/
theorem explore_mono {I : Interp} {w0 : Evm.World} {this : Nat} {r : Evm.World × Evm.Halt} (fuel : Nat) :
    ∀ (steps : Nat) (wl : List SState) (acc : Result),
    Covered I w0 this r acc → Covered I w0 this r (explore s o cfg env code fuel steps wl acc) := by
  induction fuel with
  | zero =>
    intro steps wl acc hc
    cases wl with
    | nil => rw [explore_nil]; exact hc
    | cons st wl =>
      rw [explore_zero]
      exact Covered.mono (a := acc) (fun _ h => h) (fun h => h) (fun h => h) (fun _ => rfl) hc
  | succ fuel ih =>
    intro steps wl acc hc
    cases wl with
    | nil => rw [explore_nil]; exact hc
    | cons st wl =>
      rw [explore_succ]
      split
      · exact ih _ _ _ (Covered.mono (a := acc) (fun _ h => h) (fun h => h) (fun _ => rfl) (fun h => h) hc)
      · refine ih _ _ _ (Covered.mono (a := acc) ?_ ?_ (fun h => h) (fun h => h) hc)
        · intro e hm; exact List.mem_append_left _ hm
        · intro hb; simp only [ne_eq, List.append_eq_nil_iff, not_and]; intro h0; exact absurd h0 hb

/-- **explore_complete.** If some worklist state is related to a concrete world and frame (of the account `this`, the
    world described by the state's storage maps) from which the machine terminates with the result `r` and `I`
    satisfies its path, the final result covers `r`. -/
theorem explore_complete (hs : SimpSound s) (ho : OracleSound o) (hmem : cfg.maxMem + 32 ≤ p.memLimit)
    (hcode : ∀ b ∈ code, b < 256) {I : Interp} (hI : I.Std) {w0 : Evm.World} {this : Nat}
    {r : Evm.World × Evm.Halt} (fuel : Nat) :
    ∀ (steps : Nat) (wl : List SState) (acc : Result),
    (∃ st ∈ wl, Sat I st.path ∧ ∃ w f, R I env code p st f ∧ f.this = this ∧
        WRel I w0 w this st.storage st.transient ∧ Halts p w f r) →
    Covered I w0 this r (explore s o cfg env code fuel steps wl acc) := by
  induction fuel with
  | zero =>
    intro steps wl acc ⟨st, hm, _⟩
    cases wl with
    | nil => cases hm
    | cons st0 wl => rw [explore_zero]; exact Or.inr (Or.inr (Or.inr rfl))
  | succ fuel ih =>
    intro steps wl acc ⟨st, hm, hsat, w, f, hR, hthis, hW, hh⟩
    cases wl with
    | nil => cases hm
    | cons st0 wl =>
      rw [explore_succ]
      split
      · exact explore_mono _ _ _ _ (Or.inr (Or.inr (Or.inl rfl)))
      · rcases List.mem_cons.1 hm with rfl | hm
        · subst hthis
          rcases stepL_complete (cfg := cfg) hs ho hI hR hmem hcode hW hsat hh with
            ⟨st', hm', hsat', w', f', _, hR', hW', hh'⟩ | ⟨e, hme, hcov⟩ | hb
          · exact ih _ _ _ ⟨st', List.mem_append_left _ (List.mem_reverse.2 hm'), hsat', w', f', hR',
              hR.this_eq hR', hW', hh'⟩
          · exact explore_mono _ _ _ _ (Or.inl ⟨e, List.mem_append_right _ hme, hcov⟩)
          · refine explore_mono _ _ _ _ (Or.inr (Or.inl ?_))
            simp only [ne_eq, List.append_eq_nil_iff, not_and]
            intro _; exact hb
        · exact ih _ _ _ ⟨st, List.mem_append_right _ hm, hsat, w, f, hR, hthis, hW, hh⟩

end
end HalmosVerif.Lemmas.Sevm
