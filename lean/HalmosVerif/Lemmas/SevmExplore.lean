/-
Lemmas.SevmExplore — the worklist loop `explore`: soundness and completeness by induction on the model's fuel, with
invariants over the worklist and the accumulated result. No bound on program size, number of steps or input values
appears in any statement (the fuel is universally quantified; running out of it is a reported flag).
-/
import HalmosVerif.Lemmas.SevmSim

set_option linter.unusedSectionVars false
set_option linter.unusedSimpArgs false
set_option linter.unusedVariables false

namespace HalmosVerif.Lemmas.Sevm
open HalmosVerif.Model HalmosVerif.Model.Sevm HalmosVerif.Spec HalmosVerif.Lemmas.Word

/-- the state `run` starts from -/
def initState : SState := { pc := 0, stack := [], path := [] }

/-- the concrete run from `f0` reaches a frame whose stack exceeds the EVM limit of 1024 items
    (halmos does not model the limit, so this case is kept explicit in every statement) -/
def Overflows (p : Evm.Params) (w : Evm.World) (f0 : Evm.Frame) : Prop :=
  ∃ f, CReach p w f0 f ∧ f.stack.length > 1024

theorem evm_overflow {p : Evm.Params} {w : Evm.World} {f : Evm.Frame} (h : f.stack.length > 1024) :
    Evm.step p w f = .halt w .stackOverflow := by
  unfold Evm.step; simp only [h, ↓reduceIte]

theorem explore_nil (s : Simp) (o : Oracle) (cfg : Cfg) (env : Env) (code : List Nat) (fuel steps : Nat)
    (acc : Result) : explore s o cfg env code fuel steps [] acc = acc := by
  cases fuel <;> rfl

theorem explore_zero (s : Simp) (o : Oracle) (cfg : Cfg) (env : Env) (code : List Nat) (steps : Nat)
    (st : SState) (wl : List SState) (acc : Result) :
    explore s o cfg env code 0 steps (st :: wl) acc = { acc with outOfFuel := true } := rfl

theorem explore_succ (s : Simp) (o : Oracle) (cfg : Cfg) (env : Env) (code : List Nat) (fuel steps : Nat)
    (st : SState) (wl : List SState) (acc : Result) :
    explore s o cfg env code (fuel + 1) steps (st :: wl) acc =
      if cfg.depth ≠ 0 ∧ steps + 1 > cfg.depth then
        explore s o cfg env code fuel (steps + 1) wl { acc with depthCut := true }
      else
        explore s o cfg env code fuel (steps + 1) ((step s o cfg env code st).next.reverse ++ wl)
          { acc with ends := acc.ends ++ (step s o cfg env code st).ends,
                     boundedLoops := acc.boundedLoops ++ (step s o cfg env code st).bounded } := rfl

/-! ### soundness -/

section
variable (s : Simp) (o : Oracle) (cfg : Cfg) (env : Env) (code : List Nat) (p : Evm.Params) (w : Evm.World)

/-- a worklist state is *good*: every valuation satisfying its path drives the concrete machine from any related
    initial frame to a frame related to it (or into a stack overflow) -/
def GoodState (st : SState) : Prop :=
  ∀ I : Interp, I.Std → ∀ f0, R I env code p initState f0 → Sat I st.path →
    (∃ f, CReach p w f0 f ∧ R I env code p st f) ∨ Overflows p w f0

/-- an end state is *good*: if it is an untagged EVM outcome of kind `h`, every valuation satisfying its path drives
    the concrete machine to a frame at which it halts with exactly `h` and the end state's data evaluated (or into a
    stack overflow) -/
def GoodEnd (e : EndState) : Prop :=
  e.tag = .normal → ∀ h, e.out = .halt h → ∀ I : Interp, I.Std → ∀ f0, R I env code p initState f0 →
    Sat I e.st.path →
      (∃ f, CReach p w f0 f ∧ Evm.step p w f = .halt w (haltWith h (e.data.map (·.eval I)))) ∨ Overflows p w f0

end

section
variable {s : Simp} {o : Oracle} {cfg : Cfg} {env : Env} {code : List Nat} {p : Evm.Params} {w : Evm.World}

theorem goodState_init : GoodState env code p w initState :=
  fun _ _ f0 hR0 _ => Or.inl ⟨f0, CReach.refl f0, hR0⟩

theorem step_good (hs : SimpSound s) (hmem : cfg.maxMem + 32 ≤ p.memLimit) (hcode : ∀ b ∈ code, b < 256)
    {st : SState}
    (hg : GoodState env code p w st) :
    (∀ st' ∈ (step s o cfg env code st).next, GoodState env code p w st') ∧
    (∀ e ∈ (step s o cfg env code st).ends, GoodEnd env code p w e) := by
  refine ⟨?_, ?_⟩
  · intro st' hm I hI f0 hR0 hsat'
    obtain ⟨ext, hp⟩ := step_next_path hm
    have hsat : Sat I st.path := by rw [hp] at hsat'; exact (sat_append.1 hsat').1
    rcases hg I hI f0 hR0 hsat with ⟨f, hreach, hR⟩ | hov
    · by_cases hl : f.stack.length ≤ 1024
      · obtain ⟨f', hr', hR'⟩ := (step_sound (w := w) (o := o) (cfg := cfg) hs hI hR hsat hl hmem hcode).1 st' hm hsat'
        exact Or.inl ⟨f', hreach.trans hr', hR'⟩
      · exact Or.inr ⟨f, hreach, by omega⟩
    · exact Or.inr hov
  · intro e hm htag h hout I hI f0 hR0 hsat'
    have hsat : Sat I st.path := by rw [← step_end_path hm]; exact hsat'
    rcases hg I hI f0 hR0 hsat with ⟨f, hreach, hR⟩ | hov
    · by_cases hl : f.stack.length ≤ 1024
      · exact Or.inl ⟨f, hreach, (step_sound (w := w) (o := o) (cfg := cfg) hs hI hR hsat hl hmem hcode).2 e hm htag h hout⟩
      · exact Or.inr ⟨f, hreach, by omega⟩
    · exact Or.inr hov

/-- **explore_sound.** Good worklist and good accumulated end states give good end states at the end. -/
theorem explore_sound (hs : SimpSound s) (hmem : cfg.maxMem + 32 ≤ p.memLimit) (hcode : ∀ b ∈ code, b < 256)
    (fuel : Nat) : ∀ (steps : Nat) (wl : List SState) (acc : Result),
    (∀ st ∈ wl, GoodState env code p w st) → (∀ e ∈ acc.ends, GoodEnd env code p w e) →
    ∀ e ∈ (explore s o cfg env code fuel steps wl acc).ends, GoodEnd env code p w e := by
  induction fuel with
  | zero =>
    intro steps wl acc hwl hacc
    cases wl with
    | nil => rw [explore_nil]; exact hacc
    | cons st wl => rw [explore_zero]; exact hacc
  | succ fuel ih =>
    intro steps wl acc hwl hacc
    cases wl with
    | nil => rw [explore_nil]; exact hacc
    | cons st wl =>
      rw [explore_succ]
      split
      · exact ih _ _ _ (fun x hx => hwl x (List.mem_cons_of_mem _ hx)) hacc
      · obtain ⟨hn, he⟩ := step_good (o := o) (cfg := cfg) hs hmem hcode (hwl st (List.mem_cons_self ..))
        refine ih _ _ _ ?_ ?_
        · intro x hx
          rcases List.mem_append.1 hx with hx | hx
          · exact hn x (List.mem_reverse.1 hx)
          · exact hwl x (List.mem_cons_of_mem _ hx)
        · intro e hm
          rcases List.mem_append.1 hm with hm | hm
          · exact hacc e hm
          · exact he e hm

end

/-! ### completeness -/

/-- the run reports that it did not explore everything -/
def Flagged (res : Result) : Prop :=
  res.boundedLoops ≠ [] ∨ res.depthCut = true ∨ res.outOfFuel = true

/-- the concrete outcome `h` of the valuation `I` is accounted for by the result -/
def Covered (I : Interp) (h : Evm.Halt) (res : Result) : Prop :=
  (∃ e ∈ res.ends, EndCovers I h e) ∨ Flagged res

theorem Covered.mono {I : Interp} {h : Evm.Halt} {a b : Result} (he : ∀ e ∈ a.ends, e ∈ b.ends)
    (hb : a.boundedLoops ≠ [] → b.boundedLoops ≠ []) (hd : a.depthCut = true → b.depthCut = true)
    (hf : a.outOfFuel = true → b.outOfFuel = true) (hc : Covered I h a) : Covered I h b := by
  rcases hc with ⟨e, hm, hcov⟩ | hb' | hd' | hf'
  · exact Or.inl ⟨e, he e hm, hcov⟩
  · exact Or.inr (Or.inl (hb hb'))
  · exact Or.inr (Or.inr (Or.inl (hd hd')))
  · exact Or.inr (Or.inr (Or.inr (hf hf')))

section
variable {s : Simp} {o : Oracle} {cfg : Cfg} {env : Env} {code : List Nat} {p : Evm.Params} {w : Evm.World}

/-- nothing that covers an outcome is ever removed from the result -/
theorem explore_mono {I : Interp} {h : Evm.Halt} (fuel : Nat) : ∀ (steps : Nat) (wl : List SState) (acc : Result),
    Covered I h acc → Covered I h (explore s o cfg env code fuel steps wl acc) := by
  induction fuel with
  | zero =>
    intro steps wl acc hc
    cases wl with
    | nil => rw [explore_nil]; exact hc
    | cons st wl =>
      rw [explore_zero]
      exact Covered.mono (a := acc) (fun _ h => h) (fun h => h) (fun h => h) (fun _ => rfl) hc
  | succ fuel ih =>
    intro steps wl acc hc
    cases wl with
    | nil => rw [explore_nil]; exact hc
    | cons st wl =>
      rw [explore_succ]
      split
      · exact ih _ _ _ (Covered.mono (a := acc) (fun _ h => h) (fun h => h) (fun _ => rfl) (fun h => h) hc)
      · refine ih _ _ _ (Covered.mono (a := acc) ?_ ?_ (fun h => h) (fun h => h) hc)
        · intro e hm; exact List.mem_append_left _ hm
        · intro hb; simp only [ne_eq, List.append_eq_nil_iff, not_and]; intro h0; exact absurd h0 hb

/-- **explore_complete.** If some worklist state is related to a concrete frame from which the machine terminates with
    `h` (not a stack overflow) and `I` satisfies its path, the final result covers `h`. -/
theorem explore_complete (hs : SimpSound s) (ho : OracleSound o) (hmem : cfg.maxMem + 32 ≤ p.memLimit)
    (hcode : ∀ b ∈ code, b < 256) {I : Interp} (hI : I.Std) {w' : Evm.World}
    {h : Evm.Halt} (hne : h ≠ .stackOverflow) (fuel : Nat) : ∀ (steps : Nat) (wl : List SState) (acc : Result),
    (∃ st ∈ wl, Sat I st.path ∧ ∃ f, R I env code p st f ∧ Halts p w f (w', h)) →
    Covered I h (explore s o cfg env code fuel steps wl acc) := by
  induction fuel with
  | zero =>
    intro steps wl acc ⟨st, hm, _⟩
    cases wl with
    | nil => cases hm
    | cons st0 wl => rw [explore_zero]; exact Or.inr (Or.inr (Or.inr rfl))
  | succ fuel ih =>
    intro steps wl acc ⟨st, hm, hsat, f, hR, hh⟩
    cases wl with
    | nil => cases hm
    | cons st0 wl =>
      rw [explore_succ]
      split
      · exact explore_mono _ _ _ _ (Or.inr (Or.inr (Or.inl rfl)))
      · rcases List.mem_cons.1 hm with rfl | hm
        · have hl : f.stack.length ≤ 1024 := by
            by_contra hgt
            have := (halts_halt (evm_overflow (p := p) (w := w) (f := f) (by omega))).1 hh
            cases this
            exact hne rfl
          rcases step_complete (cfg := cfg) hs ho hI hR hl hmem hcode hsat hh with
            ⟨st', hm', hsat', f', hR', hh'⟩ | ⟨e, hme, hcov⟩ | hb
          · exact ih _ _ _ ⟨st', List.mem_append_left _ (List.mem_reverse.2 hm'), hsat', f', hR', hh'⟩
          · exact explore_mono _ _ _ _ (Or.inl ⟨e, List.mem_append_right _ hme, hcov⟩)
          · refine explore_mono _ _ _ _ (Or.inr (Or.inl ?_))
            simp only [ne_eq, List.append_eq_nil_iff, not_and]
            intro _; exact hb
        · exact ih _ _ _ ⟨st, List.mem_append_right _ hm, hsat, f, hR, hh⟩

end
end HalmosVerif.Lemmas.Sevm
