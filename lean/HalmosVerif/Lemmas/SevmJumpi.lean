/-
Lemmas.SevmJumpi — what `SEVM.jumpi` (Model.Sevm.jumpi) can return, by exhaustive case analysis over the two
`Exec.check` verdicts, the two visit counters against `--loop`, and the validity of the destination.
None of these lemmas assumes anything about the oracle.
-/
import HalmosVerif.Lemmas.SevmRel

set_option linter.unusedSimpArgs false
set_option linter.unusedVariables false

namespace HalmosVerif.Lemmas.Sevm
open HalmosVerif.Model HalmosVerif.Model.Sevm HalmosVerif.Spec

/-- `st'` is the true-branch successor of `jumpi` on `st`: the simplified condition appended (`Path.append`) to a copy
    of `st` positioned at or just after the destination, with some visit counters -/
def IsTrueSucc (s : Simp) (st : SState) (target : Nat) (c : B) (st' : SState) : Prop :=
  ∃ pc' vis', st' = addCond s { st with pc := pc', visits := vis' } (s.b c) ∧ (pc' = target ∨ pc' = target + 1)

/-- `st'` is the false-branch successor: the simplified negation appended, positioned at the next instruction -/
def IsFalseSucc (s : Simp) (st : SState) (nextPc : Nat) (c : B) (st' : SState) : Prop :=
  ∃ vis', st' = addCond s { st with pc := nextPc, visits := vis' } (s.b (.not (s.b c)))

section
variable {s : Simp} {o : Oracle} {cfg : Cfg} {code : List Nat} {st : SState} {target : Nat} {c : B} {nextPc : Nat}

theorem isTrueSucc_at (vis' : List (JumpId × (Nat × Nat))) :
    IsTrueSucc s st target c (addCond s { st with pc := target, visits := vis' } (s.b c)) :=
  ⟨_, _, rfl, Or.inl rfl⟩

theorem isTrueSucc_after (vis' : List (JumpId × (Nat × Nat))) :
    IsTrueSucc s st target c (addCond s { st with pc := target + 1, visits := vis' } (s.b c)) :=
  ⟨_, _, rfl, Or.inr rfl⟩

theorem isFalseSucc_mk (vis' : List (JumpId × (Nat × Nat))) :
    IsFalseSucc s st nextPc c (addCond s { st with pc := nextPc, visits := vis' } (s.b (.not (s.b c)))) :=
  ⟨_, rfl⟩

/-- every successor is the true branch (and then the destination is valid) or the false branch -/
theorem jumpi_next {st' : SState} (h : st' ∈ (jumpi s o cfg code st target c nextPc).next) :
    (IsTrueSucc s st target c st' ∧ target ∈ Evm.validJumpdests code) ∨ IsFalseSucc s st nextPc c st' := by
  unfold jumpi at h
  simp only at h
  generalize exCheck s o st.path (s.b c) = ct at h
  generalize exCheck s o st.path (s.b (.not (s.b c))) = cf at h
  generalize lookupVisits st.visits (jumpId code st) = vis at h
  cases ct <;> cases cf <;> by_cases h1 : vis.1 < cfg.loop <;> by_cases h2 : vis.2 < cfg.loop <;>
    by_cases hv : target ∈ Evm.validJumpdests code <;>
    simp [haltOut, h1, h2, hv] at h <;>
    first
      | (rcases h with rfl | rfl <;> simp [hv, isTrueSucc_at, isTrueSucc_after, isFalseSucc_mk])
      | (subst h; simp [hv, isTrueSucc_at, isTrueSucc_after, isFalseSucc_mk])

/-- the only end state `jumpi` itself produces is the tagged invalid-destination one -/
theorem jumpi_ends {e : EndState} (h : e ∈ (jumpi s o cfg code st target c nextPc).ends) :
    e.tag = .jumpiInvalidSym ∧ e.st = st := by
  unfold jumpi at h
  simp only at h
  generalize exCheck s o st.path (s.b c) = ct at h
  generalize exCheck s o st.path (s.b (.not (s.b c))) = cf at h
  generalize lookupVisits st.visits (jumpId code st) = vis at h
  cases ct <;> cases cf <;> by_cases h1 : vis.1 < cfg.loop <;> by_cases h2 : vis.2 < cfg.loop <;>
    by_cases hv : target ∈ Evm.validJumpdests code <;>
    simp [haltOut, h1, h2, hv] at h <;> (subst h; exact ⟨rfl, rfl⟩)

theorem jumpi_bounded :
    (jumpi s o cfg code st target c nextPc).bounded = [] ∨
    (jumpi s o cfg code st target c nextPc).bounded = [jumpId code st] := by
  unfold jumpi
  simp only
  generalize exCheck s o st.path (s.b c) = ct
  generalize exCheck s o st.path (s.b (.not (s.b c))) = cf
  generalize lookupVisits st.visits (jumpId code st) = vis
  cases ct <;> cases cf <;> by_cases h1 : vis.1 < cfg.loop <;> by_cases h2 : vis.2 < cfg.loop <;>
    by_cases hv : target ∈ Evm.validJumpdests code <;>
    simp [haltOut, h1, h2, hv]

/-- **loop_bound_flag (true side).** If `check(cond_true)` is not `unsat`, the true branch is followed, or the jump id is
    recorded in `bounded_loops`, or the state ended in the tagged invalid-destination halt. -/
theorem jumpi_true_cases (h : exCheck s o st.path (s.b c) ≠ .unsat) :
    (∃ st' ∈ (jumpi s o cfg code st target c nextPc).next,
        IsTrueSucc s st target c st' ∧ target ∈ Evm.validJumpdests code) ∨
    (jumpi s o cfg code st target c nextPc).bounded = [jumpId code st] ∨
    (∃ e ∈ (jumpi s o cfg code st target c nextPc).ends, e.tag = .jumpiInvalidSym ∧ e.st = st) := by
  unfold jumpi
  simp only
  generalize exCheck s o st.path (s.b c) = ct at h ⊢
  generalize exCheck s o st.path (s.b (.not (s.b c))) = cf
  generalize lookupVisits st.visits (jumpId code st) = vis
  cases ct <;> cases cf <;> by_cases h1 : vis.1 < cfg.loop <;> by_cases h2 : vis.2 < cfg.loop <;>
    by_cases hv : target ∈ Evm.validJumpdests code <;>
    simp [haltOut, h1, h2, hv, isTrueSucc_at, isTrueSucc_after, isFalseSucc_mk] at h ⊢

/-- **loop_bound_flag (false side).** -/
theorem jumpi_false_cases (h : exCheck s o st.path (s.b (.not (s.b c))) ≠ .unsat) :
    (∃ st' ∈ (jumpi s o cfg code st target c nextPc).next, IsFalseSucc s st nextPc c st') ∨
    (jumpi s o cfg code st target c nextPc).bounded = [jumpId code st] ∨
    (∃ e ∈ (jumpi s o cfg code st target c nextPc).ends, e.tag = .jumpiInvalidSym ∧ e.st = st) := by
  unfold jumpi
  simp only
  generalize exCheck s o st.path (s.b (.not (s.b c))) = cf at h ⊢
  generalize exCheck s o st.path (s.b c) = ct
  generalize lookupVisits st.visits (jumpId code st) = vis
  cases ct <;> cases cf <;> by_cases h1 : vis.1 < cfg.loop <;> by_cases h2 : vis.2 < cfg.loop <;>
    by_cases hv : target ∈ Evm.validJumpdests code <;>
    simp [haltOut, h1, h2, hv, isTrueSucc_at, isTrueSucc_after, isFalseSucc_mk] at h ⊢

/-- **concrete_loops_uncut (oracle-classified).** When the two checks classify the condition as `must_true` or
    `must_false`, nothing is recorded in `bounded_loops` and no visit counter changes — for every `--loop`, even 0. -/
theorem jumpi_must
    (h : (exCheck s o st.path (s.b c) = .sat ∧ exCheck s o st.path (s.b (.not (s.b c))) = .unsat) ∨
         (exCheck s o st.path (s.b c) = .unsat ∧ exCheck s o st.path (s.b (.not (s.b c))) = .sat)) :
    (jumpi s o cfg code st target c nextPc).bounded = [] ∧
    ∀ st' ∈ (jumpi s o cfg code st target c nextPc).next, st'.visits = st.visits := by
  unfold jumpi
  simp only
  generalize exCheck s o st.path (s.b c) = ct at h ⊢
  generalize exCheck s o st.path (s.b (.not (s.b c))) = cf at h ⊢
  generalize lookupVisits st.visits (jumpId code st) = vis
  rcases h with ⟨rfl, rfl⟩ | ⟨rfl, rfl⟩ <;>
    by_cases hv : target ∈ Evm.validJumpdests code <;> simp [haltOut, hv, addCond_visits]

/-- a must-true condition is followed whatever the counters say (unless the destination is invalid) -/
theorem jumpi_must_true_followed
    (h : exCheck s o st.path (s.b c) = .sat ∧ exCheck s o st.path (s.b (.not (s.b c))) = .unsat)
    (hv : target ∈ Evm.validJumpdests code) :
    (jumpi s o cfg code st target c nextPc).next = [addCond s { st with pc := target + 1 } (s.b c)] := by
  unfold jumpi
  simp only
  rw [h.1, h.2]
  simp [haltOut, hv]

theorem jumpi_must_false_followed
    (h : exCheck s o st.path (s.b c) = .unsat ∧ exCheck s o st.path (s.b (.not (s.b c))) = .sat) :
    (jumpi s o cfg code st target c nextPc).next = [addCond s { st with pc := nextPc } (s.b (.not (s.b c)))] := by
  unfold jumpi
  simp only
  rw [h.1, h.2]
  simp [haltOut]

end
end HalmosVerif.Lemmas.Sevm
