/-
Lemmas.SevmMem — memory of the symbolic core machine (a flat array of byte terms) against the reference EVM's
memory (a flat array of bytes): reads, writes, the 32 bytes of a word, the word of 32 bytes; and the correspondence
leaves for MLOAD / MSTORE / MSTORE8 and RETURN / REVERT with data.

The memory limit is a modelling parameter on both sides (`MAX_MEMORY_SIZE` in halmos, `Params.memLimit` in the
reference): the leaves assume `cfg.maxMem + 32 ≤ p.memLimit`, i.e. the reference is at least as permissive, so that
whatever the symbolic machine accepts the concrete machine accepts; what the symbolic machine rejects is an end state
tagged `memLimit`, about which nothing is claimed.
-/
import HalmosVerif.Lemmas.SevmStep

set_option linter.unusedSectionVars false
set_option linter.unusedSimpArgs false
set_option linter.unusedVariables false

namespace HalmosVerif.Lemmas.Sevm
open HalmosVerif.Model HalmosVerif.Model.Sevm HalmosVerif.Spec HalmosVerif.Lemmas.Word

/-! ### the flat arrays -/

theorem zeroByte_ok (I : Interp) : zeroByte.WF ∧ zeroByte.width = 8 ∧ zeroByte.eval I = 0 :=
  ⟨(by decide : 0 < 8), rfl, rfl⟩

theorem MemRel.nil (I : Interp) : MemRel I [] [] := ⟨fun _ h => absurd h List.not_mem_nil, rfl⟩

theorem readMem_rel {I : Interp} {sm : List T} {cm : List Nat} (h : MemRel I sm cm) (off n : Nat) :
    MemRel I (readMem sm off n) (Evm.readBytes cm off n) := by
  obtain ⟨hwf, hm⟩ := h
  refine ⟨?_, ?_⟩
  · intro b hb
    simp only [readMem, List.mem_map, List.mem_range] at hb
    obtain ⟨i, _, rfl⟩ := hb
    cases hg : sm[off + i]? with
    | none => simp only [Option.getD_none]; exact ⟨(zeroByte_ok I).1, (zeroByte_ok I).2.1⟩
    | some b => simp only [Option.getD_some]; exact hwf b (List.mem_of_getElem? hg)
  · subst hm
    simp only [readMem, Evm.readBytes, List.map_map]
    apply List.map_congr_left
    intro i _
    simp only [Function.comp, List.getElem?_map]
    cases sm[off + i]? <;> rfl

theorem writeMem_rel {I : Interp} {sm data : List T} {cm cdata : List Nat} (h : MemRel I sm cm)
    (hd : MemRel I data cdata) (off : Nat) : MemRel I (writeMem sm off data) (Evm.writeBytes cm off cdata) := by
  obtain ⟨hwf, hm⟩ := h
  obtain ⟨dwf, dm⟩ := hd
  subst hm; subst dm
  have hz := zeroByte_ok I
  refine ⟨?_, ?_⟩
  · intro b hb
    unfold writeMem at hb
    split at hb
    · exact hwf b hb
    · simp only [List.mem_append] at hb
      rcases hb with (hb | hb) | hb
      · have := List.mem_of_mem_take hb
        split at this
        · rcases List.mem_append.1 this with h1 | h1
          · exact hwf b h1
          · rw [List.eq_of_mem_replicate h1]; exact ⟨hz.1, hz.2.1⟩
        · exact hwf b this
      · exact dwf b hb
      · have := List.mem_of_mem_drop hb
        split at this
        · rcases List.mem_append.1 this with h1 | h1
          · exact hwf b h1
          · rw [List.eq_of_mem_replicate h1]; exact ⟨hz.1, hz.2.1⟩
        · exact hwf b this
  · unfold writeMem Evm.writeBytes
    by_cases he : data.isEmpty = true
    · have : (data.map (·.eval I)).isEmpty = true := by simpa using he
      simp only [he, this, ↓reduceIte]
    · have : ¬ (data.map (·.eval I)).isEmpty = true := by simpa using he
      simp only [he, this, ↓reduceIte, Bool.false_eq_true, List.length_map]
      split
      · simp only [List.map_append, List.map_take, List.map_drop, List.map_replicate, hz.2.2]
      · simp only [List.map_append, List.map_take, List.map_drop]

/-- the bytes `MSTORE` writes for a word -/
theorem wordBytes_rel {I : Interp} {r : Rep} (hwf : (HV.bv 256 r).WF) :
    MemRel I (wordBytes r) (Evm.natToBytes 32 ((HV.bv 256 r).denote I)) := by
  cases r with
  | con n =>
    refine ⟨?_, ?_⟩
    · intro b hb
      simp only [wordBytes, List.mem_map] at hb
      obtain ⟨i, _, rfl⟩ := hb
      exact ⟨(by decide : 0 < 8), rfl⟩
    · simp only [wordBytes, Evm.natToBytes, List.map_map, HV.denote]
      apply List.map_congr_left
      intro i _
      simp only [Function.comp, T.eval]
      norm_num
  | sym t =>
    simp only [HV.WF] at hwf
    refine ⟨?_, ?_⟩
    · intro b hb
      simp only [wordBytes, List.mem_map, List.mem_range] at hb
      obtain ⟨i, hi, rfl⟩ := hb
      refine ⟨?_, ?_⟩
      · simp only [T.WF]; exact ⟨hwf.2.1, by omega, by rw [hwf.2.2]; omega⟩
      · simp only [T.width]; omega
    · simp only [wordBytes, Evm.natToBytes, List.map_map, HV.denote]
      apply List.map_congr_left
      intro i hi
      simp only [Function.comp, T.eval]
      have : 8 * (31 - i) + 7 + 1 - 8 * (31 - i) = 8 := by omega
      rw [this]

theorem litBytes_ok {I : Interp} : ∀ {bs : List T} {ns : List Nat}, litBytes? bs = some ns →
    ns.length = bs.length ∧ Evm.bytesToNat (bs.map (·.eval I)) = Evm.bytesToNat ns := by
  have key : ∀ (bs : List T) (ns : List Nat) (a : Nat), litBytes? bs = some ns →
      ns.length = bs.length ∧
      (bs.map (·.eval I)).foldl (fun acc b => acc * 256 + b % 256) a =
        ns.foldl (fun acc b => acc * 256 + b % 256) a := by
    intro bs
    induction bs with
    | nil => intro ns a h; simp only [litBytes?, Option.some.injEq] at h; subst h; exact ⟨rfl, rfl⟩
    | cons b rest ih =>
      intro ns a h
      simp only [litBytes?] at h
      cases hb : litByte? b with
      | none => rw [hb] at h; simp at h
      | some n =>
        cases hr : litBytes? rest with
        | none => rw [hb, hr] at h; simp at h
        | some ms =>
          rw [hb, hr] at h
          simp only [Option.some.injEq] at h
          subst h
          have hbe : b.eval I % 256 = n % 256 := by
            unfold litByte? at hb
            split at hb
            · cases hb; simp only [T.eval]; norm_num
            · cases hb
          obtain ⟨h1, h2⟩ := ih ms (a * 256 + n % 256) hr
          refine ⟨by simp [h1], ?_⟩
          simp only [List.map_cons, List.foldl_cons, hbe]
          exact h2
  intro bs ns h
  exact key bs ns 0 h

theorem concat_foldl_ok {I : Interp} : ∀ (bs : List T) (acc : T), acc.WF → (∀ b ∈ bs, b.WF ∧ b.width = 8) →
    (bs.foldl (fun a x => T.concat a x) acc).WF ∧
    (bs.foldl (fun a x => T.concat a x) acc).width = acc.width + 8 * bs.length ∧
    (bs.foldl (fun a x => T.concat a x) acc).eval I =
      (bs.map (·.eval I)).foldl (fun a b => a * 256 + b % 256) (acc.eval I) := by
  intro bs
  induction bs with
  | nil => intro acc h _; exact ⟨h, by simp, rfl⟩
  | cons b rest ih =>
    intro acc hacc hbs
    obtain ⟨bwf, bw⟩ := hbs b (List.mem_cons_self ..)
    have hc : (T.concat acc b).WF := by simp only [T.WF]; exact ⟨hacc, bwf⟩
    obtain ⟨h1, h2, h3⟩ := ih (T.concat acc b) hc (fun x hx => hbs x (List.mem_cons_of_mem _ hx))
    refine ⟨h1, ?_, ?_⟩
    · rw [List.foldl_cons, h2]; simp only [T.width, bw, List.length_cons]; omega
    · rw [List.foldl_cons, h3]
      simp only [List.map_cons, List.foldl_cons, T.eval, bw]
      have hlt := T.eval_lt I b bwf
      rw [bw] at hlt
      rw [Nat.mod_eq_of_lt hlt]

/-- the word `MLOAD` pushes for 32 bytes -/
theorem bytesWord_rel {s : Simp} (hs : SimpSound s) {I : Interp} {bs : List T}
    (hb : ∀ b ∈ bs, b.WF ∧ b.width = 8) (hlen : bs.length = 32) :
    WordRel I (bytesWord s bs) (Evm.bytesToNat (bs.map (·.eval I))) := by
  unfold bytesWord
  cases hl : litBytes? bs with
  | some ns =>
    obtain ⟨h1, h2⟩ := litBytes_ok (I := I) hl
    simp only
    rw [h2]
    refine wordRel_con ?_
    have := bytesToNat_lt ns
    rw [h1, hlen] at this
    exact Nat.lt_of_lt_of_le this (by norm_num)
  | none =>
    simp only
    match bs, hlen, hb with
    | b :: rest, hlen, hb =>
      obtain ⟨bwf, bw⟩ := hb b (List.mem_cons_self ..)
      obtain ⟨h1, h2, h3⟩ := concat_foldl_ok (I := I) rest b bwf (fun x hx => hb x (List.mem_cons_of_mem _ hx))
      have hw : (concatBytes (b :: rest)).width = 256 := by
        simp only [concatBytes, h2, bw]
        simp only [List.length_cons] at hlen
        omega
      obtain ⟨r, e, wf, d⟩ := (mkBV_term_eq hs I (t := concatBytes (b :: rest)) h1 hw).ok_inj
      rw [e]
      refine ⟨wf, rfl, d.trans ?_⟩
      simp only [concatBytes, h3, Evm.bytesToNat, List.map_cons, List.foldl_cons]
      have hlt := T.eval_lt I b bwf
      rw [bw] at hlt
      rw [Nat.mod_eq_of_lt hlt]; norm_num

/-! ### the leaves -/

section
variable {I : Interp} {env : Env} {code : List Nat} {p : Evm.Params} {w : Evm.World}
variable {s : Simp} {o : Oracle} {cfg : Cfg} {st : SState} {f : Evm.Frame}

/-- `int_of(popi())` returned `k`: the concrete word is `k` -/
theorem toBV256_con (hs : SimpSound s) {v : HV} {n : Nat} (hw : WordRel I v n) {sz k : Nat}
    (h : toBV256 s v = .bv sz (.con k)) : k = n := by
  obtain ⟨r, e, wf, d⟩ := (toBV256_ok hs I hw.1 hw.2.1).ok_inj
  rw [h] at e
  cases e
  rw [← hw.2.2, ← d]; rfl

theorem readMem_length (m : List T) (off n : Nat) : (readMem m off n).length = n := by simp [readMem]

theorem corr_mload (hs : SimpSound s) (hR : R I env code p st f) (hsat : Sat I st.path) (hl : f.stack.length ≤ 1024)
    (hmem : cfg.maxMem + 32 ≤ p.memLimit) (hop : opAt code st.pc = 0x51) {lv : HV} {rest0 : List HV}
    (hst : st.stack = lv :: rest0) {sz loc : Nat} (ht : toBV256 s lv = .bv sz (.con loc)) (hle : ¬ loc > cfg.maxMem) :
    Corr I env code p w s o cfg st f
      (contOut { st with pc := st.pc + 1, stack := bytesWord s (readMem st.mem loc 32) :: rest0 }) := by
  have hstk := hR.stack
  rw [hst] at hstk
  obtain ⟨n, cs, hcs, hw, hr⟩ := hstk.cons_inv
  have hloc := toBV256_con hs hw ht
  subst hloc
  obtain ⟨f', hstep, hctx, hpc, hfm, hfs⟩ :=
    evm_mload (p := p) (w := w) (hR.hop hop) (by omega) hcs (by omega)
  obtain ⟨rwf, rmap⟩ := readMem_rel hR.mem loc 32
  have hword := bytesWord_rel hs (I := I) rwf (readMem_length _ _ _)
  rw [rmap] at hword
  refine Corr.cont0 hsat rfl (CReach.single hstep)
    (hR.next hctx rfl ?_ ?_ (hR.subst.same rfl rfl) ?_)
  · rw [hpc, hR.pc]
  · rw [hfs]; exact StackRel.cons hword hr
  · rw [hfm]; exact hR.mem

theorem corr_mstore (hs : SimpSound s) (hR : R I env code p st f) (hsat : Sat I st.path) (hl : f.stack.length ≤ 1024)
    (hmem : cfg.maxMem + 32 ≤ p.memLimit) (hop : opAt code st.pc = 0x52) {lv v : HV} {rest : List HV}
    (hst : st.stack = lv :: v :: rest) {sz loc : Nat} (ht : toBV256 s lv = .bv sz (.con loc))
    (hle : ¬ loc > cfg.maxMem) {szv : Nat} {r : Rep} (hv : toBV256 s v = .bv szv r) :
    Corr I env code p w s o cfg st f
      (contOut { st with pc := st.pc + 1, stack := rest, mem := writeMem st.mem loc (wordBytes r) }) := by
  have hstk := hR.stack
  rw [hst] at hstk
  obtain ⟨n, cs0, hcs0, hw, hr0⟩ := hstk.cons_inv
  obtain ⟨cv, cs, hcs1, hwv, hr⟩ := hr0.cons_inv
  have hloc := toBV256_con hs hw ht
  subst hloc
  obtain ⟨f', hstep, hctx, hpc, hfs, hfm⟩ :=
    evm_mstore (p := p) (w := w) (hR.hop hop) (by omega) (by rw [hcs0, hcs1]) (by omega)
  obtain ⟨r', e, wf, d⟩ := (toBV256_ok hs I hwv.1 hwv.2.1).ok_inj
  rw [hv] at e
  cases e
  have hbytes := wordBytes_rel (I := I) wf
  rw [d, hwv.2.2] at hbytes
  refine Corr.cont0 hsat rfl (CReach.single hstep)
    (hR.next hctx rfl ?_ ?_ (hR.subst.same rfl rfl) ?_)
  · rw [hpc, hR.pc]
  · rw [hfs]; exact hr
  · rw [hfm]; exact writeMem_rel hR.mem hbytes loc

theorem corr_mstore8 (hs : SimpSound s) (hR : R I env code p st f) (hsat : Sat I st.path) (hl : f.stack.length ≤ 1024)
    (hmem : cfg.maxMem + 32 ≤ p.memLimit) (hop : opAt code st.pc = 0x53) {lv v : HV} {rest : List HV}
    (hst : st.stack = lv :: v :: rest) {sz loc : Nat} (ht : toBV256 s lv = .bv sz (.con loc))
    (hle : ¬ loc > cfg.maxMem) {szv : Nat} {r : Rep} (hv : reBV s v 8 = .bv szv r) :
    Corr I env code p w s o cfg st f
      (contOut { st with pc := st.pc + 1, stack := rest, mem := writeMem st.mem loc [asZ3 8 r] }) := by
  have hstk := hR.stack
  rw [hst] at hstk
  obtain ⟨n, cs0, hcs0, hw, hr0⟩ := hstk.cons_inv
  obtain ⟨cv, cs, hcs1, hwv, hr⟩ := hr0.cons_inv
  have hloc := toBV256_con hs hw ht
  subst hloc
  obtain ⟨f', hstep, hctx, hpc, hfs, hfm⟩ :=
    evm_mstore8 (p := p) (w := w) (hR.hop hop) (by omega) (by rw [hcs0, hcs1]) (by omega)
  -- `uint8(val)`: the low byte
  have hbyte : ∃ r', reBV s v 8 = .bv 8 r' ∧ (HV.bv 8 r').WF ∧ (HV.bv 8 r').denote I = cv % 256 := by
    cases v with
    | bv szb rb =>
      obtain ⟨r', e, wf, d⟩ := (reBV_bv_ok hs I (size := 8) (by decide) hwv.1).ok_inj
      exact ⟨r', e, wf, by rw [d, hwv.2.2]⟩
    | bool rb =>
      obtain ⟨r', e, wf, d⟩ := (reBV_bool_ok hs I (size := 8) (by decide) hwv.1).ok_inj
      refine ⟨r', e, wf, ?_⟩
      rw [d, hwv.2.2]
      have := bool_denote_le_one I rb
      rw [hwv.2.2] at this
      omega
  obtain ⟨r', e, wf, d⟩ := hbyte
  rw [hv] at e
  cases e
  obtain ⟨z1, z2, z3⟩ := asZ3_ok (I := I) wf
  have hbytes : MemRel I [asZ3 8 r] [cv % 256] := by
    refine ⟨?_, ?_⟩
    · intro b hb; rw [List.mem_singleton.1 hb]; exact ⟨z1, z2⟩
    · simp only [List.map_cons, List.map_nil, z3, d]
  refine Corr.cont0 hsat rfl (CReach.single hstep)
    (hR.next hctx rfl ?_ ?_ (hR.subst.same rfl rfl) ?_)
  · rw [hpc, hR.pc]
  · rw [hfs]; exact hr
  · rw [hfm]; exact writeMem_rel hR.mem hbytes loc

/-- RETURN / REVERT: the end state carries the byte terms of the returned memory range -/
theorem corr_ret (hs : SimpSound s) (hR : R I env code p st f) (hl : f.stack.length ≤ 1024)
    (hmem : cfg.maxMem + 32 ≤ p.memLimit) {op : Nat} (hop : opAt code st.pc = op) (h : op = 0xf3 ∨ op = 0xfd)
    {ov sv : HV} {rest : List HV} (hst : st.stack = ov :: sv :: rest) {szo loc szs size : Nat}
    (ho : toBV256 s ov = .bv szo (.con loc)) (hz : toBV256 s sv = .bv szs (.con size))
    (hok : size = 0 ∨ loc + size ≤ cfg.maxMem) :
    Corr I env code p w s o cfg st f
      (haltOut st (if op = 0xf3 then .success [] else .revert []) .normal (readMem st.mem loc size)) := by
  have hstk := hR.stack
  rw [hst] at hstk
  obtain ⟨off, cs0, hcs0, hwo, hr0⟩ := hstk.cons_inv
  obtain ⟨len, cs, hcs1, hwl, hr⟩ := hr0.cons_inv
  have h1 := toBV256_con hs hwo ho
  have h2 := toBV256_con hs hwl hz
  subst h1; subst h2
  have hstep := evm_ret (p := p) (w := w) (hR.hop hop) h (by omega) (by rw [hcs0, hcs1] : f.stack = loc :: size :: cs)
    (by rcases hok with h0 | h0
        · exact Or.inl h0
        · exact Or.inr (by omega))
  refine Corr.haltData rfl (readMem_rel hR.mem loc size).1 ?_
  rw [(readMem_rel hR.mem loc size).2, hstep]
  rcases h with rfl | rfl <;> simp [haltWith]

/-! ### CALLDATACOPY / CODECOPY -/

theorem writeBytes_nil (m : List Nat) (off : Nat) : Evm.writeBytes m off [] = m := by simp [Evm.writeBytes]

/-- the common tail: the concrete step copies `cdata`, the symbolic one writes the related byte terms `data` -/
theorem corr_copyToMem (hR : R I env code p st f) (hsat : Sat I st.path) (hmem : cfg.maxMem + 32 ≤ p.memLimit)
    {rest : List HV} {cs : List Nat} (hr : StackRel I rest cs) {loc size : Nat} {g : Nat → T} {cdata : List Nat}
    (hd : MemRel I ((List.range size).map g) cdata)
    (hstep : size = 0 ∨ loc + size ≤ p.memLimit → ∃ f', Evm.step p w f = .next w f' ∧ SameCtx f' f ∧
      f'.pc = f.pc + 1 ∧ f'.stack = cs ∧ f'.mem = Evm.writeBytes f.mem loc cdata) :
    Corr I env code p w s o cfg st f (copyToMemOut cfg st rest loc size g) := by
  unfold copyToMemOut
  split
  · rename_i h0
    obtain ⟨f', hs1, hctx, hpc, hfs, hfm⟩ := hstep (Or.inl h0)
    have hnil : cdata = [] := by
      rw [← hd.2, h0]; rfl
    rw [hnil, writeBytes_nil] at hfm
    refine Corr.cont0 hsat rfl (CReach.single hs1)
      (hR.next hctx rfl ?_ ?_ (hR.subst.same rfl rfl) ?_)
    · rw [hpc, hR.pc]
    · rw [hfs]; exact hr
    · rw [hfm]; exact hR.mem
  · split
    · exact Corr.limit rfl
    · rename_i hle
      obtain ⟨f', hs1, hctx, hpc, hfs, hfm⟩ := hstep (Or.inr (by omega))
      refine Corr.cont0 hsat rfl (CReach.single hs1)
        (hR.next hctx rfl ?_ ?_ (hR.subst.same rfl rfl) ?_)
      · rw [hpc, hR.pc]
      · rw [hfs]; exact hr
      · rw [hfm]; exact writeMem_rel hR.mem hd loc

/-- the calldata bytes CALLDATACOPY reads -/
theorem calldata_bytes_rel (hR : R I env code p st f) (off size : Nat) :
    MemRel I ((List.range size).map fun i => env.cdByte (off + i)) (Evm.readBytes f.calldata off size) := by
  refine ⟨?_, ?_⟩
  · intro b hb
    simp only [List.mem_map] at hb
    obtain ⟨i, _, rfl⟩ := hb
    exact ⟨(hR.env.cdByte _).1, (hR.env.cdByte _).2.1⟩
  · simp only [Evm.readBytes, List.map_map]
    apply List.map_congr_left
    intro i _
    exact (hR.env.cdByte _).2.2

/-- the code bytes CODECOPY reads (the code is a byte string) -/
theorem code_bytes_rel (hR : R I env code p st f) (hcode : ∀ b ∈ code, b < 256) (off size : Nat) :
    MemRel I ((List.range size).map fun i => T.lit 8 ((code[off + i]?).getD 0)) (Evm.readBytes f.code off size) := by
  refine ⟨?_, ?_⟩
  · intro b hb
    simp only [List.mem_map] at hb
    obtain ⟨i, _, rfl⟩ := hb
    exact ⟨(by decide : 0 < 8), rfl⟩
  · rw [hR.code]
    simp only [Evm.readBytes, List.map_map]
    apply List.map_congr_left
    intro i _
    simp only [Function.comp, T.eval]
    have : (code[off + i]?).getD 0 < 256 := by
      cases hg : code[off + i]? with
      | none => simp
      | some b => simp only [Option.getD_some]; exact hcode b (List.mem_of_getElem? hg)
    exact Nat.mod_eq_of_lt (by simpa using this)

theorem corr_calldatacopy (hs : SimpSound s) (hR : R I env code p st f) (hsat : Sat I st.path)
    (hl : f.stack.length ≤ 1024) (hmem : cfg.maxMem + 32 ≤ p.memLimit) (hop : opAt code st.pc = 0x37)
    {lv ov sv : HV} {rest : List HV} (hst : st.stack = lv :: ov :: sv :: rest) {s1 loc s2 off s3 size : Nat}
    (h1 : toBV256 s lv = .bv s1 (.con loc)) (h2 : toBV256 s ov = .bv s2 (.con off))
    (h3 : toBV256 s sv = .bv s3 (.con size)) :
    Corr I env code p w s o cfg st f
      (copyToMemOut cfg st rest loc size (fun i => env.cdByte (off + i))) := by
  have hstk := hR.stack
  rw [hst] at hstk
  obtain ⟨c1, t1, e1, w1, r1⟩ := hstk.cons_inv
  obtain ⟨c2, t2, e2, w2, r2⟩ := r1.cons_inv
  obtain ⟨c3, t3, e3, w3, r3⟩ := r2.cons_inv
  have := toBV256_con hs w1 h1; subst this
  have := toBV256_con hs w2 h2; subst this
  have := toBV256_con hs w3 h3; subst this
  exact corr_copyToMem hR hsat hmem r3 (calldata_bytes_rel hR off size)
    (fun hok => evm_calldatacopy (hR.hop hop) (by omega) (by rw [e1, e2, e3]) hok)

theorem corr_codecopy (hs : SimpSound s) (hR : R I env code p st f) (hsat : Sat I st.path)
    (hl : f.stack.length ≤ 1024) (hmem : cfg.maxMem + 32 ≤ p.memLimit) (hcode : ∀ b ∈ code, b < 256)
    (hop : opAt code st.pc = 0x39)
    {lv ov sv : HV} {rest : List HV} (hst : st.stack = lv :: ov :: sv :: rest) {s1 loc s2 off s3 size : Nat}
    (h1 : toBV256 s lv = .bv s1 (.con loc)) (h2 : toBV256 s ov = .bv s2 (.con off))
    (h3 : toBV256 s sv = .bv s3 (.con size)) :
    Corr I env code p w s o cfg st f
      (copyToMemOut cfg st rest loc size (fun i => T.lit 8 ((code[off + i]?).getD 0))) := by
  have hstk := hR.stack
  rw [hst] at hstk
  obtain ⟨c1, t1, e1, w1, r1⟩ := hstk.cons_inv
  obtain ⟨c2, t2, e2, w2, r2⟩ := r1.cons_inv
  obtain ⟨c3, t3, e3, w3, r3⟩ := r2.cons_inv
  have := toBV256_con hs w1 h1; subst this
  have := toBV256_con hs w2 h2; subst this
  have := toBV256_con hs w3 h3; subst this
  exact corr_copyToMem hR hsat hmem r3 (code_bytes_rel hR hcode off size)
    (fun hok => evm_codecopy (hR.hop hop) (by omega) (by rw [e1, e2, e3]) hok)

/-- CODECOPY of an empty range with whatever offset: nothing happens -/
theorem corr_codecopy_empty (hs : SimpSound s) (hR : R I env code p st f) (hsat : Sat I st.path)
    (hl : f.stack.length ≤ 1024) (hop : opAt code st.pc = 0x39)
    {lv ov sv : HV} {rest : List HV} (hst : st.stack = lv :: ov :: sv :: rest) {s1 loc s3 : Nat}
    (h1 : toBV256 s lv = .bv s1 (.con loc)) (h3 : toBV256 s sv = .bv s3 (.con 0)) :
    Corr I env code p w s o cfg st f (contOut { st with pc := st.pc + 1, stack := rest }) := by
  have hstk := hR.stack
  rw [hst] at hstk
  obtain ⟨c1, t1, e1, w1, r1⟩ := hstk.cons_inv
  obtain ⟨c2, t2, e2, w2, r2⟩ := r1.cons_inv
  obtain ⟨c3, t3, e3, w3, r3⟩ := r2.cons_inv
  have := toBV256_con hs w3 h3; subst this
  obtain ⟨f', hs1, hctx, hpc, hfs, hfm⟩ :=
    evm_codecopy (p := p) (w := w) (hR.hop hop) (by omega) (by rw [e1, e2, e3] : f.stack = c1 :: c2 :: 0 :: t3)
      (Or.inl rfl)
  have : Evm.readBytes f.code c2 0 = [] := by simp [Evm.readBytes]
  rw [this, writeBytes_nil] at hfm
  refine Corr.cont0 hsat rfl (CReach.single hs1)
    (hR.next hctx rfl ?_ ?_ (hR.subst.same rfl rfl) ?_)
  · rw [hpc, hR.pc]
  · rw [hfs]; exact r3
  · rw [hfm]; exact hR.mem

end
end HalmosVerif.Lemmas.Sevm
