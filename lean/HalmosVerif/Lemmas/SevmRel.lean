/-
Lemmas.SevmRel — the simulation relation between the symbolic core machine (Model.Sevm) and the reference
EVM (Spec.Evm), and the concrete side of each core instruction (`Evm.step` unfolded per opcode).
-/
import HalmosVerif.Model.Sevm
import HalmosVerif.Lemmas.WordExec

set_option linter.unusedSectionVars false
set_option linter.unusedSimpArgs false

namespace HalmosVerif.Lemmas.Sevm
open HalmosVerif.Model HalmosVerif.Model.Sevm HalmosVerif.Spec HalmosVerif.Lemmas.Word

/-- a symbolic word and the concrete word it stands for under `I` -/
def WordRel (I : Interp) (v : HV) (n : Nat) : Prop := v.WF ∧ v.IsWord ∧ v.denote I = n

inductive StackRel (I : Interp) : List HV → List Nat → Prop where
  | nil : StackRel I [] []
  | cons {v n ss cs} : WordRel I v n → StackRel I ss cs → StackRel I (v :: ss) (n :: cs)

/-- the symbolic transaction environment denotes the concrete frame's -/
structure EnvRel (I : Interp) (env : Env) (p : Evm.Params) (f : Evm.Frame) : Prop where
  caller : env.caller.WF ∧ env.caller.width ≤ 256 ∧ env.caller.eval I = f.caller
  origin : env.origin.WF ∧ env.origin.width ≤ 256 ∧ env.origin.eval I = p.origin
  callvalue : env.callvalue.WF ∧ env.callvalue.width ≤ 256 ∧ env.callvalue.eval I = f.value
  address : env.address.WF ∧ env.address.width ≤ 256 ∧ env.address.eval I = f.this
  cd : ∀ off, (env.cd off).WF ∧ (env.cd off).width = 256 ∧
        (env.cd off).eval I = Evm.bytesToNat (Evm.readBytes f.calldata off 32)
  cdByte : ∀ i, (env.cdByte i).WF ∧ (env.cdByte i).width = 8 ∧ (env.cdByte i).eval I = (f.calldata[i]?).getD 0
  cdSize : env.cdSize = f.calldata.length

/-- the valuation `I` satisfies every path condition -/
def Sat (I : Interp) (π : List B) : Prop := ∀ b ∈ π, b.eval I = true

theorem Sat.nil (I : Interp) : Sat I [] := fun _ h => absurd h List.not_mem_nil

theorem sat_append {I : Interp} {π ρ : List B} : Sat I (π ++ ρ) ↔ Sat I π ∧ Sat I ρ := by
  constructor
  · intro h
    exact ⟨fun b hb => h b (List.mem_append_left _ hb), fun b hb => h b (List.mem_append_right _ hb)⟩
  · rintro ⟨h1, h2⟩ b hb
    rcases List.mem_append.1 hb with hb | hb
    · exact h1 b hb
    · exact h2 b hb

theorem sat_singleton {I : Interp} {c : B} : Sat I [c] ↔ c.eval I = true := by
  constructor
  · intro h; exact h c (List.mem_singleton.2 rfl)
  · intro h b hb; rw [List.mem_singleton.1 hb]; exact h

/-- the concretization map of a state is justified by its path: every binding is `term ↦ well-formed literal`, and a
    valuation satisfying the path gives both the same value -/
def SubstOk (I : Interp) (st : SState) : Prop :=
  (∀ kv ∈ st.subst, kv.2.WF) ∧ (Sat I st.path → ∀ kv ∈ st.subst, kv.1.eval I = kv.2.eval I)

/-- symbolic memory (byte terms) against concrete memory (bytes): same length, byte-wise the same values -/
def MemRel (I : Interp) (sm : List T) (cm : List Nat) : Prop :=
  (∀ b ∈ sm, b.WF ∧ b.width = 8) ∧ sm.map (·.eval I) = cm

/-- simulation relation -/
structure R (I : Interp) (env : Env) (code : List Nat) (p : Evm.Params) (st : SState) (f : Evm.Frame) : Prop where
  code : f.code = code
  pc : f.pc = st.pc
  stack : StackRel I st.stack f.stack
  env : EnvRel I env p f
  subst : SubstOk I st
  mem : MemRel I st.mem f.mem

/-- concrete reachability through non-halting core steps (the world is untouched by the core set) -/
inductive CReach (p : Evm.Params) (w : Evm.World) : Evm.Frame → Evm.Frame → Prop where
  | refl (f) : CReach p w f f
  | tail {f g h} : CReach p w f g → Evm.step p w g = .next w h → CReach p w f h

theorem StackRel.length {I ss cs} (h : StackRel I ss cs) : ss.length = cs.length := by
  induction h with
  | nil => rfl
  | cons _ _ ih => simp [ih]

theorem StackRel.take {I ss cs} (h : StackRel I ss cs) (n : Nat) : StackRel I (ss.take n) (cs.take n) := by
  induction h generalizing n with
  | nil => simpa using StackRel.nil
  | cons hw _ ih =>
    cases n with
    | zero => simpa using StackRel.nil
    | succ n => simpa using StackRel.cons hw (ih n)

theorem StackRel.drop {I ss cs} (h : StackRel I ss cs) (n : Nat) : StackRel I (ss.drop n) (cs.drop n) := by
  induction h generalizing n with
  | nil => simpa using StackRel.nil
  | cons hw hr ih =>
    cases n with
    | zero => simpa using StackRel.cons hw hr
    | succ n => simpa using ih n

theorem StackRel.get {I ss cs} (h : StackRel I ss cs) (n : Nat) :
    (ss[n]? = none ∧ cs[n]? = none) ∨ ∃ v c, ss[n]? = some v ∧ cs[n]? = some c ∧ WordRel I v c := by
  induction h generalizing n with
  | nil => left; simp
  | cons hw _ ih =>
    cases n with
    | zero => right; exact ⟨_, _, rfl, rfl, hw⟩
    | succ n => simpa using ih n

theorem StackRel.set {I ss cs} (h : StackRel I ss cs) (n : Nat) {v c} (hw : WordRel I v c) :
    StackRel I (ss.set n v) (cs.set n c) := by
  induction h generalizing n with
  | nil => simpa using StackRel.nil
  | cons hw' hr ih =>
    cases n with
    | zero => simpa using StackRel.cons hw hr
    | succ n => simpa using StackRel.cons hw' (ih n)

theorem StackRel.denote_map {I ss cs} (h : StackRel I ss cs) : ss.map (·.denote I) = cs := by
  induction h with
  | nil => rfl
  | cons hw _ ih => simp [ih, hw.2.2]

theorem StackRel.all {I ss cs} (h : StackRel I ss cs) : ∀ a ∈ ss, a.WF ∧ a.IsWord := by
  induction h with
  | nil => intro a ha; cases ha
  | cons hw _ ih =>
    intro a ha
    rcases List.mem_cons.1 ha with rfl | ha
    · exact ⟨hw.1, hw.2.1⟩
    · exact ih a ha

theorem wordrel_lt {I v n} (h : WordRel I v n) : n < 2 ^ 256 := by
  obtain ⟨hwf, hw, hd⟩ := h
  cases v with
  | bv size r =>
    simp only [HV.IsWord] at hw
    subst hw
    rw [← hd]; exact denote_lt hwf
  | bool r =>
    rw [← hd]
    cases r with
    | con b => cases b <;> simp [HV.denote]
    | sym b => simp only [HV.denote]; split <;> omega

/-! ### inversion, congruence -/

theorem StackRel.nil_inv {I cs} (h : StackRel I [] cs) : cs = [] := by cases h; rfl

theorem StackRel.cons_inv {I v ss cs} (h : StackRel I (v :: ss) cs) :
    ∃ n cs', cs = n :: cs' ∧ WordRel I v n ∧ StackRel I ss cs' := by
  cases h with
  | cons hw hr => exact ⟨_, _, rfl, hw, hr⟩

theorem StackRel.append {I a b ca cb} (h1 : StackRel I a ca) (h2 : StackRel I b cb) :
    StackRel I (a ++ b) (ca ++ cb) := by
  induction h1 with
  | nil => simpa using h2
  | cons hw _ ih => simpa using StackRel.cons hw ih

theorem StackRel.take_drop {I ss cs} (h : StackRel I ss cs) (n : Nat) :
    cs = cs.take n ++ cs.drop n ∧ (cs.take n).length = (ss.take n).length := by
  refine ⟨(List.take_append_drop n cs).symm, ?_⟩
  simp [h.length]

/-- the environment relation only looks at the fields a core step never changes -/
theorem EnvRel.congr {I env p f f'} (h : EnvRel I env p f) (h1 : f'.caller = f.caller) (h2 : f'.value = f.value)
    (h3 : f'.this = f.this) (h4 : f'.calldata = f.calldata) : EnvRel I env p f' :=
  ⟨by rw [h1]; exact h.caller, h.origin, by rw [h2]; exact h.callvalue, by rw [h3]; exact h.address,
   by rw [h4]; exact h.cd, by rw [h4]; exact h.cdByte, by rw [h4]; exact h.cdSize⟩

theorem SubstOk.same {I : Interp} {st st' : SState} (h : SubstOk I st) (hs : st'.subst = st.subst)
    (hp : st'.path = st.path) : SubstOk I st' := by
  unfold SubstOk; rw [hs, hp]; exact h

/-- re-establish `R` after a core step: only pc and stack need attention (and the concretization map, when the path
    grew; the memory, when it was written) -/
theorem R.next {I env code p st f st' f'} (h : R I env code p st f) (hc : f'.code = f.code)
    (h1 : f'.caller = f.caller) (h2 : f'.value = f.value) (h3 : f'.this = f.this) (h4 : f'.calldata = f.calldata)
    (hpc : f'.pc = st'.pc) (hstk : StackRel I st'.stack f'.stack) (hso : SubstOk I st')
    (hm : MemRel I st'.mem f'.mem) : R I env code p st' f' :=
  ⟨hc.trans h.code, hpc, hstk, h.env.congr h1 h2 h3 h4, hso, hm⟩

/-- the common case: path, concretization map and memory untouched -/
theorem R.next' {I env code p st f st' f'} (h : R I env code p st f) (hc : f'.code = f.code)
    (h1 : f'.caller = f.caller) (h2 : f'.value = f.value) (h3 : f'.this = f.this) (h4 : f'.calldata = f.calldata)
    (hs : st'.subst = st.subst) (hp : st'.path = st.path) (hsm : st'.mem = st.mem) (hfm : f'.mem = f.mem)
    (hpc : f'.pc = st'.pc) (hstk : StackRel I st'.stack f'.stack) : R I env code p st' f' :=
  h.next hc h1 h2 h3 h4 hpc hstk (h.subst.same hs hp) (by rw [hsm, hfm]; exact h.mem)

/-- `R` looks at pc, stack, memory and the concretization map only -/
theorem R.congr {I env code p st st' f} (h : R I env code p st f) (hpc : st'.pc = st.pc)
    (hstk : st'.stack = st.stack) (hsm : st'.mem = st.mem) (hso : SubstOk I st') : R I env code p st' f :=
  ⟨h.code, h.pc.trans hpc.symm, hstk ▸ h.stack, h.env, hso, hsm ▸ h.mem⟩

theorem R.op_eq {I env code p st f} (h : R I env code p st f) : (f.code[f.pc]?).getD 0 = opAt code st.pc := by
  rw [h.code, h.pc]; rfl

/-! ### path satisfaction, the oracle, `Exec.check` -/

/-- the only thing the engine may rely on: an `unsat` answer means no valuation of the path satisfies the condition
    (for every interpretation of the uninterpreted functions: a solver treats them as free). Nothing is assumed about
    `sat` or `unknown`. -/
def OracleSound (o : Oracle) : Prop :=
  ∀ π c, o π c = .unsat → ∀ I, Sat I π → c.eval I = false

/-- an oracle that never commits (every query times out) is sound -/
theorem oracleSound_unknown : OracleSound (fun _ _ => .unknown) := by
  intro π c h; cases h

/-- **`Exec.check` is sound for `unsat`**: each quick check and the solver fallback -/
theorem exCheck_sound {s : Simp} (hs : SimpSound s) {o : Oracle} (ho : OracleSound o) {π : List B} {c : B}
    (hc : c.WF) (h : exCheck s o π c = .unsat) (I : Interp) (hsat : Sat I π) : c.eval I = false := by
  have he := hs.evalB I c hc
  have hwf := hs.wfB c hc
  unfold exCheck at h
  simp only at h
  split at h
  · cases h
  · rename_i heq
    rw [← he, heq]; rfl
  · split at h
    · cases h
    · split at h
      · rename_i hmem
        have h1 := hsat _ hmem
        rw [hs.evalB I _ (by simpa only [B.WF] using hwf)] at h1
        simp only [B.eval, Bool.not_eq_true'] at h1
        rw [← he]; exact h1
      · rw [← he]; exact ho π _ h I hsat

/-! ### `Path.append` -/

section
variable {s : Simp} {I : Interp}

theorem addCond_cases (s : Simp) (st : SState) (c : B) :
    addCond s st c = st ∧ (s.b c = .lit true ∨ s.b c ∈ st.path) ∨
    addCond s st c = { st with path := st.path ++ [s.b c], subst := procCond st.subst (s.b c) } := by
  unfold addCond
  simp only
  split
  · rename_i h; exact Or.inl ⟨rfl, Or.inl h⟩
  · split
    · rename_i h; exact Or.inl ⟨rfl, Or.inr h⟩
    · exact Or.inr rfl

theorem addCond_pc (s : Simp) (st : SState) (c : B) : (addCond s st c).pc = st.pc := by
  rcases addCond_cases s st c with ⟨h, _⟩ | h <;> rw [h]

theorem addCond_stack (s : Simp) (st : SState) (c : B) : (addCond s st c).stack = st.stack := by
  rcases addCond_cases s st c with ⟨h, _⟩ | h <;> rw [h]

theorem addCond_visits (s : Simp) (st : SState) (c : B) : (addCond s st c).visits = st.visits := by
  rcases addCond_cases s st c with ⟨h, _⟩ | h <;> rw [h]

theorem addCond_mem (s : Simp) (st : SState) (c : B) : (addCond s st c).mem = st.mem := by
  rcases addCond_cases s st c with ⟨h, _⟩ | h <;> rw [h]

/-- paths only grow -/
theorem addCond_path_ext (s : Simp) (st : SState) (c : B) : ∃ ext, (addCond s st c).path = st.path ++ ext := by
  rcases addCond_cases s st c with ⟨h, _⟩ | h
  · exact ⟨[], by rw [h]; simp⟩
  · exact ⟨[s.b c], by rw [h]⟩

/-- the new path is satisfied exactly when the old one is and the condition holds (whether it was recorded, was
    already there, or simplified to `true`) -/
theorem addCond_sat (hs : SimpSound s) {st : SState} {c : B} (hc : c.WF) :
    Sat I (addCond s st c).path ↔ Sat I st.path ∧ c.eval I = true := by
  have he := hs.evalB I c hc
  rcases addCond_cases s st c with ⟨h, ht | hm⟩ | h
  · rw [h]
    refine ⟨fun hsat => ⟨hsat, ?_⟩, fun hsat => hsat.1⟩
    rw [← he, ht]; rfl
  · rw [h]
    refine ⟨fun hsat => ⟨hsat, ?_⟩, fun hsat => hsat.1⟩
    rw [← he]; exact hsat _ hm
  · rw [h]
    simp only
    rw [sat_append, sat_singleton, he]

theorem procCond_mem {sub : List (T × T)} {c : B} {kv : T × T} (h : kv ∈ procCond sub c) :
    kv ∈ sub ∨ (∃ w n, kv.2 = .lit w n ∧ (c = .cmp .eq kv.1 kv.2 ∨ c = .cmp .eq kv.2 kv.1)) := by
  unfold procCond at h
  split at h
  · rcases List.mem_cons.1 h with rfl | h
    · exact Or.inr ⟨_, _, rfl, Or.inl rfl⟩
    · exact Or.inl h
  · rcases List.mem_cons.1 h with rfl | h
    · exact Or.inr ⟨_, _, rfl, Or.inr rfl⟩
    · exact Or.inl h
  · exact Or.inl h

/-- the concretization map stays justified -/
theorem addCond_substOk (hs : SimpSound s) {st : SState} {c : B} (hc : c.WF) (h : SubstOk I st) :
    SubstOk I (addCond s st c) := by
  rcases addCond_cases s st c with ⟨e, _⟩ | e
  · rw [e]; exact h
  · rw [e]
    have hwf := hs.wfB c hc
    refine ⟨?_, ?_⟩
    · intro kv hm
      rcases procCond_mem hm with hm | ⟨w, n, hv, hc' | hc'⟩
      · exact h.1 kv hm
      · rw [hc'] at hwf; simp only [B.WF] at hwf; exact hwf.2.1
      · rw [hc'] at hwf; simp only [B.WF] at hwf; exact hwf.1
    · intro hsat kv hm
      simp only at hsat
      obtain ⟨hsat0, hsc⟩ := sat_append.1 hsat
      have hce := sat_singleton.1 hsc
      rcases procCond_mem hm with hm | ⟨w, n, hv, hc' | hc'⟩
      · exact h.2 hsat0 kv hm
      · rw [hc'] at hce
        simp only [B.eval, CmpOp.eval, beq_iff_eq] at hce
        exact hce
      · rw [hc'] at hce
        simp only [B.eval, CmpOp.eval, beq_iff_eq] at hce
        exact hce.symm

/-! several conditions (`SEVM.arith` appends its side constraints) -/

theorem addConds_pc (s : Simp) (aux : List B) (st : SState) : (aux.foldl (addCond s) st).pc = st.pc := by
  induction aux generalizing st with
  | nil => rfl
  | cons c aux ih => rw [List.foldl_cons, ih, addCond_pc]

theorem addConds_stack (s : Simp) (aux : List B) (st : SState) : (aux.foldl (addCond s) st).stack = st.stack := by
  induction aux generalizing st with
  | nil => rfl
  | cons c aux ih => rw [List.foldl_cons, ih, addCond_stack]

theorem addConds_visits (s : Simp) (aux : List B) (st : SState) :
    (aux.foldl (addCond s) st).visits = st.visits := by
  induction aux generalizing st with
  | nil => rfl
  | cons c aux ih => rw [List.foldl_cons, ih, addCond_visits]

theorem addConds_mem (s : Simp) (aux : List B) (st : SState) : (aux.foldl (addCond s) st).mem = st.mem := by
  induction aux generalizing st with
  | nil => rfl
  | cons c aux ih => rw [List.foldl_cons, ih, addCond_mem]

theorem addConds_path_ext (s : Simp) (aux : List B) (st : SState) :
    ∃ ext, (aux.foldl (addCond s) st).path = st.path ++ ext := by
  induction aux generalizing st with
  | nil => exact ⟨[], by simp⟩
  | cons c aux ih =>
    obtain ⟨e1, h1⟩ := addCond_path_ext s st c
    obtain ⟨e2, h2⟩ := ih (addCond s st c)
    exact ⟨e1 ++ e2, by rw [List.foldl_cons, h2, h1, List.append_assoc]⟩

theorem addConds_sat (hs : SimpSound s) {aux : List B} (hwf : ∀ c ∈ aux, c.WF) (st : SState) :
    Sat I (aux.foldl (addCond s) st).path ↔ Sat I st.path ∧ ∀ c ∈ aux, c.eval I = true := by
  induction aux generalizing st with
  | nil => simp
  | cons c aux ih =>
    rw [List.foldl_cons, ih (fun x hx => hwf x (List.mem_cons_of_mem _ hx)),
      addCond_sat hs (hwf c (List.mem_cons_self ..))]
    simp only [List.mem_cons, forall_eq_or_imp, and_assoc]

theorem addConds_substOk (hs : SimpSound s) {aux : List B} (hwf : ∀ c ∈ aux, c.WF) {st : SState}
    (h : SubstOk I st) : SubstOk I (aux.foldl (addCond s) st) := by
  induction aux generalizing st with
  | nil => exact h
  | cons c aux ih =>
    rw [List.foldl_cons]
    exact ih (fun x hx => hwf x (List.mem_cons_of_mem _ hx))
      (addCond_substOk hs (hwf c (List.mem_cons_self ..)) h)

/-- `substitution.get(t)` returns a justified literal -/
theorem substGet_ok {st : SState} (h : SubstOk I st) {t v : T} (hg : substGet st.subst t = some v) :
    v.WF ∧ (Sat I st.path → t.eval I = v.eval I) := by
  unfold substGet at hg
  cases hf : st.subst.find? (fun p => p.1 == t) with
  | none => rw [hf] at hg; cases hg
  | some kv =>
    rw [hf] at hg
    simp only [Option.map_some, Option.some.injEq] at hg
    have hm := List.mem_of_find?_eq_some hf
    have hk := List.find?_some hf
    simp only [beq_iff_eq] at hk
    subst hg
    refine ⟨h.1 kv hm, fun hsat => ?_⟩
    rw [← hk]; exact h.2 hsat kv hm

end

/-! ### concrete reachability and termination -/

theorem CReach.trans {p w f g h} (h1 : CReach p w f g) (h2 : CReach p w g h) : CReach p w f h := by
  induction h2 with
  | refl => exact h1
  | tail _ hs ih => exact CReach.tail ih hs

theorem CReach.single {p w f g} (h : Evm.step p w f = .next w g) : CReach p w f g :=
  CReach.tail (CReach.refl f) h

/-- the concrete run from `f` terminates with result `r` -/
def Halts (p : Evm.Params) (w : Evm.World) (f : Evm.Frame) (r : Evm.World × Evm.Halt) : Prop :=
  ∃ n, Evm.exec p n w f = some r

theorem exec_succ_next {p w f f'} (h : Evm.step p w f = .next w f') (n : Nat) :
    Evm.exec p (n + 1) w f = Evm.exec p n w f' := by
  rw [Evm.exec]; simp only [h]

theorem exec_succ_halt {p w f h'} (h : Evm.step p w f = .halt w h') (n : Nat) :
    Evm.exec p (n + 1) w f = some (w, h') := by
  rw [Evm.exec]; simp only [h]

theorem halts_next {p w f f' r} (h : Evm.step p w f = .next w f') : Halts p w f r ↔ Halts p w f' r := by
  constructor
  · rintro ⟨n, hn⟩
    cases n with
    | zero => simp [Evm.exec] at hn
    | succ n => exact ⟨n, by rw [← exec_succ_next h]; exact hn⟩
  · rintro ⟨n, hn⟩
    exact ⟨n + 1, by rw [exec_succ_next h]; exact hn⟩

theorem halts_halt {p w f h' r} (h : Evm.step p w f = .halt w h') : Halts p w f r ↔ r = (w, h') := by
  constructor
  · rintro ⟨n, hn⟩
    cases n with
    | zero => simp [Evm.exec] at hn
    | succ n => rw [exec_succ_halt h] at hn; exact (Option.some.inj hn).symm
  · rintro rfl
    exact ⟨1, exec_succ_halt h 0⟩

theorem halts_reach {p w f g r} (h : CReach p w f g) : Halts p w f r ↔ Halts p w g r := by
  induction h with
  | refl => exact Iff.rfl
  | tail _ hs ih => exact ih.trans (halts_next hs)

/-- a reachable frame at which the machine halts gives a terminating run of the whole program -/
theorem exec_of_reach {p w f0 f h} (hr : CReach p w f0 f) (hs : Evm.step p w f = .halt w h) :
    ∃ n, Evm.exec p n w f0 = some (w, h) :=
  (halts_reach hr).2 ((halts_halt hs).2 rfl)

end HalmosVerif.Lemmas.Sevm
