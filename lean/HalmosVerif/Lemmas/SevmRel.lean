/-
Lemmas.SevmRel — the simulation relation between the symbolic core machine (Model.Sevm) and the reference
EVM (Spec.Evm), and the concrete side of each core instruction (`Evm.step` unfolded per opcode).
-/
import HalmosVerif.Model.Sevm
import HalmosVerif.Lemmas.WordExec

set_option linter.unusedSectionVars false
set_option linter.unusedSimpArgs false

namespace HalmosVerif.Lemmas.Sevm
open HalmosVerif.Model HalmosVerif.Model.Sevm HalmosVerif.Spec HalmosVerif.Lemmas.Word

/-- a symbolic word and the concrete word it stands for under `I` -/
def WordRel (I : Interp) (v : HV) (n : Nat) : Prop := v.WF ∧ v.IsWord ∧ v.denote I = n

inductive StackRel (I : Interp) : List HV → List Nat → Prop where
  | nil : StackRel I [] []
  | cons {v n ss cs} : WordRel I v n → StackRel I ss cs → StackRel I (v :: ss) (n :: cs)

/-- the symbolic transaction environment denotes the concrete frame's -/
structure EnvRel (I : Interp) (env : Env) (p : Evm.Params) (f : Evm.Frame) : Prop where
  caller : env.caller.WF ∧ env.caller.width ≤ 256 ∧ env.caller.eval I = f.caller
  origin : env.origin.WF ∧ env.origin.width ≤ 256 ∧ env.origin.eval I = p.origin
  callvalue : env.callvalue.WF ∧ env.callvalue.width ≤ 256 ∧ env.callvalue.eval I = f.value
  address : env.address.WF ∧ env.address.width ≤ 256 ∧ env.address.eval I = f.this
  cd : ∀ off, (env.cd off).WF ∧ (env.cd off).width = 256 ∧
        (env.cd off).eval I = Evm.bytesToNat (Evm.readBytes f.calldata off 32)
  cdByte : ∀ i, (env.cdByte i).WF ∧ (env.cdByte i).width = 8 ∧ (env.cdByte i).eval I = (f.calldata[i]?).getD 0
  cdSize : env.cdSize = f.calldata.length
  isStatic : env.isStatic = f.isStatic

/-- the valuation `I` satisfies every path condition -/
def Sat (I : Interp) (π : List B) : Prop := ∀ b ∈ π, b.eval I = true

theorem Sat.nil (I : Interp) : Sat I [] := fun _ h => absurd h List.not_mem_nil

theorem sat_append {I : Interp} {π ρ : List B} : Sat I (π ++ ρ) ↔ Sat I π ∧ Sat I ρ := by
  constructor
  · intro h
    exact ⟨fun b hb => h b (List.mem_append_left _ hb), fun b hb => h b (List.mem_append_right _ hb)⟩
  · rintro ⟨h1, h2⟩ b hb
    rcases List.mem_append.1 hb with hb | hb
    · exact h1 b hb
    · exact h2 b hb

theorem sat_singleton {I : Interp} {c : B} : Sat I [c] ↔ c.eval I = true := by
  constructor
  · intro h; exact h c (List.mem_singleton.2 rfl)
  · intro h b hb; rw [List.mem_singleton.1 hb]; exact h

/-- the concretization map of a state is justified by its path: every binding is `term ↦ well-formed literal`, and a
    valuation satisfying the path gives both the same value -/
def SubstOk (I : Interp) (st : SState) : Prop :=
  (∀ kv ∈ st.subst, kv.2.WF) ∧ (Sat I st.path → ∀ kv ∈ st.subst, kv.1.eval I = kv.2.eval I)

/-- symbolic memory (byte terms) against concrete memory (bytes): same length, byte-wise the same values -/
def MemRel (I : Interp) (sm : List T) (cm : List Nat) : Prop :=
  (∀ b ∈ sm, b.WF ∧ b.width = 8) ∧ sm.map (·.eval I) = cm

/-- simulation relation -/
structure R (I : Interp) (env : Env) (code : List Nat) (p : Evm.Params) (st : SState) (f : Evm.Frame) : Prop where
  code : f.code = code
  pc : f.pc = st.pc
  stack : StackRel I st.stack f.stack
  env : EnvRel I env p f
  subst : SubstOk I st
  mem : MemRel I st.mem f.mem
  retdata : MemRel I st.returndata f.returndata

/-- concrete reachability through non-halting steps: (world, frame) pairs (only SSTORE / TSTORE change the world) -/
inductive CReach (p : Evm.Params) : Evm.World × Evm.Frame → Evm.World × Evm.Frame → Prop where
  | refl (x) : CReach p x x
  | tail {x w g w' h} : CReach p x (w, g) → Evm.step p w g = .next w' h → CReach p x (w', h)

/-- the symbolic storage maps of the executing account `this` against the concrete world `w`, for a run started in the
    world `w0`: the account's plain slots (those below 2^64) and its transient storage are zero in `w0` (halmos'
    non-symbolic initial storage); every plain slot written holds, in `w`, the value of the term last stored, every
    other slot of `this` what it held in `w0` (zero for a plain slot; the cells at hashed locations are not the
    business of this relation); the map binds plain slots to well-formed 256-bit terms; nothing else of the world
    differs from `w0` -/
structure WRel (I : Interp) (w0 w : Evm.World) (this : Nat) (sto tr : List (Nat × T)) : Prop where
  zero : ∀ slot, (slot < 2 ^ 64 → Evm.lookupD w0.storage (this, slot) = 0) ∧ Evm.lookupD w0.transient (this, slot) = 0
  hsto : ∀ slot, Evm.lookupD w.storage (this, slot) =
    if (sto.find? (fun kv => kv.1 == slot)).isSome then (stoGet sto slot).eval I
    else Evm.lookupD w0.storage (this, slot)
  htr : ∀ slot, Evm.lookupD w.transient (this, slot) = (stoGet tr slot).eval I
  wf : ∀ kv, kv ∈ sto ∨ kv ∈ tr → kv.2.WF ∧ kv.2.width = 256
  keys : ∀ kv ∈ sto, kv.1 < 2 ^ 64
  other : ∀ a slot, a ≠ this → Evm.lookupD w.storage (a, slot) = Evm.lookupD w0.storage (a, slot) ∧
            Evm.lookupD w.transient (a, slot) = Evm.lookupD w0.transient (a, slot)
  rest : w.code = w0.code ∧ w.balance = w0.balance ∧ w.balanceDefault = w0.balanceDefault ∧
           w.created = w0.created ∧ w.logs = w0.logs

theorem StackRel.length {I ss cs} (h : StackRel I ss cs) : ss.length = cs.length := by
  induction h with
  | nil => rfl
  | cons _ _ ih => simp [ih]

theorem StackRel.take {I ss cs} (h : StackRel I ss cs) (n : Nat) : StackRel I (ss.take n) (cs.take n) := by
  induction h generalizing n with
  | nil => simpa using StackRel.nil
  | cons hw _ ih =>
    cases n with
    | zero => simpa using StackRel.nil
    | succ n => simpa using StackRel.cons hw (ih n)

theorem StackRel.drop {I ss cs} (h : StackRel I ss cs) (n : Nat) : StackRel I (ss.drop n) (cs.drop n) := by
  induction h generalizing n with
  | nil => simpa using StackRel.nil
  | cons hw hr ih =>
    cases n with
    | zero => simpa using StackRel.cons hw hr
    | succ n => simpa using ih n

theorem StackRel.get {I ss cs} (h : StackRel I ss cs) (n : Nat) :
    (ss[n]? = none ∧ cs[n]? = none) ∨ ∃ v c, ss[n]? = some v ∧ cs[n]? = some c ∧ WordRel I v c := by
  induction h generalizing n with
  | nil => left; simp
  | cons hw _ ih =>
    cases n with
    | zero => right; exact ⟨_, _, rfl, rfl, hw⟩
    | succ n => simpa using ih n

theorem StackRel.set {I ss cs} (h : StackRel I ss cs) (n : Nat) {v c} (hw : WordRel I v c) :
    StackRel I (ss.set n v) (cs.set n c) := by
  induction h generalizing n with
  | nil => simpa using StackRel.nil
  | cons hw' hr ih =>
    cases n with
    | zero => simpa using StackRel.cons hw hr
    | succ n => simpa using StackRel.cons hw' (ih n)

theorem StackRel.denote_map {I ss cs} (h : StackRel I ss cs) : ss.map (·.denote I) = cs := by
  induction h with
  | nil => rfl
  | cons hw _ ih => simp [ih, hw.2.2]

theorem StackRel.all {I ss cs} (h : StackRel I ss cs) : ∀ a ∈ ss, a.WF ∧ a.IsWord := by
  induction h with
  | nil => intro a ha; cases ha
  | cons hw _ ih =>
    intro a ha
    rcases List.mem_cons.1 ha with rfl | ha
    · exact ⟨hw.1, hw.2.1⟩
    · exact ih a ha

theorem wordrel_lt {I v n} (h : WordRel I v n) : n < 2 ^ 256 := by
  obtain ⟨hwf, hw, hd⟩ := h
  cases v with
  | bv size r =>
    simp only [HV.IsWord] at hw
    subst hw
    rw [← hd]; exact denote_lt hwf
  | bool r =>
    rw [← hd]
    cases r with
    | con b => cases b <;> simp [HV.denote]
    | sym b => simp only [HV.denote]; split <;> omega

/-! ### inversion, congruence -/

theorem StackRel.nil_inv {I cs} (h : StackRel I [] cs) : cs = [] := by cases h; rfl

theorem StackRel.cons_inv {I v ss cs} (h : StackRel I (v :: ss) cs) :
    ∃ n cs', cs = n :: cs' ∧ WordRel I v n ∧ StackRel I ss cs' := by
  cases h with
  | cons hw hr => exact ⟨_, _, rfl, hw, hr⟩

theorem StackRel.append {I a b ca cb} (h1 : StackRel I a ca) (h2 : StackRel I b cb) :
    StackRel I (a ++ b) (ca ++ cb) := by
  induction h1 with
  | nil => simpa using h2
  | cons hw _ ih => simpa using StackRel.cons hw ih

theorem StackRel.take_drop {I ss cs} (h : StackRel I ss cs) (n : Nat) :
    cs = cs.take n ++ cs.drop n ∧ (cs.take n).length = (ss.take n).length := by
  refine ⟨(List.take_append_drop n cs).symm, ?_⟩
  simp [h.length]

/-- the environment relation only looks at the fields a core step never changes -/
theorem EnvRel.congr {I env p f f'} (h : EnvRel I env p f) (h1 : f'.caller = f.caller) (h2 : f'.value = f.value)
    (h3 : f'.this = f.this) (h4 : f'.calldata = f.calldata) (h5 : f'.isStatic = f.isStatic) : EnvRel I env p f' :=
  ⟨by rw [h1]; exact h.caller, h.origin, by rw [h2]; exact h.callvalue, by rw [h3]; exact h.address,
   by rw [h4]; exact h.cd, by rw [h4]; exact h.cdByte, by rw [h4]; exact h.cdSize, by rw [h5]; exact h.isStatic⟩

theorem SubstOk.same {I : Interp} {st st' : SState} (h : SubstOk I st) (hs : st'.subst = st.subst)
    (hp : st'.path = st.path) : SubstOk I st' := by
  unfold SubstOk; rw [hs, hp]; exact h

/-- what a core step leaves alone in the concrete frame -/
def SameCtx (f' f : Evm.Frame) : Prop :=
  f'.code = f.code ∧ f'.caller = f.caller ∧ f'.value = f.value ∧ f'.this = f.this ∧ f'.calldata = f.calldata ∧
  f'.isStatic = f.isStatic ∧ f'.returndata = f.returndata

/-- `SameCtx` for a frame built by record update of `f` -/
macro "sc!" : term => `((by exact ⟨rfl, rfl, rfl, rfl, rfl, rfl, rfl⟩))

/-- re-establish `R` after a core step: only pc and stack need attention (and the concretization map, when the path
    grew; the memory, when it was written) -/
theorem R.next {I env code p st f st' f'} (h : R I env code p st f) (hctx : SameCtx f' f)
    (hsr : st'.returndata = st.returndata)
    (hpc : f'.pc = st'.pc) (hstk : StackRel I st'.stack f'.stack) (hso : SubstOk I st')
    (hm : MemRel I st'.mem f'.mem) : R I env code p st' f' :=
  ⟨hctx.1.trans h.code, hpc, hstk, h.env.congr hctx.2.1 hctx.2.2.1 hctx.2.2.2.1 hctx.2.2.2.2.1 hctx.2.2.2.2.2.1, hso, hm,
   by rw [hsr, hctx.2.2.2.2.2.2]; exact h.retdata⟩

/-- the common case: path, concretization map and memory untouched -/
theorem R.next' {I env code p st f st' f'} (h : R I env code p st f) (hctx : SameCtx f' f)
    (hs : st'.subst = st.subst) (hp : st'.path = st.path) (hsm : st'.mem = st.mem) (hfm : f'.mem = f.mem)
    (hsr : st'.returndata = st.returndata)
    (hpc : f'.pc = st'.pc) (hstk : StackRel I st'.stack f'.stack) : R I env code p st' f' :=
  h.next hctx hsr hpc hstk (h.subst.same hs hp) (by rw [hsm, hfm]; exact h.mem)

/-- `R` looks at pc, stack, memory, return data and the concretization map only -/
theorem R.congr {I env code p st st' f} (h : R I env code p st f) (hpc : st'.pc = st.pc)
    (hstk : st'.stack = st.stack) (hsm : st'.mem = st.mem) (hsr : st'.returndata = st.returndata)
    (hso : SubstOk I st') : R I env code p st' f :=
  ⟨h.code, h.pc.trans hpc.symm, hstk ▸ h.stack, h.env, hso, hsm ▸ h.mem, hsr ▸ h.retdata⟩

theorem R.op_eq {I env code p st f} (h : R I env code p st f) : (f.code[f.pc]?).getD 0 = opAt code st.pc := by
  rw [h.code, h.pc]; rfl

/-! ### path satisfaction, the oracle, `Exec.check` -/

/-- the only thing the engine may rely on: an `unsat` answer means no valuation of the path satisfies the condition
    (for every interpretation of the uninterpreted functions: a solver treats them as free). Nothing is assumed about
    `sat` or `unknown`. -/
def OracleSound (o : Oracle) : Prop :=
  ∀ π c, o π c = .unsat → ∀ I, Sat I π → c.eval I = false

/-- an oracle that never commits (every query times out) is sound -/
theorem oracleSound_unknown : OracleSound (fun _ _ => .unknown) := by
  intro π c h; cases h

/-- **`Exec.check` is sound for `unsat`**: each quick check and the solver fallback -/
theorem exCheck_sound {s : Simp} (hs : SimpSound s) {o : Oracle} (ho : OracleSound o) {π : List B} {c : B}
    (hc : c.WF) (h : exCheck s o π c = .unsat) (I : Interp) (hsat : Sat I π) : c.eval I = false := by
  have he := hs.evalB I c hc
  have hwf := hs.wfB c hc
  unfold exCheck at h
  simp only at h
  split at h
  · cases h
  · rename_i heq
    rw [← he, heq]; rfl
  · split at h
    · cases h
    · split at h
      · rename_i hmem
        have h1 := hsat _ hmem
        rw [hs.evalB I _ (by simpa only [B.WF] using hwf)] at h1
        simp only [B.eval, Bool.not_eq_true'] at h1
        rw [← he]; exact h1
      · rw [← he]; exact ho π _ h I hsat

/-! ### `Path.append` -/

section
variable {s : Simp} {I : Interp}

theorem addCond_cases (s : Simp) (st : SState) (c : B) :
    addCond s st c = st ∧ (s.b c = .lit true ∨ s.b c ∈ st.path) ∨
    addCond s st c = { st with path := st.path ++ [s.b c], subst := procCond st.subst (s.b c) } := by
  unfold addCond
  simp only
  split
  · rename_i h; exact Or.inl ⟨rfl, Or.inl h⟩
  · split
    · rename_i h; exact Or.inl ⟨rfl, Or.inr h⟩
    · exact Or.inr rfl

theorem addCond_pc (s : Simp) (st : SState) (c : B) : (addCond s st c).pc = st.pc := by
  rcases addCond_cases s st c with ⟨h, _⟩ | h <;> rw [h]

theorem addCond_stack (s : Simp) (st : SState) (c : B) : (addCond s st c).stack = st.stack := by
  rcases addCond_cases s st c with ⟨h, _⟩ | h <;> rw [h]

theorem addCond_visits (s : Simp) (st : SState) (c : B) : (addCond s st c).visits = st.visits := by
  rcases addCond_cases s st c with ⟨h, _⟩ | h <;> rw [h]

theorem addCond_mem (s : Simp) (st : SState) (c : B) : (addCond s st c).mem = st.mem := by
  rcases addCond_cases s st c with ⟨h, _⟩ | h <;> rw [h]

theorem addCond_returndata (s : Simp) (st : SState) (c : B) : (addCond s st c).returndata = st.returndata := by
  rcases addCond_cases s st c with ⟨h, _⟩ | h <;> rw [h]

theorem addCond_storage (s : Simp) (st : SState) (c : B) :
    (addCond s st c).storage = st.storage ∧ (addCond s st c).transient = st.transient := by
  rcases addCond_cases s st c with ⟨h, _⟩ | h <;> rw [h] <;> exact ⟨rfl, rfl⟩

/-- paths only grow -/
theorem addCond_path_ext (s : Simp) (st : SState) (c : B) : ∃ ext, (addCond s st c).path = st.path ++ ext := by
  rcases addCond_cases s st c with ⟨h, _⟩ | h
  · exact ⟨[], by rw [h]; simp⟩
  · exact ⟨[s.b c], by rw [h]⟩

/-- the new path is satisfied exactly when the old one is and the condition holds (whether it was recorded, was
    already there, or simplified to `true`) -/
theorem addCond_sat (hs : SimpSound s) {st : SState} {c : B} (hc : c.WF) :
    Sat I (addCond s st c).path ↔ Sat I st.path ∧ c.eval I = true := by
  have he := hs.evalB I c hc
  rcases addCond_cases s st c with ⟨h, ht | hm⟩ | h
  · rw [h]
    refine ⟨fun hsat => ⟨hsat, ?_⟩, fun hsat => hsat.1⟩
    rw [← he, ht]; rfl
  · rw [h]
    refine ⟨fun hsat => ⟨hsat, ?_⟩, fun hsat => hsat.1⟩
    rw [← he]; exact hsat _ hm
  · rw [h]
    simp only
    rw [sat_append, sat_singleton, he]

theorem procCond_mem {sub : List (T × T)} {c : B} {kv : T × T} (h : kv ∈ procCond sub c) :
    kv ∈ sub ∨ (∃ w n, kv.2 = .lit w n ∧ (c = .cmp .eq kv.1 kv.2 ∨ c = .cmp .eq kv.2 kv.1)) := by
  unfold procCond at h
  split at h
  · rcases List.mem_cons.1 h with rfl | h
    · exact Or.inr ⟨_, _, rfl, Or.inl rfl⟩
    · exact Or.inl h
  · rcases List.mem_cons.1 h with rfl | h
    · exact Or.inr ⟨_, _, rfl, Or.inr rfl⟩
    · exact Or.inl h
  · exact Or.inl h

/-- the concretization map stays justified -/
theorem addCond_substOk (hs : SimpSound s) {st : SState} {c : B} (hc : c.WF) (h : SubstOk I st) :
    SubstOk I (addCond s st c) := by
  rcases addCond_cases s st c with ⟨e, _⟩ | e
  · rw [e]; exact h
  · rw [e]
    have hwf := hs.wfB c hc
    refine ⟨?_, ?_⟩
    · intro kv hm
      rcases procCond_mem hm with hm | ⟨w, n, hv, hc' | hc'⟩
      · exact h.1 kv hm
      · rw [hc'] at hwf; simp only [B.WF] at hwf; exact hwf.2.1
      · rw [hc'] at hwf; simp only [B.WF] at hwf; exact hwf.1
    · intro hsat kv hm
      simp only at hsat
      obtain ⟨hsat0, hsc⟩ := sat_append.1 hsat
      have hce := sat_singleton.1 hsc
      rcases procCond_mem hm with hm | ⟨w, n, hv, hc' | hc'⟩
      · exact h.2 hsat0 kv hm
      · rw [hc'] at hce
        simp only [B.eval, CmpOp.eval, beq_iff_eq] at hce
        exact hce
      · rw [hc'] at hce
        simp only [B.eval, CmpOp.eval, beq_iff_eq] at hce
        exact hce.symm

/-! several conditions (`SEVM.arith` appends its side constraints) -/

theorem addConds_pc (s : Simp) (aux : List B) (st : SState) : (aux.foldl (addCond s) st).pc = st.pc := by
  induction aux generalizing st with
  | nil => rfl
  | cons c aux ih => rw [List.foldl_cons, ih, addCond_pc]

theorem addConds_stack (s : Simp) (aux : List B) (st : SState) : (aux.foldl (addCond s) st).stack = st.stack := by
  induction aux generalizing st with
  | nil => rfl
  | cons c aux ih => rw [List.foldl_cons, ih, addCond_stack]

theorem addConds_visits (s : Simp) (aux : List B) (st : SState) :
    (aux.foldl (addCond s) st).visits = st.visits := by
  induction aux generalizing st with
  | nil => rfl
  | cons c aux ih => rw [List.foldl_cons, ih, addCond_visits]

theorem addConds_mem (s : Simp) (aux : List B) (st : SState) : (aux.foldl (addCond s) st).mem = st.mem := by
  induction aux generalizing st with
  | nil => rfl
  | cons c aux ih => rw [List.foldl_cons, ih, addCond_mem]

theorem addConds_returndata (s : Simp) (aux : List B) (st : SState) :
    (aux.foldl (addCond s) st).returndata = st.returndata := by
  induction aux generalizing st with
  | nil => rfl
  | cons c aux ih => rw [List.foldl_cons, ih, addCond_returndata]

theorem addConds_storage (s : Simp) (aux : List B) (st : SState) :
    (aux.foldl (addCond s) st).storage = st.storage ∧ (aux.foldl (addCond s) st).transient = st.transient := by
  induction aux generalizing st with
  | nil => exact ⟨rfl, rfl⟩
  | cons c aux ih =>
    rw [List.foldl_cons]
    exact ⟨(ih _).1.trans (addCond_storage s st c).1, (ih _).2.trans (addCond_storage s st c).2⟩

theorem addConds_path_ext (s : Simp) (aux : List B) (st : SState) :
    ∃ ext, (aux.foldl (addCond s) st).path = st.path ++ ext := by
  induction aux generalizing st with
  | nil => exact ⟨[], by simp⟩
  | cons c aux ih =>
    obtain ⟨e1, h1⟩ := addCond_path_ext s st c
    obtain ⟨e2, h2⟩ := ih (addCond s st c)
    exact ⟨e1 ++ e2, by rw [List.foldl_cons, h2, h1, List.append_assoc]⟩

theorem addConds_sat (hs : SimpSound s) {aux : List B} (hwf : ∀ c ∈ aux, c.WF) (st : SState) :
    Sat I (aux.foldl (addCond s) st).path ↔ Sat I st.path ∧ ∀ c ∈ aux, c.eval I = true := by
  induction aux generalizing st with
  | nil => simp
  | cons c aux ih =>
    rw [List.foldl_cons, ih (fun x hx => hwf x (List.mem_cons_of_mem _ hx)),
      addCond_sat hs (hwf c (List.mem_cons_self ..))]
    simp only [List.mem_cons, forall_eq_or_imp, and_assoc]

theorem addConds_substOk (hs : SimpSound s) {aux : List B} (hwf : ∀ c ∈ aux, c.WF) {st : SState}
    (h : SubstOk I st) : SubstOk I (aux.foldl (addCond s) st) := by
  induction aux generalizing st with
  | nil => exact h
  | cons c aux ih =>
    rw [List.foldl_cons]
    exact ih (fun x hx => hwf x (List.mem_cons_of_mem _ hx))
      (addCond_substOk hs (hwf c (List.mem_cons_self ..)) h)

/-- `substitution.get(t)` returns a justified literal -/
theorem substGet_ok {st : SState} (h : SubstOk I st) {t v : T} (hg : substGet st.subst t = some v) :
    v.WF ∧ (Sat I st.path → t.eval I = v.eval I) := by
  unfold substGet at hg
  cases hf : st.subst.find? (fun p => p.1 == t) with
  | none => rw [hf] at hg; cases hg
  | some kv =>
    rw [hf] at hg
    simp only [Option.map_some, Option.some.injEq] at hg
    have hm := List.mem_of_find?_eq_some hf
    have hk := List.find?_some hf
    simp only [beq_iff_eq] at hk
    subst hg
    refine ⟨h.1 kv hm, fun hsat => ?_⟩
    rw [← hk]; exact h.2 hsat kv hm

end

/-! ### concrete reachability and termination -/

theorem CReach.trans {p x y z} (h1 : CReach p x y) (h2 : CReach p y z) : CReach p x z := by
  induction h2 with
  | refl => exact h1
  | tail _ hs ih => exact CReach.tail ih hs

theorem CReach.single {p w f w' g} (h : Evm.step p w f = .next w' g) : CReach p (w, f) (w', g) :=
  CReach.tail (CReach.refl _) h

/-- the concrete run from `f` in the world `w` terminates with result `r` -/
def Halts (p : Evm.Params) (w : Evm.World) (f : Evm.Frame) (r : Evm.World × Evm.Halt) : Prop :=
  ∃ n, Evm.exec p n w f = some r

theorem exec_succ_next {p w f w' f'} (h : Evm.step p w f = .next w' f') (n : Nat) :
    Evm.exec p (n + 1) w f = Evm.exec p n w' f' := by
  rw [Evm.exec]; simp only [h]

theorem exec_succ_halt {p w f w' h'} (h : Evm.step p w f = .halt w' h') (n : Nat) :
    Evm.exec p (n + 1) w f = some (w', h') := by
  rw [Evm.exec]; simp only [h]

theorem halts_next {p w f w' f' r} (h : Evm.step p w f = .next w' f') : Halts p w f r ↔ Halts p w' f' r := by
  constructor
  · rintro ⟨n, hn⟩
    cases n with
    | zero => simp [Evm.exec] at hn
    | succ n => exact ⟨n, by rw [← exec_succ_next h]; exact hn⟩
  · rintro ⟨n, hn⟩
    exact ⟨n + 1, by rw [exec_succ_next h]; exact hn⟩

theorem halts_halt {p w f w' h' r} (h : Evm.step p w f = .halt w' h') : Halts p w f r ↔ r = (w', h') := by
  constructor
  · rintro ⟨n, hn⟩
    cases n with
    | zero => simp [Evm.exec] at hn
    | succ n => rw [exec_succ_halt h] at hn; exact (Option.some.inj hn).symm
  · rintro rfl
    exact ⟨1, exec_succ_halt h 0⟩

theorem halts_reach {p x y r} (h : CReach p x y) : Halts p x.1 x.2 r ↔ Halts p y.1 y.2 r := by
  induction h with
  | refl => exact Iff.rfl
  | tail _ hs ih => exact ih.trans (halts_next hs)

/-- a reachable frame at which the machine halts gives a terminating run of the whole program -/
theorem exec_of_reach {p w0 f0 w f w' h} (hr : CReach p (w0, f0) (w, f)) (hs : Evm.step p w f = .halt w' h) :
    ∃ n, Evm.exec p n w0 f0 = some (w', h) :=
  (halts_reach hr).2 ((halts_halt hs).2 rfl)

/-! ### storage maps -/

theorem stoGet_cons (σ : List (Nat × T)) (slot : Nat) (t : T) (k : Nat) :
    stoGet ((slot, t) :: σ) k = if k = slot then t else stoGet σ k := by
  unfold stoGet
  by_cases h : k = slot
  · subst h; simp
  · have : ¬ slot = k := fun e => h e.symm
    simp [List.find?_cons, h, this]

theorem lookupD_insert (m : List ((Nat × Nat) × Nat)) (k k' : Nat × Nat) (v d : Nat) :
    Evm.lookupD (Evm.insert m k v) k' d = if k' = k then v else Evm.lookupD m k' d := by
  unfold Evm.lookupD Evm.insert
  by_cases h : k' = k
  · subst h; simp
  · have h1 : (k == k') = false := by
      rw [beq_eq_false_iff_ne]; exact fun e => h e.symm
    simp only [List.find?_cons, h1, h, if_false, List.find?_filter]
    have : ∀ a : (Nat × Nat) × Nat, decide ((!(a.1 == k)) = true ∧ (a.1 == k') = true) = (a.1 == k') := by
      intro a
      by_cases ha : a.1 = k'
      · have : (a.1 == k) = false := by rw [beq_eq_false_iff_ne, ha]; exact h
        simp [ha, h]
      · have : (a.1 == k') = false := by rw [beq_eq_false_iff_ne]; exact ha
        simp [this]
    simp only [this]

/-- the world relation at the start: nothing written -/
theorem WRel.init {I : Interp} {w0 : Evm.World} {this : Nat}
    (hz : ∀ slot, Evm.lookupD w0.storage (this, slot) = 0 ∧ Evm.lookupD w0.transient (this, slot) = 0) :
    WRel I w0 w0 this [] [] :=
  ⟨fun slot => ⟨fun _ => (hz slot).1, (hz slot).2⟩, fun slot => rfl, fun slot => (hz slot).2,
   fun kv h => by rcases h with h | h <;> exact absurd h List.not_mem_nil,
   fun kv h => absurd h List.not_mem_nil, fun _ _ _ => ⟨rfl, rfl⟩,
   ⟨rfl, rfl, rfl, rfl, rfl⟩⟩

/-- a plain slot holds the value of the term last stored, zero if never written -/
theorem WRel.hsto_lt {I : Interp} {w0 w : Evm.World} {this : Nat} {sto tr : List (Nat × T)}
    (h : WRel I w0 w this sto tr) {slot : Nat} (hlt : slot < 2 ^ 64) :
    Evm.lookupD w.storage (this, slot) = (stoGet sto slot).eval I := by
  rw [h.hsto slot]
  split
  · rfl
  · rename_i hn
    rw [(h.zero slot).1 hlt]
    unfold stoGet
    cases hf : sto.find? (fun kv => kv.1 == slot) with
    | none => rfl
    | some kv => rw [hf] at hn; simp at hn

/-- SSTORE of a well-formed word `v` (denoting `n`) at `slot` -/
theorem WRel.sstore {I : Interp} {w0 w : Evm.World} {this : Nat} {sto tr : List (Nat × T)}
    (h : WRel I w0 w this sto tr) (slot : Nat) (hlt : slot < 2 ^ 64) {t : T} {n : Nat} (ht : t.WF ∧ t.width = 256)
    (he : t.eval I = n) :
    WRel I w0 { w with storage := Evm.insert w.storage (this, slot) n } this ((slot, t) :: sto) tr := by
  refine ⟨h.zero, ?_, h.htr, ?_, ?_, ?_, h.rest⟩
  · intro k
    simp only [lookupD_insert, stoGet_cons, List.find?_cons]
    by_cases hk : k = slot
    · subst hk; simp [he]
    · have : ¬ (this, k) = (this, slot) := by simpa using hk
      have hb : ((slot, t).1 == k) = false := by simpa using fun e => hk e.symm
      simp only [this, hk, if_false, hb]; exact h.hsto k
  · intro kv hkv
    rcases hkv with hkv | hkv
    · rcases List.mem_cons.1 hkv with rfl | hkv
      · exact ht
      · exact h.wf kv (Or.inl hkv)
    · exact h.wf kv (Or.inr hkv)
  · intro kv hkv
    rcases List.mem_cons.1 hkv with rfl | hkv
    · exact hlt
    · exact h.keys kv hkv
  · intro a k ha
    have : ¬ (a, k) = (this, slot) := by
      intro e; exact ha (Prod.mk.inj e).1
    simp only [lookupD_insert, this, if_false]
    exact h.other a k ha

theorem WRel.tstore {I : Interp} {w0 w : Evm.World} {this : Nat} {sto tr : List (Nat × T)}
    (h : WRel I w0 w this sto tr) (slot : Nat) {t : T} {n : Nat} (ht : t.WF ∧ t.width = 256) (he : t.eval I = n) :
    WRel I w0 { w with transient := Evm.insert w.transient (this, slot) n } this sto ((slot, t) :: tr) := by
  refine ⟨h.zero, h.hsto, ?_, ?_, h.keys, ?_, h.rest⟩
  · intro k
    simp only [lookupD_insert, stoGet_cons]
    by_cases hk : k = slot
    · subst hk; simp [he]
    · have : ¬ (this, k) = (this, slot) := by simpa using hk
      simp only [this, hk, if_false]; exact h.htr k
  · intro kv hkv
    rcases hkv with hkv | hkv
    · exact h.wf kv (Or.inl hkv)
    · rcases List.mem_cons.1 hkv with rfl | hkv
      · exact ht
      · exact h.wf kv (Or.inr hkv)
  · intro a k ha
    have : ¬ (a, k) = (this, slot) := by
      intro e; exact ha (Prod.mk.inj e).1
    simp only [lookupD_insert, this, if_false]
    exact h.other a k ha

/-- a loaded term is a well-formed 256-bit term -/
theorem stoGet_wf {σ : List (Nat × T)} (h : ∀ kv ∈ σ, kv.2.WF ∧ kv.2.width = 256) (slot : Nat) :
    (stoGet σ slot).WF ∧ (stoGet σ slot).width = 256 := by
  unfold stoGet
  cases hf : σ.find? (fun kv => kv.1 == slot) with
  | none => exact ⟨(by decide : 0 < 256), rfl⟩
  | some kv => exact h kv (List.mem_of_find?_eq_some hf)

end HalmosVerif.Lemmas.Sevm
