/-
Lemmas.SevmShape — the shape of one symbolic dispatch step, independent of any concrete frame: the step returns one
successor whose path extends the current one, or one end state on the current path, or it is `jumpi` on a state with
the current path. Consequences: paths only grow along the exploration; end states carry the path they ended on.
-/
import HalmosVerif.Lemmas.SevmJumpi

set_option linter.unusedSimpArgs false
set_option linter.unusedVariables false

namespace HalmosVerif.Lemmas.Sevm
open HalmosVerif.Model HalmosVerif.Model.Sevm HalmosVerif.Spec

section
variable {s : Simp} {o : Oracle} {cfg : Cfg} {env : Env} {code : List Nat} {st : SState}

/-- what an ending (or branching) state keeps of the state that was stepped -/
def Keeps (a b : SState) : Prop :=
  a.path = b.path ∧ a.subst = b.subst ∧ a.storage = b.storage ∧ a.transient = b.transient

def Shape (s : Simp) (o : Oracle) (cfg : Cfg) (code : List Nat) (st : SState) (out : StepOut) : Prop :=
  (∃ st' ext, out = contOut st' ∧ st'.path = st.path ++ ext ∧ st'.visits = st.visits) ∨
  (∃ e, out = { ends := [e] } ∧ Keeps e.st st) ∨
  (∃ st0 target c nextPc, out = jumpi s o cfg code st0 target c nextPc ∧ Keeps st0 st ∧ st0.visits = st.visits)

theorem Shape.cont {st' : SState} {ext : List B} (h : st'.path = st.path ++ ext) (hv : st'.visits = st.visits) :
    Shape s o cfg code st (contOut st') := Or.inl ⟨st', ext, rfl, h, hv⟩
theorem Shape.cont0 {st' : SState} (h : st'.path = st.path) (hv : st'.visits = st.visits) :
    Shape s o cfg code st (contOut st') := Or.inl ⟨st', [], rfl, by simp [h], hv⟩
theorem Shape.halt {st0 : SState} {h : Evm.Halt} {tag : Tag} {data : List T} (hp : Keeps st0 st) :
    Shape s o cfg code st (haltOut st0 h tag data) := Or.inr (Or.inl ⟨_, rfl, hp⟩)
theorem Shape.stuck {st0 : SState} {r : StuckReason} (hp : Keeps st0 st) :
    Shape s o cfg code st (stuckOut st0 r) := Or.inr (Or.inl ⟨_, rfl, hp⟩)
theorem Shape.jumpi {st0 : SState} {target : Nat} {c : B} {nextPc : Nat} (hp : Keeps st0 st)
    (hv : st0.visits = st.visits) :
    Shape s o cfg code st (jumpi s o cfg code st0 target c nextPc) :=
  Or.inr (Or.inr ⟨st0, target, c, nextPc, rfl, hp, hv⟩)

theorem Shape.contAux {st1 : SState} {aux : List B} (h : st1.path = st.path) (hv : st1.visits = st.visits) :
    Shape s o cfg code st (contOut (aux.foldl (addCond s) st1)) := by
  obtain ⟨ext, he⟩ := addConds_path_ext s aux st1
  exact Or.inl ⟨_, ext, rfl, by rw [he, h], by rw [addConds_visits, hv]⟩

theorem Shape.copy {rest : List HV} {loc size : Nat} {g : Nat → T} :
    Shape s o cfg code st (copyToMemOut cfg st rest loc size g) := by
  unfold copyToMemOut
  split
  · exact Shape.cont0 rfl rfl
  · split
    · exact Shape.halt ⟨rfl, rfl, rfl, rfl⟩
    · exact Shape.cont0 rfl rfl

macro "shape_leaf" : tactic =>
  `(tactic| first
    | exact Shape.cont0 rfl rfl | exact Shape.cont rfl rfl | exact Shape.halt ⟨rfl, rfl, rfl, rfl⟩ | exact Shape.stuck ⟨rfl, rfl, rfl, rfl⟩
    | exact Shape.jumpi ⟨rfl, rfl, rfl, rfl⟩ rfl | exact Shape.contAux rfl rfl | exact Shape.copy)

macro "shape_branch" : tactic => `(tactic| ((repeat' split) <;> shape_leaf))

theorem step_shape : Shape s o cfg code st (step s o cfg env code st) := by
  unfold step
  simp only
  generalize opAt code st.pc = op
  split
  · split
    · shape_branch
    · shape_branch
  · by_cases h : op = 0x00
    · rw [if_pos h]; shape_leaf
    rw [if_neg h]; clear h
    by_cases h : op = 0xfe
    · rw [if_pos h]; shape_leaf
    rw [if_neg h]; clear h
    by_cases h : op = 0x5b
    · rw [if_pos h]; shape_leaf
    rw [if_neg h]; clear h
    by_cases h : op = 0x50
    · rw [if_pos h]; shape_branch
    rw [if_neg h]; clear h
    by_cases h : op = 0x5f
    · rw [if_pos h]; shape_leaf
    rw [if_neg h]; clear h
    by_cases h : Evm.isPush op = true
    · rw [if_pos h]; shape_leaf
    rw [if_neg h]; clear h
    by_cases h : 0x80 ≤ op ∧ op ≤ 0x8f
    · rw [if_pos h]; shape_branch
    rw [if_neg h]; clear h
    by_cases h : 0x90 ≤ op ∧ op ≤ 0x9f
    · rw [if_pos h]; shape_branch
    rw [if_neg h]; clear h
    by_cases h : op = 0x58
    · rw [if_pos h]; shape_leaf
    rw [if_neg h]; clear h
    by_cases h : op = 0x33
    · rw [if_pos h]; exact Shape.cont0 rfl rfl
    rw [if_neg h]; clear h
    by_cases h : op = 0x34
    · rw [if_pos h]; exact Shape.cont0 rfl rfl
    rw [if_neg h]; clear h
    by_cases h : op = 0x32
    · rw [if_pos h]; exact Shape.cont0 rfl rfl
    rw [if_neg h]; clear h
    by_cases h : op = 0x30
    · rw [if_pos h]; exact Shape.cont0 rfl rfl
    rw [if_neg h]; clear h
    by_cases h : op = 0x36
    · rw [if_pos h]; shape_leaf
    rw [if_neg h]; clear h
    by_cases h : op = 0x38
    · rw [if_pos h]; shape_leaf
    rw [if_neg h]; clear h
    by_cases h : op = 0x35
    · rw [if_pos h]; shape_branch
    rw [if_neg h]; clear h
    by_cases h : op = 0x56
    · rw [if_pos h]; shape_branch
    rw [if_neg h]; clear h
    by_cases h : op = 0x57
    · rw [if_pos h]; shape_branch
    rw [if_neg h]; clear h
    by_cases h : op = 0xf3 ∨ op = 0xfd
    · rw [if_pos h]; shape_branch
    rw [if_neg h]; clear h
    by_cases h : op = 0x51 ∨ op = 0x52 ∨ op = 0x53
    · rw [if_pos h]; shape_branch
    rw [if_neg h]; clear h
    by_cases h : op = 0x37
    · rw [if_pos h]; shape_branch
    rw [if_neg h]; clear h
    by_cases h : op = 0x39
    · rw [if_pos h]; shape_branch
    rw [if_neg h]; clear h
    by_cases h : op = 0x3d
    · rw [if_pos h]; shape_leaf
    rw [if_neg h]; clear h
    by_cases h : op = 0x3e
    · rw [if_pos h]; shape_branch
    rw [if_neg h]; clear h
    by_cases h : op = 0x54 ∨ op = 0x5c
    · rw [if_pos h]; shape_branch
    rw [if_neg h]; clear h
    by_cases h : op = 0x55 ∨ op = 0x5d
    · rw [if_pos h]; shape_branch
    rw [if_neg h]; clear h
    shape_leaf

/-- paths only grow -/
theorem shape_next_path {out : StepOut} (hsh : Shape s o cfg code st out) {st' : SState} (h : st' ∈ out.next) :
    ∃ ext, st'.path = st.path ++ ext := by
  rcases hsh with
    ⟨st1, ext, e, hp, _⟩ | ⟨e0, e, hp⟩ | ⟨st0, target, c, nextPc, e, hp, _⟩
  · rw [e] at h
    simp only [contOut, List.mem_singleton] at h
    subst h; exact ⟨ext, hp⟩
  · rw [e] at h; simp at h
  · rw [e] at h
    rcases jumpi_next h with ⟨⟨pc', vis', rfl, _⟩, _⟩ | ⟨vis', rfl⟩
    · obtain ⟨ext, he⟩ := addCond_path_ext s { st0 with pc := pc', visits := vis' } (s.b c)
      exact ⟨ext, by rw [he, ← hp.1]⟩
    · obtain ⟨ext, he⟩ := addCond_path_ext s { st0 with pc := nextPc, visits := vis' } (s.b (.not (s.b c)))
      exact ⟨ext, by rw [he, ← hp.1]⟩

theorem step_next_path {st' : SState} (h : st' ∈ (step s o cfg env code st).next) :
    ∃ ext, st'.path = st.path ++ ext :=
  shape_next_path step_shape h

/-- an end state carries the path of the state that ended -/
theorem step_end_path {e : EndState} (h : e ∈ (step s o cfg env code st).ends) : e.st.path = st.path := by
  rcases step_shape (s := s) (o := o) (cfg := cfg) (env := env) (code := code) (st := st) with
    ⟨st1, ext, e', hp, _⟩ | ⟨e0, e', hp⟩ | ⟨st0, target, c, nextPc, e', hp, _⟩
  · rw [e'] at h; simp [contOut] at h
  · rw [e'] at h
    simp only [List.mem_singleton] at h
    subst h; exact hp.1
  · rw [e'] at h
    rw [(jumpi_ends h).2]; exact hp.1

/-- an end state carries the concretization map and the storage maps of the state that ended -/
theorem shape_end_keeps {out : StepOut} (hsh : Shape s o cfg code st out) {e : EndState} (h : e ∈ out.ends) :
    Keeps e.st st := by
  rcases hsh with
    ⟨st1, ext, e', hp, _⟩ | ⟨e0, e', hp⟩ | ⟨st0, target, c, nextPc, e', hp, _⟩
  · rw [e'] at h; simp [contOut] at h
  · rw [e'] at h
    simp only [List.mem_singleton] at h
    subst h; exact hp
  · rw [e'] at h
    rw [(jumpi_ends h).2]; exact hp

theorem step_end_keeps {e : EndState} (h : e ∈ (step s o cfg env code st).ends) : Keeps e.st st :=
  shape_end_keeps step_shape h

/-- only `jumpi` records bounded loops, and only its own jump id -/
theorem step_bounded_cases :
    (step s o cfg env code st).bounded = [] ∨
    ∃ st0 target c nextPc, st0.path = st.path ∧ st0.visits = st.visits ∧
      step s o cfg env code st = jumpi s o cfg code st0 target c nextPc := by
  rcases step_shape (s := s) (o := o) (cfg := cfg) (env := env) (code := code) (st := st) with
    ⟨st1, ext, e', hp, _⟩ | ⟨e0, e', hp⟩ | ⟨st0, target, c, nextPc, e', hp, hv⟩
  · left; rw [e']; rfl
  · left; rw [e']
  · right; exact ⟨st0, target, c, nextPc, hp.1, hv, e'⟩

theorem stepL_next_path {st' : SState} (h : st' ∈ (stepL s o cfg env code st).next) :
    ∃ ext, st'.path = st.path ++ ext := by
  unfold stepL at h
  split at h
  · simp [haltOut] at h
  · exact step_next_path h

theorem stepL_end_path {e : EndState} (h : e ∈ (stepL s o cfg env code st).ends) : e.st.path = st.path := by
  unfold stepL at h
  split at h
  · simp only [haltOut, List.mem_singleton] at h; subst h; rfl
  · exact step_end_path h

theorem stepL_end_keeps {e : EndState} (h : e ∈ (stepL s o cfg env code st).ends) : Keeps e.st st := by
  unfold stepL at h
  split at h
  · simp only [haltOut, List.mem_singleton] at h; subst h; exact ⟨rfl, rfl, rfl, rfl⟩
  · exact step_end_keeps h

/-- a JUMPI whose condition is a literal (a concrete word, or a literal Bool) is decided without `jumpi` -/
theorem step_jumpi_literal {tv cv : HV} {rest : List HV} {sz target : Nat} (hop : opAt code st.pc = 0x57)
    (hst : st.stack = tv :: cv :: rest) (ht : toBV256 s tv = .bv sz (.con target)) (b : Bool)
    (hc : cv = .bool (.con b) ∨ ∃ szc n, cv = .bv szc (.con n) ∧ b = (n != 0)) :
    step s o cfg env code st =
      if b then
        (if (Evm.validJumpdests code).contains target then contOut { st with stack := rest, pc := target + 1 }
         else haltOut { st with stack := rest } .invalidJump)
      else contOut { st with stack := rest, pc := st.pc + 1 } := by
  unfold step
  simp only [hop]
  have hw : wordOpOf 0x57 = none := rfl
  simp only [hw, hst, ht]
  rcases hc with rfl | ⟨szc, n, rfl, rfl⟩
  · cases b <;> simp [Evm.isPush]
  · simp only [bvIsNonZero]
    cases h : (n != 0) <;> simp [Evm.isPush]

end
end HalmosVerif.Lemmas.Sevm
