/-
Lemmas.SevmSim — soundness and completeness of one symbolic step, read off `step_corr`.

`step_sound`: every successor / normal halting end state whose path `I` satisfies is matched by the concrete machine.
  No hypothesis on the oracle: a valuation satisfying the extended path follows that branch concretely.
`step_complete`: whatever the concrete machine does from a related frame, the symbolic step keeps a successor whose
  path `I` satisfies and that is related to the concrete continuation, or it yields an end state covering the
  outcome, or it records a bounded loop. A branch is lost only on an `unsat` answer, which `OracleSound` excludes when
  `I` takes the branch; `sat` / `unknown` answers never discard anything, whatever the oracle.
-/
import HalmosVerif.Lemmas.SevmCorr
import HalmosVerif.Lemmas.SevmShape

set_option linter.unusedSectionVars false
set_option linter.unusedSimpArgs false
set_option linter.unusedVariables false

namespace HalmosVerif.Lemmas.Sevm
open HalmosVerif.Model HalmosVerif.Model.Sevm HalmosVerif.Spec HalmosVerif.Lemmas.Word

section
variable {I : Interp} {env : Env} {code : List Nat} {p : Evm.Params} {w : Evm.World}
variable {s : Simp} {o : Oracle} {cfg : Cfg} {st : SState} {f : Evm.Frame}

/-- the simplified branch conditions mean what the condition means -/
theorem condTrue_eval (hs : SimpSound s) {c : B} (hc : c.WF) : (s.b c).eval I = c.eval I := hs.evalB I c hc

theorem condFalse_eval (hs : SimpSound s) {c : B} (hc : c.WF) : (s.b (.not (s.b c))).eval I = !c.eval I := by
  have hwf : (B.not (s.b c)).WF := by simpa only [B.WF] using hs.wfB c hc
  rw [hs.evalB I _ hwf]
  simp only [B.eval, hs.evalB I c hc]

/-- a successor built by `Path.append` on a copy of `st0` is related to the frames `st0` (repositioned) is -/
theorem R_addCond (hs : SimpSound s) {st0 X : SState} {c1 : B} (hc1 : c1.WF) (hR : R I env code p st0 f)
    (hpc : X.pc = st0.pc) (hstk : X.stack = st0.stack) (hsub : X.subst = st0.subst) (hp : X.path = st0.path)
    (hm : X.mem = st0.mem) (hr : X.returndata = st0.returndata := by rfl) :
    R I env code p (addCond s X c1) f :=
  hR.congr (by rw [addCond_pc, hpc]) (by rw [addCond_stack, hstk]) (by rw [addCond_mem, hm])
    (by rw [addCond_returndata, hr])
    (addCond_substOk hs hc1 (hR.subst.same hsub hp))

/-- the storage maps of a `Path.append` successor are those of the state it was built from -/
theorem wrel_addCond {w0 w : Evm.World} {this : Nat} {st0 X : SState} {c1 : B}
    (h : WRel I w0 w this st0.storage st0.transient) (hs : X.storage = st0.storage)
    (ht : X.transient = st0.transient) :
    WRel I w0 w this (addCond s X c1).storage (addCond s X c1).transient := by
  rw [(addCond_storage s X c1).1, (addCond_storage s X c1).2, hs, ht]; exact h

/-- what a one-step correspondence gives for soundness, whatever produced it -/
theorem corr_sound (hs : SimpSound s) {out : StepOut} (hc : Corr I env code p w s o cfg st f out)
    {w0 : Evm.World} (hW : WRel I w0 w f.this st.storage st.transient) :
    (∀ st' ∈ out.next, Sat I st'.path →
        ∃ w' f', CReach p (w, f) (w', f') ∧ R I env code p st' f' ∧
          WRel I w0 w' f.this st'.storage st'.transient) ∧
    (∀ e ∈ out.ends, e.tag = .normal → ∀ h, e.out = .halt h →
        Evm.step p w f = .halt w (haltWith h (e.data.map (·.eval I))) ∧
        e.st.storage = st.storage ∧ e.st.transient = st.transient ∧ (∀ b ∈ e.data, b.WF ∧ b.width = 8)) := by
  rcases hc with
    ⟨st1, w1, f1, e, _, _, hreach, hR1, hws⟩ | ⟨st0, h0, data, e, hp, hs0, ht0, hdwf, hstep⟩ | ⟨e0, e, hp, hnc⟩ |
    ⟨st0, target, c, e, hc, hp, _, hs0, ht0, htrue, hbad, hfalse⟩
  · rw [e]
    refine ⟨?_, ?_⟩
    · intro st' hm _
      simp only [contOut, List.mem_singleton] at hm
      subst hm; exact ⟨w1, f1, hreach, hR1, hws w0 hW⟩
    · intro e' hm; simp [contOut] at hm
  · rw [e]
    refine ⟨?_, ?_⟩
    · intro st' hm; simp [haltOut] at hm
    · intro e' hm _ h he
      simp only [haltOut, List.mem_singleton] at hm
      subst hm
      simp only [Out.halt.injEq] at he
      subst he; exact ⟨hstep, hs0, ht0, hdwf⟩
  · rw [e]
    refine ⟨?_, ?_⟩
    · intro st' hm; simp at hm
    · intro e' hm hn h he
      simp only [List.mem_singleton] at hm
      subst hm
      rcases hnc with ⟨r, hr⟩ | ht
      · rw [hr] at he; cases he
      · exact absurd hn ht
  · rw [e]
    have hwfT : (s.b c).WF := hs.wfB c hc
    have hwfF : (s.b (.not (s.b c))).WF := hs.wfB _ (by simpa only [B.WF] using hwfT)
    have hW0 : WRel I w0 w f.this st0.storage st0.transient := by rw [hs0, ht0]; exact hW
    refine ⟨?_, ?_⟩
    · intro st' hm hsat'
      rcases jumpi_next hm with ⟨⟨pc', vis', rfl, hpc⟩, hv⟩ | ⟨vis', rfl⟩
      · have hct : c.eval I = true := by
          rw [← condTrue_eval hs hc]
          exact ((addCond_sat hs hwfT).1 hsat').2
        obtain ⟨f1, f2, hr1, hR1, hr2, hR2⟩ := htrue hct hv
        rcases hpc with rfl | rfl
        · exact ⟨w, f1, hr1, R_addCond hs hwfT hR1 rfl rfl rfl rfl rfl, wrel_addCond hW0 rfl rfl⟩
        · exact ⟨w, f2, hr2, R_addCond hs hwfT hR2 rfl rfl rfl rfl rfl, wrel_addCond hW0 rfl rfl⟩
      · have hcf : c.eval I = false := by
          have := ((addCond_sat hs hwfF).1 hsat').2
          rw [condFalse_eval hs hc] at this
          simpa using this
        obtain ⟨f1, hr1, hR1⟩ := hfalse hcf
        exact ⟨w, f1, hr1, R_addCond hs hwfF hR1 rfl rfl rfl rfl rfl, wrel_addCond hW0 rfl rfl⟩
    · intro e' hm hn
      rw [(jumpi_ends hm).1] at hn; cases hn

/-- **step_sound.** -/
theorem step_sound (hs : SimpSound s) (hI : I.Std) (hR : R I env code p st f) (hsat : Sat I st.path)
    (hl : f.stack.length ≤ 1024) (hmem : cfg.maxMem + 32 ≤ p.memLimit) (hcode : ∀ b ∈ code, b < 256)
    {w0 : Evm.World} (hW : WRel I w0 w f.this st.storage st.transient) :
    (∀ st' ∈ (step s o cfg env code st).next, Sat I st'.path →
        ∃ w' f', CReach p (w, f) (w', f') ∧ R I env code p st' f' ∧
          WRel I w0 w' f.this st'.storage st'.transient) ∧
    (∀ e ∈ (step s o cfg env code st).ends, e.tag = .normal → ∀ h, e.out = .halt h →
        Evm.step p w f = .halt w (haltWith h (e.data.map (·.eval I))) ∧
        e.st.storage = st.storage ∧ e.st.transient = st.transient ∧ (∀ b ∈ e.data, b.WF ∧ b.width = 8)) :=
  corr_sound hs (step_corr (w := w) (o := o) (cfg := cfg) hs hI hR hsat hl hmem hcode hW) hW

/-- an end state covers the concrete result `r = (world, outcome)` of the valuation `I`: its path is satisfied and it
    either reports exactly that outcome — kind and returned bytes — untagged, with storage maps describing exactly that
    world (relative to the start world `w0`, for the account `this`), or it is an error report (stuck), or it is tagged
    (the invalid-destination halt of `jumpi`; an OutOfGas raised by a memory-limit check) -/
def EndCovers (I : Interp) (w0 : Evm.World) (this : Nat) (r : Evm.World × Evm.Halt) (e : EndState) : Prop :=
  Sat I e.st.path ∧
    ((∃ h0, e.out = .halt h0 ∧ haltWith h0 (e.data.map (·.eval I)) = r.2 ∧ e.tag = .normal ∧
        WRel I w0 r.1 this e.st.storage e.st.transient ∧ (∀ b ∈ e.data, b.WF ∧ b.width = 8)) ∨
     (∃ r', e.out = .stuck r') ∨ e.tag ≠ .normal)

/-- what a one-step correspondence gives for completeness, whatever produced it -/
theorem corr_complete (hs : SimpSound s) (ho : OracleSound o) {out : StepOut}
    (hc : Corr I env code p w s o cfg st f out)
    {w0 : Evm.World} (hW : WRel I w0 w f.this st.storage st.transient)
    (hsat : Sat I st.path) {r : Evm.World × Evm.Halt} (hh : Halts p w f r) :
    (∃ st' ∈ out.next, Sat I st'.path ∧
        ∃ w' f', CReach p (w, f) (w', f') ∧ R I env code p st' f' ∧ WRel I w0 w' f.this st'.storage st'.transient ∧
          Halts p w' f' r) ∨
    (∃ e ∈ out.ends, EndCovers I w0 f.this r e) ∨
    out.bounded ≠ [] := by
  rcases hc with
    ⟨st1, w1, f1, e, hsat1, _, hreach, hR1, hws⟩ | ⟨st0, h0, data, e, hp, hs0, ht0, hdwf, hstep⟩ | ⟨e0, e, hp, hnc⟩ |
    ⟨st0, target, c, e, hc, hp, _, hs0, ht0, htrue, hbad, hfalse⟩
  · left
    rw [e]
    exact ⟨st1, by simp [contOut], hsat1, w1, f1, hreach, hR1, hws w0 hW, (halts_reach hreach).1 hh⟩
  · right; left
    have := (halts_halt hstep).1 hh
    subst this
    rw [e]
    exact ⟨⟨st0, .halt h0, .normal, data⟩, by simp [haltOut], by show Sat I st0.path; rw [hp]; exact hsat,
      Or.inl ⟨h0, rfl, rfl, rfl, by show WRel I w0 w f.this st0.storage st0.transient; rw [hs0, ht0]; exact hW, hdwf⟩⟩
  · right; left
    rw [e]
    refine ⟨e0, by simp, by rw [hp]; exact hsat, ?_⟩
    rcases hnc with hr | ht
    · exact Or.inr (Or.inl hr)
    · exact Or.inr (Or.inr ht)
  · rw [e]
    have hsat0 : Sat I st0.path := by rw [hp]; exact hsat
    have hwfT : (s.b c).WF := hs.wfB c hc
    have hwfF : (s.b (.not (s.b c))).WF := hs.wfB _ (by simpa only [B.WF] using hwfT)
    have hW0 : WRel I w0 w f.this st0.storage st0.transient := by rw [hs0, ht0]; exact hW
    have htag : ∀ e' ∈ (jumpi s o cfg code st0 target c (st.pc + 1)).ends,
        e'.tag = .jumpiInvalidSym ∧ e'.st = st0 → EndCovers I w0 f.this r e' := by
      intro e' _ ⟨ht, hst⟩
      exact ⟨by rw [hst]; exact hsat0, Or.inr (Or.inr (by rw [ht]; decide))⟩
    cases hcv : c.eval I
    · -- the concrete machine falls through
      have hpot : exCheck s o st0.path (s.b (.not (s.b c))) ≠ .unsat := by
        intro hu
        have := exCheck_sound hs ho hwfF hu I hsat0
        rw [condFalse_eval hs hc, hcv] at this
        cases this
      rcases jumpi_false_cases (cfg := cfg) (code := code) (target := target) (nextPc := st.pc + 1) hpot with
        ⟨st', hm, vis', rfl⟩ | hb | ⟨e', hm, hte⟩
      · left
        obtain ⟨f1, hr1, hR1⟩ := hfalse hcv
        refine ⟨_, hm, ?_, w, f1, hr1, R_addCond hs hwfF hR1 rfl rfl rfl rfl rfl, wrel_addCond hW0 rfl rfl,
          (halts_reach hr1).1 hh⟩
        exact (addCond_sat hs hwfF).2 ⟨hsat0, by rw [condFalse_eval hs hc, hcv]; rfl⟩
      · right; right; rw [hb]; simp
      · right; left; exact ⟨e', hm, htag e' hm hte⟩
    · -- the concrete machine jumps (or halts on an invalid destination)
      have hpot : exCheck s o st0.path (s.b c) ≠ .unsat := by
        intro hu
        have := exCheck_sound hs ho hwfT hu I hsat0
        rw [condTrue_eval hs hc, hcv] at this
        cases this
      rcases jumpi_true_cases (cfg := cfg) (code := code) (target := target) (nextPc := st.pc + 1) hpot with
        ⟨st', hm, ⟨pc', vis', rfl, hpc⟩, hv⟩ | hb | ⟨e', hm, hte⟩
      · left
        obtain ⟨f1, f2, hr1, hR1, hr2, hR2⟩ := htrue hcv hv
        have hsat' : Sat I (addCond s { st0 with pc := pc', visits := vis' } (s.b c)).path :=
          (addCond_sat hs hwfT).2 ⟨hsat0, by rw [condTrue_eval hs hc, hcv]⟩
        rcases hpc with rfl | rfl
        · exact ⟨_, hm, hsat', w, f1, hr1, R_addCond hs hwfT hR1 rfl rfl rfl rfl rfl, wrel_addCond hW0 rfl rfl,
            (halts_reach hr1).1 hh⟩
        · exact ⟨_, hm, hsat', w, f2, hr2, R_addCond hs hwfT hR2 rfl rfl rfl rfl rfl, wrel_addCond hW0 rfl rfl,
            (halts_reach hr2).1 hh⟩
      · right; right; rw [hb]; simp
      · right; left; exact ⟨e', hm, htag e' hm hte⟩

/-- **step_complete.** -/
theorem step_complete (hs : SimpSound s) (ho : OracleSound o) (hI : I.Std) (hR : R I env code p st f)
    (hl : f.stack.length ≤ 1024) (hmem : cfg.maxMem + 32 ≤ p.memLimit) (hcode : ∀ b ∈ code, b < 256)
    {w0 : Evm.World} (hW : WRel I w0 w f.this st.storage st.transient)
    (hsat : Sat I st.path) {r : Evm.World × Evm.Halt} (hh : Halts p w f r) :
    (∃ st' ∈ (step s o cfg env code st).next, Sat I st'.path ∧
        ∃ w' f', CReach p (w, f) (w', f') ∧ R I env code p st' f' ∧ WRel I w0 w' f.this st'.storage st'.transient ∧
          Halts p w' f' r) ∨
    (∃ e ∈ (step s o cfg env code st).ends, EndCovers I w0 f.this r e) ∨
    (step s o cfg env code st).bounded ≠ [] :=
  corr_complete hs ho (step_corr (w := w) (o := o) (cfg := cfg) hs hI hR hsat hl hmem hcode hW) hW hsat hh

/-! ### with the stack limit (`stepL`): no hypothesis on the length of the concrete stack is left -/

theorem stepL_sound (hs : SimpSound s) (hI : I.Std) (hR : R I env code p st f) (hsat : Sat I st.path)
    (hmem : cfg.maxMem + 32 ≤ p.memLimit) (hcode : ∀ b ∈ code, b < 256)
    {w0 : Evm.World} (hW : WRel I w0 w f.this st.storage st.transient) :
    (∀ st' ∈ (stepL s o cfg env code st).next, Sat I st'.path →
        ∃ w' f', CReach p (w, f) (w', f') ∧ R I env code p st' f' ∧
          WRel I w0 w' f.this st'.storage st'.transient) ∧
    (∀ e ∈ (stepL s o cfg env code st).ends, e.tag = .normal → ∀ h, e.out = .halt h →
        Evm.step p w f = .halt w (haltWith h (e.data.map (·.eval I))) ∧
        e.st.storage = st.storage ∧ e.st.transient = st.transient ∧ (∀ b ∈ e.data, b.WF ∧ b.width = 8)) := by
  unfold stepL
  split
  · refine ⟨fun st' hm => by simp [haltOut] at hm, fun e hm hn => ?_⟩
    simp only [haltOut, List.mem_singleton] at hm
    subst hm; cases hn
  · rename_i hl
    exact step_sound hs hI hR hsat (by rw [← hR.stack.length]; omega) hmem hcode hW

theorem stepL_complete (hs : SimpSound s) (ho : OracleSound o) (hI : I.Std) (hR : R I env code p st f)
    (hmem : cfg.maxMem + 32 ≤ p.memLimit) (hcode : ∀ b ∈ code, b < 256)
    {w0 : Evm.World} (hW : WRel I w0 w f.this st.storage st.transient)
    (hsat : Sat I st.path) {r : Evm.World × Evm.Halt} (hh : Halts p w f r) :
    (∃ st' ∈ (stepL s o cfg env code st).next, Sat I st'.path ∧
        ∃ w' f', CReach p (w, f) (w', f') ∧ R I env code p st' f' ∧ WRel I w0 w' f.this st'.storage st'.transient ∧
          Halts p w' f' r) ∨
    (∃ e ∈ (stepL s o cfg env code st).ends, EndCovers I w0 f.this r e) ∨
    (stepL s o cfg env code st).bounded ≠ [] := by
  unfold stepL
  split
  · right; left
    exact ⟨⟨st, .halt .stackOverflow, .stackLimit, []⟩, by simp [haltOut], hsat,
      Or.inr (Or.inr (fun h => Tag.noConfusion h))⟩
  · rename_i hl
    exact step_complete hs ho hI hR (by rw [← hR.stack.length]; omega) hmem hcode hW hsat hh

end
end HalmosVerif.Lemmas.Sevm
