/-
Lemmas.SevmStep — one symbolic step against the concrete machine.

`Corr … st f out`: what the result `out` of one dispatch step of the symbolic machine on `st` means for a concrete
frame `f` related to `st` by `R` under the valuation `I`:
  * `out = contOut st'`: the concrete machine reaches (in one step; two for a taken jump, which skips the JUMPDEST)
    a frame related to `st'`, and the conditions the step appended to the path hold under `I`;
  * `out = haltOut st0 h`: the concrete step halts with `h`;
  * `out = stuckOut st0 r`: no claim (the engine reports an error);
  * `out = jumpi …` for a symbolic condition `c`: the concrete machine takes the branch `c.eval I` selects.
`step_corr` proves `Corr` for every program and state (one case per core opcode class); soundness and completeness
of a step are read off it in Lemmas.SevmSim.
-/
import HalmosVerif.Lemmas.SevmEvm
import HalmosVerif.Lemmas.SevmJumpi

set_option linter.unusedSectionVars false
set_option linter.unusedSimpArgs false
set_option linter.unusedVariables false

namespace HalmosVerif.Lemmas.Sevm
open HalmosVerif.Model HalmosVerif.Model.Sevm HalmosVerif.Spec HalmosVerif.Lemmas.Word

/-! ### the word instructions return what the specification says, whenever they return -/

theorem execWord_sound {s : Simp} (hs : SimpSound s) {I : Interp} (hI : I.Std) (cfg : WordCfg) (op : WordOp)
    (args : List HV) (hlen : args.length = arity op) (hargs : ∀ a ∈ args, a.WF ∧ a.IsWord)
    {r : HV} {aux : List B} (h : execWord s cfg op args = .ok (r, aux)) :
    r.WF ∧ r.IsWord ∧ r.denote I = specOp op (args.map (·.denote I)) ∧ ∀ c ∈ aux, c.eval I = true := by
  have key : ExecOk I (execWord s cfg op args) (specOp op (args.map (·.denote I))) ∨
      execWord s cfg op args = .error .notConcrete := by
    cases op
    case ISZERO =>
      obtain ⟨a, rfl⟩ := len1 hlen
      exact Or.inl (exec_ISZERO hs hI cfg (hargs a (by simp)))
    case NOT =>
      obtain ⟨a, rfl⟩ := len1 hlen
      exact Or.inl (exec_NOT hs hI cfg (hargs a (by simp)))
    case ADDMOD =>
      obtain ⟨a, b, n, rfl⟩ := len3 hlen
      exact Or.inl (exec_ADDMOD hs hI cfg (hargs a (by simp)) (hargs b (by simp)) (hargs n (by simp)))
    case MULMOD =>
      obtain ⟨a, b, n, rfl⟩ := len3 hlen
      exact Or.inl (exec_MULMOD hs hI cfg (hargs a (by simp)) (hargs b (by simp)) (hargs n (by simp)))
    case SIGNEXTEND =>
      obtain ⟨a, b, rfl⟩ := len2 hlen
      have ha := hargs a (by simp)
      have hb := hargs b (by simp)
      by_cases hc : (toBV256 s a).isConcrete = true
      · exact Or.inl (exec_SIGNEXTEND hs hI cfg ha hb hc)
      · right
        obtain ⟨ra, ea, _, _⟩ := (toBV256_ok hs I ha.1 ha.2).ok_inj
        obtain ⟨rb, eb, _, _⟩ := (toBV256_ok hs I hb.1 hb.2).ok_inj
        rw [ea] at hc
        cases ra with
        | con k => exact absurd (by simp [HV.isConcrete]) hc
        | sym t => simp only [execWord, ea, eb]; rfl
    all_goals
      obtain ⟨a, b, rfl⟩ := len2 hlen
      have ha := hargs a (by simp)
      have hb := hargs b (by simp)
      left
      first
        | exact exec_ADD hs hI cfg ha hb | exact exec_MUL hs hI cfg ha hb | exact exec_SUB hs hI cfg ha hb
        | exact exec_DIV hs hI cfg ha hb | exact exec_SDIV hs hI cfg ha hb | exact exec_MOD hs hI cfg ha hb
        | exact exec_SMOD hs hI cfg ha hb | exact exec_EXP hs hI cfg ha hb | exact exec_LT hs hI cfg ha hb
        | exact exec_GT hs hI cfg ha hb | exact exec_SLT hs hI cfg ha hb | exact exec_SGT hs hI cfg ha hb
        | exact exec_EQ hs hI cfg ha hb | exact exec_AND hs hI cfg ha hb | exact exec_OR hs hI cfg ha hb
        | exact exec_XOR hs hI cfg ha hb | exact exec_BYTE hs hI cfg ha hb | exact exec_SHL hs hI cfg ha hb
        | exact exec_SHR hs hI cfg ha hb | exact exec_SAR hs hI cfg ha hb
  rcases key with ⟨r', aux', he, h1, h2, h3, h4⟩ | he
  · rw [h] at he
    cases he
    exact ⟨h1, h2, h3, h4⟩
  · rw [h] at he; cases he

/-! ### the meaning of one step -/

/-- the EVM outcome an end state reports: its kind `h` with the returned byte terms evaluated -/
def haltWith : Evm.Halt → List Nat → Evm.Halt
  | .success _, d => .success d
  | .revert _, d => .revert d
  | h, _ => h

section
variable (I : Interp) (env : Env) (code : List Nat) (p : Evm.Params) (w : Evm.World)
variable (s : Simp) (o : Oracle) (cfg : Cfg)

/-- the storage maps of `st'` describe the world `w'` whenever those of `st` describe `w` (for every start world) -/
def WStep (I : Interp) (this : Nat) (st : SState) (w : Evm.World) (st' : SState) (w' : Evm.World) : Prop :=
  ∀ w0, WRel I w0 w this st.storage st.transient → WRel I w0 w' this st'.storage st'.transient

/-- see the file header (the valuation `I` is assumed to satisfy the path of `st`) -/
def Corr (st : SState) (f : Evm.Frame) (out : StepOut) : Prop :=
  (∃ st' w' f', out = contOut st' ∧ Sat I st'.path ∧ st'.visits = st.visits ∧
      CReach p (w, f) (w', f') ∧ R I env code p st' f' ∧ WStep I f.this st w st' w') ∨
  (∃ st0 h data, out = haltOut st0 h .normal data ∧ st0.path = st.path ∧
      st0.storage = st.storage ∧ st0.transient = st.transient ∧ (∀ b ∈ data, b.WF ∧ b.width = 8) ∧
      Evm.step p w f = .halt w (haltWith h (data.map (·.eval I)))) ∨
  (∃ e, out = { ends := [e] } ∧ e.st.path = st.path ∧ ((∃ r, e.out = .stuck r) ∨ e.tag ≠ .normal)) ∨
  (∃ st0 target c, out = jumpi s o cfg code st0 target c (st.pc + 1) ∧ c.WF ∧ st0.path = st.path ∧
      st0.visits = st.visits ∧ st0.storage = st.storage ∧ st0.transient = st.transient ∧
      (c.eval I = true → target ∈ Evm.validJumpdests code →
        ∃ f1 f2, CReach p (w, f) (w, f1) ∧ R I env code p { st0 with pc := target } f1 ∧
                 CReach p (w, f) (w, f2) ∧ R I env code p { st0 with pc := target + 1 } f2) ∧
      (c.eval I = true → target ∉ Evm.validJumpdests code → Evm.step p w f = .halt w .invalidJump) ∧
      (c.eval I = false → ∃ f1, CReach p (w, f) (w, f1) ∧ R I env code p { st0 with pc := st.pc + 1 } f1))

end

section
variable {I : Interp} {env : Env} {code : List Nat} {p : Evm.Params} {w : Evm.World}
variable {s : Simp} {o : Oracle} {cfg : Cfg} {st : SState} {f : Evm.Frame}

theorem WStep.same {this : Nat} {st' : SState} (hs : st'.storage = st.storage) (ht : st'.transient = st.transient) :
    WStep I this st w st' w := by
  intro w0 h; rw [hs, ht]; exact h

/-- the world and the storage maps are untouched (every instruction but SSTORE / TSTORE) -/
theorem Corr.cont0 {st' : SState} {f' : Evm.Frame} (hsat' : Sat I st'.path) (hv : st'.visits = st.visits)
    (hreach : CReach p (w, f) (w, f')) (hR : R I env code p st' f')
    (hs : st'.storage = st.storage := by rfl) (ht : st'.transient = st.transient := by rfl) :
    Corr I env code p w s o cfg st f (contOut st') :=
  Or.inl ⟨st', w, f', rfl, hsat', hv, hreach, hR, WStep.same hs ht⟩

theorem Corr.cont1 {st' : SState} {f' : Evm.Frame} (hsat : Sat I st.path) (hp : st'.path = st.path)
    (hv : st'.visits = st.visits) (hstep : Evm.step p w f = .next w f') (hR : R I env code p st' f')
    (hs : st'.storage = st.storage := by rfl) (ht : st'.transient = st.transient := by rfl) :
    Corr I env code p w s o cfg st f (contOut st') :=
  Corr.cont0 (by rw [hp]; exact hsat) hv (CReach.single hstep) hR hs ht

theorem Corr.halt {st0 : SState} {h : Evm.Halt} (hp : st0.path = st.path) (hstep : Evm.step p w f = .halt w h)
    (hh : haltWith h [] = h := by rfl)
    (hs : st0.storage = st.storage := by rfl) (ht : st0.transient = st.transient := by rfl) :
    Corr I env code p w s o cfg st f (haltOut st0 h) :=
  Or.inr (Or.inl ⟨st0, h, [], rfl, hp, hs, ht, fun _ hb => absurd hb List.not_mem_nil,
    by simp only [List.map_nil, hh]; exact hstep⟩)

theorem Corr.haltData {st0 : SState} {h : Evm.Halt} {data : List T} (hp : st0.path = st.path)
    (hwf : ∀ b ∈ data, b.WF ∧ b.width = 8)
    (hstep : Evm.step p w f = .halt w (haltWith h (data.map (·.eval I))))
    (hs : st0.storage = st.storage := by rfl) (ht : st0.transient = st.transient := by rfl) :
    Corr I env code p w s o cfg st f (haltOut st0 h .normal data) :=
  Or.inr (Or.inl ⟨st0, h, data, rfl, hp, hs, ht, hwf, hstep⟩)

theorem Corr.stuck {st0 : SState} {r : StuckReason} (hp : st0.path = st.path) :
    Corr I env code p w s o cfg st f (stuckOut st0 r) :=
  Or.inr (Or.inr (Or.inl ⟨_, rfl, hp, Or.inl ⟨r, rfl⟩⟩))

/-- an end state produced by a `MAX_MEMORY_SIZE` check: no claim (the limit is a modelling parameter) -/
theorem Corr.limit {st0 : SState} {h : Evm.Halt} (hp : st0.path = st.path) :
    Corr I env code p w s o cfg st f (haltOut st0 h .memLimit) :=
  Or.inr (Or.inr (Or.inl ⟨_, rfl, hp, Or.inr (fun h => Tag.noConfusion h)⟩))

/-- a concrete word on the symbolic stack -/
theorem wordRel_con {n : Nat} (h : n < 2 ^ 256) : WordRel I (.bv 256 (.con n)) n :=
  ⟨⟨by decide, h⟩, rfl, rfl⟩

/-- `push_any(term)`: the 256-bit wrapping of a well-formed term denotes its value modulo 2^256 -/
theorem wordRel_mkBV (hs : SimpSound s) {t : T} (ht : t.WF) {n : Nat} (hn : t.eval I % 2 ^ 256 = n) :
    WordRel I (mkBV s (.term t) 256) n := by
  obtain ⟨r, e, wf, d⟩ := (mkBV_term hs I (by decide : 0 < 256) ht).ok_inj
  rw [e]
  exact ⟨wf, rfl, d.trans hn⟩

/-- pushing a word on both sides -/
theorem corr_push (hR : R I env code p st f) (hsat : Sat I st.path) {v : HV} {n k : Nat} (hw : WordRel I v n)
    (hstep : Evm.step p w f = .next w { f with stack := n :: f.stack, pc := f.pc + k }) :
    Corr I env code p w s o cfg st f (contOut { st with pc := st.pc + k, stack := v :: st.stack }) := by
  refine Corr.cont1 hsat rfl rfl hstep (hR.next' sc! rfl rfl rfl rfl rfl ?_ ?_)
  · simp only [hR.pc]
  · exact StackRel.cons hw hR.stack

theorem push_eq (f : Evm.Frame) (v : Nat) :
    Evm.push f v = { f with stack := v % 2 ^ 256 :: f.stack, pc := f.pc + 1 } := rfl

/-- landing on a valid destination: the frame at the JUMPDEST is related to the state *at* it, and one more
    concrete step (the JUMPDEST) to the state just after it -/
theorem corr_land (hR : R I env code p st f) {rest : List HV} {cs : List Nat} {dst : Nat}
    (hstk : StackRel I rest cs) (hlen : cs.length ≤ 1024) (hv : (Evm.validJumpdests code).contains dst = true) :
    R I env code p { st with pc := dst, stack := rest } { f with stack := cs, pc := dst } ∧
    ∃ f2, Evm.step p w { f with stack := cs, pc := dst } = .next w f2 ∧
      R I env code p { st with pc := dst + 1, stack := rest } f2 := by
  have hR1 : R I env code p { st with pc := dst, stack := rest } { f with stack := cs, pc := dst } :=
    hR.next' sc! rfl rfl rfl rfl rfl rfl hstk
  refine ⟨hR1, _, evm_jumpdest (f := { f with stack := cs, pc := dst }) ?_ (by simp only; omega), ?_⟩
  · simp only [hR.code]; exact jumpdest_opcode hv
  · exact hR1.next' sc! rfl rfl rfl rfl rfl rfl hstk

/-! ### the leaves of `step`, opcode class by opcode class -/

theorem R.hop (hR : R I env code p st f) {op : Nat} (h : Model.Sevm.opAt code st.pc = op) :
    (f.code[f.pc]?).getD 0 = op :=
  hR.op_eq.trans h

/-- word instruction with too few operands -/
theorem conc_word_underflow (hR : R I env code p st f) (hl : f.stack.length ≤ 1024) {op : Nat} {wop : WordOp}
    (hop : opAt code st.pc = op) (hw : wordOpOf op = some wop) (hlt : st.stack.length < wordArity wop) :
    Evm.step p w f = .halt w .stackUnderflow := by
  rw [evm_word (hR.hop hop) (by omega) hw]
  exact wordStep_underflow wop (by rw [← hR.stack.length, ← wordArity_eq]; exact hlt)

end

/-- the side constraints a word instruction emits are well-formed conditions -/
theorem execWord_aux_wf {s : Simp} (hs : SimpSound s) {I : Interp} (hI : I.Std) (cfg : WordCfg) (op : WordOp)
    (args : List HV) (hlen : args.length = arity op) (hargs : ∀ a ∈ args, a.WF ∧ a.IsWord) {r : HV}
    {aux : List B} (h : execWord s cfg op args = .ok (r, aux)) : ∀ c ∈ aux, c.WF := by
  have nil_of_map : ∀ {e : Except PyErr HV},
      Except.map (fun x => (x, ([] : List B))) e = .ok (r, aux) → aux = [] := by
    intro e he
    cases e with
    | error _ => cases he
    | ok v => cases he; rfl
  have hnil : aux = [] → ∀ c ∈ aux, c.WF := by
    intro h0 c hc; rw [h0] at hc; cases hc
  cases op
  case DIV =>
    obtain ⟨a, b, rfl⟩ := len2 hlen
    obtain ⟨ra, ea, wa, da⟩ := (toBV256_ok hs I (hargs a (by simp)).1 (hargs a (by simp)).2).ok_inj
    obtain ⟨rb, eb, wb, db⟩ := (toBV256_ok hs I (hargs b (by simp)).1 (hargs b (by simp)).2).ok_inj
    obtain ⟨q, e, w, d⟩ := bvDiv_ok hs I _ (std_udiv256 hI) wa wb
    simp only [execWord, ea, eb, e, bind, Except.bind] at h
    cases q with
    | con n => cases h; intro c hc; cases hc
    | sym t =>
      cases h
      intro c hc
      rw [List.mem_singleton] at hc
      subst hc
      obtain ⟨z1, z2, _⟩ := asZ3_ok (I := I) wa
      simp only [HV.WF] at w
      simp only [B.WF]
      exact ⟨w.2.1, z1, by rw [w.2.2, z2]⟩
  case MOD =>
    obtain ⟨a, b, rfl⟩ := len2 hlen
    obtain ⟨ra, ea, wa, da⟩ := (toBV256_ok hs I (hargs a (by simp)).1 (hargs a (by simp)).2).ok_inj
    obtain ⟨rb, eb, wb, db⟩ := (toBV256_ok hs I (hargs b (by simp)).1 (hargs b (by simp)).2).ok_inj
    obtain ⟨q, e, w, d⟩ := bvMod_ok hs I _ (std_urem256 hI) wa wb
    simp only [execWord, ea, eb, e, bind, Except.bind] at h
    cases q with
    | con n => cases h; intro c hc; cases hc
    | sym t =>
      cases h
      intro c hc
      rw [List.mem_singleton] at hc
      subst hc
      obtain ⟨z1, z2, _⟩ := asZ3_ok (I := I) wb
      simp only [HV.WF] at w
      simp only [B.WF]
      exact ⟨w.2.1, z1, by rw [w.2.2, z2]⟩
  case ISZERO | NOT =>
    obtain ⟨a, rfl⟩ := len1 hlen
    exact hnil (nil_of_map (by simpa only [execWord] using h))
  case ADDMOD | MULMOD =>
    obtain ⟨a, b, c, rfl⟩ := len3 hlen
    exact hnil (nil_of_map (by simpa only [execWord] using h))
  all_goals
    obtain ⟨a, b, rfl⟩ := len2 hlen
    exact hnil (nil_of_map (by simpa only [execWord] using h))

section
variable {I : Interp} {env : Env} {code : List Nat} {p : Evm.Params} {w : Evm.World}
variable {s : Simp} {o : Oracle} {cfg : Cfg} {st : SState} {f : Evm.Frame}

/-- word instruction that returns -/
theorem corr_word (hs : SimpSound s) (hI : I.Std) (hR : R I env code p st f) (hsat : Sat I st.path)
    (hl : f.stack.length ≤ 1024)
    {op : Nat} {wop : WordOp} (hop : opAt code st.pc = op) (hw : wordOpOf op = some wop)
    (hge : ¬ st.stack.length < wordArity wop) {r : HV} {aux : List B}
    (hex : execWord s cfg.word wop (st.stack.take (wordArity wop)) = .ok (r, aux)) :
    Corr I env code p w s o cfg st f
      (contOut (aux.foldl (addCond s) { st with pc := st.pc + 1, stack := r :: st.stack.drop (wordArity wop) })) := by
  have hstk := hR.stack
  have hlen := hstk.length
  have htk := hstk.take (wordArity wop)
  have hargs := htk.all
  have hal : (st.stack.take (wordArity wop)).length = arity wop := by
    rw [List.length_take, ← wordArity_eq]; omega
  obtain ⟨rwf, rw', rd, raux⟩ := execWord_sound hs hI cfg.word wop _ hal hargs hex
  have hauxwf := execWord_aux_wf hs hI cfg.word wop _ hal hargs hex
  rw [htk.denote_map] at rd
  have hcl : (f.stack.take (wordArity wop)).length = arity wop := by
    rw [List.length_take, ← wordArity_eq]; omega
  have hstep := evm_word (p := p) (w := w) (hR.hop hop) (by omega) hw
  rw [wordStep_ok wop (List.take_append_drop (wordArity wop) f.stack).symm hcl] at hstep
  have hwr : WordRel I r (specOp wop (f.stack.take (wordArity wop))) := ⟨rwf, rw', rd⟩
  rw [Nat.mod_eq_of_lt (wordrel_lt hwr)] at hstep
  refine Corr.cont0 ?_ ?_ (CReach.single hstep) (hR.next sc! (addConds_returndata _ _ _) ?_ ?_ ?_ ?_)
    (addConds_storage _ _ _).1 (addConds_storage _ _ _).2
  · exact (addConds_sat hs hauxwf _).2 ⟨hsat, raux⟩
  · rw [addConds_visits]
  · rw [addConds_pc]; simp only [hR.pc]
  · rw [addConds_stack]; exact StackRel.cons hwr (hstk.drop _)
  · exact addConds_substOk hs hauxwf (hR.subst.same rfl rfl)
  · rw [addConds_mem]; exact hR.mem

end
end HalmosVerif.Lemmas.Sevm
