/-
Lemmas.SevmSto — SLOAD / SSTORE / TLOAD / TSTORE on literal slots of the executing account: the symbolic storage maps
(slot ↦ term, zero when never written: halmos' non-symbolic initial storage) against `World.storage` /
`World.transient` of `f.this` (`WRel`, Lemmas.SevmRel). Hashed and symbolic slots are outside the core (the model
ends such a path as stuck, as `int_of` does for a symbolic slot; literal slots from 2^64 on are left out because a
literal may be a registered hash, which the code decodes as an array access — Props.C08 covers that decoding).
-/
import HalmosVerif.Lemmas.SevmMem

set_option linter.unusedSectionVars false
set_option linter.unusedSimpArgs false
set_option linter.unusedVariables false

namespace HalmosVerif.Lemmas.Sevm
open HalmosVerif.Model HalmosVerif.Model.Sevm HalmosVerif.Spec HalmosVerif.Lemmas.Word

section
variable {I : Interp} {env : Env} {code : List Nat} {p : Evm.Params} {w : Evm.World}
variable {s : Simp} {o : Oracle} {cfg : Cfg} {st : SState} {f : Evm.Frame}

theorem short_of_not_cons2 {α} {l : List α} (h : ∀ a b r, l = a :: b :: r → False) : l.length < 2 := by
  match l, h with
  | [], _ => simp
  | [_], _ => simp
  | a :: b :: r, h => exact absurd rfl (fun e => h a b r e)

/-- SLOAD / TLOAD of a literal slot -/
theorem corr_load (hs : SimpSound s) (hR : R I env code p st f) (hsat : Sat I st.path) (hl : f.stack.length ≤ 1024)
    {w0 : Evm.World} (hW : WRel I w0 w f.this st.storage st.transient) {op : Nat} (hop : opAt code st.pc = op)
    (hld : op = 0x54 ∨ op = 0x5c) {kv : HV} {rest : List HV} (hst : st.stack = kv :: rest) {sz slot : Nat}
    (ht : toBV256 s kv = .bv sz (.con slot)) (hlt : slot < 2 ^ 64) :
    Corr I env code p w s o cfg st f
      (contOut { st with pc := st.pc + 1,
                         stack := mkBV s (.term (stoGet (if op = 0x54 then st.storage else st.transient) slot)) 256 :: rest }) := by
  have hstk := hR.stack
  rw [hst] at hstk
  obtain ⟨n, cs, hcs, hw, hr⟩ := hstk.cons_inv
  have hslot := toBV256_con hs hw ht
  subst hslot
  rcases hld with rfl | rfl
  · have hstep := evm_sload (p := p) (w := w) (hR.hop hop) (by omega)
    simp only [Evm.op1, hcs] at hstep
    simp only [↓reduceIte]
    obtain ⟨twf, tw⟩ := stoGet_wf (fun kv h => hW.wf kv (Or.inl h)) slot
    refine Corr.cont1 hsat rfl rfl hstep (hR.next' sc! rfl rfl rfl rfl rfl ?_ (StackRel.cons ?_ hr))
    · simp only [hR.pc]
    · exact wordRel_mkBV hs twf (by rw [← hW.hsto_lt hlt]; rfl)
  · have hstep := evm_tload (p := p) (w := w) (hR.hop hop) (by omega)
    simp only [Evm.op1, hcs] at hstep
    have hne : ¬ ((0x5c : Nat) = 0x54) := by decide
    simp only [hne, ↓reduceIte]
    obtain ⟨twf, tw⟩ := stoGet_wf (fun kv h => hW.wf kv (Or.inr h)) slot
    refine Corr.cont1 hsat rfl rfl hstep (hR.next' sc! rfl rfl rfl rfl rfl ?_ (StackRel.cons ?_ hr))
    · simp only [hR.pc]
    · exact wordRel_mkBV hs twf (by rw [← hW.htr slot]; rfl)

/-- SSTORE / TSTORE in a static frame -/
theorem conc_store_static (hR : R I env code p st f) (hl : f.stack.length ≤ 1024) {op : Nat}
    (hop : opAt code st.pc = op) (hso : op = 0x55 ∨ op = 0x5d) {kv v : HV} {rest : List HV}
    (hst : st.stack = kv :: v :: rest) (hstatic : env.isStatic = true) :
    Evm.step p w f = .halt w .writeInStatic := by
  have hstk := hR.stack
  rw [hst] at hstk
  obtain ⟨c1, t1, e1, w1, r1⟩ := hstk.cons_inv
  obtain ⟨c2, t2, e2, w2, r2⟩ := r1.cons_inv
  have hfs : f.isStatic = true := by rw [← hR.env.isStatic]; exact hstatic
  rcases hso with rfl | rfl
  · rw [evm_sstore (hR.hop hop) (by omega) (by rw [e1, e2] : f.stack = c1 :: c2 :: t2), if_pos hfs]
  · rw [evm_tstore (hR.hop hop) (by omega) (by rw [e1, e2] : f.stack = c1 :: c2 :: t2), if_pos hfs]

/-- SSTORE / TSTORE of a word at a literal slot, outside a static frame -/
theorem corr_store (hs : SimpSound s) (hR : R I env code p st f) (hsat : Sat I st.path) (hl : f.stack.length ≤ 1024)
    {op : Nat} (hop : opAt code st.pc = op) (hso : op = 0x55 ∨ op = 0x5d) {kv v : HV} {rest : List HV}
    (hst : st.stack = kv :: v :: rest) (hstatic : ¬ env.isStatic = true) {sz slot : Nat}
    (ht : toBV256 s kv = .bv sz (.con slot)) (hlt : slot < 2 ^ 64) {szv : Nat} {r : Rep}
    (hv : toBV256 s v = .bv szv r) :
    Corr I env code p w s o cfg st f
      (if op = 0x55 then
         contOut { st with pc := st.pc + 1, stack := rest, storage := (slot, asZ3 256 r) :: st.storage }
       else
         contOut { st with pc := st.pc + 1, stack := rest, transient := (slot, asZ3 256 r) :: st.transient }) := by
  have hstk := hR.stack
  rw [hst] at hstk
  obtain ⟨c1, t1, e1, w1, r1⟩ := hstk.cons_inv
  obtain ⟨cv, cs, e2, w2, r2⟩ := r1.cons_inv
  have hslot := toBV256_con hs w1 ht
  subst hslot
  have hfs : ¬ f.isStatic = true := by rw [← hR.env.isStatic]; exact hstatic
  obtain ⟨r', e, wf, d⟩ := (toBV256_ok hs I w2.1 w2.2.1).ok_inj
  rw [hv] at e
  cases e
  obtain ⟨z1, z2, z3⟩ := asZ3_ok (I := I) wf
  have hval : (asZ3 256 r).eval I = cv := by rw [z3, d, w2.2.2]
  rcases hso with rfl | rfl
  · have hstep := evm_sstore (p := p) (w := w) (hR.hop hop) (by omega) (by rw [e1, e2] : f.stack = slot :: cv :: cs)
    rw [if_neg hfs] at hstep
    simp only [↓reduceIte]
    refine Or.inl ⟨_, _, _, rfl, hsat, rfl, CReach.single hstep,
      hR.next' sc! rfl rfl rfl rfl rfl ?_ r2, fun w0 h => h.sstore slot hlt ⟨z1, z2⟩ hval⟩
    simp only [hR.pc]
  · have hstep := evm_tstore (p := p) (w := w) (hR.hop hop) (by omega) (by rw [e1, e2] : f.stack = slot :: cv :: cs)
    rw [if_neg hfs] at hstep
    have hne : ¬ ((0x5d : Nat) = 0x55) := by decide
    simp only [hne, ↓reduceIte]
    refine Or.inl ⟨_, _, _, rfl, hsat, rfl, CReach.single hstep,
      hR.next' sc! rfl rfl rfl rfl rfl ?_ r2, fun w0 h => h.tstore slot ⟨z1, z2⟩ hval⟩
    simp only [hR.pc]

/-! ### RETURNDATASIZE / RETURNDATACOPY -/

theorem retdata_length (hR : R I env code p st f) : st.returndata.length = f.returndata.length := by
  rw [← hR.retdata.2, List.length_map]

theorem corr_returndatacopy (hs : SimpSound s) (hR : R I env code p st f) (hsat : Sat I st.path)
    (hl : f.stack.length ≤ 1024) (hmem : cfg.maxMem + 32 ≤ p.memLimit) (hop : opAt code st.pc = 0x3e)
    {lv ov sv : HV} {rest : List HV} (hst : st.stack = lv :: ov :: sv :: rest) {s1 loc s2 off s3 size : Nat}
    (h1 : toBV256 s lv = .bv s1 (.con loc)) (h2 : toBV256 s ov = .bv s2 (.con off))
    (h3 : toBV256 s sv = .bv s3 (.con size)) :
    Corr I env code p w s o cfg st f
      (if off + size > st.returndata.length then haltOut st .outOfBoundsRead
       else copyToMemOut cfg st rest loc size (fun i => (st.returndata[off + i]?).getD zeroByte)) := by
  have hstk := hR.stack
  rw [hst] at hstk
  obtain ⟨c1, t1, e1, w1, r1⟩ := hstk.cons_inv
  obtain ⟨c2, t2, e2, w2, r2⟩ := r1.cons_inv
  obtain ⟨c3, t3, e3, w3, r3⟩ := r2.cons_inv
  have := toBV256_con hs w1 h1; subst this
  have := toBV256_con hs w2 h2; subst this
  have := toBV256_con hs w3 h3; subst this
  have hstep := evm_returndatacopy (p := p) (w := w) (hR.hop hop) (by omega)
    (by rw [e1, e2, e3] : f.stack = loc :: off :: size :: t3)
  rw [← retdata_length hR] at hstep
  split
  · rename_i hgt
    rw [if_pos hgt] at hstep
    exact Corr.halt rfl hstep
  · rename_i hle
    rw [if_neg hle] at hstep
    exact corr_copyToMem hR hsat hmem r3 (readMem_rel hR.retdata off size)
      (fun hok => by rw [hstep]; exact copyToMem_ok hok)

end
end HalmosVerif.Lemmas.Sevm
