/-
Lemmas.Storage — hypotheses and helper lemmas for Props/C08.lean (storage decode / load / store):

  * `HashIdeal`, `Good`, `OffOK`, `Gram`, `W256`, `OffLt`   the hypotheses of the C08 theorems
  * width / evaluation lemmas of `Loc.toTerm`, `Loc.flat`
  * `decodeS` on the layout grammar (`decodeS_toTerm`) and the cell key (`keyStructure_toTerm`)
  * faithfulness of the decoded tuple (`slot_eq_imp_decoded_eq`, `decoded_eq_imp_slot_eq`), `evalFlat`
  * `ChkSound`, `BEqSound`, `InitZero`, `select_sound`; `SData.get?/set` lemmas; `keyStructure_ok`;
    fresh storage reads `ZERO` (`loadS_fresh`, `loadG_fresh`, `runMessage_transient`)
Continued in Lemmas/StorageInv.lean (history invariant, Solidity layout) and Lemmas/StorageGeneric.lean (generic layout).
Core Lean only.
-/
import HalmosVerif.Model.Storage

namespace HalmosVerif.Lemmas.Storage
open HalmosVerif.Model HalmosVerif.Model.Storage

/-! ### hypotheses -/

/-- HashIdeal on the set D of (bit size, value) hash inputs that occur: exactly what halmos adds to the path for every
hash it sees (sevm.py sha3_data / assume_sha3_distinct) and what Solidity's layout relies on.  (A hash that is ideal on
ALL inputs cannot exist by counting, hence the domain.) -/
structure HashIdeal (D : Nat → Nat → Prop) (H : Nat → Nat → Nat) : Prop where
  range : ∀ n x, D n x → 0 < H n x ∧ H n x ≤ 2 ^ 256 - 2 ^ 64
  inj   : ∀ n x m y i j, D n x → D m y → i < 2 ^ 64 → j < 2 ^ 64 → H n x + i = H m y + j → n = m ∧ x = y ∧ i = j
  small : ∀ n x i s, D n x → i < 2 ^ 64 → s < 2 ^ 64 → H n x + i ≠ s

/-- semantic well-formedness of a location under env: small declared slots, offsets (array indices / struct members)
below 2^64, key values within their width, every hashed input in D -/
def Good (env : Env) (D : Nat → Nat → Prop) : Loc → Prop
  | .slot n => n < 2 ^ 64
  | .mapping key base off form => 0 < key.width ∧ key.eval env < 2 ^ key.width ∧ offVal env off form < 2 ^ 64 ∧
      D (key.width + 256) (key.eval env * 2 ^ 256 + base.slotOf env) ∧ Good env D base
  | .array base off form => offVal env off form < 2 ^ 64 ∧ D 256 (base.slotOf env) ∧ Good env D base

/-- syntactic side conditions under which the real decoder stays inside the grammar (outside it the code raises
ValueError / "symbolic storage base slot": the path is stuck and halmos reports ERROR, which is fail-safe) -/
def OffOK (rl : Nat → Option LTerm) (off : LTerm) : OffForm → Prop
  | .none => True
  | _ => off.width = 256 ∧ ∀ fuel, decodeS rl id (fuel + 1) off = .ok [off]

def Gram (rl : Nat → Option LTerm) : Loc → Prop
  | .slot n => n < 2 ^ 256 ∧ rl n = none
  | .mapping key base off form => 0 < key.width ∧ OffOK rl off form ∧ Gram rl base
  | .array base off form => OffOK rl off form ∧ Gram rl base

/-- the width conditions alone: declared slot below 2^256, offsets that are present are 256 bits wide -/
def OffW (off : LTerm) : OffForm → Prop
  | .none => True
  | _ => off.width = 256

def W256 : Loc → Prop
  | .slot n => n < 2 ^ 256
  | .mapping _ base off form => OffW off form ∧ W256 base
  | .array base off form => OffW off form ∧ W256 base

/-- every offset value fits in 256 bits (`LTerm.eval` is not bounded by the width for ill-formed `zext`) -/
def OffLt (env : Env) : Loc → Prop
  | .slot _ => True
  | .mapping _ base off form => offVal env off form < 2 ^ 256 ∧ OffLt env base
  | .array base off form => offVal env off form < 2 ^ 256 ∧ OffLt env base

theorem OffOK.offW {rl off form} (h : OffOK rl off form) : OffW off form := by
  cases form <;> simp_all [OffOK, OffW]

theorem Gram.w256 {rl} : ∀ {ℓ : Loc}, Gram rl ℓ → W256 ℓ
  | .slot _, h => h.1
  | .mapping _ _ _ _, h => ⟨h.2.1.offW, Gram.w256 h.2.2⟩
  | .array _ _ _, h => ⟨h.1.offW, Gram.w256 h.2⟩

theorem Good.offLt {env D} : ∀ {ℓ : Loc}, Good env D ℓ → OffLt env ℓ
  | .slot _, _ => trivial
  | .mapping _ _ _ _, h => ⟨by have := h.2.2.1; omega, Good.offLt h.2.2.2.2⟩
  | .array _ _ _, h => ⟨by have := h.1; omega, Good.offLt h.2.2⟩

/-! ### atoms of the decoder -/

theorem decodeS_sym (rl : Nat → Option LTerm) (w i fuel : Nat) :
    decodeS rl id (fuel + 1) (.sym w i) = .ok [.sym w i] := by
  simp [decodeS]

theorem decodeS_lit_none (rl : Nat → Option LTerm) (w v fuel : Nat) (h : rl v = none) :
    decodeS rl id (fuel + 1) (.lit w v) = .ok [.lit w v] := by
  simp [decodeS, h]

theorem decodeS_lit_some (rl : Nat → Option LTerm) (w v fuel : Nat) (t : LTerm) (h : rl v = some t) :
    decodeS rl id (fuel + 1) (.lit w v) = decodeS rl id fuel t := by
  simp [decodeS, h]

theorem offOK_sym (rl : Nat → Option LTerm) (i : Nat) (form : OffForm) : OffOK rl (.sym 256 i) form := by
  cases form <;> simp [OffOK, LTerm.width, decodeS_sym]

theorem offOK_lit (rl : Nat → Option LTerm) (v : Nat) (form : OffForm) (h : rl v = none) :
    OffOK rl (.lit 256 v) form := by
  cases form <;> simp [OffOK, LTerm.width, decodeS_lit_none, h]

/-! ### widths and values of location terms -/

theorem widthSum_append (a b : List LTerm) : widthSum (a ++ b) = widthSum a + widthSum b := by
  induction a with
  | nil => simp [widthSum]
  | cons t ts ih => simp [widthSum, ih]; omega

theorem withOff_width {h off : LTerm} {form : OffForm} (hh : h.width = 256) (ho : OffW off form) :
    (withOff h off form).width = 256 := by
  cases form <;> simp_all [withOff, OffW, LTerm.width, widthHead]

theorem toTerm_width : ∀ {ℓ : Loc}, W256 ℓ → ℓ.toTerm.width = 256
  | .slot _, _ => by simp [Loc.toTerm, LTerm.width]
  | .mapping _ _ _ _, h => withOff_width (by simp [LTerm.width]) h.1
  | .array _ _ _, h => withOff_width (by simp [LTerm.width]) h.1

theorem offTerm_width (off : LTerm) (form : OffForm) : (offTerm off form).width = 256 := by
  cases form <;> simp [offTerm, zero256, LTerm.width, widthHead]

theorem offTerm_eval (env : Env) (off : LTerm) (form : OffForm) (h : offVal env off form < 2 ^ 256) :
    (offTerm off form).eval env = offVal env off form := by
  cases form <;> simp_all [offTerm, offVal, zero256, LTerm.eval, evalSum, widthHead, LTerm.width, Nat.mod_eq_of_lt]

theorem withOff_eval (env : Env) {h off : LTerm} {form : OffForm} (hh : h.width = 256) (ho : OffW off form)
    (hv : h.eval env < 2 ^ 256) :
    (withOff h off form).eval env = (h.eval env + offVal env off form) % 2 ^ 256 := by
  cases form
  · simp [withOff, offVal, Nat.mod_eq_of_lt hv]
  · simp [withOff, offVal, LTerm.eval, evalSum, widthHead, hh]
  · simp only [OffW] at ho
    simp [withOff, offVal, LTerm.eval, evalSum, widthHead, ho, Nat.add_comm]

theorem slotOf_lt {env : Env} : ∀ {ℓ : Loc}, W256 ℓ → ℓ.slotOf env < 2 ^ 256
  | .slot _, h => h
  | .mapping _ _ _ _, _ => Nat.mod_lt _ (by decide)
  | .array _ _ _, _ => Nat.mod_lt _ (by decide)

/-- the slot the flat EVM computes is the value of the location term -/
theorem eval_toTerm (env : Env) : ∀ {ℓ : Loc}, W256 ℓ → ℓ.toTerm.eval env = ℓ.slotOf env
  | .slot n, h => by simp [Loc.toTerm, Loc.slotOf, LTerm.eval, Nat.mod_eq_of_lt (show n < 2 ^ 256 from h)]
  | .mapping key base off form, h => by
    have ih := eval_toTerm env h.2
    have hw := toTerm_width h.2
    rw [Loc.toTerm, withOff_eval env (by simp [LTerm.width]) h.1 (by simp [LTerm.eval]; exact Nat.mod_lt _ (by decide))]
    simp [Loc.slotOf, LTerm.eval, LTerm.width, widthSum, evalConcat, ih, hw]
  | .array base off form, h => by
    have ih := eval_toTerm env h.2
    have hw := toTerm_width h.2
    rw [Loc.toTerm, withOff_eval env (by simp [LTerm.width]) h.1 (by simp [LTerm.eval]; exact Nat.mod_lt _ (by decide))]
    simp [Loc.slotOf, LTerm.eval, ih, hw]

theorem flat_eq_cons : ∀ (ℓ : Loc), ℓ.flat = .lit 256 ℓ.root :: ℓ.flat.tail
  | .slot _ => rfl
  | .mapping key base off form => by
    have ih := flat_eq_cons base
    simp only [Loc.flat, Loc.root]
    rw [ih]; simp
  | .array base off form => by
    have ih := flat_eq_cons base
    simp only [Loc.flat, Loc.root]
    rw [ih]; simp

theorem flat_length_pos (ℓ : Loc) : 0 < ℓ.flat.length := by
  rw [flat_eq_cons]; simp

theorem decodeS_sha3_map (rl : Nat → Option LTerm) (key bt : LTerm) (b : List LTerm) (f : Nat)
    (hk : 0 < key.width) (hb : bt.width = 256) (hd : decodeS rl id f bt = .ok b) :
    decodeS rl id (f + 1) (.sha3 (.concat [key, bt])) = .ok (b ++ [key, zero256]) := by
  by_cases h256 : key.width = 256
  · have e1 : simpExtract 511 256 (.concat [key, bt]) = key := by
      simp [simpExtract, LTerm.width, widthSum, h256, hb, takeWidth, mkConcat]
    have e2 : simpExtract 255 0 (.concat [key, bt]) = bt := by
      simp [simpExtract, LTerm.width, widthSum, h256, hb, takeWidth, mkConcat]
    simp [decodeS, LTerm.width, widthSum, h256, hb, e1, e2, hd]
  · have h1 : key.width + 256 ≠ 512 := by omega
    have h2 : key.width ≠ 0 := by omega
    simp [decodeS, LTerm.width, widthSum, hb, h1, h2, h256, hd]

theorem decodeS_sha3_arr (rl : Nat → Option LTerm) (bt : LTerm) (b : List LTerm) (f : Nat)
    (hb : bt.width = 256) (hd : decodeS rl id f bt = .ok b) :
    decodeS rl id (f + 1) (.sha3 bt) = .ok (b ++ [zero256]) := by
  simp [decodeS, hb, hd]

theorem decodeS_add_right (rl : Nat → Option LTerm) (h off z : LTerm) (p : List LTerm) (f : Nat)
    (hp : 0 < p.length) (hh : decodeS rl id f h = .ok (p ++ [z])) (ho : decodeS rl id f off = .ok [off]) :
    decodeS rl id (f + 1) (.add [h, off]) = .ok (p ++ [.add [z, off]]) := by
  have hl : ¬ (p.length + 1 < 1) := by omega
  simp [decodeS, mapMExcept, hh, ho, sortByLenDesc, insertByLen, hl, sumOffsets]

theorem decodeS_add_left (rl : Nat → Option LTerm) (h off z : LTerm) (p : List LTerm) (f : Nat)
    (hp : 0 < p.length) (hh : decodeS rl id f h = .ok (p ++ [z])) (ho : decodeS rl id f off = .ok [off]) :
    decodeS rl id (f + 1) (.add [off, h]) = .ok (p ++ [.add [z, off]]) := by
  have hl : 1 < p.length + 1 := by omega
  simp [decodeS, mapMExcept, hh, ho, sortByLenDesc, insertByLen, hl, sumOffsets]

theorem decodeS_withOff (rl : Nat → Option LTerm) (h off : LTerm) (form : OffForm) (p : List LTerm) (f : Nat)
    (hp : 0 < p.length) (hh : ∀ f', f ≤ f' → decodeS rl id (f' + 1) h = .ok (p ++ [zero256])) (ho : OffOK rl off form) :
    decodeS rl id (f + 2) (withOff h off form) = .ok (p ++ [offTerm off form]) := by
  cases form
  · exact hh (f + 1) (by omega)
  · exact decodeS_add_right rl h off zero256 p (f + 1) hp (hh f (by omega)) (ho.2 f)
  · exact decodeS_add_left rl h off zero256 p (f + 1) hp (hh f (by omega)) (ho.2 f)

/-- the model decoder on the layout grammar -/
theorem decodeS_toTerm (rl : Nat → Option LTerm) : ∀ (ℓ : Loc) (fuel : Nat), Gram rl ℓ → ℓ.depth ≤ fuel →
    decodeS rl id fuel ℓ.toTerm = .ok ℓ.flat
  | .slot n, fuel, hg, hf => by
    obtain ⟨f, rfl⟩ : ∃ f, fuel = f + 1 := ⟨fuel - 1, by simp [Loc.depth] at hf; omega⟩
    exact decodeS_lit_none rl 256 n f hg.2
  | .mapping key base off form, fuel, hg, hf => by
    obtain ⟨f, rfl⟩ : ∃ f, fuel = f + 2 := ⟨fuel - 2, by simp [Loc.depth] at hf; omega⟩
    simp only [Loc.depth] at hf
    have := decodeS_withOff rl (.sha3 (.concat [key, base.toTerm])) off form (base.flat ++ [key]) f
      (by simp) (fun f' hf' => by
        have := decodeS_sha3_map rl key base.toTerm base.flat f' hg.1 (toTerm_width hg.2.2.w256)
          (decodeS_toTerm rl base f' hg.2.2 (by omega))
        simpa using this) hg.2.1
    simpa [Loc.toTerm, Loc.flat] using this
  | .array base off form, fuel, hg, hf => by
    obtain ⟨f, rfl⟩ : ∃ f, fuel = f + 2 := ⟨fuel - 2, by simp [Loc.depth] at hf; omega⟩
    simp only [Loc.depth] at hf
    have := decodeS_withOff rl (.sha3 base.toTerm) off form base.flat f
      (flat_length_pos base) (fun f' hf' =>
        decodeS_sha3_arr rl base.toTerm base.flat f' (toTerm_width hg.2.w256)
          (decodeS_toTerm rl base f' hg.2 (by omega))) hg.1
    simpa [Loc.toTerm, Loc.flat] using this


/-- the cell `(slot, num_keys, size_keys)` a location lives in -/
def cellOf (ℓ : Loc) : CellKey := (ℓ.root, ℓ.flat.length - 1, widthSum ℓ.flat.tail)

theorem flat_tail_mapping (key : LTerm) (base : Loc) (off : LTerm) (form : OffForm) :
    (Loc.mapping key base off form).flat.tail = base.flat.tail ++ [key, offTerm off form] := by
  simp only [Loc.flat]; rw [flat_eq_cons base]; simp

theorem flat_tail_array (base : Loc) (off : LTerm) (form : OffForm) :
    (Loc.array base off form).flat.tail = base.flat.tail ++ [offTerm off form] := by
  simp only [Loc.flat]; rw [flat_eq_cons base]; simp

/-- a location is a declared slot (no keys, size 0) or has keys of total size ≥ 256 -/
theorem flat_tail_cases : ∀ (ℓ : Loc), (ℓ.flat.tail = [] ∧ ∃ n, ℓ = .slot n) ∨
    (0 < ℓ.flat.tail.length ∧ 256 ≤ widthSum ℓ.flat.tail)
  | .slot n => .inl ⟨rfl, n, rfl⟩
  | .mapping key base off form => .inr (by
      rw [flat_tail_mapping, widthSum_append]; simp [widthSum, offTerm_width]; omega)
  | .array base off form => .inr (by
      rw [flat_tail_array, widthSum_append]; simp [widthSum, offTerm_width])

theorem bitsize_flat_tail (ℓ : Loc) : bitsize ℓ.flat.tail = .ok (widthSum ℓ.flat.tail) := by
  rcases flat_tail_cases ℓ with ⟨h, _⟩ | ⟨_, h⟩
  · simp [bitsize, h]
  · have : widthSum ℓ.flat.tail ≠ 0 := by omega
    simp [bitsize, this]

theorem keyStructure_of_flat (conc : LTerm → Option Nat) (dec : LTerm → Except Err (List LTerm)) (t : LTerm) (ℓ : Loc)
    (h : dec t = .ok ℓ.flat) : keyStructure conc dec t = .ok (cellOf ℓ, ℓ.flat.tail) := by
  have hl : ℓ.flat.tail.length = ℓ.flat.length - 1 := by simp
  rw [flat_eq_cons] at h
  simp [keyStructure, slotOfHead, h, bitsize_flat_tail, cellOf, hl]

theorem keyStructure_toTerm (conc : LTerm → Option Nat) (rl : Nat → Option LTerm) (ℓ : Loc) (fuel : Nat)
    (hg : Gram rl ℓ) (hf : ℓ.depth ≤ fuel) :
    keyStructure conc (decodeS rl id fuel) ℓ.toTerm = .ok (cellOf ℓ, ℓ.flat.tail) :=
  keyStructure_of_flat conc _ _ _ (decodeS_toTerm rl ℓ fuel hg hf)

/-! ### faithfulness of the decoded tuple -/

theorem Good.slotOf_lt {env D} : ∀ {ℓ : Loc}, Good env D ℓ → ℓ.slotOf env < 2 ^ 256
  | .slot _, h => by simp only [Good] at h; simp only [Loc.slotOf]; omega
  | .mapping _ _ _ _, _ => Nat.mod_lt _ (by decide)
  | .array _ _ _, _ => Nat.mod_lt _ (by decide)

/-- under `HashIdeal`, `hash + off` does not wrap -/
theorem hash_off_eq {D H} (hH : HashIdeal D H) {n x i : Nat} (hd : D n x) (hi : i < 2 ^ 64) :
    (H n x % 2 ^ 256 + i) % 2 ^ 256 = H n x + i := by
  have := hH.range n x hd
  rw [Nat.mod_eq_of_lt (by omega), Nat.mod_eq_of_lt (by omega)]

theorem slotOf_mapping {env D} (hH : HashIdeal D env.H) {key base off form}
    (h : Good env D (.mapping key base off form)) :
    (Loc.mapping key base off form).slotOf env =
      env.H (key.width + 256) (key.eval env * 2 ^ 256 + base.slotOf env) + offVal env off form :=
  hash_off_eq hH h.2.2.2.1 h.2.2.1

theorem slotOf_array {env D} (hH : HashIdeal D env.H) {base off form}
    (h : Good env D (.array base off form)) :
    (Loc.array base off form).slotOf env = env.H 256 (base.slotOf env) + offVal env off form :=
  hash_off_eq hH h.2.1 h.1

theorem concat_inj {a b c d : Nat} (hb : b < 2 ^ 256) (hd : d < 2 ^ 256) (h : a * 2 ^ 256 + b = c * 2 ^ 256 + d) :
    a = c ∧ b = d := by
  omega

theorem slot_eq_imp_decoded_eq {env : Env} {D} (hH : HashIdeal D env.H) :
    ∀ (ℓ₁ ℓ₂ : Loc), Good env D ℓ₁ → Good env D ℓ₂ → ℓ₁.slotOf env = ℓ₂.slotOf env →
      ℓ₁.root = ℓ₂.root ∧ ℓ₁.dkeys env = ℓ₂.dkeys env
  | .slot n, .slot m, _, _, h => by simpa [Loc.slotOf, Loc.root, Loc.dkeys] using h
  | .slot n, .mapping k b o f, g1, g2, h => by
    rw [slotOf_mapping hH g2] at h
    exact absurd h.symm (hH.small _ _ _ _ g2.2.2.2.1 g2.2.2.1 g1)
  | .slot n, .array b o f, g1, g2, h => by
    rw [slotOf_array hH g2] at h
    exact absurd h.symm (hH.small _ _ _ _ g2.2.1 g2.1 g1)
  | .mapping k b o f, .slot m, g1, g2, h => by
    rw [slotOf_mapping hH g1] at h
    exact absurd h (hH.small _ _ _ _ g1.2.2.2.1 g1.2.2.1 g2)
  | .array b o f, .slot m, g1, g2, h => by
    rw [slotOf_array hH g1] at h
    exact absurd h (hH.small _ _ _ _ g1.2.1 g1.1 g2)
  | .mapping k b o f, .array b' o' f', g1, g2, h => by
    rw [slotOf_mapping hH g1, slotOf_array hH g2] at h
    have := (hH.inj _ _ _ _ _ _ g1.2.2.2.1 g2.2.1 g1.2.2.1 g2.1 h).1
    have := g1.1
    omega
  | .array b o f, .mapping k' b' o' f', g1, g2, h => by
    rw [slotOf_array hH g1, slotOf_mapping hH g2] at h
    have := (hH.inj _ _ _ _ _ _ g1.2.1 g2.2.2.2.1 g1.1 g2.2.2.1 h).1
    have := g2.1
    omega
  | .mapping k b o f, .mapping k' b' o' f', g1, g2, h => by
    rw [slotOf_mapping hH g1, slotOf_mapping hH g2] at h
    obtain ⟨hn, hx, hi⟩ := hH.inj _ _ _ _ _ _ g1.2.2.2.1 g2.2.2.2.1 g1.2.2.1 g2.2.2.1 h
    have hw : k.width = k'.width := by omega
    obtain ⟨hk, hs⟩ := concat_inj g1.2.2.2.2.slotOf_lt g2.2.2.2.2.slotOf_lt hx
    obtain ⟨hr, hd⟩ := slot_eq_imp_decoded_eq hH b b' g1.2.2.2.2 g2.2.2.2.2 hs
    simp [Loc.root, Loc.dkeys, hr, hd, hw, hk, hi]
  | .array b o f, .array b' o' f', g1, g2, h => by
    rw [slotOf_array hH g1, slotOf_array hH g2] at h
    obtain ⟨_, hx, hi⟩ := hH.inj _ _ _ _ _ _ g1.2.1 g2.2.1 g1.1 g2.1 h
    obtain ⟨hr, hd⟩ := slot_eq_imp_decoded_eq hH b b' g1.2.2 g2.2.2 hx
    simp [Loc.root, Loc.dkeys, hr, hd, hi]

theorem decoded_eq_imp_slot_eq {env : Env} :
    ∀ (ℓ₁ ℓ₂ : Loc), ℓ₁.shape = ℓ₂.shape → ℓ₁.root = ℓ₂.root → ℓ₁.dkeys env = ℓ₂.dkeys env →
      ℓ₁.slotOf env = ℓ₂.slotOf env
  | .slot n, .slot m, _, hr, _ => by simpa [Loc.root, Loc.slotOf] using hr
  | .slot n, .mapping k b o f, hs, _, _ => by simp [Loc.shape] at hs
  | .slot n, .array b o f, hs, _, _ => by simp [Loc.shape] at hs
  | .mapping k b o f, .slot m, hs, _, _ => by simp [Loc.shape] at hs
  | .array b o f, .slot m, hs, _, _ => by simp [Loc.shape] at hs
  | .mapping k b o f, .array b' o' f', hs, _, _ => by simp [Loc.shape] at hs
  | .array b o f, .mapping k' b' o' f', hs, _, _ => by simp [Loc.shape] at hs
  | .mapping k b o f, .mapping k' b' o' f', hs, hr, hd => by
    simp only [Loc.shape, List.cons.injEq, Step.map.injEq] at hs
    simp only [Loc.dkeys, List.cons.injEq, Prod.mk.injEq, true_and] at hd
    have := decoded_eq_imp_slot_eq b b' hs.2 hr hd.2.2
    simp [Loc.slotOf, this, hs.1, hd.1, hd.2.1.2]
  | .array b o f, .array b' o' f', hs, hr, hd => by
    simp only [Loc.shape, List.cons.injEq, true_and] at hs
    simp only [Loc.dkeys, List.cons.injEq, Prod.mk.injEq, true_and] at hd
    have := decoded_eq_imp_slot_eq b b' hs hr hd.2
    simp [Loc.slotOf, this, hd.1]

/-- the decoded keys of the model, evaluated -/
def kv (env : Env) (ts : List LTerm) : List (Nat × Nat) := ts.map fun t => (t.width, t.eval env)

theorem evalFlat (env : Env) : ∀ (ℓ : Loc), OffLt env ℓ → kv env ℓ.flat.tail = (ℓ.dkeys env).reverse
  | .slot _, _ => rfl
  | .mapping key base off form, h => by
    rw [flat_tail_mapping]
    have ih := evalFlat env base h.2
    simp only [kv] at ih ⊢
    simp [Loc.dkeys, offTerm_width, offTerm_eval env off form h.1, ← ih]
  | .array base off form, h => by
    rw [flat_tail_array]
    have ih := evalFlat env base h.2
    simp only [kv] at ih ⊢
    simp [Loc.dkeys, offTerm_width, offTerm_eval env off form h.1, ← ih]

/-! ### Exec.select -/

/-- the solver answers used by `select` are sound under `env` -/
def ChkSound (env : Env) (chk : LTerm → LTerm → Tri) : Prop :=
  ∀ k k0, (chk k k0 = .ne → k.eval env ≠ k0.eval env) ∧ (chk k k0 = .eq → k.eval env = k0.eval env)

/-- `LTerm.beq` (the `BEq LTerm` instance of the model, z3's structural `eq`) is sound: equal only on identical terms -/
theorem _root_.HalmosVerif.Model.Storage.LTerm.beq_eq (a : LTerm) : ∀ b : LTerm, a.beq b = true → a = b := by
  induction a using LTerm.rec (motive_2 := fun as => ∀ bs, beqList as bs = true → as = bs) with
  | lit w v => intro b h; cases b <;> simp [LTerm.beq] at h; simp [h]
  | sym w i => intro b h; cases b <;> simp [LTerm.beq] at h; simp [h]
  | sha3 a ih => intro b h; cases b <;> simp [LTerm.beq] at h; rw [ih _ h]
  | concat as ih => intro b h; cases b <;> simp [LTerm.beq] at h; rw [ih _ h]
  | add as ih => intro b h; cases b <;> simp [LTerm.beq] at h; rw [ih _ h]
  | extract hi lo t ih => intro b h; cases b <;> simp [LTerm.beq] at h; rw [ih _ h.2]; simp [h.1]
  | zext w t ih => intro b h; cases b <;> simp [LTerm.beq] at h; rw [ih _ h.2]; simp [h.1]
  | nil => rename_i bs h; cases bs <;> simp [beqList] at h; rfl
  | cons a as iha ihas => rename_i bs h; cases bs <;> simp [beqList] at h; rw [iha _ h.1, ihas _ h.2]

theorem beqList_eq : ∀ as bs : List LTerm, beqList as bs = true → as = bs
  | [], [], _ => rfl
  | [], _ :: _, h => by simp [beqList] at h
  | _ :: _, [], h => by simp [beqList] at h
  | a :: as, b :: bs, h => by
    simp only [beqList, Bool.and_eq_true] at h
    rw [LTerm.beq_eq a b h.1, beqList_eq as bs h.2]

theorem eq_of_beq_lterm {a b : LTerm} (h : (a == b) = true) : a = b := LTerm.beq_eq a b h

/-- structural equality of terms implies equal values -/
def BEqSound (env : Env) : Prop := ∀ a b : LTerm, (a == b) = true → a.eval env = b.eval env

theorem beqSound (env : Env) : BEqSound env := fun _ _ h => by rw [eq_of_beq_lterm h]

/-- non-symbolic storage starts all zero -/
def InitZero (symbolic : Bool) (init : Init) : Prop := symbolic = false → ∀ c k, init c k = 0

theorem select_sound {ν : Type} (env : Env) (init : Init) (ev : ν → Nat) (chk : LTerm → LTerm → Tri) (symbolic : Bool)
    (hc : ChkSound env chk) (hz : InitZero symbolic init) :
    ∀ (a : Arr ν) (key : LTerm), (select chk symbolic a key).eval env init ev = a.eval env init ev (key.eval env)
  | .empty c, key => by
    cases symbolic
    · simp [select, Res.eval, Arr.eval, hz rfl]
    · simp [select, Res.eval]
  | .store base key0 val0, key => by
    unfold select
    by_cases hbeq : (key == key0) = true
    · simp [hbeq, Res.eval, Arr.eval, beqSound env _ _ hbeq]
    · simp only [hbeq, Bool.false_eq_true, if_false]
      cases hchk : chk key key0 with
      | ne =>
        have := (hc key key0).1 hchk
        simp [Arr.eval, select_sound env init ev chk symbolic hc hz base key, Ne.symm this]
      | eq => simp [Res.eval, Arr.eval, (hc key key0).2 hchk]
      | unknown => simp [Res.eval]

/-! ### fresh storage -/

theorem get?_set_self {ν : Type} (s : SData ν) (c : CellKey) (x : Cell ν) : (s.set c x).get? c = some x := by
  simp [SData.set, SData.get?]

theorem get?_set_ne {ν : Type} (s : SData ν) (c c' : CellKey) (x : Cell ν) (h : c' ≠ c) :
    (s.set c x).get? c' = s.get? c' := by
  have h1 : (c == c') = false := by simp [Ne.symm h]
  have : ∀ l : List (CellKey × Cell ν),
      List.find? (fun e => e.1 == c') (List.filter (fun e => !(e.1 == c)) l) = List.find? (fun e => e.1 == c') l := by
    intro l
    induction l with
    | nil => rfl
    | cons e es ih =>
      by_cases he : e.1 = c
      · have h2 : (e.1 == c') = false := by simp [he, Ne.symm h]
        simp [List.filter, he, List.find?, h1, ih]
      · have h2 : (e.1 == c) = false := by simp [he]
        simp only [List.filter, h2, Bool.not_false, List.find?, ih]
  simp only [SData.set, SData.get?, List.find?, h1, this]

theorem keyStructure_ok {conc : LTerm → Option Nat} {dec : LTerm → Except Err (List LTerm)} {t : LTerm} {c : CellKey}
    {keys : List LTerm} (h : keyStructure conc dec t = .ok (c, keys)) :
    c.2.1 = keys.length ∧ c.2.2 = widthSum keys ∧ (0 < keys.length → 0 < widthSum keys) := by
  unfold keyStructure at h
  split at h
  · cases h
  · cases h
  · rename_i hd ks _
    split at h
    · cases h
    split at h
    · cases h
    · rename_i size hb
      unfold bitsize at hb
      by_cases hz : ks.length > 0 ∧ widthSum ks = 0
      · simp [hz] at hb
      · simp only [hz, if_false, Except.ok.injEq] at hb
        simp only [Except.ok.injEq, Prod.mk.injEq] at h
        obtain ⟨rfl, rfl⟩ := h
        subst hb
        refine ⟨rfl, rfl, ?_⟩
        intro hp
        omega

theorem set_symbolic {ν : Type} (s : SData ν) (c : CellKey) (x : Cell ν) : (s.set c x).symbolic = s.symbolic := rfl

theorem get?_empty {ν : Type} (c : CellKey) : ({} : SData ν).get? c = none := rfl

theorem loadS_fresh {ν : Type} (conc : LTerm → Option Nat) (dec : LTerm → Except Err (List LTerm))
    (chk : LTerm → LTerm → Tri) (t : LTerm)
    (s' : SData ν) (r : Res ν) (h : loadS conc dec chk ({} : SData ν) t = .ok (s', r)) : r = .zero := by
  unfold loadS at h
  split at h
  · cases h
  · rename_i c keys hk
    obtain ⟨h1, h2, h3⟩ := keyStructure_ok hk
    by_cases hn : keys.length = 0
    · have hs : widthSum keys = 0 := by
        cases keys with
        | nil => rfl
        | cons _ _ => simp at hn
      have hc2 : ¬ c.2.2 > 0 := by omega
      have hc1 : c.2.1 = 0 := by omega
      simp [initS, get?_empty, hc2, get?_set_self, hc1] at h
      exact h.2.symm
    · have hc2 : c.2.2 > 0 := by omega
      have hc1 : ¬ c.2.1 = 0 := by omega
      simp [initS, get?_empty, hc2, get?_set_self, hc1, select, set_symbolic] at h
      exact h.2.symm

theorem loadG_fresh {ν : Type} (dec : LTerm → Except Err LTerm) (chk : LTerm → LTerm → Tri) (t : LTerm)
    (s' : SData ν) (r : Res ν) (h : loadG dec chk ({} : SData ν) t = .ok (s', r)) : r = .zero := by
  unfold loadG at h
  split at h
  · cases h
  · simp [get?_empty, get?_set_self, select, set_symbolic] at h
    exact h.2.symm

theorem runMessage_transient {ν : Type} (pre : Accounts ν) (a : Nat) (s : SData ν)
    (h : (a, s) ∈ (runMessage pre).transient) : s = ({} : SData ν) := by
  simp [runMessage, freshTransient] at h
  obtain ⟨_, _, _, _, rfl⟩ := h
  rfl

end HalmosVerif.Lemmas.Storage
