/-
Lemmas.StorageEx — a concrete environment (hash function ideal on a finite domain) and concrete locations, used by the
non-vacuity examples and the cross-shape counterexample of Props/C08.lean.
-/
import HalmosVerif.Lemmas.StorageInv

namespace HalmosVerif.Lemmas.Storage
open HalmosVerif.Model HalmosVerif.Model.Storage

/-- a toy hash: far-apart values on the three inputs of `exD` -/
def exH (n x : Nat) : Nat := if n = 512 then 3 * 2 ^ 64 else if x = 5 then 2 ^ 64 else 2 * 2 ^ 64

/-- the hash inputs that occur: `keccak(5)`, `keccak(keccak(5) + 1)`, `keccak(1 ‖ 5)` -/
def exD (n x : Nat) : Prop := (n = 256 ∧ x = 5) ∨ (n = 256 ∧ x = 2 ^ 64 + 1) ∨ (n = 512 ∧ x = 2 ^ 256 + 5)

def exEnv : Env := { sym := fun i => i + 1, H := exH }

theorem exHashIdeal : HashIdeal exD exEnv.H := by
  refine ⟨?_, ?_, ?_⟩
  · intro n x h
    rcases h with ⟨rfl, rfl⟩ | ⟨rfl, rfl⟩ | ⟨rfl, rfl⟩ <;> simp [exEnv, exH]
  · intro n x m y i j h1 h2 hi hj h
    rcases h1 with ⟨rfl, rfl⟩ | ⟨rfl, rfl⟩ | ⟨rfl, rfl⟩ <;>
      rcases h2 with ⟨rfl, rfl⟩ | ⟨rfl, rfl⟩ | ⟨rfl, rfl⟩ <;>
        simp [exEnv, exH] at h ⊢ <;> omega
  · intro n x i s h hi hs
    rcases h with ⟨rfl, rfl⟩ | ⟨rfl, rfl⟩ | ⟨rfl, rfl⟩ <;> simp [exEnv, exH] <;> omega

/-- `a[1][2]` for `T[][] a` declared at slot 5 -/
def exArrArr : Loc := .array (.array (.slot 5) (.lit 256 1) .right) (.lit 256 2) .right
/-- `m[1]` + 2 (third member of the struct `m[1]`) for a mapping declared at slot 5 -/
def exMap : Loc := .mapping (.lit 256 1) (.slot 5) (.lit 256 2) .right

theorem exArrArr_good : Good exEnv exD exArrArr := by
  simp [exArrArr, Good, offVal, LTerm.eval, Loc.slotOf, exEnv, exH, exD]

theorem exMap_good : Good exEnv exD exMap := by
  simp [exMap, Good, offVal, LTerm.eval, LTerm.width, Loc.slotOf, exEnv, exD]

theorem exArrArr_slot : exArrArr.slotOf exEnv = 2 * 2 ^ 64 + 2 := by
  simp [exArrArr, offVal, LTerm.eval, Loc.slotOf, exEnv, exH]

theorem exMap_slot : exMap.slotOf exEnv = 3 * 2 ^ 64 + 2 := by
  simp [exMap, offVal, LTerm.eval, LTerm.width, Loc.slotOf, exEnv, exH]

/-- a complete solver for the single environment `exEnv` -/
def exChk (a b : LTerm) : Tri := if a.eval exEnv = b.eval exEnv then .eq else .ne

theorem exChk_sound : ChkSound exEnv exChk := by
  intro a b
  unfold exChk
  constructor <;> intro h <;> split at h <;> simp_all

/-- `m[1]` + 3, written `3 + hash` -/
def exMap3 : Loc := .mapping (.lit 256 1) (.slot 5) (.lit 256 3) .left

/-- a history: `m[1].f2 = 10; m[1].f3 = 20; x7 = 30; m[1].f3 = 40` -/
def exHist : List (Loc × Nat) := [(exMap, 10), (exMap3, 20), (.slot 7, 30), (exMap3, 40)]

theorem exMap3_good : Good exEnv exD exMap3 := by
  simp [exMap3, Good, offVal, LTerm.eval, LTerm.width, Loc.slotOf, exEnv, exD]

theorem exMap3_slot : exMap3.slotOf exEnv = 3 * 2 ^ 64 + 3 := by
  simp [exMap3, offVal, LTerm.eval, LTerm.width, Loc.slotOf, exEnv, exH]

theorem exFamily : Family exEnv exD (fun _ => none) 3 (· ∈ exMap :: exHist.map Prod.fst) := by
  have hm : ∀ x, x ∈ exMap :: exHist.map Prod.fst → x = exMap ∨ x = exMap3 ∨ x = .slot 7 := by
    intro x hx
    simp only [exHist, List.map, List.mem_cons, List.not_mem_nil, or_false] at hx
    rcases hx with h | h | h | h | h <;> simp [h]
  have c1 : cellOf exMap = (5, 2, 512) := by
    simp [cellOf, exMap, Loc.root, Loc.flat, widthSum, LTerm.width, offTerm, widthHead, zero256]
  have c2 : cellOf exMap3 = (5, 2, 512) := by
    simp [cellOf, exMap3, Loc.root, Loc.flat, widthSum, LTerm.width, offTerm, widthHead, zero256]
  have c3 : cellOf (.slot 7) = (7, 0, 0) := by simp [cellOf, Loc.root, Loc.flat, widthSum]
  have sh : exMap.shape = exMap3.shape := by simp [exMap, exMap3, Loc.shape, LTerm.width]
  refine ⟨?_, ?_, ?_, ?_⟩
  · intro x hx
    rcases hm x hx with rfl | rfl | rfl
    · exact exMap_good
    · exact exMap3_good
    · simp [Good]
  · intro x hx
    rcases hm x hx with rfl | rfl | rfl
    · simp [exMap, Gram, LTerm.width, offOK_lit]
    · simp [exMap3, Gram, LTerm.width, offOK_lit]
    · simp [Gram]
  · intro x hx
    rcases hm x hx with rfl | rfl | rfl <;> decide
  · intro x y hx hy
    rcases hm x hx with rfl | rfl | rfl <;> rcases hm y hy with rfl | rfl | rfl <;>
      simp only [c1, c2, c3] <;> intro hc <;>
      first | trivial | exact sh | exact sh.symm | exact absurd hc (by decide)

/-- run a history of stores on empty non-symbolic storage (Solidity layout, fuel 3), load `ℓ`, evaluate under `exEnv` -/
def exLoadAfter (chk : LTerm → LTerm → Tri) (h : List (Loc × Nat)) (ℓ : Loc) : Except Err Nat :=
  match runStores (fun _ => none) (decodeS (fun _ => none) id 3) ({ symbolic := false, cells := [] } : SData Nat) h with
  | .error e => .error e
  | .ok s =>
    match loadS (fun _ => none) (decodeS (fun _ => none) id 3) chk s ℓ.toTerm with
    | .error e => .error e
    | .ok (_, r) => .ok (r.eval exEnv (fun _ _ => 0) id)

end HalmosVerif.Lemmas.Storage
