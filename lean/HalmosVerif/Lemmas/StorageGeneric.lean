/-
Lemmas.StorageGeneric — `GenericStorage.decode` (`decodeG`) on the layout grammar, and faithfulness of the decoded term
for same-shape locations.  Core Lean only.
-/
import HalmosVerif.Lemmas.StorageInv

set_option exponentiation.threshold 1024

namespace HalmosVerif.Lemmas.Storage
open HalmosVerif.Model HalmosVerif.Model.Storage

/-! ### the decoded term -/

def gOff (h off : LTerm) : OffForm → LTerm
  | .none => h
  | .right => addAll [h, off]
  | .left => addAll [off, h]

/-- what `GenericStorage.decode` returns on `toTerm ℓ` -/
def _root_.HalmosVerif.Model.Storage.Loc.gflat : Loc → LTerm
  | .slot n => .lit 256 n
  | .mapping key base off form => gOff (simpleHash (.concat [key, base.gflat])) off form
  | .array base off form => gOff (simpleHash base.gflat) off form

/-- terms the generic decoder returns unchanged (free symbols, unregistered literals, …) -/
def AtomG (rl : Nat → Option LTerm) (t : LTerm) : Prop := ∀ fuel, decodeG rl id (fuel + 1) t = .ok t

def OffOKG (rl : Nat → Option LTerm) (off : LTerm) : OffForm → Prop
  | .none => True
  | _ => off.width = 256 ∧ AtomG rl off

def GramG (rl : Nat → Option LTerm) : Loc → Prop
  | .slot n => n < 2 ^ 256 ∧ rl n = none
  | .mapping key base off form => 0 < key.width ∧ AtomG rl key ∧ OffOKG rl off form ∧ GramG rl base
  | .array base off form => OffOKG rl off form ∧ GramG rl base

theorem atomG_sym (rl : Nat → Option LTerm) (w i : Nat) : AtomG rl (.sym w i) := by
  intro fuel; simp [decodeG]

theorem atomG_lit (rl : Nat → Option LTerm) (w v : Nat) (h : rl v = none) : AtomG rl (.lit w v) := by
  intro fuel; simp [decodeG, h]

theorem OffOKG.offW {rl off form} (h : OffOKG rl off form) : OffW off form := by
  cases form <;> simp_all [OffOKG, OffW]

theorem GramG.w256 {rl} : ∀ {ℓ : Loc}, GramG rl ℓ → W256 ℓ
  | .slot _, h => h.1
  | .mapping _ _ _ _, h => ⟨h.2.2.1.offW, GramG.w256 h.2.2.2⟩
  | .array _ _ _, h => ⟨h.1.offW, GramG.w256 h.2⟩

/-! ### decodeG on the grammar -/

theorem decodeG_sha3_map (rl : Nat → Option LTerm) (key bt db : LTerm) (f : Nat)
    (hb : bt.width = 256) (ha : decodeG rl id f key = .ok key) (hd : decodeG rl id f bt = .ok db) :
    decodeG rl id (f + 1) (.sha3 (.concat [key, bt])) = .ok (simpleHash (.concat [key, db])) := by
  by_cases h256 : key.width = 256
  · have e1 : simpExtract 511 256 (.concat [key, bt]) = key := by
      simp [simpExtract, LTerm.width, widthSum, h256, hb, takeWidth, mkConcat]
    have e2 : simpExtract 255 0 (.concat [key, bt]) = bt := by
      simp [simpExtract, LTerm.width, widthSum, h256, hb, takeWidth, mkConcat]
    simp [decodeG, LTerm.width, widthSum, h256, hb, e1, e2, hd, ha]
  · simp [decodeG, LTerm.width, widthSum, hb, h256, hd, ha, mapMExcept, mkConcat]

theorem decodeG_sha3_arr (rl : Nat → Option LTerm) (bt db : LTerm) (f : Nat)
    (hb : bt.width = 256) (hnc : ∀ as, bt ≠ .concat as) (hd : decodeG rl id f bt = .ok db) :
    decodeG rl id (f + 1) (.sha3 bt) = .ok (simpleHash db) := by
  cases bt with
  | concat as => exact absurd rfl (hnc as)
  | lit w v => simp only [LTerm.width] at hb; subst hb; simp [decodeG, LTerm.width, hd]
  | sym w i => simp only [LTerm.width] at hb; subst hb; simp [decodeG, LTerm.width, hd]
  | sha3 a => simp [decodeG, LTerm.width, hd]
  | add as => simp only [LTerm.width] at hb; simp [decodeG, LTerm.width, hb, hd]
  | extract hi lo t => simp only [LTerm.width] at hb; simp [decodeG, LTerm.width, hb, hd]
  | zext w t => simp only [LTerm.width] at hb; subst hb; simp [decodeG, LTerm.width, hd]

theorem decodeG_add (rl : Nat → Option LTerm) (a b da db : LTerm) (f : Nat)
    (ha : decodeG rl id f a = .ok da) (hb : decodeG rl id f b = .ok db) :
    decodeG rl id (f + 1) (.add [a, b]) = .ok (addAll [da, db]) := by
  simp [decodeG, mapMExcept, ha, hb]

theorem toTerm_not_concat : ∀ (ℓ : Loc) (as : List LTerm), ℓ.toTerm ≠ .concat as
  | .slot _, _ => by simp [Loc.toTerm]
  | .mapping _ _ _ form, _ => by cases form <;> simp [Loc.toTerm, withOff]
  | .array _ _ form, _ => by cases form <;> simp [Loc.toTerm, withOff]

theorem decodeG_withOff (rl : Nat → Option LTerm) (h dh off : LTerm) (form : OffForm) (f : Nat)
    (hh : ∀ f', f ≤ f' → decodeG rl id (f' + 1) h = .ok dh) (ho : OffOKG rl off form) :
    decodeG rl id (f + 2) (withOff h off form) = .ok (gOff dh off form) := by
  cases form
  · exact hh (f + 1) (by omega)
  · exact decodeG_add rl h off dh off (f + 1) (hh f (by omega)) (ho.2 f)
  · exact decodeG_add rl off h off dh (f + 1) (ho.2 f) (hh f (by omega))

/-- the generic decoder on the layout grammar -/
theorem decodeG_toTerm (rl : Nat → Option LTerm) : ∀ (ℓ : Loc) (fuel : Nat), GramG rl ℓ → ℓ.depth ≤ fuel →
    decodeG rl id fuel ℓ.toTerm = .ok ℓ.gflat
  | .slot n, fuel, hg, hf => by
    obtain ⟨f, rfl⟩ : ∃ f, fuel = f + 1 := ⟨fuel - 1, by simp [Loc.depth] at hf; omega⟩
    exact atomG_lit rl 256 n hg.2 f
  | .mapping key base off form, fuel, hg, hf => by
    obtain ⟨f, rfl⟩ : ∃ f, fuel = f + 2 := ⟨fuel - 2, by simp [Loc.depth] at hf; omega⟩
    simp only [Loc.depth] at hf
    have hbase : 1 ≤ base.depth := by cases base <;> simp [Loc.depth]
    exact decodeG_withOff rl (.sha3 (.concat [key, base.toTerm])) _ off form f
      (fun f' hf' => by
        obtain ⟨f'', rfl⟩ : ∃ f'', f' = f'' + 1 := ⟨f' - 1, by omega⟩
        exact decodeG_sha3_map rl key base.toTerm base.gflat (f'' + 1) (toTerm_width hg.2.2.2.w256)
          (hg.2.1 f'') (decodeG_toTerm rl base (f'' + 1) hg.2.2.2 (by omega))) hg.2.2.1
  | .array base off form, fuel, hg, hf => by
    obtain ⟨f, rfl⟩ : ∃ f, fuel = f + 2 := ⟨fuel - 2, by simp [Loc.depth] at hf; omega⟩
    simp only [Loc.depth] at hf
    exact decodeG_withOff rl (.sha3 base.toTerm) _ off form f
      (fun f' hf' => decodeG_sha3_arr rl base.toTerm base.gflat f' (toTerm_width hg.2.w256)
          (toTerm_not_concat base) (decodeG_toTerm rl base f' hg.2 (by omega))) hg.1

/-! ### value of the decoded term -/

/-- width of `gflat` -/
def gw : Loc → Nat
  | .slot _ => 256
  | .mapping key base _ _ => key.width + gw base + 257
  | .array base _ _ => gw base + 257

/-- value of `gflat` -/
def gval (env : Env) : Loc → Nat
  | .slot n => n
  | .mapping key base off form => (key.eval env * 2 ^ gw base + gval env base) * 2 ^ 257 + offVal env off form
  | .array base off form => gval env base * 2 ^ 257 + offVal env off form

theorem shift_add_lt {a b w k : Nat} (ha : a < 2 ^ w) (hb : b < 2 ^ k) : a * 2 ^ k + b < 2 ^ (w + k) := by
  have : (a + 1) * 2 ^ k ≤ 2 ^ w * 2 ^ k := Nat.mul_le_mul_right _ ha
  rw [Nat.add_mul] at this
  rw [Nat.pow_add]
  omega

theorem lt_257 {a : Nat} (h : a < 2 ^ 64) : a < 2 ^ 257 :=
  Nat.lt_of_lt_of_le h (Nat.pow_le_pow_right (by decide) (by decide))

theorem gOff_width {h off : LTerm} {form : OffForm} (hh : 256 < h.width) (ho : OffW off form) :
    (gOff h off form).width = h.width := by
  cases form
  · rfl
  · simp only [OffW] at ho
    simp [gOff, addAll, maxWidth, LTerm.width, widthHead, ho]; omega
  · simp only [OffW] at ho
    simp [gOff, addAll, maxWidth, LTerm.width, widthHead, ho]; omega

theorem gOff_eval (env : Env) {h off : LTerm} {form : OffForm} (hh : 256 < h.width) (ho : OffW off form)
    (hv : h.eval env + offVal env off form < 2 ^ h.width) :
    (gOff h off form).eval env = h.eval env + offVal env off form := by
  cases form
  · simp [gOff, offVal]
  · simp only [OffW] at ho
    have hm : max h.width 256 = h.width := by omega
    simp only [offVal] at hv
    simp [gOff, addAll, maxWidth, LTerm.eval, evalSum, widthHead, LTerm.width, ho, hm, hh, offVal,
      Nat.mod_eq_of_lt hv]
  · simp only [OffW] at ho
    have hm : max 256 h.width = h.width := by omega
    simp only [offVal] at hv
    simp [gOff, addAll, maxWidth, LTerm.eval, evalSum, widthHead, LTerm.width, ho, hm, hh, offVal,
      Nat.add_comm, Nat.mod_eq_of_lt hv]

theorem gflat_spec (env : Env) {D} : ∀ {ℓ : Loc}, Good env D ℓ → W256 ℓ →
    ℓ.gflat.width = gw ℓ ∧ ℓ.gflat.eval env = gval env ℓ ∧ gval env ℓ < 2 ^ gw ℓ
  | .slot n, g, _ => by
    simp only [Good] at g
    have : n < 2 ^ 256 := by omega
    simp [Loc.gflat, gw, gval, LTerm.width, LTerm.eval, Nat.mod_eq_of_lt this, this]
  | .mapping key base off form, g, w => by
    obtain ⟨ihw, ihe, ihl⟩ := gflat_spec env g.2.2.2.2 w.2
    have ho := lt_257 g.2.2.1
    have hx := shift_add_lt g.2.1 ihl
    have hl := shift_add_lt hx ho
    have hwid : (simpleHash (.concat [key, base.gflat])).width = key.width + gw base + 257 := by
      simp [simpleHash, LTerm.width, widthSum, ihw]
    have hev : (simpleHash (.concat [key, base.gflat])).eval env = (key.eval env * 2 ^ gw base + gval env base) * 2 ^ 257 := by
      simp [simpleHash, LTerm.eval, LTerm.width, evalConcat, widthSum, ihw, ihe]
    refine ⟨?_, ?_, hl⟩
    · rw [Loc.gflat, gOff_width (by omega) w.1, hwid, gw]
    · rw [Loc.gflat, gOff_eval env (by omega) w.1 (by rw [hev, hwid]; exact hl), hev, gval]
  | .array base off form, g, w => by
    obtain ⟨ihw, ihe, ihl⟩ := gflat_spec env g.2.2 w.2
    have ho := lt_257 g.1
    have hl := shift_add_lt ihl ho
    have hwid : (simpleHash base.gflat).width = gw base + 257 := by
      simp [simpleHash, LTerm.width, widthSum, ihw]
    have hev : (simpleHash base.gflat).eval env = gval env base * 2 ^ 257 := by
      simp [simpleHash, LTerm.eval, LTerm.width, evalConcat, widthSum, ihe]
    refine ⟨?_, ?_, hl⟩
    · rw [Loc.gflat, gOff_width (by omega) w.1, hwid, gw]
    · rw [Loc.gflat, gOff_eval env (by omega) w.1 (by rw [hev, hwid]; exact hl), hev, gval]

theorem gw_shape : ∀ (x y : Loc), x.shape = y.shape → gw x = gw y
  | .slot _, .slot _, _ => rfl
  | .slot _, .mapping _ _ _ _, h => by simp [Loc.shape] at h
  | .slot _, .array _ _ _, h => by simp [Loc.shape] at h
  | .mapping _ _ _ _, .slot _, h => by simp [Loc.shape] at h
  | .array _ _ _, .slot _, h => by simp [Loc.shape] at h
  | .mapping _ _ _ _, .array _ _ _, h => by simp [Loc.shape] at h
  | .array _ _ _, .mapping _ _ _ _, h => by simp [Loc.shape] at h
  | .mapping k b _ _, .mapping k' b' _ _, h => by
    simp only [Loc.shape, List.cons.injEq, Step.map.injEq] at h
    simp [gw, h.1, gw_shape b b' h.2]
  | .array b _ _, .array b' _ _, h => by
    simp only [Loc.shape, List.cons.injEq, true_and] at h
    simp [gw, gw_shape b b' h]

/-- the value of the decoded term determines root and keys, for same-shape locations -/
theorem gval_inj {env : Env} {D} : ∀ (x y : Loc), Good env D x → Good env D y → W256 x → W256 y → x.shape = y.shape →
    gval env x = gval env y → x.root = y.root ∧ x.dkeys env = y.dkeys env
  | .slot _, .slot _, _, _, _, _, _, h => by simpa [gval, Loc.root, Loc.dkeys] using h
  | .slot _, .mapping _ _ _ _, _, _, _, _, h, _ => by simp [Loc.shape] at h
  | .slot _, .array _ _ _, _, _, _, _, h, _ => by simp [Loc.shape] at h
  | .mapping _ _ _ _, .slot _, _, _, _, _, h, _ => by simp [Loc.shape] at h
  | .array _ _ _, .slot _, _, _, _, _, h, _ => by simp [Loc.shape] at h
  | .mapping _ _ _ _, .array _ _ _, _, _, _, _, h, _ => by simp [Loc.shape] at h
  | .array _ _ _, .mapping _ _ _ _, _, _, _, _, h, _ => by simp [Loc.shape] at h
  | .mapping k b o f, .mapping k' b' o' f', g1, g2, w1, w2, hs, h => by
    simp only [Loc.shape, List.cons.injEq, Step.map.injEq] at hs
    simp only [gval] at h
    obtain ⟨hA, ho⟩ := mul_add_inj (lt_257 g1.2.2.1) (lt_257 g2.2.2.1) h
    have l1 := (gflat_spec env g1.2.2.2.2 w1.2).2.2
    have l2 := (gflat_spec env g2.2.2.2.2 w2.2).2.2
    rw [gw_shape b b' hs.2] at hA l1
    obtain ⟨hk, hv⟩ := mul_add_inj l1 l2 hA
    obtain ⟨hr, hd⟩ := gval_inj b b' g1.2.2.2.2 g2.2.2.2.2 w1.2 w2.2 hs.2 hv
    simp [Loc.root, Loc.dkeys, hr, hd, hs.1, hk, ho]
  | .array b o f, .array b' o' f', g1, g2, w1, w2, hs, h => by
    simp only [Loc.shape, List.cons.injEq, true_and] at hs
    simp only [gval] at h
    obtain ⟨hv, ho⟩ := mul_add_inj (lt_257 g1.1) (lt_257 g2.1) h
    obtain ⟨hr, hd⟩ := gval_inj b b' g1.2.2 g2.2.2 w1.2 w2.2 hs hv
    simp [Loc.root, Loc.dkeys, hr, hd, ho]

theorem gval_congr {env : Env} : ∀ (x y : Loc), x.shape = y.shape → x.root = y.root → x.dkeys env = y.dkeys env →
    gval env x = gval env y
  | .slot _, .slot _, _, hr, _ => by simpa [gval, Loc.root] using hr
  | .slot _, .mapping _ _ _ _, h, _, _ => by simp [Loc.shape] at h
  | .slot _, .array _ _ _, h, _, _ => by simp [Loc.shape] at h
  | .mapping _ _ _ _, .slot _, h, _, _ => by simp [Loc.shape] at h
  | .array _ _ _, .slot _, h, _, _ => by simp [Loc.shape] at h
  | .mapping _ _ _ _, .array _ _ _, h, _, _ => by simp [Loc.shape] at h
  | .array _ _ _, .mapping _ _ _ _, h, _, _ => by simp [Loc.shape] at h
  | .mapping k b o f, .mapping k' b' o' f', hs, hr, hd => by
    simp only [Loc.shape, List.cons.injEq, Step.map.injEq] at hs
    simp only [Loc.dkeys, List.cons.injEq, Prod.mk.injEq, true_and] at hd
    simp [gval, gw_shape b b' hs.2, gval_congr b b' hs.2 hr hd.2.2, hd.1, hd.2.1.2]
  | .array b o f, .array b' o' f', hs, hr, hd => by
    simp only [Loc.shape, List.cons.injEq, true_and] at hs
    simp only [Loc.dkeys, List.cons.injEq, Prod.mk.injEq, true_and] at hd
    simp [gval, gval_congr b b' hs hr hd.2, hd.1]

/-- generic layout: for same-shape locations, same slot ⇔ same value of the decoded term (the key of the SMT array) -/
theorem decodeG_faithful {env : Env} {D} (hH : HashIdeal D env.H) (x y : Loc) (gx : Good env D x) (gy : Good env D y)
    (wx : W256 x) (wy : W256 y) (hs : x.shape = y.shape) :
    (x.slotOf env = y.slotOf env ↔ x.gflat.eval env = y.gflat.eval env) ∧ x.gflat.width = y.gflat.width := by
  rw [(gflat_spec env gx wx).2.1, (gflat_spec env gy wy).2.1, (gflat_spec env gx wx).1, (gflat_spec env gy wy).1]
  refine ⟨⟨fun h => ?_, fun h => ?_⟩, gw_shape x y hs⟩
  · obtain ⟨hr, hd⟩ := slot_eq_imp_decoded_eq hH x y gx gy h
    exact gval_congr x y hs hr hd
  · obtain ⟨hr, hd⟩ := gval_inj x y gx gy wx wy hs h
    exact decoded_eq_imp_slot_eq x y hs hr hd

/-! ### the generic decoder forgets the order of hashing steps -/

def exH2 (n x : Nat) : Nat :=
  if n = 512 then (if x = 2 ^ 256 + 5 then 3 * 2 ^ 64 else 4 * 2 ^ 64) else (if x = 5 then 2 ^ 64 else 2 * 2 ^ 64)

def exD2 (n x : Nat) : Prop :=
  (n = 256 ∧ x = 5) ∨ (n = 512 ∧ x = 2 ^ 256 + 5) ∨ (n = 256 ∧ x = 3 * 2 ^ 64) ∨ (n = 512 ∧ x = 2 ^ 256 + 2 ^ 64)

def exEnv2 : Env := { sym := fun _ => 0, H := exH2 }

theorem exHashIdeal2 : HashIdeal exD2 exEnv2.H := by
  refine ⟨?_, ?_, ?_⟩
  · intro n x h
    rcases h with ⟨rfl, rfl⟩ | ⟨rfl, rfl⟩ | ⟨rfl, rfl⟩ | ⟨rfl, rfl⟩ <;> simp [exEnv2, exH2]
  · intro n x m y i j h1 h2 hi hj h
    rcases h1 with ⟨rfl, rfl⟩ | ⟨rfl, rfl⟩ | ⟨rfl, rfl⟩ | ⟨rfl, rfl⟩ <;>
      rcases h2 with ⟨rfl, rfl⟩ | ⟨rfl, rfl⟩ | ⟨rfl, rfl⟩ | ⟨rfl, rfl⟩ <;>
        simp [exEnv2, exH2] at h ⊢ <;> omega
  · intro n x i s h hi hs
    rcases h with ⟨rfl, rfl⟩ | ⟨rfl, rfl⟩ | ⟨rfl, rfl⟩ | ⟨rfl, rfl⟩ <;> simp [exEnv2, exH2] <;> omega

/-- `m[1][0]`-style: array element 0 of the dynamic array stored at `m[1]`: keccak(keccak(1 ‖ 5)) -/
def exMapArr : Loc := .array (.mapping (.lit 256 1) (.slot 5) (.lit 256 0) .none) (.lit 256 0) .none
/-- `a[0][1]`-style: mapping entry 1 of the mapping stored at element 0 of the array at 5: keccak(1 ‖ keccak(5)) -/
def exArrMap : Loc := .mapping (.lit 256 1) (.array (.slot 5) (.lit 256 0) .none) (.lit 256 0) .none

theorem exMapArr_good : Good exEnv2 exD2 exMapArr := by
  simp [exMapArr, Good, offVal, LTerm.eval, LTerm.width, Loc.slotOf, exEnv2, exH2, exD2]
theorem exArrMap_good : Good exEnv2 exD2 exArrMap := by
  simp [exArrMap, Good, offVal, LTerm.eval, LTerm.width, Loc.slotOf, exEnv2, exH2, exD2]
theorem exMapArr_slot : exMapArr.slotOf exEnv2 = 2 * 2 ^ 64 := by
  simp [exMapArr, offVal, LTerm.eval, LTerm.width, Loc.slotOf, exEnv2, exH2]
theorem exArrMap_slot : exArrMap.slotOf exEnv2 = 4 * 2 ^ 64 := by
  simp [exArrMap, offVal, LTerm.eval, LTerm.width, Loc.slotOf, exEnv2, exH2]

theorem exGeneric_same_key (env : Env) :
    exMapArr.gflat.eval env = exArrMap.gflat.eval env ∧ exMapArr.gflat.width = exArrMap.gflat.width := by
  simp only [exMapArr, exArrMap, Loc.gflat, gOff, simpleHash, LTerm.eval, LTerm.width, evalConcat, widthSum]
  decide +kernel

/-- under `HashIdeal`, equal slots have equal shapes (the sizes of the hashed inputs tell mappings from arrays) -/
theorem slot_eq_imp_shape_eq {env : Env} {D} (hH : HashIdeal D env.H) :
    ∀ (ℓ₁ ℓ₂ : Loc), Good env D ℓ₁ → Good env D ℓ₂ → ℓ₁.slotOf env = ℓ₂.slotOf env → ℓ₁.shape = ℓ₂.shape
  | .slot n, .slot m, _, _, h => rfl
  | .slot n, .mapping k b o f, g1, g2, h => by
    rw [slotOf_mapping hH g2] at h
    exact absurd h.symm (hH.small _ _ _ _ g2.2.2.2.1 g2.2.2.1 g1)
  | .slot n, .array b o f, g1, g2, h => by
    rw [slotOf_array hH g2] at h
    exact absurd h.symm (hH.small _ _ _ _ g2.2.1 g2.1 g1)
  | .mapping k b o f, .slot m, g1, g2, h => by
    rw [slotOf_mapping hH g1] at h
    exact absurd h (hH.small _ _ _ _ g1.2.2.2.1 g1.2.2.1 g2)
  | .array b o f, .slot m, g1, g2, h => by
    rw [slotOf_array hH g1] at h
    exact absurd h (hH.small _ _ _ _ g1.2.1 g1.1 g2)
  | .mapping k b o f, .array b' o' f', g1, g2, h => by
    rw [slotOf_mapping hH g1, slotOf_array hH g2] at h
    have := (hH.inj _ _ _ _ _ _ g1.2.2.2.1 g2.2.1 g1.2.2.1 g2.1 h).1
    have := g1.1
    omega
  | .array b o f, .mapping k' b' o' f', g1, g2, h => by
    rw [slotOf_array hH g1, slotOf_mapping hH g2] at h
    have := (hH.inj _ _ _ _ _ _ g1.2.1 g2.2.2.2.1 g1.1 g2.2.2.1 h).1
    have := g2.1
    omega
  | .mapping k b o f, .mapping k' b' o' f', g1, g2, h => by
    rw [slotOf_mapping hH g1, slotOf_mapping hH g2] at h
    obtain ⟨hn, hx, hi⟩ := hH.inj _ _ _ _ _ _ g1.2.2.2.1 g2.2.2.2.1 g1.2.2.1 g2.2.2.1 h
    have hw : k.width = k'.width := by omega
    obtain ⟨hk, hs⟩ := concat_inj g1.2.2.2.2.slotOf_lt g2.2.2.2.2.slotOf_lt hx
    simp [Loc.shape, hw, slot_eq_imp_shape_eq hH b b' g1.2.2.2.2 g2.2.2.2.2 hs]
  | .array b o f, .array b' o' f', g1, g2, h => by
    rw [slotOf_array hH g1, slotOf_array hH g2] at h
    obtain ⟨_, hx, hi⟩ := hH.inj _ _ _ _ _ _ g1.2.1 g2.2.1 g1.1 g2.1 h
    simp [Loc.shape, slot_eq_imp_shape_eq hH b b' g1.2.2 g2.2.2 hx]

/-- generic layout: same slot ⇔ same array (width) and same index value -/
theorem slot_eq_iff_gkey {env D} (hH : HashIdeal D env.H) {x y : Loc} (gx : Good env D x) (gy : Good env D y)
    (wx : W256 x) (wy : W256 y) (coh : gw x = gw y → x.shape = y.shape) :
    x.slotOf env = y.slotOf env ↔ (gw x = gw y ∧ gval env x = gval env y) := by
  constructor
  · intro h
    have hs := slot_eq_imp_shape_eq hH x y gx gy h
    obtain ⟨hr, hd⟩ := slot_eq_imp_decoded_eq hH x y gx gy h
    exact ⟨gw_shape x y hs, gval_congr x y hs hr hd⟩
  · rintro ⟨hw, hv⟩
    have hs := coh hw
    obtain ⟨hr, hd⟩ := gval_inj x y gx gy wx wy hs hv
    exact decoded_eq_imp_slot_eq x y hs hr hd

section
variable {ν : Type}

def ensureG (s : SData ν) (c : CellKey) : SData ν :=
  match s.get? c with
  | some _ => s
  | none => s.set c (.array (.empty c))

def gcellOf (ℓ : Loc) : CellKey := gcell (gw ℓ)

theorem gcellOf_eq_iff (x y : Loc) : gcellOf x = gcellOf y ↔ gw x = gw y := by
  simp [gcellOf, gcell]

/-- what location `x` reads from generic storage `s` -/
def gEval (env : Env) (init : Init) (ev : ν → Nat) (s : SData ν) (x : Loc) : Nat :=
  match s.get? (gcellOf x) with
  | none => init (gcellOf x) (gval env x)
  | some cell => cellVal env init ev cell (gval env x)

def TypedG (s : SData ν) : Prop := ∀ c cell, s.get? c = some cell → ∃ a, cell = .array a

theorem typedG_set {s : SData ν} {c : CellKey} (a : Arr ν) (hT : TypedG s) : TypedG (s.set c (.array a)) := by
  intro c' cell' h
  by_cases e : c' = c
  · subst e; rw [get?_set_self] at h; cases h; exact ⟨a, rfl⟩
  · rw [get?_set_ne _ _ _ _ e] at h; exact hT c' cell' h

theorem gEval_set (env : Env) (init : Init) (ev : ν → Nat) (s : SData ν) (c : CellKey) (cell : Cell ν) (x : Loc) :
    gEval env init ev (s.set c cell) x =
      if gcellOf x = c then cellVal env init ev cell (gval env x) else gEval env init ev s x := by
  unfold gEval
  by_cases e : gcellOf x = c
  · simp [e, get?_set_self]
  · simp [e, get?_set_ne _ _ _ _ e]

theorem ensureG_symbolic (s : SData ν) (c : CellKey) : (ensureG s c).symbolic = s.symbolic := by
  unfold ensureG; split <;> rfl

theorem ensureG_get? {s : SData ν} (hT : TypedG s) (c : CellKey) : ∃ a, (ensureG s c).get? c = some (.array a) := by
  unfold ensureG; split
  · rename_i cell h; obtain ⟨a, rfl⟩ := hT c cell h; exact ⟨a, h⟩
  · exact ⟨_, get?_set_self _ _ _⟩

theorem typedG_ensureG {s : SData ν} (hT : TypedG s) (c : CellKey) : TypedG (ensureG s c) := by
  unfold ensureG; split
  · exact hT
  · exact typedG_set _ hT

theorem gEval_ensureG (env : Env) (init : Init) (ev : ν → Nat) (s : SData ν) (c : CellKey) (x : Loc) :
    gEval env init ev (ensureG s c) x = gEval env init ev s x := by
  unfold ensureG; split
  · rfl
  · rename_i hnone
    rw [gEval_set]
    by_cases e : gcellOf x = c
    · subst e; simp [cellVal, Arr.eval, gEval, hnone]
    · simp [e]

theorem gEval_of_get (env : Env) (init : Init) (ev : ν → Nat) {s : SData ν} {x : Loc} {cell : Cell ν}
    (h : s.get? (gcellOf x) = some cell) : gEval env init ev s x = cellVal env init ev cell (gval env x) := by
  simp [gEval, h]

theorem loadG_spec (env : Env) (init : Init) (ev : ν → Nat) (dec : LTerm → Except Err LTerm)
    (chk : LTerm → LTerm → Tri) (s : SData ν) (t : LTerm) (ℓ : Loc)
    (hT : TypedG s) (hd : dec t = .ok ℓ.gflat) (hw : ℓ.gflat.width = gw ℓ) (he : ℓ.gflat.eval env = gval env ℓ)
    (hc : ChkSound env chk) (hz : InitZero s.symbolic init) :
    ∃ r, loadG dec chk s t = .ok (ensureG s (gcellOf ℓ), r) ∧ r.eval env init ev = gEval env init ev s ℓ := by
  obtain ⟨a, hget⟩ := ensureG_get? hT (gcellOf ℓ)
  have h1 := gEval_of_get env init ev hget
  have h2 := gEval_ensureG env init ev s (gcellOf ℓ) ℓ
  have hl : loadG dec chk s t = .ok (ensureG s (gcellOf ℓ), select chk (ensureG s (gcellOf ℓ)).symbolic a ℓ.gflat) := by
    unfold loadG
    simp only [hd, hw]
    change (match (ensureG s (gcellOf ℓ)).get? (gcellOf ℓ) with
      | some (.array a) => Except.ok (ensureG s (gcellOf ℓ), select chk (ensureG s (gcellOf ℓ)).symbolic a ℓ.gflat)
      | _ => Except.error Err.valueError) = _
    rw [hget]
  refine ⟨_, hl, ?_⟩
  rw [select_sound env init ev chk _ hc (by rw [ensureG_symbolic]; exact hz), he, ← h2, h1]
  rfl

theorem storeG_spec (env : Env) (init : Init) (ev : ν → Nat) (dec : LTerm → Except Err LTerm)
    (s : SData ν) (t : LTerm) (ℓ : Loc) (v : ν)
    (hT : TypedG s) (hd : dec t = .ok ℓ.gflat) (hw : ℓ.gflat.width = gw ℓ) (he : ℓ.gflat.eval env = gval env ℓ) :
    ∃ s2, storeG dec s t v = .ok s2 ∧ s2.symbolic = s.symbolic ∧ TypedG s2 ∧
      ∀ x, gEval env init ev s2 x =
        if gcellOf x = gcellOf ℓ ∧ gval env x = gval env ℓ then ev v else gEval env init ev s x := by
  obtain ⟨a, hget⟩ := ensureG_get? hT (gcellOf ℓ)
  have hl : storeG dec s t v = .ok ((ensureG s (gcellOf ℓ)).set (gcellOf ℓ) (.array (.store a ℓ.gflat v))) := by
    unfold storeG
    simp only [hd, hw]
    change (match (ensureG s (gcellOf ℓ)).get? (gcellOf ℓ) with
      | some (.array a) => Except.ok ((ensureG s (gcellOf ℓ)).set (gcellOf ℓ) (.array (.store a ℓ.gflat v)))
      | _ => Except.error Err.valueError) = _
    rw [hget]
  refine ⟨_, hl, by rw [set_symbolic, ensureG_symbolic], typedG_set _ (typedG_ensureG hT _), ?_⟩
  intro x
  rw [gEval_set]
  by_cases e : gcellOf x = gcellOf ℓ
  · have h2 := gEval_ensureG env init ev s (gcellOf ℓ) x
    have h1 := gEval_of_get env init ev (x := x) (by rw [e]; exact hget)
    simp only [e, true_and, if_true]
    show (if ℓ.gflat.eval env = gval env x then ev v else a.eval env init ev (gval env x)) = _
    rw [he]
    by_cases hk : gval env x = gval env ℓ
    · rw [if_pos hk.symm, if_pos hk]
    · rw [if_neg (Ne.symm hk), if_neg hk, ← h2, h1]; rfl
  · simp [e, gEval_ensureG]

end

section
variable {ν : Type}

def runStoresG (dec : LTerm → Except Err LTerm) : SData ν → List (Loc × ν) → Except Err (SData ν)
  | s, [] => .ok s
  | s, (ℓ, v) :: h =>
    match storeG dec s ℓ.toTerm v with
    | .error e => .error e
    | .ok s' => runStoresG dec s' h

/-- a family the generic decoder understands and that uses every SMT array (= bit size of the decoded term) with
one shape -/
structure FamilyG (env : Env) (D : Nat → Nat → Prop) (rl : Nat → Option LTerm) (fuel : Nat) (F : Loc → Prop) : Prop where
  good : ∀ x, F x → Good env D x
  gram : ∀ x, F x → GramG rl x
  depth : ∀ x, F x → x.depth ≤ fuel
  coh : ∀ x y, F x → F y → gw x = gw y → x.shape = y.shape

def InvG (env : Env) (init : Init) (ev : ν → Nat) (F : Loc → Prop) (s : SData ν) (f : Flat) : Prop :=
  TypedG s ∧ ∀ x, F x → gEval env init ev s x = f (x.slotOf env)

theorem runStoresG_inv {env : Env} {D rl fuel} {F : Loc → Prop} (init : Init) (ev : ν → Nat)
    (hH : HashIdeal D env.H) (fam : FamilyG env D rl fuel F) :
    ∀ (h : List (Loc × ν)) (s : SData ν) (f : Flat), (∀ p ∈ h, F p.1) → InvG env init ev F s f →
      ∃ s', runStoresG (decodeG rl id fuel) s h = .ok s' ∧ s'.symbolic = s.symbolic ∧
        InvG env init ev F s' (applyFlat env ev f h)
  | [], s, f, _, hi => ⟨s, rfl, rfl, hi⟩
  | (ℓ, v) :: h, s, f, hF, hi => by
    have hℓ : F ℓ := hF (ℓ, v) (by simp)
    have hg := fam.gram ℓ hℓ
    have hsp := gflat_spec env (fam.good ℓ hℓ) hg.w256
    obtain ⟨s2, hst, hsym, hT2, hev⟩ := storeG_spec env init ev (decodeG rl id fuel) s ℓ.toTerm ℓ v hi.1
      (decodeG_toTerm rl ℓ fuel hg (fam.depth ℓ hℓ)) hsp.1 hsp.2.1
    have hi2 : InvG env init ev F s2 (f.write (ℓ.slotOf env) (ev v)) := by
      refine ⟨hT2, fun x hx => ?_⟩
      rw [hev x]
      have hiff := slot_eq_iff_gkey hH (fam.good x hx) (fam.good ℓ hℓ) (fam.gram x hx).w256 hg.w256
        (fam.coh x ℓ hx hℓ)
      rw [← gcellOf_eq_iff] at hiff
      unfold Flat.write
      by_cases e : x.slotOf env = ℓ.slotOf env
      · rw [if_pos (hiff.mp e), if_pos e]
      · rw [if_neg (fun h => e (hiff.mpr h)), if_neg e]
        exact hi.2 x hx
    obtain ⟨s', hrun, hs', hi'⟩ := runStoresG_inv init ev hH fam h s2 _ (fun p hp => hF p (by simp [hp])) hi2
    exact ⟨s', by simp only [runStoresG, hst, hrun], by rw [hs', hsym], hi'⟩

/-- generic layout: a load after a history of stores returns what the flat storage holds at the slot -/
theorem load_after_store_generic_fam {env : Env} {D rl fuel} {F : Loc → Prop} (init : Init) (ev : ν → Nat)
    (chk : LTerm → LTerm → Tri)
    (hH : HashIdeal D env.H) (fam : FamilyG env D rl fuel F) (b : Bool) (hz : InitZero b init)
    (hc : ChkSound env chk) (f0 : Flat)
    (hinit : ∀ x, F x → init (gcellOf x) (gval env x) = f0 (x.slotOf env))
    (h : List (Loc × ν)) (ℓ : Loc) (hF : ∀ p ∈ h, F p.1) (hℓ : F ℓ) :
    ∃ s' s'' r, runStoresG (decodeG rl id fuel) ({ symbolic := b, cells := [] } : SData ν) h = .ok s' ∧
      loadG (decodeG rl id fuel) chk s' ℓ.toTerm = .ok (s'', r) ∧
      r.eval env init ev = Flat.read (applyFlat env ev f0 h) (ℓ.slotOf env) := by
  have hi0 : InvG env init ev F ({ symbolic := b, cells := [] } : SData ν) f0 :=
    ⟨fun c cell h => by simp [SData.get?] at h, fun x hx => by rw [← hinit x hx]; rfl⟩
  obtain ⟨s', hrun, hs', hi'⟩ := runStoresG_inv init ev hH fam h _ f0 hF hi0
  have hg := fam.gram ℓ hℓ
  have hsp := gflat_spec env (fam.good ℓ hℓ) hg.w256
  obtain ⟨r, hl, hr⟩ := loadG_spec env init ev (decodeG rl id fuel) chk s' ℓ.toTerm ℓ hi'.1
    (decodeG_toTerm rl ℓ fuel hg (fam.depth ℓ hℓ)) hsp.1 hsp.2.1 hc (by rw [hs']; exact hz)
  exact ⟨s', _, r, hrun, hl, by rw [hr, hi'.2 ℓ hℓ]; rfl⟩

end

theorem FamilyG.mono {env : Env} {D rl fuel} {F F' : Loc → Prop} (fam : FamilyG env D rl fuel F) (h : ∀ x, F' x → F x) :
    FamilyG env D rl fuel F' :=
  ⟨fun x hx => fam.good x (h x hx), fun x hx => fam.gram x (h x hx), fun x hx => fam.depth x (h x hx),
   fun x y hx hy => fam.coh x y (h x hx) (h y hy)⟩

end HalmosVerif.Lemmas.Storage
