/-
Lemmas.StorageGenericEx — the example family of Lemmas/StorageEx.lean satisfies the hypotheses of the generic-layout
theorem too (non-vacuity for Props/C08.lean `load_after_store_generic`).
-/
import HalmosVerif.Lemmas.StorageEx
import HalmosVerif.Lemmas.StorageGeneric

namespace HalmosVerif.Lemmas.Storage
open HalmosVerif.Model HalmosVerif.Model.Storage

theorem exFamilyG : FamilyG exEnv exD (fun _ => none) 3 (· ∈ exMap :: exHist.map Prod.fst) := by
  have hm : ∀ x, x ∈ exMap :: exHist.map Prod.fst → x = exMap ∨ x = exMap3 ∨ x = .slot 7 := by
    intro x hx
    simp only [exHist, List.map, List.mem_cons, List.not_mem_nil, or_false] at hx
    rcases hx with h | h | h | h | h <;> simp [h]
  have c1 : gw exMap = 769 := by simp [gw, exMap, LTerm.width]
  have c2 : gw exMap3 = 769 := by simp [gw, exMap3, LTerm.width]
  have c3 : gw (.slot 7) = 256 := rfl
  have sh : exMap.shape = exMap3.shape := by simp [exMap, exMap3, Loc.shape, LTerm.width]
  refine ⟨exFamily.good, ?_, exFamily.depth, ?_⟩
  · intro x hx
    rcases hm x hx with rfl | rfl | rfl
    · simp [exMap, GramG, OffOKG, LTerm.width, atomG_lit]
    · simp [exMap3, GramG, OffOKG, LTerm.width, atomG_lit]
    · simp [GramG]
  · intro x y hx hy
    rcases hm x hx with rfl | rfl | rfl <;> rcases hm y hy with rfl | rfl | rfl <;>
      simp only [c1, c2, c3] <;> intro hc <;>
      first | trivial | exact sh | exact sh.symm | exact absurd hc (by decide)

end HalmosVerif.Lemmas.Storage
