/-
Lemmas.StorageInv — the invariant behind `load_after_store` (Props/C08.lean): every location `x` of a coherent family
reads, from its cell of the model storage, the value the flat storage holds at `x.slotOf env`.
Core Lean only.
-/
import HalmosVerif.Lemmas.Storage

namespace HalmosVerif.Lemmas.Storage
open HalmosVerif.Model HalmosVerif.Model.Storage

/-! ### concatenated key values -/

def sumW : List (Nat × Nat) → Nat
  | [] => 0
  | p :: ps => p.1 + sumW ps

/-- value of the concatenation of (width, value) pairs, first = most significant -/
def concatVal : List (Nat × Nat) → Nat
  | [] => 0
  | p :: ps => p.2 * 2 ^ sumW ps + concatVal ps

def Bounded (ps : List (Nat × Nat)) : Prop := ∀ p ∈ ps, p.2 < 2 ^ p.1

theorem sumW_append (a b : List (Nat × Nat)) : sumW (a ++ b) = sumW a + sumW b := by
  induction a with
  | nil => simp [sumW]
  | cons p ps ih => simp [sumW, ih]; omega

theorem sumW_reverse (a : List (Nat × Nat)) : sumW a.reverse = sumW a := by
  induction a with
  | nil => rfl
  | cons p ps ih => simp [sumW_append, sumW, ih]; omega

theorem sumW_kv (env : Env) (ts : List LTerm) : sumW (kv env ts) = widthSum ts := by
  induction ts with
  | nil => rfl
  | cons t ts ih => simp only [kv, List.map, sumW, widthSum] at ih ⊢; rw [ih]

theorem evalConcat_kv (env : Env) (ts : List LTerm) : evalConcat env ts = concatVal (kv env ts) := by
  induction ts with
  | nil => rfl
  | cons t ts ih =>
    have := sumW_kv env ts
    simp only [kv, List.map] at ih this ⊢
    simp only [evalConcat, concatVal, ih, this]

theorem mkConcat_eval (env : Env) (ts : List LTerm) : (mkConcat ts).eval env = evalConcat env ts := by
  match ts with
  | [] => simp [mkConcat, LTerm.eval]
  | [t] => simp [mkConcat, evalConcat, widthSum]
  | _ :: _ :: _ => simp [mkConcat, LTerm.eval]

theorem concatVal_lt : ∀ (ps : List (Nat × Nat)), Bounded ps → concatVal ps < 2 ^ sumW ps
  | [], _ => by simp [concatVal, sumW]
  | p :: ps, h => by
    have h1 : p.2 < 2 ^ p.1 := h p (by simp)
    have h2 := concatVal_lt ps (fun q hq => h q (by simp [hq]))
    simp only [concatVal, sumW, Nat.pow_add]
    have : (p.2 + 1) * 2 ^ sumW ps ≤ 2 ^ p.1 * 2 ^ sumW ps := Nat.mul_le_mul_right _ h1
    rw [Nat.add_mul] at this
    omega

theorem mul_add_inj {P a b c d : Nat} (hb : b < P) (hd : d < P) (h : a * P + b = c * P + d) : a = c ∧ b = d := by
  have hP : 0 < P := by omega
  have h1 : (a * P + b) / P = a := by rw [Nat.add_comm, Nat.add_mul_div_right _ _ hP, Nat.div_eq_of_lt hb]; omega
  have h2 : (c * P + d) / P = c := by rw [Nat.add_comm, Nat.add_mul_div_right _ _ hP, Nat.div_eq_of_lt hd]; omega
  have hac : a = c := by rw [← h1, ← h2, h]
  subst hac
  exact ⟨rfl, by omega⟩

theorem concatVal_inj : ∀ (ps qs : List (Nat × Nat)), ps.map Prod.fst = qs.map Prod.fst → Bounded ps → Bounded qs →
    concatVal ps = concatVal qs → ps = qs
  | [], [], _, _, _, _ => rfl
  | [], _ :: _, h, _, _, _ => by simp at h
  | _ :: _, [], h, _, _, _ => by simp at h
  | p :: ps, q :: qs, hm, hp, hq, h => by
    simp only [List.map, List.cons.injEq] at hm
    have hps : Bounded ps := fun x hx => hp x (by simp [hx])
    have hqs : Bounded qs := fun x hx => hq x (by simp [hx])
    have hw : sumW ps = sumW qs := by
      have : ∀ l : List (Nat × Nat), sumW l = (l.map Prod.fst).sum := by
        intro l; induction l with
        | nil => rfl
        | cons a l ih => simp [sumW, ih]
      rw [this, this, hm.2]
    have l1 := concatVal_lt ps hps
    have l2 := concatVal_lt qs hqs
    simp only [concatVal] at h
    rw [hw] at h l1
    obtain ⟨hv, hr⟩ := mul_add_inj l1 l2 h
    have := concatVal_inj ps qs hm.2 hps hqs hr
    subst this
    have : p = q := Prod.ext hm.1 hv
    rw [this]

/-! ### keys of a location -/

/-- the value of the key a location is stored under in its cell -/
def keyVal (env : Env) (ℓ : Loc) : Nat := (mkConcat ℓ.flat.tail).eval env

theorem keyVal_eq (env : Env) (ℓ : Loc) (h : OffLt env ℓ) : keyVal env ℓ = concatVal (ℓ.dkeys env).reverse := by
  rw [keyVal, mkConcat_eval, evalConcat_kv, evalFlat env ℓ h]

theorem cellOf_eq (env : Env) (ℓ : Loc) (h : OffLt env ℓ) :
    cellOf ℓ = (ℓ.root, (ℓ.dkeys env).length, sumW (ℓ.dkeys env)) := by
  have e := evalFlat env ℓ h
  have h1 : ℓ.flat.length - 1 = (ℓ.dkeys env).length := by
    have := congrArg List.length e
    simp only [kv, List.length_map, List.length_reverse, List.length_tail] at this
    exact this
  have h2 : widthSum ℓ.flat.tail = sumW (ℓ.dkeys env) := by
    rw [← sumW_kv env, e, sumW_reverse]
  simp only [cellOf, h1, h2]

def shapeW : List Step → List Nat
  | [] => []
  | .map w :: s => 256 :: w :: shapeW s
  | .arr :: s => 256 :: shapeW s

theorem dkeys_widths (env : Env) : ∀ (ℓ : Loc), (ℓ.dkeys env).map Prod.fst = shapeW ℓ.shape
  | .slot _ => rfl
  | .mapping _ base _ _ => by simp [Loc.dkeys, Loc.shape, shapeW, dkeys_widths env base]
  | .array base _ _ => by simp [Loc.dkeys, Loc.shape, shapeW, dkeys_widths env base]

theorem Good.bounded {env D} : ∀ {ℓ : Loc}, Good env D ℓ → Bounded (ℓ.dkeys env)
  | .slot _, _ => by simp [Bounded, Loc.dkeys]
  | .mapping key base off form, h => by
    have ih := Good.bounded h.2.2.2.2
    have h1 := h.2.2.1
    have h2 := h.2.1
    intro p hp
    simp only [Loc.dkeys, List.mem_cons] at hp
    rcases hp with rfl | rfl | hp
    · show offVal env off form < 2 ^ 256; omega
    · exact h2
    · exact ih p hp
  | .array base off form, h => by
    have ih := Good.bounded h.2.2
    have h1 := h.1
    intro p hp
    simp only [Loc.dkeys, List.mem_cons] at hp
    rcases hp with rfl | hp
    · show offVal env off form < 2 ^ 256; omega
    · exact ih p hp

theorem bounded_reverse {ps : List (Nat × Nat)} (h : Bounded ps) : Bounded ps.reverse :=
  fun p hp => h p (by simpa using hp)

/-- for same-shape locations the concatenated key determines the decoded keys -/
theorem keyVal_inj {env D} {x y : Loc} (gx : Good env D x) (gy : Good env D y) (hs : x.shape = y.shape)
    (h : keyVal env x = keyVal env y) : x.dkeys env = y.dkeys env := by
  rw [keyVal_eq env x gx.offLt, keyVal_eq env y gy.offLt] at h
  have hm : (x.dkeys env).reverse.map Prod.fst = (y.dkeys env).reverse.map Prod.fst := by
    rw [List.map_reverse, List.map_reverse, dkeys_widths, dkeys_widths, hs]
  have := concatVal_inj _ _ hm (bounded_reverse gx.bounded) (bounded_reverse gy.bounded) h
  exact List.reverse_inj.mp this

/-- same slot ⇔ same cell and same key, for good locations whose cells are used with one shape -/
theorem slot_eq_iff_cell_key {env D} (hH : HashIdeal D env.H) {x y : Loc} (gx : Good env D x) (gy : Good env D y)
    (coh : cellOf x = cellOf y → x.shape = y.shape) :
    x.slotOf env = y.slotOf env ↔ (cellOf x = cellOf y ∧ keyVal env x = keyVal env y) := by
  constructor
  · intro h
    obtain ⟨hr, hd⟩ := slot_eq_imp_decoded_eq hH x y gx gy h
    rw [cellOf_eq env x gx.offLt, cellOf_eq env y gy.offLt, keyVal_eq env x gx.offLt, keyVal_eq env y gy.offLt, hr, hd]
    exact ⟨rfl, rfl⟩
  · rintro ⟨hc, hk⟩
    have hs := coh hc
    have hr : x.root = y.root := congrArg Prod.fst hc
    exact decoded_eq_imp_slot_eq x y hs hr (keyVal_inj gx gy hs hk)

/-! ### what a location reads from the model storage -/

section
variable {ν : Type}

def cellVal (env : Env) (init : Init) (ev : ν → Nat) (cell : Cell ν) (k : Nat) : Nat :=
  match cell with
  | .scalar r => r.eval env init ev
  | .array a => a.eval env init ev k

/-- the value location `x` reads from `s` (before any solver interaction): the initial contents if its cell is absent -/
def cellEval (env : Env) (init : Init) (ev : ν → Nat) (s : SData ν) (x : Loc) : Nat :=
  match s.get? (cellOf x) with
  | none => init (cellOf x) (keyVal env x)
  | some cell => cellVal env init ev cell (keyVal env x)

/-- cells with keys hold arrays, cells without keys hold scalars -/
def CellTyped (c : CellKey) : Cell ν → Prop
  | .scalar _ => c.2.1 = 0 ∧ c.2.2 = 0
  | .array _ => c.2.1 ≠ 0 ∧ 0 < c.2.2

def Typed (s : SData ν) : Prop := ∀ c cell, s.get? c = some cell → CellTyped c cell

theorem typed_empty (b : Bool) : Typed ({ symbolic := b, cells := [] } : SData ν) := by
  intro c cell h; simp [SData.get?] at h

theorem typed_set {s : SData ν} {c : CellKey} {cell : Cell ν} (hT : Typed s) (hc : CellTyped c cell) :
    Typed (s.set c cell) := by
  intro c' cell' h
  by_cases e : c' = c
  · subst e; rw [get?_set_self] at h; cases h; exact hc
  · rw [get?_set_ne _ _ _ _ e] at h; exact hT c' cell' h

theorem cellEval_set (env : Env) (init : Init) (ev : ν → Nat) (s : SData ν) (c : CellKey) (cell : Cell ν) (x : Loc) :
    cellEval env init ev (s.set c cell) x =
      if cellOf x = c then cellVal env init ev cell (keyVal env x) else cellEval env init ev s x := by
  unfold cellEval
  by_cases e : cellOf x = c
  · simp [e, get?_set_self]
  · simp [e, get?_set_ne _ _ _ _ e]

theorem cellEval_of_get (env : Env) (init : Init) (ev : ν → Nat) {s : SData ν} {x : Loc} {cell : Cell ν}
    (h : s.get? (cellOf x) = some cell) : cellEval env init ev s x = cellVal env init ev cell (keyVal env x) := by
  simp [cellEval, h]

theorem cellOf_num_size (ℓ : Loc) :
    ((cellOf ℓ).2.1 = 0 ∧ (cellOf ℓ).2.2 = 0) ∨ ((cellOf ℓ).2.1 ≠ 0 ∧ 0 < (cellOf ℓ).2.2) := by
  have hl : ℓ.flat.length - 1 = ℓ.flat.tail.length := by simp
  rcases flat_tail_cases ℓ with ⟨h, _⟩ | ⟨h1, h2⟩
  · left; simp [cellOf, hl, h, widthSum]
  · right; simp only [cellOf, hl]; omega

theorem keyVal_zero_of_size (env : Env) (x : Loc) (h : (cellOf x).2.2 = 0) : keyVal env x = 0 := by
  rcases flat_tail_cases x with ⟨h', _⟩ | ⟨_, h2⟩
  · simp [keyVal, h', mkConcat, LTerm.eval, evalConcat]
  · simp only [cellOf] at h; omega

theorem initS_symbolic (s : SData ν) (c : CellKey) : (initS s c).symbolic = s.symbolic := by
  unfold initS; split
  · rfl
  · split <;> rfl

theorem initS_get? (s : SData ν) (c : CellKey) : ∃ cell, (initS s c).get? c = some cell := by
  unfold initS; split
  · rename_i cell h; exact ⟨cell, h⟩
  · split <;> exact ⟨_, get?_set_self _ _ _⟩

theorem typed_initS {s : SData ν} (hT : Typed s) (ℓ : Loc) : Typed (initS s (cellOf ℓ)) := by
  unfold initS; split
  · exact hT
  · rcases cellOf_num_size ℓ with ⟨h1, h2⟩ | ⟨h1, h2⟩
    · have : ¬ (cellOf ℓ).2.2 > 0 := by omega
      simp only [this, if_false]
      exact typed_set hT ⟨h1, h2⟩
    · simp only [gt_iff_lt, h2, if_true]
      exact typed_set hT ⟨h1, h2⟩

theorem cellEval_initS (env : Env) (init : Init) (ev : ν → Nat) (s : SData ν) (hz : InitZero s.symbolic init)
    (c : CellKey) (x : Loc) : cellEval env init ev (initS s c) x = cellEval env init ev s x := by
  unfold initS; split
  · rfl
  · rename_i hnone
    split
    · rw [cellEval_set]
      by_cases e : cellOf x = c
      · subst e; simp [cellVal, Arr.eval, cellEval, hnone]
      · simp [e]
    · rename_i hsz
      rw [cellEval_set]
      by_cases e : cellOf x = c
      · subst e
        have hk := keyVal_zero_of_size env x (by omega)
        cases hs : s.symbolic
        · simp [cellVal, Res.eval, cellEval, hnone, hz hs]
        · simp [cellVal, Res.eval, cellEval, hnone, hk]
      · simp [e]

/-- `load`: the result means what the location reads from its cell -/
theorem loadS_spec (env : Env) (init : Init) (ev : ν → Nat) (conc : LTerm → Option Nat)
    (dec : LTerm → Except Err (List LTerm)) (chk : LTerm → LTerm → Tri) (s : SData ν) (t : LTerm) (ℓ : Loc)
    (hT : Typed s) (hks : keyStructure conc dec t = .ok (cellOf ℓ, ℓ.flat.tail))
    (hc : ChkSound env chk) (hz : InitZero s.symbolic init) :
    ∃ r, loadS conc dec chk s t = .ok (initS s (cellOf ℓ), r) ∧ r.eval env init ev = cellEval env init ev s ℓ := by
  obtain ⟨cell, hget⟩ := initS_get? s (cellOf ℓ)
  have hT1 := typed_initS hT ℓ _ _ hget
  have he := cellEval_initS env init ev s hz (cellOf ℓ) ℓ
  have h1 := cellEval_of_get env init ev hget
  unfold loadS
  simp only [hks, hget]
  by_cases h0 : (cellOf ℓ).2.1 = 0
  · simp only [h0, if_true]
    cases cell with
    | scalar r => exact ⟨r, rfl, by rw [← he, h1]; rfl⟩
    | array a => exact absurd h0 hT1.1
  · simp only [h0, if_false]
    cases cell with
    | scalar r => exact absurd hT1.1 h0
    | array a =>
      refine ⟨_, rfl, ?_⟩
      rw [select_sound env init ev chk _ hc (by rw [initS_symbolic]; exact hz), ← he, h1]
      rfl

/-- `store`: exactly the locations with the same cell and the same key value change -/
theorem storeS_spec (env : Env) (init : Init) (ev : ν → Nat) (conc : LTerm → Option Nat)
    (dec : LTerm → Except Err (List LTerm)) (s : SData ν) (t : LTerm) (ℓ : Loc) (v : ν)
    (hT : Typed s) (hks : keyStructure conc dec t = .ok (cellOf ℓ, ℓ.flat.tail)) (hz : InitZero s.symbolic init) :
    ∃ s2, storeS conc dec s t v = .ok s2 ∧ s2.symbolic = s.symbolic ∧ Typed s2 ∧
      ∀ x, cellEval env init ev s2 x =
        if cellOf x = cellOf ℓ ∧ keyVal env x = keyVal env ℓ then ev v else cellEval env init ev s x := by
  obtain ⟨cell, hget⟩ := initS_get? s (cellOf ℓ)
  have hT1 := typed_initS hT ℓ
  have hc1 := hT1 _ _ hget
  unfold storeS
  simp only [hks]
  by_cases h0 : (cellOf ℓ).2.1 = 0
  · simp only [h0, if_true]
    have h2 : (cellOf ℓ).2.2 = 0 := by rcases cellOf_num_size ℓ with h | h <;> omega
    refine ⟨_, rfl, by rw [set_symbolic, initS_symbolic], typed_set hT1 ⟨h0, h2⟩, ?_⟩
    intro x
    rw [cellEval_set, cellEval_initS env init ev s hz]
    by_cases e : cellOf x = cellOf ℓ
    · have k1 := keyVal_zero_of_size env x (by rw [e]; exact h2)
      have k2 := keyVal_zero_of_size env ℓ h2
      simp [e, k1, k2, cellVal, Res.eval]
    · simp [e]
  · simp only [h0, if_false, hget]
    cases cell with
    | scalar r => exact absurd hc1.1 h0
    | array a =>
      refine ⟨_, rfl, by rw [set_symbolic, initS_symbolic], typed_set hT1 hc1, ?_⟩
      intro x
      rw [cellEval_set]
      by_cases e : cellOf x = cellOf ℓ
      · have he := cellEval_initS env init ev s hz (cellOf ℓ) x
        have h1 := cellEval_of_get env init ev (x := x) (by rw [e]; exact hget)
        simp only [e, true_and, if_true]
        show (if keyVal env ℓ = keyVal env x then ev v else a.eval env init ev (keyVal env x)) = _
        by_cases hk : keyVal env x = keyVal env ℓ
        · rw [if_pos hk.symm, if_pos hk]
        · rw [if_neg (Ne.symm hk), if_neg hk, ← he, h1]; rfl
      · simp [e, cellEval_initS env init ev s hz]

end

/-! ### histories of stores -/

section
variable {ν : Type}

/-- the model: a history of stores (oldest first) -/
def runStores (conc : LTerm → Option Nat) (dec : LTerm → Except Err (List LTerm)) :
    SData ν → List (Loc × ν) → Except Err (SData ν)
  | s, [] => .ok s
  | s, (ℓ, v) :: h =>
    match storeS conc dec s ℓ.toTerm v with
    | .error e => .error e
    | .ok s' => runStores conc dec s' h

/-- the flat EVM storage after the same history -/
def applyFlat (env : Env) (ev : ν → Nat) : Flat → List (Loc × ν) → Flat
  | f, [] => f
  | f, (ℓ, v) :: h => applyFlat env ev (f.write (ℓ.slotOf env) (ev v)) h

/-- a family of locations that the decoder understands and that uses every cell with one shape -/
structure Family (env : Env) (D : Nat → Nat → Prop) (rl : Nat → Option LTerm) (fuel : Nat) (F : Loc → Prop) : Prop where
  good : ∀ x, F x → Good env D x
  gram : ∀ x, F x → Gram rl x
  depth : ∀ x, F x → x.depth ≤ fuel
  coh : ∀ x y, F x → F y → cellOf x = cellOf y → x.shape = y.shape

def Inv (env : Env) (init : Init) (ev : ν → Nat) (F : Loc → Prop) (s : SData ν) (f : Flat) : Prop :=
  Typed s ∧ ∀ x, F x → cellEval env init ev s x = f (x.slotOf env)

theorem runStores_inv {env : Env} {D rl fuel} {F : Loc → Prop} (init : Init) (ev : ν → Nat) (conc : LTerm → Option Nat)
    (hH : HashIdeal D env.H) (fam : Family env D rl fuel F) (b : Bool) (hz : InitZero b init) :
    ∀ (h : List (Loc × ν)) (s : SData ν) (f : Flat), (∀ p ∈ h, F p.1) → s.symbolic = b → Inv env init ev F s f →
      ∃ s', runStores conc (decodeS rl id fuel) s h = .ok s' ∧ s'.symbolic = b ∧
        Inv env init ev F s' (applyFlat env ev f h)
  | [], s, f, _, hs, hi => ⟨s, rfl, hs, hi⟩
  | (ℓ, v) :: h, s, f, hF, hs, hi => by
    have hℓ : F ℓ := hF (ℓ, v) (by simp)
    have hks := keyStructure_toTerm conc rl ℓ fuel (fam.gram ℓ hℓ) (fam.depth ℓ hℓ)
    obtain ⟨s2, hst, hsym, hT2, hev⟩ :=
      storeS_spec env init ev conc (decodeS rl id fuel) s ℓ.toTerm ℓ v hi.1 hks (by rw [hs]; exact hz)
    have hi2 : Inv env init ev F s2 (f.write (ℓ.slotOf env) (ev v)) := by
      refine ⟨hT2, fun x hx => ?_⟩
      rw [hev x]
      have hiff := slot_eq_iff_cell_key hH (fam.good x hx) (fam.good ℓ hℓ) (fam.coh x ℓ hx hℓ)
      unfold Flat.write
      by_cases e : x.slotOf env = ℓ.slotOf env
      · rw [if_pos (hiff.mp e), if_pos e]
      · rw [if_neg (fun h => e (hiff.mpr h)), if_neg e]
        exact hi.2 x hx
    obtain ⟨s', hrun, hs', hi'⟩ :=
      runStores_inv init ev conc hH fam b hz h s2 _ (fun p hp => hF p (by simp [hp])) (by rw [hsym, hs]) hi2
    exact ⟨s', by simp only [runStores, hst, hrun], hs', hi'⟩

/-- a load after a history of stores returns what the flat storage holds at the slot -/
theorem load_after_store_fam {env : Env} {D rl fuel} {F : Loc → Prop} (init : Init) (ev : ν → Nat)
    (conc : LTerm → Option Nat) (chk : LTerm → LTerm → Tri)
    (hH : HashIdeal D env.H) (fam : Family env D rl fuel F) (b : Bool) (hz : InitZero b init)
    (hc : ChkSound env chk) (f0 : Flat)
    (hinit : ∀ x, F x → init (cellOf x) (keyVal env x) = f0 (x.slotOf env))
    (h : List (Loc × ν)) (ℓ : Loc) (hF : ∀ p ∈ h, F p.1) (hℓ : F ℓ) :
    ∃ s' s'' r, runStores conc (decodeS rl id fuel) ({ symbolic := b, cells := [] } : SData ν) h = .ok s' ∧
      loadS conc (decodeS rl id fuel) chk s' ℓ.toTerm = .ok (s'', r) ∧
      r.eval env init ev = Flat.read (applyFlat env ev f0 h) (ℓ.slotOf env) := by
  have hi0 : Inv env init ev F ({ symbolic := b, cells := [] } : SData ν) f0 :=
    ⟨typed_empty b, fun x hx => by rw [← hinit x hx]; rfl⟩
  obtain ⟨s', hrun, hs', hi'⟩ := runStores_inv init ev conc hH fam b hz h _ f0 hF rfl hi0
  have hks := keyStructure_toTerm conc rl ℓ fuel (fam.gram ℓ hℓ) (fam.depth ℓ hℓ)
  obtain ⟨r, hl, hr⟩ := loadS_spec env init ev conc (decodeS rl id fuel) chk s' ℓ.toTerm ℓ hi'.1 hks hc
    (by rw [hs']; exact hz)
  exact ⟨s', _, r, hrun, hl, by rw [hr, hi'.2 ℓ hℓ]; rfl⟩

end

section
variable {ν : Type}

theorem applyFlat_not_written (env : Env) (ev : ν → Nat) (slot : Nat) :
    ∀ (h : List (Loc × ν)) (f : Flat), (∀ p ∈ h, p.1.slotOf env ≠ slot) → applyFlat env ev f h slot = f slot
  | [], _, _ => rfl
  | (ℓ, v) :: h, f, hn => by
    have h1 : ℓ.slotOf env ≠ slot := hn (ℓ, v) (by simp)
    rw [applyFlat, applyFlat_not_written env ev slot h _ (fun p hp => hn p (by simp [hp]))]
    simp [Flat.write, Ne.symm h1]

theorem applyFlat_append (env : Env) (ev : ν → Nat) :
    ∀ (h1 h2 : List (Loc × ν)) (f : Flat), applyFlat env ev f (h1 ++ h2) = applyFlat env ev (applyFlat env ev f h1) h2
  | [], _, _ => rfl
  | (ℓ, v) :: h1, h2, f => by simp only [List.cons_append, applyFlat]; exact applyFlat_append env ev h1 h2 _

/-- the flat storage holds the last write to a slot -/
theorem applyFlat_last_write (env : Env) (ev : ν → Nat) (f : Flat) (h1 h2 : List (Loc × ν)) (ℓ : Loc) (v : ν)
    (hn : ∀ p ∈ h2, p.1.slotOf env ≠ ℓ.slotOf env) :
    applyFlat env ev f (h1 ++ (ℓ, v) :: h2) (ℓ.slotOf env) = ev v := by
  rw [applyFlat_append, applyFlat, applyFlat_not_written env ev _ h2 _ hn]
  simp [Flat.write]
end

theorem Family.mono {env : Env} {D rl fuel} {F F' : Loc → Prop} (fam : Family env D rl fuel F) (h : ∀ x, F' x → F x) :
    Family env D rl fuel F' :=
  ⟨fun x hx => fam.good x (h x hx), fun x hx => fam.gram x (h x hx), fun x hx => fam.depth x (h x hx),
   fun x y hx hy => fam.coh x y (h x hx) (h y hy)⟩

end HalmosVerif.Lemmas.Storage
