/-
Lemmas.StorageNorm — `decodeS_toTerm` for a normaliser other than `id`: any `norm` that fixes literals, `sha3`, `add`
and binary concatenations (`NormOK`), in particular the model's `normalizeM`.  Core Lean only.
-/
import HalmosVerif.Lemmas.Storage

namespace HalmosVerif.Lemmas.Storage
open HalmosVerif.Model HalmosVerif.Model.Storage

/-- the normaliser is the identity on the term shapes of `Loc.toTerm` -/
structure NormOK (norm : LTerm → LTerm) : Prop where
  lit : ∀ w v, norm (.lit w v) = .lit w v
  sha3 : ∀ a, norm (.sha3 a) = .sha3 a
  add : ∀ as, norm (.add as) = .add as
  pair : ∀ a b, norm (.concat [a, b]) = .concat [a, b]

theorem normOK_id : NormOK id := ⟨fun _ _ => rfl, fun _ => rfl, fun _ => rfl, fun _ _ => rfl⟩

theorem normOK_normalizeM : NormOK normalizeM :=
  ⟨fun _ _ => rfl, fun _ => rfl, fun _ => rfl, fun _ _ => by simp [normalizeM, leftNest]⟩

/-- `OffOK` / `Gram` relative to a normaliser -/
def OffOKN (norm : LTerm → LTerm) (rl : Nat → Option LTerm) (off : LTerm) : OffForm → Prop
  | .none => True
  | _ => off.width = 256 ∧ ∀ fuel, decodeS rl norm (fuel + 1) off = .ok [off]

def GramN (norm : LTerm → LTerm) (rl : Nat → Option LTerm) : Loc → Prop
  | .slot n => n < 2 ^ 256 ∧ rl n = none
  | .mapping key base off form => 0 < key.width ∧ OffOKN norm rl off form ∧ GramN norm rl base
  | .array base off form => OffOKN norm rl off form ∧ GramN norm rl base

theorem OffOKN.offW {norm rl off form} (h : OffOKN norm rl off form) : OffW off form := by
  cases form <;> simp_all [OffOKN, OffW]

theorem GramN.w256 {norm rl} : ∀ {ℓ : Loc}, GramN norm rl ℓ → W256 ℓ
  | .slot _, h => h.1
  | .mapping _ _ _ _, h => ⟨h.2.1.offW, GramN.w256 h.2.2⟩
  | .array _ _ _, h => ⟨h.1.offW, GramN.w256 h.2⟩

theorem gramN_id {rl} : ∀ {ℓ : Loc}, GramN id rl ℓ ↔ Gram rl ℓ
  | .slot _ => Iff.rfl
  | .mapping _ base _ form => by
    cases form <;> simp [GramN, Gram, OffOKN, OffOK, gramN_id (ℓ := base)]
  | .array base _ form => by
    cases form <;> simp [GramN, Gram, OffOKN, OffOK, gramN_id (ℓ := base)]

/-- atoms: free symbols and unregistered literals are fixed by `normalizeM` and returned by the decoder -/
theorem offOKN_normalizeM_sym (rl : Nat → Option LTerm) (i : Nat) (form : OffForm) :
    OffOKN normalizeM rl (.sym 256 i) form := by
  cases form <;> simp [OffOKN, LTerm.width, decodeS, normalizeM]

theorem offOKN_normalizeM_lit (rl : Nat → Option LTerm) (v : Nat) (form : OffForm) (h : rl v = none) :
    OffOKN normalizeM rl (.lit 256 v) form := by
  cases form <;> simp [OffOKN, LTerm.width, decodeS, normalizeM, h]

section
variable {norm : LTerm → LTerm} (hN : NormOK norm) (rl : Nat → Option LTerm)
include hN

theorem decodeSN_sha3_map (key bt : LTerm) (b : List LTerm) (f : Nat)
    (hk : 0 < key.width) (hb : bt.width = 256) (hd : decodeS rl norm f bt = .ok b) :
    decodeS rl norm (f + 1) (.sha3 (.concat [key, bt])) = .ok (b ++ [key, zero256]) := by
  by_cases h256 : key.width = 256
  · have e1 : simpExtract 511 256 (.concat [key, bt]) = key := by
      simp [simpExtract, LTerm.width, widthSum, h256, hb, takeWidth, mkConcat]
    have e2 : simpExtract 255 0 (.concat [key, bt]) = bt := by
      simp [simpExtract, LTerm.width, widthSum, h256, hb, takeWidth, mkConcat]
    simp [decodeS, hN.sha3, LTerm.width, widthSum, h256, hb, e1, e2, hd]
  · have h1 : key.width + 256 ≠ 512 := by omega
    have h2 : key.width ≠ 0 := by omega
    simp [decodeS, hN.sha3, hN.pair, LTerm.width, widthSum, hb, h1, h2, h256, hd]

theorem decodeSN_sha3_arr (bt : LTerm) (b : List LTerm) (f : Nat)
    (hb : bt.width = 256) (hd : decodeS rl norm f bt = .ok b) :
    decodeS rl norm (f + 1) (.sha3 bt) = .ok (b ++ [zero256]) := by
  simp [decodeS, hN.sha3, hb, hd]

theorem decodeSN_add_right (h off z : LTerm) (p : List LTerm) (f : Nat)
    (hp : 0 < p.length) (hh : decodeS rl norm f h = .ok (p ++ [z])) (ho : decodeS rl norm f off = .ok [off]) :
    decodeS rl norm (f + 1) (.add [h, off]) = .ok (p ++ [.add [z, off]]) := by
  have hl : ¬ (p.length + 1 < 1) := by omega
  simp [decodeS, hN.add, mapMExcept, hh, ho, sortByLenDesc, insertByLen, hl, sumOffsets]

theorem decodeSN_add_left (h off z : LTerm) (p : List LTerm) (f : Nat)
    (hp : 0 < p.length) (hh : decodeS rl norm f h = .ok (p ++ [z])) (ho : decodeS rl norm f off = .ok [off]) :
    decodeS rl norm (f + 1) (.add [off, h]) = .ok (p ++ [.add [z, off]]) := by
  have hl : 1 < p.length + 1 := by omega
  simp [decodeS, hN.add, mapMExcept, hh, ho, sortByLenDesc, insertByLen, hl, sumOffsets]

theorem decodeSN_withOff (h off : LTerm) (form : OffForm) (p : List LTerm) (f : Nat)
    (hp : 0 < p.length) (hh : ∀ f', f ≤ f' → decodeS rl norm (f' + 1) h = .ok (p ++ [zero256]))
    (ho : OffOKN norm rl off form) :
    decodeS rl norm (f + 2) (withOff h off form) = .ok (p ++ [offTerm off form]) := by
  cases form
  · exact hh (f + 1) (by omega)
  · exact decodeSN_add_right hN rl h off zero256 p (f + 1) hp (hh f (by omega)) (ho.2 f)
  · exact decodeSN_add_left hN rl h off zero256 p (f + 1) hp (hh f (by omega)) (ho.2 f)

/-- the decoder on the layout grammar, for any normaliser that is the identity on the grammar's term shapes -/
theorem decodeS_toTerm_norm : ∀ (ℓ : Loc) (fuel : Nat), GramN norm rl ℓ → ℓ.depth ≤ fuel →
    decodeS rl norm fuel ℓ.toTerm = .ok ℓ.flat
  | .slot n, fuel, hg, hf => by
    obtain ⟨f, rfl⟩ : ∃ f, fuel = f + 1 := ⟨fuel - 1, by simp [Loc.depth] at hf; omega⟩
    simp [Loc.toTerm, Loc.flat, decodeS, hN.lit, hg.2]
  | .mapping key base off form, fuel, hg, hf => by
    obtain ⟨f, rfl⟩ : ∃ f, fuel = f + 2 := ⟨fuel - 2, by simp [Loc.depth] at hf; omega⟩
    simp only [Loc.depth] at hf
    have := decodeSN_withOff hN rl (.sha3 (.concat [key, base.toTerm])) off form (base.flat ++ [key]) f
      (by simp) (fun f' hf' => by
        have := decodeSN_sha3_map hN rl key base.toTerm base.flat f' hg.1 (toTerm_width hg.2.2.w256)
          (decodeS_toTerm_norm base f' hg.2.2 (by omega))
        simpa using this) hg.2.1
    simpa [Loc.toTerm, Loc.flat] using this
  | .array base off form, fuel, hg, hf => by
    obtain ⟨f, rfl⟩ : ∃ f, fuel = f + 2 := ⟨fuel - 2, by simp [Loc.depth] at hf; omega⟩
    simp only [Loc.depth] at hf
    have := decodeSN_withOff hN rl (.sha3 base.toTerm) off form base.flat f
      (flat_length_pos base) (fun f' hf' =>
        decodeSN_sha3_arr hN rl base.toTerm base.flat f' (toTerm_width hg.2.w256)
          (decodeS_toTerm_norm base f' hg.2 (by omega))) hg.1
    simpa [Loc.toTerm, Loc.flat] using this

end

end HalmosVerif.Lemmas.Storage
