/-
Lemmas.Verdict — closed forms of `from_result` / the exit code, consequences of the run-level invariant
(Lemmas.VerdictRun) used by Props.C05, and the abstraction from the model's scenarios to the Spec's outcomes.
-/
import HalmosVerif.Lemmas.VerdictRun
import HalmosVerif.Spec.Verdict

namespace HalmosVerif.Model.Verdict

open HalmosVerif

/-! ## `from_result` -/

theorem fromResult_eq (c : Bool) (out : List Char) (rc : Int) (core : List Nat) :
    fromResult c out rc core =
      if firstLine out = "unsat".toList then .unsat (if c then core else [])
      else if firstLine out = "sat".toList then .sat (isModelValid out)
      else if firstLine out = "unknown".toList then .unknown
      else .err := by
  have e1 : ("unsat" : String).toList = ['u', 'n', 's', 'a', 't'] := by decide
  have e2 : ("sat" : String).toList = ['s', 'a', 't'] := by decide
  have e3 : ("unknown" : String).toList = ['u', 'n', 'k', 'n', 'o', 'w', 'n'] := by decide
  have k1 : kindOfName "unsat" = .unsat := by decide
  have k2 : kindOfName "sat" = .sat := by decide
  have k3 : kindOfName "unknown" = .unknown := by decide
  have k4 : kindOfName "err" = .err := by decide
  unfold fromResult dispatchKind
  simp only [HalmosVerif.Gen.Verdict.dispatch, HalmosVerif.Gen.Verdict.dispatchDefault, List.find?_cons, List.find?_nil,
    e1, e2, e3, k4]
  by_cases h1 : firstLine out = ['u', 'n', 's', 'a', 't']
  · simp [h1, k1]
  · by_cases h2 : firstLine out = ['s', 'a', 't']
    · simp [h2, k2]
    · by_cases h3 : firstLine out = ['u', 'n', 'k', 'n', 'o', 'w', 'n']
      · simp [h3, k3]
      · have h1' : (['u', 'n', 's', 'a', 't'] == firstLine out) = false := by
          simpa [beq_eq_false_iff_ne] using fun h => h1 h.symm
        have h2' : (['s', 'a', 't'] == firstLine out) = false := by
          simpa [beq_eq_false_iff_ne] using fun h => h2 h.symm
        have h3' : (['u', 'n', 'k', 'n', 'o', 'w', 'n'] == firstLine out) = false := by
          simpa [beq_eq_false_iff_ne] using fun h => h3 h.symm
        simp [h1, h2, h3, h1', h2', h3']

theorem fromResult_kind_unsat_iff (c : Bool) (out : List Char) (rc : Int) (core : List Nat) :
    (fromResult c out rc core).kind = .unsat ↔ firstLine out = "unsat".toList := by
  rw [fromResult_eq]
  by_cases h1 : firstLine out = "unsat".toList
  · rw [if_pos h1]; exact ⟨fun _ => h1, fun _ => rfl⟩
  · rw [if_neg h1]
    by_cases h2 : firstLine out = "sat".toList
    · rw [if_pos h2]; exact ⟨fun h => by simp [Res.kind] at h, fun h => absurd h h1⟩
    · rw [if_neg h2]
      by_cases h3 : firstLine out = "unknown".toList
      · rw [if_pos h3]; exact ⟨fun h => by simp [Res.kind] at h, fun h => absurd h h1⟩
      · rw [if_neg h3]; exact ⟨fun h => by simp [Res.kind] at h, fun h => absurd h h1⟩

/-! ## pure consequences of the verdict chain -/

theorem countKind_zero_iff (k : RKind) (outs : List Res) : countKind k outs = 0 ↔ ∀ r ∈ outs, r.kind ≠ k := by
  unfold countKind
  rw [List.countP_eq_zero]
  constructor
  · intro h r hr hk; exact h r hr (by simp [hk])
  · intro h r hr hk; exact h r hr (by simpa using hk)

theorem countKind_pos_iff (k : RKind) (outs : List Res) : 0 < countKind k outs ↔ ∃ r ∈ outs, r.kind = k := by
  unfold countKind
  rw [List.countP_pos_iff]
  constructor
  · rintro ⟨r, hr, hk⟩; exact ⟨r, hr, by simpa using hk⟩
  · rintro ⟨r, hr, hk⟩; exact ⟨r, hr, by simp [hk]⟩

theorem verdictOf_pass_iff (outs : List Res) (s n : Nat) :
    verdictOf outs s n = .pass ↔ (∀ r ∈ outs, r.kind = .unsat) ∧ s = 0 ∧ 0 < n := by
  rw [verdictOf_eq]
  constructor
  · intro h
    by_cases h1 : 0 < countKind .sat outs
    · simp [h1] at h
    · by_cases h2 : 0 < countKind .err outs
      · simp [h1, h2] at h
      · by_cases h3 : 0 < countKind .unknown outs
        · simp [h1, h2, h3] at h
        · by_cases h4 : 0 < s
          · simp [h1, h2, h3, h4] at h
          · by_cases h5 : n = 0
            · simp [h1, h2, h3, h4, h5] at h
            · refine ⟨?_, by omega, by omega⟩
              intro r hr
              have a1 := (countKind_zero_iff .sat outs).mp (by omega) r hr
              have a2 := (countKind_zero_iff .err outs).mp (by omega) r hr
              have a3 := (countKind_zero_iff .unknown outs).mp (by omega) r hr
              cases hk : r.kind <;> simp_all
  · rintro ⟨hall, hs, hn⟩
    have z : ∀ k, k ≠ RKind.unsat → countKind k outs = 0 := by
      intro k hk
      rw [countKind_zero_iff]
      intro r hr hrk
      exact hk (by rw [← hrk, hall r hr])
    have z1 := z .sat (by decide)
    have z2 := z .err (by decide)
    have z3 := z .unknown (by decide)
    have hn' : n ≠ 0 := by omega
    simp [z1, z2, z3, hs, hn']

/-! ## the exit code -/

theorem mainExit_eq (cs : List ContractRun) :
    mainExit cs =
      let cs' := cs.filter (fun c => c.found != 0)
      if (cs'.map (·.found)).sum = 0 then 1
      else if (cs'.map (fun c => c.found - numPassed c)).sum = 0 then 0 else 1 := by
  unfold mainExit
  simp only [HalmosVerif.Gen.Verdict.mainExitNoTests, HalmosVerif.Gen.Verdict.mainExitAllPassed,
    HalmosVerif.Gen.Verdict.mainExitSomeFailed]

theorem sum_eq_zero_iff (l : List Nat) : l.sum = 0 ↔ ∀ x ∈ l, x = 0 := by
  induction l with
  | nil => simp
  | cons a t ih =>
    simp only [List.sum_cons, List.mem_cons, forall_eq_or_imp]
    rw [← ih]; omega

/-- what `run_contract` can return for a contract with `found` selected tests: one result per test, or nothing
(setUp failed) -/
def ContractRun.wf (c : ContractRun) : Prop := c.results.length = c.found ∨ c.results = []

theorem numPassed_le (c : ContractRun) : numPassed c ≤ c.results.length := List.countP_le_length

theorem numPassed_eq_length_iff (c : ContractRun) : numPassed c = c.results.length ↔ ∀ r ∈ c.results, r = .pass := by
  unfold numPassed
  rw [List.countP_eq_length]
  constructor
  · intro h r hr; simpa using h r hr
  · intro h r hr; simpa using h r hr

/-- every selected test of the contract was run and passed -/
def ContractRun.allPassed (c : ContractRun) : Prop := c.results.length = c.found ∧ ∀ r ∈ c.results, r = .pass

theorem failed_zero_iff (c : ContractRun) (hw : c.wf) (hf : c.found ≠ 0) :
    c.found - numPassed c = 0 ↔ c.allPassed := by
  have hle := numPassed_le c
  constructor
  · intro h
    rcases hw with hw | hw
    · refine ⟨hw, (numPassed_eq_length_iff c).mp (by omega)⟩
    · have : numPassed c = 0 := by simp [numPassed, hw]
      omega
  · rintro ⟨hl, hall⟩
    have := (numPassed_eq_length_iff c).mpr hall
    omega

/-! ## from scenarios to the Spec's per-path outcomes -/

open Spec.Verdict in
def answerOfRes : Option Res → Answer
  | none => .failed
  | some (.sat _) => .cex
  | some (.unsat _) => .unsat
  | some .unknown => .timeout
  | some .err => .failed

/-- the per-path outcome the property talks about, for one path of a scenario (no schedule involved) -/
def outcomeOf (cacheSolver : Bool) (p : Path) : Spec.Verdict.Outcome :=
  match classify p.obs with
  | .potential => .violation (answerOfRes (solveEndToEnd cacheSolver false p.q))
  | .confirmStuck => .stuck (answerOfRes (solveLowLevel cacheSolver p.q.first))
  | .normal => .success
  | .ignored => .revert

def outcomesOf (sc : Scenario) : List Spec.Verdict.Outcome := sc.paths.map (outcomeOf sc.cfg.cacheSolver)

/-- how the six exit codes are printed: [PASS] / [FAIL] / [TIMEOUT] / [ERROR] -/
def Exitcode.cls : Exitcode → Spec.Verdict.Verdict
  | .pass => .pass
  | .counterexample => .fail
  | .timeout => .timeout
  | .stuck => .error
  | .revertAll => .error
  | .exception => .error

end HalmosVerif.Model.Verdict
