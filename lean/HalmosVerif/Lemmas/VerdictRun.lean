/-
Lemmas.VerdictRun — every complete schedule of `Model.Verdict.run` yields the schedule-free reference verdict
`refVerdict` whenever timing cannot matter (property C05).  Invariant over `run` + permutation lemmas.
-/
import HalmosVerif.Model.Verdict
import HalmosVerif.Model.VerdictWitness

namespace HalmosVerif.Model.Verdict

open HalmosVerif.Gen.Verdict (VCond PCond PAct)

/-! ## Closed forms of the interpreted tables -/

theorem exitOfName_exception : exitOfName HalmosVerif.Gen.Verdict.runTestsExceptionCode = .exception := by decide

theorem timeoutRes_eq : timeoutRes = .unknown := by decide

/-- closed forms of the interpreted tables -/
theorem verdictOf_eq (outs : List Res) (s n : Nat) : verdictOf outs s n =
    if 0 < countKind .sat outs then .counterexample
    else if 0 < countKind .err outs then .exception
    else if 0 < countKind .unknown outs then .timeout
    else if 0 < s then .stuck
    else if n = 0 then .revertAll
    else .pass := by
  have h1 : kindOfName "sat" = .sat := by decide
  have h2 : kindOfName "err" = .err := by decide
  have h3 : kindOfName "unknown" = .unknown := by decide
  have e1 : (RKind.ofName "sat").isSome = true := by decide
  have e2 : (RKind.ofName "err").isSome = true := by decide
  have e3 : (RKind.ofName "unknown").isSome = true := by decide
  have x1 : exitOfName "COUNTEREXAMPLE" = .counterexample := by decide
  have x2 : exitOfName "EXCEPTION" = .exception := by decide
  have x3 : exitOfName "TIMEOUT" = .timeout := by decide
  have x4 : exitOfName "STUCK" = .stuck := by decide
  have x5 : exitOfName "REVERT_ALL" = .revertAll := by decide
  have x6 : exitOfName "PASS" = .pass := by decide
  unfold verdictOf HalmosVerif.Gen.Verdict.verdictChain HalmosVerif.Gen.Verdict.verdictElse
  simp only [List.find?_cons, List.find?_nil, vcondHolds, h1, h2, h3, e1, e2, e3, Bool.and_true]
  by_cases c1 : 0 < countKind .sat outs
  · simp only [c1, decide_true, if_true, x1]
  by_cases c2 : 0 < countKind .err outs
  · simp only [c1, c2, decide_true, decide_false, if_true, if_false, x2]
  by_cases c3 : 0 < countKind .unknown outs
  · simp only [c1, c2, c3, decide_true, decide_false, if_true, if_false, x3]
  by_cases c4 : 0 < s
  · simp only [c1, c2, c3, c4, decide_true, decide_false, if_true, if_false, x4]
  by_cases c5 : n = 0
  · simp only [c1, c2, c3, c4, c5, decide_true, decide_false, if_true, if_false, x5]
  · simp only [c1, c2, c3, c4, c5, decide_false, if_false, x6]

theorem classify_eq (o : PathObs) : classify o =
    if o.panicFound || o.failSet then .potential
    else if o.isStuck then .confirmStuck
    else if !o.errorOutput then .normal
    else .ignored := by
  obtain ⟨a, b, c, d⟩ := o
  cases a <;> cases b <;> cases c <;> cases d <;> rfl

theorem countKind_eq_count (k : RKind) (outs : List Res) : countKind k outs = (outs.map Res.kind).count k := by
  unfold countKind
  rw [List.count_eq_countP, List.countP_map]
  rfl

/-- the verdict depends on the outputs only through the multiset of their kinds -/
theorem verdictOf_congr_kinds {a b : List Res} (h : (a.map Res.kind).Perm (b.map Res.kind)) (s n : Nat) :
    verdictOf a s n = verdictOf b s n := by
  simp only [verdictOf_eq, countKind_eq_count, h.count_eq]

theorem verdictOf_perm {a b : List Res} (h : a.Perm b) (s n : Nat) : verdictOf a s n = verdictOf b s n :=
  verdictOf_congr_kinds (h.map _) s n

theorem mem_stuckPaths {sc : Scenario} {p : Path} : p ∈ stuckPaths sc ↔ p ∈ sc.paths ∧ classify p.obs = .confirmStuck := by
  simp only [stuckPaths, List.mem_filter, beq_iff_eq]

theorem mem_potentialPaths {sc : Scenario} {p : Path} : p ∈ potentialPaths sc ↔ p ∈ sc.paths ∧ classify p.obs = .potential := by
  simp only [potentialPaths, List.mem_filter, beq_iff_eq]

structure Inv1 (sc : Scenario) (st : St) : Prop where
  phase_stuck : st.phase ≠ .top → ∃ p, sc.paths[st.pc]? = some p ∧ classify p.obs = .confirmStuck
  sd : st.shutdown = true → sc.cfg.earlyExit = true ∧ Res.sat true ∈ st.outputs
  raised_md : st.raised = true → st.mainDone = true ∧
     ((∃ p ∈ stuckPaths sc, confirmRaises sc.cfg.cacheSolver p = true) ∨
      (st.shutdown = true ∧ sc.cfg.earlyExit = true ∧ stuckPaths sc ≠ []))
  md : st.mainDone = true → st.raised = true ∨ st.shutdown = true ∨ sc.paths.length ≤ st.pc

theorem Inv1.init (sc : Scenario) : Inv1 sc St.init := by
  constructor <;> simp [St.init]

theorem Inv1.main {sc : Scenario} {st : St} (hI : Inv1 sc st) (hmd : st.mainDone = false) :
    Inv1 sc (mainStep sc st) := by
  obtain ⟨h1, h2, h3, h4⟩ := hI
  have hr : st.raised = false := by
    cases h : st.raised
    · rfl
    · have := (h3 h).1; simp [hmd] at this
  unfold mainStep
  split
  · rename_i hnone
    have := List.getElem?_eq_none_iff.mp hnone
    constructor <;> grind
  · rename_i p hp
    have hmem : p ∈ sc.paths := List.mem_of_getElem? hp
    split
    · split
      · constructor <;> grind
      · split <;> constructor <;> grind
    · rename_i hph
      have hne : st.phase ≠ .top := by rw [hph]; decide
      obtain ⟨p', hp', hc⟩ := h1 hne
      have hpp : p' = p := by rw [hp] at hp'; exact (Option.some.inj hp').symm
      subst hpp
      have hs : p' ∈ stuckPaths sc := mem_stuckPaths.mpr ⟨hmem, hc⟩
      have hne' : stuckPaths sc ≠ [] := List.ne_nil_of_mem hs
      split <;> constructor <;> grind
    · rename_i hph
      have hne : st.phase ≠ .top := by rw [hph]; decide
      obtain ⟨p', hp', hc⟩ := h1 hne
      have hpp : p' = p := by rw [hp] at hp'; exact (Option.some.inj hp').symm
      subst hpp
      have hs : p' ∈ stuckPaths sc := mem_stuckPaths.mpr ⟨hmem, hc⟩
      have hne' : stuckPaths sc ≠ [] := List.ne_nil_of_mem hs
      split
      · split <;> constructor <;> grind
      · split
        · rename_i hn
          have : confirmRaises sc.cfg.cacheSolver p' = true := by simp [confirmRaises, hn]
          constructor <;> grind
        · constructor <;> grind
        · constructor <;> grind

/-! ## Inversion of `step`, induction over `run` -/

theorem step_main_eq {sc : Scenario} {st st' : St} (h : step sc st .main = some st') :
    st.mainDone = false ∧ st' = mainStep sc st := by
  simp only [step] at h
  split at h
  · exact absurd h (by simp)
  · rename_i hm
    exact ⟨by simpa using hm, (Option.some.inj h).symm⟩

theorem step_start_eq {sc : Scenario} {st st' : St} {i : Nat} (h : step sc st (.start i) = some st') :
    st.raised = false ∧ i ∈ st.submitted ∧ ∃ p, sc.paths[i]? = some p ∧
      st' = { st with started := (i, sc.cfg.cacheSolver && checkUnsatCores p.q.asserts st.cores) :: st.started } := by
  simp only [step] at h
  split at h
  · exact absurd h (by simp)
  · rename_i hr
    split at h
    · rename_i hc
      split at h
      · rename_i p hp
        simp only [Bool.and_eq_true, List.contains_iff_mem] at hc
        exact ⟨by simpa using hr, hc.1, p, hp, (Option.some.inj h).symm⟩
      · exact absurd h (by simp)
    · exact absurd h (by simp)

theorem step_finish_eq {sc : Scenario} {st st' : St} {i : Nat} (h : step sc st (.finish i) = some st') :
    st.raised = false ∧ i ∉ st.finished ∧ ∃ hit p, (i, hit) ∈ st.started ∧ sc.paths[i]? = some p ∧
      st' = finishStep sc st i hit p.q := by
  simp only [step] at h
  split at h
  · exact absurd h (by simp)
  · rename_i hr
    split at h
    · exact absurd h (by simp)
    · rename_i hc
      split at h
      · rename_i j hit p hf hp
        have hj : j = i := by simpa using List.find?_some hf
        subst hj
        exact ⟨by simpa using hr, by simpa using hc, hit, p, List.mem_of_find?_eq_some hf, hp,
          (Option.some.inj h).symm⟩
      · exact absurd h (by simp)

theorem run_induction {sc : Scenario} {P : St → Prop}
    (hstep : ∀ st e st', P st → step sc st e = some st' → P st') :
    ∀ (sched : List Ev) (st0 st : St), P st0 → run sc st0 sched = some st → P st := by
  intro sched
  induction sched with
  | nil => intro st0 st h0 h; simp only [run] at h; cases h; exact h0
  | cons e es ih =>
    intro st0 st h0 h
    simp only [run] at h
    split at h
    · rename_i st1 h1
      exact ih st1 st (hstep st0 e st1 h0 h1) h
    · exact absurd h (by simp)

theorem Inv1.step {sc : Scenario} {st st' : St} {e : Ev} (hI : Inv1 sc st) (h : step sc st e = some st') :
    Inv1 sc st' := by
  cases e with
  | main =>
    obtain ⟨hm, rfl⟩ := step_main_eq h
    exact hI.main hm
  | start i =>
    obtain ⟨_, _, p, _, rfl⟩ := step_start_eq h
    obtain ⟨h1, h2, h3, h4⟩ := hI
    exact ⟨h1, h2, h3, h4⟩
  | finish i =>
    obtain ⟨hr, _, hit, p, _, _, rfl⟩ := step_finish_eq h
    obtain ⟨h1, h2, h3, h4⟩ := hI
    unfold finishStep
    constructor
    · exact h1
    · intro hs
      simp only [Bool.or_eq_true, Bool.and_eq_true, beq_iff_eq] at hs
      rcases hs with hs | ⟨he, hsat⟩
      · exact ⟨(h2 hs).1, List.mem_cons_of_mem _ (h2 hs).2⟩
      · exact ⟨he, by rw [hsat]; exact List.mem_cons_self⟩
    · intro hr'
      exact absurd hr' (by simp only [hr]; decide)
    · intro hm
      rcases h4 hm with h | h | h
      · exact Or.inl h
      · exact Or.inr (Or.inl (by simp only [h, Bool.true_or]))
      · exact Or.inr (Or.inr h)

theorem Inv1.run {sc : Scenario} {sched : List Ev} {st : St} (h : run sc St.init sched = some st) : Inv1 sc st :=
  run_induction (P := Inv1 sc) (fun _ _ _ hI hs => hI.step hs) sched St.init st (Inv1.init sc) h

/-- shutdown happens only under --early-exit and only after a valid counterexample was recorded -/
theorem shutdown_cause (sc : Scenario) (sched : List Ev) (st : St) (hrun : run sc St.init sched = some st)
    (hs : st.shutdown = true) : sc.cfg.earlyExit = true ∧ Res.sat true ∈ st.outputs :=
  (Inv1.run hrun).sd hs

/-- an exception can escape only (i) from a stuck confirmation that raises by itself or (ii) after an early exit -/
theorem raised_cause (sc : Scenario) (sched : List Ev) (st : St) (hrun : run sc St.init sched = some st)
    (hr : st.raised = true) :
    (∃ p ∈ stuckPaths sc, confirmRaises sc.cfg.cacheSolver p = true) ∨
      (st.shutdown = true ∧ sc.cfg.earlyExit = true ∧ stuckPaths sc ≠ []) :=
  ((Inv1.run hrun).raised_md hr).2

/-! ## The main-thread invariant -/

/-- the reference result of the query of a path -/
def refRes (sc : Scenario) (p : Path) : Res := getSolverOutput sc.cfg.cacheSolver false false p.q

/-- the reference result of the query of path `i` -/
def refAt (sc : Scenario) (i : Nat) : Res :=
  match sc.paths[i]? with
  | some p => refRes sc p
  | none => .err

theorem take_succ_of_getElem? {α : Type} {l : List α} {n : Nat} {a : α} (h : l[n]? = some a) :
    l.take (n + 1) = l.take n ++ [a] := by
  rw [List.take_add_one, h]; rfl

structure Inv2 (sc : Scenario) (st : St) : Prop where
  sub_pot : ∀ i ∈ st.submitted, i < st.pc ∧ ∃ p, sc.paths[i]? = some p ∧ classify p.obs = .potential
  sub_nodup : st.submitted.Nodup
  sub_map : st.submitted.map (refAt sc) =
    ((sc.paths.take st.pc).filter (fun p => classify p.obs == .potential)).map (refRes sc)
  normal_eq : st.normal = (sc.paths.take st.pc).countP (fun p => classify p.obs == .normal)
  stuck_eq : st.shutdown = false → st.stuck =
    ((sc.paths.take st.pc).filter (fun p => classify p.obs == .confirmStuck)).countP (confirmsStuck sc.cfg.cacheSolver)
  noraise : st.shutdown = false →
    ∀ p ∈ (sc.paths.take st.pc).filter (fun p => classify p.obs == .confirmStuck),
      confirmRaises sc.cfg.cacheSolver p = false

theorem Inv2.init (sc : Scenario) : Inv2 sc St.init := by
  constructor <;> simp [St.init]

theorem Inv2.main {sc : Scenario} {st : St} (hI : Inv2 sc st) (hJ : Inv1 sc st) :
    Inv2 sc (mainStep sc st) := by
  obtain ⟨h1, h2, h3, h4, h5, h6⟩ := hI
  unfold mainStep
  split
  · exact ⟨h1, h2, h3, h4, h5, h6⟩
  · rename_i p hp
    have htake := take_succ_of_getElem? hp
    split
    · split
      · exact ⟨h1, h2, h3, h4, h5, h6⟩
      · split
        · rename_i hc
          have hra : refAt sc st.pc = refRes sc p := by simp only [refAt, hp]
          constructor
          · intro i hi
            simp only [List.mem_append, List.mem_singleton] at hi
            rcases hi with hi | rfl
            · have := h1 i hi; exact ⟨by simp only; omega, this.2⟩
            · exact ⟨by simp only; omega, p, hp, hc⟩
          · simp only [List.nodup_append, h2, List.nodup_cons, List.not_mem_nil, not_false_eq_true,
              List.nodup_nil, and_self, List.mem_singleton, true_and]
            intro a ha b hb; have := (h1 a ha).1; omega
          · simp only [htake, List.filter_append, List.map_append, List.filter_cons, List.filter_nil, hc, h3]
            simp [hra]
          · simp only [htake, List.countP_append, List.countP_cons, List.countP_nil, hc]
            simp; exact h4
          · simp only [htake, List.filter_append, List.countP_append, List.filter_cons, List.filter_nil, hc]
            simpa using h5
          · simp only [htake, List.filter_append, List.filter_cons, List.filter_nil, hc]
            simpa using h6
        · exact ⟨h1, h2, h3, h4, h5, h6⟩
        · rename_i hc
          constructor
          · intro i hi; have := h1 i hi; exact ⟨by simp only; omega, this.2⟩
          · exact h2
          · simp only [htake, List.filter_append, List.map_append, List.filter_cons, List.filter_nil, hc]
            simpa using h3
          · simp only [htake, List.countP_append, List.countP_cons, List.countP_nil, hc]
            simp; exact h4
          · simp only [htake, List.filter_append, List.countP_append, List.filter_cons, List.filter_nil, hc]
            simpa using h5
          · simp only [htake, List.filter_append, List.filter_cons, List.filter_nil, hc]
            simpa using h6
        · rename_i hc
          constructor
          · intro i hi; have := h1 i hi; exact ⟨by simp only; omega, this.2⟩
          · exact h2
          · simp only [htake, List.filter_append, List.map_append, List.filter_cons, List.filter_nil, hc]
            simpa using h3
          · simp only [htake, List.countP_append, List.countP_cons, List.countP_nil, hc]
            simpa using h4
          · simp only [htake, List.filter_append, List.countP_append, List.filter_cons, List.filter_nil, hc]
            simpa using h5
          · simp only [htake, List.filter_append, List.filter_cons, List.filter_nil, hc]
            simpa using h6
    · split <;> exact ⟨h1, h2, h3, h4, h5, h6⟩
    · rename_i hph
      have hne : st.phase ≠ .top := by rw [hph]; decide
      obtain ⟨p', hp', hc⟩ := hJ.phase_stuck hne
      have hpp : p' = p := by rw [hp] at hp'; exact (Option.some.inj hp').symm
      subst hpp
      split
      · rename_i hsd
        split
        · exact ⟨h1, h2, h3, h4, h5, h6⟩
        · constructor
          · intro i hi; have := h1 i hi; exact ⟨by simp only; omega, this.2⟩
          · exact h2
          · simp only [htake, List.filter_append, List.map_append, List.filter_cons, List.filter_nil, hc]
            simpa using h3
          · simp only [htake, List.countP_append, List.countP_cons, List.countP_nil, hc]
            simpa using h4
          · intro h; simp only [hsd] at h; exact absurd h (by decide)
          · intro h; simp only [hsd] at h; exact absurd h (by decide)
      · split
        · exact ⟨h1, h2, h3, h4, h5, h6⟩
        · rename_i core hs
          have hcs : confirmsStuck sc.cfg.cacheSolver p' = false := by simp only [confirmsStuck, hs]
          have hcr : confirmRaises sc.cfg.cacheSolver p' = false := by simp only [confirmRaises, hs]; rfl
          constructor
          · intro i hi; have := h1 i hi; exact ⟨by simp only; omega, this.2⟩
          · exact h2
          · simp only [htake, List.filter_append, List.map_append, List.filter_cons, List.filter_nil, hc]
            simpa using h3
          · simp only [htake, List.countP_append, List.countP_cons, List.countP_nil, hc]
            simpa using h4
          · simp only [htake, List.filter_append, List.countP_append, List.filter_cons, List.filter_nil, hc]
            simpa [hcs] using h5
          · intro hsd q hq
            simp only [htake, List.filter_append, List.filter_cons, List.filter_nil, hc, beq_self_eq_true,
              if_true, List.mem_append, List.mem_singleton] at hq
            rcases hq with hq | rfl
            · exact h6 hsd q hq
            · exact hcr
        · rename_i r hnu hs
          have hcs : confirmsStuck sc.cfg.cacheSolver p' = true := by
            simp only [confirmsStuck, hs]
            split
            · rename_i core heq; exact absurd (Option.some.inj heq) (hnu core)
            · rfl
          have hcr : confirmRaises sc.cfg.cacheSolver p' = false := by simp only [confirmRaises, hs]; rfl
          constructor
          · intro i hi; have := h1 i hi; exact ⟨by simp only; omega, this.2⟩
          · exact h2
          · simp only [htake, List.filter_append, List.map_append, List.filter_cons, List.filter_nil, hc]
            simpa using h3
          · simp only [htake, List.countP_append, List.countP_cons, List.countP_nil, hc]
            simpa using h4
          · simp only [htake, List.filter_append, List.countP_append, List.filter_cons, List.filter_nil, hc]
            simpa [hcs] using h5
          · intro hsd q hq
            simp only [htake, List.filter_append, List.filter_cons, List.filter_nil, hc, beq_self_eq_true,
              if_true, List.mem_append, List.mem_singleton] at hq
            rcases hq with hq | rfl
            · exact h6 hsd q hq
            · exact hcr

theorem Inv2.step {sc : Scenario} {st st' : St} {e : Ev} (hI : Inv2 sc st) (hJ : Inv1 sc st)
    (h : step sc st e = some st') : Inv2 sc st' := by
  cases e with
  | main =>
    obtain ⟨_, rfl⟩ := step_main_eq h
    exact hI.main hJ
  | start i =>
    obtain ⟨_, _, p, _, rfl⟩ := step_start_eq h
    obtain ⟨h1, h2, h3, h4, h5, h6⟩ := hI
    exact ⟨h1, h2, h3, h4, h5, h6⟩
  | finish i =>
    obtain ⟨_, _, hit, p, _, _, rfl⟩ := step_finish_eq h
    obtain ⟨h1, h2, h3, h4, h5, h6⟩ := hI
    unfold finishStep
    refine ⟨h1, h2, h3, h4, ?_, ?_⟩
    · intro hs
      simp only [Bool.or_eq_false_iff] at hs
      exact h5 hs.1
    · intro hs
      simp only [Bool.or_eq_false_iff] at hs
      exact h6 hs.1

/-! ## The worker invariant -/

/-- unsat cores reported by the solver are sound for the queries of this test: a non-empty core returned for one
potential query is contained only in the assertions of potential queries that the solver itself answers unsat -/
def CoresConsistent (sc : Scenario) : Prop :=
  ∀ p ∈ potentialPaths sc, ∀ core, solveEndToEnd sc.cfg.cacheSolver false p.q = some (.unsat core) → core ≠ [] →
    ∀ p' ∈ potentialPaths sc, (core.all (fun c => p'.q.asserts.contains c)) = true →
      ∃ core', solveEndToEnd sc.cfg.cacheSolver false p'.q = some (.unsat core')

theorem mainStep_frame (sc : Scenario) (st : St) :
    (mainStep sc st).started = st.started ∧ (mainStep sc st).finished = st.finished ∧
    (mainStep sc st).outputs = st.outputs ∧ (mainStep sc st).cores = st.cores ∧
    (mainStep sc st).shutdown = st.shutdown ∧ ∀ i ∈ st.submitted, i ∈ (mainStep sc st).submitted := by
  unfold mainStep
  (repeat' split) <;> simp <;> (intro i hi; exact Or.inl hi)

theorem getSolverOutput_hit (c : Bool) (q : Query) : getSolverOutput c false true q = .unsat [] := by
  simp [getSolverOutput, solveEndToEnd]

theorem getSolverOutput_unsat_core {c sd hit : Bool} {q : Query} {core : List Nat}
    (h : getSolverOutput c sd hit q = .unsat core) (hne : core ≠ []) :
    solveEndToEnd c false q = some (.unsat core) := by
  cases sd
  · cases hit
    · simp only [getSolverOutput, Bool.false_eq_true, if_false] at h
      split at h
      · exact absurd h (by simp)
      · rename_i r hr; rw [hr, h]
    · rw [getSolverOutput_hit] at h
      exact absurd (Res.unsat.inj h).symm hne
  · simp [getSolverOutput] at h

theorem getSolverOutput_sat {c sd hit : Bool} {q : Query} {v : Bool}
    (h : getSolverOutput c sd hit q = .sat v) : getSolverOutput c false false q = .sat v ∧ sd = false := by
  cases sd
  · cases hit
    · exact ⟨h, rfl⟩
    · rw [getSolverOutput_hit] at h
      exact absurd h (by simp)
  · simp [getSolverOutput] at h

structure Inv3 (sc : Scenario) (st : St) : Prop where
  started_inv : ∀ e ∈ st.started, e.1 ∈ st.submitted ∧ (e.2 = true → (refAt sc e.1).kind = .unsat)
  fin_sub : ∀ i ∈ st.finished, i ∈ st.submitted
  fin_nodup : st.finished.Nodup
  out_len : st.outputs.length = st.finished.length
  out_kind : st.shutdown = false → st.outputs.map Res.kind = st.finished.map (fun i => (refAt sc i).kind)
  cores_inv : ∀ c ∈ st.cores, c ≠ [] ∧
    ∃ p ∈ potentialPaths sc, solveEndToEnd sc.cfg.cacheSolver false p.q = some (.unsat c)
  sat_out : Res.sat true ∈ st.outputs → ∃ p ∈ potentialPaths sc, refRes sc p = .sat true

theorem Inv3.init (sc : Scenario) : Inv3 sc St.init := by
  constructor <;> simp [St.init]

theorem Inv3.step {sc : Scenario} (hcons : CoresConsistent sc) {st st' : St} {e : Ev} (hI : Inv3 sc st)
    (hK : Inv2 sc st) (h : step sc st e = some st') : Inv3 sc st' := by
  obtain ⟨h1, h2, h3, h3', h4, h5, h6⟩ := hI
  cases e with
  | main =>
    obtain ⟨_, rfl⟩ := step_main_eq h
    obtain ⟨f1, f2, f3, f4, f5, f6⟩ := mainStep_frame sc st
    constructor
    · rw [f1]; intro e he; exact ⟨f6 _ (h1 e he).1, (h1 e he).2⟩
    · rw [f2]; intro i hi; exact f6 _ (h2 i hi)
    · rw [f2]; exact h3
    · rw [f2, f3]; exact h3'
    · rw [f2, f3, f5]; exact h4
    · rw [f4]; exact h5
    · rw [f3]; exact h6
  | start i =>
    obtain ⟨_, hsub, p, hp, rfl⟩ := step_start_eq h
    refine ⟨?_, h2, h3, h3', h4, h5, h6⟩
    intro e he
    simp only [List.mem_cons] at he
    rcases he with rfl | he
    · refine ⟨hsub, ?_⟩
      intro hhit
      simp only [Bool.and_eq_true, checkUnsatCores, List.any_eq_true] at hhit
      obtain ⟨_, core, hcm, hall⟩ := hhit
      obtain ⟨hne, p0, hp0, hs0⟩ := h5 core hcm
      obtain ⟨_, p', hp', hc'⟩ := hK.sub_pot i hsub
      have hpp : p' = p := by rw [hp] at hp'; exact (Option.some.inj hp').symm
      subst hpp
      have hpm : p' ∈ potentialPaths sc := mem_potentialPaths.mpr ⟨List.mem_of_getElem? hp, hc'⟩
      obtain ⟨core', hcore'⟩ := hcons p0 hp0 core hs0 hne p' hpm hall
      simp only [refAt, hp, refRes, getSolverOutput, hcore', Bool.false_eq_true, if_false, Res.kind]
    · exact h1 e he
  | finish i =>
    obtain ⟨_, hnf, hit, p, hst, hp, rfl⟩ := step_finish_eq h
    have hsub : i ∈ st.submitted := (h1 _ hst).1
    obtain ⟨_, p', hp', hc'⟩ := hK.sub_pot i hsub
    have hpp : p' = p := by rw [hp] at hp'; exact (Option.some.inj hp').symm
    subst hpp
    have hpm : p' ∈ potentialPaths sc := mem_potentialPaths.mpr ⟨List.mem_of_getElem? hp, hc'⟩
    unfold finishStep
    constructor
    · exact h1
    · intro j hj
      simp only [List.mem_cons] at hj
      rcases hj with rfl | hj
      · exact hsub
      · exact h2 j hj
    · exact List.nodup_cons.mpr ⟨hnf, h3⟩
    · simp only [List.length_cons, h3']
    · intro hs
      simp only [Bool.or_eq_false_iff] at hs
      simp only [List.map_cons, h4 hs.1, hs.1]
      congr 1
      have hra : refAt sc i = refRes sc p' := by simp only [refAt, hp]
      cases hit
      · rw [hra]; rfl
      · rw [getSolverOutput_hit, (h1 _ hst).2 rfl]; rfl
    · intro c hc
      simp only at hc
      split at hc
      · rename_i core hr
        split at hc
        · exact h5 c hc
        · rename_i hne
          simp only [List.mem_append, List.mem_singleton] at hc
          rcases hc with hc | rfl
          · exact h5 c hc
          · have hne' : c ≠ [] := by simpa using hne
            exact ⟨hne', p', hpm, getSolverOutput_unsat_core hr hne'⟩
      · exact h5 c hc
    · intro hm
      simp only [List.mem_cons] at hm
      rcases hm with hm | hm
      · exact ⟨p', hpm, (getSolverOutput_sat hm.symm).1⟩
      · exact h6 hm

/-! ## The invariant over `run` -/

structure Inv (sc : Scenario) (st : St) : Prop where
  i1 : Inv1 sc st
  i2 : Inv2 sc st
  i3 : Inv3 sc st

theorem Inv.run {sc : Scenario} (hcons : CoresConsistent sc) {sched : List Ev} {st : St}
    (h : run sc St.init sched = some st) : Inv sc st :=
  run_induction (P := Inv sc)
    (fun _ _ _ hI hs => ⟨hI.i1.step hs, hI.i2.step hI.i1 hs, hI.i3.step hcons hI.i2 hs⟩)
    sched St.init st ⟨Inv1.init sc, Inv2.init sc, Inv3.init sc⟩ h

theorem countKind_pos_of_mem {outs : List Res} {r : Res} (h : r ∈ outs) : 0 < countKind r.kind outs := by
  unfold countKind
  exact List.countP_pos_iff.mpr ⟨r, h, by simp⟩

theorem verdictOf_of_sat {outs : List Res} {v : Bool} (h : Res.sat v ∈ outs) (s n : Nat) :
    verdictOf outs s n = .counterexample := by
  have := countKind_pos_of_mem h
  simp only [Res.kind] at this
  simp only [verdictOf_eq, this, if_true]

theorem refVerdict_of_noraise {sc : Scenario}
    (hR : ∀ p ∈ stuckPaths sc, confirmRaises sc.cfg.cacheSolver p = false) :
    refVerdict sc = verdictOf (refOutputs sc) (refStuck sc) (normalCount sc) := by
  have : (stuckPaths sc).any (confirmRaises sc.cfg.cacheSolver) = false := by
    rw [List.any_eq_false]; intro p hp; simp [hR p hp]
  simp only [refVerdict, this, Bool.false_eq_true, if_false]

theorem refVerdict_of_raise {sc : Scenario} {p : Path} (hp : p ∈ stuckPaths sc)
    (hr : confirmRaises sc.cfg.cacheSolver p = true) : refVerdict sc = .exception := by
  have : (stuckPaths sc).any (confirmRaises sc.cfg.cacheSolver) = true := List.any_eq_true.mpr ⟨p, hp, hr⟩
  simp only [refVerdict, this, if_true, exitOfName_exception]

theorem verdict_of_raised {st : St} (h : st.raised = true) : st.verdict = .exception := by
  simp only [St.verdict, h, if_true, exitOfName_exception]

theorem refOutputs_eq (sc : Scenario) : refOutputs sc = (potentialPaths sc).map (refRes sc) := rfl

/-- a complete, non-raised execution in which the executor was never shut down computes the reference verdict -/
theorem verdict_eq_ref_of_not_shutdown {sc : Scenario} {st : St} (hI : Inv sc st) (hdone : st.done = true)
    (hnr : st.raised = false) (hns : st.shutdown = false) : st.verdict = refVerdict sc := by
  obtain ⟨h1, h2, h3⟩ := hI
  simp only [St.done, hnr, Bool.false_or, Bool.and_eq_true, List.all_eq_true, List.contains_iff_mem] at hdone
  obtain ⟨hmd, hall⟩ := hdone
  have hpc : sc.paths.length ≤ st.pc := by
    rcases h1.md hmd with h | h | h
    · rw [hnr] at h; exact absurd h (by decide)
    · rw [hns] at h; exact absurd h (by decide)
    · exact h
  have htake : sc.paths.take st.pc = sc.paths := List.take_of_length_le hpc
  have hR : ∀ p ∈ stuckPaths sc, confirmRaises sc.cfg.cacheSolver p = false := by
    have := h2.noraise hns
    rw [htake] at this
    exact this
  have hnormal : st.normal = normalCount sc := by
    have := h2.normal_eq
    rw [htake] at this
    exact this
  have hstuck : st.stuck = refStuck sc := by
    have := h2.stuck_eq hns
    rw [htake] at this
    exact this
  have hsubmap : st.submitted.map (refAt sc) = refOutputs sc := by
    have := h2.sub_map
    rw [htake] at this
    exact this
  have hperm : st.finished.Perm st.submitted :=
    (List.perm_ext_iff_of_nodup h3.fin_nodup h2.sub_nodup).mpr
      (fun a => ⟨h3.fin_sub a, hall a⟩)
  have hk : (st.outputs.map Res.kind).Perm ((refOutputs sc).map Res.kind) := by
    rw [h3.out_kind hns, ← hsubmap, List.map_map]
    exact hperm.map _
  rw [refVerdict_of_noraise hR]
  simp only [St.verdict, hnr, Bool.false_eq_true, if_false, hnormal, hstuck]
  exact verdictOf_congr_kinds hk _ _

/-- (B) with or without --early-exit (cores consistent, and no stuck confirmation whose solver call raises):
a complete schedule from which no exception escaped yields the reference verdict -/
theorem verdict_eq_ref_of_not_raised (sc : Scenario) (hcons : CoresConsistent sc)
    (hR : ∀ p ∈ stuckPaths sc, confirmRaises sc.cfg.cacheSolver p = false)
    (sched : List Ev) (st : St) (hrun : run sc St.init sched = some st) (hdone : st.done = true)
    (hnr : st.raised = false) : st.verdict = refVerdict sc := by
  have hI := Inv.run hcons hrun
  cases hs : st.shutdown
  · exact verdict_eq_ref_of_not_shutdown hI hdone hnr hs
  · have hsat := (hI.i1.sd hs).2
    obtain ⟨p, hp, hpr⟩ := hI.i3.sat_out hsat
    have hmem : Res.sat true ∈ refOutputs sc := by
      rw [refOutputs_eq, ← hpr]; exact List.mem_map_of_mem hp
    rw [refVerdict_of_noraise hR, verdictOf_of_sat hmem]
    simp only [St.verdict, hnr, Bool.false_eq_true, if_false]
    exact verdictOf_of_sat hsat _ _

theorem verdictOfSchedule_some {sc : Scenario} {sched : List Ev} {v : Exitcode}
    (h : verdictOfSchedule sc sched = some v) :
    ∃ st, run sc St.init sched = some st ∧ st.done = true ∧ v = st.verdict := by
  unfold verdictOfSchedule at h
  cases hrun : run sc St.init sched with
  | none => rw [hrun] at h; exact absurd h (by simp)
  | some st =>
    rw [hrun] at h
    simp only at h
    split at h
    · rename_i hd
      exact ⟨st, rfl, hd, (Option.some.inj h).symm⟩
    · exact absurd h (by simp)

/-- (A') without --early-exit every complete schedule yields the reference verdict when the cores are consistent
(cacheSolver may be true or false) -/
theorem verdict_eq_ref_noEarly (sc : Scenario) (hE : sc.cfg.earlyExit = false) (hcons : CoresConsistent sc)
    (sched : List Ev) (v : Exitcode) (h : verdictOfSchedule sc sched = some v) : v = refVerdict sc := by
  obtain ⟨st, hrun, hdone, rfl⟩ := verdictOfSchedule_some h
  have hI := Inv.run hcons hrun
  have hns : st.shutdown = false := by
    cases hs : st.shutdown
    · rfl
    · have := (hI.i1.sd hs).1; rw [hE] at this; exact absurd this (by decide)
  cases hr : st.raised
  · exact verdict_eq_ref_of_not_shutdown hI hdone hr hns
  · rw [verdict_of_raised hr]
    rcases (hI.i1.raised_md hr).2 with ⟨p, hp, hpr⟩ | ⟨hs, _, _⟩
    · exact (refVerdict_of_raise hp hpr).symm
    · rw [hns] at hs; exact absurd hs (by decide)

theorem solveLowLevel_noCache_core {pr : Proc} {core : List Nat}
    (h : solveLowLevel false pr = some (.unsat core)) : core = [] := by
  cases pr with
  | exited out rc c =>
    simp only [solveLowLevel, fromResult] at h
    split at h
    · simpa using (Res.unsat.inj (Option.some.inj h)).symm
    · exact absurd (Option.some.inj h) (by simp)
    · exact absurd (Option.some.inj h) (by simp)
    · exact absurd (Option.some.inj h) (by simp)
  | timedOut =>
    simp only [solveLowLevel, timeoutRes_eq] at h
    exact absurd (Option.some.inj h) (by simp)
  | raised => simp [solveLowLevel] at h

theorem solveEndToEnd_noCache_core {q : Query} {core : List Nat}
    (h : solveEndToEnd false false q = some (.unsat core)) : core = [] := by
  simp only [solveEndToEnd, Bool.false_eq_true, if_false] at h
  split at h
  · exact absurd h (by simp)
  · split at h
    · exact solveLowLevel_noCache_core h
    · exact absurd (Option.some.inj h) (by simp)
  · rename_i r _ hr
    rw [h] at hr
    exact solveLowLevel_noCache_core hr

/-- without --cache-solver no core is ever reported, so the consistency hypothesis holds trivially -/
theorem coresConsistent_of_noCache (sc : Scenario) (hC : sc.cfg.cacheSolver = false) : CoresConsistent sc := by
  intro p _ core hs hne
  rw [hC] at hs
  exact absurd (solveEndToEnd_noCache_core hs) hne

/-- (A) without --early-exit and without --cache-solver every complete schedule yields the reference verdict -/
theorem verdict_eq_ref_noEarly_noCache (sc : Scenario) (hE : sc.cfg.earlyExit = false)
    (hC : sc.cfg.cacheSolver = false) (sched : List Ev) (v : Exitcode)
    (h : verdictOfSchedule sc sched = some v) : v = refVerdict sc :=
  verdict_eq_ref_noEarly sc hE (coresConsistent_of_noCache sc hC) sched v h

/-- (C) consequence: no stuck-class path ⇒ every complete schedule, early exit or not, yields the reference verdict -/
theorem verdict_eq_ref_noStuck (sc : Scenario) (hcons : CoresConsistent sc) (hS : stuckPaths sc = [])
    (sched : List Ev) (v : Exitcode) (h : verdictOfSchedule sc sched = some v) : v = refVerdict sc := by
  obtain ⟨st, hrun, hdone, rfl⟩ := verdictOfSchedule_some h
  have hnr : st.raised = false := by
    cases hr : st.raised
    · rfl
    · rcases raised_cause sc sched st hrun hr with ⟨p, hp, _⟩ | ⟨_, _, hne⟩
      · rw [hS] at hp; exact absurd hp (by simp)
      · exact absurd hS hne
  exact verdict_eq_ref_of_not_raised sc hcons (by rw [hS]; intro p hp; exact absurd hp (by simp))
    sched st hrun hdone hnr

/-- under --early-exit, whenever the reference verdict is COUNTEREXAMPLE because some potential query has a VALID model,
every complete schedule yields COUNTEREXAMPLE or (an exception escaped) EXCEPTION — never PASS or anything else -/
theorem early_exit_fail_or_exception (sc : Scenario) (hcons : CoresConsistent sc)
    (hR : ∀ p ∈ stuckPaths sc, confirmRaises sc.cfg.cacheSolver p = false)
    (hsat : ∃ p ∈ potentialPaths sc, getSolverOutput sc.cfg.cacheSolver false false p.q = .sat true)
    (sched : List Ev) (v : Exitcode) (h : verdictOfSchedule sc sched = some v) :
    v = .counterexample ∨ v = .exception := by
  obtain ⟨st, hrun, hdone, rfl⟩ := verdictOfSchedule_some h
  cases hr : st.raised
  · left
    rw [verdict_eq_ref_of_not_raised sc hcons hR sched st hrun hdone hr, refVerdict_of_noraise hR]
    obtain ⟨p, hp, hpr⟩ := hsat
    have hmem : Res.sat true ∈ refOutputs sc := by
      rw [refOutputs_eq, ← hpr]; exact List.mem_map_of_mem (f := refRes sc) hp
    exact verdictOf_of_sat hmem _ _
  · right
    exact verdict_of_raised hr

/-! ## Non-vacuity -/

/-- the hypotheses of (B) / `early_exit_fail_or_exception` hold of the `race` witness (early exit, a stuck path, a valid
counterexample), whose schedules `raceAfter` (COUNTEREXAMPLE) and `raceDuring` (EXCEPTION) realise both outcomes -/
example : CoresConsistent Witness.race ∧
    (∀ p ∈ stuckPaths Witness.race, confirmRaises Witness.race.cfg.cacheSolver p = false) ∧
    (∃ p ∈ potentialPaths Witness.race, getSolverOutput Witness.race.cfg.cacheSolver false false p.q = .sat true) ∧
    verdictOfSchedule Witness.race Witness.raceAfter = some .counterexample ∧
    verdictOfSchedule Witness.race Witness.raceDuring = some .exception :=
  ⟨coresConsistent_of_noCache _ rfl, by decide, by decide, by decide, by decide⟩

/-- `CoresConsistent` is a real restriction: it fails of the `cacheLie` witness, where the two complete schedules
disagree -/
example : ¬ CoresConsistent Witness.cacheLie ∧
    verdictOfSchedule Witness.cacheLie Witness.cacheLieFirst ≠ verdictOfSchedule Witness.cacheLie Witness.cacheLieSecond := by
  refine ⟨?_, by decide⟩
  intro h
  obtain ⟨core', hc⟩ := h ⟨Witness.obsPanic, Witness.mkQ [7] (.exited Witness.unsatOut 0 [7])⟩ (by decide) [7]
    (by decide) (by decide) ⟨Witness.obsPanic, Witness.mkQ [7, 8] (.exited Witness.satOut 0 [])⟩ (by decide) (by decide)
  have : solveEndToEnd Witness.cacheLie.cfg.cacheSolver false (Witness.mkQ [7, 8] (.exited Witness.satOut 0 [])) =
      some (.sat true) := by decide
  rw [this] at hc
  exact absurd (Option.some.inj hc) (by simp)

end HalmosVerif.Model.Verdict
