/-
Lemmas.VerdictSpec — the schedule-free verdict of the model against the property's own words (Spec.Verdict):
they agree on every scenario except in the two situations isolated by `Deviates` / a raising stuck confirmation.
-/
import HalmosVerif.Lemmas.Verdict

namespace HalmosVerif.Model.Verdict

open HalmosVerif Spec.Verdict

/-- a potential violation whose solver call failed -/
def isVFailed : Outcome → Bool
  | .violation .failed => true | _ => false

/-- a stuck path that the solver did not show infeasible -/
def isStuckErr : Outcome → Bool
  | .stuck .unsat => false | .stuck _ => true | _ => false

theorem isError_eq (o : Outcome) : o.isError = (isVFailed o || isStuckErr o) := by
  cases o with
  | success => rfl
  | revert => rfl
  | violation a => cases a <;> rfl
  | stuck a => cases a <;> rfl

theorem any_isError (os : List Outcome) : os.any Outcome.isError = (os.any isVFailed || os.any isStuckErr) := by
  induction os with
  | nil => rfl
  | cons o t ih =>
    simp only [List.any_cons, ih, isError_eq]
    cases isVFailed o <;> cases isStuckErr o <;> cases t.any isVFailed <;> cases t.any isStuckErr <;> rfl

/-- the situation in which the if-chain of `run_test` reports TIMEOUT although the property says ERROR -/
def Deviates (os : List Outcome) : Bool :=
  os.any Outcome.isTimeout && !os.any Outcome.isCex && !os.any isVFailed && (os.any isStuckErr || !os.any Outcome.isSuccess)

theorem kind_of_getSolverOutput (c : Bool) (q : Query) :
    (getSolverOutput c false false q).kind =
      match answerOfRes (solveEndToEnd c false q) with
      | .cex => .sat | .unsat => .unsat | .timeout => .unknown | .failed => .err := by
  unfold getSolverOutput
  simp only [Bool.false_eq_true, if_false]
  cases h : solveEndToEnd c false q with
  | none => rfl
  | some r => cases r <;> rfl

theorem countKind_ref_pos_iff (sc : Scenario) (k : RKind) :
    0 < countKind k (refOutputs sc) ↔
      ∃ p ∈ sc.paths, classify p.obs = .potential ∧ (getSolverOutput sc.cfg.cacheSolver false false p.q).kind = k := by
  rw [countKind_pos_iff]
  constructor
  · rintro ⟨r, hr, hk⟩
    obtain ⟨p, hp, rfl⟩ := List.mem_map.mp hr
    obtain ⟨hp1, hp2⟩ := mem_potentialPaths.mp hp
    exact ⟨p, hp1, hp2, hk⟩
  · rintro ⟨p, hp1, hp2, hk⟩
    exact ⟨_, List.mem_map.mpr ⟨p, mem_potentialPaths.mpr ⟨hp1, hp2⟩, rfl⟩, hk⟩

theorem any_outcomes_iff (sc : Scenario) (g : Outcome → Bool) :
    (outcomesOf sc).any g = true ↔ ∃ p ∈ sc.paths, g (outcomeOf sc.cfg.cacheSolver p) = true := by
  unfold outcomesOf
  rw [List.any_map, List.any_eq_true]
  rfl

/-- per path: the Spec predicate on its outcome ↔ (potential ∧ recorded kind) -/
theorem pot_kind_iff (c : Bool) (p : Path) :
    (Outcome.isCex (outcomeOf c p) = true ↔ classify p.obs = .potential ∧ (getSolverOutput c false false p.q).kind = .sat) ∧
    (isVFailed (outcomeOf c p) = true ↔ classify p.obs = .potential ∧ (getSolverOutput c false false p.q).kind = .err) ∧
    (Outcome.isTimeout (outcomeOf c p) = true ↔
        classify p.obs = .potential ∧ (getSolverOutput c false false p.q).kind = .unknown) := by
  rw [kind_of_getSolverOutput]
  unfold outcomeOf
  cases hc : classify p.obs <;> simp only [Outcome.isCex, isVFailed, Outcome.isTimeout]
  · cases answerOfRes (solveEndToEnd c false p.q) <;> simp
  all_goals simp

theorem stuck_iff (c : Bool) (p : Path) :
    isStuckErr (outcomeOf c p) = true ↔ classify p.obs = .confirmStuck ∧ confirmsStuck c p = true := by
  unfold outcomeOf confirmsStuck
  cases hc : classify p.obs <;> simp only [isStuckErr]
  · simp
  · cases h : solveLowLevel c p.q.first with
    | none => simp [answerOfRes]
    | some r => cases r <;> simp [answerOfRes]
  all_goals simp

theorem success_iff (c : Bool) (p : Path) :
    Outcome.isSuccess (outcomeOf c p) = true ↔ classify p.obs = .normal := by
  unfold outcomeOf
  cases hc : classify p.obs <;> simp [Outcome.isSuccess]

theorem refStuck_pos_iff (sc : Scenario) : 0 < refStuck sc ↔ (outcomesOf sc).any isStuckErr = true := by
  rw [any_outcomes_iff]
  unfold refStuck
  rw [List.countP_pos_iff]
  constructor
  · rintro ⟨p, hp, hs⟩
    obtain ⟨hp1, hp2⟩ := mem_stuckPaths.mp hp
    exact ⟨p, hp1, (stuck_iff _ p).mpr ⟨hp2, hs⟩⟩
  · rintro ⟨p, hp, hs⟩
    obtain ⟨h1, h2⟩ := (stuck_iff _ p).mp hs
    exact ⟨p, mem_stuckPaths.mpr ⟨hp, h1⟩, h2⟩

theorem normalCount_pos_iff (sc : Scenario) : 0 < normalCount sc ↔ (outcomesOf sc).any Outcome.isSuccess = true := by
  rw [any_outcomes_iff]
  unfold normalCount
  rw [List.countP_pos_iff]
  constructor
  · rintro ⟨p, hp, hs⟩
    exact ⟨p, hp, (success_iff _ p).mpr (by simpa using hs)⟩
  · rintro ⟨p, hp, hs⟩
    exact ⟨p, hp, by simpa using (success_iff _ p).mp hs⟩

theorem ref_kind_iff (sc : Scenario) :
    (0 < countKind .sat (refOutputs sc) ↔ (outcomesOf sc).any Outcome.isCex = true) ∧
    (0 < countKind .err (refOutputs sc) ↔ (outcomesOf sc).any isVFailed = true) ∧
    (0 < countKind .unknown (refOutputs sc) ↔ (outcomesOf sc).any Outcome.isTimeout = true) := by
  refine ⟨?_, ?_, ?_⟩ <;> rw [countKind_ref_pos_iff, any_outcomes_iff]
  · exact ⟨fun ⟨p, hp, h⟩ => ⟨p, hp, (pot_kind_iff _ p).1.mpr h⟩, fun ⟨p, hp, h⟩ => ⟨p, hp, (pot_kind_iff _ p).1.mp h⟩⟩
  · exact ⟨fun ⟨p, hp, h⟩ => ⟨p, hp, (pot_kind_iff _ p).2.1.mpr h⟩, fun ⟨p, hp, h⟩ => ⟨p, hp, (pot_kind_iff _ p).2.1.mp h⟩⟩
  · exact ⟨fun ⟨p, hp, h⟩ => ⟨p, hp, (pot_kind_iff _ p).2.2.mpr h⟩, fun ⟨p, hp, h⟩ => ⟨p, hp, (pot_kind_iff _ p).2.2.mp h⟩⟩

/-- Outside the two isolated situations (a raising stuck confirmation; `Deviates`) the schedule-free verdict of the
model, read as PASS / FAIL / ERROR / TIMEOUT, is the verdict the property assigns to the list of per-path outcomes. -/
theorem refVerdict_cls_eq_spec (sc : Scenario)
    (hR : ∀ p ∈ stuckPaths sc, confirmRaises sc.cfg.cacheSolver p = false)
    (hD : Deviates (outcomesOf sc) = false) :
    (refVerdict sc).cls = Spec.Verdict.verdict (outcomesOf sc) := by
  rw [refVerdict_of_noraise hR, verdictOf_eq]
  obtain ⟨ha, hb, hc⟩ := ref_kind_iff sc
  have hd := refStuck_pos_iff sc
  have he := normalCount_pos_iff sc
  unfold Spec.Verdict.verdict
  rw [any_isError]
  unfold Deviates at hD
  generalize (outcomesOf sc).any Outcome.isCex = A at *
  generalize (outcomesOf sc).any isVFailed = B at *
  generalize (outcomesOf sc).any Outcome.isTimeout = C at *
  generalize (outcomesOf sc).any isStuckErr = D at *
  generalize (outcomesOf sc).any Outcome.isSuccess = E at *
  have hn : normalCount sc = 0 ↔ E = false := by
    constructor
    · intro h; cases E with
      | false => rfl
      | true => have := he.mpr rfl; omega
    · intro h; subst h
      cases hz : normalCount sc with
      | zero => rfl
      | succ n => have := he.mp (by omega); cases this
  cases A <;> cases B <;> cases C <;> cases D <;> cases E <;>
    simp_all [Exitcode.cls]

end HalmosVerif.Model.Verdict
