/-
Lemmas.WordArith — pure arithmetic facts used by the C06 proofs: two's complement (`toInt` / `ofInt`),
Python's `to_signed`, `is_power_of_two` / `bit_length`, modular exponentiation by squaring.
Core Lean only.
-/
import HalmosVerif.Model.BitVecOps

namespace HalmosVerif.Lemmas.Word
open HalmosVerif.Model HalmosVerif.Spec

theorem mod_eq_of_eq_add_mul {x r M : Nat} (k : Nat) (h : x = r + k * M) (hr : r < M) : x % M = r := by
  subst h; rw [Nat.add_mul_mod_self_right]; exact Nat.mod_eq_of_lt hr

theorem pow_lt_pow_two {a b : Nat} (h : a < b) : 2 ^ a < 2 ^ b :=
  Nat.pow_lt_pow_right (by decide) h

theorem pow_le_pow_two {a b : Nat} (h : a ≤ b) : 2 ^ a ≤ 2 ^ b :=
  Nat.pow_le_pow_right (by decide) h

/-- `2^(n-1) + 2^(n-1) = 2^n` for positive `n` -/
theorem two_pow_pred_add {n : Nat} (h : 0 < n) : 2 ^ (n - 1) + 2 ^ (n - 1) = 2 ^ n := by
  obtain ⟨m, rfl⟩ : ∃ m, n = m + 1 := ⟨n - 1, by omega⟩
  simp only [Nat.add_sub_cancel, Nat.pow_succ]; omega

/-! ### ofInt / toInt -/

theorem ofInt_eq {n : Nat} {i : Int} {r : Nat} (k : Int) (h : i = (r : Int) + k * ((2 ^ n : Nat) : Int))
    (hr : r < 2 ^ n) : ofInt n i = r := by
  subst h
  unfold ofInt
  rw [Int.add_mul_emod_self_right, Int.emod_eq_of_lt (by omega) (by omega)]
  rfl

theorem ofInt_lt (n : Nat) (i : Int) : ofInt n i < 2 ^ n := by
  unfold ofInt
  have hpos : (0 : Int) < ((2 ^ n : Nat) : Int) := by
    have := Nat.two_pow_pos n; omega
  have h1 := Int.emod_lt_of_pos i hpos
  have h2 := Int.emod_nonneg i (Int.ne_of_gt hpos)
  omega

theorem ofInt_natCast (n x : Nat) : ofInt n (x : Int) = x % 2 ^ n := by
  apply ofInt_eq ((x / 2 ^ n : Nat) : Int)
  · have := Nat.mod_add_div x (2 ^ n)
    rw [← Int.natCast_mul, ← Int.natCast_add, Nat.mul_comm]
    exact congrArg Nat.cast this.symm
  · exact Nat.mod_lt _ (Nat.two_pow_pos n)

theorem ofInt_of_lt {n x : Nat} (h : x < 2 ^ n) : ofInt n (x : Int) = x := by
  rw [ofInt_natCast, Nat.mod_eq_of_lt h]

theorem ofInt_toInt (n x : Nat) : ofInt n (toInt n x) = x % 2 ^ n := by
  have hlt : x % 2 ^ n < 2 ^ n := Nat.mod_lt _ (Nat.two_pow_pos n)
  unfold toInt
  split
  · exact ofInt_of_lt hlt
  · exact ofInt_eq (-1) (by omega) hlt

theorem toInt_of_lt {n x : Nat} (h : x < 2 ^ n) :
    toInt n x = if x < 2 ^ (n - 1) then (x : Int) else (x : Int) - ((2 ^ n : Nat) : Int) := by
  unfold toInt; rw [Nat.mod_eq_of_lt h]

theorem toInt_mod (n x : Nat) : toInt n (x % 2 ^ n) = toInt n x := by
  unfold toInt; rw [Nat.mod_mod]

/-- subtraction: Python `(a - b) & mask` is the EVM `SUB` -/
theorem ofInt_sub {n a b : Nat} (ha : a < 2 ^ n) (hb : b < 2 ^ n) :
    ofInt n ((a : Int) - (b : Int)) = (a + (2 ^ n - b % 2 ^ n)) % 2 ^ n := by
  rw [Nat.mod_eq_of_lt hb]
  by_cases h : b ≤ a
  · by_cases h0 : b = 0
    · subst h0
      rw [Nat.sub_zero, Nat.add_mod_right, Nat.mod_eq_of_lt ha]
      exact ofInt_eq 0 (by omega) ha
    · rw [mod_eq_of_eq_add_mul (r := a - b) 1 (by omega) (by omega)]
      exact ofInt_eq 0 (by omega) (by omega)
  · rw [Nat.mod_eq_of_lt (by omega)]
    exact ofInt_eq (-1) (by omega) (by omega)

/-! ### Python `to_signed` -/

theorem and_two_pow_ne_zero_iff {x k : Nat} (hx : x < 2 ^ (k + 1)) :
    x &&& 2 ^ k ≠ 0 ↔ 2 ^ k ≤ x := by
  have htb : (x &&& 2 ^ k ≠ 0) ↔ x.testBit k = true := by
    constructor
    · intro h
      false_or_by_contra
      rename_i hb
      apply h
      apply Nat.eq_of_testBit_eq
      intro i
      rw [Nat.testBit_and, Nat.zero_testBit, Nat.testBit_two_pow]
      by_cases hik : k = i
      · subst hik; simp only [Bool.not_eq_true] at hb; simp [hb]
      · simp [hik]
    · intro hb h
      have : (x &&& 2 ^ k).testBit k = true := by
        rw [Nat.testBit_and, hb, Nat.testBit_two_pow_self]; rfl
      rw [h, Nat.zero_testBit] at this
      exact Bool.false_ne_true this
  rw [htb]
  constructor
  · intro hb
    false_or_by_contra
    rename_i hlt
    rw [Nat.testBit_lt_two_pow (by omega)] at hb
    exact Bool.false_ne_true hb
  · intro hle
    exact Nat.testBit_of_two_pow_le_and_two_pow_add_one_gt hle hx

theorem toSigned_eq_toInt {x size : Nat} (hs : 0 < size) (hx : x < 2 ^ size) :
    toSigned x size = toInt size x := by
  obtain ⟨k, rfl⟩ : ∃ k, size = k + 1 := ⟨size - 1, by omega⟩
  unfold toSigned
  rw [toInt_of_lt hx]
  simp only [Nat.add_sub_cancel, Nat.one_shiftLeft]
  by_cases h : 2 ^ k ≤ x
  · rw [if_pos ((and_two_pow_ne_zero_iff hx).2 h), if_neg (by omega)]
  · rw [if_neg (fun hh => h ((and_two_pow_ne_zero_iff hx).1 hh)), if_pos (by omega)]

/-! ### `is_power_of_two` and `bit_length` -/

theorem isPowerOfTwo_spec {a : Nat} (h : isPowerOfTwo a = true) : a = 2 ^ (bitLength a - 1) := by
  unfold isPowerOfTwo at h
  simp only [Bool.and_eq_true, decide_eq_true_eq, beq_iff_eq] at h
  obtain ⟨hpos, hand⟩ := h
  have hne : a ≠ 0 := by omega
  obtain ⟨k, hk⟩ := (Nat.and_sub_one_eq_zero_iff_isPowerOfTwo hne).1 hand
  unfold bitLength
  rw [if_neg hne, Nat.add_sub_cancel, hk, Nat.log2_two_pow]

/-- the shift amount used by the power-of-two fast paths -/
theorem pow2_shift_lt {a size : Nat} (h : isPowerOfTwo a = true) (ha : a < 2 ^ size) :
    bitLength a - 1 < size := by
  have h1 := isPowerOfTwo_spec h
  false_or_by_contra
  rename_i hge
  have := pow_le_pow_two (a := size) (b := bitLength a - 1) (by omega)
  omega

theorem lt_two_pow_self' (k : Nat) : k < 2 ^ k := Nat.lt_two_pow_self

/-! ### modular exponentiation -/

theorem powMod_eq (b e m : Nat) : powMod b e m = b ^ e % m := by
  induction e using Nat.strongRecOn generalizing b with
  | _ e ih =>
    unfold powMod
    split
    · rename_i h; subst h; simp
    · rename_i h
      have hrec := ih (e / 2) (by omega) (b * b % m)
      simp only [hrec]
      have hsq : (b * b % m) ^ (e / 2) % m = (b * b) ^ (e / 2) % m := (Nat.pow_mod (b * b) (e / 2) m).symm
      have hbb : (b * b) ^ (e / 2) = b ^ (2 * (e / 2)) := by
        rw [Nat.pow_mul, Nat.pow_two]
      split
      · rename_i hodd
        have he : e = 2 * (e / 2) + 1 := by omega
        rw [hsq, hbb, Nat.mul_mod, Nat.mod_mod, ← Nat.mul_mod]
        conv => rhs; rw [he, Nat.pow_succ, Nat.mul_comm]
      · rename_i heven
        have he : e = 2 * (e / 2) := by omega
        rw [hsq, hbb]
        conv => rhs; rw [he]

end HalmosVerif.Lemmas.Word
