/-
Lemmas.WordCost — promptness: the Python integers created on the int-backed paths of the word
instructions stay within 512 bits (`pow(a, b, 2**256)` never builds `a ** b`).
-/
import HalmosVerif.Lemmas.WordTerm

namespace HalmosVerif.Lemmas.Word
open HalmosVerif.Model HalmosVerif.Spec

theorem bitLength_le_of_lt {x k : Nat} (h : x < 2 ^ k) : bitLength x ≤ k := by
  unfold bitLength
  split
  · omega
  · rename_i hx
    have := (Nat.log2_lt hx).2 h
    omega

theorem powMod_lt {b e m : Nat} (hm : 1 < m) : powMod b e m < m := by
  rw [powMod_eq]; exact Nat.mod_lt _ (by omega)

theorem add_lt_two_pow_succ {a b k : Nat} (ha : a < 2 ^ k) (hb : b < 2 ^ k) : a + b < 2 ^ (k + 1) := by
  rw [Nat.pow_succ]; omega

theorem mul_lt_two_pow {a b k : Nat} (ha : a < 2 ^ k) (hb : b < 2 ^ k) : a * b < 2 ^ (2 * k) := by
  rw [Nat.two_mul, Nat.pow_add]
  exact Nat.mul_lt_mul'' ha hb

/-- every intermediate of `pow(b, e, m)` fits in `2k` bits when `b < 2^k` and `m ≤ 2^k` -/
theorem powModCost_le {k m : Nat} (hm : 1 < m) (hmk : m ≤ 2 ^ k) (hk : 0 < k) :
    ∀ (e b : Nat), b < 2 ^ k → powModCost b e m ≤ 2 * k := by
  intro e
  induction e using Nat.strongRecOn with
  | _ e ih =>
    intro b hb
    unfold powModCost
    split
    · omega
    · rename_i he
      have hsq : (b * b) % m < 2 ^ k := Nat.lt_of_lt_of_le (Nat.mod_lt _ (by omega)) hmk
      have h1 : bitLength (b * b) ≤ 2 * k := bitLength_le_of_lt (mul_lt_two_pow hb hb)
      have h2 := ih (e / 2) (by omega) ((b * b) % m) hsq
      have hhalf : powMod ((b * b) % m) (e / 2) m < 2 ^ k := Nat.lt_of_lt_of_le (powMod_lt hm) hmk
      have h3 : bitLength (b * powMod ((b * b) % m) (e / 2) m) ≤ 2 * k :=
        bitLength_le_of_lt (mul_lt_two_pow hb hhalf)
      exact Nat.max_le.2 ⟨h1, Nat.max_le.2 ⟨h2, h3⟩⟩

theorem conVal_lt {v : HV} {n : Nat} (hv : v.WF ∧ v.IsWord) (h : conVal v = some n) : n < 2 ^ 256 := by
  cases v with
  | bv size r =>
    cases r with
    | con k =>
      have hs : size = 256 := hv.2
      subst hs
      simp only [conVal, Option.some.injEq] at h
      subst h
      exact hv.1.2
    | sym t => simp only [conVal] at h; cases h
  | bool r =>
    cases r with
    | con b =>
      simp only [conVal, Option.some.injEq] at h
      subst h
      have : (1 : Nat) < 2 ^ 256 := by decide
      split <;> omega
    | sym b => simp only [conVal] at h; cases h

end HalmosVerif.Lemmas.Word

namespace HalmosVerif.Lemmas.Word
open HalmosVerif.Model HalmosVerif.Spec

/-- the first two operands, when concrete, are below `2^256` -/
theorem conVal_two {args : List HV} {a b : Nat} {rest : List (Option Nat)}
    (hargs : ∀ v ∈ args, v.WF ∧ v.IsWord) (h : args.map conVal = some a :: some b :: rest) :
    a < 2 ^ 256 ∧ b < 2 ^ 256 := by
  cases args with
  | nil => simp only [List.map_nil] at h; cases h
  | cons v t =>
    cases t with
    | nil => simp only [List.map_cons, List.map_nil, List.cons.injEq] at h; cases h.2
    | cons w u =>
      simp only [List.map_cons, List.cons.injEq] at h
      exact ⟨conVal_lt (hargs v (by simp)) h.1, conVal_lt (hargs w (by simp)) h.2.1⟩

theorem opCost_le (op : WordOp) (args : List HV) (hargs : ∀ v ∈ args, v.WF ∧ v.IsWord) :
    opCost op args ≤ 512 := by
  unfold opCost
  split
  · rename_i a b h
    obtain ⟨ha, hb⟩ := conVal_two hargs h
    have := bitLength_le_of_lt (add_lt_two_pow_succ ha hb)
    omega
  · rename_i a b _ h
    obtain ⟨ha, hb⟩ := conVal_two hargs h
    have := bitLength_le_of_lt (add_lt_two_pow_succ ha hb)
    omega
  · rename_i a b h
    obtain ⟨ha, hb⟩ := conVal_two hargs h
    have := bitLength_le_of_lt (mul_lt_two_pow ha hb)
    omega
  · rename_i a b _ h
    obtain ⟨ha, hb⟩ := conVal_two hargs h
    have := bitLength_le_of_lt (mul_lt_two_pow ha hb)
    omega
  · rename_i a b h
    obtain ⟨ha, hb⟩ := conVal_two hargs h
    split
    · omega
    · have := powModCost_le (k := 256) (m := 2 ^ 256) (by decide) (Nat.le_refl _) (by decide) b a ha
      omega
  · rename_i k x h
    obtain ⟨hk, hx⟩ := conVal_two hargs h
    split
    · omega
    · rename_i hlt
      have h2 : 2 ^ k < 2 ^ 256 := pow_lt_pow_two (by omega)
      have := bitLength_le_of_lt (mul_lt_two_pow hx h2)
      omega
  all_goals omega

end HalmosVerif.Lemmas.Word
