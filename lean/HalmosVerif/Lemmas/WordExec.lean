/-
Lemmas.WordExec — the word-instruction cases of `SEVM.run` (`execWord`), one lemma per opcode: for stack
items in any representation the instruction returns a well-formed word whose denotation is the Yellow-Paper
result (`Spec.Word`), and every auxiliary path constraint it emits holds.
-/
import HalmosVerif.Lemmas.WordOps3
import HalmosVerif.Lemmas.WordStd

set_option linter.unusedSectionVars false
set_option linter.unusedSimpArgs false

namespace HalmosVerif.Lemmas.Word
open HalmosVerif.Model HalmosVerif.Spec

/-- number of stack items each instruction consumes -/
def arity : WordOp → Nat
  | .ISZERO | .NOT => 1
  | .ADDMOD | .MULMOD => 3
  | _ => 2

/-- the specified result of each instruction on the denotations of its operands (top of stack first) -/
def specOp : WordOp → List Nat → Nat
  | .ADD, [x, y] => Word.add x y
  | .MUL, [x, y] => Word.mul x y
  | .SUB, [x, y] => Word.sub x y
  | .DIV, [x, y] => Word.div x y
  | .SDIV, [x, y] => Word.sdiv x y
  | .MOD, [x, y] => Word.mod x y
  | .SMOD, [x, y] => Word.smod x y
  | .ADDMOD, [x, y, n] => Word.addmod x y n
  | .MULMOD, [x, y, n] => Word.mulmod x y n
  | .EXP, [x, y] => Word.exp x y
  | .SIGNEXTEND, [b, x] => Word.signextend b x
  | .LT, [x, y] => Word.lt x y
  | .GT, [x, y] => Word.gt x y
  | .SLT, [x, y] => Word.slt x y
  | .SGT, [x, y] => Word.sgt x y
  | .EQ, [x, y] => Word.eq x y
  | .ISZERO, [x] => Word.iszero x
  | .AND, [x, y] => Word.and x y
  | .OR, [x, y] => Word.or x y
  | .XOR, [x, y] => Word.xor x y
  | .NOT, [x] => Word.not x
  | .BYTE, [i, x] => Word.byte i x
  | .SHL, [sh, x] => Word.shl sh x
  | .SHR, [sh, x] => Word.shr sh x
  | .SAR, [sh, x] => Word.sar sh x
  | _, _ => 0

/-- the instruction succeeds with a well-formed word denoting `n`; all emitted constraints hold -/
def ExecOk (I : Interp) (res : Except PyErr (HV × List B)) (n : Nat) : Prop :=
  ∃ r aux, res = .ok (r, aux) ∧ r.WF ∧ r.IsWord ∧ r.denote I = n ∧ ∀ c ∈ aux, c.eval I = true

theorem ExecOk.of_bv {I : Interp} {res : Except PyErr HV} {n m : Nat} (h : OkBV I res 256 n) (e : n = m) :
    ExecOk I (res.map (·, [])) m := by
  obtain ⟨r, h1, h2, h3⟩ := h
  subst h1
  exact ⟨_, [], rfl, h2, rfl, h3.trans e, fun _ hc => absurd hc List.not_mem_nil⟩

theorem ExecOk.of_bool {I : Interp} {res : Except PyErr HV} {c : Bool} {m : Nat} (h : OkBool I res c)
    (e : (if c then 1 else 0) = m) : ExecOk I (res.map (·, [])) m := by
  obtain ⟨r, h1, h2, h3⟩ := h
  subst h1
  exact ⟨_, [], rfl, h2, trivial, h3.trans e, fun _ hc => absurd hc List.not_mem_nil⟩

theorem ite_beq_nat (a b : Nat) : (if (a == b) = true then 1 else 0) = Word.eq a b := by
  unfold Word.eq
  by_cases h : a = b
  · subst h; rw [beq_self_eq_true, if_pos rfl, if_pos rfl]
  · rw [beq_eq_false_iff_ne.2 h, if_neg Bool.false_ne_true, if_neg h]

theorem ite_decide (p : Prop) [Decidable p] : (if decide p = true then 1 else 0) = (if p then 1 else 0 : Nat) := by
  by_cases h : p
  · rw [decide_eq_true h, if_pos rfl, if_pos h]
  · rw [decide_eq_false h, if_neg Bool.false_ne_true, if_neg h]

theorem len1 {α} {l : List α} (h : l.length = 1) : ∃ a, l = [a] := by
  match l, h with
  | [a], _ => exact ⟨a, rfl⟩

theorem len2 {α} {l : List α} (h : l.length = 2) : ∃ a b, l = [a, b] := by
  match l, h with
  | [a, b], _ => exact ⟨a, b, rfl⟩

theorem len3 {α} {l : List α} (h : l.length = 3) : ∃ a b c, l = [a, b, c] := by
  match l, h with
  | [a, b, c], _ => exact ⟨a, b, c, rfl⟩

/-! well-formed stack words of each representation class (used by the non-vacuity examples) -/

theorem word_var (x : String) :
    (HV.bv 256 (.sym (.var x 256))).WF ∧ (HV.bv 256 (.sym (.var x 256))).IsWord :=
  ⟨⟨by decide, (by decide : 0 < 256), rfl⟩, rfl⟩

theorem word_lit (n : Nat) :
    (HV.bv 256 (.sym (.lit 256 n))).WF ∧ (HV.bv 256 (.sym (.lit 256 n))).IsWord :=
  ⟨⟨by decide, (by decide : 0 < 256), rfl⟩, rfl⟩

theorem word_con {n : Nat} (h : n < 2 ^ 256) :
    (HV.bv 256 (.con n)).WF ∧ (HV.bv 256 (.con n)).IsWord := ⟨⟨by decide, h⟩, rfl⟩

theorem word_bool {r : BRep} (h : (HV.bool r).WF) : (HV.bool r).WF ∧ (HV.bool r).IsWord := ⟨h, trivial⟩

section
variable {s : Simp} (hs : SimpSound s) {I : Interp} (hI : I.Std) (cfg : WordCfg)
include hs hI

/-- `popi()` of a stack word -/
theorem popi_ok {a : HV} (ha : a.WF ∧ a.IsWord) :
    ∃ r, toBV256 s a = .bv 256 r ∧ (HV.bv 256 r).WF ∧ (HV.bv 256 r).denote I = a.denote I :=
  (toBV256_ok hs I ha.1 ha.2).ok_inj

theorem rebv_ok {a : HV} (ha : a.WF ∧ a.IsWord) :
    ∃ r, reBV s a 256 = .bv 256 r ∧ (HV.bv 256 r).WF ∧ (HV.bv 256 r).denote I = a.denote I :=
  (reBV256_ok hs I ha.1 ha.2).ok_inj

/-! ### arithmetic -/

theorem exec_ADD {a b : HV} (ha : a.WF ∧ a.IsWord) (hb : b.WF ∧ b.IsWord) :
    ExecOk I (execWord s cfg .ADD [a, b]) (Word.add (a.denote I) (b.denote I)) := by
  obtain ⟨ra, ea, wa, da⟩ := popi_ok hs hI ha
  obtain ⟨rb, eb, wb, db⟩ := popi_ok hs hI hb
  simp only [execWord, withBV2, ea, eb]
  exact ExecOk.of_bv (bvAdd_ok hs I wa wb) (by rw [da, db]; rfl)

theorem exec_SUB {a b : HV} (ha : a.WF ∧ a.IsWord) (hb : b.WF ∧ b.IsWord) :
    ExecOk I (execWord s cfg .SUB [a, b]) (Word.sub (a.denote I) (b.denote I)) := by
  obtain ⟨ra, ea, wa, da⟩ := popi_ok hs hI ha
  obtain ⟨rb, eb, wb, db⟩ := popi_ok hs hI hb
  simp only [execWord, withBV2, ea, eb]
  exact ExecOk.of_bv (bvSub_ok hs I wa wb) (by rw [da, db]; rfl)

theorem exec_MUL {a b : HV} (ha : a.WF ∧ a.IsWord) (hb : b.WF ∧ b.IsWord) :
    ExecOk I (execWord s cfg .MUL [a, b]) (Word.mul (a.denote I) (b.denote I)) := by
  obtain ⟨ra, ea, wa, da⟩ := popi_ok hs hI ha
  obtain ⟨rb, eb, wb, db⟩ := popi_ok hs hI hb
  simp only [execWord, withBV2, ea, eb]
  exact ExecOk.of_bv (bvMul_ok hs I _ (fun f hf => Option.some.inj hf ▸ std_mul256 hI) wa wb)
    (by rw [da, db]; rfl)

theorem exec_SDIV {a b : HV} (ha : a.WF ∧ a.IsWord) (hb : b.WF ∧ b.IsWord) :
    ExecOk I (execWord s cfg .SDIV [a, b]) (Word.sdiv (a.denote I) (b.denote I)) := by
  obtain ⟨ra, ea, wa, da⟩ := popi_ok hs hI ha
  obtain ⟨rb, eb, wb, db⟩ := popi_ok hs hI hb
  simp only [execWord, withBV2, ea, eb]
  exact ExecOk.of_bv (bvSdiv_ok hs I _ (std_sdiv256 hI) (by decide) wa wb) (by rw [da, db]; rfl)

theorem exec_SMOD {a b : HV} (ha : a.WF ∧ a.IsWord) (hb : b.WF ∧ b.IsWord) :
    ExecOk I (execWord s cfg .SMOD [a, b]) (Word.smod (a.denote I) (b.denote I)) := by
  obtain ⟨ra, ea, wa, da⟩ := popi_ok hs hI ha
  obtain ⟨rb, eb, wb, db⟩ := popi_ok hs hI hb
  simp only [execWord, withBV2, ea, eb]
  exact ExecOk.of_bv (bvSmod_ok hs I _ (std_srem256 hI) (by decide) wa wb) (by rw [da, db]; rfl)

theorem exec_EXP {a b : HV} (ha : a.WF ∧ a.IsWord) (hb : b.WF ∧ b.IsWord) :
    ExecOk I (execWord s cfg .EXP [a, b]) (Word.exp (a.denote I) (b.denote I)) := by
  obtain ⟨ra, ea, wa, da⟩ := popi_ok hs hI ha
  obtain ⟨rb, eb, wb, db⟩ := popi_ok hs hI hb
  simp only [execWord, withBV2, ea, eb]
  exact ExecOk.of_bv (bvExp_ok hs I _ _ cfg.smtExpByConst (std_exp256 hI)
    (fun f hf => Option.some.inj hf ▸ std_mul256 hI) wa wb) (by rw [da, db]; rfl)

/-- DIV also emits the constraint `(x / y) <= x` when the quotient is symbolic; it holds -/
theorem exec_DIV {a b : HV} (ha : a.WF ∧ a.IsWord) (hb : b.WF ∧ b.IsWord) :
    ExecOk I (execWord s cfg .DIV [a, b]) (Word.div (a.denote I) (b.denote I)) := by
  obtain ⟨ra, ea, wa, da⟩ := popi_ok hs hI ha
  obtain ⟨rb, eb, wb, db⟩ := popi_ok hs hI hb
  obtain ⟨r, e, w, d⟩ := bvDiv_ok hs I _ (std_udiv256 hI) wa wb
  rw [da, db] at d
  simp only [execWord, ea, eb, e, bind, Except.bind]
  cases r with
  | con n => exact ⟨_, [], rfl, w, rfl, d, fun _ hc => absurd hc List.not_mem_nil⟩
  | sym t =>
    refine ⟨_, _, rfl, w, rfl, d, ?_⟩
    intro c hc
    rw [List.mem_singleton] at hc
    subst hc
    simp only [B.eval, CmpOp.eval, (asZ3_ok (I := I) wa).2.2, da, decide_eq_true_eq]
    rw [denote_sym] at d
    rw [d]
    unfold Word.div; split
    · omega
    · exact Nat.div_le_self _ _

/-- MOD also emits the constraint `(x % y) <= y` when the remainder is symbolic; it holds -/
theorem exec_MOD {a b : HV} (ha : a.WF ∧ a.IsWord) (hb : b.WF ∧ b.IsWord) :
    ExecOk I (execWord s cfg .MOD [a, b]) (Word.mod (a.denote I) (b.denote I)) := by
  obtain ⟨ra, ea, wa, da⟩ := popi_ok hs hI ha
  obtain ⟨rb, eb, wb, db⟩ := popi_ok hs hI hb
  obtain ⟨r, e, w, d⟩ := bvMod_ok hs I _ (std_urem256 hI) wa wb
  rw [da, db] at d
  simp only [execWord, ea, eb, e, bind, Except.bind]
  cases r with
  | con n => exact ⟨_, [], rfl, w, rfl, d, fun _ hc => absurd hc List.not_mem_nil⟩
  | sym t =>
    refine ⟨_, _, rfl, w, rfl, d, ?_⟩
    intro c hc
    rw [List.mem_singleton] at hc
    subst hc
    simp only [B.eval, CmpOp.eval, (asZ3_ok (I := I) wb).2.2, db, decide_eq_true_eq]
    rw [denote_sym] at d
    rw [d]
    unfold Word.mod; split
    · omega
    · rename_i h; exact Nat.le_of_lt (Nat.mod_lt _ (by omega))

theorem exec_ADDMOD {a b n : HV} (ha : a.WF ∧ a.IsWord) (hb : b.WF ∧ b.IsWord) (hn : n.WF ∧ n.IsWord) :
    ExecOk I (execWord s cfg .ADDMOD [a, b, n]) (Word.addmod (a.denote I) (b.denote I) (n.denote I)) := by
  obtain ⟨ra, ea, wa, da⟩ := popi_ok hs hI ha
  obtain ⟨rb, eb, wb, db⟩ := popi_ok hs hI hb
  obtain ⟨rn, en, wn, dn⟩ := popi_ok hs hI hn
  simp only [execWord, ea, eb, en]
  exact ExecOk.of_bv (bvAddmod_ok hs I _ (std_urem264 hI) wa wb wn) (by rw [da, db, dn])

theorem exec_MULMOD {a b n : HV} (ha : a.WF ∧ a.IsWord) (hb : b.WF ∧ b.IsWord) (hn : n.WF ∧ n.IsWord) :
    ExecOk I (execWord s cfg .MULMOD [a, b, n]) (Word.mulmod (a.denote I) (b.denote I) (n.denote I)) := by
  obtain ⟨ra, ea, wa, da⟩ := popi_ok hs hI ha
  obtain ⟨rb, eb, wb, db⟩ := popi_ok hs hI hb
  obtain ⟨rn, en, wn, dn⟩ := popi_ok hs hI hn
  simp only [execWord, ea, eb, en]
  exact ExecOk.of_bv (bvMulmod_ok hs I _ _ (fun f hf => Option.some.inj hf ▸ std_mul512 hI)
    (std_urem512 hI) wa wb wn) (by rw [da, db, dn])

/-! ### SIGNEXTEND -/

theorem exec_SIGNEXTEND {a b : HV} (ha : a.WF ∧ a.IsWord) (hb : b.WF ∧ b.IsWord)
    (hconc : (toBV256 s a).isConcrete = true) :
    ExecOk I (execWord s cfg .SIGNEXTEND [a, b]) (Word.signextend (a.denote I) (b.denote I)) := by
  obtain ⟨ra, ea, wa, da⟩ := popi_ok hs hI ha
  obtain ⟨rb, eb, wb, db⟩ := popi_ok hs hI hb
  rw [ea] at hconc
  cases ra with
  | con k =>
    simp only [execWord, ea, eb]
    rw [denote_con] at da
    exact ExecOk.of_bv (bvSignextend_ok hs I k wb) (by rw [da, db])
  | sym t => exact absurd hconc Bool.false_ne_true

/-! ### comparisons -/

theorem exec_LT {a b : HV} (ha : a.WF ∧ a.IsWord) (hb : b.WF ∧ b.IsWord) :
    ExecOk I (execWord s cfg .LT [a, b]) (Word.lt (a.denote I) (b.denote I)) := by
  obtain ⟨ra, ea, wa, da⟩ := popi_ok hs hI ha
  obtain ⟨rb, eb, wb, db⟩ := popi_ok hs hI hb
  simp only [execWord, withBV2, ea, eb]
  exact ExecOk.of_bool (bvCmp_ok hs I .ult wa wb) (by rw [da, db]; exact ite_decide _)

theorem exec_GT {a b : HV} (ha : a.WF ∧ a.IsWord) (hb : b.WF ∧ b.IsWord) :
    ExecOk I (execWord s cfg .GT [a, b]) (Word.gt (a.denote I) (b.denote I)) := by
  obtain ⟨ra, ea, wa, da⟩ := popi_ok hs hI ha
  obtain ⟨rb, eb, wb, db⟩ := popi_ok hs hI hb
  simp only [execWord, withBV2, ea, eb]
  exact ExecOk.of_bool (bvCmp_ok hs I .ugt wa wb) (by rw [da, db]; exact ite_decide _)

theorem exec_SLT {a b : HV} (ha : a.WF ∧ a.IsWord) (hb : b.WF ∧ b.IsWord) :
    ExecOk I (execWord s cfg .SLT [a, b]) (Word.slt (a.denote I) (b.denote I)) := by
  obtain ⟨ra, ea, wa, da⟩ := popi_ok hs hI ha
  obtain ⟨rb, eb, wb, db⟩ := popi_ok hs hI hb
  simp only [execWord, withBV2, ea, eb]
  exact ExecOk.of_bool (bvCmp_ok hs I .slt wa wb) (by rw [da, db]; exact ite_decide _)

theorem exec_SGT {a b : HV} (ha : a.WF ∧ a.IsWord) (hb : b.WF ∧ b.IsWord) :
    ExecOk I (execWord s cfg .SGT [a, b]) (Word.sgt (a.denote I) (b.denote I)) := by
  obtain ⟨ra, ea, wa, da⟩ := popi_ok hs hI ha
  obtain ⟨rb, eb, wb, db⟩ := popi_ok hs hI hb
  simp only [execWord, withBV2, ea, eb]
  exact ExecOk.of_bool (bvCmp_ok hs I .sgt wa wb) (by rw [da, db]; exact ite_decide _)

theorem exec_EQ {a b : HV} (ha : a.WF ∧ a.IsWord) (hb : b.WF ∧ b.IsWord) :
    ExecOk I (execWord s cfg .EQ [a, b]) (Word.eq (a.denote I) (b.denote I)) := by
  have mixed : ExecOk I (Except.map (·, [])
      (match reBV s a 256, reBV s b 256 with
        | .bv sa ra, .bv sb rb => bvEq s sa ra sb rb
        | _, _ => .error .typeError)) (Word.eq (a.denote I) (b.denote I)) := by
    obtain ⟨ra, ea, wa, da⟩ := rebv_ok hs hI ha
    obtain ⟨rb, eb, wb, db⟩ := rebv_ok hs hI hb
    simp only [ea, eb]
    exact ExecOk.of_bool (bvEq_ok hs I wa wb) (by rw [da, db]; exact ite_beq_nat _ _)
  cases a with
  | bool x =>
    cases b with
    | bool y =>
      simp only [execWord]
      refine ExecOk.of_bool (boolEq_ok hs I ha.1 hb.1) ?_
      rw [bool_denote, bool_denote]
      cases BRep.val I x <;> cases BRep.val I y <;> rfl
    | bv sb rb => simp only [execWord]; exact mixed
  | bv sa ra =>
    cases b with
    | bool y => simp only [execWord]; exact mixed
    | bv sb rb =>
      have h1 : sa = 256 := ha.2
      have h2 : sb = 256 := hb.2
      subst h1; subst h2
      simp only [execWord]
      exact ExecOk.of_bool (bvEq_ok hs I ha.1 hb.1) (ite_beq_nat _ _)

theorem exec_ISZERO {a : HV} (ha : a.WF ∧ a.IsWord) :
    ExecOk I (execWord s cfg .ISZERO [a]) (Word.iszero (a.denote I)) := by
  cases a with
  | bool x =>
    simp only [execWord]
    refine ExecOk.of_bool (boolIsZero_ok hs I ha.1) ?_
    rw [bool_denote]
    cases BRep.val I x <;> rfl
  | bv sa ra =>
    simp only [execWord]
    exact ExecOk.of_bool (bvIsZero_ok hs I ha.1) (ite_beq_nat _ 0)

/-! ### bitwise -/

theorem exec_mixed {a b : HV} (g : Nat → Rep → Nat → Rep → Except PyErr HV) (f : Nat → Nat → Nat)
    (ha : a.WF ∧ a.IsWord) (hb : b.WF ∧ b.IsWord)
    (hg : ∀ {x y : Rep}, (HV.bv 256 x).WF → (HV.bv 256 y).WF →
      OkBV I (g 256 x 256 y) 256 (f ((HV.bv 256 x).denote I) ((HV.bv 256 y).denote I))) :
    ExecOk I (Except.map (·, [])
      (match reBV s a 256, reBV s b 256 with
        | .bv sa ra, .bv sb rb => g sa ra sb rb
        | _, _ => .error .typeError)) (f (a.denote I) (b.denote I)) := by
  obtain ⟨ra, ea, wa, da⟩ := rebv_ok hs hI ha
  obtain ⟨rb, eb, wb, db⟩ := rebv_ok hs hI hb
  simp only [ea, eb]
  exact ExecOk.of_bv (hg wa wb) (by rw [da, db])

theorem exec_AND {a b : HV} (ha : a.WF ∧ a.IsWord) (hb : b.WF ∧ b.IsWord) :
    ExecOk I (execWord s cfg .AND [a, b]) (Word.and (a.denote I) (b.denote I)) := by
  have mixed := exec_mixed hs hI (fun sa ra sb rb => bvBitwise s .band natAnd sa ra sb rb) Word.and ha hb
    (fun wx wy => bvAnd_ok hs I wx wy)
  cases a with
  | bool x =>
    cases b with
    | bool y =>
      simp only [execWord, sevmBitwise]
      refine ExecOk.of_bool (boolAnd_ok hs I ha.1 hb.1) ?_
      rw [bool_denote, bool_denote]
      cases BRep.val I x <;> cases BRep.val I y <;> decide
    | bv sb rb => simp only [execWord, sevmBitwise]; exact mixed
  | bv sa ra =>
    cases b with
    | bool y => simp only [execWord, sevmBitwise]; exact mixed
    | bv sb rb =>
      have h1 : sa = 256 := ha.2
      have h2 : sb = 256 := hb.2
      subst h1; subst h2
      simp only [execWord, sevmBitwise]
      exact ExecOk.of_bv (bvAnd_ok hs I ha.1 hb.1) rfl

theorem exec_OR {a b : HV} (ha : a.WF ∧ a.IsWord) (hb : b.WF ∧ b.IsWord) :
    ExecOk I (execWord s cfg .OR [a, b]) (Word.or (a.denote I) (b.denote I)) := by
  have mixed := exec_mixed hs hI (fun sa ra sb rb => bvBitwise s .bor natOr sa ra sb rb) Word.or ha hb
    (fun wx wy => bvOr_ok hs I wx wy)
  cases a with
  | bool x =>
    cases b with
    | bool y =>
      simp only [execWord, sevmBitwise]
      refine ExecOk.of_bool (boolOr_ok hs I ha.1 hb.1) ?_
      rw [bool_denote, bool_denote]
      cases BRep.val I x <;> cases BRep.val I y <;> decide
    | bv sb rb => simp only [execWord, sevmBitwise]; exact mixed
  | bv sa ra =>
    cases b with
    | bool y => simp only [execWord, sevmBitwise]; exact mixed
    | bv sb rb =>
      have h1 : sa = 256 := ha.2
      have h2 : sb = 256 := hb.2
      subst h1; subst h2
      simp only [execWord, sevmBitwise]
      exact ExecOk.of_bv (bvOr_ok hs I ha.1 hb.1) rfl

theorem exec_XOR {a b : HV} (ha : a.WF ∧ a.IsWord) (hb : b.WF ∧ b.IsWord) :
    ExecOk I (execWord s cfg .XOR [a, b]) (Word.xor (a.denote I) (b.denote I)) := by
  obtain ⟨ra, ea, wa, da⟩ := popi_ok hs hI ha
  obtain ⟨rb, eb, wb, db⟩ := popi_ok hs hI hb
  simp only [execWord, withBV2, ea, eb]
  exact ExecOk.of_bv (bvXor_ok hs I wa wb) (by rw [da, db]; rfl)

theorem exec_NOT {a : HV} (ha : a.WF ∧ a.IsWord) :
    ExecOk I (execWord s cfg .NOT [a]) (Word.not (a.denote I)) := by
  obtain ⟨ra, ea, wa, da⟩ := popi_ok hs hI ha
  simp only [execWord, ea]
  exact ExecOk.of_bv (bvNot_ok hs I wa) (by rw [da]; rfl)

/-! ### BYTE / shifts -/

theorem exec_BYTE {a b : HV} (ha : a.WF ∧ a.IsWord) (hb : b.WF ∧ b.IsWord) :
    ExecOk I (execWord s cfg .BYTE [a, b]) (Word.byte (a.denote I) (b.denote I)) := by
  obtain ⟨ra, ea, wa, da⟩ := popi_ok hs hI ha
  obtain ⟨rb, eb, wb, db⟩ := popi_ok hs hI hb
  cases ra with
  | con k =>
    simp only [execWord, ea, eb]
    rw [denote_con] at da
    exact ExecOk.of_bv (bvByte_ok hs I k wb (by decide) (by decide)) (by rw [da, db]; rfl)
  | sym t =>
    simp only [execWord, ea, eb]
    obtain ⟨z1, z2, z3⟩ := asZ3_ok (I := I) wb
    obtain ⟨q1, q2, q3⟩ := symByteOf_ok I wa.2.1 z1 wa.2.2 z2
    rw [denote_sym] at da
    exact ExecOk.of_bv (mkBV_term_eq hs I q1 q2) (by rw [q3, z3, da, db])

theorem exec_SHL {a b : HV} (ha : a.WF ∧ a.IsWord) (hb : b.WF ∧ b.IsWord) :
    ExecOk I (execWord s cfg .SHL [a, b]) (Word.shl (a.denote I) (b.denote I)) := by
  obtain ⟨ra, ea, wa, da⟩ := popi_ok hs hI ha
  obtain ⟨rb, eb, wb, db⟩ := popi_ok hs hI hb
  simp only [execWord, withBV2, ea, eb]
  exact ExecOk.of_bv (bvLshl_ok hs I wb wa) (by rw [da, db]; rfl)

theorem exec_SHR {a b : HV} (ha : a.WF ∧ a.IsWord) (hb : b.WF ∧ b.IsWord) :
    ExecOk I (execWord s cfg .SHR [a, b]) (Word.shr (a.denote I) (b.denote I)) := by
  obtain ⟨ra, ea, wa, da⟩ := popi_ok hs hI ha
  obtain ⟨rb, eb, wb, db⟩ := popi_ok hs hI hb
  simp only [execWord, withBV2, ea, eb]
  exact ExecOk.of_bv (bvLshr_ok hs I wb wa) (by rw [da, db]; rfl)

theorem exec_SAR {a b : HV} (ha : a.WF ∧ a.IsWord) (hb : b.WF ∧ b.IsWord) :
    ExecOk I (execWord s cfg .SAR [a, b]) (Word.sar (a.denote I) (b.denote I)) := by
  obtain ⟨ra, ea, wa, da⟩ := popi_ok hs hI ha
  obtain ⟨rb, eb, wb, db⟩ := popi_ok hs hI hb
  simp only [execWord, withBV2, ea, eb]
  exact ExecOk.of_bv (bvAshr_ok hs I wb wa) (by rw [da, db]; rfl)

end
end HalmosVerif.Lemmas.Word
