/-
Lemmas.WordOps1 — one lemma per method of the bit-vector model (generic in `size`): add, sub, shifts, not,
bitwise, comparisons, equality, is_zero, the HalmosBool algebra, byte, signextend, sym_byte_of.
Each has the shape "well-formed operands → the method returns `.ok r`, `r` well-formed of the expected size/type,
`r.denote I` = an arithmetical expression in the operands' denotations".
-/
import HalmosVerif.Lemmas.WordTerm

set_option linter.unusedSectionVars false
set_option linter.unusedSimpArgs false

namespace HalmosVerif.Lemmas.Word
open HalmosVerif.Model HalmosVerif.Spec

/-- the truth value of a Bool representation -/
def BRep.val (I : Interp) : BRep → Bool
  | .con b => b
  | .sym b => b.eval I

theorem bool_denote (I : Interp) (r : BRep) : (HV.bool r).denote I = if BRep.val I r then 1 else 0 := by
  cases r <;> rfl

theorem OkBool.of_self {I : Interp} {r : BRep} (h : (HV.bool r).WF) :
    OkBool I (.ok (.bool r)) (BRep.val I r) := ⟨r, rfl, h, bool_denote I r⟩

theorem brepZ3_ok {I : Interp} {r : BRep} (h : (HV.bool r).WF) :
    (brepZ3 r).WF ∧ (brepZ3 r).eval I = BRep.val I r := by
  cases r with
  | con b => exact ⟨trivial, rfl⟩
  | sym b => exact ⟨h, rfl⟩

theorem shl_ge_eq_zero {size a k : Nat} (h : size ≤ k) : a * 2 ^ k % 2 ^ size = 0 := by
  obtain ⟨d, rfl⟩ : ∃ d, k = size + d := ⟨k - size, by omega⟩
  rw [Nat.pow_add, ← Nat.mul_assoc, Nat.mul_comm a, Nat.mul_assoc]
  exact Nat.mul_mod_right _ _

theorem int_beq_natCast (a b : Nat) : ((a : Int) == (b : Int)) = (a == b) := by
  by_cases h : a = b
  · subst h; rw [beq_self_eq_true, beq_self_eq_true]
  · have : ¬ (a : Int) = (b : Int) := by omega
    rw [beq_eq_false_iff_ne.2 h, beq_eq_false_iff_ne.2 this]

theorem beq_comm_nat (a b : Nat) : (a == b) = (b == a) := BEq.comm

section
variable {s : Simp} (hs : SimpSound s) (I : Interp)
include hs

/-! ### the z3 operator layer -/

theorem mkBV_binT_ok {size : Nat} (op : BinOp) {tx ty : T} (hx : tx.WF) (hy : ty.WF)
    (hwx : tx.width = size) (hwy : ty.width = size) :
    OkBV I (.ok (mkBV s (.term (.bin op tx ty)) size)) size (op.eval size (tx.eval I) (ty.eval I)) := by
  have : (T.bin op tx ty).WF := by simp only [T.WF]; exact ⟨hx, hy, by omega⟩
  refine (mkBV_term_eq hs I this (by simp only [T.width]; exact hwx)).congr ?_
  simp only [T.eval, hwx]

theorem mkBV_bin_ok {size : Nat} (op : BinOp) {x y : Rep} (hx : (HV.bv size x).WF) (hy : (HV.bv size y).WF) :
    OkBV I (.ok (mkBV s (.term (.bin op (asZ3 size x) (asZ3 size y))) size)) size
      (op.eval size ((HV.bv size x).denote I) ((HV.bv size y).denote I)) := by
  obtain ⟨a1, a2, a3⟩ := asZ3_ok (I := I) hx
  obtain ⟨b1, b2, b3⟩ := asZ3_ok (I := I) hy
  exact (mkBV_binT_ok hs I op a1 b1 a2 b2).congr (by rw [a3, b3])

/-- `mkBV (pyop/z3op (x.value, y.value))`: Python arithmetic on two ints, or the z3 operator (ints coerced) -/
theorem pvArith_mk_ok {size : Nat} {x y : Rep} (op : BinOp) (pyop : Int → Int → Int) (n : Nat)
    (hx : (HV.bv size x).WF) (hy : (HV.bv size y).WF)
    (hcon : ofInt size (pyop ((HV.bv size x).denote I) ((HV.bv size y).denote I)) = n)
    (hsym : op.eval size ((HV.bv size x).denote I) ((HV.bv size y).denote I) = n) :
    ∃ v, pvArith op pyop (HV.value (.bv size x)) (HV.value (.bv size y)) = .ok v ∧
      OkBV I (.ok (mkBV s v size)) size n := by
  have hpos := wf_size_pos hx
  have hxl := denote_lt (I := I) hx
  have hyl := denote_lt (I := I) hy
  cases x with
  | con a =>
    cases y with
    | con b =>
      refine ⟨_, rfl, ?_⟩
      exact (mkBV_int hs I hpos _).congr hcon
    | sym u =>
      simp only [HV.WF] at hy
      obtain ⟨_, hu, hwu⟩ := hy
      refine ⟨_, rfl, ?_⟩
      simp only [denote_con, denote_sym] at hxl hsym
      have hl : (T.lit u.width (ofInt u.width (a : Int))).eval I = a := lit_ofInt_eval I (hwu ▸ hxl)
      have := mkBV_binT_ok hs I op (tx := .lit u.width (ofInt u.width (a : Int))) (ty := u)
        (by simp only [T.WF]; omega) hu (by simp only [T.width]; exact hwu) hwu
      rw [hl] at this
      exact this.congr hsym
  | sym t =>
    simp only [HV.WF] at hx
    obtain ⟨_, ht, hwt⟩ := hx
    cases y with
    | con b =>
      refine ⟨_, rfl, ?_⟩
      simp only [denote_con, denote_sym] at hyl hsym
      have hl : (T.lit t.width (ofInt t.width (b : Int))).eval I = b := lit_ofInt_eval I (hwt ▸ hyl)
      have := mkBV_binT_ok hs I op (tx := t) (ty := .lit t.width (ofInt t.width (b : Int)))
        ht (by simp only [T.WF]; omega) hwt (by simp only [T.width]; exact hwt)
      rw [hl] at this
      exact this.congr hsym
    | sym u =>
      simp only [HV.WF] at hy
      obtain ⟨_, hu, hwu⟩ := hy
      refine ⟨_, rfl, ?_⟩
      exact (mkBV_binT_ok hs I op ht hu hwt hwu).congr hsym

/-! ### add / sub -/

theorem bvAdd_ok {size : Nat} {x y : Rep} (hx : (HV.bv size x).WF) (hy : (HV.bv size y).WF) :
    OkBV I (bvAdd s size x size y) size
      (((HV.bv size x).denote I + (HV.bv size y).denote I) % 2 ^ size) := by
  obtain ⟨v, hv, hok⟩ := pvArith_mk_ok hs I .add (· + ·) _ hx hy
    (by rw [← Int.natCast_add, ofInt_natCast]) (by simp only [BinOp.eval])
  simp only [bvAdd, sizeCheck, hv, bind, Except.bind, ↓reduceIte]
  exact hok

theorem bvSub_ok {size : Nat} {x y : Rep} (hx : (HV.bv size x).WF) (hy : (HV.bv size y).WF) :
    OkBV I (bvSub s size x size y) size
      (((HV.bv size x).denote I + (2 ^ size - (HV.bv size y).denote I % 2 ^ size)) % 2 ^ size) := by
  obtain ⟨v, hv, hok⟩ := pvArith_mk_ok hs I .sub (· - ·) _ hx hy
    (ofInt_sub (denote_lt hx) (denote_lt hy)) (by simp only [BinOp.eval])
  simp only [bvSub, sizeCheck, hv, bind, Except.bind, ↓reduceIte]
  exact hok

/-! ### shifts -/

theorem bvLshl_ok {size : Nat} {x k : Rep} (hx : (HV.bv size x).WF) (hk : (HV.bv size k).WF) :
    OkBV I (bvLshl s size x k) size
      (if (HV.bv size k).denote I ≥ size then 0
       else ((HV.bv size x).denote I * 2 ^ (HV.bv size k).denote I) % 2 ^ size) := by
  have hpos := wf_size_pos hx
  have hxl := denote_lt (I := I) hx
  cases k with
  | con k =>
    show OkBV I (bvLshl s size x (.con k)) size
      (if k ≥ size then 0 else ((HV.bv size x).denote I * 2 ^ k) % 2 ^ size)
    simp only [bvLshl]
    split
    · rename_i h0; subst h0
      refine (OkBV.of_self hx).congr ?_
      rw [if_neg (by omega), Nat.pow_zero, Nat.mul_one, Nat.mod_eq_of_lt hxl]
    · split
      · exact OkBV.con hpos (Nat.two_pow_pos size)
      · rename_i hlt
        obtain ⟨v, hv, hok⟩ := pvArith_mk_ok hs I .shl (fun a b => a * 2 ^ b.toNat)
          (((HV.bv size x).denote I * 2 ^ k) % 2 ^ size) hx hk
          (by simp only [denote_con, Int.toNat_natCast]
              rw [show ((2 : Int) ^ k) = ((2 ^ k : Nat) : Int) from (Int.natCast_pow 2 k).symm,
                ← Int.natCast_mul, ofInt_natCast])
          (by simp only [BinOp.eval, denote_con]; exact if_neg hlt)
        simp only [value_con] at hv
        simp only [hv, bind, Except.bind]
        exact hok
  | sym t =>
    obtain ⟨v, hv, hok⟩ := pvArith_mk_ok hs I .shl (fun a b => a * 2 ^ b.toNat)
      (if (HV.bv size (.sym t)).denote I ≥ size then 0
       else ((HV.bv size x).denote I * 2 ^ (HV.bv size (.sym t)).denote I) % 2 ^ size) hx hk
      (by simp only [Int.toNat_natCast]
          rw [show ((2 : Int) ^ (HV.bv size (.sym t)).denote I) =
                ((2 ^ (HV.bv size (.sym t)).denote I : Nat) : Int) from (Int.natCast_pow 2 _).symm,
            ← Int.natCast_mul, ofInt_natCast]
          split
          · rename_i h; exact shl_ge_eq_zero h
          · rfl)
      (by simp only [BinOp.eval])
    simp only [value_sym] at hv
    simp only [bvLshl, hv, bind, Except.bind]
    exact hok

theorem bvLshr_ok {size : Nat} {x k : Rep} (hx : (HV.bv size x).WF) (hk : (HV.bv size k).WF) :
    OkBV I (bvLshr s size x size k) size
      (if (HV.bv size k).denote I ≥ size then 0
       else (HV.bv size x).denote I / 2 ^ (HV.bv size k).denote I) := by
  have hpos := wf_size_pos hx
  have hxl := denote_lt (I := I) hx
  have hsymb := mkBV_bin_ok hs I .lshr hx hk
  simp only [BinOp.eval] at hsymb
  cases k with
  | con k =>
    by_cases h0 : k = 0
    · subst h0
      simp only [bvLshr, ↓reduceIte]
      refine (OkBV.of_self hx).congr ?_
      show _ = if 0 ≥ size then 0 else (HV.bv size x).denote I / 2 ^ 0
      rw [if_neg (by omega), Nat.pow_zero, Nat.div_one]
    · cases x with
      | con n =>
        simp only [bvLshr, if_neg h0]
        show OkBV I _ size (if k ≥ size then 0 else n / 2 ^ k)
        have hxl' : n < 2 ^ size := hxl
        rw [Nat.shiftRight_eq_div_pow]
        have hle : n / 2 ^ k ≤ n := Nat.div_le_self _ _
        refine (mkBV_nat hs I hpos (Nat.lt_of_le_of_lt hle hxl')).congr ?_
        by_cases hge : k ≥ size
        · rw [if_pos hge]
          exact Nat.div_eq_of_lt (Nat.lt_of_lt_of_le hxl' (pow_le_pow_two hge))
        · rw [if_neg hge]
      | sym t =>
        simp only [bvLshr, if_neg h0]
        by_cases hge : k ≥ size
        · rw [if_pos hge]
          refine (OkBV.con hpos (Nat.two_pow_pos size)).congr ?_
          show 0 = if k ≥ size then 0 else _
          rw [if_pos hge]
        · rw [if_neg hge]
          exact hsymb
  | sym t =>
    simp only [bvLshr]
    exact hsymb

theorem bvAshr_ok {size : Nat} {x k : Rep} (hx : (HV.bv size x).WF) (hk : (HV.bv size k).WF) :
    OkBV I (bvAshr s size x k) size
      (if (HV.bv size k).denote I ≥ size then (if toInt size ((HV.bv size x).denote I) < 0 then 2 ^ size - 1 else 0)
       else ofInt size (toInt size ((HV.bv size x).denote I) / ((2 ^ (HV.bv size k).denote I : Nat) : Int))) := by
  have hpos := wf_size_pos hx
  have hxl := denote_lt (I := I) hx
  have hsymb := mkBV_bin_ok hs I .ashr hx hk
  simp only [BinOp.eval] at hsymb
  cases k with
  | con k =>
    by_cases h0 : k = 0
    · subst h0
      simp only [bvAshr, ↓reduceIte]
      refine (OkBV.of_self hx).congr ?_
      show _ = if 0 ≥ size then _ else ofInt size (toInt size ((HV.bv size x).denote I) / ((2 ^ 0 : Nat) : Int))
      rw [if_neg (by omega), Nat.pow_zero, Int.natCast_one, Int.ediv_one, ofInt_toInt,
        Nat.mod_eq_of_lt hxl]
    · simp only [bvAshr, if_neg h0]
      have hk' : k < 2 ^ size := hk.2
      rw [ofInt_of_lt hk']
      exact hsymb
  | sym t =>
    simp only [bvAshr]
    exact hsymb

/-! ### not / bitwise -/

theorem bvNot_ok {size : Nat} {x : Rep} (hx : (HV.bv size x).WF) :
    OkBV I (bvNot s size x) size (2 ^ size - 1 - (HV.bv size x).denote I) := by
  have hpos := wf_size_pos hx
  have hp := Nat.two_pow_pos size
  cases x with
  | con n =>
    simp only [bvNot, denote_con, denote_sym]
    exact mkBV_nat hs I hpos (by omega)
  | sym t =>
    simp only [HV.WF] at hx
    simp only [bvNot, denote_con, denote_sym]
    refine (mkBV_term_eq hs I (t := .bnot t) (by simp only [T.WF]; exact hx.2.1)
      (by simp only [T.width]; exact hx.2.2)).congr ?_
    simp only [T.eval, hx.2.2]

theorem bvBitwise_ok {size : Nat} {x y : Rep} (op : BinOp) (pyop : Int → Int → Int) (n : Nat)
    (hx : (HV.bv size x).WF) (hy : (HV.bv size y).WF)
    (hcon : ofInt size (pyop ((HV.bv size x).denote I) ((HV.bv size y).denote I)) = n)
    (hsym : op.eval size ((HV.bv size x).denote I) ((HV.bv size y).denote I) = n) :
    OkBV I (bvBitwise s op pyop size x size y) size n := by
  obtain ⟨v, hv, hok⟩ := pvArith_mk_ok hs I op pyop n hx hy hcon hsym
  simp only [bvBitwise, sizeCheck, hv, bind, Except.bind, ↓reduceIte]
  exact hok

theorem bvAnd_ok {size : Nat} {x y : Rep} (hx : (HV.bv size x).WF) (hy : (HV.bv size y).WF) :
    OkBV I (bvBitwise s .band natAnd size x size y) size
      ((HV.bv size x).denote I &&& (HV.bv size y).denote I) :=
  bvBitwise_ok hs I .band natAnd _ hx hy
    (by simp only [natAnd, Int.toNat_natCast]
        exact ofInt_of_lt (Nat.and_lt_two_pow _ (denote_lt hy)))
    (by simp only [BinOp.eval])

theorem bvOr_ok {size : Nat} {x y : Rep} (hx : (HV.bv size x).WF) (hy : (HV.bv size y).WF) :
    OkBV I (bvBitwise s .bor natOr size x size y) size
      ((HV.bv size x).denote I ||| (HV.bv size y).denote I) :=
  bvBitwise_ok hs I .bor natOr _ hx hy
    (by simp only [natOr, Int.toNat_natCast]
        exact ofInt_of_lt (Nat.or_lt_two_pow (denote_lt hx) (denote_lt hy)))
    (by simp only [BinOp.eval])

theorem bvXor_ok {size : Nat} {x y : Rep} (hx : (HV.bv size x).WF) (hy : (HV.bv size y).WF) :
    OkBV I (bvBitwise s .bxor natXor size x size y) size
      ((HV.bv size x).denote I ^^^ (HV.bv size y).denote I) :=
  bvBitwise_ok hs I .bxor natXor _ hx hy
    (by simp only [natXor, Int.toNat_natCast]
        exact ofInt_of_lt (Nat.xor_lt_two_pow (denote_lt hx) (denote_lt hy)))
    (by simp only [BinOp.eval])

/-! ### comparisons / equality / is_zero -/

theorem bvCmp_ok {size : Nat} {x y : Rep} (op : CmpOp) (hx : (HV.bv size x).WF) (hy : (HV.bv size y).WF) :
    OkBool I (bvCmp s op size x size y)
      (op.eval size ((HV.bv size x).denote I) ((HV.bv size y).denote I)) := by
  have hpos := wf_size_pos hx
  obtain ⟨a1, a2, a3⟩ := asZ3_ok (I := I) hx
  obtain ⟨b1, b2, b3⟩ := asZ3_ok (I := I) hy
  have hsymb : OkBool I (mkBool s (.bterm (.cmp op (asZ3 size x) (asZ3 size y))))
      (op.eval size ((HV.bv size x).denote I) ((HV.bv size y).denote I)) := by
    refine (mkBool_ok hs I (b := .cmp op (asZ3 size x) (asZ3 size y))
      (by simp only [B.WF]; exact ⟨a1, b1, by omega⟩)).congr ?_
    simp only [B.eval, a2, a3, b3]
  cases x with
  | con a =>
    cases y with
    | con b =>
      simp only [HV.WF] at hx hy
      simp only [bvCmp, sizeCheck, bind, Except.bind, ↓reduceIte, denote_con, denote_sym]
      refine ⟨_, rfl, trivial, ?_⟩
      simp only [denote_con, denote_sym, toSigned_eq_toInt hpos hx.2, toSigned_eq_toInt hpos hy.2]
      cases op <;> rfl
    | sym u =>
      simp only [bvCmp, sizeCheck, bind, Except.bind, ↓reduceIte]
      exact hsymb
  | sym t =>
    cases y <;>
    · simp only [bvCmp, sizeCheck, bind, Except.bind, ↓reduceIte]
      exact hsymb

theorem bvEq_ok {size : Nat} {x y : Rep} (hx : (HV.bv size x).WF) (hy : (HV.bv size y).WF) :
    OkBool I (bvEq s size x size y) ((HV.bv size x).denote I == (HV.bv size y).denote I) := by
  have hxl := denote_lt (I := I) hx
  have hyl := denote_lt (I := I) hy
  cases x with
  | con a =>
    cases y with
    | con b =>
      simp only [bvEq, sizeCheck, bind, Except.bind, ↓reduceIte, value_con, value_sym, pvEq, denote_con, denote_sym]
      exact (mkBool_pbool hs I _).congr (int_beq_natCast a b)
    | sym u =>
      simp only [HV.WF] at hy
      simp only [denote_con, denote_sym] at hxl
      simp only [bvEq, sizeCheck, bind, Except.bind, ↓reduceIte, value_con, value_sym, pvEq, denote_con, denote_sym]
      refine (mkBool_ok hs I (b := .cmp .eq u (.lit u.width (ofInt u.width (a : Int))))
        (by simp only [B.WF, T.WF, T.width]; exact ⟨hy.2.1, by omega, trivial⟩)).congr ?_
      simp only [B.eval, CmpOp.eval]
      rw [lit_ofInt_eval I (hy.2.2 ▸ hxl)]
      exact beq_comm_nat _ _
  | sym t =>
    simp only [HV.WF] at hx
    cases y with
    | con b =>
      simp only [denote_con, denote_sym] at hyl
      simp only [bvEq, sizeCheck, bind, Except.bind, ↓reduceIte, value_con, value_sym, pvEq, denote_con, denote_sym]
      refine (mkBool_ok hs I (b := .cmp .eq t (.lit t.width (ofInt t.width (b : Int))))
        (by simp only [B.WF, T.WF, T.width]; exact ⟨hx.2.1, by omega, trivial⟩)).congr ?_
      simp only [B.eval, CmpOp.eval]
      rw [lit_ofInt_eval I (hx.2.2 ▸ hyl)]
    | sym u =>
      simp only [HV.WF] at hy
      simp only [bvEq, sizeCheck, bind, Except.bind, ↓reduceIte, value_con, value_sym, pvEq, denote_con, denote_sym]
      refine (mkBool_ok hs I (b := .cmp .eq t u)
        (by simp only [B.WF]; exact ⟨hx.2.1, hy.2.1, by omega⟩)).congr ?_
      simp only [B.eval, CmpOp.eval]

theorem bvIsZero_ok {size : Nat} {x : Rep} (hx : (HV.bv size x).WF) :
    OkBool I (bvIsZero s x) ((HV.bv size x).denote I == 0) := by
  cases x with
  | con a =>
    simp only [bvIsZero, bind, Except.bind, value_con, value_sym, pvEq, denote_con, denote_sym]
    exact (mkBool_pbool hs I _).congr (int_beq_natCast a 0)
  | sym t =>
    simp only [HV.WF] at hx
    have hp : 0 < 2 ^ t.width := Nat.two_pow_pos _
    simp only [bvIsZero, bind, Except.bind, value_con, value_sym, pvEq, denote_con, denote_sym]
    refine (mkBool_ok hs I (b := .cmp .eq t (.lit t.width (ofInt t.width (0 : Int))))
      (by simp only [B.WF, T.WF, T.width]; exact ⟨hx.2.1, by omega, trivial⟩)).congr ?_
    simp only [B.eval, CmpOp.eval]
    have h0 : (T.lit t.width (ofInt t.width (0 : Int))).eval I = 0 := lit_ofInt_eval I (n := 0) hp
    rw [h0]

theorem bvIsNonZero_ok {size : Nat} {x : Rep} (hx : (HV.bv size x).WF) :
    OkBool I (bvIsNonZero s x) ((HV.bv size x).denote I != 0) := by
  cases x with
  | con a => exact ⟨_, rfl, trivial, rfl⟩
  | sym t =>
    simp only [HV.WF] at hx
    have hp : 0 < 2 ^ t.width := Nat.two_pow_pos _
    simp only [bvIsNonZero, denote_con, denote_sym]
    refine (mkBool_ok hs I (b := .not (.cmp .eq t (.lit t.width 0)))
      (by simp only [B.WF, T.WF, T.width]; exact ⟨hx.2.1, by omega, trivial⟩)).congr ?_
    simp only [B.eval, CmpOp.eval, T.eval, Nat.zero_mod]
    rfl

/-! ### HalmosBool algebra -/

theorem boolIsZero_ok {r : BRep} (h : (HV.bool r).WF) :
    OkBool I (boolIsZero s r) (!BRep.val I r) := by
  cases r with
  | con b => exact ⟨_, rfl, trivial, rfl⟩
  | sym b => exact (mkBool_ok hs I (b := .not b) h).congr rfl

theorem boolAnd_ok {x y : BRep} (hx : (HV.bool x).WF) (hy : (HV.bool y).WF) :
    OkBool I (boolAnd s x y) (BRep.val I x && BRep.val I y) := by
  obtain ⟨x1, x2⟩ := brepZ3_ok (I := I) hx
  obtain ⟨y1, y2⟩ := brepZ3_ok (I := I) hy
  have hsymb : OkBool I (mkBool s (.bterm (.and (brepZ3 x) (brepZ3 y)))) (BRep.val I x && BRep.val I y) :=
    (mkBool_ok hs I (b := .and (brepZ3 x) (brepZ3 y)) ⟨x1, y1⟩).congr (by simp only [B.eval, x2, y2])
  cases x with
  | con a =>
    cases a
    · exact (OkBool.of_self hx).congr (by simp only [BRep.val, Bool.false_and])
    · exact (OkBool.of_self hy).congr (by simp only [BRep.val, Bool.true_and])
  | sym a =>
    cases y with
    | con b =>
      cases b
      · exact (OkBool.of_self hy).congr (by simp only [BRep.val, Bool.and_false])
      · exact (OkBool.of_self hx).congr (by simp only [BRep.val, Bool.and_true])
    | sym b => exact hsymb

theorem boolOr_ok {x y : BRep} (hx : (HV.bool x).WF) (hy : (HV.bool y).WF) :
    OkBool I (boolOr s x y) (BRep.val I x || BRep.val I y) := by
  obtain ⟨x1, x2⟩ := brepZ3_ok (I := I) hx
  obtain ⟨y1, y2⟩ := brepZ3_ok (I := I) hy
  have hsymb : OkBool I (mkBool s (.bterm (.or (brepZ3 x) (brepZ3 y)))) (BRep.val I x || BRep.val I y) :=
    (mkBool_ok hs I (b := .or (brepZ3 x) (brepZ3 y)) ⟨x1, y1⟩).congr (by simp only [B.eval, x2, y2])
  cases x with
  | con a =>
    cases a
    · cases y with
      | con b =>
        cases b
        · exact (OkBool.of_self hy).congr (by simp only [BRep.val, Bool.or_false])
        · exact (OkBool.of_self hy).congr (by simp only [BRep.val, Bool.or_true])
      | sym b => exact (OkBool.of_self hy).congr (by simp only [BRep.val, Bool.false_or])
    · exact (OkBool.of_self hx).congr (by simp only [BRep.val, Bool.true_or])
  | sym a =>
    cases y with
    | con b =>
      cases b
      · exact (OkBool.of_self hx).congr (by simp only [BRep.val, Bool.or_false])
      · exact (OkBool.of_self hy).congr (by simp only [BRep.val, Bool.or_true])
    | sym b => exact hsymb

theorem boolXor_ok {x y : BRep} (hx : (HV.bool x).WF) (hy : (HV.bool y).WF) :
    OkBool I (boolXor s x y) (Bool.xor (BRep.val I x) (BRep.val I y)) := by
  obtain ⟨x1, x2⟩ := brepZ3_ok (I := I) hx
  obtain ⟨y1, y2⟩ := brepZ3_ok (I := I) hy
  have hsymb : OkBool I (mkBool s (.bterm (.xor (brepZ3 x) (brepZ3 y))))
      (Bool.xor (BRep.val I x) (BRep.val I y)) :=
    (mkBool_ok hs I (b := .xor (brepZ3 x) (brepZ3 y)) ⟨x1, y1⟩).congr (by simp only [B.eval, x2, y2])
  cases x with
  | con a =>
    cases a
    · cases y with
      | con b =>
        cases b
        · exact (OkBool.of_self hy).congr (by simp only [BRep.val, Bool.xor_false])
        · exact (boolIsZero_ok hs I hx).congr (by simp only [BRep.val]; rfl)
      | sym b => exact (OkBool.of_self hy).congr (by simp only [BRep.val, Bool.false_xor])
    · exact (boolIsZero_ok hs I hy).congr (by simp only [BRep.val, Bool.true_xor])
  | sym a =>
    cases y with
    | con b =>
      cases b
      · exact (OkBool.of_self hx).congr (by simp only [BRep.val, Bool.xor_false])
      · exact (boolIsZero_ok hs I hx).congr (by simp only [BRep.val, Bool.xor_true])
    | sym b => exact hsymb

theorem boolEq_ok {x y : BRep} (hx : (HV.bool x).WF) (hy : (HV.bool y).WF) :
    OkBool I (boolEq s x y) (BRep.val I x == BRep.val I y) := by
  cases x with
  | con a =>
    cases y with
    | con b => exact ⟨_, rfl, trivial, rfl⟩
    | sym b =>
      simp only [boolEq, bind, Except.bind, value_con, value_sym, pvEq]
      refine (mkBool_ok hs I (b := .beq b (.lit a)) ⟨hy, trivial⟩).congr ?_
      simp only [B.eval, BRep.val]
      cases a <;> cases b.eval I <;> rfl
  | sym a =>
    cases y with
    | con b =>
      simp only [boolEq, bind, Except.bind, value_con, value_sym, pvEq]
      exact (mkBool_ok hs I (b := .beq a (.lit b)) ⟨hx, trivial⟩).congr rfl
    | sym b =>
      simp only [boolEq, bind, Except.bind, value_con, value_sym, pvEq]
      exact (mkBool_ok hs I (b := .beq a b) ⟨hx, hy⟩).congr rfl

/-! ### byte / signextend / sym_byte_of -/

theorem bvByte_ok {size outSize : Nat} {x : Rep} (idx : Nat) (hx : (HV.bv size x).WF)
    (h8 : size = size / 8 * 8) (hout : 8 ≤ outSize) :
    OkBV I (bvByte s size x idx outSize) outSize
      (if idx ≥ size / 8 then 0
       else ((HV.bv size x).denote I / 2 ^ (8 * (size / 8 - 1 - idx))) % 256) := by
  have hpos : 0 < outSize := by omega
  have h256 : 256 ≤ 2 ^ outSize := pow_le_pow_two (a := 8) hout
  simp only [bvByte]
  rw [if_neg (by omega)]
  split
  · exact (mkBV_nat hs I (n := 0) hpos (by omega))
  · rename_i hlt
    cases x with
    | con n =>
      simp only [denote_con, denote_sym]
      exact mkBV_nat hs I hpos (Nat.lt_of_lt_of_le (Nat.mod_lt _ (by decide)) h256)
    | sym t =>
      simp only [HV.WF] at hx
      simp only [denote_con, denote_sym]
      have hwf : (T.extract ((size / 8 - 1 - idx) * 8 + 7) ((size / 8 - 1 - idx) * 8) t).WF := by
        simp only [T.WF]; exact ⟨hx.2.1, by omega, by omega⟩
      refine (mkBV_term hs I hpos hwf).congr ?_
      simp only [T.eval]
      rw [show (size / 8 - 1 - idx) * 8 + 7 + 1 - (size / 8 - 1 - idx) * 8 = 8 by omega,
        Nat.mul_comm (size / 8 - 1 - idx) 8]
      exact Nat.mod_eq_of_lt (Nat.lt_of_lt_of_le (Nat.mod_lt _ (by decide)) h256)

theorem bvSignextend_ok {x : Rep} (b : Nat) (hx : (HV.bv 256 x).WF) :
    OkBV I (bvSignextend s 256 x b) 256 (Word.signextend b ((HV.bv 256 x).denote I)) := by
  obtain ⟨a1, a2, a3⟩ := asZ3_ok (I := I) hx
  simp only [bvSignextend, Word.signextend]
  rw [if_neg (by omega)]
  split
  · exact OkBV.of_self hx
  · rename_i hlt
    have hwf : (T.sext (256 - (b + 1) * 8) (.extract ((b + 1) * 8 - 1) 0 (asZ3 256 x))).WF := by
      simp only [T.WF]; exact ⟨a1, by omega, by omega⟩
    refine (mkBV_term_eq hs I hwf (by simp only [T.width]; omega)).congr ?_
    simp only [T.eval, T.width, a3, Nat.pow_zero, Nat.div_one]
    rw [show (b + 1) * 8 - 1 + 1 - 0 = 8 * (b + 1) by omega,
      show 256 - (b + 1) * 8 + 8 * (b + 1) = 256 by omega]

end

/-! `sym_byte_of`: the 32-way if-then-else selects byte `idx` (0 = most significant), 0 beyond 31 -/

theorem symByteOf_go_ok (I : Interp) {idx w : T} (hi : idx.WF) (hw : w.WF) (hiw : idx.width = 256)
    (hww : w.width = 256) : ∀ (fuel curr : Nat), curr + fuel ≤ 32 →
      (symByteOf.go idx w fuel curr).WF ∧ (symByteOf.go idx w fuel curr).width = 8 ∧
      (symByteOf.go idx w fuel curr).eval I =
        (if curr ≤ idx.eval I ∧ idx.eval I < curr + fuel
         then (w.eval I / 2 ^ (8 * (31 - idx.eval I))) % 256 else 0) := by
  intro fuel
  induction fuel with
  | zero =>
    intro curr _
    refine ⟨by simp only [symByteOf.go, T.WF]; decide, rfl, ?_⟩
    simp only [symByteOf.go, T.eval, Nat.zero_mod]
    rw [if_neg (by omega)]
  | succ fuel ih =>
    intro curr hc
    obtain ⟨r1, r2, r3⟩ := ih (curr + 1) (by omega)
    have hcl : curr < 2 ^ 256 := Nat.lt_of_lt_of_le (show curr < 2 ^ 6 by omega) (pow_le_pow_two (by decide))
    refine ⟨?_, ?_, ?_⟩
    · simp only [symByteOf.go, T.WF, B.WF, T.width]
      exact ⟨⟨hi, by decide, hiw⟩, ⟨hw, by omega, by omega⟩, r1, by omega⟩
    · simp only [symByteOf.go, T.width]; omega
    · simp only [symByteOf.go, T.eval, B.eval, CmpOp.eval, r3, Nat.mod_eq_of_lt hcl, beq_iff_eq]
      by_cases heq : idx.eval I = curr
      · rw [if_pos heq, if_pos (by omega)]
        rw [show (31 - curr) * 8 + 7 + 1 - (31 - curr) * 8 = 8 by omega, heq, Nat.mul_comm]
      · rw [if_neg heq]
        by_cases hin : curr + 1 ≤ idx.eval I ∧ idx.eval I < curr + 1 + fuel
        · rw [if_pos hin, if_pos (by omega)]
        · rw [if_neg hin, if_neg (by omega)]

theorem symByteOf_ok (I : Interp) {idx w : T} (hi : idx.WF) (hw : w.WF) (hiw : idx.width = 256)
    (hww : w.width = 256) :
    (symByteOf idx w).WF ∧ (symByteOf idx w).width = 256 ∧
      (symByteOf idx w).eval I = Word.byte (idx.eval I) (w.eval I) := by
  obtain ⟨r1, r2, r3⟩ := symByteOf_go_ok I hi hw hiw hww 32 0 (by omega)
  refine ⟨r1, by simp only [symByteOf, T.width, r2], ?_⟩
  simp only [symByteOf, T.eval, r3, Word.byte]
  by_cases h : idx.eval I ≥ 32
  · rw [if_pos h, if_neg (by omega)]
  · rw [if_neg h, if_pos (by omega)]

end HalmosVerif.Lemmas.Word
