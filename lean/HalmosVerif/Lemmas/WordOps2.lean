/-
Lemmas.WordOps2 — mul / div / sdiv / mod / smod of the bit-vector model, generic in `size`, for operands in
every representation. The arithmetic abstraction passed by `SEVM.arith` is characterised by `UfIs`:
under the interpretation `I` the uninterpreted function `f` at width `w` is the exact EVM operation.
-/
import HalmosVerif.Lemmas.WordOps1

set_option linter.unusedSectionVars false
set_option linter.unusedSimpArgs false

namespace HalmosVerif.Lemmas.Word
open HalmosVerif.Model HalmosVerif.Spec

/-- under `I`, the uninterpreted function `f` at width `w` is `g` -/
def UfIs (I : Interp) (f : String) (w : Nat) (g : Nat → Nat → Nat) : Prop :=
  ∀ a b, I.uf2 f w a b = g a b

/-- width-generic SDIV / SMOD (at width 256 these are `Word.sdiv` / `Word.smod`) -/
def sdivW (w a b : Nat) : Nat := if b = 0 then 0 else ofInt w (Int.tdiv (toInt w a) (toInt w b))
def smodW (w a b : Nat) : Nat := if b = 0 then 0 else ofInt w (Int.tmod (toInt w a) (toInt w b))

theorem sdivW_256 (a b : Nat) : sdivW 256 a b = Word.sdiv a b := rfl
theorem smodW_256 (a b : Nat) : smodW 256 a b = Word.smod a b := rfl

theorem div_of_ne {a b : Nat} (h : ¬ b = 0) : Word.div a b = a / b := if_neg h
theorem mod_of_ne {a b : Nat} (h : ¬ b = 0) : Word.mod a b = a % b := if_neg h
theorem sdivW_of_ne {w a b : Nat} (h : ¬ b = 0) :
    sdivW w a b = ofInt w (Int.tdiv (toInt w a) (toInt w b)) := if_neg h
theorem smodW_of_ne {w a b : Nat} (h : ¬ b = 0) :
    smodW w a b = ofInt w (Int.tmod (toInt w a) (toInt w b)) := if_neg h

theorem toInt_one {size : Nat} (h : 1 < size) : toInt size 1 = 1 := by
  have h2 : 2 ^ 1 ≤ 2 ^ (size - 1) := pow_le_pow_two (by omega)
  have h3 : 2 ^ (size - 1) < 2 ^ size := pow_lt_pow_two (by omega)
  rw [toInt_of_lt (by omega), if_pos (by omega)]
  rfl

/-- the shift amount handed to lshl / lshr by the power-of-two fast paths -/
theorem pow2_shift {a size : Nat} (h : isPowerOfTwo a = true) (ha : a < 2 ^ size) :
    (bitLength a - 1) % 2 ^ size = bitLength a - 1 ∧ bitLength a - 1 < size ∧ a = 2 ^ (bitLength a - 1) := by
  have h1 := pow2_shift_lt h ha
  refine ⟨Nat.mod_eq_of_lt (Nat.lt_trans h1 Nat.lt_two_pow_self), h1, isPowerOfTwo_spec h⟩

section
variable {s : Simp} (hs : SimpSound s) (I : Interp)
include hs

theorem applyUf_mk_ok {size : Nat} {x y : Rep} (f : String)
    (hx : (HV.bv size x).WF) (hy : (HV.bv size y).WF) :
    ∃ v, applyUf f size (HV.value (.bv size x)) (HV.value (.bv size y)) = .ok v ∧
      OkBV I (.ok (mkBV s v size)) size
        (I.uf2 f size ((HV.bv size x).denote I) ((HV.bv size y).denote I) % 2 ^ size) := by
  have hpos := wf_size_pos hx
  have key : ∀ {tx ty : T}, tx.WF → ty.WF →
      OkBV I (.ok (mkBV s (.term (.uf2 f size tx ty)) size)) size
        (I.uf2 f size (tx.eval I) (ty.eval I) % 2 ^ size) := by
    intro tx ty h1 h2
    exact (mkBV_term_eq hs I (t := .uf2 f size tx ty) (by simp only [T.WF]; exact ⟨hpos, h1, h2⟩) rfl).congr
      (by simp only [T.eval])
  have hxl := denote_lt (I := I) hx
  have hyl := denote_lt (I := I) hy
  cases x with
  | con a =>
    have ha : (T.lit size (ofInt size (a : Int))).eval I = a := lit_ofInt_eval I hxl
    cases y with
    | con b =>
      have hb : (T.lit size (ofInt size (b : Int))).eval I = b := lit_ofInt_eval I hyl
      refine ⟨_, rfl, ?_⟩
      have := key (tx := .lit size (ofInt size (a : Int))) (ty := .lit size (ofInt size (b : Int))) hpos hpos
      rw [ha, hb] at this
      exact this
    | sym u =>
      refine ⟨_, rfl, ?_⟩
      have := key (tx := .lit size (ofInt size (a : Int))) (ty := u) hpos hy.2.1
      rw [ha] at this
      exact this
  | sym t =>
    cases y with
    | con b =>
      have hb : (T.lit size (ofInt size (b : Int))).eval I = b := lit_ofInt_eval I hyl
      refine ⟨_, rfl, ?_⟩
      have := key (tx := t) (ty := .lit size (ofInt size (b : Int))) hx.2.1 hpos
      rw [hb] at this
      exact this
    | sym u =>
      refine ⟨_, rfl, ?_⟩
      exact key hx.2.1 hy.2.1

/-- the abstraction applied and wrapped: the exact operation `g` (which stays within the width) -/
theorem applyUf_is_ok {size : Nat} {x y : Rep} {f : String} {g : Nat → Nat → Nat} (hf : UfIs I f size g)
    (hx : (HV.bv size x).WF) (hy : (HV.bv size y).WF)
    (hg : g ((HV.bv size x).denote I) ((HV.bv size y).denote I) < 2 ^ size) :
    ∃ v, applyUf f size (HV.value (.bv size x)) (HV.value (.bv size y)) = .ok v ∧
      OkBV I (.ok (mkBV s v size)) size (g ((HV.bv size x).denote I) ((HV.bv size y).denote I)) := by
  obtain ⟨v, hv, hok⟩ := applyUf_mk_ok hs I f hx hy
  refine ⟨v, hv, hok.congr ?_⟩
  rw [hf, Nat.mod_eq_of_lt hg]

/-! ### mul -/

theorem bvMul_ok {size : Nat} {x y : Rep} (abs : Option String)
    (habs : ∀ f, abs = some f → UfIs I f size (fun a b => a * b % 2 ^ size))
    (hx : (HV.bv size x).WF) (hy : (HV.bv size y).WF) :
    OkBV I (bvMul s size x size y abs) size
      (((HV.bv size x).denote I * (HV.bv size y).denote I) % 2 ^ size) := by
  have hpos := wf_size_pos hx
  have hp := Nat.two_pow_pos size
  have hxl := denote_lt (I := I) hx
  have hyl := denote_lt (I := I) hy
  have hexact : ∃ v, pvArith .mul (· * ·) (HV.value (.bv size x)) (HV.value (.bv size y)) = .ok v ∧
      OkBV I (.ok (mkBV s v size)) size (((HV.bv size x).denote I * (HV.bv size y).denote I) % 2 ^ size) :=
    pvArith_mk_ok hs I .mul (· * ·) _ hx hy
      (by rw [← Int.natCast_mul, ofInt_natCast]) (by simp only [BinOp.eval])
  have hexact' : ∃ v, pvArith .mul (· * ·) (HV.value (.bv size y)) (HV.value (.bv size x)) = .ok v ∧
      OkBV I (.ok (mkBV s v size)) size (((HV.bv size x).denote I * (HV.bv size y).denote I) % 2 ^ size) :=
    pvArith_mk_ok hs I .mul (· * ·) _ hy hx
      (by rw [← Int.natCast_mul, ofInt_natCast, Nat.mul_comm]) (by simp only [BinOp.eval]; rw [Nat.mul_comm])
  cases x with
  | con a =>
    cases y with
    | con b =>
      simp only [bvMul, sizeCheck, ↓reduceIte, bind, Except.bind, denote_con]
      exact (mkBV_int hs I hpos _).congr (ofInt_natCast size (a * b))
    | sym u =>
      simp only [bvMul, sizeCheck, ↓reduceIte, bind, Except.bind, denote_con]
      by_cases h0 : a = 0
      · subst h0
        rw [if_pos rfl]
        exact (OkBV.of_self hx).congr (by rw [denote_con, Nat.zero_mul, Nat.zero_mod])
      · rw [if_neg h0]
        by_cases h1 : a = 1
        · subst h1
          rw [if_pos rfl]
          exact (OkBV.of_self hy).congr (by rw [Nat.one_mul, Nat.mod_eq_of_lt hyl])
        · rw [if_neg h1]
          by_cases hp2 : isPowerOfTwo a = true
          · rw [if_pos hp2]
            obtain ⟨k1, k2, k3⟩ := pow2_shift hp2 (show a < 2 ^ size from hxl)
            rw [k1]
            have hk : (HV.bv size (.con (bitLength a - 1))).WF := ⟨hpos, Nat.lt_trans k2 Nat.lt_two_pow_self⟩
            refine (bvLshl_ok hs I hy hk).congr ?_
            rw [denote_con, if_neg (by omega), Nat.mul_comm]
            conv => rhs; rw [k3]
          · rw [if_neg hp2]
            obtain ⟨v, hv, hok⟩ := hexact
            simp only [value_con, value_sym] at hv
            simp only [value_con, value_sym, hv]
            exact hok
  | sym t =>
    cases y with
    | con b =>
      simp only [bvMul, sizeCheck, ↓reduceIte, bind, Except.bind, denote_con]
      by_cases h0 : b = 0
      · subst h0
        rw [if_pos rfl]
        exact (OkBV.of_self hy).congr (by rw [denote_con, Nat.mul_zero, Nat.zero_mod])
      · rw [if_neg h0]
        by_cases h1 : b = 1
        · subst h1
          rw [if_pos rfl]
          exact (OkBV.of_self hx).congr (by rw [Nat.mul_one, Nat.mod_eq_of_lt hxl])
        · rw [if_neg h1]
          by_cases hp2 : isPowerOfTwo b = true
          · rw [if_pos hp2]
            obtain ⟨k1, k2, k3⟩ := pow2_shift hp2 (show b < 2 ^ size from hyl)
            rw [k1]
            have hk : (HV.bv size (.con (bitLength b - 1))).WF := ⟨hpos, Nat.lt_trans k2 Nat.lt_two_pow_self⟩
            refine (bvLshl_ok hs I hx hk).congr ?_
            rw [denote_con, if_neg (by omega)]
            conv => rhs; rw [k3]
          · rw [if_neg hp2]
            obtain ⟨v, hv, hok⟩ := hexact'
            simp only [value_con, value_sym] at hv
            simp only [value_con, value_sym, hv]
            exact hok
    | sym u =>
      cases abs with
      | none =>
        obtain ⟨v, hv, hok⟩ := hexact
        simp only [bvMul, sizeCheck, ↓reduceIte, bind, Except.bind, hv]
        exact hok
      | some f =>
        obtain ⟨v, hv, hok⟩ := applyUf_is_ok hs I (habs f rfl) hx hy (Nat.mod_lt _ hp)
        simp only [bvMul, sizeCheck, ↓reduceIte, bind, Except.bind, hv]
        exact hok

/-! ### div / mod -/

theorem bvDiv_ok {size : Nat} {x y : Rep} (f : String) (hf : UfIs I f size Word.div)
    (hx : (HV.bv size x).WF) (hy : (HV.bv size y).WF) :
    OkBV I (bvDiv s size x size y (some f)) size
      (Word.div ((HV.bv size x).denote I) ((HV.bv size y).denote I)) := by
  have hpos := wf_size_pos hx
  have hxl := denote_lt (I := I) hx
  have hyl := denote_lt (I := I) hy
  have hle : Word.div ((HV.bv size x).denote I) ((HV.bv size y).denote I) ≤ (HV.bv size x).denote I := by
    unfold Word.div; split
    · omega
    · exact Nat.div_le_self _ _
  obtain ⟨v, hv, hok⟩ := applyUf_is_ok hs I hf hx hy (Nat.lt_of_le_of_lt hle hxl)
  cases y with
  | con b =>
    by_cases h0 : b = 0
    · subst h0
      simp only [bvDiv, sizeCheck, ↓reduceIte, bind, Except.bind]
      exact (OkBV.of_self hy).congr (by simp only [denote_con, Word.div, ↓reduceIte])
    · by_cases h1 : b = 1
      · subst h1
        simp only [bvDiv, sizeCheck, ↓reduceIte, bind, Except.bind, if_neg h0]
        exact (OkBV.of_self hx).congr (Eq.trans (Nat.div_one _).symm (div_of_ne (b := 1) h0).symm)
      · cases x with
        | con a =>
          simp only [bvDiv, sizeCheck, ↓reduceIte, bind, Except.bind, if_neg h0, if_neg h1]
          exact (mkBV_nat hs I hpos (Nat.lt_of_le_of_lt (Nat.div_le_self a b) hxl)).congr
            (div_of_ne (a := a) (b := b) h0).symm
        | sym t =>
          by_cases hp2 : isPowerOfTwo b = true
          · simp only [bvDiv, sizeCheck, ↓reduceIte, bind, Except.bind, if_neg h0, if_neg h1, if_pos hp2]
            obtain ⟨k1, k2, k3⟩ := pow2_shift hp2 (show b < 2 ^ size from hyl)
            rw [k1]
            have hk : (HV.bv size (.con (bitLength b - 1))).WF := ⟨hpos, Nat.lt_trans k2 Nat.lt_two_pow_self⟩
            refine (bvLshr_ok hs I hx hk).congr ?_
            rw [denote_con, if_neg (by omega)]
            refine Eq.trans ?_ (div_of_ne (b := b) h0).symm
            conv => rhs; rw [k3]
          · simp only [bvDiv, sizeCheck, ↓reduceIte, bind, Except.bind, if_neg h0, if_neg h1, if_neg hp2, hv]
            exact hok
  | sym u =>
    simp only [bvDiv, sizeCheck, ↓reduceIte, bind, Except.bind, hv]
    exact hok

theorem bvMod_ok {size : Nat} {x y : Rep} (f : String) (hf : UfIs I f size Word.mod)
    (hx : (HV.bv size x).WF) (hy : (HV.bv size y).WF) :
    OkBV I (bvMod s size x size y (some f)) size
      (Word.mod ((HV.bv size x).denote I) ((HV.bv size y).denote I)) := by
  have hpos := wf_size_pos hx
  have hxl := denote_lt (I := I) hx
  have hyl := denote_lt (I := I) hy
  have hle : Word.mod ((HV.bv size x).denote I) ((HV.bv size y).denote I) ≤ (HV.bv size x).denote I := by
    unfold Word.mod; split
    · omega
    · exact Nat.mod_le _ _
  obtain ⟨v, hv, hok⟩ := applyUf_is_ok hs I hf hx hy (Nat.lt_of_le_of_lt hle hxl)
  cases y with
  | con b =>
    by_cases h0 : b = 0
    · subst h0
      simp only [bvMod, sizeCheck, ↓reduceIte, bind, Except.bind]
      exact (OkBV.of_self hy).congr (by simp only [denote_con, Word.mod, ↓reduceIte])
    · by_cases h1 : b = 1
      · subst h1
        simp only [bvMod, sizeCheck, ↓reduceIte, bind, Except.bind, if_neg h0]
        refine (mkBV_nat hs I (n := 0) hpos (Nat.two_pow_pos size)).congr ?_
        exact Eq.trans (Nat.mod_one _).symm (mod_of_ne (b := 1) h0).symm
      · cases x with
        | con a =>
          simp only [bvMod, sizeCheck, ↓reduceIte, bind, Except.bind, if_neg h0, if_neg h1]
          exact (mkBV_nat hs I hpos (Nat.lt_of_le_of_lt (Nat.mod_le a b) hxl)).congr
            (mod_of_ne (a := a) (b := b) h0).symm
        | sym t =>
          by_cases hp2 : isPowerOfTwo b = true
          · simp only [bvMod, sizeCheck, ↓reduceIte, bind, Except.bind, if_neg h0, if_neg h1, if_pos hp2]
            obtain ⟨k1, k2, k3⟩ := pow2_shift hp2 (show b < 2 ^ size from hyl)
            have hk1 : 1 ≤ bitLength b - 1 := by
              false_or_by_contra
              rename_i hh
              have : bitLength b - 1 = 0 := by omega
              rw [this] at k3
              omega
            have hwf : (T.zext (size - (bitLength b - 1)) (.extract (bitLength b - 1 - 1) 0 t)).WF := by
              simp only [T.WF]; exact ⟨hx.2.1, by omega, by have := hx.2.2; omega⟩
            refine (mkBV_term_eq hs I hwf (by simp only [T.width]; omega)).congr ?_
            refine Eq.trans ?_ (mod_of_ne (b := b) h0).symm
            simp only [T.eval, denote_sym, Nat.pow_zero, Nat.div_one]
            rw [show bitLength b - 1 - 1 + 1 - 0 = bitLength b - 1 by omega]
            conv => rhs; rw [k3]
          · simp only [bvMod, sizeCheck, ↓reduceIte, bind, Except.bind, if_neg h0, if_neg h1, if_neg hp2, hv]
            exact hok
  | sym u =>
    simp only [bvMod, sizeCheck, ↓reduceIte, bind, Except.bind, hv]
    exact hok

/-! ### sdiv / smod -/

theorem bvSdiv_ok {size : Nat} {x y : Rep} (f : String) (hf : UfIs I f size (sdivW size)) (hsz : 1 < size)
    (hx : (HV.bv size x).WF) (hy : (HV.bv size y).WF) :
    OkBV I (bvSdiv s size x size y (some f)) size
      (sdivW size ((HV.bv size x).denote I) ((HV.bv size y).denote I)) := by
  have hpos := wf_size_pos hx
  have hxl := denote_lt (I := I) hx
  have hyl := denote_lt (I := I) hy
  have hlt : sdivW size ((HV.bv size x).denote I) ((HV.bv size y).denote I) < 2 ^ size := by
    unfold sdivW; split
    · exact Nat.two_pow_pos size
    · exact ofInt_lt _ _
  obtain ⟨v, hv, hok⟩ := applyUf_is_ok hs I hf hx hy hlt
  cases y with
  | con b =>
    by_cases h0 : b = 0
    · subst h0
      simp only [bvSdiv, sizeCheck, ↓reduceIte, bind, Except.bind]
      exact (OkBV.of_self hy).congr (by simp only [denote_con, sdivW, ↓reduceIte])
    · by_cases h1 : b = 1
      · subst h1
        simp only [bvSdiv, sizeCheck, ↓reduceIte, bind, Except.bind, if_neg h0]
        refine (OkBV.of_self hx).congr ?_
        refine Eq.trans ?_ (sdivW_of_ne (b := 1) h0).symm
        rw [toInt_one hsz, Int.tdiv_one, ofInt_toInt]
        exact (Nat.mod_eq_of_lt hxl).symm
      · cases x with
        | con a =>
          simp only [bvSdiv, sizeCheck, ↓reduceIte, bind, Except.bind, if_neg h0, if_neg h1]
          refine (mkBV_binT_ok hs I .sdiv (tx := .lit size a) (ty := .lit size b) hpos hpos rfl rfl).congr ?_
          rw [lit_eval_of_lt I (show a < 2 ^ size from hxl), lit_eval_of_lt I (show b < 2 ^ size from hyl)]
          refine Eq.trans ?_ (sdivW_of_ne (b := b) h0).symm
          simp only [BinOp.eval, T.width, if_neg h0]
          rfl
        | sym t =>
          simp only [bvSdiv, sizeCheck, ↓reduceIte, bind, Except.bind, if_neg h0, if_neg h1, hv]
          exact hok
  | sym u =>
    simp only [bvSdiv, sizeCheck, ↓reduceIte, bind, Except.bind, hv]
    exact hok

theorem bvSmod_ok {size : Nat} {x y : Rep} (f : String) (hf : UfIs I f size (smodW size)) (hsz : 1 < size)
    (hx : (HV.bv size x).WF) (hy : (HV.bv size y).WF) :
    OkBV I (bvSmod s size x size y (some f)) size
      (smodW size ((HV.bv size x).denote I) ((HV.bv size y).denote I)) := by
  have hpos := wf_size_pos hx
  have hxl := denote_lt (I := I) hx
  have hyl := denote_lt (I := I) hy
  have hlt : smodW size ((HV.bv size x).denote I) ((HV.bv size y).denote I) < 2 ^ size := by
    unfold smodW; split
    · exact Nat.two_pow_pos size
    · exact ofInt_lt _ _
  obtain ⟨v, hv, hok⟩ := applyUf_is_ok hs I hf hx hy hlt
  cases y with
  | con b =>
    by_cases h0 : b = 0
    · subst h0
      simp only [bvSmod, sizeCheck, ↓reduceIte, bind, Except.bind]
      exact (OkBV.of_self hy).congr (by simp only [denote_con, smodW, ↓reduceIte])
    · by_cases h1 : b = 1
      · subst h1
        simp only [bvSmod, sizeCheck, ↓reduceIte, bind, Except.bind, if_neg h0]
        refine (mkBV_nat hs I (n := 0) hpos (Nat.two_pow_pos size)).congr ?_
        refine Eq.trans ?_ (smodW_of_ne (b := 1) h0).symm
        rw [toInt_one hsz, Int.tmod_one]
        rfl
      · cases x with
        | con a =>
          simp only [bvSmod, sizeCheck, ↓reduceIte, bind, Except.bind, if_neg h0, if_neg h1]
          refine (mkBV_binT_ok hs I .srem (tx := .lit size a) (ty := .lit size b) hpos hpos rfl rfl).congr ?_
          rw [lit_eval_of_lt I (show a < 2 ^ size from hxl), lit_eval_of_lt I (show b < 2 ^ size from hyl)]
          refine Eq.trans ?_ (smodW_of_ne (b := b) h0).symm
          simp only [BinOp.eval, T.width, if_neg h0]
          rfl
        | sym t =>
          simp only [bvSmod, sizeCheck, ↓reduceIte, bind, Except.bind, if_neg h0, if_neg h1, hv]
          exact hok
  | sym u =>
    simp only [bvSmod, sizeCheck, ↓reduceIte, bind, Except.bind, hv]
    exact hok

end
end HalmosVerif.Lemmas.Word
