/-
Lemmas.WordOps3 — addmod / mulmod (including the widened 264- and 512-bit symbolic paths, which are exact:
the sum / product cannot overflow the wider type) and exp (concrete modular power, the unrolled product for a
small concrete exponent, the abstraction otherwise).
-/
import HalmosVerif.Lemmas.WordOps2

set_option linter.unusedSectionVars false
set_option linter.unusedSimpArgs false

namespace HalmosVerif.Lemmas.Word
open HalmosVerif.Model HalmosVerif.Spec

theorem OkBV.ok_inj {I : Interp} {v : HV} {size n : Nat} (h : OkBV I (.ok v) size n) :
    ∃ r, v = .bv size r ∧ (HV.bv size r).WF ∧ (HV.bv size r).denote I = n := by
  obtain ⟨r, h1, h2, h3⟩ := h
  exact ⟨r, Except.ok.inj h1, h2, h3⟩

theorem addmod_eq_mod (a b n : Nat) : Word.mod (a + b) n = Word.addmod a b n := rfl
theorem mulmod_eq_mod (a b n : Nat) : Word.mod (a * b) n = Word.mulmod a b n := rfl

theorem wmod_lt {a n M : Nat} (hn : n < M) : Word.mod a n < M := by
  unfold Word.mod; split
  · omega
  · rename_i h; exact Nat.lt_trans (Nat.mod_lt _ (by omega)) hn

section
variable {s : Simp} (hs : SimpSound s) (I : Interp)
include hs

/-! ### addmod -/

theorem bvAddmodWide_ok {size : Nat} {x y m : Rep} (f : String) (hf : UfIs I f (size + 8) Word.mod)
    (hx : (HV.bv size x).WF) (hy : (HV.bv size y).WF) (hm : (HV.bv size m).WF) :
    OkBV I (bvAddmodWide s size x size y size m (some f)) size
      (Word.addmod ((HV.bv size x).denote I) ((HV.bv size y).denote I) ((HV.bv size m).denote I)) := by
  have hpos := wf_size_pos hx
  have hxl := denote_lt (I := I) hx
  have hyl := denote_lt (I := I) hy
  have hml := denote_lt (I := I) hm
  have hwide : 2 ^ size + 2 ^ size ≤ 2 ^ (size + 8) := by
    rw [Nat.pow_add]; have := Nat.two_pow_pos size; omega
  obtain ⟨a1, e1, w1, d1⟩ := (reBV_bv_ok hs I (size := size + 8) (by omega) hx).ok_inj
  obtain ⟨a2, e2, w2, d2⟩ := (reBV_bv_ok hs I (size := size + 8) (by omega) hy).ok_inj
  obtain ⟨a3, e3, w3, d3⟩ := (reBV_bv_ok hs I (size := size + 8) (by omega) hm).ok_inj
  rw [Nat.mod_eq_of_lt (by omega)] at d1 d2 d3
  obtain ⟨r1, e4, w4, d4⟩ := bvAdd_ok hs I w1 w2
  rw [d1, d2, Nat.mod_eq_of_lt (by omega)] at d4
  obtain ⟨r2, e5, w5, d5⟩ := bvMod_ok hs I f hf w4 w3
  rw [d4, d3] at d5
  simp only [bvAddmodWide, e1, e2, e3, e4, e5, bind, Except.bind, ne_eq, not_true_eq_false, ↓reduceIte]
  refine (reBV_bv_ok hs I hpos w5).congr ?_
  rw [d5, addmod_eq_mod]
  exact Nat.mod_eq_of_lt (addmod_eq_mod _ _ _ ▸ wmod_lt hml)

theorem bvAddmod_ok {size : Nat} {x y m : Rep} (f : String) (hf : UfIs I f (size + 8) Word.mod)
    (hx : (HV.bv size x).WF) (hy : (HV.bv size y).WF) (hm : (HV.bv size m).WF) :
    OkBV I (bvAddmod s size x size y size m (some f)) size
      (Word.addmod ((HV.bv size x).denote I) ((HV.bv size y).denote I) ((HV.bv size m).denote I)) := by
  have hpos := wf_size_pos hx
  have hml := denote_lt (I := I) hm
  have hwide := bvAddmodWide_ok hs I f hf hx hy hm
  cases x with
  | con a =>
    cases y with
    | con b =>
      cases m with
      | con n =>
        simp only [bvAddmod, sizeCheck, ↓reduceIte, bind, Except.bind]
        by_cases h0 : n = 0
        · subst h0
          rw [if_pos rfl]
          exact (OkBV.of_self hm).congr rfl
        · rw [if_neg h0]
          have hlt : (a + b) % n < 2 ^ size := Nat.lt_trans (Nat.mod_lt _ (by omega)) hml
          exact (mkBV_nat hs I hpos hlt).congr (mod_of_ne (a := a + b) (b := n) h0).symm
      | sym _ => simp only [bvAddmod, sizeCheck, ↓reduceIte, bind, Except.bind]; exact hwide
    | sym _ => cases m <;> (simp only [bvAddmod, sizeCheck, ↓reduceIte, bind, Except.bind]; exact hwide)
  | sym _ =>
    cases y <;> cases m <;> (simp only [bvAddmod, sizeCheck, ↓reduceIte, bind, Except.bind]; exact hwide)

/-! ### mulmod -/

theorem bvMulmodWide_ok {size : Nat} {x y m : Rep} (mulAbs : Option String) (fm : String)
    (hmul : ∀ f, mulAbs = some f → UfIs I f (size * 2) (fun a b => a * b % 2 ^ (size * 2)))
    (hmod : UfIs I fm (size * 2) Word.mod)
    (hx : (HV.bv size x).WF) (hy : (HV.bv size y).WF) (hm : (HV.bv size m).WF) :
    OkBV I (bvMulmodWide s size x size y size m mulAbs (some fm)) size
      (Word.mulmod ((HV.bv size x).denote I) ((HV.bv size y).denote I) ((HV.bv size m).denote I)) := by
  have hpos := wf_size_pos hx
  have hxl := denote_lt (I := I) hx
  have hyl := denote_lt (I := I) hy
  have hml := denote_lt (I := I) hm
  have hsq : 2 ^ (size * 2) = 2 ^ size * 2 ^ size := by rw [Nat.mul_two, Nat.pow_add]
  have hwide : 2 ^ size ≤ 2 ^ (size * 2) := pow_le_pow_two (by omega)
  have hprod : (HV.bv size x).denote I * (HV.bv size y).denote I < 2 ^ (size * 2) := by
    rw [hsq]; exact Nat.mul_lt_mul'' hxl hyl
  obtain ⟨a1, e1, w1, d1⟩ := (reBV_bv_ok hs I (size := size * 2) (by omega) hx).ok_inj
  obtain ⟨a2, e2, w2, d2⟩ := (reBV_bv_ok hs I (size := size * 2) (by omega) hy).ok_inj
  obtain ⟨a3, e3, w3, d3⟩ := (reBV_bv_ok hs I (size := size * 2) (by omega) hm).ok_inj
  rw [Nat.mod_eq_of_lt (by omega)] at d1 d2 d3
  obtain ⟨r1, e4, w4, d4⟩ := bvMul_ok hs I mulAbs hmul w1 w2
  rw [d1, d2, Nat.mod_eq_of_lt hprod] at d4
  obtain ⟨r2, e5, w5, d5⟩ := bvMod_ok hs I fm hmod w4 w3
  rw [d4, d3] at d5
  simp only [bvMulmodWide, e1, e2, e3, e4, e5, bind, Except.bind, ne_eq, not_true_eq_false, ↓reduceIte]
  refine (reBV_bv_ok hs I hpos w5).congr ?_
  rw [d5, mulmod_eq_mod]
  exact Nat.mod_eq_of_lt (mulmod_eq_mod _ _ _ ▸ wmod_lt hml)

theorem bvMulmod_ok {size : Nat} {x y m : Rep} (mulAbs : Option String) (fm : String)
    (hmul : ∀ f, mulAbs = some f → UfIs I f (size * 2) (fun a b => a * b % 2 ^ (size * 2)))
    (hmod : UfIs I fm (size * 2) Word.mod)
    (hx : (HV.bv size x).WF) (hy : (HV.bv size y).WF) (hm : (HV.bv size m).WF) :
    OkBV I (bvMulmod s size x size y size m mulAbs (some fm)) size
      (Word.mulmod ((HV.bv size x).denote I) ((HV.bv size y).denote I) ((HV.bv size m).denote I)) := by
  have hpos := wf_size_pos hx
  have hml := denote_lt (I := I) hm
  have hwide := bvMulmodWide_ok hs I mulAbs fm hmul hmod hx hy hm
  cases x with
  | con a =>
    cases y with
    | con b =>
      cases m with
      | con n =>
        simp only [bvMulmod, sizeCheck, ↓reduceIte, bind, Except.bind]
        by_cases h0 : n = 0
        · subst h0
          rw [if_pos rfl]
          exact (OkBV.of_self hm).congr rfl
        · rw [if_neg h0]
          have hlt : (a * b) % n < 2 ^ size := Nat.lt_trans (Nat.mod_lt _ (by omega)) hml
          exact (mkBV_nat hs I hpos hlt).congr (mod_of_ne (a := a * b) (b := n) h0).symm
      | sym _ => simp only [bvMulmod, sizeCheck, ↓reduceIte, bind, Except.bind]; exact hwide
    | sym _ => cases m <;> (simp only [bvMulmod, sizeCheck, ↓reduceIte, bind, Except.bind]; exact hwide)
  | sym _ =>
    cases y <;> cases m <;> (simp only [bvMulmod, sizeCheck, ↓reduceIte, bind, Except.bind]; exact hwide)

/-! ### exp -/

/-- the unrolled product: after `k` more multiplications by `x`, `x^j` has become `x^(j+k)` -/
theorem bvExp_loop_ok {size : Nat} {x : Rep} (mulAbs : Option String)
    (hmul : ∀ f, mulAbs = some f → UfIs I f size (fun a b => a * b % 2 ^ size))
    (hx : (HV.bv size x).WF) :
    ∀ (k j : Nat) (acc : Rep), (HV.bv size acc).WF →
      (HV.bv size acc).denote I = (HV.bv size x).denote I ^ j % 2 ^ size →
      OkBV I (bvExp.loop s size x mulAbs k (.bv size acc)) size
        ((HV.bv size x).denote I ^ (j + k) % 2 ^ size) := by
  intro k
  induction k with
  | zero =>
    intro j acc hacc hd
    exact (OkBV.of_self hacc).congr hd
  | succ k ih =>
    intro j acc hacc hd
    obtain ⟨r, e, w, d⟩ := bvMul_ok hs I mulAbs hmul hx hacc
    simp only [bvExp.loop, e, bind, Except.bind]
    refine (ih (j + 1) r w ?_).congr (by rw [Nat.add_assoc, Nat.add_comm 1 k])
    rw [d, hd, Nat.mul_mod, Nat.mod_mod, ← Nat.mul_mod, Nat.pow_succ, Nat.mul_comm]

theorem bvExp_ok {size : Nat} {x y : Rep} (fexp : String) (mulAbs : Option String) (lim : Nat)
    (hexp : UfIs I fexp size (fun a b => a ^ b % 2 ^ size))
    (hmul : ∀ f, mulAbs = some f → UfIs I f size (fun a b => a * b % 2 ^ size))
    (hx : (HV.bv size x).WF) (hy : (HV.bv size y).WF) :
    OkBV I (bvExp s size x size y (some fexp) mulAbs lim) size
      ((HV.bv size x).denote I ^ (HV.bv size y).denote I % 2 ^ size) := by
  have hpos := wf_size_pos hx
  have hp := Nat.two_pow_pos size
  have hxl := denote_lt (I := I) hx
  obtain ⟨v, hv, hok⟩ := applyUf_is_ok hs I hexp hx hy (Nat.mod_lt _ hp)
  cases y with
  | con b =>
    by_cases h0 : b = 0
    · subst h0
      simp only [bvExp, sizeCheck, ↓reduceIte, bind, Except.bind]
      refine (mkBV_int hs I hpos 1).congr ?_
      rw [denote_con, Nat.pow_zero]
      exact ofInt_natCast size 1
    · by_cases h1 : b = 1
      · subst h1
        simp only [bvExp, sizeCheck, ↓reduceIte, bind, Except.bind, if_neg h0]
        refine (OkBV.of_self hx).congr ?_
        rw [denote_con, Nat.pow_one, Nat.mod_eq_of_lt hxl]
      · cases x with
        | con a =>
          simp only [bvExp, sizeCheck, ↓reduceIte, bind, Except.bind, if_neg h0, if_neg h1]
          rw [powMod_eq]
          exact mkBV_nat hs I hpos (Nat.mod_lt _ hp)
        | sym t =>
          by_cases hle : b ≤ lim
          · simp only [bvExp, sizeCheck, ↓reduceIte, bind, Except.bind, if_neg h0, if_neg h1, if_pos hle]
            refine (bvExp_loop_ok hs I mulAbs hmul hx (b - 1) 1 (.sym t) hx ?_).congr ?_
            · rw [Nat.pow_one, Nat.mod_eq_of_lt hxl]
            · rw [denote_con, show 1 + (b - 1) = b by omega]
          · simp only [bvExp, sizeCheck, ↓reduceIte, bind, Except.bind, if_neg h0, if_neg h1, if_neg hle, hv]
            exact hok
  | sym u =>
    simp only [bvExp, sizeCheck, ↓reduceIte, bind, Except.bind, hv]
    exact hok

/-- EXP by a small concrete exponent `2 ≤ k ≤ smt_exp_by_const` of a symbolic base is the unrolled product
    `x * (x * (… * x))` (through the multiplication abstraction); the exponentiation abstraction is not used -/
theorem bvExp_const_ok {size : Nat} {t : T} {k : Nat} (expAbs mulAbs : Option String) (lim : Nat)
    (hmul : ∀ f, mulAbs = some f → UfIs I f size (fun a b => a * b % 2 ^ size))
    (hx : (HV.bv size (.sym t)).WF) (h2 : 2 ≤ k) (hk : k ≤ lim) :
    bvExp s size (.sym t) size (.con k) expAbs mulAbs lim =
        bvExp.loop s size (.sym t) mulAbs (k - 1) (.bv size (.sym t)) ∧
      OkBV I (bvExp s size (.sym t) size (.con k) expAbs mulAbs lim) size (t.eval I ^ k % 2 ^ size) := by
  have hxl := denote_lt (I := I) hx
  have e : bvExp s size (.sym t) size (.con k) expAbs mulAbs lim =
      bvExp.loop s size (.sym t) mulAbs (k - 1) (.bv size (.sym t)) := by
    simp only [bvExp, sizeCheck, ↓reduceIte, bind, Except.bind, if_neg (show ¬ k = 0 by omega),
      if_neg (show ¬ k = 1 by omega), if_pos hk]
  refine ⟨e, ?_⟩
  rw [e]
  refine (bvExp_loop_ok hs I mulAbs hmul hx (k - 1) 1 (.sym t) hx ?_).congr ?_
  · rw [Nat.pow_one, Nat.mod_eq_of_lt hxl]
  · rw [denote_sym, show 1 + (k - 1) = k by omega]

end
end HalmosVerif.Lemmas.Word
