/-
Lemmas.WordStd — under a standard interpretation (`Interp.Std`) each arithmetic abstraction that `SEVM.run`
hands to the word instructions (`f_evm_bvudiv_256`, `f_evm_bvurem_{256,264,512}`, `f_evm_bvmul_{256,512}`,
`f_evm_bvsdiv_256`, `f_evm_bvsrem_256`, `f_evm_exp_256`) is the exact EVM operation.
Also: the stand-in simplifiers `foldSimp` / `idSimp` are sound (`SimpSound`), so the hypotheses of the C06
theorems are satisfiable.
-/
import HalmosVerif.Lemmas.WordOps2
import HalmosVerif.Model.SimpFold

namespace HalmosVerif.Lemmas.Word
open HalmosVerif.Model HalmosVerif.Spec

section
variable {I : Interp} (hI : I.Std)
include hI

theorem std_udiv256 : UfIs I (ufName "bvudiv" 256) 256 Word.div := by
  intro a b; apply hI; unfold stdUf2
  rw [if_pos (by decide)]; rfl

theorem std_urem256 : UfIs I (ufName "bvurem" 256) 256 Word.mod := by
  intro a b; apply hI; unfold stdUf2
  rw [if_neg (by decide), if_pos (by decide)]; rfl

theorem std_urem264 : UfIs I (ufName "bvurem" (256 + 8)) (256 + 8) Word.mod := by
  intro a b; apply hI; unfold stdUf2
  rw [if_neg (by decide), if_pos (by decide)]; rfl

theorem std_urem512 : UfIs I (ufName "bvurem" (2 * 256)) (256 * 2) Word.mod := by
  intro a b; apply hI; unfold stdUf2
  rw [if_neg (by decide), if_pos (by decide)]; rfl

theorem std_mul256 : UfIs I (ufName "bvmul" 256) 256 (fun a b => a * b % 2 ^ 256) := by
  intro a b; apply hI; unfold stdUf2
  rw [if_neg (by decide), if_neg (by decide), if_pos (by decide)]

theorem std_mul512 : UfIs I (ufName "bvmul" (2 * 256)) (256 * 2) (fun a b => a * b % 2 ^ (256 * 2)) := by
  intro a b; apply hI; unfold stdUf2
  rw [if_neg (by decide), if_neg (by decide), if_pos (by decide)]

theorem std_sdiv256 : UfIs I (ufName "bvsdiv" 256) 256 (sdivW 256) := by
  intro a b; apply hI; unfold stdUf2
  rw [if_neg (by decide), if_neg (by decide), if_neg (by decide), if_pos (by decide)]; rfl

theorem std_srem256 : UfIs I (ufName "bvsrem" 256) 256 (smodW 256) := by
  intro a b; apply hI; unfold stdUf2
  rw [if_neg (by decide), if_neg (by decide), if_neg (by decide), if_neg (by decide), if_pos (by decide)]; rfl

theorem std_exp256 : UfIs I (ufName "exp" 256) 256 (fun a b => a ^ b % 2 ^ 256) := by
  intro a b; apply hI; unfold stdUf2
  rw [if_neg (by decide), if_neg (by decide), if_neg (by decide), if_neg (by decide), if_neg (by decide),
    if_pos (by decide), powMod_eq]

end

/-! ### the stand-in simplifiers are sound -/

mutual
  theorem T.eval_closed (I J : Interp) : (t : T) → t.closed = true → t.eval I = t.eval J
    | .lit _ _, _ => rfl
    | .var _ _, h => by simp only [T.closed] at h; exact absurd h Bool.false_ne_true
    | .bin op a b, h => by
        simp only [T.closed, Bool.and_eq_true] at h
        simp only [T.eval, T.eval_closed I J a h.1, T.eval_closed I J b h.2]
    | .bnot a, h => by
        simp only [T.closed] at h
        simp only [T.eval, T.eval_closed I J a h]
    | .extract _ _ a, h => by
        simp only [T.closed] at h
        simp only [T.eval, T.eval_closed I J a h]
    | .concat a b, h => by
        simp only [T.closed, Bool.and_eq_true] at h
        simp only [T.eval, T.eval_closed I J a h.1, T.eval_closed I J b h.2]
    | .zext _ a, h => by
        simp only [T.closed] at h
        simp only [T.eval, T.eval_closed I J a h]
    | .sext _ a, h => by
        simp only [T.closed] at h
        simp only [T.eval, T.eval_closed I J a h]
    | .ite c a b, h => by
        simp only [T.closed, Bool.and_eq_true] at h
        simp only [T.eval, B.eval_closed I J c h.1.1, T.eval_closed I J a h.1.2, T.eval_closed I J b h.2]
    | .uf2 _ _ _ _, h => by simp only [T.closed] at h; exact absurd h Bool.false_ne_true
    | .uf1 _ _ _, h => by simp only [T.closed] at h; exact absurd h Bool.false_ne_true
  theorem B.eval_closed (I J : Interp) : (b : B) → b.closed = true → b.eval I = b.eval J
    | .lit _, _ => rfl
    | .var _, h => by simp only [B.closed] at h; exact absurd h Bool.false_ne_true
    | .cmp op a b, h => by
        simp only [B.closed, Bool.and_eq_true] at h
        simp only [B.eval, T.eval_closed I J a h.1, T.eval_closed I J b h.2]
    | .not a, h => by
        simp only [B.closed] at h
        simp only [B.eval, B.eval_closed I J a h]
    | .and a b, h => by
        simp only [B.closed, Bool.and_eq_true] at h
        simp only [B.eval, B.eval_closed I J a h.1, B.eval_closed I J b h.2]
    | .or a b, h => by
        simp only [B.closed, Bool.and_eq_true] at h
        simp only [B.eval, B.eval_closed I J a h.1, B.eval_closed I J b h.2]
    | .xor a b, h => by
        simp only [B.closed, Bool.and_eq_true] at h
        simp only [B.eval, B.eval_closed I J a h.1, B.eval_closed I J b h.2]
    | .beq a b, h => by
        simp only [B.closed, Bool.and_eq_true] at h
        simp only [B.eval, B.eval_closed I J a h.1, B.eval_closed I J b h.2]
end

theorem foldSimp_sound : SimpSound foldSimp where
  evalT := by
    intro I t ht
    simp only [foldSimp]
    split
    · rename_i hc
      have hlt := T.eval_lt Interp.zero t ht
      simp only [T.eval, Nat.mod_eq_of_lt hlt]
      exact T.eval_closed Interp.zero I t hc
    · rfl
  widthT := by
    intro t _
    simp only [foldSimp]
    split <;> rfl
  wfT := by
    intro t ht
    simp only [foldSimp]
    split
    · exact T.width_pos t ht
    · exact ht
  evalB := by
    intro I b _
    simp only [foldSimp]
    split
    · rename_i hc
      exact B.eval_closed Interp.zero I b hc
    · rfl
  wfB := by
    intro b hb
    simp only [foldSimp]
    split
    · trivial
    · exact hb

theorem idSimp_sound : SimpSound idSimp where
  evalT := fun _ _ _ => rfl
  widthT := fun _ _ => rfl
  wfT := fun _ h => h
  evalB := fun _ _ _ => rfl
  wfB := fun _ h => h

end HalmosVerif.Lemmas.Word
