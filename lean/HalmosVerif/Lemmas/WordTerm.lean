/-
Lemmas.WordTerm — facts about the term language (`T.eval_lt`: a well-formed term evaluates below `2^width`)
and about the constructors of the bit-vector model (`mkBV`, `finishBV`, `mkBool`, `reBV`, `toBV256`, `boolAsBV`).

Result shapes used throughout the C06 proofs:
  `OkBV I res size n`  — `res = .ok (.bv size r)` for some representation `r`, well-formed, denoting `n`;
  `OkBool I res c`     — `res = .ok (.bool r)`, well-formed, denoting `if c then 1 else 0`.
-/
import HalmosVerif.Lemmas.WordArith

set_option linter.unusedSectionVars false

namespace HalmosVerif.Lemmas.Word
open HalmosVerif.Model HalmosVerif.Spec

/-! ### terms evaluate within their width -/

theorem T.width_pos : (t : T) → t.WF → 0 < t.width
  | .lit _ _, h => h
  | .var _ _, h => h
  | .bin _ a _, h => by
      simp only [T.WF] at h; simp only [T.width]; exact T.width_pos a h.1
  | .bnot a, h => by
      simp only [T.WF] at h; simp only [T.width]; exact T.width_pos a h
  | .extract hi lo _, h => by
      simp only [T.WF] at h; simp only [T.width]; omega
  | .concat a _, h => by
      simp only [T.WF] at h; simp only [T.width]; have := T.width_pos a h.1; omega
  | .zext _ a, h => by
      simp only [T.WF] at h; simp only [T.width]; have := T.width_pos a h; omega
  | .sext _ a, h => by
      simp only [T.WF] at h; simp only [T.width]; have := T.width_pos a h; omega
  | .ite _ a _, h => by
      simp only [T.WF] at h; simp only [T.width]; exact T.width_pos a h.2.1
  | .uf2 _ _ _ _, h => by
      simp only [T.WF] at h; exact h.1
  | .uf1 _ _ _, h => by
      simp only [T.WF] at h; exact h.1

theorem BinOp.eval_lt {n : Nat} (hn : 0 < n) (op : BinOp) {a b : Nat} (ha : a < 2 ^ n) (hb : b < 2 ^ n) :
    op.eval n a b < 2 ^ n := by
  have hpos := Nat.two_pow_pos n
  have h1 : 1 < 2 ^ n := Nat.one_lt_two_pow (by omega)
  cases op <;> simp only [BinOp.eval]
  case add => exact Nat.mod_lt _ hpos
  case sub => exact Nat.mod_lt _ hpos
  case mul => exact Nat.mod_lt _ hpos
  case udiv =>
    split
    · omega
    · exact Nat.lt_of_le_of_lt (Nat.div_le_self a b) ha
  case urem =>
    split
    · exact ha
    · exact Nat.lt_of_le_of_lt (Nat.mod_le a b) ha
  case sdiv =>
    split
    · split <;> omega
    · exact ofInt_lt _ _
  case srem =>
    split
    · exact ha
    · exact ofInt_lt _ _
  case band => exact Nat.and_lt_two_pow a hb
  case bor => exact Nat.or_lt_two_pow ha hb
  case bxor => exact Nat.xor_lt_two_pow ha hb
  case shl =>
    split
    · exact hpos
    · exact Nat.mod_lt _ hpos
  case lshr =>
    split
    · exact hpos
    · exact Nat.lt_of_le_of_lt (Nat.div_le_self a _) ha
  case ashr =>
    split
    · split <;> omega
    · exact ofInt_lt _ _

theorem T.eval_lt (I : Interp) : (t : T) → t.WF → t.eval I < 2 ^ t.width
  | .lit w n, _ => by simp only [T.eval, T.width]; exact Nat.mod_lt _ (Nat.two_pow_pos w)
  | .var x w, _ => by simp only [T.eval, T.width]; exact Nat.mod_lt _ (Nat.two_pow_pos w)
  | .bin op a b, h => by
      simp only [T.WF] at h
      simp only [T.eval, T.width]
      have ha := T.eval_lt I a h.1
      have hb := T.eval_lt I b h.2.1
      rw [← h.2.2] at hb
      exact BinOp.eval_lt (T.width_pos a h.1) op ha hb
  | .bnot a, h => by
      simp only [T.eval, T.width]
      have := Nat.two_pow_pos a.width
      omega
  | .extract hi lo a, _ => by
      simp only [T.eval, T.width]; exact Nat.mod_lt _ (Nat.two_pow_pos _)
  | .concat a b, h => by
      simp only [T.WF] at h
      simp only [T.eval, T.width]
      have ha := T.eval_lt I a h.1
      have hb := T.eval_lt I b h.2
      rw [Nat.pow_add]
      have : (a.eval I + 1) * 2 ^ b.width ≤ 2 ^ a.width * 2 ^ b.width :=
        Nat.mul_le_mul_right _ ha
      rw [Nat.add_mul] at this
      omega
  | .zext k a, h => by
      simp only [T.WF] at h
      simp only [T.eval, T.width]
      have ha := T.eval_lt I a h
      exact Nat.lt_of_lt_of_le ha (pow_le_pow_two (by omega))
  | .sext k a, _ => by
      simp only [T.eval, T.width]; exact ofInt_lt _ _
  | .ite c a b, h => by
      simp only [T.WF] at h
      simp only [T.eval, T.width]
      split
      · exact T.eval_lt I a h.2.1
      · rw [h.2.2.2]; exact T.eval_lt I b h.2.2.1
  | .uf2 f w a b, _ => by
      simp only [T.eval, T.width]; exact Nat.mod_lt _ (Nat.two_pow_pos w)
  | .uf1 f w a, _ => by
      simp only [T.eval, T.width]; exact Nat.mod_lt _ (Nat.two_pow_pos w)

/-- value of a literal that holds an in-range number -/
theorem lit_eval_of_lt {w n : Nat} (I : Interp) (h : n < 2 ^ w) : (T.lit w n).eval I = n := by
  simp only [T.eval]; exact Nat.mod_eq_of_lt h

theorem lit_ofInt_eval {w n : Nat} (I : Interp) (h : n < 2 ^ w) :
    (T.lit w (ofInt w (n : Int))).eval I = n := by
  rw [ofInt_of_lt h]; exact lit_eval_of_lt I h

/-! ### result shapes -/

/-- `res` is a well-formed bit-vector of exactly `size` bits denoting `n` -/
def OkBV (I : Interp) (res : Except PyErr HV) (size n : Nat) : Prop :=
  ∃ r, res = .ok (.bv size r) ∧ (HV.bv size r).WF ∧ (HV.bv size r).denote I = n

/-- `res` is a well-formed Bool denoting `c` -/
def OkBool (I : Interp) (res : Except PyErr HV) (c : Bool) : Prop :=
  ∃ r, res = .ok (.bool r) ∧ (HV.bool r).WF ∧ (HV.bool r).denote I = if c then 1 else 0

theorem denote_con (I : Interp) (size n : Nat) : (HV.bv size (.con n)).denote I = n := rfl
theorem denote_sym (I : Interp) (size : Nat) (t : T) : (HV.bv size (.sym t)).denote I = t.eval I := rfl
theorem value_con (size n : Nat) : HV.value (.bv size (.con n)) = .int (n : Int) := rfl
theorem value_sym (size : Nat) (t : T) : HV.value (.bv size (.sym t)) = .term t := rfl

theorem OkBV.congr {I res size n m} (h : OkBV I res size n) (e : n = m) : OkBV I res size m := e ▸ h
theorem OkBool.congr {I res c d} (h : OkBool I res c) (e : c = d) : OkBool I res d := e ▸ h

theorem OkBV.lt {I res size n} (h : OkBV I res size n) : n < 2 ^ size := by
  obtain ⟨r, _, hwf, hd⟩ := h
  cases r with
  | con k => simp only [HV.WF] at hwf; simp only [HV.denote] at hd; omega
  | sym t =>
    simp only [HV.WF] at hwf; simp only [HV.denote] at hd
    have := T.eval_lt I t hwf.2.1
    rw [hwf.2.2] at this; omega

theorem denote_lt {I size r} (h : (HV.bv size r).WF) : (HV.bv size r).denote I < 2 ^ size :=
  OkBV.lt ⟨r, rfl, h, rfl⟩

theorem OkBV.of_self {I size r} (h : (HV.bv size r).WF) :
    OkBV I (.ok (.bv size r)) size ((HV.bv size r).denote I) := ⟨r, rfl, h, rfl⟩

/-- a concrete representation -/
theorem OkBV.con {I size n} (hs : 0 < size) (hn : n < 2 ^ size) :
    OkBV I (.ok (.bv size (.con n))) size n := ⟨.con n, rfl, ⟨hs, hn⟩, rfl⟩

theorem wf_size_pos {size r} (h : (HV.bv size r).WF) : 0 < size := by
  cases r <;> simp only [HV.WF] at h <;> exact h.1

/-- `as_z3()` of a well-formed bit-vector is a well-formed term of that width with the same value -/
theorem asZ3_ok {I size r} (h : (HV.bv size r).WF) :
    (asZ3 size r).WF ∧ (asZ3 size r).width = size ∧ (asZ3 size r).eval I = (HV.bv size r).denote I := by
  cases r with
  | con n =>
    simp only [HV.WF] at h
    exact ⟨h.1, rfl, lit_eval_of_lt I h.2⟩
  | sym t =>
    simp only [HV.WF] at h
    exact ⟨h.2.1, h.2.2, rfl⟩

/-! ### constructors -/

section
variable {s : Simp} (hs : SimpSound s) (I : Interp)
include hs

theorem finishBV_ok {t : T} {size : Nat} (ht : t.WF) (hw : t.width = size) :
    OkBV I (.ok (finishBV s t size)) size (t.eval I) := by
  have hpos : 0 < size := hw ▸ T.width_pos t ht
  have he := hs.evalT I t ht
  have hww := hs.widthT t ht
  have hwf := hs.wfT t ht
  unfold finishBV
  split
  · rename_i w n heq
    rw [heq] at he hww hwf
    simp only [T.eval] at he
    simp only [T.width] at hww
    have hlt : n % 2 ^ w < 2 ^ size := by rw [← hw, ← hww]; exact Nat.mod_lt _ (Nat.two_pow_pos w)
    exact ⟨_, rfl, ⟨hpos, hlt⟩, he⟩
  · exact ⟨_, rfl, ⟨hpos, hwf, by rw [hww, hw]⟩, he⟩

theorem mkBV_int {size : Nat} (hsz : 0 < size) (i : Int) :
    OkBV I (.ok (mkBV s (.int i) size)) size (ofInt size i) :=
  OkBV.con hsz (ofInt_lt size i)

theorem mkBV_nat {size n : Nat} (hsz : 0 < size) (hn : n < 2 ^ size) :
    OkBV I (.ok (mkBV s (.int (n : Int)) size)) size n :=
  (mkBV_int hs I hsz n).congr (ofInt_of_lt hn)

theorem fitWidth_ok {t : T} {size : Nat} (hsz : 0 < size) (ht : t.WF) :
    (fitWidth t size).WF ∧ (fitWidth t size).width = size ∧
      (fitWidth t size).eval I = t.eval I % 2 ^ size := by
  have hlt := T.eval_lt I t ht
  have hwp := T.width_pos t ht
  unfold fitWidth
  split
  · refine ⟨?_, ?_, ?_⟩
    · simp only [T.WF]; exact ⟨ht, by omega, by omega⟩
    · simp only [T.width]; omega
    · simp only [T.eval, Nat.pow_zero, Nat.div_one]
      congr 2; omega
  · split
    · refine ⟨?_, ?_, ?_⟩
      · simp only [T.WF]; exact ⟨by omega, ht⟩
      · simp only [T.width]; omega
      · simp only [T.eval, Nat.zero_mod, Nat.zero_mul, Nat.zero_add]
        exact (Nat.mod_eq_of_lt (Nat.lt_trans hlt (pow_lt_pow_two (by omega)))).symm
    · have : t.width = size := by omega
      exact ⟨ht, this, (Nat.mod_eq_of_lt (this ▸ hlt)).symm⟩

theorem mkBV_term {t : T} {size : Nat} (hsz : 0 < size) (ht : t.WF) :
    OkBV I (.ok (mkBV s (.term t) size)) size (t.eval I % 2 ^ size) := by
  obtain ⟨h1, h2, h3⟩ := fitWidth_ok hs I hsz ht
  exact (finishBV_ok hs I h1 h2).congr h3

/-- the common case: the term already has the target width -/
theorem mkBV_term_eq {t : T} {size : Nat} (ht : t.WF) (hw : t.width = size) :
    OkBV I (.ok (mkBV s (.term t) size)) size (t.eval I) := by
  have hpos : 0 < size := hw ▸ T.width_pos t ht
  have := T.eval_lt I t ht
  rw [hw] at this
  exact (mkBV_term hs I hpos ht).congr (Nat.mod_eq_of_lt this)

theorem mkBV_bterm {b : B} {size : Nat} (hsz : 0 < size) (hb : b.WF) :
    OkBV I (.ok (mkBV s (.bterm b) size)) size (if b.eval I then 1 else 0) := by
  have h1 : 1 < 2 ^ size := Nat.one_lt_two_pow (by omega)
  have : (T.ite b (.lit size 1) (.lit size 0)).WF := by
    simp only [T.WF, T.width]; exact ⟨hb, hsz, hsz, trivial⟩
  refine (finishBV_ok hs I this rfl).congr ?_
  simp only [T.eval, Nat.zero_mod, Nat.mod_eq_of_lt h1]

theorem mkBV_pbool {size : Nat} (hsz : 0 < size) (b : Bool) :
    OkBV I (.ok (mkBV s (.pbool b) size)) size (if b then 1 else 0) := by
  have h1 : 1 < 2 ^ size := Nat.one_lt_two_pow (by omega)
  cases b
  · exact OkBV.con hsz (by simp only [Bool.false_eq_true, if_false, Nat.zero_mod]; omega)
  · refine (OkBV.con hsz (Nat.mod_lt _ (by omega))).congr ?_
    simp only [if_true, Nat.mod_eq_of_lt h1]

theorem mkBool_ok {b : B} (hb : b.WF) : OkBool I (mkBool s (.bterm b)) (b.eval I) := by
  have he := hs.evalB I b hb
  have hwf := hs.wfB b hb
  unfold mkBool
  simp only
  split
  · rename_i c heq
    rw [heq] at he
    simp only [B.eval] at he
    exact ⟨.con c, rfl, trivial, by simp only [HV.denote, he]⟩
  · exact ⟨.sym (s.b b), rfl, hwf, by simp only [HV.denote, he]⟩

theorem mkBool_pbool (c : Bool) : OkBool I (mkBool s (.pbool c)) c :=
  ⟨.con c, rfl, trivial, rfl⟩

/-- `Bool.as_bv(size)` denotes the same 0/1 -/
theorem boolAsBV_ok {r : BRep} {size : Nat} (hsz : 0 < size) (h : (HV.bool r).WF) :
    OkBV I (.ok (boolAsBV s r size)) size ((HV.bool r).denote I) := by
  have h1 : 1 < 2 ^ size := Nat.one_lt_two_pow (by omega)
  cases r with
  | con b =>
    cases b
    · exact OkBV.con hsz (by omega)
    · refine (OkBV.con hsz (Nat.mod_lt _ (by omega))).congr ?_
      simp only [HV.denote, if_true, Nat.mod_eq_of_lt h1]
  | sym b => exact mkBV_bterm hs I hsz h

/-- `HalmosBitVec(x, size=size')` of an existing bit-vector: the value modulo `2^size'` -/
theorem reBV_bv_ok {sz size : Nat} {r : Rep} (hsz : 0 < size) (h : (HV.bv sz r).WF) :
    OkBV I (.ok (reBV s (.bv sz r) size)) size ((HV.bv sz r).denote I % 2 ^ size) := by
  unfold reBV
  simp only
  split
  · rename_i heq
    subst heq
    exact (OkBV.of_self h).congr (Nat.mod_eq_of_lt (denote_lt h)).symm
  · cases r with
    | con n =>
      simp only [HV.value, HV.denote]
      exact (mkBV_int hs I hsz n).congr (ofInt_natCast size n)
    | sym t =>
      simp only [HV.WF] at h
      simp only [HV.value, HV.denote]
      exact mkBV_term hs I hsz h.2.1

theorem reBV_bool_ok {size : Nat} {r : BRep} (hsz : 0 < size) (h : (HV.bool r).WF) :
    OkBV I (.ok (reBV s (.bool r) size)) size ((HV.bool r).denote I) := by
  unfold reBV
  cases r with
  | con b => exact mkBV_pbool hs I hsz b
  | sym b => exact mkBV_bterm hs I hsz h

/-- `popi()`: any stack word becomes a 256-bit bit-vector with the same denotation -/
theorem toBV256_ok {v : HV} (hwf : v.WF) (hw : v.IsWord) :
    OkBV I (.ok (toBV256 s v)) 256 (v.denote I) := by
  cases v with
  | bv size r =>
    simp only [HV.IsWord] at hw
    subst hw
    exact OkBV.of_self hwf
  | bool r => exact boolAsBV_ok hs I (by decide) hwf

/-- `HalmosBitVec(x, size=256)` of any stack word -/
theorem reBV256_ok {v : HV} (hwf : v.WF) (hw : v.IsWord) :
    OkBV I (.ok (reBV s v 256)) 256 (v.denote I) := by
  cases v with
  | bv size r =>
    simp only [HV.IsWord] at hw
    subst hw
    exact (reBV_bv_ok hs I (by decide) hwf).congr (Nat.mod_eq_of_lt (denote_lt hwf))
  | bool r => exact reBV_bool_ok hs I (by decide) hwf

end

/-- a Bool-typed item denotes 0 or 1 -/
theorem bool_denote_le_one (I : Interp) (r : BRep) : (HV.bool r).denote I ≤ 1 := by
  cases r <;> simp only [HV.denote] <;> split <;> omega

end HalmosVerif.Lemmas.Word
