/-
Model.Assertions — executable model of halmos' Forge-std assertion cheatcodes (assertions.py), of the argument
extractors they use (utils.py: `extract_bytes`, `extract_word`, `extract_bytes_argument`, `extract_bytes32_array_argument`,
`extract_string_argument`, `int_of`), of the `vm.assert*` / `vm.assume` branches of `hevm_cheat_code.handle`
(cheatcodes.py) and of the way a `FailCheatcode` reaches the caller of `SEVM.run` (sevm.py) and `is_global_fail_set`
(__main__.py).  Mirrors the code branch for branch; the source text it was written against is pinned by
`Gen.AssertTable.sourcePins` (tools/extract/assert_table.py refuses to generate the table when a pin differs).

Calldata is a list of bytes, each a concrete number or a width-8 term (`CByte`); this abstracts `ByteVec`'s chunk structure,
which only affects the *shape* of the terms handed out, not their meaning.  z3's `simplify` is the parameter `Simp`.
What the code raises is `Err`:
  * `notConcrete`     — symbolic selector / offset / length (`int_of` → NotConcreteError → the path ends *stuck* → ERROR);
  * `notImplemented`  — `bytes[]` / `string[]` operands (NotImplementedError escapes `SEVM.run`);
  * `valueError`      — `mk_cond` on operands it rejects (cannot happen for the entries of the table: `handler_total`);
  * `unicodeDecode`   — a concrete message string that is not valid UTF-8 (UnicodeDecodeError escapes `SEVM.run`);
  * `overflow`        — a concrete length so large that the zero padding `b"\x00" * n` raises OverflowError (n ≥ 2^63).
Out-of-bounds reads are zero-padded (`ByteVec.slice`): truncated calldata is NOT rejected (see C13 findings).

Core Lean only.
-/
import HalmosVerif.Model.BitVecOps
import HalmosVerif.Gen.AssertTable

namespace HalmosVerif.Model.Assertions
open HalmosVerif.Model HalmosVerif.Gen

inductive Err where
  | notConcrete | notImplemented | valueError | unicodeDecode | overflow | unsupported
  deriving DecidableEq, Repr, Inhabited

/-! ### calldata and what the extractors hand out -/

inductive CByte where
  | con (n : Nat)        -- a concrete byte (taken mod 256)
  | sym (t : T)          -- a symbolic byte: a width-8 term

abbrev Calldata := List CByte

/-- result of `ByteVec.unwrap()` / `extract_bytes`: Python `bytes`, a z3 numeral (`BitVecNumRef`), or another z3 term -/
inductive Arg where
  | bytes (bs : List Nat)
  | num (w n : Nat)
  | term (t : T)

def CByte.WF : CByte → Prop
  | .con n => n < 256
  | .sym t => t.WF ∧ t.width = 8

def CByte.term : CByte → T
  | .con n => .lit 8 n
  | .sym t => t

def CByte.eval (I : Interp) : CByte → Nat
  | .con n => n % 256
  | .sym t => t.eval I % 256

/-- `data.get_byte(i)`: zero beyond the end -/
def byteAt (d : Calldata) (i : Nat) : CByte := d.getD i (.con 0)

/-- the bytes of `data[off : off + n]` (zero-padded) -/
def readBytes (d : Calldata) : Nat → Nat → List CByte
  | _, 0 => []
  | off, n + 1 => byteAt d off :: readBytes d (off + 1) n

def allCon : List CByte → Option (List Nat)
  | [] => some []
  | .con n :: r => (allCon r).map (n % 256 :: ·)
  | .sym _ :: _ => none

/-- `Concat` of the bytes, first byte most significant -/
def concatTerm : List CByte → T
  | [] => .lit 0 0
  | [b] => b.term
  | b :: r => .concat b.term (concatTerm r)

def beNat (bs : List Nat) : Nat := bs.foldl (fun a b => a * 256 + b) 0

/-- big-endian bytes of `x`, exactly `n` of them -/
def toBE : Nat → Nat → List Nat
  | 0, _ => []
  | n + 1, x => x / 256 ^ n % 256 :: toBE n x

/-- `ByteVec.unwrap()`: `bytes` when every chunk is concrete, else the simplified concatenation -/
def unwrap (s : Simp) (bs : List CByte) : Arg :=
  match allCon bs with
  | some ns => .bytes ns
  | none =>
    match s.t (concatTerm bs) with
    | .lit w n => .num w n
    | t => .term t

/-- `extract_bytes(data, off, n)` for a ByteVec argument -/
def extractBytes (s : Simp) (d : Calldata) (off n : Nat) : Arg := unwrap s (readBytes d off n)

/-- `int_of` -/
def intOf : Arg → Except Err Nat
  | .bytes bs => .ok (beNat bs)
  | .num w n => .ok (n % 2 ^ w)
  | .term _ => .error .notConcrete

/-- number of zero bytes `ByteVec.slice` has to invent for `data[off : off + n]` -/
def oobMissing (d : Calldata) (off n : Nat) : Nat := n - (min (off + n) d.length - min off d.length)

/-- `extract_bytes` with a data-dependent size: `b"\x00" * missing` raises OverflowError from 2^63 on -/
def extractDyn (s : Simp) (d : Calldata) (off n : Nat) : Except Err Arg :=
  if oobMissing d off n ≥ 2 ^ 63 then .error .overflow else .ok (extractBytes s d off n)

/-- `extract_bytes32_array_argument(data, idx)` -/
def extractBytes32Array (s : Simp) (d : Calldata) (idx : Nat) : Except Err Arg := do
  let off ← intOf (extractBytes s d (4 + idx * 32) 32)
  let len ← intOf (extractBytes s d (4 + off) 32)
  if len = 0 then pure (.bytes []) else extractDyn s d (4 + off + 32) (len * 32)

/-- `bv_value_to_bytes(x) if is_bv_value(x) else x` -/
def numToBytes : Arg → Arg
  | .num w n => .bytes (toBE (w / 8) (n % 2 ^ w))
  | a => a

/-- `extract_bytes_argument(data, idx)` -/
def extractBytesArgument (s : Simp) (d : Calldata) (idx : Nat) : Except Err Arg := do
  let off ← intOf (extractBytes s d (4 + idx * 32) 32)
  let len ← intOf (extractBytes s d (4 + off) 32)
  if len = 0 then pure (.bytes []) else numToBytes <$> extractDyn s d (4 + off + 32) len

/-- continuation byte -/
def cont (b : Nat) : Bool := 0x80 ≤ b && b ≤ 0xBF

/-- CPython's strict UTF-8 decoder accepts exactly the well-formed sequences of Unicode §3.9 table 3-7 -/
def validUtf8 : List Nat → Bool
  | [] => true
  | b0 :: r =>
    if b0 < 0x80 then validUtf8 r
    else if 0xC2 ≤ b0 ∧ b0 ≤ 0xDF then
      match r with
      | b1 :: r1 => cont b1 && validUtf8 r1
      | _ => false
    else if 0xE0 ≤ b0 ∧ b0 ≤ 0xEF then
      match r with
      | b1 :: b2 :: r2 =>
        (if b0 = 0xE0 then 0xA0 ≤ b1 && b1 ≤ 0xBF else if b0 = 0xED then 0x80 ≤ b1 && b1 ≤ 0x9F else cont b1)
          && cont b2 && validUtf8 r2
      | _ => false
    else if 0xF0 ≤ b0 ∧ b0 ≤ 0xF4 then
      match r with
      | b1 :: b2 :: b3 :: r3 =>
        (if b0 = 0xF0 then 0x90 ≤ b1 && b1 ≤ 0xBF else if b0 = 0xF4 then 0x80 ≤ b1 && b1 ≤ 0x8F else cont b1)
          && cont b2 && cont b3 && validUtf8 r3
      | _ => false
    else false
termination_by l => l.length
decreasing_by all_goals simp_all <;> omega

/-- `extract_string_argument(data, idx)`: only whether it raises matters (the message is not part of the condition) -/
def extractStringArgument (s : Simp) (d : Calldata) (idx : Nat) : Except Err Unit := do
  let a ← extractBytesArgument s d idx
  match a with
  | .bytes bs => if validUtf8 bs then pure () else .error .unicodeDecode
  | _ => pure ()

/-! ### `mk_cond` -/

def isEmptyBytes : Arg → Bool
  | .bytes [] => true
  | _ => false

/-- `bytes_to_bv_value(v) if isinstance(v, bytes) else v` -/
def Arg.toBV : Arg → T
  | .bytes bs => .lit (8 * bs.length) (beNat bs)
  | .num w n => .lit w n
  | .term t => t

/-- the z3py operator names of `mk_cond`'s comparison chain (Python's `<`, `>`, `<=`, `>=` on `BitVecRef` are signed) -/
def z3Cmp (name : String) : Option CmpOp :=
  if name = "ULT" then some .ult else if name = "UGT" then some .ugt
  else if name = "ULE" then some .ule else if name = "UGE" then some .uge
  else if name = "<" then some .slt else if name = ">" then some .sgt
  else if name = "<=" then some .sle else if name = ">=" then some .sge
  else none

/-- bop ↦ comparison, through the chain extracted from the source (`Gen.AssertTable.condOps`) -/
def condOp (bop : String) : Option CmpOp := (AssertTable.condOps.lookup bop).bind z3Cmp

def eqOrNe (bop : String) (onEq onNe : B) : Except Err B :=
  if bop = "Eq" then .ok onEq else if bop = "NotEq" then .ok onNe else .error .valueError

/-- `mk_cond(bop, v1, v2)` -/
def mkCond (bop : String) (v1 v2 : Arg) : Except Err B :=
  if isEmptyBytes v1 && isEmptyBytes v2 then eqOrNe bop (.lit true) (.lit false)
  else if isEmptyBytes v1 || isEmptyBytes v2 then eqOrNe bop (.lit false) (.lit true)
  else
    let t1 := v1.toBV
    let t2 := v2.toBV
    if t1.width ≠ t2.width then eqOrNe bop (.lit false) (.lit true)
    else if bop = "Eq" then .ok (.cmp .eq t1 t2)
    else if bop = "NotEq" then .ok (.not (.cmp .eq t1 t2))
    else if t1.width ≠ 256 ∨ t2.width ≠ 256 then .error .valueError
    else
      match condOp bop with
      | some op => .ok (.cmp op t1 t2)
      | none => .error .valueError

/-! ### `mk_assert_handler` -/

/-- what `mk_assert_handler` decides from the signature text -/
structure Derived where
  op : String
  operands : Nat
  ty : String          -- params[0] without "[]"
  isArray : Bool
  hasMsg : Bool
  bop : String
  deriving DecidableEq, Repr, Inhabited

def splitOn (c : Char) : List Char → List (List Char)
  | [] => [[]]
  | x :: xs =>
    match splitOn c xs with
    | [] => [[]]
    | h :: t => if x = c then [] :: h :: t else (x :: h) :: t

/-- strip a trailing "[]" -/
def stripArray : List Char → Option (List Char)
  | [] => none
  | ['[', ']'] => some []
  | c :: cs => (stripArray cs).map (c :: ·)

def dropPrefix : List Char → List Char → Option (List Char)
  | [], cs => some cs
  | p :: ps, c :: cs => if p = c then dropPrefix ps cs else none
  | _ :: _, [] => none

/-- the regex `assert([^(]+)\(([^)]+)\)` on a canonical signature: operator and the comma-separated parameters -/
def matchSig (sig : String) : Option (String × List String) :=
  match dropPrefix "assert".toList sig.toList with
  | none => none
  | some rest =>
    match splitOn '(' rest with
    | [op, r] =>
      match r.reverse with
      | ')' :: inner =>
        if op.isEmpty || inner.isEmpty || inner.contains ')' then none
        else some (String.ofList op, (splitOn ',' inner.reverse).map String.ofList)
      | _ => none
    | _ => none

/-- the decisions of `mk_assert_handler(signature)` (`none`: HalmosException "not supported signatures") -/
def derive (sig : String) : Option Derived :=
  match matchSig sig with
  | none => none
  | some (operator, params) =>
    let isBinary := !(AssertTable.unaryOps.contains operator)
    let hasLog := params.length > (if isBinary then AssertTable.arityBinary else AssertTable.arityUnary)
    let typ := params.headD ""
    if isBinary then
      let bop :=
        if AssertTable.eqOps.contains operator then operator
        else (if typ = AssertTable.unsignedTy then AssertTable.signPrefixUnsigned else AssertTable.signPrefixSigned) ++ operator
      let arr := (stripArray typ.toList).isSome
      let base := match stripArray typ.toList with | some b => String.ofList b | none => typ
      some ⟨operator, 2, base, arr, hasLog, bop⟩
    else some ⟨operator, 1, typ, false, hasLog, ""⟩

def msgCheck (s : Simp) (d : Calldata) (log : Bool) (idx : Nat) : Except Err Unit :=
  if log then extractStringArgument s d idx else pure ()

/-- `vm_assert_binary(bop, typ, log)` applied to the calldata -/
def vmAssertBinary (s : Simp) (bop ty : String) (isArray log : Bool) (d : Calldata) : Except Err B :=
  let isBytes := ty = "bytes" || ty = "string"
  if !isArray then
    if !isBytes then do
      let v1 := extractBytes s d AssertTable.off1 AssertTable.word
      let v2 := extractBytes s d AssertTable.off2 AssertTable.word
      let c ← mkCond bop v1 v2
      msgCheck s d log AssertTable.msgIdxBinary
      pure c
    else do
      let v1 ← extractBytesArgument s d 0
      let v2 ← extractBytesArgument s d 1
      let c ← mkCond bop v1 v2
      msgCheck s d log AssertTable.msgIdxBinary
      pure c
  else if !isBytes then do
    let v1 ← extractBytes32Array s d 0
    let v2 ← extractBytes32Array s d 1
    let c ← mkCond bop v1 v2
    msgCheck s d log AssertTable.msgIdxBinary
    pure c
  else .error .notImplemented

/-- `vm_assert_unary(expected, log)`: `test(uint256(arg.get_word(4)), expected)` -/
def unaryCond (s : Simp) (d : Calldata) (expected : Bool) : B :=
  match extractBytes s d AssertTable.unaryOff 32 with
  | .bytes bs => .lit (decide (beNat bs ≠ 0) == expected)
  | .num w n => .lit (decide (n % 2 ^ w ≠ 0) == expected)
  | .term t =>
    let z := B.cmp .eq (s.t t) (.lit 256 0)
    s.b (if expected then .not z else z)

def vmAssertUnary (s : Simp) (expected log : Bool) (d : Calldata) : Except Err B := do
  let c := unaryCond s d expected
  msgCheck s d log AssertTable.msgIdxUnary
  pure c

/-- the handler `mk_assert_handler` returns for these decisions -/
def handlerOf (s : Simp) (dv : Derived) (d : Calldata) : Except Err B :=
  if dv.operands = 2 then vmAssertBinary s dv.bop dv.ty dv.isArray dv.hasMsg d
  else vmAssertUnary s (dv.op = "True") dv.hasMsg d

/-- the handler bound to a table entry -/
def entryHandler (s : Simp) (e : AssertTable.Entry) : Calldata → Except Err B :=
  handlerOf s ⟨e.op, e.operands, e.ty, e.isArray, e.hasMsg, e.bop⟩

/-! ### the `vm.assert*` and `vm.assume` branches of `hevm_cheat_code.handle` -/

inductive Sat where
  | sat | unsat | unknown
  deriving DecidableEq, Repr, Inhabited

/-- `Path.append(cond)`: simplify, drop `true`, drop a condition already present (`mem`: structural test on z3 asts) -/
def pathAppend (s : Simp) (mem : B → List B → Bool) (π : List B) (c : B) : List B :=
  match s.b c with
  | .lit true => π
  | c' => if mem c' π then π else π ++ [c']

/-- a successor execution state: its path condition, whether it is halted with `FailCheatcode`, and the rest of the
state (storage, memory, stack, returndata …) which these cheatcodes never touch -/
structure Succ (σ : Type) where
  path : List B
  failed : Bool
  rest : σ

/-- the `vm.assert*` branch: in worklist order (the continuing state is explored first) -/
def assertBranch {σ : Type} (s : Simp) (mem : B → List B → Bool) (check : List B → B → Sat) (π : List B) (st : σ)
    (cond : B) : List (Succ σ) :=
  let notCond := s.b (.not cond)
  if check π cond = .unsat then [⟨π, true, st⟩]                                   -- ex.halt(FailCheatcode) on the current state
  else if check π notCond ≠ .unsat then
    [⟨π, false, st⟩, ⟨pathAppend s mem π notCond, true, st⟩]                       -- create_branch(ex, not_cond) halted; ex continues
  else [⟨π, false, st⟩]

/-- the `vm.assume` branch: `none` = InfeasiblePath (the state is dropped) -/
def assumeCond (s : Simp) (d : Calldata) : B :=
  match extractBytes s d 4 32 with
  | .bytes bs => .lit (decide (beNat bs ≠ 0))
  | .num w n => .lit (decide (n % 2 ^ w ≠ 0))
  | .term t => s.b (s.b (.not (.cmp .eq (s.t t) (.lit 256 0))))

def assumeBranch {σ : Type} (s : Simp) (mem : B → List B → Bool) (π : List B) (st : σ) (d : Calldata) : Option (Succ σ) :=
  match assumeCond s d with
  | .lit false => none
  | c => some ⟨pathAppend s mem π c, false, st⟩

inductive Dispatch where
  | assertion (e : AssertTable.Entry)
  | assume
  | other (sel : Nat)

/-- `funsig = int_of(arg[:4].unwrap())` and the first two tests of `handle` -/
def dispatch (s : Simp) (d : Calldata) : Except Err Dispatch := do
  let sel ← intOf (extractBytes s d 0 4)
  match AssertTable.entries.find? (fun e => e.selector = sel) with
  | some e => pure (.assertion e)
  | none => if sel = AssertTable.assumeSelector then pure .assume else pure (.other sel)

/-! ### how a `FailCheatcode` reaches the caller of `SEVM.run` -/

inductive ErrKind where
  | failCheatcode | infeasible | evm | stuck
  deriving DecidableEq, Repr, Inhabited

/-- `CallContext`: its output error (if any) and the subcalls recorded in its trace -/
inductive Ctx where
  | mk (error : Option ErrKind) (halted : Bool) (subcalls : List Ctx)

def Ctx.error : Ctx → Option ErrKind | .mk e _ _ => e
def Ctx.halted : Ctx → Bool | .mk _ h _ => h
def Ctx.subcalls : Ctx → List Ctx | .mk _ _ s => s

mutual
  /-- `is_global_fail_set(context)` -/
  def isGlobalFailSet : Ctx → Bool
    | .mk e _ subs => e == some .failCheatcode || anyFail subs
  def anyFail : List Ctx → Bool
    | [] => false
    | c :: cs => isGlobalFailSet c || anyFail cs
end

mutual
  /-- some context of the tree carries a `FailCheatcode` output -/
  def Ctx.hasFail : Ctx → Prop
    | .mk e _ subs => e = some .failCheatcode ∨ hasFailList subs
  def hasFailList : List Ctx → Prop
    | [] => False
    | c :: cs => c.hasFail ∨ hasFailList cs
end

/-- an execution state on the worklist: its current frame's context (`ex.context`) and the chain of callbacks
(one per enclosing frame) that `finalize` would run -/
structure Item where
  ctx : Ctx
  callbacks : Nat          -- nesting depth: number of enclosing frames
  tag : Nat                -- identity

/-- `ex.halt(data=ByteVec(), error=FailCheatcode)` -/
def Ctx.haltFail : Ctx → Ctx
  | .mk _ _ subs => .mk (some .failCheatcode) true subs

/-- `except FailCheatcode`: halt if not halted; the state is yielded as it is — `finalize` (the callbacks) is not called -/
def onFailCheatcode (it : Item) : Item :=
  if it.ctx.halted then it else { it with ctx := it.ctx.haltFail }

inductive StepOut where
  | yielded (it : Item)             -- handed to the consumer of `run`
  | dropped                          -- InfeasiblePath
  | pushed (its : List Item)         -- ordinary execution: successors go back on the worklist

/-- one iteration of the main loop on the popped state; `exec` is everything else the interpreter does -/
def popStep (exec : Item → StepOut) (it : Item) : StepOut :=
  match it.ctx.error with
  | some .failCheatcode => .yielded (onFailCheatcode it)     -- delayed re-raise → except FailCheatcode
  | some .infeasible => .dropped
  | _ => exec it

/-- run the loop for `n` iterations: (worklist, yielded so far); the worklist is a stack -/
def runN (exec : Item → StepOut) : Nat → List Item → List Item → List Item × List Item
  | 0, wl, ys => (wl, ys)
  | _ + 1, [], ys => ([], ys)
  | n + 1, it :: wl, ys =>
    match popStep exec it with
    | .yielded y => runN exec n wl (ys ++ [y])
    | .dropped => runN exec n wl ys
    | .pushed its => runN exec n (its ++ wl) ys

end HalmosVerif.Model.Assertions
