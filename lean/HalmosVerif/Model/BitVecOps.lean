/-
Model.BitVecOps — executable model of `halmos/bitvec.py` (HalmosBitVec / HalmosBool) and of the word
instruction cases of `SEVM.run` / `SEVM.arith` / `bitwise` / `sym_byte_of` (sevm.py).

Mirrors the code branch for branch, including its concrete fast paths. z3's `simplify` is a parameter
`simp` (assumed meaning-preserving in the theorems, see `SimpSound`); in the driver it is a small
constant folder. Python values flowing into the constructors are `PV`.

Core Lean only.
-/
import HalmosVerif.Model.Term

namespace HalmosVerif.Model
open HalmosVerif.Spec

/-- Python exceptions that can escape an operation -/
inductive PyErr where
  | zeroDivision | typeError | assertion | valueError | notImplemented | notConcrete | stackUnderflow
  deriving DecidableEq, Repr, Inhabited

/-- what a `_value` / `value` attribute or an intermediate Python expression can be -/
inductive PV where
  | int (i : Int)        -- Python int (unbounded)
  | pbool (b : Bool)     -- Python bool
  | term (t : T)         -- z3 BitVecRef
  | bterm (b : B)        -- z3 BoolRef

inductive Rep where
  | con (n : Nat)        -- `_symbolic = False`, `_value : int` (masked to the size)
  | sym (t : T)          -- `_symbolic = True`, `_value : BitVecRef`

inductive BRep where
  | con (b : Bool)       -- the singletons TRUE / FALSE
  | sym (b : B)

/-- a stack word: HalmosBitVec of some size, or HalmosBool -/
inductive HV where
  | bv (size : Nat) (r : Rep)
  | bool (r : BRep)

instance : Inhabited HV := ⟨.bv 256 (.con 0)⟩

structure Simp where
  t : T → T
  b : B → B

/-- the simplifier preserves meaning, width and well-formedness (the trusted property of z3's `simplify`) -/
structure SimpSound (s : Simp) : Prop where
  evalT : ∀ I t, t.WF → (s.t t).eval I = t.eval I
  widthT : ∀ t, t.WF → (s.t t).width = t.width
  wfT : ∀ t, t.WF → (s.t t).WF
  evalB : ∀ I b, b.WF → (s.b b).eval I = b.eval I
  wfB : ∀ b, b.WF → (s.b b).WF

/-! ### constructors -/

/-- `HalmosBitVec.__init__` after the wrappers are unwrapped: fit a term to `size` -/
def fitWidth (t : T) (size : Nat) : T :=
  if size < t.width then .extract (size - 1) 0 t
  else if size > t.width then .concat (.lit (size - t.width) 0) t
  else t

def finishBV (s : Simp) (t : T) (size : Nat) : HV :=
  match s.t t with
  | .lit w n => .bv size (.con (n % 2 ^ w))     -- is_bv_value(simplified): concrete
  | t' => .bv size (.sym t')

/-- `HalmosBitVec(value, size=size)` for a raw Python value -/
def mkBV (s : Simp) (v : PV) (size : Nat) : HV :=
  match v with
  | .int i => .bv size (.con (ofInt size i))                         -- value & ((1 << size) - 1)
  | .pbool b => .bv size (.con ((if b then 1 else 0) % 2 ^ size))
  | .bterm b => finishBV s (.ite b (.lit size 1) (.lit size 0)) size
  | .term t => finishBV s (fitWidth t size) size

/-- `HalmosBool(value)` for a raw Python value that is a bool or a BoolRef -/
def mkBool (s : Simp) (v : PV) : Except PyErr HV :=
  match v with
  | .pbool b => .ok (.bool (.con b))
  | .bterm b =>
    match s.b b with
    | .lit c => .ok (.bool (.con c))             -- is_true / is_false
    | b' => .ok (.bool (.sym b'))
  | _ => .error .typeError

/-- `x.value` / `x._value` / `x.unwrap()` -/
def HV.value : HV → PV
  | .bv _ (.con n) => .int n
  | .bv _ (.sym t) => .term t
  | .bool (.con b) => .pbool b
  | .bool (.sym b) => .bterm b

def HV.isConcrete : HV → Bool
  | .bv _ (.con _) => true
  | .bool (.con _) => true
  | _ => false

/-- `x.as_z3()` for a HalmosBitVec -/
def asZ3 (size : Nat) : Rep → T
  | .con n => .lit size n
  | .sym t => t

/-- `HalmosBitVec(x, size=size)` where `x` is already a HalmosBitVec / HalmosBool (the `__new__` shortcut) -/
def reBV (s : Simp) (x : HV) (size : Nat) : HV :=
  match x with
  | .bv sz r => if sz = size then .bv sz r else mkBV s (HV.value (.bv sz r)) size
  | .bool r => mkBV s (HV.value (.bool r)) size

/-! ### Python / z3 operator layer (`+`, `-`, `*`, `&`, … on `int | BitVecRef`) -/

/-- z3 coerces the int side to the term's width -/
def pvArith (op : BinOp) (pyop : Int → Int → Int) (a b : PV) : Except PyErr PV :=
  match a, b with
  | .int x, .int y => .ok (.int (pyop x y))
  | .int x, .term t => .ok (.term (.bin op (.lit t.width (ofInt t.width x)) t))
  | .term t, .int y => .ok (.term (.bin op t (.lit t.width (ofInt t.width y))))
  | .term t, .term u => .ok (.term (.bin op t u))
  | _, _ => .error .typeError

/-- `a == b` on `int | BitVecRef` -/
def pvEq (a b : PV) : Except PyErr PV :=
  match a, b with
  | .int x, .int y => .ok (.pbool (x == y))
  | .int x, .term t => .ok (.bterm (.cmp .eq t (.lit t.width (ofInt t.width x))))
  | .term t, .int y => .ok (.bterm (.cmp .eq t (.lit t.width (ofInt t.width y))))
  | .term t, .term u => .ok (.bterm (.cmp .eq t u))
  | .pbool x, .pbool y => .ok (.pbool (x == y))
  | .bterm x, .bterm y => .ok (.bterm (.beq x y))
  | .pbool x, .bterm y => .ok (.bterm (.beq y (.lit x)))
  | .bterm x, .pbool y => .ok (.bterm (.beq x (.lit y)))
  | _, _ => .error .typeError

def isPowerOfTwo (x : Nat) : Bool := x > 0 && (x &&& (x - 1)) == 0

/-- Python `int.bit_length()` -/
def bitLength (x : Nat) : Nat := if x = 0 then 0 else Nat.log2 x + 1

def toSigned (x size : Nat) : Int :=
  if x &&& (1 <<< (size - 1)) ≠ 0 then (x : Int) - ((1 <<< size : Nat) : Int) else x

/-! ### HalmosBool methods -/

def boolIsZero (s : Simp) : BRep → Except PyErr HV
  | .con b => .ok (.bool (.con (!b)))
  | .sym b => mkBool s (.bterm (.not b))

def brepZ3 : BRep → B
  | .con b => .lit b
  | .sym b => b

def boolAnd (s : Simp) (x y : BRep) : Except PyErr HV :=
  match x, y with
  | .con true, _ => .ok (.bool y)
  | .con false, _ => .ok (.bool x)
  | _, .con true => .ok (.bool x)
  | _, .con false => .ok (.bool y)
  | _, _ => mkBool s (.bterm (.and (brepZ3 x) (brepZ3 y)))

def boolOr (s : Simp) (x y : BRep) : Except PyErr HV :=
  match x, y with
  | .con true, _ => .ok (.bool x)
  | _, .con true => .ok (.bool y)
  | .con false, _ => .ok (.bool y)
  | _, .con false => .ok (.bool x)
  | _, _ => mkBool s (.bterm (.or (brepZ3 x) (brepZ3 y)))

def boolXor (s : Simp) (x y : BRep) : Except PyErr HV :=
  match x, y with
  | .con true, _ => boolIsZero s y
  | _, .con true => boolIsZero s x
  | .con false, _ => .ok (.bool y)
  | _, .con false => .ok (.bool x)
  | _, _ => mkBool s (.bterm (.xor (brepZ3 x) (brepZ3 y)))

def boolEq (s : Simp) (x y : BRep) : Except PyErr HV := do
  let v ← pvEq (HV.value (.bool x)) (HV.value (.bool y))
  mkBool s v

/-- `Bool.as_bv(size)` -/
def boolAsBV (s : Simp) (x : BRep) (size : Nat) : HV :=
  match x with
  | .con true => .bv size (.con (1 % 2 ^ size))
  | .con false => .bv size (.con 0)
  | .sym b => finishBV s (.ite b (.lit size 1) (.lit size 0)) size

/-! ### HalmosBitVec methods (`self` has size `size`; `assert size == other.size` is `sizeCheck`) -/

def sizeCheck (a b : Nat) : Except PyErr Unit := if a = b then .ok () else .error .assertion

def bvIsZero (s : Simp) (r : Rep) : Except PyErr HV := do
  let v ← pvEq (HV.value (.bv 0 r)) (.int 0)
  mkBool s v

def bvIsNonZero (s : Simp) (r : Rep) : Except PyErr HV :=
  match r with
  | .con n => .ok (.bool (.con (n != 0)))
  | .sym t => mkBool s (.bterm (.not (.cmp .eq t (.lit t.width 0))))

def bvAdd (s : Simp) (size : Nat) (x : Rep) (osize : Nat) (y : Rep) : Except PyErr HV := do
  sizeCheck size osize
  let v ← pvArith .add (· + ·) (HV.value (.bv size x)) (HV.value (.bv osize y))
  .ok (mkBV s v size)

def bvSub (s : Simp) (size : Nat) (x : Rep) (osize : Nat) (y : Rep) : Except PyErr HV := do
  sizeCheck size osize
  let v ← pvArith .sub (· - ·) (HV.value (.bv size x)) (HV.value (.bv osize y))
  .ok (mkBV s v size)

def bvLshl (s : Simp) (size : Nat) (x : Rep) (shift : Rep) : Except PyErr HV :=
  match shift with
  | .con k =>
    if k = 0 then .ok (.bv size x)
    else if k ≥ size then .ok (.bv size (.con 0))
    else do
      let v ← pvArith .shl (fun a b => a * 2 ^ b.toNat) (HV.value (.bv size x)) (.int k)
      .ok (mkBV s v size)
  | .sym t => do
    let v ← pvArith .shl (fun a b => a * 2 ^ b.toNat) (HV.value (.bv size x)) (.term t)
    .ok (mkBV s v size)

def bvLshr (s : Simp) (size : Nat) (x : Rep) (ssize : Nat) (shift : Rep) : Except PyErr HV :=
  let symbolic := .ok (mkBV s (.term (.bin .lshr (asZ3 size x) (asZ3 ssize shift))) size)
  match shift with
  | .con k =>
    if k = 0 then .ok (.bv size x)
    else match x with
      | .con n => .ok (mkBV s (.int (n >>> k : Nat)) size)   -- Python `int >> int` (any shift amount)
      | .sym _ => if k ≥ size then .ok (.bv size (.con 0)) else symbolic
  | .sym _ => symbolic

def bvAshr (s : Simp) (size : Nat) (x : Rep) (shift : Rep) : Except PyErr HV :=
  match shift with
  | .con k =>
    if k = 0 then .ok (.bv size x)
    else .ok (mkBV s (.term (.bin .ashr (asZ3 size x) (.lit size (ofInt size k)))) size)
  | .sym t => .ok (mkBV s (.term (.bin .ashr (asZ3 size x) t)) size)

/-- the abstraction callable applied to two raw values (z3 coerces ints to the declared width `w`) -/
def applyUf (name : String) (w : Nat) (a b : PV) : Except PyErr PV :=
  let arg : PV → Except PyErr T
    | .int i => .ok (.lit w (ofInt w i))
    | .term t => .ok t
    | _ => .error .typeError
  do
    let x ← arg a
    let y ← arg b
    .ok (.term (.uf2 name w x y))

def bvMul (s : Simp) (size : Nat) (x : Rep) (osize : Nat) (y : Rep) (abs : Option String) :
    Except PyErr HV := do
  sizeCheck size osize
  let lhs := HV.value (.bv size x)
  let rhs := HV.value (.bv osize y)
  match x, y with
  | .con a, .con b => .ok (mkBV s (.int (a * b : Nat)) size)
  | .con a, .sym _ =>
    if a = 0 then .ok (.bv size x)
    else if a = 1 then .ok (.bv osize y)
    else if isPowerOfTwo a then bvLshl s osize y (.con ((bitLength a - 1) % 2 ^ size))
    else do
      let v ← pvArith .mul (· * ·) lhs rhs
      .ok (mkBV s v size)
  | .sym _, .con b =>
    if b = 0 then .ok (.bv osize y)
    else if b = 1 then .ok (.bv size x)
    else if isPowerOfTwo b then bvLshl s size x (.con ((bitLength b - 1) % 2 ^ size))
    else do
      let v ← pvArith .mul (· * ·) rhs lhs
      .ok (mkBV s v size)
  | .sym _, .sym _ =>
    match abs with
    | none => do
      let v ← pvArith .mul (· * ·) lhs rhs
      .ok (mkBV s v size)
    | some f => do
      let v ← applyUf f size lhs rhs
      .ok (mkBV s v size)

def bvDiv (s : Simp) (size : Nat) (x : Rep) (osize : Nat) (y : Rep) (abs : Option String) :
    Except PyErr HV := do
  sizeCheck size osize
  let lhs := HV.value (.bv size x)
  let rhs := HV.value (.bv osize y)
  let symbolic : Except PyErr HV :=
    match abs with
    | none => do
      let v ← pvArith .udiv (fun a b => a / b) lhs rhs   -- UDiv: z3 terms only reach here
      .ok (mkBV s v size)
    | some f => do
      let v ← applyUf f size lhs rhs
      .ok (mkBV s v size)
  match y with
  | .con b =>
    if b = 0 then .ok (.bv osize y)
    else if b = 1 then .ok (.bv size x)
    else match x with
      | .con a => .ok (mkBV s (.int (a / b : Nat)) size)
      | .sym _ =>
        if isPowerOfTwo b then bvLshr s size x size (.con ((bitLength b - 1) % 2 ^ size))
        else symbolic
  | .sym _ => symbolic

def bvSdiv (s : Simp) (size : Nat) (x : Rep) (osize : Nat) (y : Rep) (abs : Option String) :
    Except PyErr HV := do
  sizeCheck size osize
  let lhs := HV.value (.bv size x)
  let rhs := HV.value (.bv osize y)
  let symbolic : Except PyErr HV :=
    match abs with
    | none => .error .typeError            -- `other / self` on two HalmosBitVec objects
    | some f => do
      let v ← applyUf f size lhs rhs
      .ok (mkBV s v size)
  match y with
  | .con b =>
    if b = 0 then .ok (.bv osize y)
    else if b = 1 then .ok (.bv size x)
    else match x with
      | .con a => .ok (mkBV s (.term (.bin .sdiv (.lit size a) (.lit size b))) size)
      | .sym _ => symbolic
  | .sym _ => symbolic

def bvMod (s : Simp) (size : Nat) (x : Rep) (osize : Nat) (y : Rep) (abs : Option String) :
    Except PyErr HV := do
  sizeCheck size osize
  let lhs := HV.value (.bv size x)
  let rhs := HV.value (.bv osize y)
  let symbolic : Except PyErr HV :=
    match abs with
    | none => do
      let v ← pvArith .urem (fun a b => a % b) lhs rhs
      .ok (mkBV s v size)
    | some f => do
      let v ← applyUf f size lhs rhs
      .ok (mkBV s v size)
  match y with
  | .con b =>
    if b = 0 then .ok (.bv osize y)
    else if b = 1 then .ok (mkBV s (.int 0) size)
    else match x with
      | .con a => .ok (mkBV s (.int (a % b : Nat)) size)
      | .sym t =>
        if isPowerOfTwo b then
          let bitsize := bitLength b - 1
          .ok (mkBV s (.term (.zext (size - bitsize) (.extract (bitsize - 1) 0 t))) size)
        else symbolic
  | .sym _ => symbolic

def bvSmod (s : Simp) (size : Nat) (x : Rep) (osize : Nat) (y : Rep) (abs : Option String) :
    Except PyErr HV := do
  sizeCheck size osize
  let lhs := HV.value (.bv size x)
  let rhs := HV.value (.bv osize y)
  let symbolic : Except PyErr HV :=
    match abs with
    | none => do
      let v ← pvArith .srem (fun a b => Int.tmod a b) lhs rhs
      .ok (mkBV s v size)
    | some f => do
      let v ← applyUf f size lhs rhs
      .ok (mkBV s v size)
  match y with
  | .con b =>
    if b = 0 then .ok (.bv osize y)
    else if b = 1 then .ok (mkBV s (.int 0) size)
    else match x with
      | .con a => .ok (mkBV s (.term (.bin .srem (.lit size a) (.lit size b))) size)
      | .sym _ => symbolic
  | .sym _ => symbolic

def bvExp (s : Simp) (size : Nat) (x : Rep) (osize : Nat) (y : Rep)
    (expAbs : Option String) (mulAbs : Option String) (smtExpByConst : Nat) : Except PyErr HV := do
  sizeCheck size osize
  let lhs := HV.value (.bv size x)
  let rhs := HV.value (.bv osize y)
  let symbolic : Except PyErr HV :=
    match expAbs with
    | none => .error .notImplemented
    | some f => do
      let v ← applyUf f size lhs rhs
      .ok (mkBV s v size)
  match y with
  | .con b =>
    if b = 0 then .ok (mkBV s (.int 1) size)
    else if b = 1 then .ok (.bv size x)
    else match x with
      | .con a => .ok (mkBV s (.int (powMod a b (2 ^ size) : Nat)) size)
      | .sym _ =>
        if b ≤ smtExpByConst then
          -- exp = self; for _ in range(rhs - 1): exp = self.mul(exp, abstraction=mul_abstraction)
          let rec loop : Nat → HV → Except PyErr HV
            | 0, acc => .ok acc
            | n + 1, acc =>
              match acc with
              | .bv asz ar => do
                let next ← bvMul s size x asz ar mulAbs
                loop n next
              | .bool _ => .error .typeError
          loop (b - 1) (.bv size x)
        else symbolic
  | .sym _ => symbolic

/-- the symbolic path of `addmod`: widen by 8 bits so that the sum cannot overflow, then reduce -/
def bvAddmodWide (s : Simp) (size : Nat) (x : Rep) (osize : Nat) (y : Rep) (msize : Nat) (m : Rep)
    (abs : Option String) : Except PyErr HV :=
  let newsize := size + 8
  match reBV s (.bv size x) newsize, reBV s (.bv osize y) newsize, reBV s (.bv msize m) newsize with
  | .bv s1 a1, .bv s2 a2, .bv s3 a3 => do
    let r1 ← bvAdd s s1 a1 s2 a2
    match r1 with
    | .bv rs1 rr1 => do
      let r2 ← bvMod s rs1 rr1 s3 a3 abs
      if rs1 ≠ newsize then .error .valueError
      else match r2 with
        | .bv rs2 _ => if rs2 ≠ newsize then .error .valueError else .ok (reBV s r2 size)
        | _ => .error .typeError
    | _ => .error .typeError
  | _, _, _ => .error .typeError

def bvAddmod (s : Simp) (size : Nat) (x : Rep) (osize : Nat) (y : Rep) (msize : Nat) (m : Rep)
    (abs : Option String) : Except PyErr HV := do
  sizeCheck size osize
  sizeCheck size msize
  match x, y, m with
  | .con a, .con b, .con n =>
    if n = 0 then .ok (.bv msize m)
    else .ok (mkBV s (.int ((a + b) % n : Nat)) size)
  | _, _, _ => bvAddmodWide s size x osize y msize m abs

/-- the symbolic path of `mulmod`: double the width so that the product cannot overflow, then reduce -/
def bvMulmodWide (s : Simp) (size : Nat) (x : Rep) (osize : Nat) (y : Rep) (msize : Nat) (m : Rep)
    (mulAbs modAbs : Option String) : Except PyErr HV :=
  let newsize := size * 2
  match reBV s (.bv size x) newsize, reBV s (.bv osize y) newsize, reBV s (.bv msize m) newsize with
  | .bv s1 a1, .bv s2 a2, .bv s3 a3 => do
    let r1 ← bvMul s s1 a1 s2 a2 mulAbs
    match r1 with
    | .bv rs1 rr1 => do
      let r2 ← bvMod s rs1 rr1 s3 a3 modAbs
      if rs1 ≠ newsize then .error .valueError
      else match r2 with
        | .bv rs2 _ => if rs2 ≠ newsize then .error .valueError else .ok (reBV s r2 size)
        | _ => .error .typeError
    | _ => .error .typeError
  | _, _, _ => .error .typeError

def bvMulmod (s : Simp) (size : Nat) (x : Rep) (osize : Nat) (y : Rep) (msize : Nat) (m : Rep)
    (mulAbs modAbs : Option String) : Except PyErr HV := do
  sizeCheck size osize
  sizeCheck size msize
  match x, y, m with
  | .con a, .con b, .con n =>
    if n = 0 then .ok (.bv msize m)
    else .ok (mkBV s (.int ((a * b) % n : Nat)) size)
  | _, _, _ => bvMulmodWide s size x osize y msize m mulAbs modAbs

/-- `self.signextend(size)` with `size` a Python int (byte index) -/
def bvSignextend (s : Simp) (size : Nat) (x : Rep) (b : Nat) : Except PyErr HV :=
  if size ≠ 256 then .error .assertion
  else if b ≥ 31 then .ok (.bv size x)
  else
    let bl := (b + 1) * 8
    .ok (mkBV s (.term (.sext (256 - bl) (.extract (bl - 1) 0 (asZ3 size x)))) 256)

def bvNot (s : Simp) (size : Nat) (x : Rep) : Except PyErr HV :=
  match x with
  | .con n => .ok (mkBV s (.int ((2 ^ size - 1 - n : Nat))) size)   -- ~v & mask
  | .sym t => .ok (mkBV s (.term (.bnot t)) size)

def bvBitwise (s : Simp) (op : BinOp) (pyop : Int → Int → Int) (size : Nat) (x : Rep) (osize : Nat)
    (y : Rep) : Except PyErr HV := do
  sizeCheck size osize
  let v ← pvArith op pyop (HV.value (.bv size x)) (HV.value (.bv osize y))
  .ok (mkBV s v size)

def natAnd (a b : Int) : Int := (a.toNat &&& b.toNat : Nat)
def natOr (a b : Int) : Int := (a.toNat ||| b.toNat : Nat)
def natXor (a b : Int) : Int := (a.toNat ^^^ b.toNat : Nat)

/-- unsigned / signed comparisons: concrete fast path on Python ints, otherwise the z3 predicate -/
def bvCmp (s : Simp) (op : CmpOp) (size : Nat) (x : Rep) (osize : Nat) (y : Rep) : Except PyErr HV := do
  sizeCheck size osize
  match x, y with
  | .con a, .con b =>
    let r : Bool := match op with
      | .ult => a < b | .ugt => a > b | .ule => a ≤ b | .uge => a ≥ b
      | .slt => toSigned a size < toSigned b osize
      | .sgt => toSigned a size > toSigned b osize
      | .sle => toSigned a size ≤ toSigned b osize
      | .sge => toSigned a size ≥ toSigned b osize
      | .eq => a == b
    .ok (.bool (.con r))
  | _, _ => mkBool s (.bterm (.cmp op (asZ3 size x) (asZ3 osize y)))

def bvEq (s : Simp) (size : Nat) (x : Rep) (osize : Nat) (y : Rep) : Except PyErr HV := do
  sizeCheck size osize
  let v ← pvEq (HV.value (.bv size x)) (HV.value (.bv osize y))
  mkBool s v

/-- `self.byte(idx, output_size=…)` with a Python int index -/
def bvByte (s : Simp) (size : Nat) (x : Rep) (idx : Nat) (outSize : Nat) : Except PyErr HV :=
  let byteLength := size / 8
  if size ≠ byteLength * 8 then .error .assertion
  else if idx ≥ byteLength then .ok (mkBV s (.int 0) outSize)
  else match x with
    | .con n => .ok (mkBV s (.int ((n / 2 ^ (8 * (byteLength - 1 - idx))) % 256 : Nat)) outSize)
    | .sym t =>
      let lo := (byteLength - 1 - idx) * 8
      .ok (mkBV s (.term (.extract (lo + 7) lo t)) outSize)

/-- `SEVM.sym_byte_of(idx, w)`: 32 nested ite, zero-extended -/
def symByteOf (idx w : T) : T :=
  let rec go : Nat → Nat → T
    | 0, _ => .lit 8 0
    | fuel + 1, curr =>
      .ite (.cmp .eq idx (.lit 256 curr))
        (.extract ((31 - curr) * 8 + 7) ((31 - curr) * 8) w)
        (go fuel (curr + 1))
  .zext 248 (go 32 0)

/-! ### the word-instruction cases of `SEVM.run` -/

inductive WordOp where
  | ADD | MUL | SUB | DIV | SDIV | MOD | SMOD | ADDMOD | MULMOD | EXP | SIGNEXTEND
  | LT | GT | SLT | SGT | EQ | ISZERO | AND | OR | XOR | NOT | BYTE | SHL | SHR | SAR
  deriving DecidableEq, Repr, Inhabited

/-- `state.popi()` / `state.topi()`: Bool-typed items are converted to 256-bit words -/
def toBV256 (s : Simp) : HV → HV
  | .bool r => boolAsBV s r 256
  | v => v

/-- engine parameters that reach the word instructions -/
structure WordCfg where
  smtExpByConst : Nat := 2

def ufName (base : String) (w : Nat) : String := s!"f_evm_{base}_{w}"

/-- apply a binary method to two stack items after `popi` -/
def withBV2 (s : Simp) (a b : HV) (k : Nat → Rep → Nat → Rep → Except PyErr HV) : Except PyErr HV :=
  match toBV256 s a, toBV256 s b with
  | .bv sa ra, .bv sb rb => k sa ra sb rb
  | _, _ => .error .typeError

/-- `bitwise(op, x, y)` of sevm.py -/
def sevmBitwise (s : Simp) (op : WordOp) (x y : HV) : Except PyErr HV :=
  match x, y with
  | .bool a, .bool b =>
    match op with
    | .AND => boolAnd s a b
    | .OR => boolOr s a b
    | .XOR => boolXor s a b
    | _ => .error .valueError
  | .bv sa ra, .bv sb rb =>
    match op with
    | .AND => bvBitwise s .band natAnd sa ra sb rb
    | .OR => bvBitwise s .bor natOr sa ra sb rb
    | .XOR => bvBitwise s .bxor natXor sa ra sb rb
    | _ => .error .valueError
  | _, _ =>
    match reBV s x 256, reBV s y 256 with
    | .bv sa ra, .bv sb rb =>
      match op with
      | .AND => bvBitwise s .band natAnd sa ra sb rb
      | .OR => bvBitwise s .bor natOr sa ra sb rb
      | .XOR => bvBitwise s .bxor natXor sa ra sb rb
      | _ => .error .valueError
    | _, _ => .error .typeError

/-- One word instruction of `SEVM.run`. `args` are the stack items it consumes, top of stack first.
    Returns the item it leaves on the stack and the auxiliary constraints `SEVM.arith` appends to the path. -/
def execWord (s : Simp) (cfg : WordCfg) (op : WordOp) (args : List HV) : Except PyErr (HV × List B) :=
  let pure1 (r : Except PyErr HV) : Except PyErr (HV × List B) := r.map (·, [])
  match op, args with
  | .ADD, [a, b] => pure1 <| withBV2 s a b (bvAdd s)
  | .SUB, [a, b] => pure1 <| withBV2 s a b (bvSub s)
  | .MUL, [a, b] => pure1 <| withBV2 s a b fun sa ra sb rb => bvMul s sa ra sb rb (some (ufName "bvmul" sa))
  | .DIV, [a, b] =>
    match toBV256 s a, toBV256 s b with
    | .bv sa ra, .bv sb rb => do
      let term ← bvDiv s sa ra sb rb (some (ufName "bvudiv" 256))
      match term with
      | .bv _ (.sym t) => .ok (term, [.cmp .ule t (asZ3 sa ra)])        -- (x / y) <= x
      | _ => .ok (term, [])
    | _, _ => .error .typeError
  | .MOD, [a, b] =>
    match toBV256 s a, toBV256 s b with
    | .bv sa ra, .bv sb rb => do
      let term ← bvMod s sa ra sb rb (some (ufName "bvurem" sa))
      match term with
      | .bv _ (.sym t) => .ok (term, [.cmp .ule t (asZ3 sb rb)])        -- (x % y) <= y
      | _ => .ok (term, [])
    | _, _ => .error .typeError
  | .SDIV, [a, b] => pure1 <| withBV2 s a b fun sa ra sb rb => bvSdiv s sa ra sb rb (some (ufName "bvsdiv" 256))
  | .SMOD, [a, b] => pure1 <| withBV2 s a b fun sa ra sb rb => bvSmod s sa ra sb rb (some (ufName "bvsrem" 256))
  | .EXP, [a, b] => pure1 <| withBV2 s a b fun sa ra sb rb =>
      bvExp s sa ra sb rb (some (ufName "exp" 256)) (some (ufName "bvmul" sa)) cfg.smtExpByConst
  | .ADDMOD, [a, b, n] =>
    pure1 <| match toBV256 s a, toBV256 s b, toBV256 s n with
    | .bv sa ra, .bv sb rb, .bv sn rn => bvAddmod s sa ra sb rb sn rn (some (ufName "bvurem" (sa + 8)))
    | _, _, _ => .error .typeError
  | .MULMOD, [a, b, n] =>
    pure1 <| match toBV256 s a, toBV256 s b, toBV256 s n with
    | .bv sa ra, .bv sb rb, .bv sn rn =>
      bvMulmod s sa ra sb rb sn rn (some (ufName "bvmul" (2 * sa))) (some (ufName "bvurem" (2 * sa)))
    | _, _, _ => .error .typeError
  | .SIGNEXTEND, [a, b] =>
    -- w1 = int_of(popi()) must be concrete; a symbolic size raises NotConcreteError (path becomes stuck)
    pure1 <| match toBV256 s a, toBV256 s b with
    | .bv _ (.con k), .bv sb rb => bvSignextend s sb rb k
    | .bv _ (.sym _), .bv _ _ => .error .notConcrete
    | _, _ => .error .typeError
  | .LT, [a, b] => pure1 <| withBV2 s a b (bvCmp s .ult)
  | .GT, [a, b] => pure1 <| withBV2 s a b (bvCmp s .ugt)
  | .SLT, [a, b] => pure1 <| withBV2 s a b (bvCmp s .slt)
  | .SGT, [a, b] => pure1 <| withBV2 s a b (bvCmp s .sgt)
  | .EQ, [a, b] =>
    pure1 <| match a, b with
    | .bool x, .bool y => boolEq s x y
    | .bv sa ra, .bv sb rb => bvEq s sa ra sb rb
    | _, _ =>
      match reBV s a 256, reBV s b 256 with
      | .bv sa ra, .bv sb rb => bvEq s sa ra sb rb
      | _, _ => .error .typeError
  | .ISZERO, [a] =>
    pure1 <| match a with
    | .bool r => boolIsZero s r
    | .bv _ r => bvIsZero s r
  | .AND, [a, b] => pure1 <| sevmBitwise s .AND a b
  | .OR, [a, b] => pure1 <| sevmBitwise s .OR a b
  | .XOR, [a, b] => pure1 <| withBV2 s a b (bvBitwise s .bxor natXor)
  | .NOT, [a] =>
    pure1 <| match toBV256 s a with
    | .bv sa ra => bvNot s sa ra
    | _ => .error .typeError
  | .BYTE, [i, w] =>
    pure1 <| match toBV256 s i, toBV256 s w with
    | .bv _ (.con k), .bv sw rw => bvByte s sw rw k 256
    | .bv _ (.sym it), .bv sw rw => .ok (mkBV s (.term (symByteOf it (asZ3 sw rw))) 256)
    | _, _ => .error .typeError
  | .SHL, [sh, x] => pure1 <| withBV2 s sh x fun _ rsh sx rx => bvLshl s sx rx rsh
  | .SHR, [sh, x] => pure1 <| withBV2 s sh x fun ssh rsh sx rx => bvLshr s sx rx ssh rsh
  | .SAR, [sh, x] => pure1 <| withBV2 s sh x fun _ rsh sx rx => bvAshr s sx rx rsh
  | _, _ => .error .stackUnderflow

/-! ### denotation -/

def HV.denote (I : Interp) : HV → Nat
  | .bv _ (.con n) => n
  | .bv _ (.sym t) => t.eval I
  | .bool (.con b) => if b then 1 else 0
  | .bool (.sym b) => if b.eval I then 1 else 0

/-- representation invariant of stack words -/
def HV.WF : HV → Prop
  | .bv size (.con n) => 0 < size ∧ n < 2 ^ size
  | .bv size (.sym t) => 0 < size ∧ t.WF ∧ t.width = size
  | .bool (.con _) => True
  | .bool (.sym b) => b.WF

/-- a 256-bit word or a boolean: what `State.push` admits -/
def HV.IsWord : HV → Prop
  | .bv size _ => size = 256
  | .bool _ => True

/-! ### promptness: the size of the Python integers the concrete paths create -/

/-- bit length of the largest intermediate of `pow(b, e, m)` (square-and-multiply, see `powMod`) -/
def powModCost (b e m : Nat) : Nat :=
  if h : e = 0 then 1
  else
    max (bitLength (b * b))
      (max (powModCost ((b * b) % m) (e / 2) m) (bitLength (b * powMod ((b * b) % m) (e / 2) m)))
termination_by e
decreasing_by omega

/-- the Python int behind a concrete stack item -/
def conVal : HV → Option Nat
  | .bv _ (.con n) => some n
  | .bool (.con b) => some (if b then 1 else 0)
  | _ => none

/-- Bit length of the largest Python integer the model's int-backed paths create for one instruction
    (an annotation of `execWord`, read off the concrete branches above: `a + b`, `a * b`, `x << k` with
    `k < 256`, `pow(a, b, 2**256)`, `x - (1 << 256)` in `to_signed`; every other branch creates no integer wider
    than an operand, and symbolic operands create none). The unbounded alternative `a ** b` would make the
    EXP line `bitLength (a ^ b)`. -/
def opCost (op : WordOp) (args : List HV) : Nat :=
  match op, args.map conVal with
  | .ADD, [some a, some b] => bitLength (a + b)
  | .ADDMOD, some a :: some b :: _ => bitLength (a + b)
  | .MUL, [some a, some b] => bitLength (a * b)
  | .MULMOD, some a :: some b :: _ => bitLength (a * b)
  | .EXP, [some a, some b] => if b ≤ 1 then 256 else powModCost a b (2 ^ 256)
  | .SHL, [some k, some x] => if k ≥ 256 then 256 else bitLength (x * 2 ^ k)
  | .SLT, _ => 257
  | .SGT, _ => 257
  | _, _ => 256

end HalmosVerif.Model
