/-
Model.ByteVec — executable model of `halmos.bytevec` (`Chunk`, `ConcreteChunk`, `SymbolicChunk`, `ByteVec`)
written from src/halmos/bytevec.py, branch for branch.

Layers
* `Leaf` (= `Spec.Piece`): a `ConcreteChunk(data, start, length)` / `SymbolicChunk(data, start, length)`;
  a symbolic chunk's backing term is a named bit-vector of `size` bytes.
* `ChunkOps C`: what `ByteVec` uses of a chunk by duck typing: `len(chunk)`, `chunk[a:b]`,
  `chunk.get_byte(i)`, `chunk.unwrap()`, what `append(chunk)` stores (`parts`: the chunk itself, or the inner
  chunks of a `ByteVec`, recursively), `b"\x00"*n`, `chunk.concretize(σ)`.
* `BVec C`: `ByteVec` = (`chunks`: the `SortedDict` offset ↦ chunk as a key-sorted association list, `length`),
  with `bisect_right`, `peekitem`, `__setitem__`, index-range deletion, and every method of `ByteVec`
  generic in `C`.
* `Pure`: the pool of named objects for the **non-aliasing** variant (`aliasOnAligned = false`): every chunk is
  a leaf, objects are values.
* `Heap`: the pool for the **aliasing** variant (`aliasOnAligned = true`, what bytevec.py:584-586 does today):
  `set_slice` on an exactly aligned range stores the value *object* as a chunk, so chunks may be `ref id`
  (a pool object held by reference) or `inl` (an anonymous ByteVec produced by slicing), and every chunk
  operation duck-types through the heap.
* `run (aliasOnAligned : Bool)`: histories of `Spec.Op` → replies.

Core Lean only.
-/
import HalmosVerif.Spec.Bytes

namespace HalmosVerif.Model.BV
open HalmosVerif.Spec

/-! ## Leaf chunks -/

abbrev Leaf := Piece

namespace Leaf
/-- `Chunk.slice(start, stop)`: same backing data, shifted start -/
def slice : Leaf → Nat → Nat → Leaf
  | .conc d s _, a, b => .conc d (s + a) (b - a)
  | .symb x n s _, a, b => .symb x n (s + a) (b - a)

/-- `ConcreteChunk(b"\x00" * n)` -/
def zeros (n : Nat) : Leaf := .conc (List.replicate n 0) 0 n

/-- `Chunk.concretize`: a symbolic chunk whose variable is substituted becomes
    `ConcreteChunk(bytes, self.start, self.length)`; otherwise `self` -/
def subst (σ : String → Option (List Nat)) : Leaf → Leaf
  | .conc d s l => .conc d s l
  | .symb x n s l => match σ x with
    | some bs => .conc bs s l
    | none => .symb x n s l
end Leaf

/-! ## What ByteVec needs from a chunk -/

structure ChunkOps (C : Type) where
  len : C → Nat                      -- len(chunk)
  slice : C → Nat → Nat → C          -- chunk[a:b]
  byteAt : C → Nat → Byte            -- chunk.get_byte(i)
  bytes : C → List Byte              -- chunk.unwrap()
  parts : C → List C                 -- what append(chunk) stores
  zeros : Nat → C                    -- b"\x00" * n wrapped
  subst : (String → Option (List Nat)) → C → C   -- chunk.concretize(σ)

def leafOps : ChunkOps Leaf where
  len := Piece.len
  slice := Leaf.slice
  byteAt := Piece.byteAt
  bytes := Piece.bytes
  parts := fun c => [c]
  zeros := Leaf.zeros
  subst := Leaf.subst

/-! ## The SortedDict -/

/-- `SortedDict.bisect_right(x)`: number of keys ≤ x (keys are sorted, so a prefix) -/
def bisectRight {C : Type} : List (Nat × C) → Nat → Nat
  | [], _ => 0
  | (k, _) :: r, x => if k ≤ x then bisectRight r x + 1 else 0

/-- `d[k] = v` -/
def setKey {C : Type} : List (Nat × C) → Nat → C → List (Nat × C)
  | [], k, v => [(k, v)]
  | (k', v') :: r, k, v =>
    if k < k' then (k, v) :: (k', v') :: r
    else if k = k' then (k, v) :: r
    else (k', v') :: setKey r k v

/-- `for key in d.keys()[a:b]: del d[key]` -/
def delRange {C : Type} (l : List (Nat × C)) (a b : Nat) : List (Nat × C) :=
  l.take a ++ l.drop (max a b)

/-! ## ByteVec -/

structure BVec (C : Type) where
  chunks : List (Nat × C)
  length : Nat
  deriving DecidableEq, Repr

namespace BVec
variable {C : Type}

def empty : BVec C := ⟨[], 0⟩

/-- `ChunkInfo`: (index, start, chunk, end) -/
abbrev Info (C : Type) := Nat × Nat × C × Nat

/-- `_load_chunk(offset)` for `offset ≥ 0`: `none` = not found (`index = -1`) -/
def loadChunk (O : ChunkOps C) (bv : BVec C) (off : Nat) : Option (Info C) :=
  if off ≥ bv.length then none
  else
    let idx := bisectRight bv.chunks off - 1
    match bv.chunks[idx]? with
    | some (k, c) => some (idx, k, c, k + O.len c)
    | none => none

/-- `__set_chunk`: empty chunks are ignored -/
def setChunk (O : ChunkOps C) (l : List (Nat × C)) (k : Nat) (c : C) : List (Nat × C) :=
  if O.len c = 0 then l else setKey l k c

/-- `append` of one (non-ByteVec) chunk -/
def push (O : ChunkOps C) (bv : BVec C) (c : C) : BVec C :=
  if O.len c = 0 then bv
  else ⟨setKey bv.chunks bv.length c, bv.length + O.len c⟩

/-- `append(chunk)`: a ByteVec-like chunk is unpacked recursively (`parts`) -/
def append (O : ChunkOps C) (bv : BVec C) (c : C) : BVec C := (O.parts c).foldl (push O) bv

/-- `append(other : ByteVec)` -/
def appendAll (O : ChunkOps C) (bv : BVec C) (v : List (Nat × C)) : BVec C :=
  v.foldl (fun acc e => append O acc e.2) bv

/-- a value passed to `set_slice` / `append`: a single chunk, or a ByteVec (`chunks`, `length`) together with
    `asChunk`: the chunk that represents *the object itself* when the aligned fast path of `set_slice`
    stores it by reference (`none` in the non-aliasing variant: the fast path is not taken for a ByteVec) -/
inductive Value (C : Type) where
  | one (c : C)
  | many (asChunk : Option C) (chunks : List (Nat × C)) (length : Nat)

def Value.len (O : ChunkOps C) : Value C → Nat
  | .one c => O.len c
  | .many _ _ n => n

def Value.asChunk : Value C → Option C
  | .one c => some c
  | .many a _ _ => a

def appendValue (O : ChunkOps C) (bv : BVec C) : Value C → BVec C
  | .one c => append O bv c
  | .many _ v _ => appendAll O bv v

/-- `set_byte(offset, value)`; `v` is `Chunk.wrap(value)` -/
def setByte (O : ChunkOps C) (bv : BVec C) (off : Nat) (v : C) : Except Err (BVec C) :=
  if O.len v ≠ 1 then .error .assertion
  else if off ≥ bv.length then
    .ok (append O (append O bv (O.zeros (off - bv.length))) v)
  else
    match loadChunk O bv off with
    | none => .error .assertion
    | some (_, k, c, _) =>
      if ¬ (k ≤ off ∧ off - k < O.len c) then .error .assertion
      else
        let oic := off - k
        let l1 := setChunk O bv.chunks k (O.slice c 0 oic)
        let l2 := setKey l1 off v
        let l3 := setChunk O l2 (off + 1) (O.slice c (oic + 1) (O.len c))
        .ok ⟨l3, bv.length⟩

/-- `if isinstance(value, ByteVec): for k, c in value.chunks.items(): __set_chunk(start + k, c)`
    `else: __set_chunk(start, value)` -/
def storeValue (O : ChunkOps C) (l : List (Nat × C)) (start : Nat) : Value C → List (Nat × C)
  | .one c => setChunk O l start c
  | .many _ vs _ => vs.foldl (fun l e => setChunk O l (start + e.1) e.2) l

/-- `if last_chunk.end and stop < last_chunk.end: __set_chunk(stop, last_chunk.chunk[stop - last_chunk.start:])` -/
def keepTail (O : ChunkOps C) (l : List (Nat × C)) (stop : Nat) : Option (Info C) → List (Nat × C)
  | some (_, lk, lc, le) =>
    if stop < le then setChunk O l stop (O.slice lc (stop - lk) (O.len lc)) else l
  | none => l

/-- the general (non-aligned, in-range) path of `set_slice`, after `first_chunk = (fi, fk, fc, _)` was loaded:
    delete the overwritten chunks, truncate the first one, store the value's chunks, keep the tail of the last -/
def setSliceGeneral (O : ChunkOps C) (bv : BVec C) (start stop : Nat) (v : Value C)
    (fi fk : Nat) (fc : C) : BVec C :=
  let last := loadChunk O bv (stop - 1)
  let removeTo := if stop ≥ bv.length then bv.chunks.length
                  else match last with
                    | some (li, _, _, _) => li + 1
                    | none => 0
  let l1 := delRange bv.chunks (fi + 1) removeTo
  let l2 := setChunk O l1 fk (O.slice fc 0 (start - fk))
  let l3 := storeValue O l2 start v
  let l4 := keepTail O l3 stop last
  ⟨l4, max bv.length stop⟩

/-- `set_slice(start, stop, value)` for `0 ≤ start, stop` -/
def setSlice (O : ChunkOps C) (bv : BVec C) (start stop : Nat) (v : Value C) : Except Err (BVec C) :=
  if start = stop then .ok bv
  else if start > stop then .error .valueError
  else if stop - start ≠ v.len O then .error .valueError
  else if start ≥ bv.length then
    .ok (appendValue O (append O bv (O.zeros (start - bv.length))) v)
  else
    match loadChunk O bv start with
    | none => .error .assertion
    | some (fi, fk, fc, fe) =>
      match (if start = fk ∧ stop = fe then v.asChunk else none) with
      | some c => .ok ⟨setChunk O bv.chunks fk c, bv.length⟩      -- aligned write
      | none => .ok (setSliceGeneral O bv start stop v fi fk fc)

/-- `set_word(offset, value)` where `w` is the wrapped 32-byte value -/
def setWord (O : ChunkOps C) (bv : BVec C) (off : Nat) (w : C) : Except Err (BVec C) :=
  setSlice O bv off (off + 32) (.one w)

/-- loop of `slice`: `for chunk_start, chunk in self.chunks.items()[first.index:]` -/
def sliceLoop (O : ChunkOps C) (start stop : Nat) : List (Nat × C) → BVec C → BVec C
  | [], r => r
  | (k, c) :: rest, r =>
    if k ≥ stop then r
    else if start ≤ k ∧ k + O.len c ≤ stop then sliceLoop O start stop rest (append O r c)
    else
      let so := start - k                      -- max(0, start - chunk_start)
      let eo := min (O.len c) (stop - k)
      sliceLoop O start stop rest (append O r (O.slice c so eo))

/-- `slice(start, stop)` for `0 ≤ start` -/
def slice (O : ChunkOps C) (bv : BVec C) (start stop : Nat) : BVec C :=
  let expected := stop - start
  if expected = 0 then empty
  else
    match loadChunk O bv start with
    | none => append O empty (O.zeros expected)
    | some (fi, _, _, _) =>
      let r := sliceLoop O start stop (bv.chunks.drop fi) empty
      let missing := expected - r.length
      if missing ≠ 0 then append O r (O.zeros missing) else r

/-- `get_byte(offset)` -/
def getByte (O : ChunkOps C) (bv : BVec C) (off : Nat) : Byte :=
  match loadChunk O bv off with
  | none => Byte.zero
  | some (_, k, c, _) => O.byteAt c (off - k)

/-- `unwrap()`: the concatenation of the chunks' `unwrap()` -/
def flatten (O : ChunkOps C) (bv : BVec C) : List Byte := bv.chunks.flatMap fun e => O.bytes e.2

/-- `get_word(offset)`: `slice(offset, offset+32).unwrap()` -/
def getWord (O : ChunkOps C) (bv : BVec C) (off : Nat) : List Byte := flatten O (slice O bv off (off + 32))

/-- `concretize(σ)` -/
def concretize (O : ChunkOps C) (bv : BVec C) (σ : String → Option (List Nat)) : BVec C :=
  bv.chunks.foldl (fun r e => append O r (O.subst σ e.2)) empty

/-- `ByteVec(list_of_chunks)` -/
def ofList (O : ChunkOps C) (cs : List C) : BVec C := cs.foldl (append O) empty

end BVec

/-! ## Pool of objects, non-aliasing variant (every chunk a leaf, objects are values) -/

namespace Pure
open BVec

abbrev Pool := String → BVec Leaf

def init : Pool := fun _ => BVec.empty
def set (p : Pool) (a : String) (v : BVec Leaf) : Pool := fun x => if x = a then v else p x

/-- the value denoted by a data argument -/
def dataValue (p : Pool) : Data → Value Leaf
  | .raw q => .one q
  | .vec qs => let v := ofList leafOps qs; .many none v.chunks v.length
  | .obj b => .many none (p b).chunks (p b).length
  | .objSlice b s e => let v := slice leafOps (p b) s e; .many none v.chunks v.length

def upd (p : Pool) (a : String) (r : Except Err (BVec Leaf)) : Pool × Reply :=
  match r with
  | .ok v => (set p a v, .unit)
  | .error e => (p, .err e)

def step (p : Pool) (op : Op) : Pool × Reply :=
  if op.selfData then (p, .err .unsupported) else
  match op with
  | .new a => (set p a BVec.empty, .unit)
  | .append a d => (set p a (appendValue leafOps (p a) (dataValue p d)), .unit)
  | .setByte a off q => upd p a (setByte leafOps (p a) off q)
  | .setSlice a s e d => upd p a (setSlice leafOps (p a) s e (dataValue p d))
  | .setWord a off q => upd p a (setWord leafOps (p a) off q)
  | .copy a b => (set p b (p a), .unit)
  | .slice a s e b =>
    let v := slice leafOps (p a) s e
    (set p b v, .bytes (flatten leafOps v))
  | .concretize a σ b => (set p b (concretize leafOps (p a) (FlatPool.substOf σ)), .unit)
  | .getByte a off => (p, .bytes [getByte leafOps (p a) off])
  | .getWord a off => (p, .bytes (getWord leafOps (p a) off))
  | .unwrap a => (p, .bytes (flatten leafOps (p a)))
  | .len a => (p, .num (p a).length)

def run : Pool → List Op → List Reply
  | _, [] => []
  | p, op :: rest => (step p op).2 :: run (step p op).1 rest

/-- the pool after a history -/
def exec : Pool → List Op → Pool
  | p, [] => p
  | p, op :: rest => exec (step p op).1 rest

end Pure

/-! ## Pool of objects, aliasing variant (what the code does today) -/

inductive AChunk where
  | leaf (l : Leaf)
  | ref (id : Nat)            -- a pool ByteVec object stored by reference as a chunk
  | inl (ls : List Leaf)      -- an anonymous ByteVec (the result of a slice / a fresh ByteVec), immutable
  deriving DecidableEq, Repr, Inhabited

namespace Heap
open BVec

structure H where
  objs : List (BVec AChunk)             -- id ↦ object
  names : List (String × Nat)           -- name ↦ id
  deriving Repr

def H.obj (h : H) (id : Nat) : BVec AChunk := h.objs.getD id BVec.empty

def leavesOf (bv : BVec AChunk) : List Leaf :=
  bv.chunks.filterMap fun e => match e.2 with
    | .leaf l => some l
    | _ => none

/-- chunk operations through the heap; `fuel` bounds the depth of reference chains (an acyclic heap with
    `n` objects needs `n + 1`) -/
def aops (h : H) : Nat → ChunkOps AChunk
  | 0 =>
    { len := fun c => match c with | .leaf l => l.len | _ => 0
      slice := fun c a b => match c with | .leaf l => .leaf (l.slice a b) | _ => .inl []
      byteAt := fun c i => match c with | .leaf l => l.byteAt i | _ => Byte.zero
      bytes := fun c => match c with | .leaf l => l.bytes | _ => []
      parts := fun c => match c with | .leaf l => [.leaf l] | _ => []
      zeros := fun n => .leaf (Leaf.zeros n)
      subst := fun σ c => match c with | .leaf l => .leaf (l.subst σ) | c => c }
  | n + 1 =>
    let O := aops h n
    let asBV : AChunk → BVec AChunk := fun c => match c with
      | .ref id => h.obj id
      | .inl ls => ofList O (ls.map .leaf)
      | .leaf l => ofList O [.leaf l]
    { len := fun c => match c with
        | .leaf l => l.len
        | .ref id => (h.obj id).length          -- len(ByteVec) is its `length` field
        | .inl ls => (ofList O (ls.map .leaf)).length
      slice := fun c a b => match c with
        | .leaf l => .leaf (l.slice a b)
        | c => .inl (leavesOf (BVec.slice O (asBV c) a b))      -- ByteVec.__getitem__ → slice → fresh ByteVec
      byteAt := fun c i => match c with
        | .leaf l => l.byteAt i
        | c => getByte O (asBV c) i
      bytes := fun c => match c with
        | .leaf l => l.bytes
        | c => flatten O (asBV c)
      parts := fun c => match c with
        | .leaf l => [.leaf l]
        | c => (asBV c).chunks.flatMap fun e => O.parts e.2
      zeros := fun n => .leaf (Leaf.zeros n)
      subst := fun σ c => match c with
        | .leaf l => .leaf (l.subst σ)
        | c => .inl (leavesOf (concretize O (asBV c) σ)) }

def H.ops (h : H) : ChunkOps AChunk := aops h (h.objs.length + 1)

def init : H := ⟨[], []⟩

def H.idOf? (h : H) (a : String) : Option Nat := h.names.lookup a

/-- allocate a new object and bind `a` to it -/
def H.bindNew (h : H) (a : String) (v : BVec AChunk) : H :=
  ⟨h.objs ++ [v], (a, h.objs.length) :: h.names.filter (fun e => e.1 != a)⟩

/-- the object named `a` (every name is initially an empty object) -/
def H.get (h : H) (a : String) : BVec AChunk :=
  match h.idOf? a with
  | some id => h.obj id
  | none => BVec.empty

/-- make sure `a` is bound (names are created lazily as empty objects) -/
def H.ensure (h : H) (a : String) : H :=
  match h.idOf? a with
  | some _ => h
  | none => h.bindNew a BVec.empty

/-- mutate the object named `a` in place -/
def H.put (h : H) (a : String) (v : BVec AChunk) : H :=
  let h := h.ensure a
  match h.idOf? a with
  | some id => ⟨h.objs.set id v, h.names⟩
  | none => h

def anon (bv : BVec AChunk) : AChunk := .inl (leavesOf bv)

def dataValue (h : H) : Data → Value AChunk
  | .raw q => .one (.leaf q)
  | .vec qs => let v := ofList h.ops (qs.map .leaf); .many (some (anon v)) v.chunks v.length
  | .obj b =>
    let h := h.ensure b
    match h.idOf? b with
    | some id => .many (some (.ref id)) (h.obj id).chunks (h.obj id).length
    | none => .many none [] 0
  | .objSlice b s e => let v := slice h.ops (h.get b) s e; .many (some (anon v)) v.chunks v.length

def upd (h : H) (a : String) (r : Except Err (BVec AChunk)) : H × Reply :=
  match r with
  | .ok v => (h.put a v, .unit)
  | .error e => (h, .err e)

/-- data arguments naming a pool object must see it bound (so that `ref id` exists) -/
def ensureData (h : H) : Data → H
  | .obj b => h.ensure b
  | _ => h

def step (h0 : H) (op : Op) : H × Reply :=
  if op.selfData then (h0, .err .unsupported) else
  match op with
  | .new a => (h0.bindNew a BVec.empty, .unit)
  | .append a d => let h := ensureData h0 d; (h.put a (appendValue h.ops (h.get a) (dataValue h d)), .unit)
  | .setByte a off q => upd h0 a (setByte h0.ops (h0.get a) off (.leaf q))
  | .setSlice a s e d => let h := ensureData h0 d; upd h a (setSlice h.ops (h.get a) s e (dataValue h d))
  | .setWord a off q => upd h0 a (setWord h0.ops (h0.get a) off (.leaf q))
  | .copy a b => (h0.bindNew b (h0.get a), .unit)           -- shallow copy: chunks (and refs) are shared
  | .slice a s e b =>
    let v := slice h0.ops (h0.get a) s e
    (h0.bindNew b v, .bytes (flatten h0.ops v))
  | .concretize a σ b => (h0.bindNew b (concretize h0.ops (h0.get a) (FlatPool.substOf σ)), .unit)
  | .getByte a off => (h0, .bytes [getByte h0.ops (h0.get a) off])
  | .getWord a off => (h0, .bytes (getWord h0.ops (h0.get a) off))
  | .unwrap a => (h0, .bytes (flatten h0.ops (h0.get a)))
  | .len a => (h0, .num (h0.get a).length)

def run : H → List Op → List Reply
  | _, [] => []
  | h, op :: rest => (step h op).2 :: run (step h op).1 rest

end Heap

/-- The model of a history on a pool of initially empty objects.
    `aliasOnAligned = true` is bytevec.py as it stands (aligned `set_slice` keeps the value object);
    `aliasOnAligned = false` is the variant in which the aligned fast path is not taken for a ByteVec value. -/
def run (aliasOnAligned : Bool) (ops : List Op) : List Reply :=
  if aliasOnAligned then Heap.run Heap.init ops else Pure.run Pure.init ops

end HalmosVerif.Model.BV
