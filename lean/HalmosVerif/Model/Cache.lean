/-
Model.Cache — the unsat-core cache of solve.py: `parse_unsat_core`, `append_unsat_core` (as done by
`_solve_end_to_end_callback`: only non-empty cores), `check_unsat_cores` (subset test on assertion ids), and a run of
`solve_end_to_end` over a history of queries.  A query is a list of `(id, cond)`: the id is the z3 ast id of the condition
at serialisation time (`Path.to_smt2`), which z3 may give to a different condition once the first one has been freed.
Core Lean only.
-/
import HalmosVerif.Model.RegexBT
import HalmosVerif.Gen.SolveTables

namespace HalmosVerif.Model.Cache
open HalmosVerif.Model.ReBT

/-! ### parse_unsat_core -/

def ws : Re := .cls isWs
def dig : Re := .cls Char.isDigit

/-- `unsat\s*(\(\s*error\s+[^)]*\)\s*)?\(\s*((<[0-9]+>\s*)*)\)` -/
def unsatCoreRe : Re :=
  Re.seqs [
    .lit "unsat".toList, .star ws,
    .opt (.grp 1 (Re.seqs [.lit ['('], .star ws, .lit "error".toList, ws.plus, .star (.cls fun c => c != ')'), .lit [')'], .star ws])),
    .lit ['('], .star ws,
    .grp 2 (.star (.grp 3 (Re.seqs [.lit ['<'], dig.plus, .lit ['>'], .star ws]))),
    .lit [')']]

/-- `re.sub(r"<([0-9]+)>", r"\1", name)` -/
def stripAngles : Nat → List Char → List Char
  | 0, s => s
  | _, [] => []
  | n + 1, c :: cs =>
    if c = '<' then
      let d := cs.takeWhile Char.isDigit
      let r := cs.dropWhile Char.isDigit
      match d, r with
      | _ :: _, '>' :: r' => d ++ stripAngles n r'
      | _, _ => c :: stripAngles n cs
    else c :: stripAngles n cs

/-- `parse_unsat_core`: `none` when the regex does not match (a warning is logged) -/
def parseUnsatCore (out : List Char) : Option (List (List Char)) :=
  match search unsatCoreRe (fuelFor out) out with
  | some caps => some ((splitWs (group caps 2)).map (fun t => stripAngles (t.length + 1) t))
  | none => none

/-! ### the cache -/

variable {ι κ : Type} [DecidableEq ι]

abbrev Query (ι κ : Type) := List (ι × κ)

def Query.ids (q : Query ι κ) : List ι := q.map (·.1)
def Query.conds (q : Query ι κ) : List κ := q.map (·.2)
/-- the conditions of `q` whose id is in `core` -/
def Query.restrict (q : Query ι κ) (core : List ι) : List κ := (q.filter (fun e => core.contains e.1)).map (·.2)

/-- `check_unsat_cores(query, unsat_cores)` -/
def checkUnsatCores (ids : List ι) (cores : List (List ι)) : Bool :=
  cores.any (fun core => core.all (fun i => ids.contains i))

inductive Verdict where
  | sat | unsat | unknown | err
  deriving Repr, DecidableEq

/-- what one external solver call returns to the callback: verdict and (with `--cache-solver`) the parsed core -/
abbrev Solver (ι κ : Type) := Query ι κ → Verdict × Option (List ι)

/-- `solve_end_to_end` + `_solve_end_to_end_callback` for one query: answer from the cache if a stored core is contained
    in the query's ids; otherwise ask the solver and store a non-empty core of an unsat answer -/
def step (solver : Solver ι κ) (cores : List (List ι)) (q : Query ι κ) : Verdict × List (List ι) :=
  if checkUnsatCores q.ids cores then (.unsat, cores)
  else
    ((solver q).1,
      match solver q with
      | (.unsat, some core) => if core.isEmpty then cores else cores ++ [core]
      | _ => cores)

def runCached (solver : Solver ι κ) : List (List ι) → List (Query ι κ) → List Verdict
  | _, [] => []
  | cores, q :: qs => (step solver cores q).1 :: runCached solver (step solver cores q).2 qs

def runPlain (solver : Solver ι κ) (qs : List (Query ι κ)) : List Verdict := qs.map (fun q => (solver q).1)

/-- along the history no id denotes two different conditions -/
def IdStable (h : List (Query ι κ)) : Prop :=
  ∀ q1 ∈ h, ∀ q2 ∈ h, ∀ i c1 c2, (i, c1) ∈ q1 → (i, c2) ∈ q2 → c1 = c2

/-- the external solver is sound, and the cores it reports are unsatisfiable subsets of the query -/
structure SolverOk (Unsat : List κ → Prop) (solver : Solver ι κ) : Prop where
  unsat_sound : ∀ q, (solver q).1 = .unsat → Unsat q.conds
  core_unsat : ∀ q core, solver q = (.unsat, some core) → Unsat (q.restrict core)

/-- …and decides every unsatisfiable query (no timeouts): needed only for "verdicts are equal", not for soundness -/
def SolverComplete (Unsat : List κ → Prop) (solver : Solver ι κ) : Prop := ∀ q, Unsat q.conds → (solver q).1 = .unsat

/-- unsatisfiability is monotone in the set of conditions -/
def Monotone (Unsat : List κ → Prop) : Prop := ∀ cs ds : List κ, (∀ c ∈ cs, c ∈ ds) → Unsat cs → Unsat ds

/-- an allocator that hands out the lowest id not in use (what recycling looks like): used by the witness history -/
def allocLowest (live : List Nat) (fuel : Nat) : Nat := ((List.range (fuel + 1)).find? (fun i => !live.contains i)).getD (fuel + 1)

end HalmosVerif.Model.Cache
