/-
Model.Calldata — executable model of `/repo/src/halmos/calldata.py`:
`parse_type` / `parse_tuple_type`, `Calldata.get_dyn_sizes`, `Calldata.encode`, `Calldata.encode_tuple`,
`Calldata.create`, mirrored branch for branch.

Symbols.  Every symbol halmos creates is named `p_<name>_<kind>_<uid()>_<new_symbol_id():>02>` where `<kind>` is the
ABI type string of a leaf or the word `length` for a size symbol.  Each creation calls `uid()` once and then
`new_symbol_id()` once, so the `i`-th creation of one `Calldata` object receives the `i`-th result of both; the model
records that creation index `idx` in the symbol (`SymId`) and the rendering `SymId → String` takes the two supplies
`uid sid : Nat → String` as parameters (`render`).  Note that for `bytes`/`string` the *data* symbol name is built
first (index `k`) and the size symbol second (index `k+1`), and that the data symbol's index is consumed even when the
maximal size is 0 and no data symbol is emitted.

Encoding items are `sizeVar id | const n | sym id nbits | raw bytes` (`raw` only for the 4-byte selector).

Candidate sizes are natural numbers and every candidate list is non-empty (`ensure_non_empty` in config.py; on an
empty list the real code raises `ValueError` from `max([])` — the harness checks that separately, the model is only
used on non-empty lists and the theorems have the candidate membership as a hypothesis).
-/
import HalmosVerif.Spec.Abi

namespace HalmosVerif.Model.Calldata
open HalmosVerif.Spec.Abi (Bytes toBE word)

/-! ### parsed types (the dataclasses `BaseType`, `FixedArrayType`, `DynamicArrayType`, `TupleType`) -/

inductive MTy where
  | base (var : String) (typ : String)
  | farr (var : String) (b : MTy) (size : Nat)
  | darr (var : String) (b : MTy)
  | tuple (var : String) (items : List MTy)
  deriving Repr, Inhabited

def MTy.var : MTy → String
  | .base v _ | .farr v _ _ | .darr v _ | .tuple v _ => v

/-- one entry of an ABI json `inputs` / `components` list; `components = none` when the key is absent -/
inductive AbiItem where
  | mk (name : String) (type : String) (components : Option (List AbiItem))
  deriving Repr, Inhabited

def AbiItem.name : AbiItem → String | .mk n _ _ => n
def AbiItem.type : AbiItem → String | .mk _ t _ => t
def AbiItem.components : AbiItem → Option (List AbiItem) | .mk _ _ c => c

inductive PErr where
  | notSupported      -- NotImplementedError("Not supported type: …")
  | keyError          -- item["components"] missing
  | fuel              -- model artefact: not enough fuel (never with `fuelFor`)
  deriving Repr, DecidableEq, Inhabited

/-! ### the two regular expressions of `parse_type`, as explicit functions on character lists

`re.search(r"^(.*)(\[([0-9]*)\])$", typ)`: `.` does not match a newline, `$` matches at the end *or before a final
newline*; `[0-9]` is ASCII only.  The greedy `.*` is irrelevant for the result because the suffix `[digits]` contains
a single `[`.  -/

def isDigit (c : Char) : Bool := '0' ≤ c && c ≤ '9'

/-- what `$` allows: the string itself, or the string without one final newline -/
def body (cs : List Char) : List Char :=
  if cs.getLast? = some '\n' then cs.dropLast else cs

/-- `(group 1, group 3)` of the array regex on a body -/
def matchArrayBody (b : List Char) : Option (List Char × List Char) :=
  match b.reverse with
  | ']' :: r =>
    match r.dropWhile isDigit with
    | '[' :: baseRev =>
      if baseRev.all (· != '\n') then some (baseRev.reverse, (r.takeWhile isDigit).reverse) else none
    | _ => none
  | _ => none

def matchArray (cs : List Char) : Option (List Char × List Char) := matchArrayBody (body cs)

def stripPrefix? : List Char → List Char → Option (List Char)
  | [], cs => some cs
  | _ :: _, [] => none
  | p :: ps, c :: cs => if p = c then stripPrefix? ps cs else none

def digitsAfter (p : String) (b : List Char) : Bool :=
  match stripPrefix? p.toList b with
  | some r => r.all isDigit
  | none => false

/-- `^(u?int[0-9]*|address|bool|bytes[0-9]*|string|tuple)$` on a body -/
def isBaseBody (b : List Char) : Bool :=
  b == "address".toList || b == "bool".toList || b == "string".toList || b == "tuple".toList
    || digitsAfter "uint" b || digitsAfter "int" b || digitsAfter "bytes" b

def matchBase (cs : List Char) : Bool := isBaseBody (body cs)

/-- `int(s)` for a string of ASCII digits -/
def digitsToNat (ds : List Char) : Nat := ds.foldl (fun a c => a * 10 + (c.toNat - '0'.toNat)) 0

/-! ### `parse_type` / `parse_tuple_type`  (every call consumes one unit of fuel) -/

mutual
def parseType : Nat → String → List Char → AbiItem → Except PErr MTy
  | 0, _, _, _ => .error .fuel
  | fuel + 1, var, typ, item =>
    match matchArray typ with
    | some (baseTy, arrayLen) =>
      match parseType fuel "" baseTy item with
      | .error e => .error e
      | .ok b => if arrayLen = [] then .ok (.darr var b) else .ok (.farr var b (digitsToNat arrayLen))
    | none =>
      if !matchBase typ then .error .notSupported
      else if typ = "tuple".toList then
        match item.components with
        | none => .error .keyError
        | some cs =>
          match parseItems fuel cs with
          | .error e => .error e
          | .ok its => .ok (.tuple var its)
      else .ok (.base var (String.ofList typ))
def parseItems : Nat → List AbiItem → Except PErr (List MTy)
  | 0, _ => .error .fuel
  | _ + 1, [] => .ok []
  | fuel + 1, it :: rest =>
    match parseType fuel it.name it.type.toList it with
    | .error e => .error e
    | .ok t =>
      match parseItems fuel rest with
      | .error e => .error e
      | .ok ts => .ok (t :: ts)
end

def parseTupleType (fuel : Nat) (var : String) (items : List AbiItem) : Except PErr MTy :=
  match parseItems fuel items with
  | .error e => .error e
  | .ok its => .ok (.tuple var its)

mutual
def fuelFor : AbiItem → Nat
  | .mk _ t none => t.length + 3
  | .mk _ t (some cs) => t.length + 3 + fuelForList cs
def fuelForList : List AbiItem → Nat
  | [] => 1
  | i :: r => fuelFor i + fuelForList r + 1
end

/-! ### encoding -/

structure SymId where
  pname : String      -- the parameter path, e.g. `x[0].a`
  kind : String       -- ABI type string, or `length`
  idx : Nat           -- creation index within this `Calldata` object
  deriving Repr, DecidableEq, Inhabited

inductive Item where
  | sizeVar (id : SymId) (isArr : Bool)   -- 256-bit size symbol; `isArr`: `T[]` (true) vs `bytes`/`string` (false)
  | const (n : Nat)                        -- `con(n)`: a 256-bit constant
  | sym (id : SymId) (nbits : Nat)        -- leaf symbol
  | raw (bs : Bytes)                      -- concrete bytes (function selector)
  deriving Repr, Inhabited

/-- `EncodingResult` -/
structure Enc where
  data : List Item
  size : Nat
  static : Bool
  deriving Repr, Inhabited

structure Cfg where
  arrayLengths : List (String × List Nat)    -- `--array-lengths` (a dict: keys unique)
  defaultArray : List Nat                     -- `--default-array-lengths`
  defaultBytes : List Nat                     -- `--default-bytes-lengths`
  deriving Repr, Inhabited

/-- the candidate list chosen by `get_dyn_sizes` -/
def Cfg.sizes (cfg : Cfg) (name : String) (isArr : Bool) : List Nat :=
  match cfg.arrayLengths.lookup name with
  | some s => s
  | none => if isArr then cfg.defaultArray else cfg.defaultBytes

def maxOf (l : List Nat) : Nat := l.foldl Nat.max 0

def headSizeE (x : Enc) : Nat := if x.static then x.size else 32

/-- the loop of `encode_tuple`: returns (heads, tails, total_size) -/
def tupleGo : List Enc → Nat → List Item × List Item × Nat
  | [], tot => ([], [], tot)
  | it :: rest, tot =>
    if it.static then
      let r := tupleGo rest tot
      (it.data ++ r.1, r.2.1, r.2.2)
    else
      let r := tupleGo rest (tot + it.size)
      (.const tot :: r.1, it.data ++ r.2.1, r.2.2)

def totalHead (items : List Enc) : Nat := items.foldl (fun s x => s + headSizeE x) 0

/-- `encode_tuple` -/
def encodeTuple (items : List Enc) : Enc :=
  let r := tupleGo items (totalHead items)
  ⟨r.1 ++ r.2.1, r.2.2, r.2.1.isEmpty⟩

def idxName (name : String) (i : Nat) : String := name ++ "[" ++ toString i ++ "]"

/-- `[f(i) for i in range(i, i+n)]` threading the creation counter -/
def encRange (f : Nat → Nat → Enc × Nat) : Nat → Nat → Nat → List Enc × Nat
  | _, 0, k => ([], k)
  | i, n + 1, k =>
    let r := f i k
    let rs := encRange f (i + 1) n r.2
    (r.1 :: rs.1, rs.2)

def isBytesLike (typ : String) : Bool := typ == "bytes" || typ == "string"

def tuplePrefix (name : String) : String := if name = "" then "" else name ++ "."

mutual
/-- `Calldata.encode(name, typ)`; `k` is the number of symbols created so far, the new count is returned -/
def encode (cfg : Cfg) : String → MTy → Nat → Enc × Nat
  | name, .tuple _ items, k =>
    let r := encodeItems cfg (tuplePrefix name) items k
    (encodeTuple r.1, r.2)
  | name, .farr _ b n, k =>
    let r := encRange (fun i k => encode cfg (idxName name i) b k) 0 n k
    (encodeTuple r.1, r.2)
  | name, .darr _ b, k =>
    let sizes := cfg.sizes name true
    let r := encRange (fun i k => encode cfg (idxName name i) b k) 0 (maxOf sizes) (k + 1)
    let e := encodeTuple r.1
    (⟨.sizeVar ⟨name, "length", k⟩ true :: e.data, 32 + e.size, false⟩, r.2)
  | name, .base _ typ, k =>
    if isBytesLike typ then
      let size := maxOf (cfg.sizes name false)
      let padded := (size + 31) / 32 * 32
      let data := if size > 0 then [Item.sym ⟨name, typ, k⟩ (8 * padded)] else []
      (⟨.sizeVar ⟨name, "length", k + 1⟩ false :: data, 32 + padded, false⟩, k + 2)
    else
      (⟨[.sym ⟨name, typ, k⟩ 256], 32, true⟩, k + 1)
def encodeItems (cfg : Cfg) : String → List MTy → Nat → List Enc × Nat
  | _, [], k => ([], k)
  | pre, it :: rest, k =>
    let r := encode cfg (pre ++ it.var) it k
    let rs := encodeItems cfg pre rest r.2
    (r.1 :: rs.1, rs.2)
end

/-- number of bytes an item occupies in the `ByteVec` -/
def itemLen : Item → Nat
  | .sizeVar _ _ => 32
  | .const _ => 32
  | .sym _ nbits => nbits / 8
  | .raw bs => bs.length

def dataLen : List Item → Nat
  | [] => 0
  | i :: r => itemLen i + dataLen r

inductive CErr where
  | parse (e : PErr)
  | sizeMismatch        -- the `ValueError(encoded)` sanity check of `create`
  deriving Repr, Inhabited

/-- `Calldata.create`: selector, then the encoding of the tuple of inputs -/
def create (cfg : Cfg) (selector : Bytes) (inputs : List AbiItem) : Except CErr (List Item) :=
  match parseTupleType (fuelForList inputs + 1) "" inputs with
  | .error e => .error (.parse e)
  | .ok (.tuple _ []) => .ok [.raw selector]
  | .ok t =>
    let e := (encode cfg "" t 0).1
    -- sanity check of `create`: the bytes actually appended vs the declared size
    if dataLen e.data != e.size then .error .sizeMismatch
    else .ok (.raw selector :: e.data)

/-! ### evaluation of an encoding under an assignment of the symbols -/

/-- truncate / zero-extend to exactly `n` bytes -/
def fit (n : Nat) (bs : Bytes) : Bytes := bs.take n ++ List.replicate (n - bs.length) 0

abbrev Env := SymId → Bytes

def evalItem (env : Env) : Item → Bytes
  | .sizeVar id _ => fit 32 (env id)
  | .const n => word n
  | .sym id nbits => fit (nbits / 8) (env id)
  | .raw bs => bs

def evalBytes (env : Env) : List Item → Bytes
  | [] => []
  | i :: r => evalItem env i ++ evalBytes env r

/-- the symbols of an encoding, in data order -/
def syms : List Item → List SymId
  | [] => []
  | .sizeVar id _ :: r => id :: syms r
  | .sym id _ :: r => id :: syms r
  | _ :: r => syms r


/-! ### `Concretization.candidates`, `process_dyn_params`, and the branching of `SEVM.calldataload`

`candidates` is a dict `size symbol ↦ candidate list` owned by the path; `process_dyn_params` only *adds* entries
(`self.candidates[d.size_symbol] = d.size_choices`), it never removes one: several symbolic calldata may be registered on
the same path (`svm.createCalldata` registers one per function of the target contract). -/

abbrev Candidates := SymId → Option (List Nat)

/-- `DynamicParam` reduced to what `process_dyn_params` uses -/
structure DynParam where
  sizeSymbol : SymId
  sizeChoices : List Nat
  deriving Repr, Inhabited

/-- `for d in dyn_params: self.candidates[d.size_symbol] = d.size_choices` -/
def processDynParams (c : Candidates) : List DynParam → Candidates
  | [] => c
  | d :: ds => processDynParams (fun s => if s = d.sizeSymbol then some d.sizeChoices else c s) ds

/-- the `dyn_params` list returned with an encoding: one entry per size symbol -/
def dynParamsOf (cfg : Cfg) : List Item → List DynParam
  | [] => []
  | .sizeVar id isArr :: r => ⟨id, cfg.sizes id.pname isArr⟩ :: dynParamsOf cfg r
  | _ :: r => dynParamsOf cfg r

/-- What `calldataload` pushes when the loaded word is the symbol `s` (one entry per successor path):
the substituted constant if the path already fixes `s`; one successor per candidate (value = candidate, with the
condition `s == candidate`) if `s` has candidates; otherwise the symbol itself, unbranched (`none`). -/
def calldataloadSym (subst : SymId → Option Nat) (c : Candidates) (s : SymId) : List (Option Nat) :=
  match subst s with
  | some v => [some v]
  | none =>
    match c s with
    | some cs => cs.map some
    | none => [none]

/-! ### rendering of names (`p_<name>_<kind>_<uid>_<id:>02>`) -/

def pad2 (s : String) : String := if s.length < 2 then String.ofList (List.replicate (2 - s.length) '0') ++ s else s

def render (uid sid : Nat → String) (id : SymId) : String :=
  "p_" ++ id.pname ++ "_" ++ id.kind ++ "_" ++ uid id.idx ++ "_" ++ pad2 (sid id.idx)

end HalmosVerif.Model.Calldata
