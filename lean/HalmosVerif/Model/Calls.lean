/-
Model.Calls — the message-call machinery of halmos' SEVM (src/halmos/sevm.py: `SEVM.call`, `call_known`,
`call_unknown` (non-existing targets), `SEVM.create`, `handle_insufficient_fund_case`, `transfer_value`,
`copy_returndata_to_memory`, `Exec.returndata`, the `WriteInStaticContext` checks, `MAX_CALL_DEPTH`),
with everything that is not world state / context / what a caller sees abstracted away.

A frame's *behaviour* is an interaction tree (`Frame`): it may look at its context and at the world (`read`),
perform a state-modifying instruction (`eff`: SSTORE / TSTORE / LOG), make a message call (`call`) or create a
contract (`create`) — continuing as a function of exactly what the instruction hands back to it (`Seen`: the word
pushed on the stack, the returndata buffer, the bytes copied to memory at `ret_loc`) — and ends in an `Outcome`
(RETURN data / REVERT data / an exceptional halt).  Any deterministic EVM program denotes such a tree, of any depth
and width; callee and init-code behaviours are sub-trees.

`runBody` mirrors the code branch for branch:
  * `SEVM.call`: `fund = 0` for STATICCALL/DELEGATECALL; `resolve_prank`; `Message(...)` per scheme (`mkMessage`);
    `handle_insufficient_fund_case` (decided on the concrete balance: the continuing path is infeasible exactly when
    the failing branch is taken); `call_unknown` for a target without an entry in `ex.code` (push 1, send the value,
    empty returndata); `call_known`: snapshot of `(code, storage, transient_storage, balance)`, `send_callvalue`
    (CALL: `transfer_value`, CALLCODE: balance check only, others nothing — and NO static-context check for a
    value-bearing CALL: the code has a TODO there), the sub-frame, the callback (`copy_returndata_to_memory` with the
    truncating copy, push 1/0, restore of exactly the four components on failure).
  * `SEVM.create`: static check first, `new_address()` (the counter `cnts["address"]` is shared by all frames and is
    never rolled back) or the CREATE2 address (given by the tree: the hash is abstract here), insufficient funds,
    address collision → push 0, snapshot, empty code + fresh storage + fresh transient storage for the new account,
    `transfer_value`, the init frame, callback (success: `set_code`, push the address, returndata reads as EMPTY;
    failure: push 0, restore, returndata = the init frame's output).
  * the depth check happens at the first step of the *callee* (`ex.context.depth > MAX_CALL_DEPTH` in `run`), after
    the snapshot and the value transfer; the failure callback then restores.
Precompile / cheatcode targets are outside this model (C13/C14).

Core Lean only.
-/
namespace HalmosVerif.Model.Calls

abbrev Addr := Nat
abbrev Bytes := List Nat

def WORD : Nat := 2 ^ 256
def MAX_CALL_DEPTH : Nat := 1024
def magicAddress : Nat := 0xAAAA0000
def newAddressOffset : Nat := 1

/-- `Exec.new_address` after the counter was incremented to `n` -/
def newAddress (n : Nat) : Addr := magicAddress + newAddressOffset + n

/-- the four world components an `Exec` carries and `call_known`/`create` snapshot -/
structure W where
  code : Addr → Option Bytes          -- `ex.code`: `none` = no entry (non-existing account)
  storage : Addr → Nat → Nat
  transient : Addr → Nat → Nat
  balance : Addr → Nat

/-- world + the address counter `ex.cnts["address"]` (shared between frames, never restored) -/
structure St where
  w : W
  cnt : Nat

structure Ctx where
  this : Addr
  caller : Addr
  origin : Addr
  value : Nat
  codeAddr : Addr                      -- whose code runs (`pgm = ex.code[to]`)
  isStatic : Bool
  depth : Nat

inductive Scheme where
  | call | staticcall | delegatecall | callcode
  deriving DecidableEq, Repr

/-- result of `resolve_prank` for this call (`None` = no active prank for that component) -/
structure Prank where
  sender : Option Addr := none
  origin : Option Addr := none

inductive Err where
  | halt            -- INVALID, stack underflow, out-of-bounds read, invalid jump, …
  | writeInStatic
  | depthLimit
  deriving DecidableEq, Repr

inductive Outcome where
  | ret (data : Bytes)
  | revert (data : Bytes)
  | fail (e : Err)
  deriving DecidableEq, Repr

def Outcome.isSuccess : Outcome → Bool
  | .ret _ => true
  | _ => false

/-- `subcall.output.data` (`ex.halt(data=ByteVec(), error=err)` for exceptional halts) -/
def Outcome.data : Outcome → Bytes
  | .ret d => d
  | .revert d => d
  | .fail _ => []

/-- what the calling frame gets back from a CALL-family / CREATE instruction -/
structure Seen where
  success : Bool          -- ghost: `subcall.output.error is None` (not observable beyond `flag`)
  flag : Nat              -- the word pushed on the caller's stack
  returndata : Bytes      -- `Exec.returndata()` afterwards
  memCopy : Bytes         -- the bytes `copy_returndata_to_memory` wrote at `ret_loc` ([] = memory untouched)
  deriving DecidableEq, Repr

/-- state-modifying instructions other than calls/creates -/
inductive Eff where
  | sstore (slot val : Nat)
  | tstore (slot val : Nat)
  | log
  deriving DecidableEq, Repr

inductive Frame where
  | done (o : Outcome)
  | read (k : Ctx → W → Frame)
  | eff (e : Eff) (rest : Frame)
  | call (sch : Scheme) (to : Addr) (fund : Nat) (retSize : Nat) (pr : Prank) (callee : Frame) (k : Seen → Frame)
  | create (addr2 : Option Addr) (value : Nat) (pr : Prank) (init : Frame) (k : Seen → Frame)

def upd {β : Type} (f : Addr → β) (a : Addr) (v : β) : Addr → β := fun x => if x = a then v else f x

def Eff.apply (e : Eff) (this : Addr) (w : W) : W :=
  match e with
  | .sstore slot val => { w with storage := upd w.storage this (fun k => if k = slot then val else w.storage this k) }
  | .tstore slot val => { w with transient := upd w.transient this (fun k => if k = slot then val else w.transient this k) }
  | .log => w

/-- `fund = ZERO if op in [STATICCALL, DELEGATECALL] else pop()` -/
def fundOf (sch : Scheme) (fund : Nat) : Nat :=
  match sch with
  | .staticcall | .delegatecall => 0
  | _ => fund

/-- the `Message(...)` built by `SEVM.call`, as the callee's context (`fund` already passed through `fundOf`) -/
def mkMessage (sch : Scheme) (to : Addr) (fund : Nat) (pr : Prank) (ctx : Ctx) : Ctx :=
  { this := match sch with
      | .call | .staticcall => to
      | _ => ctx.this
    caller := match sch with
      | .delegatecall => ctx.caller
      | _ => pr.sender.getD ctx.this
    origin := pr.origin.getD ctx.origin
    value := match sch with
      | .delegatecall => ctx.value
      | _ => fund
    codeAddr := to
    isStatic := ctx.isStatic || (sch == .staticcall)
    depth := ctx.depth + 1 }

/-- the `Message(...)` built by `SEVM.create` -/
def mkCreateMessage (newAddr : Addr) (value : Nat) (pr : Prank) (ctx : Ctx) : Ctx :=
  { this := newAddr
    caller := pr.sender.getD ctx.this
    origin := pr.origin.getD ctx.origin
    value := value
    codeAddr := newAddr
    isStatic := false
    depth := ctx.depth + 1 }

/-- `transfer_value` on a path where `balance(src) ≥ v` holds (the other case is the insufficient-funds branch):
no-op for zero; the recipient's balance is read after the sender's was updated; the addition wraps -/
def transferValue (w : W) (src dst v : Nat) : W :=
  if v = 0 then w
  else
    let b1 := upd w.balance src (w.balance src - v)
    { w with balance := upd b1 dst ((b1 dst + v) % WORD) }

/-- `send_callvalue`: only CALL moves balance (no static check!); CALLCODE transfers to itself -/
def sendValue (sch : Scheme) (w : W) (sender to fund : Nat) : W :=
  match sch with
  | .call => transferValue w sender to fund
  | _ => w

/-- the failure callback's `new_ex.code/storage/transient_storage/balance = orig_…` -/
def restore (cur orig : W) : W :=
  { cur with code := orig.code, storage := orig.storage, transient := orig.transient, balance := orig.balance }

/-- `copy_returndata_to_memory`: `min(ret_size, len(returndata))` leading bytes (nothing if that is zero) -/
def memCopyOf (retSize : Nat) (data : Bytes) : Bytes := data.take (min retSize data.length)

/-- what a failed attempt that runs no code looks like (insufficient funds / address collision) -/
def Seen.failedEmpty : Seen := { success := false, flag := 0, returndata := [], memCopy := [] }

/-- the first step of a sub-frame checks the depth -/
def guarded (run : Ctx → St → St × Outcome) (ctx : Ctx) (s : St) : St × Outcome :=
  if ctx.depth > MAX_CALL_DEPTH then (s, .fail .depthLimit) else run ctx s

/-- `call_known`'s callback applied to the sub-frame's end state `r` -/
def finishCall (orig : W) (retSize : Nat) (r : St × Outcome) : St × Seen :=
  let seen : Seen := { success := r.2.isSuccess, flag := if r.2.isSuccess then 1 else 0,
                       returndata := r.2.data, memCopy := memCopyOf retSize r.2.data }
  if r.2.isSuccess then (r.1, seen) else ({ r.1 with w := restore r.1.w orig }, seen)

/-- one CALL / STATICCALL / DELEGATECALL / CALLCODE instruction; `run` = the callee's behaviour -/
def callStep (run : Ctx → St → St × Outcome) (sch : Scheme) (to fund0 retSize : Nat) (pr : Prank)
    (ctx : Ctx) (s : St) : St × Seen :=
  let fund := fundOf sch fund0
  let sender := pr.sender.getD ctx.this
  if fund ≠ 0 ∧ s.w.balance sender < fund then (s, Seen.failedEmpty)           -- handle_insufficient_fund_case
  else
    match s.w.code to with
    | none =>                                                                 -- call_unknown, non-existing contract
      ({ s with w := sendValue sch s.w sender to fund }, { success := true, flag := 1, returndata := [], memCopy := [] })
    | some _ =>                                                               -- call_known
      let orig := s.w
      let s1 : St := { s with w := sendValue sch s.w sender to fund }
      finishCall orig retSize (guarded run (mkMessage sch to fund pr ctx) s1)

/-- the new account as set up before the init code runs -/
def setupAccount (w : W) (a : Addr) : W :=
  { code := upd w.code a (some []), storage := upd w.storage a (fun _ => 0),
    transient := upd w.transient a (fun _ => 0), balance := w.balance }

/-- `create`'s callback applied to the init frame's end state -/
def finishCreate (orig : W) (newAddr : Addr) (r : St × Outcome) : St × Seen :=
  match r.2 with
  | .ret code =>
    ({ r.1 with w := { r.1.w with code := upd r.1.w.code newAddr (some code) } },
     { success := true, flag := newAddr, returndata := [], memCopy := [] })
  | o => ({ r.1 with w := restore r.1.w orig }, { success := false, flag := 0, returndata := o.data, memCopy := [] })

/-- one CREATE (`addr2 = none`) / CREATE2 (`addr2 = some a`, `a` the hash-derived address) instruction in a
non-static frame; `run` = the init code's behaviour -/
def createStep (run : Ctx → St → St × Outcome) (addr2 : Option Addr) (value : Nat) (pr : Prank)
    (ctx : Ctx) (s : St) : St × Seen :=
  let sender := pr.sender.getD ctx.this
  let s0 : St := match addr2 with
    | none => { s with cnt := s.cnt + 1 }
    | some _ => s
  let newAddr : Addr := match addr2 with
    | none => newAddress (s.cnt + 1)
    | some a => a
  if value ≠ 0 ∧ s0.w.balance sender < value then (s0, Seen.failedEmpty)
  else if (s0.w.code newAddr).isSome then (s0, Seen.failedEmpty)               -- AddressCollision
  else
    let orig := s0.w
    let s1 : St := { s0 with w := transferValue (setupAccount orig newAddr) sender newAddr value }
    finishCreate orig newAddr (guarded run (mkCreateMessage newAddr value pr ctx) s1)

/-- run a frame's instructions from the state `s` in context `ctx`; the end state of a failing frame is the state at
the halt (the *caller's* callback rolls back; a top-level frame has no callback) -/
def runBody : Frame → Ctx → St → St × Outcome
  | .done o, _, s => (s, o)
  | .read k, ctx, s => runBody (k ctx s.w) ctx s
  | .eff e rest, ctx, s =>
    if ctx.isStatic then (s, .fail .writeInStatic)
    else runBody rest ctx { s with w := e.apply ctx.this s.w }
  | .call sch to fund retSize pr callee k, ctx, s =>
    let r := callStep (runBody callee) sch to fund retSize pr ctx s
    runBody (k r.2) ctx r.1
  | .create addr2 value pr init k, ctx, s =>
    if ctx.isStatic then (s, .fail .writeInStatic)
    else
      let r := createStep (runBody init) addr2 value pr ctx s
      runBody (k r.2) ctx r.1

/-- a whole frame, including the depth check of its first step -/
def runFrame (f : Frame) (ctx : Ctx) (s : St) : St × Outcome := guarded (runBody f) ctx s

end HalmosVerif.Model.Calls
