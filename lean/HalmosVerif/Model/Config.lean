/-
Model.Config — executable model of halmos' configuration machinery (property C18).

Mirrors, branch for branch:
* `config.py`  `ConfigSource`, `Config.value_with_source`, `Config.__getattribute__`, `Config.with_overrides`,
  `Config.resolved_solver_command` (the decision, not the solver lookup), `parse_csv`, `ensure_non_empty`,
  `ParseTimeout / ParseCSVTraceEvent / ParseCSVInt / ParseErrorCodes / ParseArrayLengths` `.parse` / `.unparse`,
  `TomlParser.parse_dict`;
* `utils.py`   `parse_time`;
* `build.py`   `parse_natspec`, `parse_devdoc`;
* `__main__.py` `with_devdoc`, `with_natspec`, `load_config` (layering) and the derivation of per-function configs in
  `run_tests` / `run_contract` (always from the *contract* config).

Strings are `List Char` (Python `str` = sequence of code points).  CPython facts the code relies on are modelled too
and checked by the harness exhaustively over all code points: `str.isspace` (`isSpace`), Unicode decimal digits accepted by
`int()` / `float()` / `\d` (`digitVal`), the literal grammars of `int(x)`, `int(x, 0)` and `float(x)`.

Times.  `parse_time` returns a Python float.  The model's time value is the *exact* decimal rational the string denotes
(`Dec`: mantissa / 10^scale, normalised), because every number `float()` accepts is a decimal rational, `*60`, `*3600`
and `/1000` keep it one, and exactness is what makes "`parse (unparse v) = v`" a meaningful statement.  Binary rounding
(`float(s)/1000`, `int(value*1000)`) is outside the model and is covered by the exhaustive grid run on the real code.
Not modelled: CPython's 4300-digit limit on int/str conversion, float overflow to `inf` / underflow to `0.0`.
-/
import HalmosVerif.Gen.ConfigTable

namespace HalmosVerif.Model.Config
open HalmosVerif.Gen

abbrev Str := List Char

/-! ## Sources and layers -/

inductive Source
  | void | default | configFile | contractAnnotation | functionAnnotation | commandLine
  deriving DecidableEq, Repr, Inhabited

namespace Source
/-- the `IntEnum` value -/
def ord : Source → Nat
  | void => 0 | default => 1 | configFile => 2 | contractAnnotation => 3 | functionAnnotation => 4 | commandLine => 5

def name : Source → String
  | void => "void" | default => "default" | configFile => "config_file"
  | contractAnnotation => "contract_annotation" | functionAnnotation => "function_annotation" | commandLine => "command_line"

def all : List Source := [void, default, configFile, contractAnnotation, functionAnnotation, commandLine]

def ofName? (s : String) : Option Source := all.find? (fun x => x.name == s)

/-- the hand-written order, as a table comparable with `Gen.ConfigTable.sources` -/
def table : List (String × Nat) := all.map (fun s => (s.name, s.ord))
end Source

/-- ghost state: who created a layer (nothing in the model branches on it) -/
inductive Label
  | none
  | contract (k : String)
  | function (k f : String)
  deriving DecidableEq, Repr

/-- One `Config` object without its parent link: `_source` and the keyword arguments it was built with.
`none` is Python `None` (argparse namespaces carry `None` for every option not given).  `label` is ghost state
(who created the layer); no function of the model reads it except to copy it. -/
structure Layer (α : Type) where
  source : Source
  vals : List (String × Option α)
  label : Label := .none
  deriving DecidableEq, Repr

/-- `object.__getattribute__(layer, name)` for a field name: the stored value, `None` when not passed -/
def Layer.get {α} (l : Layer α) (name : String) : Option α :=
  match l.vals.lookup name with
  | some v => v
  | none => none

/-- A `Config` with its `_parent` chain: head = the object itself, tail = parent, grandparent, … -/
abbrev Config (α : Type) := List (Layer α)

def fieldNames : List String := ConfigTable.fields.map (·.name)
def isField (name : String) : Bool := fieldNames.contains name

inductive Err
  | exit2            -- `sys.exit(2)` after a warning (argparse style)
  | valueError       -- ValueError
  | attributeError   -- AttributeError
  | typeError
  | keyError
  deriving DecidableEq, Repr

def Err.name : Err → String
  | .exit2 => "exit2" | .valueError => "value" | .attributeError => "attr" | .typeError => "type" | .keyError => "key"

/-- one iteration of the `while current is not None` loop of `value_with_source` -/
def step {α} (name : String) (best : Option α × Source) (l : Layer α) : Option α × Source :=
  match l.get name with
  | some v => if l.source.ord > best.2.ord then (some v, l.source) else best
  | none => best

/-- `Config.value_with_source(name)` for a field name -/
def valueWithSource {α} (name : String) (c : Config α) : Option α × Source :=
  c.foldl (step name) (none, Source.void)

/-- `Config.__getattribute__(name)` for names that are not internal/passthrough: unknown names raise `AttributeError` -/
def getattr {α} (name : String) (c : Config α) : Except Err (Option α) :=
  if isField name then .ok (valueWithSource name c).1 else .error .attributeError

/-- `Config.with_overrides(source, **overrides)`: `TypeError` from the dataclass constructor (unknown keyword, or one of the
internal field names given twice) becomes `sys.exit(2)` -/
def withOverrides {α} (c : Config α) (src : Source) (ov : List (String × Option α)) (label : Label := .none) :
    Except Err (Config α) :=
  if ov.all (fun kv => isField kv.1) then .ok (⟨src, ov, label⟩ :: c) else .error .exit2

/-! ### `resolved_solver_command` -/

inductive SolverChoice (α : Type)
  | command (cmd : α) (warnSamePrecedence : Bool)   -- `shlex.split(solver_command)`
  | solver (name : Option α)                          -- `get_solver_command(solver)`
  deriving DecidableEq, Repr

def resolvedSolverCommand {α} (truthy : α → Bool) (c : Config α) : SolverChoice α :=
  let (solver, solverSource) := valueWithSource "solver" c
  let (cmd, cmdSource) := valueWithSource "solver_command" c
  match cmd with
  | some v =>
      if truthy v && cmdSource.ord != 0 && cmdSource.ord >= solverSource.ord then
        .command v (cmdSource.ord == solverSource.ord)
      else .solver solver
  | none => .solver solver

/-! ## Characters -/

/-- Python `str.isspace()` for one code point (= `\s` of `re`, = what `str.strip()` / `str.split()` remove) -/
def isSpace (c : Char) : Bool :=
  let n := c.toNat
  (9 ≤ n && n ≤ 13) || (28 ≤ n && n ≤ 32) || n == 133 || n == 160 || n == 5760 || (8192 ≤ n && n ≤ 8202)
    || n == 8232 || n == 8233 || n == 8239 || n == 8287 || n == 12288

/-- code points of digit zero of every non-ASCII run of Unicode decimal digits (category Nd, Unicode 15) -/
def ndZeros : List Nat :=
  [1632, 1776, 1984, 2406, 2534, 2662, 2790, 2918, 3046, 3174, 3302, 3430, 3558, 3664, 3792, 3872, 4160, 4240, 6112,
   6160, 6470, 6608, 6784, 6800, 6992, 7088, 7232, 7248, 42528, 43216, 43264, 43472, 43504, 43600, 44016, 65296, 66720,
   68912, 69734, 69872, 69942, 70096, 70384, 70736, 70864, 71248, 71360, 71472, 71904, 72016, 72784, 73040, 73120,
   73552, 92768, 92864, 93008, 120782, 120792, 120802, 120812, 120822, 123200, 123632, 124144, 125264, 130032]

/-- decimal value of a Unicode decimal digit (`str.isdecimal`, `\d`, `Py_UNICODE_TODECIMAL`) -/
def digitVal (c : Char) : Option Nat :=
  let n := c.toNat
  if 48 ≤ n ∧ n ≤ 57 then some (n - 48)
  else if n < 128 then none
  else (ndZeros.find? (fun z => z ≤ n && n < z + 10)).map (fun z => n - z)

def isDigit (c : Char) : Bool := (digitVal c).isSome

/-- digit value inside an integer literal of some base: decimal digits of any script, ASCII letters for 10..35 -/
def litDigit (c : Char) : Option Nat :=
  match digitVal c with
  | some d => some d
  | none =>
    let n := c.toNat
    if 97 ≤ n ∧ n ≤ 122 then some (n - 87)
    else if 65 ≤ n ∧ n ≤ 90 then some (n - 55)
    else none

/-! ## Strings -/

def strip (s : Str) : Str := ((s.dropWhile isSpace).reverse.dropWhile isSpace).reverse

/-- `s.split(sep)` for a one-character separator: always at least one piece -/
def splitOn (sep : Char) : Str → List Str
  | [] => [[]]
  | c :: cs =>
    if c = sep then [] :: splitOn sep cs
    else match splitOn sep cs with
      | p :: ps => (c :: p) :: ps
      | [] => [[c]]

/-- `sep.join(pieces)` -/
def join (sep : Str) : List Str → Str
  | [] => []
  | [p] => p
  | p :: q :: ps => p ++ sep ++ join sep (q :: ps)

/-- `parse_csv(values, sep)`: the non-empty stripped pieces -/
def parseCsv (s : Str) (sep : Char := ',') : List Str :=
  ((splitOn sep s).map strip).filter (fun x => !x.isEmpty)

def endsWith (s suffix : Str) : Bool := suffix.reverse.isPrefixOf s.reverse
def dropRight (n : Nat) (s : Str) : Str := s.take (s.length - n)

/-! ## Numbers ↔ strings -/

def digitChar (d : Nat) : Char := Char.ofNat (48 + d)
/-- lower-case hex digit -/
def hexChar (d : Nat) : Char := if d < 10 then Char.ofNat (48 + d) else Char.ofNat (87 + d)

/-- digits of `n` in base `b+2`, most significant first (`[0]` for 0) -/
def digits (b : Nat) (n : Nat) : List Nat :=
  if _h : n < b + 2 then [n] else digits b (n / (b + 2)) ++ [n % (b + 2)]
termination_by n
decreasing_by
  have : 0 < n := by omega
  exact Nat.div_lt_self this (by omega)

/-- `str(n)` for a natural number -/
def showNat (n : Nat) : Str := (digits 8 n).map digitChar
/-- `str(i)` -/
def showInt : Int → Str
  | .ofNat n => showNat n
  | .negSucc n => '-' :: showNat (n + 1)

/-- `f"{n:02x}"` for a natural number -/
def showHex2 (n : Nat) : Str :=
  let ds := (digits 14 n).map hexChar
  if ds.length < 2 then '0' :: ds else ds

/-- The digit part of an integer literal in base `b` (`long_from_string_base` + its underscore rules): digits `< b` with
single underscores allowed between two digits; at least one digit; no leading, trailing or doubled underscore.
`prev` = the previous character was a digit. -/
def readDigits (b : Nat) : Str → Nat → Bool → Option Nat
  | [], acc, prev => if prev then some acc else none
  | c :: cs, acc, prev =>
    if c = '_' then (if prev then readDigits b cs acc false else none)
    else match litDigit c with
      | some d => if d < b then readDigits b cs (acc * b + d) true else none
      | none => none

/-- optional sign of an int/float literal -/
def splitSign : Str → Bool × Str
  | '-' :: r => (true, r)
  | '+' :: r => (false, r)
  | r => (false, r)

def applySign (neg : Bool) (n : Nat) : Int := if neg then -(n : Int) else (n : Int)

/-- `int(x)` (base 10) on a string without surrounding whitespace -/
def pyInt10 (s : Str) : Option Int :=
  let (neg, r) := splitSign s
  (readDigits 10 r 0 false).map (applySign neg)

/-- `int(x, 0)` on a string without surrounding whitespace: `0x`/`0o`/`0b` prefixes (one underscore may follow the prefix);
a decimal literal with a leading zero is accepted only if its value is zero -/
def pyInt0 (s : Str) : Option Int :=
  let (neg, r) := splitSign s
  let body : Option Nat :=
    match r with
    | z :: rest =>
      if digitVal z = some 0 then
        match rest with
        | p :: rest' =>
          let base : Nat :=
            if p = 'x' ∨ p = 'X' then 16 else if p = 'o' ∨ p = 'O' then 8 else if p = 'b' ∨ p = 'B' then 2 else 0
          if base = 0 then
            -- "old" octal: only zero is allowed
            match readDigits 10 r 0 false with
            | some 0 => some 0
            | _ => none
          else
            match rest' with
            | '_' :: rest'' => readDigits base rest'' 0 false
            | _ => readDigits base rest' 0 false
        | [] => some 0
      else readDigits 10 r 0 false
    | [] => none
  body.map (applySign neg)

/-! ## Exact decimal rationals (time values) -/

/-- `mant / 10^scale`; normal form: `scale = 0` or `10 ∤ mant` -/
structure Dec where
  mant : Int
  scale : Nat
  deriving DecidableEq, Repr

def Dec.normalize : Int → Nat → Dec
  | m, 0 => ⟨m, 0⟩
  | m, s + 1 => if m % 10 = 0 then Dec.normalize (m / 10) s else ⟨m, s + 1⟩

def Dec.Normal (d : Dec) : Prop := d.scale = 0 ∨ d.mant % 10 ≠ 0

def Dec.mulNat (d : Dec) (k : Nat) : Dec := Dec.normalize (d.mant * k) d.scale
def Dec.div1000 (d : Dec) : Dec := Dec.normalize d.mant (d.scale + 3)
def Dec.zero : Dec := ⟨0, 0⟩

inductive NonFinite | posInf | negInf | nan
  deriving DecidableEq, Repr

/-- a Python float as the model sees it -/
inductive TimeVal
  | fin (d : Dec)
  | special (x : NonFinite)
  deriving DecidableEq, Repr

def TimeVal.mulNat : TimeVal → Nat → TimeVal
  | .fin d, k => .fin (d.mulNat k)
  | .special x, _ => .special x
def TimeVal.div1000 : TimeVal → TimeVal
  | .fin d => .fin d.div1000
  | .special x => .special x

/-! ### `float(x)` -/

/-- what `float()` strips: after `_PyUnicode_TransformDecimalAndSpaceToASCII` every non-ASCII space is `' '`, then C-locale
`isspace` characters are skipped at both ends (so U+001C..U+001F are *not* stripped, unlike `str.strip`) -/
def isFloatSpace (c : Char) : Bool := isSpace c && !(28 ≤ c.toNat && c.toNat ≤ 31)

def floatStrip (s : Str) : Str := ((s.dropWhile isFloatSpace).reverse.dropWhile isFloatSpace).reverse

/-- `_Py_string_to_number_with_underscores`: every `_` must sit between two digits; returns the string without them -/
def dropUnderscores : Str → Bool → Option Str
  | [], _ => some []
  | c :: cs, prevDigit =>
    if c = '_' then
      if prevDigit then
        match cs with
        | d :: _ => if isDigit d then dropUnderscores cs false else none
        | [] => none
      else none
    else (dropUnderscores cs (isDigit c)).map (c :: ·)

def lower (c : Char) : Char := if 65 ≤ c.toNat ∧ c.toNat ≤ 90 then Char.ofNat (c.toNat + 32) else c

/-- value of a run of decimal digits (any script) -/
def digitsValue (ds : Str) : Nat := ds.foldl (fun acc c => acc * 10 + (digitVal c).getD 0) 0

/-- `[digits][.digits][(e|E)[sign]digits]` with at least one mantissa digit; exact value -/
def parseDecimal (neg : Bool) (r : Str) : Option Dec :=
  let ip := r.takeWhile isDigit
  let r1 := r.dropWhile isDigit
  let (fp, r2, hasDot) : Str × Str × Bool :=
    match r1 with
    | '.' :: r1' => (r1'.takeWhile isDigit, r1'.dropWhile isDigit, true)
    | _ => ([], r1, false)
  let _ := hasDot
  if ip.isEmpty && fp.isEmpty then none
  else
    let mant : Int := applySign neg (digitsValue (ip ++ fp))
    match r2 with
    | [] => some (Dec.normalize mant fp.length)
    | e :: r3 =>
      if e = 'e' ∨ e = 'E' then
        let (eneg, r4) := splitSign r3
        if r4.isEmpty || !r4.all isDigit then none
        else
          let ex := digitsValue r4
          if eneg then some (Dec.normalize mant (fp.length + ex))
          else if ex ≥ fp.length then some (Dec.normalize (mant * (10 : Int) ^ (ex - fp.length)) 0)
          else some (Dec.normalize mant (fp.length - ex))
      else none

/-- `float(x)` for a string -/
def pyFloat (s : Str) : Option TimeVal :=
  match dropUnderscores (floatStrip s) false with
  | none => none
  | some t =>
    let (neg, r) := splitSign t
    let w := r.map lower
    if w = "inf".toList ∨ w = "infinity".toList then some (.special (if neg then .negInf else .posInf))
    else if w = "nan".toList then some (.special .nan)
    else (parseDecimal neg r).map .fin

/-! ### `parse_time`, `ParseTimeout` -/

inductive TimeUnit | ms | s | m | h
  deriving DecidableEq, Repr

def TimeUnit.suffix : TimeUnit → Str
  | .ms => "ms".toList | .s => "s".toList | .m => "m".toList | .h => "h".toList

/-- `parse_time(arg: str, default_unit)`; the recursion of the source (`parse_time(arg + default_unit, None)`) is unfolded
once, which is all it can do: `arg + unit` ends with a unit. -/
def parseTimeSuffixed (s : Str) : Option (Option TimeVal) :=
  if endsWith s "ms".toList then some ((pyFloat (dropRight 2 s)).map TimeVal.div1000)
  else if endsWith s "s".toList then some (pyFloat (dropRight 1 s))
  else if endsWith s "m".toList then some ((pyFloat (dropRight 1 s)).map (·.mulNat 60))
  else if endsWith s "h".toList then some ((pyFloat (dropRight 1 s)).map (·.mulNat 3600))
  else if s = "0".toList then some (some (.fin Dec.zero))
  else none

def parseTime (s : Str) (defaultUnit : Option TimeUnit) : Except Err TimeVal :=
  match parseTimeSuffixed s with
  | some (some v) => .ok v
  | some none => .error .valueError
  | none =>
    match defaultUnit with
    | none => .error .valueError          -- "Could not infer time unit"
    | some u =>
      match parseTimeSuffixed (s ++ u.suffix) with
      | some (some v) => .ok v
      | _ => .error .valueError

/-- `ParseTimeout.parse` -/
def parseTimeout (s : Str) : Except Err TimeVal := parseTime s (some .ms)

/-- `int(x)` of an exact value: truncation toward zero -/
def Dec.trunc (d : Dec) : Int := Int.tdiv d.mant ((10 : Int) ^ d.scale)
def Dec.lt1 (d : Dec) : Bool := d.mant < (10 : Int) ^ d.scale

/-- `ParseTimeout.unparse` **as it is in the pinned source**: truncates (`int(value*1000)`, `int(value)`) -/
def unparseTimeoutCurrent (d : Dec) : Str :=
  if d.lt1 then showInt (Int.tdiv (d.mant * 1000) ((10 : Int) ^ d.scale)) ++ "ms".toList
  else showInt d.trunc ++ "s".toList

/-- zero-padded fraction digits -/
def padLeft (n : Nat) (s : Str) : Str := List.replicate (n - s.length) '0' ++ s

/-- exact decimal rendering of a normal `Dec` with `scale > 0`: `[-]int.frac` -/
def showDec (d : Dec) : Str :=
  let a := d.mant.natAbs
  let p := 10 ^ d.scale
  (if d.mant < 0 then ['-'] else []) ++ showNat (a / p) ++ '.' :: padLeft d.scale (showNat (a % p))

/-- `ParseTimeout.unparse` **repaired** (the behaviour the round-trip theorem is about): whole seconds as `Ns`, whole
milliseconds as `Kms`, anything else as the exact decimal number of seconds (Python: `repr(value) + "s"`). -/
def unparseTimeoutFixed (d : Dec) : Str :=
  if d.scale = 0 then showInt d.mant ++ "s".toList
  else if d.scale ≤ 3 then showInt (d.mant * (10 : Int) ^ (3 - d.scale)) ++ "ms".toList
  else showDec d ++ "s".toList

/-! ## The other structured options -/

/-- `ensure_non_empty` -/
def ensureNonEmpty {β} (l : List β) : Except Err (List β) := if l.isEmpty then .error .valueError else .ok l

def mapM? {β γ} (f : β → Option γ) : List β → Option (List γ)
  | [] => some []
  | x :: xs => match f x, mapM? f xs with
    | some y, some ys => some (y :: ys)
    | _, _ => none

/-- `ParseCSVInt.parse` -/
def parseCsvInt (s : Str) : Except Err (List Int) :=
  match mapM? pyInt10 (parseCsv s) with
  | some l => ensureNonEmpty l
  | none => .error .valueError
/-- `ParseCSVInt.unparse` -/
def unparseCsvInt (l : List Int) : Str := join [','] (l.map showInt)

/-- set insertion keeping first occurrences (a Python set has no duplicates; order is not observable) -/
def dedup {β} [DecidableEq β] : List β → List β
  | [] => []
  | x :: xs => x :: (dedup xs).filter (· ≠ x)

/-- `ParseErrorCodes.parse`; the result enumerates the set -/
def parseErrorCodes (s : Str) : Except Err (List Int) :=
  let v := strip s
  if v = ['*'] then .ok []
  else match mapM? pyInt0 (parseCsv v) with
    | some l => ensureNonEmpty (dedup l)
    | none => .error .valueError
/-- `ParseErrorCodes.unparse` on an enumeration of the set (`f"0x{v:02x}"`; a negative `v` renders as `0x-1`) -/
def showHexInt : Int → Str
  | .ofNat n => '0' :: 'x' :: showHex2 n
  | .negSucc n =>
    let ds := (digits 14 (n + 1)).map hexChar
    '0' :: 'x' :: (if ds.length + 1 < 2 then '0' :: '-' :: ds else '-' :: ds)
def unparseErrorCodes (l : List Int) : Str := if l.isEmpty then ['*'] else join [','] (l.map showHexInt)

def traceEventNames : List Str := ConfigTable.traceEvents.map String.toList
/-- `ParseCSVTraceEvent.parse` -/
def parseTraceEvents (s : Str) : Except Err (List Str) :=
  let toks := parseCsv s
  if toks.all (fun t => traceEventNames.contains t) then .ok toks else .error .valueError
/-- `ParseCSVTraceEvent.unparse` -/
def unparseTraceEvents (l : List Str) : Str := join [','] l

/-! ### `ParseArrayLengths` -/

def isNameChar (c : Char) : Bool := c != '=' && c != ',' && c != '{' && c != '}'
def isSizesChar (c : Char) : Bool := isDigit c || c == ','

/-- one `NAME=SIZES` item (`[^=,\{\}]+=(\{[\d,]+\}|\d+)`) at the front: (name, sizes text, rest) -/
def parseItem (s : Str) : Option (Str × Str × Str) :=
  let name := s.takeWhile isNameChar
  if name.isEmpty then none
  else match s.dropWhile isNameChar with
    | '=' :: '{' :: r2 =>
      let body := r2.takeWhile isSizesChar
      (match r2.dropWhile isSizesChar with
       | '}' :: r3 => if body.isEmpty then none else some (name, body, r3)
       | _ => none)
    | '=' :: r2 =>
      let ds := r2.takeWhile isDigit
      if ds.isEmpty then none else some (name, ds, r2.dropWhile isDigit)
    | _ => none

/-- the language of `^(ITEM(,|$))*$` together with what `re.findall` then extracts.  `fuel` bounds the number of items
(callers pass `length + 1`, which is never exhausted: every item consumes at least three characters). -/
def parseItems : Nat → Str → Option (List (Str × Str))
  | _, [] => some []
  | 0, _ :: _ => none
  | fuel + 1, s@(_ :: _) =>
    match parseItem s with
    | none => none
    | some (n, b, rest) =>
      match rest with
      | [] => some [(n, b)]
      | ',' :: rest' => (parseItems fuel rest').map ((n, b) :: ·)
      | _ => none

/-- `dict[key] = value` on an association list in insertion order -/
def dictInsert {β} (d : List (Str × β)) (k : Str) (v : β) : List (Str × β) :=
  if d.any (fun kv => kv.1 = k) then d.map (fun kv => if kv.1 = k then (k, v) else kv) else d ++ [(k, v)]

def buildDict : List (Str × Str) → List (Str × List Int) → Except Err (List (Str × List Int))
  | [], acc => .ok acc
  | (n, b) :: rest, acc =>
    match mapM? pyInt10 (parseCsv b) with
    | none => .error .valueError
    | some l => if l.isEmpty then .error .valueError else buildDict rest (dictInsert acc (strip n) l)

/-- `ParseArrayLengths.parse` for a string (`None` is handled by the caller: `{}`) -/
def parseArrayLengths (s : Str) : Except Err (List (Str × List Int)) :=
  if s.isEmpty then .ok []
  else
    let v := s.filter (fun c => !isSpace c)
    match parseItems (v.length + 1) v with
    | none => .error .valueError
    | some items => buildDict items []

/-- `ParseArrayLengths.unparse` -/
def unparseArrayLengths (d : List (Str × List Int)) : Str :=
  join [','] (d.map (fun kv => kv.1 ++ '=' :: '{' :: join [','] (kv.2.map showInt) ++ ['}']))

/-! ## Option values, TOML, argparse (restricted), annotations -/

/-- values an option can hold -/
inductive Val
  | str (s : Str)
  | int (i : Int)
  | bool (b : Bool)
  | time (t : TimeVal)
  | ints (l : List Int)          -- ParseCSVInt
  | codes (l : List Int)         -- ParseErrorCodes (a set)
  | lengths (d : List (Str × List Int))
  | events (l : List Str)
  | float (repr : Str)           -- a TOML float, by its `str()`
  | other                         -- anything else (lists, tables, …)
  deriving DecidableEq, Repr

/-- Python truthiness -/
def Val.truthy : Val → Bool
  | .str s => !s.isEmpty
  | .int i => i != 0
  | .bool b => b
  | .time (.fin d) => d.mant != 0
  | .time (.special _) => true
  | .ints l => !l.isEmpty
  | .codes l => !l.isEmpty
  | .lengths d => !d.isEmpty
  | .events l => !l.isEmpty
  | .float _ => true
  | .other => true

def actionOf (name : String) : String :=
  match ConfigTable.fields.find? (fun f => f.name == name) with
  | some f => f.action
  | none => ""

/-- `action.parse(value)` where `value` may be any TOML value (the actions only expect strings) -/
def runAction (action : String) (v : Val) : Except Err Val :=
  match action, v with
  | "ParseTimeout", .str s => (parseTimeout s).map Val.time
  -- `parse_time` accepts int | float (bool is an int): `str(arg) + "ms"`
  | "ParseTimeout", .int i => (parseTime (showInt i) (some .ms)).map Val.time
  | "ParseTimeout", .bool b => (parseTime (if b then "True".toList else "False".toList) (some .ms)).map Val.time
  | "ParseTimeout", .float r => (parseTime r (some .ms)).map Val.time
  | "ParseTimeout", _ => .error .valueError
  | "ParseCSVInt", .str s => (parseCsvInt s).map Val.ints
  | "ParseCSVInt", _ => .error .attributeError
  | "ParseCSVTraceEvent", .str s => (parseTraceEvents s).map Val.events
  | "ParseCSVTraceEvent", _ => .error .attributeError
  | "ParseErrorCodes", .str s => (parseErrorCodes s).map Val.codes
  | "ParseErrorCodes", _ => .error .attributeError
  | "ParseArrayLengths", .str s => (parseArrayLengths s).map Val.lengths
  | "ParseArrayLengths", w => if w.truthy then .error .attributeError else .ok (.lengths [])
  | _, w => .ok w

/-- `key.replace("-", "_")` -/
def dashToUnderscore (s : String) : String := String.ofList (s.toList.map (fun c => if c = '-' then '_' else c))

/-- A parsed TOML document: top-level keys with either a table (`some` key/value list) or a non-table value (`none`). -/
abbrev TomlDoc := List (String × Option (List (String × Val)))

/-- `TomlParser.parse_dict`: exactly one top-level key, it must be `global`; keys are *not* checked here (unknown keys are
rejected later by `with_overrides`); values of options with an action go through `action.parse`. -/
def tomlParseDict (doc : TomlDoc) : Except Err (List (String × Val)) :=
  match doc with
  | [(sec, data)] =>
    if sec != "global" then .error .exit2
    else match data with
      | none => .error .attributeError      -- `data.items()` on a non-table
      | some kvs =>
        kvs.foldlM (init := []) fun acc (k, v) => do
          let key := dashToUnderscore k
          let v' ← runAction (actionOf key) v
          -- result[key] = …  (dict assignment)
          pure (if acc.any (fun kv => kv.1 = key) then acc.map (fun kv => if kv.1 = key then (key, v') else kv)
                else acc ++ [(key, v')])
  | _ => .error .exit2

/-- config-file layer of `load_config` -/
def withConfigFile (c : Config Val) (doc : TomlDoc) : Except Err (Config Val) := do
  let ov ← tomlParseDict doc
  withOverrides c .configFile (ov.map (fun kv => (kv.1, some kv.2)))

/-! ### `parse_natspec` -/

def halmosTag : Str := "@custom:halmos".toList

/-- `re.split(r"(@\S+)", text)` fused with the loop of `parse_natspec`.  `tag = some t`: inside a tag whose text so far is `t`;
`on`: the last complete tag was `@custom:halmos`. -/
def natspecGo : Str → Bool → Option Str → Str → Str
  | [], _, _, acc => acc
  | c :: rest, on, some t, acc =>
    if isSpace c then
      let on' := decide (t = halmosTag)
      natspecGo rest on' none (if on' then acc ++ [c] else acc)
    else natspecGo rest on (some (t ++ [c])) acc
  | c :: rest, on, none, acc =>
    if c = '@' then
      match rest with
      | d :: _ =>
        if isSpace d then natspecGo rest on none (if on then acc ++ [c] else acc)
        else natspecGo rest on (some ['@']) acc
      | [] => natspecGo rest on none (if on then acc ++ [c] else acc)
    else natspecGo rest on none (if on then acc ++ [c] else acc)

/-- `parse_natspec({"text": text})` -/
def parseNatspec (text : Str) : Str := strip (natspecGo text false none [])

/-! ### argparse, restricted to what annotations in the generated artifacts use

Tokens are separated by whitespace (no quotes, no backslashes: `shlex.split` = `str.split` there); options are given by
their full long name as `--name value`, `--name=value` or `--flag`.  Abbreviations, short options and positionals are
outside the model (positionals and unknown options are rejected, as argparse does). -/

def splitWs (s : Str) : List Str :=
  let rec go : Str → Str → List Str
    | [], cur => if cur.isEmpty then [] else [cur]
    | c :: cs, cur => if isSpace c then (if cur.isEmpty then go cs [] else cur :: go cs []) else go cs (cur ++ [c])
  go s []

def optionName (f : ConfigTable.Field) : Str := '-' :: '-' :: f.name.toList.map (fun c => if c = '_' then '-' else c)

/-- convert the string argument of a valued option -/
def convertArg (f : ConfigTable.Field) (v : Str) : Except Err Val :=
  if f.action != "" then
    -- `type=str`, then the action's `__call__` runs `parse`; its ValueError is not caught by argparse
    runAction f.action (.str v)
  else if f.type == "int" then
    match pyInt10 (strip v) with
    | some i => .ok (.int i)
    | none => .error .exit2
  else if !f.choices.isEmpty && !(f.choices.contains (String.ofList v)) && !(f.choices.contains "<SOLVERS>") then .error .exit2
  else .ok (.str v)

def setVal (ov : List (String × Option Val)) (k : String) (v : Val) : List (String × Option Val) :=
  ov.map (fun kv => if kv.1 = k then (k, some v) else kv)

def parseArgsGo : List Str → List (String × Option Val) → Except Err (List (String × Option Val))
  | [], ov => .ok ov
  | tok :: rest, ov =>
    let (nameTok, inlineVal) : Str × Option Str :=
      match splitOn '=' tok with
      | n :: v :: more => (n, some (join ['='] (v :: more)))
      | _ => (tok, none)
    match ConfigTable.fields.find? (fun f => optionName f == nameTok) with
    | none => .error .exit2
    | some f =>
      if f.type == "bool" then
        match inlineVal with
        | some _ => .error .exit2     -- "ignored explicit argument"
        | none => parseArgsGo rest (setVal ov f.name (.bool true))
      else if f.countable then
        match inlineVal with
        | some _ => .error .exit2
        | none =>
          let cur : Int := match ov.lookup f.name with | some (some (.int i)) => i | _ => 0
          parseArgsGo rest (setVal ov f.name (.int (cur + 1)))
      else
        match inlineVal with
        | some v => do
          let x ← convertArg f v
          parseArgsGo rest (setVal ov f.name x)
        | none =>
          match rest with
          | v :: rest' =>
            -- a following token that looks like an option is not consumed ("expected one argument")
            if (v.take 2 == ['-', '-']) then .error .exit2
            else do
              let x ← convertArg f v
              parseArgsGo rest' (setVal ov f.name x)
          | [] => .error .exit2

/-- `vars(arg_parser().parse_args(shlex.split(text)))`: every field present, `None` unless given -/
def parseArgs (text : Str) : Except Err (List (String × Option Val)) :=
  parseArgsGo (splitWs text) (ConfigTable.fields.map (fun f => (f.name, none)))

/-! ### annotations and per-function derivation -/

/-- `with_natspec(args, name, natspec)`; `natspecText = none` when the artifact has no natspec entry for the contract
(`if not contract_natspec`), `some text` = `natspec.get("text", "")` -/
def withNatspecG {α} (parse : Str → Except Err (List (String × Option α))) (args : Config α) (label : Label)
    (natspecText : Option Str) : Except Err (Config α) :=
  match natspecText with
  | none => .ok args
  | some text =>
    let parsed := parseNatspec text
    if parsed.isEmpty then .ok args
    else do
      let ov ← parse parsed
      withOverrides args .contractAnnotation ov label

/-- `with_devdoc(args, fn_sig, contract_json)`; `devdoc = parse_devdoc(...)` (`none` on `KeyError`) -/
def withDevdocG {α} (parse : Str → Except Err (List (String × Option α))) (args : Config α) (label : Label)
    (devdoc : Option Str) : Except Err (Config α) :=
  match devdoc with
  | none => .ok args
  | some text =>
    if text.isEmpty then .ok args
    else do
      let ov ← parse text
      withOverrides args .functionAnnotation ov label

def withNatspec := withNatspecG parseArgs
def withDevdoc := withDevdocG parseArgs

/-- a contract of the build output as the configuration code sees it -/
structure ContractArt where
  name : String
  natspec : Option Str                    -- text of the contract-level natspec, if any
  funs : List (String × Option Str)       -- test function signatures with their `custom:halmos` devdoc, if any

/-- `_main`'s loop over contracts and `run_tests`' loop over functions: the config each (contract, function) runs with.
Each contract config is derived from `args`; each function config from *its contract's* config. -/
def deriveAllG {α} (parse : Str → Except Err (List (String × Option α))) (args : Config α) (arts : List ContractArt) :
    List (String × String × Except Err (Config α)) :=
  arts.flatMap fun k =>
    match withNatspecG parse args (.contract k.name) k.natspec with
    | .error e => k.funs.map (fun f => (k.name, f.1, .error e))
    | .ok contractArgs =>
      k.funs.map fun f => (k.name, f.1, withDevdocG parse contractArgs (.function k.name f.1) f.2)

def deriveAll := deriveAllG parseArgs

/-- `load_config`: default, then the config file (if any), then the command line -/
def loadConfig (dflt : Layer Val) (file : Option TomlDoc) (cli : List (String × Option Val)) : Except Err (Config Val) := do
  let c0 : Config Val := [dflt]
  let c1 ← match file with
    | none => pure c0
    | some doc => withConfigFile c0 doc
  withOverrides c1 .commandLine cli

end HalmosVerif.Model.Config
