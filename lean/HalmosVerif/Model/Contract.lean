import HalmosVerif.Gen.Opcodes
/-
Model.Contract — executable model of `halmos.contract.Contract` (src/halmos/contract.py), branch for branch:
`__init__` (the `_fastcode` concrete-prefix cache), `__get_jumpdests` / `valid_jumpdests`, `__getitem__`,
`unwrapped_slice`, `slice`, `_decode_instruction`, `decode_instruction` (with its `_insn` cache).

What a byte of the code can be, as the Python code sees it:
  * `lit b`  — a byte of a `ConcreteChunk` (or of `_fastcode`): a Python `int`;
  * `num b`  — a byte of a `SymbolicChunk` whose `Extract` simplifies to a numeral: a z3 `BitVecNumRef`
               (`int_of` accepts it, `type(x) is int` does not);
  * `sym id` — a byte whose value is not known (a z3 term that is not a numeral).

The `ByteVec` underneath is modelled by its content only (`bvGetByte`, `bvSlice`: zero beyond the end); its chunk
bookkeeping is the subject of C07.  Program counters and offsets are naturals: the EVM never produces a negative
one (`decode_instruction(-1)` is outside the domain — see the note in tools/props/c19.py).
-/
namespace HalmosVerif.Model.Contract
open HalmosVerif.Gen

inductive CodeByte where
  | lit (b : Nat)
  | num (b : Nat)
  | sym (id : Nat)
  deriving DecidableEq, Repr, Inhabited

/-- a byte of a `SymbolicChunk` -/
inductive SByte where
  | num (b : Nat)
  | sym (id : Nat)
  deriving DecidableEq, Repr

def SByte.toCode : SByte → CodeByte
  | .num b => .num b
  | .sym i => .sym i

/-- what `Contract(code)` is built from: the chunks of the `ByteVec` (also `bytes`/hex = one concrete chunk) -/
inductive Chunk where
  | conc (bs : List Nat)
  | symb (bs : List SByte)
  deriving DecidableEq, Repr

def Chunk.bytes : Chunk → List CodeByte
  | .conc bs => bs.map .lit
  | .symb bs => bs.map SByte.toCode

def Chunk.isEmpty : Chunk → Bool
  | .conc bs => bs.isEmpty
  | .symb bs => bs.isEmpty

structure Contract where
  /-- `_fastcode`: the bytes of the first chunk when it is a `ConcreteChunk` -/
  fast : Option (List Nat)
  /-- `_code`, flattened -/
  code : List CodeByte
  deriving Repr

/-- `Contract.__init__`: `ByteVec.append` drops empty chunks; `_fastcode = chunks[0].unwrap()` if that chunk is concrete -/
def ofChunks (cs : List Chunk) : Contract :=
  let cs' := cs.filter (fun c => !c.isEmpty)
  { fast := match cs' with
      | .conc bs :: _ => some bs
      | _ => none
    code := cs'.flatMap Chunk.bytes }

def Contract.len (c : Contract) : Nat := c.code.length

/-! ### ByteVec reads (content level) -/

/-- `ByteVec.get_byte(off)`: `0` (an int) beyond the end -/
def bvGetByte (code : List CodeByte) (off : Nat) : CodeByte :=
  if off < code.length then code.getD off (.lit 0) else .lit 0

/-- content of `ByteVec.slice(start, stop)`: empty when `stop ≤ start`, all zeros when `start` is beyond the end,
otherwise the bytes present followed by the missing zeros -/
def bvSlice (code : List CodeByte) (start stop : Nat) : List CodeByte :=
  if stop ≤ start then []
  else if code.length ≤ start then List.replicate (stop - start) (.lit 0)
  else
    let got := (code.drop start).take (stop - start)
    got ++ List.replicate (stop - start - got.length) (.lit 0)

/-- Python `xs[start:stop]` for non-negative indices -/
def pySlice (xs : List Nat) (start stop : Nat) : List Nat := (xs.take stop).drop start

/-! ### `__get_jumpdests` -/

/-- one `while pc < N:` loop.  `get pc` is `bytecode[pc]`.  Returns the `pc` and the set at loop exit;
`none` = the loop did not finish within `fuel` iterations (it always does: `scanLoop_total`). -/
def scanLoop (get : Nat → CodeByte) (N : Nat) : Nat → Nat → List Nat → Option (Nat × List Nat)
  | 0, _, _ => none
  | fuel + 1, pc, acc =>
    if pc < N then
      match get pc with
      | .lit opcode =>
        if opcode = OP_JUMPDEST then scanLoop get N fuel (pc + 1) (acc ++ [pc])
        else scanLoop get N fuel (pc + insnLen opcode) acc
      | _ => some (pc, acc)          -- `type(opcode) is not int` → NotConcreteError → break
    else some (pc, acc)

/-- `for bytecode in (self._fastcode, self._code)`, `pc` carried over from the first loop to the second -/
def jumpdests (c : Contract) : Option (List Nat) := do
  let (pc, acc) ← match c.fast with
    | some f =>
      if f.isEmpty then some (0, [])                                                 -- `if not bytecode: continue`
      else scanLoop (fun i => .lit (f.getD i 0)) f.length (f.length + 1) 0 []
    | none => some (0, [])
  if c.code.isEmpty then some acc
  else
    let (_, acc) ← scanLoop (bvGetByte c.code) c.code.length (c.code.length + 1) pc acc
    some acc

/-! ### byte and slice reads -/

/-- `__getitem__` -/
def getitem (c : Contract) (key : Nat) : CodeByte :=
  match c.fast with
  | some f => if key < f.length then .lit (f.getD key 0) else bvGetByte c.code key   -- IndexError → slow path
  | none => bvGetByte c.code key

/-- `unwrapped_slice(start, stop)`: the bytes whose big-endian value the returned `BV` has -/
def unwrappedSlice (c : Contract) (start stop : Nat) : List CodeByte :=
  match c.fast with
  | some f =>
    if !f.isEmpty && stop < f.length then (pySlice f start stop).map .lit
    else bvSlice c.code start stop
  | none => bvSlice c.code start stop

inductive Err where
  | notConcrete
  | outOfGas
  deriving DecidableEq, Repr

/-- `slice(start, size)` -/
def slice (c : Contract) (start size : Nat) : Except Err (List CodeByte) :=
  if size > MAX_MEMORY_SIZE then .error .outOfGas
  else
    let stop := start + size
    match c.fast with
    | some f =>
      if !f.isEmpty && stop < f.length then .ok ((pySlice f start stop).map .lit)
      else .ok (bvSlice c.code start stop)
    | none => .ok (bvSlice c.code start stop)

/-! ### instruction decoding -/

structure Insn where
  opcode : Nat
  pc : Int
  nextPc : Int
  /-- the bytes of the immediate (the operand is their big-endian value, zero-extended to 256 bits) -/
  operand : Option (List CodeByte)
  deriving DecidableEq, Repr

/-- `Instruction.STOP = Instruction(OP_STOP)` -/
def Insn.stop : Insn := { opcode := OP_STOP, pc := -1, nextPc := -1, operand := none }

/-- `_decode_instruction` -/
def decodeRaw (c : Contract) (pc : Nat) : Except Err Insn :=
  let dec (opcode : Nat) : Except Err Insn :=
    let length := insnLen opcode
    let nextPc := pc + length
    if length > 1 then
      .ok { opcode, pc := pc, nextPc := nextPc, operand := some (unwrappedSlice c (pc + 1) nextPc) }
    else
      .ok { opcode, pc := pc, nextPc := nextPc, operand := none }
  match getitem c pc with
  | .lit opcode => dec opcode
  | .num opcode => dec opcode        -- `int_of` unboxes numerals
  | .sym _ => .error .notConcrete

/-- `_insn`: one slot per byte of the code -/
abbrev Cache := List (Option Insn)

def Cache.empty (c : Contract) : Cache := List.replicate c.code.length none

/-- `decode_instruction(pc)` for `pc ≥ 0`, threading the `_insn` cache -/
def decodeInstruction (c : Contract) (cache : Cache) (pc : Nat) : Except Err Insn × Cache :=
  if pc < cache.length then
    match cache.getD pc none with
    | some insn => (.ok insn, cache)
    | none =>
      match decodeRaw c pc with
      | .ok insn => (.ok insn, cache.set pc (some insn))
      | .error e => (.error e, cache)
  else (.ok Insn.stop, cache)                    -- IndexError and `pc >= len(self._insn)`

/-- `decode_instruction(pc)` on a fresh cache -/
def decode (c : Contract) (pc : Nat) : Except Err Insn := (decodeInstruction c (Cache.empty c) pc).1

/-! ### JUMP / JUMPI destination check and `Exec.advance` (sevm.py) -/

/-- `target not in ex.pgm.valid_jumpdests()` → `InvalidJumpDestError`; otherwise `ex.advance(pc=target + 1)`.
`none` = rejected, `some pc'` = the program counter after the jump. -/
def jumpTo (c : Contract) (target : Nat) : Option Nat :=
  match jumpdests c with
  | some ds => if ds.contains target then some (target + 1) else none
  | none => none

end HalmosVerif.Model.Contract
