/-
Model.Frontier — `_compute_frontier` / `get_frontier` / the depth loop of `run_message`, the state digest of
`snapshot_state`, and target resolution (`resolve_target_contracts`, `resolve_target_selectors`, sender restriction).

Symbolic states `Sym` (one `Exec` at a transaction boundary) denote sets of concrete states. For a frontier state `s`,
`post s` lists, in exploration order, the output states of `run_target_contract` over every resolved target contract and
selector that are neither stuck nor reverted (those are `continue`d; Panic / fail-flag ones are reported as probes).
`_compute_frontier` then, for each of them: computes the digest (`path_slice` + `get_state_id`), skips it if the digest was
visited, otherwise records the digest, refreshes the timestamp (fresh symbol ≥ the previous one) and appends it.
`visited` is shared by all depths (it starts with the digest of the setUp state). Core Lean only.
-/
namespace HalmosVerif.Model.Frontier

section Algo

variable {Sym D : Type} [DecidableEq D]

/-- the inner loops of `_compute_frontier` over all post-states of one level; acc = (next_exs, visited) -/
def addStates (dig : Sym → D) (refresh : Sym → Sym) : List Sym → List Sym × List D → List Sym × List D
  | [], acc => acc
  | s :: ss, (next, vis) =>
    if vis.contains (dig s) then addStates dig refresh ss (next, vis)
    else addStates dig refresh ss (next ++ [refresh s], dig s :: vis)

/-- `frontier d` = (`ctx.frontier_states[d]`, `ctx.visited` after computing it) -/
def frontier (post : Sym → List Sym) (dig : Sym → D) (refresh : Sym → Sym) (s0 : Sym) : Nat → List Sym × List D
  | 0 => ([s0], [dig s0])
  | d + 1 =>
    addStates dig refresh ((frontier post dig refresh s0 d).1.flatMap post) ([], (frontier post dig refresh s0 d).2)

/-- the states an invariant test of depth `d` is run against (`run_message`: `for depth in range(max_call_depth + 1)`) -/
def checked (post : Sym → List Sym) (dig : Sym → D) (refresh : Sym → Sym) (s0 : Sym) (d : Nat) : List Sym :=
  (List.range (d + 1)).flatMap fun k => (frontier post dig refresh s0 k).1

end Algo

/-- concrete reachability: `n` successful admissible transactions -/
inductive ReachN {Conc : Type} (cstep : Conc → Conc → Prop) (c0 : Conc) : Nat → Conc → Prop where
  | zero : ReachN cstep c0 0 c0
  | succ {n : Nat} {c c' : Conc} : ReachN cstep c0 n c → cstep c c' → ReachN cstep c0 (n + 1) c'

/-! ## The digest of `snapshot_state(ex, include_path=True)` -/

/-- what `run_message` carries from one transaction to the next (as identities / digests of the parts) -/
structure Persist where
  balanceId : Nat        -- `ex.balance.get_id()`
  codeIds : List (Nat × Nat)   -- (address, id(code))
  storageDigest : Nat    -- digests of every account's storage
  pathIds : List Nat     -- ids of the sliced path conditions
  number : Nat           -- block.number   (vm.roll)
  chainid : Nat          -- block.chainid  (vm.chainId)
  basefee : Nat          -- block.basefee  (vm.fee)
  coinbase : Nat         -- block.coinbase (vm.coinbase)
  deriving DecidableEq, Repr

/-- the four hashes `snapshot_state` concatenates: balance, code, storage, path — nothing of `ex.block` -/
def digestImpl (p : Persist) : Nat × List (Nat × Nat) × Nat × List Nat :=
  (p.balanceId, p.codeIds, p.storageDigest, p.pathIds)

/-! ### `StorageData.digest()`: what `storageDigest` hashes

`_mapping` of one account: key (slot, or (slot, num_keys, size_keys)) ↦ z3 term, in insertion order; the digest hashes the
serialised (key, id(value)) pairs of *every* entry. An entry that is absent is not "zero": under symbolic storage
(`svm.enableSymbolicStorage`) an untouched slot reads as an arbitrary value, whereas an entry holding the constant 0 reads as 0. -/

/-- one account's `_mapping` as (slot, value id) pairs in insertion order -/
abbrev StorageMap := List (Nat × Nat)

/-- what a later read of `slot` sees: `none` = never initialised (zero under concrete storage, *arbitrary* under symbolic storage) -/
def slotOf (m : StorageMap) (slot : Nat) : Option Nat := (m.find? (fun e => e.1 == slot)).map (·.2)

/-- `StorageData.digest()`: the hash input is the whole list of entries (the hash itself is taken to be collision-free) -/
def storageDigestInput (m : StorageMap) : List (Nat × Nat) := m

/-- a digest that leaves out entries whose value is the constant zero (value id 0 stands for the numeral 0) -/
def storageDigestSkipZero (m : StorageMap) : List (Nat × Nat) := m.filter (fun e => e.2 != 0)

/-! ## Target resolution -/

section Filters

variable {A Sel : Type} [DecidableEq A] [DecidableEq Sel]

structure Filters (A Sel : Type) where
  targetContracts : List A
  excludeContracts : List A
  targetSelectors : List (A × List Sel)     -- the decoded FuzzSelector[]: entries for one address are concatenated
  excludeSelectors : List (A × List Sel)
  targetSenders : List A
  excludeSenders : List A

/-- `abi_decode_FuzzSelector_array` result viewed as a dict: selectors recorded for `a` -/
def selsOf (m : List (A × List Sel)) (a : A) : List Sel := (m.filter (fun e => e.1 == a)).flatMap (·.2)

/-- keys of that dict -/
def keysOf (m : List (A × List Sel)) : List A := m.map (·.1)

/-- `resolve_target_contracts`: (targets or all deployed) − excluded, ∪ keys(targetSelectors); the test contract only if named -/
def resolveContracts (f : Filters A Sel) (deployed : List A) (test : A) : List A :=
  let r0 := if f.targetContracts.isEmpty then deployed else f.targetContracts
  let r1 := r0.filter (fun a => !f.excludeContracts.contains a)
  let r2 := r1 ++ keysOf f.targetSelectors
  if f.targetContracts.contains test || !(selsOf f.targetSelectors test).isEmpty then r2
  else r2.filter (fun a => a != test)

structure FnInfo (Sel : Type) where
  sel : Sel
  isView : Bool          -- stateMutability ∈ {pure, view}
  reserved : Bool        -- test_/check_/prove_/invariant_ prefix, setUp(), afterInvariant()

/-- `resolve_target_selectors` -/
def resolveSelectors (f : Filters A Sel) (a : A) (isTest : Bool) (fns : List (FnInfo Sel)) : List (FnInfo Sel) :=
  if !(selsOf f.targetSelectors a).isEmpty then fns.filter (fun g => (selsOf f.targetSelectors a).contains g.sel)
  else if !(selsOf f.excludeSelectors a).isEmpty then fns.filter (fun g => !(selsOf f.excludeSelectors a).contains g.sel)
  else fns.filter (fun g => !g.isView && !(isTest && g.reserved))

/-- the sender restriction of `run_target_contract` as a predicate on the symbolic `msg.sender` -/
def senderAllowed (f : Filters A Sel) (s : A) : Bool :=
  let eff := f.targetSenders.filter (fun a => !f.excludeSenders.contains a)
  if !eff.isEmpty then eff.contains s
  else if !f.excludeSenders.isEmpty then !f.excludeSenders.contains s
  else true

/-! The Foundry rules (Foundry book, "Invariant targets"; foundry `crates/evm/evm/src/executors/invariant/mod.rs`:
`select_contracts_and_senders` filters the deployed contracts by targetContracts / excludeContracts first, THEN `select_selectors`
→ `add_address_with_functions` inserts the contract of every targetSelectors entry whose selector list is non-empty
("Do not add address in target contracts if no function selected"), so `targetSelector` beats `excludeContract`;
targeted selectors beat excluded selectors; senders = targeted − excluded, or, if that is empty, anyone not excluded). -/

/-- Spec: is contract `a` (≠ the test contract) a target? -/
def specTargeted (f : Filters A Sel) (deployed : List A) (a : A) : Bool :=
  ((if f.targetContracts.isEmpty then deployed.contains a else f.targetContracts.contains a) && !f.excludeContracts.contains a)
    || !(selsOf f.targetSelectors a).isEmpty

/-- Spec: may function `g` of target `a` be called? -/
def specCallable (f : Filters A Sel) (a : A) (isTest : Bool) (g : FnInfo Sel) : Bool :=
  if !(selsOf f.targetSelectors a).isEmpty then (selsOf f.targetSelectors a).contains g.sel
  else if !(selsOf f.excludeSelectors a).isEmpty then !(selsOf f.excludeSelectors a).contains g.sel
  else !g.isView && !(isTest && g.reserved)

/-- Spec: may `s` be the sender? (targeted senders minus excluded; if none remain, anyone not excluded) -/
def specSender (f : Filters A Sel) (s : A) : Bool :=
  if (f.targetSenders.any fun a => !f.excludeSenders.contains a) then f.targetSenders.contains s && !f.excludeSenders.contains s
  else !f.excludeSenders.contains s

end Filters

end HalmosVerif.Model.Frontier
