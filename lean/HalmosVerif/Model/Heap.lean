/-
Model.Heap — object identities, in-place mutation and copy modes, for the isolation half of C20.

halmos keeps one `Exec` per explored state; a new `Exec` is built from an existing one at two kinds of sites
(`Gen.CopyTable`, extracted from sevm.py):
* fork sites (`SEVM.create_branch`, `SEVM.run_message`): the source state — a sibling path, a frontier state, the post-setUp
  state shared by all tests — stays alive and must not observe anything the new state does;
* continuation sites (the `sub_ex` of `call` / `create`): the sub-execution continues the same path and shares everything
  by reference on purpose, except the fields the callback later restores from the captured parent.

The heap model: a field of a state object refers to a *container* object (dict / list / State / StorageData map …) whose
items are *inner* objects carrying a payload. Three kinds of change exist in the code and are modelled by `Op`:
rebinding the field (`ex.balance = …`, depth 0), changing the container in place (`ex.alias[k] = v`, `ex.jumpis[j] = …`,
depth 1), changing an inner object in place (`ex.storage[a]._mapping[k] = v`, `ex.st.stack.append`, depth 2).
A copy of depth 1 (`.copy()`) gives a new container with the same items; of depth 2 (`deepcopy`, or a fresh object)
new items as well.  Core Lean only.
-/
import HalmosVerif.Gen.CopyTable

namespace HalmosVerif.Model.Heap

open HalmosVerif.Gen.CopyTable (Mode)

/-- how far a copy reaches: 0 = the very same object, 1 = new container / same items, 2 = new items too -/
def copyDepth : Mode → Nat
  | .byRef => 0 | .shallow => 1 | .deep => 2 | .fresh => 2

structure Heap where
  h1 : Nat → List Nat      -- container location ↦ locations of its items
  h2 : Nat → Nat           -- inner object location ↦ payload
  next : Nat               -- allocator: fresh locations are handed out from here upwards

/-- a state object: field index ↦ location of the container it refers to -/
abbrev Rec := Nat → Nat

def fnUpd {α} (g : Nat → α) (k : Nat) (v : α) : Nat → α := fun x => if x = k then v else g x

/-- everything reachable from field `f` of `r`: what an observer of that state can see of it -/
def view (h : Heap) (r : Rec) (f : Nat) : List Nat := (h.h1 (r f)).map h.h2

inductive Op where
  | rebind (f : Nat)                         -- `ex.f = <new object>`
  | push (f : Nat) (v : Nat)                 -- `ex.f[k] = <new item>` / `ex.f.append(item)`
  | clear (f : Nat)                          -- `ex.f.clear()` / `del ex.f[k]`
  | setInner (f : Nat) (i : Nat) (v : Nat)   -- `ex.f[i].<attr> = v`
  deriving Repr

def Op.field : Op → Nat
  | .rebind f => f | .push f _ => f | .clear f => f | .setInner f _ _ => f

/-- depth of the in-place change -/
def Op.depth : Op → Nat
  | .rebind _ => 0 | .push _ _ => 1 | .clear _ => 1 | .setInner _ _ _ => 2

def applyOp (h : Heap) (r : Rec) : Op → Heap × Rec
  | .rebind f => ({ h with h1 := fnUpd h.h1 h.next [], next := h.next + 1 }, fnUpd r f h.next)
  | .push f v =>
    ({ h1 := fnUpd h.h1 (r f) (h.h1 (r f) ++ [h.next]), h2 := fnUpd h.h2 h.next v, next := h.next + 1 }, r)
  | .clear f => ({ h with h1 := fnUpd h.h1 (r f) [] }, r)
  | .setInner f i v =>
    match (h.h1 (r f))[i]? with
    | some l => ({ h with h2 := fnUpd h.h2 l v }, r)
    | none => (h, r)

def run (h : Heap) (r : Rec) : List Op → Heap × Rec
  | [] => (h, r)
  | op :: ops => let (h', r') := applyOp h r op; run h' r' ops

/-- the situation right after a fork with copy modes `mode`: everything the parent can reach lies below `bound`; a field copied
to depth ≥ 1 has a container of its own (≥ bound), a field copied to depth 2 has items of its own as well. This is what
`x.copy()` / `deepcopy(x)` / a fresh object mean for identities. -/
structure Forked (mode : Nat → Mode) (bound : Nat) (h : Heap) (parent child : Rec) : Prop where
  parentBelow : ∀ f, parent f < bound
  closed : ∀ l, l < bound → ∀ x ∈ h.h1 l, x < bound
  nextAbove : bound ≤ h.next
  ownContainer : ∀ f, 1 ≤ copyDepth (mode f) → bound ≤ child f
  ownItems : ∀ f, copyDepth (mode f) = 2 → ∀ x ∈ h.h1 (child f), bound ≤ x

/-- an operation respects the copy modes: it changes nothing deeper than what was copied -/
def Allowed (mode : Nat → Mode) (op : Op) : Prop := op.depth ≤ copyDepth (mode op.field)

/-- invariant of the child's execution -/
structure Inv (mode : Nat → Mode) (bound : Nat) (h0 h : Heap) (r : Rec) : Prop where
  nextAbove : bound ≤ h.next
  ownContainer : ∀ f, 1 ≤ copyDepth (mode f) → bound ≤ r f
  ownItems : ∀ f, copyDepth (mode f) = 2 → ∀ x ∈ h.h1 (r f), bound ≤ x
  frame1 : ∀ l, l < bound → h.h1 l = h0.h1 l
  frame2 : ∀ l, l < bound → h.h2 l = h0.h2 l

/-! ## The rules the extracted table has to satisfy

`mutDepth` is the hand-made part (from reading sevm.py / cheatcodes.py): how deep execution changes the object a field of
`Exec` refers to *in place*.
  0  only ever rebound (`ex.balance = …`, `ex.pgm = …`, `ex.pc`, `post_ex.call_sequence = pre + [c]`, `ex.callback`)
  1  the container itself is updated in place, its items are replaced, never mutated
     (`ex.code[a] = c` in set_code; `ex.alias[a] = b`; `ex.storages[s] = v`; `ex.balances[b] = v`; `ex.sha3s.register`;
      `ex.cnts[k] += 1`; `ex.jumpis[j] = {…}`; `ex.block.timestamp = …`; `ex.known_keys[a] = k`; `ex.known_sigs[…] = …`)
  2  an object inside the container is mutated (`ex.storage[a]._mapping[k] = v`, `ex.transient_storage[a]…`,
     `ex.st.stack.append` / `ex.st.memory.set_slice`, `ex.context.trace.append` / `ex.context.output.data = …`)
`path` is always a fresh `Path` at fork sites; its own fields are governed by `pathMutDepth` and `Gen.CopyTable.pathSites`:
`conditions[c] = b` (1), `related[i] = …` (1), `var_to_conds[v].add(i)` (2), `concretization.substitution[k] = v` (2).
-/

def mutDepth : String → Nat
  | "storage" | "transient_storage" | "st" | "context" => 2
  | "code" | "alias" | "storages" | "balances" | "sha3s" | "cnts" | "jumpis" | "block" | "known_keys" | "known_sigs" => 1
  | _ => 0

/-- registries that `create_branch` shares between sibling paths on purpose (address ↦ private key, (key, digest) ↦ signature):
an entry made on one path is visible on its siblings; `isolation` makes no claim about these fields. The leak is NOT benign:
`vm.sign` adds its constraints only on the path that creates the entry, so a sibling signing the same (key, digest) later gets
the terms unconstrained (known finding C20 `vm-sign-constraints-skipped-on-sibling|…`, tools/props/c20.py `sign:*` programs;
`Props.C20.isolation_needs_copy_cex` is the abstract form). -/
def sharedByDesign : List String := ["known_keys", "known_sigs"]

def pathMutDepth : String → Nat
  | "var_to_conds" | "concretization" => 2
  | "conditions" | "related" | "term_to_vars" => 1
  | _ => 0

/-- `term_to_vars` is a memo table keyed by term (entries are only ever added, and are a function of the key) -/
def pathSharedByDesign : List String := ["term_to_vars"]

/-- fields the callbacks of `call` / `create` restore from the captured parent: the sub-execution must start with objects of
its own for them, and every return path must get its own copy -/
def restoredByCallback : List String := ["context", "st", "jumpis"]

def lookupMode (fields : List (String × Mode)) (f : String) : Option Mode := (fields.find? (fun p => p.1 == f)).map (·.2)

def forkSiteOk (fields : List (String × Mode)) : Bool :=
  fields.all fun p => sharedByDesign.contains p.1 || decide (mutDepth p.1 ≤ copyDepth p.2)

def pathSiteOk (fields : List (String × Mode)) : Bool :=
  fields.all fun p => pathSharedByDesign.contains p.1 || decide (pathMutDepth p.1 ≤ copyDepth p.2)

def contSiteOk (fields : List (String × Mode)) : Bool :=
  restoredByCallback.all fun f => lookupMode fields f == some Mode.fresh

def callbackOk (fields : List (String × Mode)) : Bool :=
  restoredByCallback.all fun f => lookupMode fields f == some Mode.deep

/-- the fields every fork site must mention (a keyword dropped from `Exec(...)` would otherwise fall back to a default) -/
def requiredForkFields : List String :=
  ["code", "storage", "transient_storage", "balance", "block", "context", "st", "jumpis", "path", "alias", "cnts", "sha3s",
   "storages", "balances"]

/-- the backup taken before a sub-execution (which shares the caller's objects by reference and mutates them) and every restore
from it (one per failing callee path; each continuation then mutates what it got) must be copies as deep as the mutation -/
def backupOk (fields : List (String × Mode)) : Bool :=
  ["code", "storage", "transient_storage", "balance"].all fun f =>
    match lookupMode fields f with
    | some m => decide (mutDepth f ≤ copyDepth m)
    | none => false

def forkSiteComplete (fields : List (String × Mode)) : Bool :=
  requiredForkFields.all fun f => (lookupMode fields f).isSome

end HalmosVerif.Model.Heap
