/-
Model.Main — an abstract composition model of `halmos.__main__`: `setup` (single successful setUp path), `run_test`
(paths, classification, verdict) and `run_tests` (one shared post-setUp state + a per-contract cache).

A path, as `run_test` sees it at the end of `SEVM.run`, is
  * its path predicate over the test's inputs (conjunction of `ex.path.conditions`),
  * its outcome kind (what `ex.context.output` holds): Panic(code) / fail cheatcode / stuck / normal return / other revert,
  * for the paths that are sent to a solver: what the SMT query says about inputs (`queryPred`) and the solver's answer.
The classification is the if-chain of `run_test` (`panic_found or is_global_fail_set` → potential; `is_stuck` → stuck,
confirmed by a low-level query; `not error_output` → normal); the verdict is the if-chain over
`Counter(str(m.result) for m in ctx.solver_outputs)`, `stuck`, `normal` (sat > err > unknown > stuck > revert-all > PASS).
Scheduling, early exit and the exception paths are the business of `Model.Verdict` (C05); here the run is taken as completed.
Core Lean only.
-/
namespace HalmosVerif.Model.Main

/-- what a finished execution left in `context.output` -/
inductive Outcome where
  | panic (code : Nat)   -- Revert with `Panic(code)` data (36 bytes, selector 0x4e487b71)
  | failFlag             -- `FailCheatcode` somewhere in the call tree (vm.assert* / the legacy `failed` store)
  | stuck                -- HalmosException: no output data
  | success              -- no error
  | revert               -- any other EVM error / revert
  deriving DecidableEq, Repr

inductive QRes where
  | sat | unsat | unknown | err
  deriving DecidableEq, Repr

inductive Class where
  | potential | stuck | normal | other
  deriving DecidableEq, Repr

/-- `CallOutput.is_panic_of(codes)`: an empty set matches any code -/
def isPanicOf (codes : List Nat) : Outcome → Bool
  | .panic c => codes.isEmpty || codes.contains c
  | _ => false

/-- the classification chain of `run_test` -/
def classify (codes : List Nat) (o : Outcome) : Class :=
  if isPanicOf codes o || o == .failFlag then .potential
  else if o == .stuck then .stuck
  else if o == .success then .normal
  else .other

structure PathRec (Input : Type) where
  pred : Input → Prop        -- the path condition, as a predicate on inputs
  outcome : Outcome
  queryPred : Input → Prop   -- what the query submitted for this path asserts about inputs
  query : QRes               -- the answer that ended up in `solver_outputs` (potential paths) / of `solve_low_level` (stuck paths)

inductive Verdict where
  | pass | fail | errorSolver | timeout | errorStuck | errorRevertAll
  deriving DecidableEq, Repr

def potentials {Input} (codes : List Nat) (ps : List (PathRec Input)) : List (PathRec Input) :=
  ps.filter fun p => classify codes p.outcome == .potential

/-- the verdict chain of `run_test` -/
def verdict {Input} (codes : List Nat) (ps : List (PathRec Input)) : Verdict :=
  let pot := potentials codes ps
  if pot.any (fun p => p.query == .sat) then .fail
  else if pot.any (fun p => p.query == .err) then .errorSolver
  else if pot.any (fun p => p.query == .unknown) then .timeout
  else if ps.any (fun p => classify codes p.outcome == .stuck && p.query != .unsat) then .errorStuck
  else if !(ps.any fun p => classify codes p.outcome == .normal) then .errorRevertAll
  else .pass

/-- one completed `run_test`: the explored paths and whether any bound / incompleteness warning was raised for it
(loop bound, `--width`, `--depth`, unsupported opcode logged, …) -/
structure Run (Input : Type) where
  paths : List (PathRec Input)
  flagged : Bool

/-! ## `setup`: exactly one successful setUp path -/

structure SetupPath (S : Type) where
  state : S
  error : Bool      -- `setup_ex.context.output.error` is set
  query : QRes      -- `solve_low_level` on its path (consulted only when several paths have no error)

inductive SetupResult (S : Type) where
  | ok (s : S)
  | noPath          -- HalmosException "No successful path found in setUp()"
  | multiple        -- HalmosException "Multiple paths were found in setUp()"
  deriving Repr

/-- `setup()`: drop the paths with an error; a single survivor is taken *without* a feasibility check; otherwise keep the
survivors whose query is not `unsat` (the loop stops after the second: more than one is an error either way) -/
def setup {S} (ps : List (SetupPath S)) : SetupResult S :=
  match ps.filter (fun p => !p.error) with
  | [] => .noPath
  | [p] => .ok p.state
  | ne =>
    match ne.filter (fun p => p.query != .unsat) with
    | [] => .noPath
    | [p] => .ok p.state
    | _ => .multiple

/-! ## `run_tests`: every test starts from the same post-setUp state; the contract context carries a cache -/

/-- `run_tests`: `runTest cache setupState f` gives the test's result and the cache afterwards (frontier states, visited
digests, reported probes); results are recorded in execution order -/
def runTests {C S F R : Type} (runTest : C → S → F → R × C) (c : C) (s : S) : List F → List (F × R)
  | [] => []
  | f :: fs => let (r, c') := runTest c s f; (f, r) :: runTests runTest c' s fs

/-- cache states reachable from `c0` by running tests -/
inductive Reach {C S F R : Type} (runTest : C → S → F → R × C) (c0 : C) (s : S) : C → Prop where
  | init : Reach runTest c0 s c0
  | step {c : C} (f : F) : Reach runTest c0 s c → Reach runTest c0 s (runTest c s f).2

/-- the cache is only a memo: the result of a test is the same from every reachable cache state -/
def CacheTransparent {C S F R : Type} (runTest : C → S → F → R × C) (c0 : C) (s : S) : Prop :=
  ∀ c, Reach runTest c0 s c → ∀ f, (runTest c s f).1 = (runTest c0 s f).1

end HalmosVerif.Model.Main
