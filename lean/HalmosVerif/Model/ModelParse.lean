/-
Model.ModelParse — how solve.py reads a solver's answer: `parse_const_value`, `halmos_var_pattern` +
`_parse_halmos_var_match` + `parse_model_str`, `is_model_valid`, `SolverOutput.from_result`.
The regular expression is transcribed by hand into Model.RegexBT (its source text is pinned in Props.C04 against
Gen.SolveTables.halmosVarPattern, so a change of the regex breaks the build); behaviour is compared with the real
functions by tools/props/c04.py through Driver/ModelParse.lean.  Core Lean only.
-/
import HalmosVerif.Model.RegexBT
import HalmosVerif.Gen.SolveTables

namespace HalmosVerif.Model.ModelParse
open HalmosVerif.Model.ReBT HalmosVerif.Model.Rx HalmosVerif.Gen.SolveTables

/-! ### integers -/

def digitVal (c : Char) : Nat :=
  if '0' ≤ c ∧ c ≤ '9' then c.toNat - '0'.toNat
  else if 'a' ≤ c ∧ c ≤ 'f' then c.toNat - 'a'.toNat + 10
  else if 'A' ≤ c ∧ c ≤ 'F' then c.toNat - 'A'.toNat + 10
  else 99

def validDigit (base : Nat) (c : Char) : Bool := digitVal c < base

inductive PErr where
  | value      -- ValueError
  | index      -- IndexError (name with fewer than three `_`-separated parts)
  deriving Repr, DecidableEq

deriving instance DecidableEq for Except

/-- `int(s, base)` on the strings that can reach it here: a non-empty run of digits of the base.
    (Python also accepts signs, `_`, surrounding whitespace and a base prefix; none can occur in group 4 of the regex.) -/
def pyInt (base : Nat) (s : List Char) : Except PErr Nat :=
  if s.isEmpty then .error .value
  else if s.all (validDigit base) then .ok (s.foldl (fun acc c => base * acc + digitVal c) 0)
  else .error .value

/-- `parse_const_value` -/
def parseConstValue (v : List Char) : Except PErr Nat :=
  match v with
  | '#' :: 'b' :: r => pyInt 2 r
  | '#' :: 'x' :: r => pyInt 16 r
  | 'b' :: 'v' :: r => pyInt 10 r
  | _ =>
    match (splitWs v).find? (fun t => (stripPrefix ['b', 'v'] t).isSome) with
    | some t => pyInt 10 (t.drop 2)
    | none => .error .value

/-! ### printers of the three constant syntaxes (what z3 / yices emit) -/

def padLeft (n : Nat) (s : List Char) : List Char := List.replicate (n - s.length) '0' ++ s

def printBin (w v : Nat) : List Char := '#' :: 'b' :: padLeft w (Nat.toDigits 2 v)
def printHex (w v : Nat) : List Char := '#' :: 'x' :: padLeft (w / 4) (Nat.toDigits 16 v)
def printDec (w v : Nat) : List Char :=
  ['(', '_', ' ', 'b', 'v'] ++ Nat.toDigits 10 v ++ [' '] ++ Nat.toDigits 10 w ++ [')']

/-! ### the variable regex -/

def ws : Re := .cls isWs
def dig : Re := .cls Char.isDigit

/-- `halmos_var_pattern` (re.VERBOSE layout removed):
    `\(\s*define-fun\s+\|?((?:halmos_|p_)[^ |]+)\|?\s+\(\)\s+\(_\s+([^ ]+)\s+(\d+)\)\s+(\#b[01]+|\#x[0-9a-fA-F]+|\(_\s+bv\d+\s+\d+\))` -/
def halmosVarRe : Re :=
  Re.seqs [
    .lit ['('], .star ws, .lit "define-fun".toList, ws.plus, .opt (.lit ['|']),
    .grp 1 (.seq (.alt (.lit "halmos_".toList) (.lit "p_".toList)) (Re.plus (.cls fun c => c != ' ' && c != '|'))),
    .opt (.lit ['|']), ws.plus, .lit ['(', ')'], ws.plus, .lit ['(', '_'], ws.plus,
    .grp 2 (Re.plus (.cls fun c => c != ' ')), ws.plus, .grp 3 dig.plus, .lit [')'], ws.plus,
    .grp 4 (.alt (.seq (.lit ['#', 'b']) (Re.plus (.cls fun c => c = '0' || c = '1')))
            (.alt (.seq (.lit ['#', 'x']) (Re.plus (.cls fun c => validDigit 16 c)))
                  (Re.seqs [.lit ['(', '_'], ws.plus, .lit ['b', 'v'], dig.plus, ws.plus, dig.plus, .lit [')']])))]

structure Var where
  fullName : List Char
  variableName : List Char
  solidityType : List Char
  smtType : List Char
  sizeBits : Nat
  value : Nat
  deriving Repr, DecidableEq

def splitOn (sep : Char) (s : List Char) : List (List Char) :=
  let r := s.foldr (fun c (acc : List Char × List (List Char)) => if c = sep then ([], acc.1 :: acc.2) else (c :: acc.1, acc.2)) ([], [])
  r.1 :: r.2

/-- `_parse_halmos_var_match` on the four groups -/
def mkVar (g1 g2 g3 g4 : List Char) : Except PErr Var := do
  let fullName := strip g1
  let size ← pyInt 10 g3
  let value ← parseConstValue g4
  let parts := splitOn '_' fullName
  match parts with
  | _ :: vn :: st :: _ =>
    pure { fullName, variableName := vn, solidityType := st, smtType := g2 ++ [' '] ++ g3, sizeBits := size, value }
  | _ => .error .index

def insertVar (vs : List Var) (v : Var) : List Var :=
  if vs.any (fun u => u.fullName == v.fullName) then vs.map (fun u => if u.fullName == v.fullName then v else u)
  else vs ++ [v]

/-- `parse_model_str`: every match, later ones overwrite earlier ones of the same name; the first failing match raises -/
def parseModelStr (s : List Char) : Except PErr (List Var) :=
  (findAll halmosVarRe (fuelFor s) (s.length + 1) s).foldlM
    (fun acc caps => do
      let v ← mkVar (group caps 1) (group caps 2) (group caps 3) (group caps 4)
      pure (insertVar acc v)) []

/-! ### validity and dispatch -/

/-- `is_model_valid` -/
def isModelValid (stdout : List Char) : Bool := !(isInfix validNeedle.toList stdout)

def firstLine (s : List Char) : List Char := s.takeWhile (· != '\n')

/-- result kind of `from_result` (table extracted from the `match first_line` statement) -/
def resultKind (stdout : List Char) : String :=
  match firstLineTable.find? (fun e => e.1.toList == firstLine stdout) with
  | some e => e.2
  | none => firstLineDefault

structure Output where
  kind : String
  isValid : Option Bool                       -- only for sat
  model : Option (Except PErr (List Var))     -- only for sat
  deriving Repr

/-- `SolverOutput.from_result` without the unsat core (that part is Model.Cache.parseUnsatCore) -/
def fromResult (stdout : List Char) : Output :=
  let k := resultKind stdout
  if k = "sat" then { kind := k, isValid := some (isModelValid stdout), model := some (parseModelStr stdout) }
  else { kind := k, isValid := none, model := none }

/-- what `_solve_end_to_end_callback` does with a sat answer: `valid_counterexamples` or `invalid_counterexamples` -/
def labelledValid (o : Output) : Bool := o.kind = "sat" && o.isValid = some true

end HalmosVerif.Model.ModelParse
