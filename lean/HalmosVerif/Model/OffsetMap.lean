/-
Model.OffsetMap — `class OffsetMap` of /repo/src/halmos/utils.py, line for line.

    def __init__(self, offset_bits=16):  self._map = {}; self._offset_bits = offset_bits; self._mask = (1 << offset_bits) - 1
    def __getitem__(self, key):
        (value, offset) = self._map.get(key >> self._offset_bits, (None, None))
        if value is None: return (None, None)
        delta = (key & self._mask) - offset
        return (value, delta)
    def __setitem__(self, key, value):
        raw_key = key >> self._offset_bits
        raw_value = (value, key & self._mask)
        assert (existing := self._map.get(raw_key)) is None or existing == raw_value
        self._map[raw_key] = raw_value

Keys are non-negative Python ints (hash values) → `Nat`; `delta` may be negative → `Int`.  Stored values are z3 terms in
halmos, never `None`; the model is generic in the value type (with decidable equality for the `existing == raw_value`
assertion).  `(None, None)` is `none`; the failing `assert` is `none` of `set`.

`lookupFixed` is NOT what the code does: it is the corrected lookup (probe the bucket of the key, then the bucket below
it) against which a later fix in /repo is matched; see Props/C08OffsetMap.lean.
-/
namespace HalmosVerif.Model

structure OffsetMap (α : Type) where
  /-- `_offset_bits` -/
  bits : Nat
  /-- `_map`: raw key ↦ (value, offset); at most one binding per raw key (maintained by `set`) -/
  entries : List (Nat × (α × Nat))

namespace OffsetMap
variable {α : Type}

/-- `OffsetMap(offset_bits)` -/
def empty (bits : Nat := 16) : OffsetMap α := ⟨bits, []⟩

/-- `_mask` -/
def mask (m : OffsetMap α) : Nat := (1 <<< m.bits) - 1

/-- `self._map.get(rk)` -/
def find (m : OffsetMap α) (rk : Nat) : Option (α × Nat) :=
  match m.entries.find? (fun e => e.1 == rk) with
  | some e => some e.2
  | none => none

/-- `__getitem__`: `none` models `(None, None)` -/
def lookup (m : OffsetMap α) (key : Nat) : Option (α × Int) :=
  match m.find (key >>> m.bits) with
  | none => none
  | some (value, offset) => some (value, ((key &&& m.mask : Nat) : Int) - (offset : Nat))

/-- `__setitem__`: `none` models the AssertionError (a different binding already occupies the bucket) -/
def set [DecidableEq α] (m : OffsetMap α) (key : Nat) (value : α) : Option (OffsetMap α) :=
  let rawKey := key >>> m.bits
  let rawValue := (value, key &&& m.mask)
  match m.find rawKey with
  | none => some { m with entries := (rawKey, rawValue) :: m.entries }
  | some existing => if existing = rawValue then some m else none

/-- `set`, keeping the map unchanged when the assertion fails (for statements about maps built without failure) -/
def setD [DecidableEq α] (m : OffsetMap α) (key : Nat) (value : α) : OffsetMap α := (m.set key value).getD m

/-- `copy()` -/
def copy (m : OffsetMap α) : OffsetMap α := m

/-- the corrected lookup: the bucket of `key`, and — when that bucket is empty — the bucket below it, whose base may lie
up to `2^bits - 1` below `key` across the bucket boundary -/
def lookupFixed (m : OffsetMap α) (key : Nat) : Option (α × Int) :=
  match m.find (key >>> m.bits) with
  | some (value, offset) => some (value, ((key &&& m.mask : Nat) : Int) - (offset : Nat))
  | none =>
    if key >>> m.bits = 0 then none
    else match m.find ((key >>> m.bits) - 1) with
      | some (value, offset) => some (value, ((key &&& m.mask : Nat) : Int) + ((1 <<< m.bits : Nat) : Int) - (offset : Nat))
      | none => none

end OffsetMap
end HalmosVerif.Model
