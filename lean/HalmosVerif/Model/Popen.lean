/-
Model.Popen — labelled transition system for `halmos/processes.py` (PopenFuture / PopenExecutor) and the
timeout handling of `solve_low_level` (solve.py).

Threads
* submitter `s` (= `solve_low_level` for job `s`): `PopenFuture(cmd, timeout)`, `executor.submit(future)`,
  `future.result()`, mapping of the result (`TimeoutExpired` ↦ `unknown`, `from_result` first line dispatch);
* worker `i` (the `run` closure of `PopenFuture.start`): `Popen` → `communicate` (return | `TimeoutExpired`) →
  `cancel()` (in `finally`, only when `self.process`) → `set_result`;
* shutdown caller `k` (`wait = c.wait k`): `_shutdown.set()`, then either the parallel cancellation under `_lock`
  (`wait=False`) or `_join()` (`wait=True`);
* cancel task `(k, i)`: `f.cancel` submitted by shutdown caller `k` to its ThreadPoolExecutor for future `i`;
* the environment: process `i` exits by itself.

One transition = one *instrumented primitive* (the places where the replay harness can switch threads):
`Event.is_set/set`, `_lock.acquire/release`, `_futures.append`, iteration over `_futures` (snapshot),
`Thread.start`, `Popen(...)`, `communicate` returning / raising `TimeoutExpired`, `Popen.poll` (in `is_running`),
`psutil.Process.terminate`, `psutil.Process.is_running`+`kill`, `set_result`, `PopenFuture.result` entry, the wake-up of
a `Condition.wait`, `concurrent.futures.wait`, and the first instruction of a pool task. Everything a thread does
between two such primitives touches no shared state except through them, and is executed together with the
primitive that precedes it. Releases of locks that are not held across another primitive (the per-future start lock
of the repaired code, the `Condition` inside `Future`) are merged with the preceding primitive (a release is a left
mover), which is why those locks do not appear in the state.

`Variant` selects, per site, the code at the pinned commit (`false`) or the repaired code (`true`):
* `submitLocked` — `submit` reads `_shutdown` inside `with self._lock` (current: before taking the lock);
* `cancelFlag`   — `cancel()` first sets `_cancel_requested` under the per-future `_start_lock`, and `run` takes that
                   lock around "check the flag; `Popen`" (current: no flag: `cancel()` before `Popen` is a no-op);
* `joinFixed`    — `_join` snapshots `_futures` under `_lock` and waits for *all* futures
                   (`concurrent.futures.wait`) (current: unlocked snapshot, `future.result()` in a loop, so the first
                   stored job exception aborts the join).

Core Lean only.
-/

namespace HalmosVerif.Model.Popen

structure Variant where
  submitLocked : Bool
  cancelFlag : Bool
  joinFixed : Bool
  deriving DecidableEq, Repr

def Variant.current : Variant := ⟨false, false, false⟩
def Variant.fixed : Variant := ⟨true, true, true⟩

/-- `PopenFuture.process` / the OS process behind it -/
inductive Proc where
  | none      -- `self.process is None` (Popen not executed, or it raised)
  | running
  | exited    -- terminated by itself
  | killed    -- terminated by `cancel()` (SIGTERM or SIGKILL)
  deriving DecidableEq, Repr

/-- `PopenFuture._exception` (also the slot `Future.result()` re-raises) -/
inductive Exn where
  | none
  | timeout     -- subprocess.TimeoutExpired
  | other       -- any other exception of Popen / communicate
  | cancelled   -- repaired code only: ShutdownError stored when cancel() came before Popen
  deriving DecidableEq, Repr

/-- first line the solver prints if it runs to completion -/
inductive Ans where
  | sat | unsat | unknown | garbage
  deriving DecidableEq, Repr

structure Job where
  hasTimeout : Bool     -- `timeout is not None`
  ignTerm : Bool        -- the process ignores SIGTERM
  popenFails : Bool     -- `Popen(...)` raises (e.g. FileNotFoundError)
  answer : Ans
  deriving DecidableEq, Repr

/-- static configuration: how many submitters (job `s` is submitted by submitter `s`) and shutdown callers -/
structure Cfg where
  nsub : Nat
  job : Nat → Job
  nsh : Nat
  wait : Nat → Bool

inductive Owner where
  | sub (s : Nat)
  | sh (k : Nat)
  deriving DecidableEq, Repr

/-- program counter of a submitter (`solve_low_level`: submit, then `future.result()`) -/
inductive SubPc where
  | start      -- current: about to read `_shutdown`; repaired: about to acquire `_lock`
  | preAcq     -- current only: read `_shutdown` = False, about to acquire `_lock`
  | inChk      -- repaired only: holds `_lock`, about to read `_shutdown`
  | inApp      -- holds `_lock`, about to `_futures.append`
  | inStart    -- holds `_lock`, about to `Thread(...).start()`
  | inRel      -- holds `_lock`, about to release (accepted)
  | rejRel     -- repaired only: holds `_lock`, ShutdownError in flight, about to release
  | accepted   -- submit returned; about to call `future.result()`
  | waiting    -- inside `Condition.wait`
  | done       -- `solve_low_level` finished (returned or raised what the future stored)
  | rejected   -- ShutdownError
  deriving DecidableEq, Repr

/-- program counter of the worker thread of a future -/
inductive WPc where
  | notStarted
  | sAcq       -- repaired only: about to acquire `_start_lock` and read `_cancel_requested`
  | popen      -- about to `Popen(...)` (repaired: holding `_start_lock`, flag read as False in the previous step)
  | comm       -- blocked in `communicate`
  | cMark      -- repaired only: `cancel()` in `finally`: about to take `_start_lock` and set the flag
  | cPoll      -- `cancel()` in `finally`: about to `poll()` (is_running)
  | cTerm      -- about to `terminate()`
  | cKill      -- about to `is_running()`/`kill()`
  | setRes     -- about to `set_result`
  | fin
  deriving DecidableEq, Repr

/-- program counter of a cancel task -/
inductive CPc where
  | absent
  | begin      -- pool task created, first instruction not executed yet
  | mark       -- repaired only: about to take `_start_lock` and set the flag
  | poll
  | term
  | kill
  | done
  deriving DecidableEq, Repr

/-- program counter of a shutdown caller -/
inductive ShPc where
  | start      -- about to `_shutdown.set()`
  | acq        -- wait=False: about to acquire `_lock`
  | snapT      -- wait=False: holds `_lock`, about to iterate `_futures` and create the cancel tasks
  | poolWait   -- wait=False: in `concurrent.futures.wait(cancel_tasks)`
  | rel        -- wait=False: about to release `_lock`
  | jSnap      -- wait=True, current: about to `list(self._futures)` (no lock)
  | jRes       -- wait=True, current: about to call `result()` of the head of `snap`
  | jWait      -- wait=True, current: inside `Condition.wait` for the head of `snap`
  | jAcq       -- wait=True, repaired: about to acquire `_lock`
  | jSnapL     -- wait=True, repaired: holds `_lock`, about to snapshot
  | jRel       -- wait=True, repaired: about to release `_lock`
  | jWaitAll   -- wait=True, repaired: in `concurrent.futures.wait(futures)`
  | ret        -- shutdown(wait=False) returned
  | jret       -- shutdown(wait=True) returned
  | raised     -- shutdown(wait=True) propagated a job's exception out of `_join` (current only)
  deriving DecidableEq, Repr

structure State where
  flag : Bool                 -- `_shutdown`
  lock : Option Owner         -- owner of `_lock`
  futs : List Nat             -- `_futures` (job ids in append order)
  sub : Nat → SubPc
  wpc : Nat → WPc
  proc : Nat → Proc
  exn : Nat → Exn
  results : Nat → Nat         -- number of `set_result` calls executed
  creq : Nat → Bool           -- repaired only: `_cancel_requested`
  sh : Nat → ShPc
  snap : Nat → List Nat       -- wait=False: futures that got a cancel task; wait=True: futures still to be joined
  task : Nat → Nat → CPc

def init : State where
  flag := false
  lock := none
  futs := []
  sub := fun _ => .start
  wpc := fun _ => .notStarted
  proc := fun _ => .none
  exn := fun _ => .none
  results := fun _ => 0
  creq := fun _ => false
  sh := fun _ => .start
  snap := fun _ => []
  task := fun _ _ => .absent

/-- point update -/
def upd {α : Type} (f : Nat → α) (i : Nat) (a : α) : Nat → α := fun j => if j = i then a else f j

@[simp] theorem upd_same {α : Type} (f : Nat → α) (i : Nat) (a : α) : upd f i a i = a := by simp [upd]
@[simp] theorem upd_other {α : Type} (f : Nat → α) (i j : Nat) (a : α) (h : j ≠ i) : upd f i a j = f j := by
  simp [upd, h]
theorem upd_apply {α : Type} (f : Nat → α) (i j : Nat) (a : α) : upd f i a j = if j = i then a else f j := rfl

def upd2 {α : Type} (f : Nat → Nat → α) (k i : Nat) (a : α) : Nat → Nat → α :=
  fun k' i' => if k' = k ∧ i' = i then a else f k' i'

theorem upd2_apply {α : Type} (f : Nat → Nat → α) (k i k' i' : Nat) (a : α) :
    upd2 f k i a k' i' = if k' = k ∧ i' = i then a else f k' i' := rfl

/-- a step label: which thread moves (for a worker blocked in `communicate`: whether the timeout fires) -/
inductive Label where
  | sub (s : Nat)
  | w (i : Nat) (timeout : Bool)
  | sh (k : Nat)
  | c (k i : Nat)
  | exit (i : Nat)          -- environment: process `i` terminates by itself
  deriving DecidableEq, Repr

/-- the instrumented primitive executed by a step (what the replay harness sees the thread parked at) -/
inductive Op where
  | flagRead | flagSet | lockAcq | lockRel | append | threadStart | result | cwait
  | slockAcq | popen | commRet | commTimeout | poll | term | kill | setres
  | snap | poolWait | cbegin | exit
  deriving DecidableEq, Repr

def finished (σ : State) (i : Nat) : Bool := σ.wpc i == .fin

/-! ### submitter -/

def subStep (v : Variant) (σ : State) (s : Nat) : Option (Op × State) :=
  match σ.sub s with
  | .start =>
    if v.submitLocked then
      if σ.lock = none then some (.lockAcq, { σ with lock := some (.sub s), sub := upd σ.sub s .inChk }) else none
    else
      some (.flagRead, { σ with sub := upd σ.sub s (if σ.flag then .rejected else .preAcq) })
  | .preAcq =>
    if σ.lock = none then some (.lockAcq, { σ with lock := some (.sub s), sub := upd σ.sub s .inApp }) else none
  | .inChk => some (.flagRead, { σ with sub := upd σ.sub s (if σ.flag then .rejRel else .inApp) })
  | .inApp => some (.append, { σ with futs := σ.futs ++ [s], sub := upd σ.sub s .inStart })
  | .inStart =>
    some (.threadStart, { σ with wpc := upd σ.wpc s (if v.cancelFlag then .sAcq else .popen),
                                   sub := upd σ.sub s .inRel })
  | .inRel => some (.lockRel, { σ with lock := none, sub := upd σ.sub s .accepted })
  | .rejRel => some (.lockRel, { σ with lock := none, sub := upd σ.sub s .rejected })
  | .accepted => some (.result, { σ with sub := upd σ.sub s (if finished σ s then .done else .waiting) })
  | .waiting => if finished σ s then some (.cwait, { σ with sub := upd σ.sub s .done }) else none
  | .done => none
  | .rejected => none

/-! ### `cancel()` — shared by the worker (`finally`) and the cancel tasks -/

/-- `terminate()`: on a live process SIGTERM (ignored or not); on a dead one `NoSuchProcess` (skips the kill loop) -/
def termProc (j : Job) (p : Proc) : Proc := if p = .running ∧ !j.ignTerm then .killed else p
def killProc (p : Proc) : Proc := if p = .running then .killed else p

/-! ### worker -/

def wStep (v : Variant) (c : Cfg) (σ : State) (i : Nat) (timeout : Bool) : Option (Op × State) :=
  match σ.wpc i with
  | .notStarted => none
  | .fin => none
  | .sAcq =>
    -- `with self._start_lock: if self._cancel_requested: raise ShutdownError()` — no `Popen`, lock released
    if timeout then none else
    if σ.creq i then some (.slockAcq, { σ with exn := upd σ.exn i .cancelled, wpc := upd σ.wpc i .setRes })
    else some (.slockAcq, { σ with wpc := upd σ.wpc i .popen })
  | .popen =>
    if timeout then none else
    if (c.job i).popenFails then
      some (.popen, { σ with exn := upd σ.exn i .other, wpc := upd σ.wpc i .setRes })
    else
      some (.popen, { σ with proc := upd σ.proc i .running, wpc := upd σ.wpc i .comm })
  | .comm =>
    if timeout then
      if σ.proc i = .running ∧ (c.job i).hasTimeout then
        some (.commTimeout, { σ with exn := upd σ.exn i .timeout,
                                       wpc := upd σ.wpc i (if v.cancelFlag then .cMark else .cPoll) })
      else none
    else
      if σ.proc i ≠ .running then
        some (.commRet, { σ with wpc := upd σ.wpc i (if v.cancelFlag then .cMark else .cPoll) })
      else none
  | .cMark => if timeout then none else some (.slockAcq, { σ with creq := upd σ.creq i true, wpc := upd σ.wpc i .cPoll })
  | .cPoll =>
    if timeout then none else
    some (.poll, { σ with wpc := upd σ.wpc i (if σ.proc i = .running then .cTerm else .setRes) })
  | .cTerm =>
    if timeout then none else
    some (.term, { σ with proc := upd σ.proc i (termProc (c.job i) (σ.proc i)),
                          wpc := upd σ.wpc i (if σ.proc i = .running then .cKill else .setRes) })
  | .cKill =>
    if timeout then none else
    some (.kill, { σ with proc := upd σ.proc i (killProc (σ.proc i)), wpc := upd σ.wpc i .setRes })
  | .setRes =>
    if timeout then none else
    some (.setres, { σ with results := upd σ.results i (σ.results i + 1), wpc := upd σ.wpc i .fin })

/-! ### cancel task `(k, i)` -/

def cStep (v : Variant) (c : Cfg) (σ : State) (k i : Nat) : Option (Op × State) :=
  match σ.task k i with
  | .absent => none
  | .done => none
  | .begin =>
    if v.cancelFlag then some (.cbegin, { σ with task := upd2 σ.task k i .mark })
    else some (.cbegin, { σ with task := upd2 σ.task k i (if σ.proc i = .none then .done else .poll) })
  | .mark =>
    -- `_start_lock` is held by the worker exactly between its `slockAcq` and its `popen`
    if σ.wpc i = .popen then none
    else some (.slockAcq, { σ with creq := upd σ.creq i true,
                                     task := upd2 σ.task k i (if σ.proc i = .none then .done else .poll) })
  | .poll => some (.poll, { σ with task := upd2 σ.task k i (if σ.proc i = .running then .term else .done) })
  | .term =>
    some (.term, { σ with proc := upd σ.proc i (termProc (c.job i) (σ.proc i)),
                          task := upd2 σ.task k i (if σ.proc i = .running then .kill else .done) })
  | .kill => some (.kill, { σ with proc := upd σ.proc i (killProc (σ.proc i)), task := upd2 σ.task k i .done })

/-! ### shutdown caller -/

/-- `_join` loop of the current code after the snapshot / after a `result()` that returned normally -/
def joinNext (todo : List Nat) : ShPc := if todo.isEmpty then .jret else .jRes

/-- what `future.result()` of a finished head does to the `_join` loop -/
def joinResume (σ : State) (k : Nat) (j : Nat) (rest : List Nat) : State :=
  if σ.exn j = .none then { σ with snap := upd σ.snap k rest, sh := upd σ.sh k (joinNext rest) }
  else { σ with sh := upd σ.sh k .raised }

def shStep (v : Variant) (c : Cfg) (σ : State) (k : Nat) : Option (Op × State) :=
  match σ.sh k with
  | .start =>
    some (.flagSet, { σ with flag := true,
                             sh := upd σ.sh k (if c.wait k then (if v.joinFixed then .jAcq else .jSnap) else .acq) })
  | .acq =>
    if σ.lock = none then some (.lockAcq, { σ with lock := some (.sh k), sh := upd σ.sh k .snapT }) else none
  | .snapT =>
    some (.snap, { σ with snap := upd σ.snap k σ.futs,
                          task := fun k' i' => if k' = k ∧ i' ∈ σ.futs then .begin else σ.task k' i',
                          sh := upd σ.sh k .poolWait })
  | .poolWait =>
    if (σ.snap k).all (fun i => σ.task k i == .done) then some (.poolWait, { σ with sh := upd σ.sh k .rel }) else none
  | .rel => some (.lockRel, { σ with lock := none, sh := upd σ.sh k .ret })
  | .jSnap => some (.snap, { σ with snap := upd σ.snap k σ.futs, sh := upd σ.sh k (joinNext σ.futs) })
  | .jRes =>
    match σ.snap k with
    | [] => none
    | j :: rest =>
      if finished σ j then some (.result, joinResume σ k j rest)
      else some (.result, { σ with sh := upd σ.sh k .jWait })
  | .jWait =>
    match σ.snap k with
    | [] => none
    | j :: rest => if finished σ j then some (.cwait, joinResume σ k j rest) else none
  | .jAcq =>
    if σ.lock = none then some (.lockAcq, { σ with lock := some (.sh k), sh := upd σ.sh k .jSnapL }) else none
  | .jSnapL => some (.snap, { σ with snap := upd σ.snap k σ.futs, sh := upd σ.sh k .jRel })
  | .jRel => some (.lockRel, { σ with lock := none, sh := upd σ.sh k .jWaitAll })
  | .jWaitAll =>
    if (σ.snap k).all (fun i => finished σ i) then some (.poolWait, { σ with sh := upd σ.sh k .jret }) else none
  | .ret => none
  | .jret => none
  | .raised => none

/-! ### the transition function -/

def stepOp (v : Variant) (c : Cfg) (σ : State) : Label → Option (Op × State)
  | .sub s => if s < c.nsub then subStep v σ s else none
  | .w i t => if i < c.nsub then wStep v c σ i t else none
  | .sh k => if k < c.nsh then shStep v c σ k else none
  | .c k i => if k < c.nsh ∧ i < c.nsub then cStep v c σ k i else none
  | .exit i =>
    if i < c.nsub ∧ σ.proc i = .running then some (.exit, { σ with proc := upd σ.proc i .exited }) else none

def step (v : Variant) (c : Cfg) (σ : State) (l : Label) : Option State := (stepOp v c σ l).map (·.2)

def enabled (v : Variant) (c : Cfg) (σ : State) (l : Label) : Bool := (stepOp v c σ l).isSome

/-- run a whole trace; `none` if some label is not enabled when its turn comes -/
def run (v : Variant) (c : Cfg) : State → List Label → Option State
  | σ, [] => some σ
  | σ, l :: ls => match step v c σ l with
    | some σ' => run v c σ' ls
    | none => none

/-- reachability: the theorems quantify over this (all configurations, all traces, no bound) -/
inductive Reach (v : Variant) (c : Cfg) : State → Prop where
  | init : Reach v c init
  | step {σ σ' : State} (l : Label) : Reach v c σ → step v c σ l = some σ' → Reach v c σ'

/-- `σ'` is reachable from `σ` -/
inductive Steps (v : Variant) (c : Cfg) : State → State → Prop where
  | refl (σ : State) : Steps v c σ σ
  | step {σ σ' σ'' : State} (l : Label) : Steps v c σ σ' → step v c σ' l = some σ'' → Steps v c σ σ''

/-! ### what `solve_low_level` returns for job `s` once its future is done -/

inductive Out where
  | sat | unsat | unknown | err      -- `SolverOutput.result`
  | raisedOther                      -- the stored exception propagates out of `solve_low_level`
  | raisedShutdown                   -- ShutdownError (rejected submit, or repaired code: cancelled before start)
  | pending
  deriving DecidableEq, Repr

/-- `future.result()` + `except TimeoutExpired` + `SolverOutput.from_result` (first line dispatch).
A process that was killed has produced no complete first line (simulated processes print on exit). -/
def lowLevel (j : Job) (e : Exn) (p : Proc) : Out :=
  match e with
  | .timeout => .unknown
  | .other => .raisedOther
  | .cancelled => .raisedShutdown
  | .none =>
    match p with
    | .exited =>
      match j.answer with
      | .sat => .sat
      | .unsat => .unsat
      | .unknown => .unknown
      | .garbage => .err
    | _ => .err

def outcome (c : Cfg) (σ : State) (s : Nat) : Out :=
  match σ.sub s with
  | .rejected => .raisedShutdown
  | .done => lowLevel (c.job s) (σ.exn s) (σ.proc s)
  | _ => .pending

/-! ### enumeration of schedules (delay bounding) for the harness -/

def range (n : Nat) : List Nat := List.range n

/-- every label that can ever be enabled in configuration `c`, in the round-robin order of the default scheduler -/
def allLabels (c : Cfg) : List Label :=
  (range c.nsub).map .sub ++ (range c.nsub).map (fun i => .w i false) ++ (range c.nsh).map .sh ++
  (range c.nsh).flatMap (fun k => (range c.nsub).map (fun i => .c k i)) ++
  (range c.nsub).map .exit ++ (range c.nsub).map (fun i => .w i true)

def enabledLabels (v : Variant) (c : Cfg) (σ : State) : List Label := (allLabels c).filter (enabled v c σ)

def sameThread : Label → Label → Bool
  | .sub a, .sub b => a == b
  | .w a _, .w b _ => a == b
  | .sh a, .sh b => a == b
  | .c a b, .c a' b' => a == a' && b == b'
  | .exit _, .exit _ => true
  | _, _ => false

/-- order in which the default (non-preemptive, round-robin) scheduler would try the labels: the thread that moved
last first, then the ones after it in `all`, wrapping around. `rot` rotates the base order. -/
def schedOrder (all : List Label) (rot : Nat) (last : Option Label) : List Label :=
  let base := all.rotateLeft (rot % (all.length + 1))
  match last with
  | none => base
  | some l =>
    match base.findIdx? (sameThread l) with
    | none => base
    | some i => base.rotateLeft i

/-- all maximal traces that deviate at most `delays` times (summed skip distance) from the default scheduler -/
def enumerate (v : Variant) (c : Cfg) (rot : Nat) : Nat → Nat → State → Option Label → List (List Label)
  | 0, _, _, _ => [[]]
  | fuel + 1, delays, σ, last =>
    let en := (schedOrder (allLabels c) rot last).filter (enabled v c σ)
    if en.isEmpty then [[]]
    else
      ((en.take (delays + 1)).zipIdx).flatMap fun (l, d) =>
        match step v c σ l with
        | some σ' => (enumerate v c rot fuel (delays - d) σ' (some l)).map (l :: ·)
        | none => []

/-! ### witnesses of the `_cex` theorems (replayed on the real code by the harness) -/

def defaultJob : Job := ⟨false, false, false, .garbage⟩

def mkCfg (jobs : List Job) (waits : List Bool) : Cfg :=
  { nsub := jobs.length, job := fun i => jobs.getD i defaultJob, nsh := waits.length, wait := fun k => waits.getD k false }

def plainJob : Job := ⟨false, false, false, .unsat⟩

/-- `submit` reads `_shutdown` (False), `shutdown(wait=False)` runs to completion, the submit goes on.
Valid for every variant with `submitLocked = false` (with the cancel flag the worker has one more step). -/
def cexSubmitCfg : Cfg := mkCfg [plainJob] [false]
def cexSubmit (v : Variant) : List Label :=
  [.sub 0, .sh 0, .sh 0, .sh 0, .sh 0, .sh 0, .sub 0, .sub 0, .sub 0, .sub 0, .w 0 false] ++
  (if v.cancelFlag then [.w 0 false] else [])

/-- the job is accepted, `shutdown(wait=False)` cancels it before the worker thread reached `Popen`.
Valid for every variant with `cancelFlag = false`. -/
def cexCancelCfg : Cfg := mkCfg [plainJob] [false]
def cexCancel : List Label :=
  [.sub 0, .sub 0, .sub 0, .sub 0, .sub 0, .sh 0, .sh 0, .sh 0, .c 0 0, .sh 0, .sh 0, .w 0 false]

/-- `shutdown(wait=True)`: job 0 failed to start, `_join` re-raises its exception while job 1 is still running.
Valid for every variant with `joinFixed = false`. -/
def cexJoinCfg : Cfg := mkCfg [⟨false, false, true, .unsat⟩, plainJob] [true]
def cexJoin (v : Variant) : List Label :=
  [.sub 0, .sub 0, .sub 0, .sub 0, .sub 0, .sub 1, .sub 1, .sub 1, .sub 1, .sub 1] ++
  (if v.cancelFlag then [.w 0 false, .w 0 false, .w 0 false, .w 1 false, .w 1 false]
   else [.w 0 false, .w 0 false, .w 1 false]) ++ [.sh 0, .sh 0, .sh 0]

/-- `shutdown(wait=True)` with repaired `submit` but the unlocked snapshot of the current `_join`.
Valid for every variant with `submitLocked = true`, `joinFixed = false`. -/
def cexJoinSnapCfg : Cfg := mkCfg [plainJob] [true]
def cexJoinSnap (v : Variant) : List Label :=
  [.sub 0, .sub 0, .sh 0, .sh 0, .sub 0, .sub 0, .sub 0, .w 0 false] ++ (if v.cancelFlag then [.w 0 false] else [])

/-- the witness schedule of a counterexample theorem for variant `v`, if `v` still has that defect -/
def witness (name : String) (v : Variant) : Option (Cfg × List Label) :=
  if name = "submit" then (if v.submitLocked then none else some (cexSubmitCfg, cexSubmit v))
  else if name = "cancel" then (if v.cancelFlag then none else some (cexCancelCfg, cexCancel))
  else if name = "join" then (if v.joinFixed then none else some (cexJoinCfg, cexJoin v))
  else if name = "joinsnap" then
    (if v.submitLocked && !v.joinFixed then some (cexJoinSnapCfg, cexJoinSnap v) else none)
  else none

/-! ### the two-step pipeline `solve_end_to_end` (solve.py): unsat-core shortcut, first job, refinement, second job -/

/-- what one solver job does -/
inductive Reply where
  | satValid      -- prints `sat` and a model without `f_evm_` symbols
  | satInvalid    -- prints `sat` and a model that mentions `f_evm_` (abstraction of mul/div: needs refinement)
  | unsat | unknown
  | hang          -- exceeds the time limit: TimeoutExpired, killed
  | crash         -- dies without a verdict line (non-zero exit, empty stdout)
  | garbage       -- first line is not sat/unsat/unknown
  | noStart       -- Popen itself fails: the exception propagates out of solve_low_level
  deriving DecidableEq, Repr

/-- `solve_low_level` for one job (`future.result()`, `except TimeoutExpired`, `SolverOutput.from_result`) -/
def classify : Reply → Out
  | .satValid => .sat
  | .satInvalid => .sat
  | .unsat => .unsat
  | .unknown => .unknown
  | .hang => .unknown
  | .crash => .err
  | .garbage => .err
  | .noStart => .raisedOther

/-- `solve_end_to_end`: `coreHit` = the query contains a known unsat core (no solver run); `isRefined` = the context is
already refined; `changes` = `refine` changes the query text. The second job runs iff the first one answered sat with
an invalid model, the context is not refined yet and refinement changes the query; then its classification is the result. -/
def pipeline (coreHit isRefined changes : Bool) (r1 r2 : Reply) : Out :=
  if coreHit then .unsat
  else if r1 = .satInvalid ∧ isRefined = false ∧ changes = true then classify r2
  else classify r1

/-- number of solver jobs `solve_end_to_end` starts -/
def pipelineJobs (coreHit isRefined changes : Bool) (r1 : Reply) : Nat :=
  if coreHit then 0 else if r1 = .satInvalid ∧ isRefined = false ∧ changes = true then 2 else 1

end HalmosVerif.Model.Popen
