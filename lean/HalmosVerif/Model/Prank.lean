/-
Model.Prank — what halmos does, branch for branch:

* cheatcodes.py `PrankResult`, `Prank` (`__bool__`, `lookup`, `prank`, `startPrank`, `stopPrank`);
* the five prank handlers of `hevm_cheat_code.handle` (a `False` result raises HalmosException: the path is stuck);
* sevm.py `Exec.resolve_prank`, its two consumption sites (`SEVM.call`: `resolve_prank(to)` for *every* CALL-family
  instruction, before the cheatcode / precompile / no-code dispatch; `SEVM.create`: `resolve_prank(con_addr(0))`), the
  per-frame record `CallContext.prank` (fresh `Prank()` for every new `CallContext`), the restoration
  `new_ex.context = deepcopy(ex.context)` in the callbacks (the parent's context as it was right after `resolve_prank`),
  a new transaction (`run_message`: fresh `CallContext`).  `create_branch` deep-copies the context: on an immutable value
  that is the identity, so a path's history is the list of its own operations (the harness checks that branches do not share
  the record);
* the state cheatcode handlers deal/store/load/fee/chainId/coinbase/difficulty/roll/warp/etch on an abstract network state;
* `create_generic` (label `halmos_<name>_<type>_<uid>_<NN>`, counter `cnts["symbol"]`) and every `create_*` encoder, as used by
  `halmos_cheat_code.handlers` and by the `vm.random*` branches of `hevm_cheat_code.handle`.

The alphabet of histories (`Op`, `CallKind`, `Obs`) is shared with Spec.Foundry.  Core Lean only.
-/
import HalmosVerif.Spec.Foundry
import HalmosVerif.Gen.Prank

namespace HalmosVerif.Model.Prank
open HalmosVerif.Spec.Foundry (Addr CallKind Op Obs StateCheat)
open HalmosVerif.Gen.Prank

/-! ### cheatcodes.py: PrankResult, Prank -/

structure PrankResult where
  sender : Option Addr := none
  origin : Option Addr := none
  deriving DecidableEq, Repr

/-- `PrankResult.__bool__` -/
def PrankResult.toBool (r : PrankResult) : Bool := r.sender.isSome || r.origin.isSome

def NO_PRANK : PrankResult := {}

structure Prank where
  active : PrankResult := NO_PRANK
  keep : Bool := false
  deriving DecidableEq, Repr

namespace Prank

/-- `Prank.__bool__` -/
def toBool (p : Prank) : Bool := p.active.toBool

/-- `stopPrank`: always succeeds -/
def stopPrank (_p : Prank) : Bool × Prank := (true, { active := NO_PRANK, keep := false })

/-- `lookup(to)`: result and the mutated record -/
def lookup (p : Prank) (to : Addr) : PrankResult × Prank :=
  if p.toBool && !(lookupExcluded.contains to) then
    let result := p.active
    if !p.keep then (result, (p.stopPrank).2) else (result, p)
  else (NO_PRANK, p)

/-- `prank(sender, origin=None, _keep=False)` -/
def prank (p : Prank) (sender : Addr) (origin : Option Addr := none) (keep : Bool := false) : Bool × Prank :=
  if p.active.toBool then (false, p)
  else (true, { active := { sender := some sender, origin := origin }, keep := keep })

/-- `startPrank(sender, origin=None)` -/
def startPrank (p : Prank) (sender : Addr) (origin : Option Addr := none) : Bool × Prank :=
  p.prank sender origin true

end Prank

/-! ### sevm.py: messages, contexts, the frame stack -/

structure Message where
  target : Addr
  caller : Addr
  origin : Addr
  deriving DecidableEq, Repr

structure CallContext where
  message : Message
  prank : Prank := {}            -- `field(default_factory=Prank)`
  deriving DecidableEq, Repr

/-- the running frame and, innermost first, the `ex.context` captured by each pending callback -/
structure Exec where
  context : CallContext
  callbacks : List CallContext := []
  deriving DecidableEq, Repr

structure State where
  ex : Option Exec := none       -- none: no transaction in progress
  obs : List Obs := []           -- the messages built by call/create, oldest first
  stuck : Bool := false          -- a HalmosException ended the path
  deriving DecidableEq, Repr

/-- `Exec.resolve_prank(to)`: (caller, origin) and the context with the possibly consumed prank -/
def resolvePrank (c : CallContext) (to : Addr) : (Addr × Addr) × CallContext :=
  let r := c.prank.lookup to
  let caller := match r.1.sender with | none => c.message.target | some s => s
  let origin := match r.1.origin with | none => c.message.origin | some o => o
  ((caller, origin), { c with prank := r.2 })

/-- the common tail of the four prank handlers: `if not result: raise HalmosException(...)` -/
def afterPrank (s : State) (x : Exec) (r : Bool × Prank) : State :=
  if r.1 then { s with ex := some { x with context := { x.context with prank := r.2 } } }
  else { s with stuck := true }

/-- one event while frame `x.context` is running -/
def stepExec (s : State) (x : Exec) : Op → State
  | .newTx .. => s           -- handled by `step`
  | .prank a => afterPrank s x (x.context.prank.prank a)
  | .prank2 a o => afterPrank s x (x.context.prank.prank a (some o))
  | .startPrank a => afterPrank s x (x.context.prank.startPrank a)
  | .startPrank2 a o => afterPrank s x (x.context.prank.startPrank a (some o))
  | .stopPrank => { s with ex := some { x with context := { x.context with prank := (x.context.prank.stopPrank).2 } } }
  | .call k to enters =>
    let c := x.context
    let r := resolvePrank c to
    let msg : Message := {
      target := match k with | .call | .staticcall => to | _ => c.message.target
      caller := match k with | .delegatecall => c.message.caller | _ => r.1.1
      origin := r.1.2 }
    let o : Obs := { to := to, self := msg.target, sender := msg.caller, origin := msg.origin }
    if cheatcodeAddresses.contains to || !enters then
      -- call_unknown: precompile / cheatcode / no code — no frame
      { s with ex := some { x with context := r.2 }, obs := s.obs ++ [o] }
    else
      { s with ex := some { context := { message := msg }, callbacks := r.2 :: x.callbacks }, obs := s.obs ++ [o] }
  | .create newAddr =>
    let r := resolvePrank x.context createLookupAddress
    let msg : Message := { target := newAddr, caller := r.1.1, origin := r.1.2 }
    { s with ex := some { context := { message := msg }, callbacks := r.2 :: x.callbacks },
             obs := s.obs ++ [{ to := newAddr, self := newAddr, sender := msg.caller, origin := msg.origin }] }
  | .ret =>
    match x.callbacks with
    | [] => { s with ex := none }
    | p :: ps => { s with ex := some { context := p, callbacks := ps } }

def step (s : State) (op : Op) : State :=
  if s.stuck then s else
  match op, s.ex with
  | .newTx sender origin to, _ =>
    { s with ex := some { context := { message := { target := to, caller := sender, origin := origin } } } }
  | _, none => s
  | op, some x => stepExec s x op

def run (s : State) (h : List Op) : State := h.foldl step s

/-! ### state cheatcodes (`hevm_cheat_code.handle`) on an abstract network state -/

def W : Nat := 2 ^ 256
def uint160 (x : Nat) : Nat := x % 2 ^ 160
def uint256 (x : Nat) : Nat := x % W

structure Block where
  basefee : Nat
  chainid : Nat
  coinbase : Nat
  difficulty : Nat
  number : Nat
  timestamp : Nat

structure Net where
  balance : Addr → Nat
  code : Addr → Option (List Nat)        -- `ex.code`: an account "exists" iff it has an entry
  storage : Addr → Option (Nat → Nat)    -- `ex.storage`
  block : Block

inductive CheatRes where
  | ok (n : Net) (ret : List Nat)
  | halmosError                            -- HalmosException: stuck path

def fupd {β} (f : Nat → β) (k : Nat) (v : β) : Nat → β := fun x => if x = k then v else f x

def Net.sload (n : Net) (a slot : Nat) : Nat :=
  match n.storage a with
  | some st => st slot
  | none => 0

def beBytes (len v : Nat) : List Nat := (List.range len).map fun i => (v / 2 ^ (8 * (len - 1 - i))) % 256

def hevmState (n : Net) : StateCheat → CheatRes
  | .deal who amount => .ok { n with balance := fupd n.balance (uint160 who) (uint256 amount) } []
  | .store who slot value =>
    match n.code (uint160 who) with
    | none => .halmosError      -- "vm.store() is not allowed for a nonexistent account"
    | some _ =>
      let st := (n.storage (uint160 who)).getD (fun _ => 0)
      .ok { n with storage := fupd n.storage (uint160 who) (some (fupd st (uint256 slot) (uint256 value))) } []
  | .etch who code =>
    let a := uint160 who
    .ok { n with code := fupd n.code a (some code),
                 storage := match n.storage a with                 -- setdefault: initialise, never clear
                            | some _ => n.storage
                            | none => fupd n.storage a (some fun _ => 0) } []
  | .warp t => .ok { n with block := { n.block with timestamp := uint256 t } } []
  | .roll b => .ok { n with block := { n.block with number := uint256 b } } []
  | .fee f => .ok { n with block := { n.block with basefee := uint256 f } } []
  | .chainId c => .ok { n with block := { n.block with chainid := uint256 c } } []
  | .coinbase a => .ok { n with block := { n.block with coinbase := uint160 a } } []
  | .difficulty d => .ok { n with block := { n.block with difficulty := uint256 d } } []

/-- `vm.load(who, slot)`: 0 for a nonexistent account -/
def hevmLoad (n : Net) (who slot : Nat) : Nat :=
  match n.code (uint160 who) with
  | none => 0
  | some _ => n.sload (uint160 who) (uint256 slot)

/-! ### create_generic and the create_* / random* encoders -/

/-- `f"{n:>02}"` -/
def pad2 (n : Nat) : List Char :=
  let d := Nat.toDigits 10 n
  List.replicate (2 - d.length) '0' ++ d

/-- `f"halmos_{var_name}_{type_name}_{uid()}_{ex.new_symbol_id():>02}"` -/
def label (name type uid : List Char) (n : Nat) : List Char :=
  "halmos_".toList ++ name ++ ['_'] ++ type ++ ['_'] ++ uid ++ ['_'] ++ pad2 n

def isSpace (c : Char) : Bool :=
  c == ' ' || c == '\t' || c == '\n' || c == '\r' || c.toNat == 0x0b || c.toNat == 0x0c ||
  (0x1c ≤ c.toNat && c.toNat ≤ 0x1f)

/-- `name_of`: `re.sub(r"\s+", "_", x)` (ASCII whitespace) -/
def nameOfAux (inSpace : Bool) : List Char → List Char
  | [] => []
  | c :: cs =>
    if isSpace c then (if inSpace then nameOfAux true cs else '_' :: nameOfAux true cs)
    else c :: nameOfAux false cs

def nameOf (x : List Char) : List Char := nameOfAux false x

structure Sym where
  label : List Char
  bits : Nat
  deriving DecidableEq, Repr

/-- `create_generic(ex, bits, var_name, type_name)` on the counter `cnts["symbol"]`: the new variable (none: the empty
    ByteVec returned for `bits = 0`) and the counter afterwards -/
def createGeneric (cnt bits : Nat) (name type uid : List Char) : Option Sym × Nat :=
  if bits = 0 then (none, cnt)
  else (some { label := label name type uid (cnt + 1), bits := bits }, cnt + 1)

/-- which encoder (the handler functions of cheatcodes.py) -/
inductive Enc where
  | uint (bits : Nat)            -- create_uint: createUint(uint256,string), randomUint(uint256)
  | uint256                      -- create_uint256
  | int (bits : Nat)             -- create_int
  | int256                       -- create_int256
  | bytes (n : Nat)              -- create_bytes: createBytes(uint256,string), randomBytes(uint256)
  | string (n : Nat)             -- create_string
  | bytes4 | bytes8 | bytes32    -- create_bytes4 / create_bytes8 / create_bytes32
  | address | bool               -- create_address / create_bool
  | uintMinMax (lo hi : Nat)     -- create_uint256_min_max
  deriving DecidableEq, Repr

/-- `uint256(x)` of a `bits`-wide term with value `v`: ZeroExt -/
def zext256 (bits v : Nat) : Nat := ((BitVec.ofNat bits v).setWidth 256).toNat
/-- `int256(x)`: `SignExt(256 - bits, x)` -/
def sext256 (bits v : Nat) : Nat := ((BitVec.ofNat bits v).signExtend 256).toNat

def natStr (n : Nat) : List Char := Nat.toDigits 10 n

inductive Created where
  /-- counter afterwards, the variable, the return data as a function of the variable's value, the path conditions -/
  | ok (cnt : Nat) (sym : Option Sym) (data : Nat → List Nat) (cond : Nat → Bool)
  | halmosError       -- HalmosException (stuck path)
  | crash             -- another Python exception escapes SEVM.run (bits = 0 reaches `uint256(ByteVec())` / `.size()`)

def always : Nat → Bool := fun _ => true

/-- `encode_tuple_bytes(symbolic_bytes)`: offset 32, length, data — no padding -/
def encodeTupleBytes (n : Nat) (payload : List Nat) : List Nat := beBytes 32 32 ++ beBytes 32 n ++ payload

def create (cnt : Nat) (name uid : List Char) : Enc → Created
  | .uint bits =>
    if bits > 256 then .halmosError
    else
      let g := createGeneric cnt bits name ("uint".toList ++ natStr bits) uid
      match g.1 with
      | none => .crash
      | some sy => .ok g.2 (some sy) (fun v => beBytes 32 (zext256 bits v)) always
  | .uint256 =>
    let g := createGeneric cnt 256 name "uint256".toList uid
    .ok g.2 g.1 (fun v => beBytes 32 (v % W)) always
  | .int bits =>
    if bits > 256 then .halmosError
    else
      let g := createGeneric cnt bits name ("int".toList ++ natStr bits) uid
      match g.1 with
      | none => .crash
      | some sy => .ok g.2 (some sy) (fun v => beBytes 32 (sext256 bits v)) always
  | .int256 =>
    let g := createGeneric cnt 256 name "int256".toList uid
    .ok g.2 g.1 (fun v => beBytes 32 (v % W)) always
  | .bytes n =>
    let g := createGeneric cnt (n * 8) name "bytes".toList uid
    .ok g.2 g.1 (fun v => encodeTupleBytes n (beBytes n v)) always
  | .string n =>
    let g := createGeneric cnt (n * 8) name "string".toList uid
    .ok g.2 g.1 (fun v => encodeTupleBytes n (beBytes n v)) always
  | .bytes4 =>
    let g := createGeneric cnt 32 name "bytes4".toList uid
    .ok g.2 g.1 (fun v => beBytes 4 v ++ List.replicate 28 0) always
  | .bytes8 =>
    let g := createGeneric cnt 64 name "bytes8".toList uid
    .ok g.2 g.1 (fun v => beBytes 8 v ++ List.replicate 24 0) always
  | .bytes32 =>
    let g := createGeneric cnt 256 name "bytes32".toList uid
    .ok g.2 g.1 (fun v => beBytes 32 (v % W)) always
  | .address =>
    let g := createGeneric cnt 160 name "address".toList uid
    .ok g.2 g.1 (fun v => beBytes 32 (zext256 160 v)) always
  | .bool =>
    let g := createGeneric cnt 1 name "bool".toList uid
    .ok g.2 g.1 (fun v => beBytes 32 (zext256 1 v)) always
  | .uintMinMax lo hi =>
    -- the symbol is created first; then `if min_value > max_value: raise HalmosException`
    let g := createGeneric cnt 256 name "uint256".toList uid
    if lo > hi then .halmosError
    else .ok g.2 g.1 (fun v => beBytes 32 (v % W)) (fun v => decide (lo ≤ v % W) && decide (v % W ≤ hi))

/-- the fixed variable names of the `vm.random*` branches -/
def randomName : Enc → String
  | .uint _ | .uint256 | .uintMinMax .. => "vmRandomUint"
  | .int _ | .int256 => "vmRandomInt"
  | .bytes _ => "vmRandomBytes"
  | .string _ => "vmRandomString"      -- no such cheatcode in halmos
  | .bytes4 => "vmRandomBytes4"
  | .bytes8 => "vmRandomBytes8"
  | .bytes32 => "vmRandomBytes32"      -- no such cheatcode in halmos
  | .address => "vmRandomAddress"
  | .bool => "vmRandomBool"

end HalmosVerif.Model.Prank
