/-
Model.Query — what `Path.to_smt2`, `solve.dump` and `solve.refine` do, at two levels.

* text level (executable, compared with the real functions by Driver/Query.lean):
  `refineText` = the `re.sub` calls of `refine` in source order (patterns and templates come from Gen.SolveTables),
  `dumpText` = the two file shapes written by `dump` (templates from Gen.SolveTables).
* structured level (what the theorems are about): an SMT-LIB script is a list of commands; declared functions are
  parameters of the interpretation, `define-fun` fixes them, assertions are opaque formulas over the interpretation.
  `printCmd` prints declarations/definitions the way z3's `to_smt2` / `refine`'s template do, which ties the two levels
  (`Props.C11.refine_text_commutes`).

Conditions of a path are an abstract type `α` with a meaning `den : α → Formula` and a z3 ast id `id : α → Nat`.
Core Lean only.
-/
import HalmosVerif.Model.Term
import HalmosVerif.Model.RegexLite
import HalmosVerif.Gen.SolveTables

namespace HalmosVerif.Model.Query
open HalmosVerif.Spec HalmosVerif.Model HalmosVerif.Model.Rx HalmosVerif.Gen.SolveTables

/-! ## text level -/

/-- `refine(query).smtlib` -/
def refineTextWith (rules : List Rule) (s : List Char) : List Char :=
  rules.foldl (fun acc r => sub r.pat r.tpl acc) s

def refineText (s : List Char) : List Char := refineTextWith refineRules s

/-- the `named_assertions` string of `dump` -/
def namedLines : List String → List Char
  | [] => []
  | i :: is => instPieces (fun v => if v = "id" then i.toList else []) dumpNamed ++ namedLines is

/-- the text `dump` writes -/
def dumpText (cache : Bool) (ids : List String) (smtlib : List Char) : List Char :=
  let env : String → List Char := fun v =>
    if v = "smtlib" then smtlib else if v = "named" then namedLines ids else []
  instPieces env (if cache then dumpCached else dumpPlain)

/-! ## structured level -/

abbrev Formula := Interp → Prop

/-- SMT-LIB operator names `refine` can splice into a definition -/
def smtOp (op : List Char) : Option BinOp :=
  if op = ['b', 'v', 'm', 'u', 'l'] then some .mul
  else if op = ['b', 'v', 'u', 'd', 'i', 'v'] then some .udiv
  else if op = ['b', 'v', 'u', 'r', 'e', 'm'] then some .urem
  else if op = ['b', 'v', 's', 'd', 'i', 'v'] then some .sdiv
  else if op = ['b', 'v', 's', 'r', 'e', 'm'] then some .srem
  else none

def smtName : BinOp → String
  | .mul => "bvmul" | .udiv => "bvudiv" | .urem => "bvurem" | .sdiv => "bvsdiv" | .srem => "bvsrem"
  | .add => "bvadd" | .sub => "bvsub" | .band => "bvand" | .bor => "bvor" | .bxor => "bvxor"
  | .shl => "bvshl" | .lshr => "bvlshr" | .ashr => "bvashr"

/-- meaning of a definition body at width `w` with `\1 := op` (SMT-LIB semantics of `op`: `BinOp.eval`) -/
def bodyEval (op : BinOp) (w x y : Nat) : Body → Nat
  | .x => x
  | .y => y
  | .zero => 0
  | .app a b => op.eval w (bodyEval op w x y a) (bodyEval op w x y b)
  | .iteEq a b t e => if bodyEval op w x y a = bodyEval op w x y b then bodyEval op w x y t else bodyEval op w x y e

/-- the exact EVM operation each abstraction stands for (division and remainder by zero = 0); widths other than 256
    occur for the ADDMOD/MULMOD encodings -/
def evmOp (op : BinOp) (w x y : Nat) : Nat :=
  match op with
  | .mul => (x * y) % 2 ^ w
  | .udiv => if y = 0 then 0 else x / y
  | .urem => if y = 0 then 0 else x % y
  | .sdiv => if y = 0 then 0 else ofInt w (Int.tdiv (toInt w x) (toInt w y))
  | .srem => if y = 0 then 0 else ofInt w (Int.tmod (toInt w x) (toInt w y))
  | o => o.eval w x y

inductive Cmd where
  | declareFun (name : String) (args : List Nat) (res : Nat)
  | defineFun (name : String) (w : Nat) (op : BinOp) (body : Body)
  | assert (f : Formula)
  | assertImp (p : String) (f : Formula)      -- `(assert (=> |p| c))`   (z3's rendering of assert_and_track)
  | assertNamed (p : String)                  -- `(assert (! |p| :named <p>))`

abbrev Script := List Cmd

def Cmd.holds (I : Interp) : Cmd → Prop
  | .declareFun _ _ _ => True
  | .defineFun name w op body => ∀ x y, x < 2 ^ w → y < 2 ^ w → I.uf2 name w x y = bodyEval op w x y body
  | .assert f => f I
  | .assertImp p f => I.bool p = true → f I
  | .assertNamed p => I.bool p = true

def Script.models (s : Script) (I : Interp) : Prop := ∀ c ∈ s, c.holds I
def Script.sat (s : Script) : Prop := ∃ I, s.models I

/-! ### refine on commands -/

def absName (op : List Char) (w : Nat) : List Char :=
  ['f', '_', 'e', 'v', 'm', '_'] ++ op ++ ['_'] ++ Nat.toDigits 10 w

/-- the first rule (source order) and alternative under which `name` is an abstraction of width `w` -/
def findOp : List Rule → String → Nat → Option (List Char × Body)
  | [], _, _ => none
  | r :: rs, name, w =>
    match r.ops.find? (fun op => name.toList == absName op w) with
    | some op => some (op, r.body)
    | none => findOp rs name w

def refineCmdWith (rules : List Rule) : Cmd → Cmd
  | .declareFun name args res =>
    if args = [res, res] then
      match findOp rules name res with
      | some (op, body) =>
        match smtOp op with
        | some bop => .defineFun name res bop body
        | none => .declareFun name args res
      | none => .declareFun name args res
    else .declareFun name args res
  | c => c

def refineCmd : Cmd → Cmd := refineCmdWith refineRules
def refineScript (s : Script) : Script := s.map refineCmd

/-- a declaration is *covered* when `refine` turns it into a definition -/
def covered (sym : String × List Nat × Nat) : Bool :=
  match refineCmd (.declareFun sym.1 sym.2.1 sym.2.2) with
  | .defineFun .. => true
  | _ => false

/-! ### printing declarations / definitions (z3 `to_smt2` layout; `refine`'s template layout) -/

/-- decimal digits of a width -/
def digits (w : Nat) : List Char := Nat.toDigits 10 w

/-- `(_ BitVec w)` -/
def sortStr (w : Nat) : List Char := ['(', '_', ' ', 'B', 'i', 't', 'V', 'e', 'c', ' '] ++ digits w ++ [')']

def smtNameC (op : BinOp) : List Char := (smtName op).toList

def printBody (op : List Char) (w : Nat) : Body → List Char
  | .x => ['x']
  | .y => ['y']
  | .zero => ['(', '_', ' ', 'b', 'v', '0', ' '] ++ digits w ++ [')']
  | .app a b => ['('] ++ op ++ [' '] ++ printBody op w a ++ [' '] ++ printBody op w b ++ [')']
  | .iteEq a b t e =>
    ['(', 'i', 't', 'e', ' ', '(', '=', ' '] ++ printBody op w a ++ [' '] ++ printBody op w b ++ [')', ' '] ++ printBody op w t ++ [' ']
      ++ printBody op w e ++ [')']

def joinSp : List (List Char) → List Char
  | [] => []
  | [a] => a
  | a :: as => a ++ [' '] ++ joinSp as

/-- the line z3's `to_smt2` prints for a declaration / the line `refine`'s template gives for a definition -/
def printCmd : Cmd → List Char
  | .declareFun name args res =>
    ['(', 'd', 'e', 'c', 'l', 'a', 'r', 'e', '-', 'f', 'u', 'n', ' '] ++ name.toList ++ [' ', '('] ++ joinSp (args.map sortStr) ++ [')', ' '] ++ sortStr res ++ [')']
  | .defineFun name w op body =>
    ['(', 'd', 'e', 'f', 'i', 'n', 'e', '-', 'f', 'u', 'n', ' '] ++ name.toList ++ [' ', '(', '(', 'x', ' '] ++ sortStr w ++ [')', ' ', '(', 'y', ' '] ++ sortStr w ++ [')', ')', ' ']
      ++ sortStr w ++ [' '] ++ printBody (smtNameC op) w body ++ [')']
  | _ => []

/-! ## paths -/

/-- the parts of `sevm.Path` that matter here: the insertion-ordered condition set, what the z3 solver was fed,
    and the slice computed after a transaction -/
structure Path (α : Type) where
  conditions : List α
  solver : List α
  sliced : Option (List Nat)

variable {α : Type}

/-- `Path.append` for an already simplified, non-`true` condition -/
def Path.append [DecidableEq α] (p : Path α) (c : α) : Path α :=
  if c ∈ p.conditions then p
  else { p with conditions := p.conditions ++ [c], solver := p.solver ++ [c] }

def Path.extend [DecidableEq α] (p : Path α) : List α → Path α
  | [] => p
  | c :: cs => (p.append c).extend cs

/-- `Path(mk_solver()).extend_path(parent)`: all conditions are kept; the solver gets only the sliced ones -/
def Path.extendPath (parent : Path α) : Path α :=
  { conditions := parent.conditions
    solver :=
      match parent.sliced with
      | none => parent.conditions
      | some sl => (parent.conditions.zipIdx.filter (fun ci => sl.contains ci.2)).map (·.1)
    sliced := none }

/-- `Path.to_smt2(args)`: one assertion per element of `conditions` (never of `solver`), tracked by the decimal
    rendering of its ast id under `--cache-solver`; and the id list -/
def toSmt2 (cache : Bool) (id : α → Nat) (den : α → Formula) (p : Path α) : Script × List String :=
  (p.conditions.map (fun c => if cache then Cmd.assertImp (toString (id c)) (den c) else Cmd.assert (den c)),
   p.conditions.map (fun c => toString (id c)))

/-- `dump`: under `--cache-solver` one named assertion per id is appended -/
def dumpScript (cache : Bool) (q : Script × List String) : Script :=
  if cache then q.1 ++ q.2.map Cmd.assertNamed else q.1

/-- set the given Boolean constants to true -/
def setTrue (I : Interp) (names : List String) : Interp :=
  { I with bool := fun n => if n ∈ names then true else I.bool n }

end HalmosVerif.Model.Query
