/-
Model.RegexBT — a small backtracking regular-expression matcher with Python `re` semantics for the constructs used by
`halmos_var_pattern` and `parse_unsat_core` in solve.py: character classes, literals, sequence, ordered alternation,
greedy `*` / `+` / `?` (with backtracking), capturing groups.  Continuation-passing, depth bounded by `fuel`
(callers give `4 * length + 200`, more than the deepest possible nesting for the patterns here).
Core Lean only.
-/
import HalmosVerif.Model.RegexLite

namespace HalmosVerif.Model.ReBT
open HalmosVerif.Model.Rx (stripPrefix)

inductive Re where
  | cls (p : Char → Bool)
  | lit (s : List Char)
  | seq (a b : Re)
  | alt (a b : Re)
  | star (a : Re)
  | opt (a : Re)
  | grp (n : Nat) (a : Re)

def Re.plus (a : Re) : Re := .seq a (.star a)
def Re.seqs : List Re → Re
  | [] => .lit []
  | [a] => a
  | a :: as => .seq a (Re.seqs as)

abbrev Caps := List (Nat × List Char)

def run {α : Type} : Nat → Re → List Char → Caps → (List Char → Caps → Option α) → Option α
  | 0, _, _, _, _ => none
  | _ + 1, .cls p, s, caps, k =>
    match s with
    | c :: cs => if p c then k cs caps else none
    | [] => none
  | _ + 1, .lit l, s, caps, k =>
    match stripPrefix l s with
    | some r => k r caps
    | none => none
  | f + 1, .seq a b, s, caps, k => run f a s caps (fun s' c' => run f b s' c' k)
  | f + 1, .alt a b, s, caps, k =>
    match run f a s caps k with
    | some r => some r
    | none => run f b s caps k
  | f + 1, .star a, s, caps, k =>
    match run f a s caps (fun s' c' => if s'.length < s.length then run f (.star a) s' c' k else none) with
    | some r => some r
    | none => k s caps
  | f + 1, .opt a, s, caps, k =>
    match run f a s caps k with
    | some r => some r
    | none => k s caps
  | f + 1, .grp n a, s, caps, k =>
    run f a s caps (fun s' c' => k s' ((n, s.take (s.length - s'.length)) :: c'.filter (fun e => e.1 != n)))

def fuelFor (s : List Char) : Nat := 4 * s.length + 200

/-- match at the head of `s`: captures and the rest -/
def matchAt (re : Re) (fuel : Nat) (s : List Char) : Option (Caps × List Char) :=
  run fuel re s [] (fun s' c => some (c, s'))

def group (caps : Caps) (n : Nat) : List Char := ((caps.find? (fun e => e.1 == n)).map (·.2)).getD []

/-- `re.search`: leftmost match -/
def search (re : Re) (fuel : Nat) : List Char → Option Caps
  | [] => (matchAt re fuel []).map (·.1)
  | c :: cs =>
    match matchAt re fuel (c :: cs) with
    | some (caps, _) => some caps
    | none => search re fuel cs

/-- `re.finditer`: leftmost non-overlapping matches (patterns here never match the empty string) -/
def findAll (re : Re) (fuel : Nat) : Nat → List Char → List Caps
  | 0, _ => []
  | _, [] => []
  | n + 1, c :: cs =>
    match matchAt re fuel (c :: cs) with
    | some (caps, rest) =>
      if rest.length < (c :: cs).length then caps :: findAll re fuel n rest else caps :: findAll re fuel n cs
    | none => findAll re fuel n cs

/-- Python `str.isspace` on the characters below U+0080 (what `\s` matches there) -/
def isWs (c : Char) : Bool :=
  c = ' ' || c = '\t' || c = '\n' || c = '\r' || c.toNat = 0x0b || c.toNat = 0x0c || (0x1c ≤ c.toNat && c.toNat ≤ 0x1f)

/-- `str.split()` -/
def splitWsGo (cur : List Char) : List Char → List (List Char)
  | [] => if cur.isEmpty then [] else [cur]
  | c :: cs =>
    if isWs c then (if cur.isEmpty then splitWsGo [] cs else cur :: splitWsGo [] cs)
    else splitWsGo (cur ++ [c]) cs

def splitWs (s : List Char) : List (List Char) := splitWsGo [] s

/-- `str.strip()` -/
def strip (s : List Char) : List Char := ((s.dropWhile isWs).reverse.dropWhile isWs).reverse

end HalmosVerif.Model.ReBT
