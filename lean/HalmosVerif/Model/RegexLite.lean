/-
Model.RegexLite — the fragment of Python `re` that `solve.refine` uses, as explicit functions on `List Char`:
a pattern is a sequence of literals, a capturing alternation of literals, a capturing `[0-9]+`, and back-references.
`sub` is `re.sub` for such a pattern: leftmost, non-overlapping matches, each replaced by the instantiated template.

The greedy reading of `([0-9]+)` without backtracking is exact because the extractor only admits patterns in which the
group is followed by a literal that starts with a non-digit (tools/extract/solve_tables.py: parse_rx), and alternatives
of which none is a prefix of another.

Literals are explicit `List Char` (the kernel evaluates `String.toList` of a literal slowly).
Also the template pieces of `dump` (`Piece`) and the body of the `define-fun` written by `refine` (`Body`).
Core Lean only.
-/
namespace HalmosVerif.Model.Rx

inductive Item where
  | lit (s : List Char)
  | alt (xs : List (List Char))     -- capturing
  | digits                     -- capturing `([0-9]+)`
  | backref (n : Nat)          -- `\n`, 1-based
  deriving Repr, DecidableEq

inductive Tpl where
  | lit (s : List Char)
  | grp (n : Nat)
  deriving Repr, DecidableEq

/-- pieces of an f-string template of `dump` -/
inductive Piece where
  | lit (s : List Char)
  | var (name : String)
  deriving Repr, DecidableEq

/-- body of the function definition `refine` writes; `app` is the application of the captured operator `\1` -/
inductive Body where
  | x | y | zero
  | app (a b : Body)
  | iteEq (a b t e : Body)     -- `(ite (= a b) t e)`
  deriving Repr, DecidableEq

structure Rule where
  pat : List Item
  tpl : List Tpl
  ops : List (List Char)
  body : Body
  deriving Repr

/-- `some rest` when `p` is a prefix of `s` -/
def stripPrefix : List Char → List Char → Option (List Char)
  | [], s => some s
  | _ :: _, [] => none
  | p :: ps, c :: cs => if p = c then stripPrefix ps cs else none

/-- longest prefix of ASCII digits, and the rest -/
def spanDigits : List Char → List Char × List Char
  | [] => ([], [])
  | c :: cs => if c.isDigit then let r := spanDigits cs; (c :: r.1, r.2) else ([], c :: cs)

def firstAlt : List (List Char) → List Char → Option (List Char × List Char)
  | [], _ => none
  | a :: as, s =>
    match stripPrefix a s with
    | some rest => some (a, rest)
    | none => firstAlt as s

/-- match the items at the head of `s`; returns the captures (in group order) and the rest -/
def matchItems : List Item → List (List Char) → List Char → Option (List (List Char) × List Char)
  | [], caps, s => some (caps, s)
  | .lit l :: is, caps, s =>
    match stripPrefix l s with
    | some rest => matchItems is caps rest
    | none => none
  | .alt xs :: is, caps, s =>
    match firstAlt xs s with
    | some (a, rest) => matchItems is (caps ++ [a]) rest
    | none => none
  | .digits :: is, caps, s =>
    match spanDigits s with
    | ([], _) => none
    | (d, rest) => matchItems is (caps ++ [d]) rest
  | .backref n :: is, caps, s =>
    match caps[n - 1]? with
    | some g =>
      (match stripPrefix g s with
       | some rest => matchItems is caps rest
       | none => none)
    | none => none

def instTpl (caps : List (List Char)) : List Tpl → List Char
  | [] => []
  | .lit s :: ts => s ++ instTpl caps ts
  | .grp n :: ts => (caps[n - 1]?).getD [] ++ instTpl caps ts

/-- `re.sub(pat, tpl, s)`; `fuel` bounds the number of steps (`s.length + 1` always suffices: every step consumes a character) -/
def subAux (pat : List Item) (tpl : List Tpl) : Nat → List Char → List Char
  | 0, s => s
  | fuel + 1, s =>
    match matchItems pat [] s with
    | some (caps, rest) =>
      -- (patterns here never match the empty string: they start with a non-empty literal)
      instTpl caps tpl ++ (if rest.length < s.length then subAux pat tpl fuel rest else rest)
    | none =>
      match s with
      | [] => []
      | c :: cs => c :: subAux pat tpl fuel cs

def sub (pat : List Item) (tpl : List Tpl) (s : List Char) : List Char := subAux pat tpl (s.length + 1) s

/-- `needle in s` -/
def isInfix (needle : List Char) : List Char → Bool
  | [] => needle.isEmpty
  | c :: cs => (stripPrefix needle (c :: cs)).isSome || isInfix needle cs

def instPieces (env : String → List Char) : List Piece → List Char
  | [] => []
  | .lit s :: ps => s ++ instPieces env ps
  | .var v :: ps => env v ++ instPieces env ps

end HalmosVerif.Model.Rx
