/-
Model.Sevm — executable model of the exploration core of `SEVM.run` (sevm.py): the worklist, the per-step
dispatch for the *core* instruction set, `Exec.check` (quick checks + solver oracle), `SEVM.jumpi` with the
`potential_* / must_*` logic, visit counters and the loop bound, the `--depth` cut, and the end states.

Core instruction set (stage 1): STOP, the 25 word instructions (through `execWord`, Model.BitVecOps),
POP, PUSH0..PUSH32, DUP1..16, SWAP1..16, JUMPDEST, PC, JUMP, JUMPI, CALLDATALOAD, CALLDATASIZE, CALLER,
CALLVALUE, ORIGIN, ADDRESS, INVALID, MLOAD / MSTORE / MSTORE8 / CALLDATACOPY / CODECOPY with concrete offsets and
sizes, SLOAD / SSTORE / TLOAD / TSTORE on literal slots below 2^64 (non-symbolic initial storage), and RETURN/REVERT
with concrete
offset and size (the end state carries the returned byte terms). Every other opcode ends the path
as *stuck* (which the engine reports as an error, never as a normal outcome) — so the theorems about this model
are statements for all programs, and are informative for the programs over the core set.

Path conditions are added as `Path.append` does (`addCond`: re-simplify, skip `true` and duplicates, feed
`Concretization.process_cond`), and `calldataload` replaces a loaded variable by the literal the path binds it to
(`SState.subst`). Approximations, all on the safe side (the model says *stuck* where the code may go on): `int_of`'s
`substitute(x, substitution)` for symbolic JUMPI targets / offsets / sizes; the generalized-calldata size candidates;
PUSH32 of the empty-keccak constant (the code also appends constraints about the hash function); the `match_dynamic_array_overflow_condition`
quick check (needs hash terms, which the core cannot build).

The code under execution is concrete (symbolic code regions are C19's subject). Core Lean only.
-/
import HalmosVerif.Model.BitVecOps
import HalmosVerif.Spec.Evm
import HalmosVerif.Spec.Keccak

namespace HalmosVerif.Model.Sevm
open HalmosVerif.Spec HalmosVerif.Model

deriving instance DecidableEq for T, B
deriving instance DecidableEq for Evm.Halt

inductive Verdict where
  | sat | unsat | unknown
  deriving DecidableEq, Repr, Inhabited

/-- engine options that reach the core -/
structure Cfg where
  loop : Nat := 2
  depth : Nat := 0                 -- `--depth`: 0 = unlimited, else the maximal number of steps of the whole run
  word : WordCfg := {}
  maxMem : Nat := 2 ^ 20           -- `MAX_MEMORY_SIZE` (constants.py)
  balances : Bool := false         -- Model.SevmCalls: BALANCE / SELFBALANCE / value-bearing calls are followed (else stuck)
  balZero : Bool := false          -- the initial balance array is `balance_00` (read as the literal 0), else `balance_0`
  sha3 : Bool := false             -- Model.SevmCalls: SHA3 is followed (else stuck)
  keccak : List Nat → Nat := Keccak.keccak256   -- the hash of concrete data (`sha3_hash`)
  create : Bool := false           -- Model.SevmCalls: CREATE is followed (else stuck)
  hsto : Bool := false             -- Model.SevmCalls: SLOAD / SSTORE at mapping / dynamic-array locations are followed (else stuck)
  allocBase : Nat := 0xaaaa0001    -- `magic_address + new_address_offset`: attempt `n` (from 1) gets `allocBase + n`

/-- the symbolic transaction: what CALLER, CALLVALUE, … push, and the calldata read as 32-byte words -/
structure Env where
  caller : T
  origin : T
  callvalue : T
  address : T
  cd : Nat → T                     -- `calldata.get_word(offset)` for a concrete offset
  cdByte : Nat → T                 -- byte `i` of the calldata as an 8-bit term (zero beyond its end)
  cdSize : Nat
  isStatic : Bool := false         -- `message.is_static`: fixed for the frame

abbrev JumpId := Nat × List Nat    -- (pc, jump-destination tokens on the stack)

structure SState where
  pc : Nat
  stack : List HV                  -- top first
  path : List B                    -- path conditions, oldest first
  visits : List (JumpId × (Nat × Nat)) := []   -- per jump id: (taken, not taken) counts on this path
  subst : List (T × T) := []       -- `path.concretization.substitution`: term ↦ literal, newest binding first
  mem : List T := []               -- memory as a flat array of byte terms (width 8), zero beyond its end
  storage : List (Nat × T) := []   -- plain slots of the executing account written so far: slot ↦ 256-bit term, newest first
  transient : List (Nat × T) := [] -- the same for transient storage
  returndata : List T := []        -- output of the last message call of this frame (byte terms); empty before any call

inductive StuckReason where
  | notConcrete | unsupported (op : Nat) | internal (e : PyErr)
  deriving Repr, DecidableEq

inductive Out where
  | halt (h : Evm.Halt)            -- an EVM outcome: success / revert / exceptional halt
  | stuck (r : StuckReason)        -- HalmosException: reported as an error for the test, not as an EVM outcome
  deriving DecidableEq

/-- where an end state came from; `jumpiInvalidSym` marks the one site whose result is not a faithful EVM outcome
    (InvalidJumpDest raised for a JUMPI whose condition is symbolic: both branches are lost in the current code) -/
inductive Tag where
  | normal | jumpiInvalidSym
  | memLimit     -- OutOfGasError raised by a `MAX_MEMORY_SIZE` check: the limit is a modelling parameter, not EVM behaviour
  | stackLimit   -- the model's own: more than 1024 stack items (the code has no stack limit and would go on)
  | errKind      -- an exceptional halt whose *kind* is not the EVM's: LOG in a static frame with too few operands
                 -- (the code checks `is_static` before it pops; the EVM validates the stack first)
  | staticValue  -- the model's own stop at a value-bearing CALL in a static frame (known finding: the code lets it
                 -- succeed and moves the balance — `TODO: revert if context is static`; the EVM fails the frame)
  deriving DecidableEq, Repr

structure EndState where
  st : SState
  out : Out
  tag : Tag := .normal
  data : List T := []              -- return / revert data: byte terms (the `data` of `out = .halt (.success _)` stays [])

structure Result where
  ends : List EndState := []
  boundedLoops : List JumpId := []   -- `SEVM.logs.bounded_loops`
  depthCut : Bool := false           -- the `--depth` warning was emitted
  outOfFuel : Bool := false          -- the model's own fuel ran out (the real loop has no such bound)

/-- the solver behind `Path.check`: only its `unsat` answers are trusted -/
abbrev Oracle := List B → B → Verdict

/-- `Exec.check(cond)`: simplify, quick checks, then the solver -/
def exCheck (s : Simp) (o : Oracle) (path : List B) (c : B) : Verdict :=
  let c' := s.b c
  match c' with
  | .lit true => .sat
  | .lit false => .unsat
  | _ =>
    if c' ∈ path then .sat
    else if s.b (.not c') ∈ path then .unsat
    else o path c'

/-- `Concretization.process_cond(cond)`: an equality between a term and a bit-vector literal binds the term -/
def procCond (sub : List (T × T)) (c : B) : List (T × T) :=
  match c with
  | .cmp .eq l (.lit w n) => (l, .lit w n) :: sub      -- is_bv_value(right): substitution[left] = right
  | .cmp .eq (.lit w n) r => (r, .lit w n) :: sub      -- is_bv_value(left): substitution[right] = left
  | _ => sub

/-- `Path.append(cond)`: simplify; skip `true` and conditions already present; record the condition and let the
    concretization look at it -/
def addCond (s : Simp) (st : SState) (c : B) : SState :=
  let c' := s.b c
  if c' = .lit true then st
  else if c' ∈ st.path then st
  else { st with path := st.path ++ [c'], subst := procCond st.subst c' }

/-- `substitution.get(term)` -/
def substGet (sub : List (T × T)) (t : T) : Option T :=
  (sub.find? (fun p => p.1 == t)).map (·.2)

/-! ### memory: a flat zero-extended array of byte terms (the flat specification `Spec.Bytes`, which `ByteVec` refines
for every history of writes, slices and reads: Props.C07 `history_refines`) -/

def zeroByte : T := .lit 8 0

/-- read `n` bytes from `off`, zero beyond the end (`memory.slice` / `get_word`) -/
def readMem (m : List T) (off n : Nat) : List T :=
  (List.range n).map fun i => (m[off + i]?).getD zeroByte

/-- write `data` at `off`, zero-filling any gap (`set_slice` / `set_word` / `set_byte`) -/
def writeMem (m : List T) (off : Nat) (data : List T) : List T :=
  if data.isEmpty then m
  else
    let m' := if m.length < off + data.length then m ++ List.replicate (off + data.length - m.length) zeroByte else m
    m'.take off ++ data ++ m'.drop (off + data.length)

/-- the 32 bytes of a 256-bit word, most significant first -/
def wordBytes : Rep → List T
  | .con n => (List.range 32).map fun i => .lit 8 ((n / 2 ^ (8 * (31 - i))) % 256)
  | .sym t => (List.range 32).map fun i => .extract (8 * (31 - i) + 7) (8 * (31 - i)) t

def litByte? : T → Option Nat
  | .lit 8 b => some b
  | _ => none

def concatBytes : List T → T
  | [] => .lit 256 0
  | b :: rest => rest.foldl (fun acc x => .concat acc x) b

/-- `unbox_int(slice.unwrap())` pushed with `push_any`: an int when every byte is concrete, else the concatenation -/
def litBytes? : List T → Option (List Nat)
  | [] => some []
  | b :: rest =>
    match litByte? b, litBytes? rest with
    | some n, some ns => some (n :: ns)
    | _, _ => none

def bytesWord (s : Simp) (bs : List T) : HV :=
  match litBytes? bs with
  | some ns => .bv 256 (.con (Evm.bytesToNat ns))
  | none => mkBV s (.term (concatBytes bs)) 256

def opAt (code : List Nat) (pc : Nat) : Nat := (code[pc]?).getD 0x00   -- implicit STOP beyond the end

def wordOpOf : Nat → Option WordOp
  | 0x01 => some .ADD | 0x02 => some .MUL | 0x03 => some .SUB | 0x04 => some .DIV | 0x05 => some .SDIV
  | 0x06 => some .MOD | 0x07 => some .SMOD | 0x08 => some .ADDMOD | 0x09 => some .MULMOD | 0x0a => some .EXP
  | 0x0b => some .SIGNEXTEND | 0x10 => some .LT | 0x11 => some .GT | 0x12 => some .SLT | 0x13 => some .SGT
  | 0x14 => some .EQ | 0x15 => some .ISZERO | 0x16 => some .AND | 0x17 => some .OR | 0x18 => some .XOR
  | 0x19 => some .NOT | 0x1a => some .BYTE | 0x1b => some .SHL | 0x1c => some .SHR | 0x1d => some .SAR
  | _ => none

def wordArity : WordOp → Nat
  | .ISZERO | .NOT => 1
  | .ADDMOD | .MULMOD => 3
  | _ => 2

/-- `ex.jumpid()` -/
def jumpId (code : List Nat) (st : SState) : JumpId :=
  (st.pc, st.stack.filterMap fun v =>
    match v with
    | .bv _ (.con n) => if (Evm.validJumpdests code).contains n then some n else none
    | _ => none)

def lookupVisits (vs : List (JumpId × (Nat × Nat))) (j : JumpId) : Nat × Nat :=
  match vs.find? (fun p => p.1 == j) with
  | some p => p.2
  | none => (0, 0)

def setVisits (vs : List (JumpId × (Nat × Nat))) (j : JumpId) (v : Nat × Nat) : List (JumpId × (Nat × Nat)) :=
  (j, v) :: vs.filter (fun p => !(p.1 == j))

/-- result of one dispatch step of the worklist loop -/
structure StepOut where
  next : List SState := []         -- successors pushed on the worklist (the last pushed is popped first)
  ends : List EndState := []
  bounded : List JumpId := []

def stuckOut (st : SState) (r : StuckReason) : StepOut := { ends := [{ st, out := .stuck r }] }
def haltOut (st : SState) (h : Evm.Halt) (tag : Tag := .normal) (data : List T := []) : StepOut :=
  { ends := [{ st, out := .halt h, tag, data }] }
def contOut (st : SState) : StepOut := { next := [st] }

/-- `SEVM.jumpi` for a condition that is neither the literal true nor the literal false -/
def jumpi (s : Simp) (o : Oracle) (cfg : Cfg) (code : List Nat) (st : SState) (target : Nat) (cond : B)
    (nextPc : Nat) : StepOut :=
  -- `st` is the state with the two operands already popped, still at the JUMPI's pc
  let condTrue := s.b cond
  let condFalse := s.b (.not condTrue)
  let checkTrue := exCheck s o st.path condTrue
  let checkFalse := exCheck s o st.path condFalse
  let potentialTrue := checkTrue ≠ .unsat
  let potentialFalse := checkFalse ≠ .unsat
  let mustTrue := checkTrue = .sat ∧ checkFalse = .unsat
  let mustFalse := checkTrue = .unsat ∧ checkFalse = .sat
  let isSymbolic := ¬ (mustTrue ∨ mustFalse)
  let jid := jumpId code st
  let visited := lookupVisits st.visits jid
  let followTrue := if isSymbolic then potentialTrue ∧ visited.1 < cfg.loop else potentialTrue
  let followFalse := if isSymbolic then potentialFalse ∧ visited.2 < cfg.loop else potentialFalse
  let limitTrue := isSymbolic ∧ potentialTrue ∧ ¬ followTrue
  let limitFalse := isSymbolic ∧ potentialFalse ∧ ¬ followFalse
  let bounded := if limitTrue ∨ limitFalse then [jid] else []
  if followTrue ∧ ¬ (Evm.validJumpdests code).contains target then
    -- raise InvalidJumpDestError: halts the *whole* state, before the false branch is queued
    { haltOut st .invalidJump .jumpiInvalidSym with bounded }
  else
    let stTrue : List SState :=
      if followTrue then
        -- both followed: `create_branch(ex, cond_true, target)` starts the new path *at* the JUMPDEST (one more step,
        -- which counts for `--depth`); only the true branch: `ex.advance(pc=target + 1)` skips it
        [addCond s { st with pc := if followFalse then target else target + 1,
                             visits := if isSymbolic then setVisits st.visits jid (visited.1 + 1, visited.2) else st.visits }
                 condTrue]
      else []
    let stFalse : List SState :=
      if followFalse then
        [addCond s { st with pc := nextPc,
                             visits := if isSymbolic then setVisits st.visits jid (visited.1, visited.2 + 1) else st.visits }
                 condFalse]
      else []
    { next := stTrue ++ stFalse, bounded }

/-- `storage[addr][slot, 0, 0]` of a non-symbolic storage: the term last stored, `Z3_ZERO` for an untouched slot -/
def stoGet (σ : List (Nat × T)) (slot : Nat) : T :=
  ((σ.find? (fun kv => kv.1 == slot)).map (·.2)).getD (.lit 256 0)

/-- the tail of CALLDATACOPY / CODECOPY once the three operands are concrete: nothing for an empty range, the
    `MAX_MEMORY_SIZE` checks of `calldata_slice` / `Contract.slice` / `set_mslice`, then the write -/
def copyToMemOut (cfg : Cfg) (st : SState) (rest : List HV) (loc size : Nat) (byteAt : Nat → T) : StepOut :=
  if size = 0 then contOut { st with pc := st.pc + 1, stack := rest }
  else if loc + size > cfg.maxMem then haltOut st .outOfGas .memLimit
  else contOut { st with pc := st.pc + 1, stack := rest, mem := writeMem st.mem loc ((List.range size).map byteAt) }

/-- `push_any(v)` for a term of at most 256 bits (addresses are zero-extended) -/
def pushTerm (s : Simp) (st : SState) (t : T) : SState :=
  { st with pc := st.pc + 1, stack := mkBV s (.term t) 256 :: st.stack }

/-- one iteration of the `while` loop body of `SEVM.run` on the state `st` -/
def step (s : Simp) (o : Oracle) (cfg : Cfg) (env : Env) (code : List Nat) (st : SState) : StepOut :=
  let op := opAt code st.pc
  match wordOpOf op with
  | some wop =>
    let n := wordArity wop
    if st.stack.length < n then
      -- SIGNEXTEND concretises its size operand (`int_of(popi())`) before popping the second operand
      match wop, st.stack with
      | .SIGNEXTEND, [v] =>
        match toBV256 s v with
        | .bv _ (.con _) => haltOut st .stackUnderflow
        | _ => stuckOut st .notConcrete
      | _, _ => haltOut st .stackUnderflow
    else
      match execWord s cfg.word wop (st.stack.take n) with
      | .ok (r, aux) =>
        -- `SEVM.arith` appends its side constraints with `ex.path.append`
        contOut (aux.foldl (addCond s) { st with pc := st.pc + 1, stack := r :: st.stack.drop n })
      | .error .notConcrete => stuckOut st .notConcrete
      | .error e => stuckOut st (.internal e)
  | none =>
    if op = 0x00 then haltOut st (.success [])
    else if op = 0xfe then haltOut st .invalidOpcode
    else if op = 0x5b then contOut { st with pc := st.pc + 1 }
    else if op = 0x50 then
      match st.stack with
      | _ :: rest => contOut { st with pc := st.pc + 1, stack := rest }
      | [] => haltOut st .stackUnderflow
    else if op = 0x5f then contOut { st with pc := st.pc + 1, stack := .bv 256 (.con 0) :: st.stack }
    else if Evm.isPush op then
      let n := Evm.pushLen op
      let v := Evm.bytesToNat (Evm.readBytes code (st.pc + 1) n)
      contOut { st with pc := st.pc + 1 + n, stack := .bv 256 (.con v) :: st.stack }
    else if 0x80 ≤ op ∧ op ≤ 0x8f then
      match st.stack[op - 0x80]? with
      | some v => contOut { st with pc := st.pc + 1, stack := v :: st.stack }
      | none => haltOut st .stackUnderflow
    else if 0x90 ≤ op ∧ op ≤ 0x9f then
      let n := op - 0x8f
      match st.stack, st.stack[n]? with
      | a :: _, some b => contOut { st with pc := st.pc + 1, stack := (st.stack.set 0 b).set n a }
      | _, _ => haltOut st .stackUnderflow
    else if op = 0x58 then contOut { st with pc := st.pc + 1, stack := .bv 256 (.con (st.pc % 2 ^ 256)) :: st.stack }
    else if op = 0x33 then contOut (pushTerm s st env.caller)
    else if op = 0x34 then contOut (pushTerm s st env.callvalue)
    else if op = 0x32 then contOut (pushTerm s st env.origin)
    else if op = 0x30 then contOut (pushTerm s st env.address)
    else if op = 0x36 then contOut { st with pc := st.pc + 1, stack := .bv 256 (.con (env.cdSize % 2 ^ 256)) :: st.stack }
    else if op = 0x38 then contOut { st with pc := st.pc + 1, stack := .bv 256 (.con (code.length % 2 ^ 256)) :: st.stack }
    else if op = 0x35 then
      match st.stack with
      | v :: rest =>
        match toBV256 s v with
        | .bv _ (.con off) =>
          -- `is_expr_var(loaded)`: a calldata word that is a plain variable is replaced by the literal the path binds it to
          let loaded := env.cd off
          let loaded' := match loaded with
            | .var _ _ => (substGet st.subst loaded).getD loaded
            | _ => loaded
          contOut { st with pc := st.pc + 1, stack := mkBV s (.term loaded') 256 :: rest }
        | _ => stuckOut st .notConcrete
      | [] => haltOut st .stackUnderflow
    else if op = 0x56 then
      match st.stack with
      | v :: rest =>
        match v with
        | .bv _ (.con dst) =>
          if (Evm.validJumpdests code).contains dst then contOut { st with pc := dst + 1, stack := rest }
          else haltOut st .invalidJump
        | .bool (.con b) =>
          let dst := if b then 1 else 0
          if (Evm.validJumpdests code).contains dst then contOut { st with pc := dst + 1, stack := rest }
          else haltOut st .invalidJump
        | _ => stuckOut st .notConcrete        -- symbolic JUMP target with --symbolic-jump off
      | [] => haltOut st .stackUnderflow
    else if op = 0x57 then
      -- `target = int_of(pop())` comes first: a symbolic target is NotConcreteError even when the condition is missing
      match st.stack with
      | [] => haltOut st .stackUnderflow
      | tv :: rest0 =>
        match toBV256 s tv with
        | .bv _ (.con target) =>
          match rest0 with
          | [] => haltOut st .stackUnderflow
          | cv :: rest =>
          let st' := { st with stack := rest }
          let cond : Except PyErr HV :=
            match cv with
            | .bv _ r => bvIsNonZero s r
            | .bool r => .ok (.bool r)
          match cond with
          | .ok (.bool (.con true)) =>
            if (Evm.validJumpdests code).contains target then contOut { st' with pc := target + 1 }
            else haltOut st' .invalidJump
          | .ok (.bool (.con false)) => contOut { st' with pc := st.pc + 1 }
          | .ok (.bool (.sym c)) => jumpi s o cfg code st' target c (st.pc + 1)
          | .ok (.bv _ _) => stuckOut st (.internal .typeError)
          | .error e => stuckOut st (.internal e)
        | _ => stuckOut st .notConcrete        -- symbolic JUMPI target
    else if op = 0xf3 ∨ op = 0xfd then
      -- `ret()`: `loc = mloc(check_size=False)`, `size = int_of(popi())`, then `mslice(loc, size)`
      match st.stack with
      | [] => haltOut st .stackUnderflow
      | ov :: rest0 =>
        match toBV256 s ov with
        | .bv _ (.con loc) =>
          match rest0 with
          | [] => haltOut st .stackUnderflow
          | sv :: _ =>
            match toBV256 s sv with
            | .bv _ (.con size) =>
              let h : Evm.Halt := if op = 0xf3 then .success [] else .revert []
              if size = 0 then haltOut st h
              else if loc + size > cfg.maxMem then haltOut st .outOfGas .memLimit
              else haltOut st h .normal (readMem st.mem loc size)
            | _ => stuckOut st .notConcrete
        | _ => stuckOut st .notConcrete
    else if op = 0x51 ∨ op = 0x52 ∨ op = 0x53 then
      -- MLOAD / MSTORE / MSTORE8: `loc = mloc(check_size=True)` first (symbolic: NotConcreteError; beyond the limit:
      -- OutOfGasError), then the value operand
      match st.stack with
      | [] => haltOut st .stackUnderflow
      | lv :: rest0 =>
        match toBV256 s lv with
        | .bv _ (.con loc) =>
          if loc > cfg.maxMem then haltOut st .outOfGas .memLimit
          else if op = 0x51 then
            contOut { st with pc := st.pc + 1, stack := bytesWord s (readMem st.mem loc 32) :: rest0 }
          else
            match rest0 with
            | [] => haltOut st .stackUnderflow
            | v :: rest =>
              if op = 0x52 then
                match toBV256 s v with            -- `val = popi()`; `memory.set_word(loc, val)`
                | .bv _ r => contOut { st with pc := st.pc + 1, stack := rest, mem := writeMem st.mem loc (wordBytes r) }
                | .bool _ => stuckOut st (.internal .typeError)
              else
                match reBV s v 8 with             -- `memory.set_byte(loc, uint8(val))`
                | .bv _ r => contOut { st with pc := st.pc + 1, stack := rest, mem := writeMem st.mem loc [asZ3 8 r] }
                | .bool _ => stuckOut st (.internal .typeError)
        | _ => stuckOut st .notConcrete
    else if op = 0x37 then
      -- CALLDATACOPY: `loc = mloc(check_size=False)`, `offset = int_of(pop())`, `size = int_of(pop())`
      match st.stack with
      | [] => haltOut st .stackUnderflow
      | lv :: r1 =>
        match toBV256 s lv with
        | .bv _ (.con loc) =>
          match r1 with
          | [] => haltOut st .stackUnderflow
          | ov :: r2 =>
            match toBV256 s ov with
            | .bv _ (.con off) =>
              match r2 with
              | [] => haltOut st .stackUnderflow
              | sv :: rest =>
                match toBV256 s sv with
                | .bv _ (.con size) =>
                  copyToMemOut cfg st rest loc size (fun i => env.cdByte (off + i))
                | _ => stuckOut st .notConcrete
            | _ => stuckOut st .notConcrete
        | _ => stuckOut st .notConcrete
    else if op = 0x39 then
      -- CODECOPY: `loc = mloc(check_size=False)`, `offset = popi()`, `size = int_of(pop())`; a symbolic offset with a
      -- non-empty range makes the code introduce a fresh symbol (outside the core)
      match st.stack with
      | [] => haltOut st .stackUnderflow
      | lv :: r1 =>
        match toBV256 s lv with
        | .bv _ (.con loc) =>
          match r1 with
          | [] => haltOut st .stackUnderflow
          | ov :: r2 =>
            match r2 with
            | [] => haltOut st .stackUnderflow
            | sv :: rest =>
              match toBV256 s sv with
              | .bv _ (.con size) =>
                if size = 0 then contOut { st with pc := st.pc + 1, stack := rest }
                else
                  match toBV256 s ov with
                  | .bv _ (.con off) =>
                    copyToMemOut cfg st rest loc size (fun i => .lit 8 ((code[off + i]?).getD 0))
                  | _ => stuckOut st (.unsupported op)
              | _ => stuckOut st .notConcrete
        | _ => stuckOut st .notConcrete
    else if op = 0x3d then
      contOut { st with pc := st.pc + 1, stack := .bv 256 (.con (st.returndata.length % 2 ^ 256)) :: st.stack }
    else if op = 0x3e then
      -- RETURNDATACOPY: `loc = mloc(check_size=False)`, `offset = int_of(pop())`, `size = int_of(pop())`; the bounds check of
      -- EIP-211 applies even to an empty range
      match st.stack with
      | [] => haltOut st .stackUnderflow
      | lv :: r1 =>
        match toBV256 s lv with
        | .bv _ (.con loc) =>
          match r1 with
          | [] => haltOut st .stackUnderflow
          | ov :: r2 =>
            match toBV256 s ov with
            | .bv _ (.con off) =>
              match r2 with
              | [] => haltOut st .stackUnderflow
              | sv :: rest =>
                match toBV256 s sv with
                | .bv _ (.con size) =>
                  if off + size > st.returndata.length then haltOut st .outOfBoundsRead
                  else copyToMemOut cfg st rest loc size (fun i => (st.returndata[off + i]?).getD zeroByte)
                | _ => stuckOut st .notConcrete
            | _ => stuckOut st .notConcrete
        | _ => stuckOut st .notConcrete
    else if op = 0x54 ∨ op = 0x5c then
      -- SLOAD / TLOAD of a plain slot of the executing account (`SolidityStorage.load`, scalar case: the slot is a
      -- literal that is not a registered hash). A symbolic slot: `int_of` raises NotConcreteError. Slots from 2^64 on
      -- are left outside the core (a literal may be a known hash, which the code decodes as an array access).
      match st.stack with
      | [] => haltOut st .stackUnderflow
      | kv :: rest =>
        match toBV256 s kv with
        | .bv _ (.con slot) =>
          if slot < 2 ^ 64 then
            contOut { st with pc := st.pc + 1,
                              stack := mkBV s (.term (stoGet (if op = 0x54 then st.storage else st.transient) slot)) 256 :: rest }
          else stuckOut st (.unsupported op)
        | _ => stuckOut st .notConcrete
    else if op = 0x55 ∨ op = 0x5d then
      -- SSTORE / TSTORE: both operands are popped, then `is_static` is checked (WriteInStaticContext), then the slot
      -- is decoded
      match st.stack with
      | kv :: v :: rest =>
        if env.isStatic then haltOut st .writeInStatic
        else
          match toBV256 s kv with
          | .bv _ (.con slot) =>
            if slot < 2 ^ 64 then
              match toBV256 s v with
              | .bv _ r =>
                if op = 0x55 then
                  contOut { st with pc := st.pc + 1, stack := rest, storage := (slot, asZ3 256 r) :: st.storage }
                else
                  contOut { st with pc := st.pc + 1, stack := rest, transient := (slot, asZ3 256 r) :: st.transient }
              | .bool _ => stuckOut st (.internal .typeError)
            else stuckOut st (.unsupported op)
          | _ => stuckOut st .notConcrete
      | _ => haltOut st .stackUnderflow
    else stuckOut st (.unsupported op)

/-- `step` behind the one check the code does not have: the EVM's limit of 1024 stack items. Beyond it the model ends
    the path with an end state tagged `stackLimit` (about which nothing is claimed) instead of following the code. -/
def stepL (s : Simp) (o : Oracle) (cfg : Cfg) (env : Env) (code : List Nat) (st : SState) : StepOut :=
  if st.stack.length > 1024 then haltOut st .stackOverflow .stackLimit
  else step s o cfg env code st

/-- the worklist loop. `steps` is `step_id`, counted over the whole run as in the code. -/
def explore (s : Simp) (o : Oracle) (cfg : Cfg) (env : Env) (code : List Nat) :
    Nat → Nat → List SState → Result → Result
  | _, _, [], acc => acc
  | 0, _, _ :: _, acc => { acc with outOfFuel := true }
  | fuel + 1, steps, st :: wl, acc =>
    let steps' := steps + 1
    if cfg.depth ≠ 0 ∧ steps' > cfg.depth then
      -- warn(...); continue: the state is dropped
      explore s o cfg env code fuel steps' wl { acc with depthCut := true }
    else
      let out := stepL s o cfg env code st
      -- successors are pushed in order, so the last one is popped first
      explore s o cfg env code fuel steps' (out.next.reverse ++ wl)
        { acc with ends := acc.ends ++ out.ends, boundedLoops := acc.boundedLoops ++ out.bounded }

def run (s : Simp) (o : Oracle) (cfg : Cfg) (env : Env) (code : List Nat) (fuel : Nat) : Result :=
  explore s o cfg env code fuel 0 [{ pc := 0, stack := [], path := [] }] {}

end HalmosVerif.Model.Sevm
