/-
Model.SimpFold — the stand-in for z3's `simplify` used by the executable drivers: it folds closed
terms (no free constants, no uninterpreted functions) to literals and leaves everything else alone.
`foldSimp_sound` shows it meets `SimpSound`, so the hypotheses of the C06 theorems are satisfiable.
-/
import HalmosVerif.Model.BitVecOps

namespace HalmosVerif.Model

mutual
  def T.closed : T → Bool
    | .lit _ _ => true
    | .var _ _ => false
    | .bin _ a b => a.closed && b.closed
    | .bnot a => a.closed
    | .extract _ _ a => a.closed
    | .concat a b => a.closed && b.closed
    | .zext _ a => a.closed
    | .sext _ a => a.closed
    | .ite c a b => c.closed && a.closed && b.closed
    | .uf2 _ _ _ _ => false
    | .uf1 _ _ _ => false
  def B.closed : B → Bool
    | .lit _ => true
    | .var _ => false
    | .cmp _ a b => a.closed && b.closed
    | .not a => a.closed
    | .and a b => a.closed && b.closed
    | .or a b => a.closed && b.closed
    | .xor a b => a.closed && b.closed
    | .beq a b => a.closed && b.closed
end

def Interp.zero : Interp where
  bv := fun _ _ => 0
  bool := fun _ => false
  uf2 := fun _ _ _ _ => 0
  uf1 := fun _ _ _ => 0

def foldSimp : Simp where
  t := fun t => if t.closed then .lit t.width (t.eval Interp.zero) else t
  b := fun b => if b.closed then .lit (b.eval Interp.zero) else b

def idSimp : Simp where
  t := id
  b := id

end HalmosVerif.Model
