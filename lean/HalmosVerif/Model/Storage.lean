/-
Model.Storage — the storage model of /repo/src/halmos/sevm.py, branch for branch:

  * `LTerm`            location / key terms as they reach `decode` (z3 bit-vector terms, abstracted)
  * `decodeS`          `SolidityStorage.decode`  (sha3_512 / sha3_256 / packed-key sha3_n / bvadd with the
                       sort-by-length rule / literals through `KeccakRegistry.reverse_lookup`)
  * `decodeG`          `GenericStorage.decode` with `simpleHash`, `addAll`
  * `reverseLookup`    `KeccakRegistry.reverse_lookup` = local `OffsetMap`, then the precomputed `OffsetMap`
  * `SData`            `StorageData`: `symbolic` flag + cells keyed by `(slot, num_keys, size_keys)`
  * `initS/loadS/storeS`, `loadG/storeG`   `init` / `load` / `store` of both layouts (store chains); `slotOfHead`:
                       `int_of` with the path's concretization (`conc`)
  * `select`           `Exec.select` (a store is skipped only when `check(key == key0)` is `unsat`)
  * `freshTransient`, `runMessage`   transient storage is fresh in every transaction
  * `Flat`             the abstract flat storage `Nat → Nat`; the slot of a location term is its value `eval env ℓ`
                       under the real hash function `env.H`
  * `Loc`, `toTerm`, `flat`   the layout grammar (scalar, mapping, nested mapping, dynamic array, struct offsets,
                       packed keys, reordered additions) used by the theorems of Props/C08.lean

Parameters (assumed meaning-preserving, see Props/C08.lean): `norm` (`normalize`, and z3's `simplify` where the code
calls it on sub-terms it then keeps as keys).  Where the *shape* of a simplified term matters for control flow
(`Extract(511,256,args)` / `Extract(255,0,args)` of the argument of `f_sha3_512`) the model has `simpExtract`, which
does what z3 does on literals and on aligned concatenations and otherwise leaves an `extract` node.

The recursion of `decode` through `reverse_lookup` is not structural (the looked-up term is decoded again), so the
decoders take a fuel argument; `Err.fuel` is a model artefact, never produced with fuel > size of the registry chain.
Core Lean only.
-/
import HalmosVerif.Model.OffsetMap

namespace HalmosVerif.Model.Storage
open HalmosVerif.Model

/-- z3 bit-vector terms as far as the storage decoders look into them -/
inductive LTerm where
  | lit (w v : Nat)                  -- BitVecVal(v, w)
  | sym (w id : Nat)                 -- any other term of width w (free constant or opaque sub-term), identified by `id`
  | sha3 (arg : LTerm)               -- f_sha3_<width arg>(arg)
  | concat (args : List LTerm)       -- Concat(args…), first = most significant
  | add (args : List LTerm)          -- bvadd(args…)
  | extract (hi lo : Nat) (t : LTerm)
  | zext (w : Nat) (t : LTerm)       -- ZeroExt(w - width t, t): zero-extension *to* width w
  deriving Repr, Inhabited

mutual
  /-- structural equality of terms (z3's `eq`): a structural definition, so that its lawfulness is provable (the derived
  instance for a nested inductive is an opaque `partial def`) -/
  def LTerm.beq : LTerm → LTerm → Bool
    | .lit w v, .lit w' v' => w == w' && v == v'
    | .sym w i, .sym w' i' => w == w' && i == i'
    | .sha3 a, .sha3 b => a.beq b
    | .concat as, .concat bs => beqList as bs
    | .add as, .add bs => beqList as bs
    | .extract h l t, .extract h' l' t' => h == h' && l == l' && t.beq t'
    | .zext w t, .zext w' t' => w == w' && t.beq t'
    | _, _ => false
  def beqList : List LTerm → List LTerm → Bool
    | [], [] => true
    | a :: as, b :: bs => a.beq b && beqList as bs
    | _, _ => false
end

instance : BEq LTerm := ⟨LTerm.beq⟩

/-- values of free symbols, and the hash function: `H bits v` is the meaning of `f_sha3_<bits>(v)` -/
structure Env where
  sym : Nat → Nat
  H : Nat → Nat → Nat

mutual
  def LTerm.width : LTerm → Nat
    | .lit w _ => w
    | .sym w _ => w
    | .sha3 _ => 256
    | .concat args => widthSum args
    | .add args => widthHead args
    | .extract hi lo _ => hi + 1 - lo
    | .zext w _ => w
  def widthSum : List LTerm → Nat
    | [] => 0
    | t :: ts => t.width + widthSum ts
  def widthHead : List LTerm → Nat
    | [] => 0
    | t :: _ => t.width
end

mutual
  /-- SMT-LIB meaning of a term (a number below 2^width) -/
  def LTerm.eval (env : Env) : LTerm → Nat
    | .lit w v => v % 2 ^ w
    | .sym w id => env.sym id % 2 ^ w
    | .sha3 arg => env.H arg.width (arg.eval env) % 2 ^ 256
    | .concat args => evalConcat env args
    | .add args => evalSum env args % 2 ^ widthHead args
    | .extract hi lo t => (t.eval env / 2 ^ lo) % 2 ^ (hi + 1 - lo)
    | .zext _ t => t.eval env
  def evalConcat (env : Env) : List LTerm → Nat
    | [] => 0
    | t :: ts => t.eval env * 2 ^ widthSum ts + evalConcat env ts
  def evalSum (env : Env) : List LTerm → Nat
    | [] => 0
    | t :: ts => t.eval env + evalSum env ts
end

def zero256 : LTerm := .lit 256 0

/-- python `concat(args)` of utils.py: a single argument is returned as is -/
def mkConcat : List LTerm → LTerm
  | [t] => t
  | ts => .concat ts

/-- take the leading terms of total width exactly `n`; a literal is split when the boundary falls inside it (z3 merges
adjacent concrete bytes, e.g. the concrete tail of a partly symbolic key word with the slot word, and `simplify` splits the
numeral again); none if `n` falls inside any other operand -/
def takeWidth : Nat → List LTerm → Option (List LTerm × List LTerm)
  | 0, ts => some ([], ts)
  | _ + 1, [] => none
  | n + 1, t :: ts =>
    if t.width ≤ n + 1 then
      match takeWidth (n + 1 - t.width) ts with
      | some (a, b) => some (t :: a, b)
      | none => none
    else
      match t with
      | .lit w v => some ([.lit (n + 1) (v / 2 ^ (w - (n + 1)))], .lit (w - (n + 1)) (v % 2 ^ (w - (n + 1))) :: ts)
      | _ => none

/-- `simplify(Extract(hi, lo, t))` on the shapes that matter: literals, whole terms, aligned parts of a concatenation -/
def simpExtract (hi lo : Nat) (t : LTerm) : LTerm :=
  if lo = 0 ∧ hi + 1 = t.width then t else
  match t with
  | .lit _ v => .lit (hi + 1 - lo) ((v / 2 ^ lo) % 2 ^ (hi + 1 - lo))
  | .concat args =>
    -- bits [hi..lo] of the concatenation: skip `width - 1 - hi` bits from the top, then take `hi + 1 - lo`
    match takeWidth (widthSum args - 1 - hi) args with
    | some (_, rest) =>
      match takeWidth (hi + 1 - lo) rest with
      | some (mid, _) => if mid.isEmpty then .extract hi lo t else mkConcat mid
      | none => .extract hi lo t
    | none => .extract hi lo t
  | _ => .extract hi lo t

/-- what `normalize` does to the shape of a term (its `Concat(Extract(255,8,op(x,y)), op(Extract(7,0,x),Extract(7,0,y)))`
re-association is left to the parameter's meaning-preservation): a concatenation of n ≥ 2 operands is rebuilt with the
binary `concat` of utils.py, i.e. left-nested — so `Concat(pad, key, base)` becomes `Concat(Concat(pad, key), base)` and
the packed-key branch of `decode` sees two operands.  On the grammar terms of `Loc.toTerm` it is the identity. -/
def leftNest : List LTerm → LTerm
  | [] => .concat []
  | t :: ts => ts.foldl (fun acc x => .concat [acc, x]) t

def normalizeM : LTerm → LTerm
  | .concat args => if args.length ≥ 2 then leftNest args else .concat args
  | t => t

/-- NOT what the pinned code does: `normalizeM` that also splits a wide literal (a fully concrete hash preimage
`key ‖ base`, as it comes back from `reverse_lookup`) into `Concat(key, base)`, so that the packed-key branch of
`decodeS` applies.  It is the model of the repair proposed for the finding "packed key with concrete preimage is decoded
as a scalar"; the driver uses it only when the harness detects that repair in /repo. -/
def normalizeMSplit : LTerm → LTerm
  | .lit w v => if w > 256 ∧ w ≠ 512 then .concat [.lit (w - 256) (v / 2 ^ 256), .lit 256 (v % 2 ^ 256)] else .lit w v
  | t => normalizeM t

/-- NOT what the pinned code does: the model of the repair proposed for the generic-layout finding "concrete key bytes fused
with a hashed base word are not decoded like the unfused spelling": in a hash preimage a trailing literal wider than 256 bits
(a fully concrete preimage, or the concrete tail of a key followed by a concrete base word) is split into `key part ‖ base
word`, so that `decodeG` decodes the base word on its own.  Used by the driver only when the harness detects that repair. -/
def normalizeGSplit : LTerm → LTerm
  | .lit w v => if w > 256 ∧ w ≠ 512 then .concat [.lit (w - 256) (v / 2 ^ 256), .lit 256 (v % 2 ^ 256)] else .lit w v
  | .concat args =>
    match args.getLast? with
    | some (.lit w v) =>
      if w > 256 then .concat (args.dropLast ++ [.lit (w - 256) (v / 2 ^ 256), .lit 256 (v % 2 ^ 256)])
      else normalizeM (.concat args)
    | _ => normalizeM (.concat args)
  | t => normalizeM t

/-! ### KeccakRegistry.reverse_lookup -/

/-- `expr + delta if delta else expr` (a negative delta becomes the two's-complement literal, as z3 does) -/
def withDelta (expr : LTerm) (delta : Int) : LTerm :=
  if delta = 0 then expr else .add [expr, .lit 256 (delta % (2 ^ 256 : Int)).toNat]

/-- `KeccakRegistry.reverse_lookup`: the local registry first, then the precomputed one.  `fixed` selects the corrected
`OffsetMap.lookupFixed` (not what the pinned code does; used when /repo carries the fix). -/
def reverseLookup (fixed : Bool) (loc pre : OffsetMap LTerm) (v : Nat) : Option LTerm :=
  let look := fun (m : OffsetMap LTerm) => if fixed then m.lookupFixed v else m.lookup v
  match look loc with
  | some (e, d) => some (withDelta e d)
  | none =>
    match look pre with
    | some (e, d) => some (withDelta e d)
    | none => none

/-! ### SolidityStorage.decode -/

inductive Err where
  | valueError      -- `raise ValueError(loc)` (the path becomes stuck → ERROR: fail-safe)
  | symbolicSlot    -- `int_of(offsets[0], "symbolic storage base slot")` failed
  | fuel            -- model artefact
  deriving Repr, BEq, DecidableEq

/-- stable insertion by decreasing length: python `sorted(…, key=len, reverse=True)` keeps the original order of
operands of equal length -/
def insertByLen (x : List LTerm) : List (List LTerm) → List (List LTerm)
  | [] => [x]
  | y :: ys => if y.length < x.length then x :: y :: ys else y :: insertByLen x ys

def sortByLenDesc (xs : List (List LTerm)) : List (List LTerm) :=
  xs.foldl (fun acc x => insertByLen x acc) []

/-- `reduce(lambda r, x: r + x[0], args[1:], args[0][-1])` -/
def sumOffsets (last : LTerm) (rest : List (List LTerm)) : LTerm :=
  rest.foldl (fun r x => .add [r, x.headD zero256]) last

def mapMExcept {α β : Type} (f : α → Except Err β) : List α → Except Err (List β)
  | [] => .ok []
  | a :: as =>
    match f a with
    | .error e => .error e
    | .ok b =>
      match mapMExcept f as with
      | .error e => .error e
      | .ok bs => .ok (b :: bs)

def decodeS (rl : Nat → Option LTerm) (norm : LTerm → LTerm) : Nat → LTerm → Except Err (List LTerm)
  | 0, _ => .error .fuel
  | fuel + 1, loc0 =>
    let loc := norm loc0
    match loc with
    | .sha3 arg =>
      if arg.width = 512 then
        -- m[k] : hash(k.m)
        let offset := simpExtract 511 256 arg
        let base := simpExtract 255 0 arg
        match decodeS rl norm fuel base with
        | .error e => .error e
        | .ok b => .ok (b ++ [offset, zero256])
      else if arg.width = 256 then
        -- a[i] : hash(a) + i
        match decodeS rl norm fuel arg with
        | .error e => .error e
        | .ok b => .ok (b ++ [zero256])
      else
        -- m[k] : hash(k.m) where |k| != 256-bit
        match norm arg with
        | .concat [offset, base] =>
          if offset.width ≠ 256 ∧ base.width = 256 then
            match decodeS rl norm fuel base with
            | .error e => .error e
            | .ok b => .ok (b ++ [offset, zero256])
          else .ok [loc]
        | _ => .ok [loc]
    | .add args =>
      if args.length < 2 then .error .valueError else
      match mapMExcept (decodeS rl norm fuel) args with
      | .error e => .error e
      | .ok ds =>
        match sortByLenDesc ds with
        | a0 :: a1 :: rest =>
          if a1.length > 1 then .error .valueError   -- hash(x) + hash(y): ambiguous
          else .ok (a0.dropLast ++ [sumOffsets (a0.getLastD zero256) (a1 :: rest)])
        | _ => .error .valueError
    | .lit _ v =>
      match rl v with
      | some orig => decodeS rl norm fuel orig
      | none => .ok [loc]
    | _ => .ok [loc]

/-- `bitsize(keys)`: `ValueError` when there are keys of total size 0 -/
def bitsize (keys : List LTerm) : Except Err Nat :=
  let size := widthSum keys
  if keys.length > 0 ∧ size = 0 then .error .valueError else .ok size

abbrev CellKey := Nat × Nat × Nat    -- (slot, num_keys, size_keys)

/-- `ex.int_of(offsets[0], "symbolic storage base slot")`: a literal, or a term that the path's concretization
(`path.concretization.substitution`: terms equated with a constant by a path condition, e.g. `f_sha3_264(<const>) == <hash>`
added by `sha3_data`, or a calldata word fixed by a branch) reduces to a constant — `conc`, a parameter assumed sound
(`conc t = some n → eval t = n` for every environment satisfying the path) -/
def slotOfHead (conc : LTerm → Option Nat) : LTerm → Option Nat
  | .lit _ v => some v
  | t => conc t

/-- `get_key_structure` -/
def keyStructure (conc : LTerm → Option Nat) (dec : LTerm → Except Err (List LTerm)) (loc : LTerm) :
    Except Err (CellKey × List LTerm) :=
  match dec loc with
  | .error e => .error e
  | .ok [] => .error .valueError
  | .ok (head :: keys) =>
    match slotOfHead conc head with
    | none => .error .symbolicSlot
    | some slot =>
      match bitsize keys with
      | .error e => .error e
      | .ok size => .ok ((slot, keys.length, size), keys)

/-! ### GenericStorage.decode -/

/-- `simple_hash`: `Concat(x, 0 : 257 bits)` -/
def simpleHash (x : LTerm) : LTerm := .concat [x, .lit 257 0]

def maxWidth : List LTerm → Nat
  | [] => 0
  | t :: ts => max t.width (maxWidth ts)

/-- `add_all`: zero-extend every operand to the widest and add, starting from 0 -/
def addAll (args : List LTerm) : LTerm :=
  let bits := maxWidth args
  .add (.lit bits 0 :: args.map fun x => if x.width < bits then .zext bits x else x)

def decodeG (rl : Nat → Option LTerm) (norm : LTerm → LTerm) : Nat → LTerm → Except Err LTerm
  | 0, _ => .error .fuel
  | fuel + 1, loc0 =>
    let loc := norm loc0
    match loc with
    | .sha3 arg =>
      if arg.width = 512 then
        match decodeG rl norm fuel (simpExtract 511 256 arg), decodeG rl norm fuel (simpExtract 255 0 arg) with
        | .ok hi, .ok lo => .ok (simpleHash (.concat [hi, lo]))
        | .error e, _ => .error e
        | _, .error e => .error e
      else
        match norm arg with
        | .concat as =>
          match mapMExcept (decodeG rl norm fuel) as with
          | .error e => .error e
          | .ok ds => .ok (simpleHash (mkConcat ds))
        | a =>
          match decodeG rl norm fuel a with
          | .error e => .error e
          | .ok d => .ok (simpleHash d)
    | .add args =>
      if args.length < 2 then .error .valueError else
      match mapMExcept (decodeG rl norm fuel) args with
      | .error e => .error e
      | .ok ds => .ok (addAll ds)
    | .lit _ v =>
      match rl v with
      | some orig => decodeG rl norm fuel orig
      | none => .ok loc
    | _ => .ok loc

/-! ### StorageData, store chains, Exec.select -/

/-- SMT arrays held in a cell: the named empty array of the cell, or a store on top of an older array (the code names
every store `storage_…_<n>` and records `name ↦ Store(old, key, val)` in `ex.storages`; the model keeps the chain) -/
inductive Arr (ν : Type) where
  | empty (c : CellKey)
  | store (a : Arr ν) (key : LTerm) (val : ν)
  deriving Inhabited

/-- what a load returns / what a scalar cell holds -/
inductive Res (ν : Type) where
  | val (v : ν)                          -- a stored value
  | zero                                 -- `Z3_ZERO` / `ZERO`
  | initSym (c : CellKey)                -- `BitVec("storage_<addr>_<slot>_0_0_00")` (symbolic storage)
  | select (a : Arr ν) (key : LTerm)     -- `Select(array, key)`
  deriving Inhabited

inductive Cell (ν : Type) where
  | scalar (r : Res ν)
  | array (a : Arr ν)
  deriving Inhabited

structure SData (ν : Type) where
  symbolic : Bool := false
  cells : List (CellKey × Cell ν) := []
  deriving Inhabited

namespace SData
variable {ν : Type}
def get? (s : SData ν) (c : CellKey) : Option (Cell ν) :=
  match s.cells.find? (fun e => e.1 == c) with
  | some e => some e.2
  | none => none
def set (s : SData ν) (c : CellKey) (x : Cell ν) : SData ν :=
  { s with cells := (c, x) :: s.cells.filter (fun e => !(e.1 == c)) }
end SData

/-- answer of `ex.check(cond)` as far as `select` uses it -/
inductive Tri where
  | ne        -- check(key == key0) = unsat
  | eq        -- check(key != key0) = unsat
  | unknown
  deriving DecidableEq, Repr

/-- `Exec.select(array, key, ex.storages, symbolic)` -/
def select {ν : Type} (chk : LTerm → LTerm → Tri) (symbolic : Bool) : Arr ν → LTerm → Res ν
  | .store base key0 val0, key =>
    if key == key0 then .val val0                    -- structural equality
    else match chk key key0 with
      | .ne => select chk symbolic base key          -- key != key0
      | .eq => .val val0                             -- key == key0
      | .unknown => .select (.store base key0 val0) key
  | .empty c, key =>
    if !symbolic then .zero else .select (.empty c) key

/-- `SolidityStorage.init` -/
def initS {ν : Type} (s : SData ν) (c : CellKey) : SData ν :=
  match s.get? c with
  | some _ => s
  | none =>
    if c.2.2 > 0 then s.set c (.array (.empty c))
    else s.set c (.scalar (if s.symbolic then .initSym c else .zero))

/-- `SolidityStorage.load`; returns the (possibly initialised) storage too -/
def loadS {ν : Type} (conc : LTerm → Option Nat) (dec : LTerm → Except Err (List LTerm)) (chk : LTerm → LTerm → Tri)
    (s : SData ν) (loc : LTerm) : Except Err (SData ν × Res ν) :=
  match keyStructure conc dec loc with
  | .error e => .error e
  | .ok (c, keys) =>
    let s := initS s c
    match s.get? c with
    | none => .error .valueError   -- unreachable after init
    | some chunk =>
      if c.2.1 = 0 then
        match chunk with
        | .scalar r => .ok (s, r)
        | .array a => .ok (s, .select a (mkConcat keys))   -- unreachable: cells with num_keys = 0 are scalars
      else
        match chunk with
        | .array a => .ok (s, select chk s.symbolic a (mkConcat keys))
        | .scalar r => .ok (s, r)                          -- unreachable

/-- `SolidityStorage.store` -/
def storeS {ν : Type} (conc : LTerm → Option Nat) (dec : LTerm → Except Err (List LTerm)) (s : SData ν) (loc : LTerm)
    (val : ν) : Except Err (SData ν) :=
  match keyStructure conc dec loc with
  | .error e => .error e
  | .ok (c, keys) =>
    let s := initS s c
    if c.2.1 = 0 then .ok (s.set c (.scalar (.val val)))
    else
      match s.get? c with
      | some (.array a) => .ok (s.set c (.array (.store a (mkConcat keys) val)))
      | _ => .error .valueError   -- unreachable

/-- generic layout: cells keyed by the bit size of the decoded location only -/
def gcell (size : Nat) : CellKey := (0, 0, size)

def loadG {ν : Type} (dec : LTerm → Except Err LTerm) (chk : LTerm → LTerm → Tri)
    (s : SData ν) (loc : LTerm) : Except Err (SData ν × Res ν) :=
  match dec loc with
  | .error e => .error e
  | .ok d =>
    let c := gcell d.width
    let s := match s.get? c with
      | some _ => s
      | none => s.set c (.array (.empty c))
    match s.get? c with
    | some (.array a) => .ok (s, select chk s.symbolic a d)
    | _ => .error .valueError

def storeG {ν : Type} (dec : LTerm → Except Err LTerm) (s : SData ν) (loc : LTerm) (val : ν) : Except Err (SData ν) :=
  match dec loc with
  | .error e => .error e
  | .ok d =>
    let c := gcell d.width
    let s := match s.get? c with
      | some _ => s
      | none => s.set c (.array (.empty c))
    match s.get? c with
    | some (.array a) => .ok (s.set c (.array (.store a d val)))
    | _ => .error .valueError

/-! ### meaning of results -/

/-- the initial contents of storage under an environment: `init c keyValue` is the value of the unconstrained initial
array / symbol of cell `c` (all zero unless the account's storage is symbolic: the emptiness axioms
`Select(empty, key) == 0` that `load` adds to the path) -/
abbrev Init := CellKey → Nat → Nat

def Arr.eval {ν : Type} (env : Env) (init : Init) (ev : ν → Nat) : Arr ν → Nat → Nat
  | .empty c, k => init c k
  | .store a key val, k => if key.eval env = k then ev val else a.eval env init ev k

def Res.eval {ν : Type} (env : Env) (init : Init) (ev : ν → Nat) : Res ν → Nat
  | .val v => ev v
  | .zero => 0
  | .initSym c => init c 0
  | .select a key => a.eval env init ev (key.eval env)

/-! ### transactions: transient storage -/

/-- the part of `Exec` that C08 talks about: per-account storage and transient storage -/
structure Accounts (ν : Type) where
  storage : List (Nat × SData ν)
  transient : List (Nat × SData ν)

/-- `SEVM.fresh_transient_storage`: `{addr: mk_storagedata() for addr in ex.transient_storage}` -/
def freshTransient {ν : Type} (a : Accounts ν) : List (Nat × SData ν) :=
  a.transient.map fun e => (e.1, {})

/-- `SEVM.run_message`: storage is carried over (deep copy), transient storage starts empty -/
def runMessage {ν : Type} (pre : Accounts ν) : Accounts ν :=
  { storage := pre.storage, transient := freshTransient pre }

/-! ### the abstract flat storage -/

abbrev Flat := Nat → Nat

def Flat.read (f : Flat) (slot : Nat) : Nat := f slot
def Flat.write (f : Flat) (slot v : Nat) : Flat := fun s => if s = slot then v else f s

/-! ### the layout grammar -/

/-- how the offset of a hashed location is written -/
inductive OffForm where
  | none     -- `hash`            (the offset is 0)
  | right    -- `hash + off`
  | left     -- `off + hash`
  deriving DecidableEq, Repr

/-- Solidity storage locations: a declared slot; an element of a mapping (`keccak(key ‖ base) + off`, key of any width:
256 bits for value-type keys, other widths for packed `bytes`/`string` keys); an element of a dynamic array
(`keccak(base) + off`).  `off` carries array indices and struct-member offsets; nesting gives nested mappings, arrays of
arrays, mappings of structs with array members, … -/
inductive Loc where
  | slot (n : Nat)
  | mapping (key : LTerm) (base : Loc) (off : LTerm) (form : OffForm)
  | array (base : Loc) (off : LTerm) (form : OffForm)
  deriving Repr

def withOff (h off : LTerm) : OffForm → LTerm
  | .none => h
  | .right => .add [h, off]
  | .left => .add [off, h]

/-- the location term the EVM program computes -/
def Loc.toTerm : Loc → LTerm
  | .slot n => .lit 256 n
  | .mapping key base off form => withOff (.sha3 (.concat [key, base.toTerm])) off form
  | .array base off form => withOff (.sha3 base.toTerm) off form

def offTerm (off : LTerm) : OffForm → LTerm
  | .none => zero256
  | _ => .add [zero256, off]

/-- what `SolidityStorage.decode` returns on `toTerm ℓ` (Lemmas/Storage.lean: `decodeS_toTerm`) -/
def Loc.flat : Loc → List LTerm
  | .slot n => [.lit 256 n]
  | .mapping key base off form => base.flat ++ [key, offTerm off form]
  | .array base off form => base.flat ++ [offTerm off form]

def Loc.depth : Loc → Nat
  | .slot _ => 1
  | .mapping _ base _ _ => base.depth + 2
  | .array base _ _ => base.depth + 2

/-- the shape of a location: which kind of hashing step at each level (with the key width for mappings) -/
inductive Step where
  | map (w : Nat)
  | arr
  deriving DecidableEq, Repr

def Loc.shape : Loc → List Step
  | .slot _ => []
  | .mapping key base _ _ => .map key.width :: base.shape
  | .array base _ _ => .arr :: base.shape

def Loc.root : Loc → Nat
  | .slot n => n
  | .mapping _ base _ _ => base.root
  | .array base _ _ => base.root

/-- value of the offset as the program computes it -/
def offVal (env : Env) (off : LTerm) : OffForm → Nat
  | .none => 0
  | _ => off.eval env

/-- the decoded location evaluated under `env`: the keys (innermost hashing step first) as (width, value) pairs -/
def Loc.dkeys (env : Env) : Loc → List (Nat × Nat)
  | .slot _ => []
  | .mapping key base off form => (256, offVal env off form) :: (key.width, key.eval env) :: base.dkeys env
  | .array base off form => (256, offVal env off form) :: base.dkeys env

/-- the concrete slot, computed by the flat EVM with the real hash function -/
def Loc.slotOf (env : Env) : Loc → Nat
  | .slot n => n
  | .mapping key base off form =>
    (env.H (key.width + 256) (key.eval env * 2 ^ 256 + base.slotOf env) % 2 ^ 256 + offVal env off form) % 2 ^ 256
  | .array base off form => (env.H 256 (base.slotOf env) % 2 ^ 256 + offVal env off form) % 2 ^ 256

end HalmosVerif.Model.Storage
