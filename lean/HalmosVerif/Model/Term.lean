/-
Model.Term — the fragment of z3's bit-vector / boolean term language that halmos emits, with its
SMT-LIB meaning (`evalT`, `evalB`) under an environment for free constants and an interpretation of
uninterpreted functions. `Interp.std` fixes halmos' arithmetic abstractions `f_evm_*` to the exact
EVM operation (by-zero = 0): "the standard interpretation" of properties C01/C02/C06.

Core Lean only.
-/
import HalmosVerif.Spec.Word

namespace HalmosVerif.Model
open HalmosVerif.Spec

inductive BinOp where
  | add | sub | mul | udiv | urem | sdiv | srem | band | bor | bxor | shl | lshr | ashr
  deriving DecidableEq, Repr, Inhabited

inductive CmpOp where
  | eq | ult | ule | ugt | uge | slt | sle | sgt | sge
  deriving DecidableEq, Repr, Inhabited

mutual
  /-- bit-vector terms -/
  inductive T where
    | lit (w n : Nat)                       -- BitVecVal(n, w)
    | var (name : String) (w : Nat)         -- BitVec(name, w)
    | bin (op : BinOp) (a b : T)
    | bnot (a : T)
    | extract (hi lo : Nat) (a : T)         -- Extract(hi, lo, a)
    | concat (a b : T)                      -- Concat(a, b): a is the high part
    | zext (k : Nat) (a : T)                -- ZeroExt(k, a)
    | sext (k : Nat) (a : T)                -- SignExt(k, a)
    | ite (c : B) (a b : T)                 -- If(c, a, b)
    | uf2 (name : String) (w : Nat) (a b : T)  -- uninterpreted binary function with result width w
    | uf1 (name : String) (w : Nat) (a : T)
  /-- boolean terms -/
  inductive B where
    | lit (b : Bool)
    | var (name : String)
    | cmp (op : CmpOp) (a b : T)
    | not (a : B)
    | and (a b : B)
    | or (a b : B)
    | xor (a b : B)
    | beq (a b : B)                          -- equality of booleans
end

instance : Inhabited T := ⟨.lit 0 0⟩
instance : Inhabited B := ⟨.lit false⟩

/-- interpretation of free constants and uninterpreted functions -/
structure Interp where
  bv : String → Nat → Nat             -- name, width ↦ value (taken mod 2^width by eval)
  bool : String → Bool
  uf2 : String → Nat → Nat → Nat → Nat  -- name, width, args ↦ value (taken mod 2^width by eval)
  uf1 : String → Nat → Nat → Nat

mutual
  def T.width : T → Nat
    | .lit w _ => w
    | .var _ w => w
    | .bin _ a _ => a.width
    | .bnot a => a.width
    | .extract hi lo _ => hi + 1 - lo
    | .concat a b => a.width + b.width
    | .zext k a => k + a.width
    | .sext k a => k + a.width
    | .ite _ a _ => a.width
    | .uf2 _ w _ _ => w
    | .uf1 _ w _ => w
end

/-- SMT-LIB meaning of the binary bit-vector operators at width `n` (arguments below `2^n`) -/
def BinOp.eval (n : Nat) : BinOp → Nat → Nat → Nat
  | .add, a, b => (a + b) % 2 ^ n
  | .sub, a, b => (a + (2 ^ n - b % 2 ^ n)) % 2 ^ n
  | .mul, a, b => (a * b) % 2 ^ n
  | .udiv, a, b => if b = 0 then 2 ^ n - 1 else a / b
  | .urem, a, b => if b = 0 then a else a % b
  | .sdiv, a, b =>
      if b = 0 then (if toInt n a < 0 then 1 else 2 ^ n - 1)
      else ofInt n (Int.tdiv (toInt n a) (toInt n b))
  | .srem, a, b => if b = 0 then a else ofInt n (Int.tmod (toInt n a) (toInt n b))
  | .band, a, b => a &&& b
  | .bor, a, b => a ||| b
  | .bxor, a, b => a ^^^ b
  | .shl, a, b => if b ≥ n then 0 else (a * 2 ^ b) % 2 ^ n
  | .lshr, a, b => if b ≥ n then 0 else a / 2 ^ b
  | .ashr, a, b =>
      if b ≥ n then (if toInt n a < 0 then 2 ^ n - 1 else 0)
      else ofInt n (toInt n a / ((2 ^ b : Nat) : Int))

def CmpOp.eval (n : Nat) : CmpOp → Nat → Nat → Bool
  | .eq, a, b => a == b
  | .ult, a, b => a < b
  | .ule, a, b => a ≤ b
  | .ugt, a, b => a > b
  | .uge, a, b => a ≥ b
  | .slt, a, b => toInt n a < toInt n b
  | .sle, a, b => toInt n a ≤ toInt n b
  | .sgt, a, b => toInt n a > toInt n b
  | .sge, a, b => toInt n a ≥ toInt n b

mutual
  /-- value of a bit-vector term: a natural number below `2^width` (for well-formed terms) -/
  def T.eval (I : Interp) : T → Nat
    | .lit w n => n % 2 ^ w
    | .var x w => I.bv x w % 2 ^ w
    | .bin op a b => op.eval a.width (a.eval I) (b.eval I)
    | .bnot a => 2 ^ a.width - 1 - a.eval I
    | .extract hi lo a => (a.eval I / 2 ^ lo) % 2 ^ (hi + 1 - lo)
    | .concat a b => a.eval I * 2 ^ b.width + b.eval I
    | .zext _ a => a.eval I
    | .sext k a => ofInt (k + a.width) (toInt a.width (a.eval I))
    | .ite c a b => if c.eval I then a.eval I else b.eval I
    | .uf2 f w a b => I.uf2 f w (a.eval I) (b.eval I) % 2 ^ w
    | .uf1 f w a => I.uf1 f w (a.eval I) % 2 ^ w
  def B.eval (I : Interp) : B → Bool
    | .lit b => b
    | .var x => I.bool x
    | .cmp op a b => op.eval a.width (a.eval I) (b.eval I)
    | .not a => !(a.eval I)
    | .and a b => a.eval I && b.eval I
    | .or a b => a.eval I || b.eval I
    | .xor a b => Bool.xor (a.eval I) (b.eval I)
    | .beq a b => a.eval I == b.eval I
end

mutual
  /-- width-correctness (what z3's sort checker enforces when the term is built) -/
  def T.WF : T → Prop
    | .lit w _ => 0 < w
    | .var _ w => 0 < w
    | .bin _ a b => a.WF ∧ b.WF ∧ a.width = b.width
    | .bnot a => a.WF
    | .extract hi lo a => a.WF ∧ lo ≤ hi ∧ hi < a.width
    | .concat a b => a.WF ∧ b.WF
    | .zext _ a => a.WF
    | .sext _ a => a.WF
    | .ite c a b => c.WF ∧ a.WF ∧ b.WF ∧ a.width = b.width
    | .uf2 _ w a b => 0 < w ∧ a.WF ∧ b.WF
    | .uf1 _ w a => 0 < w ∧ a.WF
  def B.WF : B → Prop
    | .lit _ => True
    | .var _ => True
    | .cmp _ a b => a.WF ∧ b.WF ∧ a.width = b.width
    | .not a => a.WF
    | .and a b => a.WF ∧ b.WF
    | .or a b => a.WF ∧ b.WF
    | .xor a b => a.WF ∧ b.WF
    | .beq a b => a.WF ∧ b.WF
end

/-- modular exponentiation by squaring: what `pow(lhs, rhs, 1 << size)` computes, without ever building
    an integer wider than `2*size` bits -/
def powMod (b e m : Nat) : Nat :=
  if h : e = 0 then 1 % m
  else
    let half := powMod ((b * b) % m) (e / 2) m
    if e % 2 = 1 then (b * half) % m else half
termination_by e
decreasing_by omega

/-- names halmos gives its arithmetic abstractions (sevm.py: f_div, f_mod, f_mul, f_sdiv, f_smod, f_exp) -/
def stdUf2 (name : String) (w : Nat) (a b : Nat) : Option Nat :=
  if name = s!"f_evm_bvudiv_{w}" then some (if b = 0 then 0 else a / b)
  else if name = s!"f_evm_bvurem_{w}" then some (if b = 0 then 0 else a % b)
  else if name = s!"f_evm_bvmul_{w}" then some ((a * b) % 2 ^ w)
  else if name = s!"f_evm_bvsdiv_{w}" then
    some (if b = 0 then 0 else ofInt w (Int.tdiv (toInt w a) (toInt w b)))
  else if name = s!"f_evm_bvsrem_{w}" then
    some (if b = 0 then 0 else ofInt w (Int.tmod (toInt w a) (toInt w b)))
  else if name = s!"f_evm_exp_{w}" then some (powMod a b (2 ^ w))   -- = a ^ b % 2 ^ w (Lemmas.Word.powMod_eq), computed by squaring
  else none

/-- an interpretation is *standard* when every arithmetic abstraction means the exact EVM operation -/
def Interp.Std (I : Interp) : Prop :=
  ∀ name w a b v, stdUf2 name w a b = some v → I.uf2 name w a b = v

/-- the standard interpretation over given valuations of constants and remaining functions -/
def Interp.std (bv : String → Nat → Nat) (bool : String → Bool)
    (other2 : String → Nat → Nat → Nat → Nat) (other1 : String → Nat → Nat → Nat) : Interp where
  bv := bv
  bool := bool
  uf2 := fun f w a b => (stdUf2 f w a b).getD (other2 f w a b)
  uf1 := other1

theorem Interp.std_isStd bv bool o2 o1 : (Interp.std bv bool o2 o1).Std := by
  intro name w a b v h
  simp [Interp.std, h]

end HalmosVerif.Model
