/-
Model.Verdict — how halmos turns the outcomes of the paths of one test into a verdict, and the verdicts of the selected
tests into the process exit code (property C05).  Mirrors, branch for branch:

* `SolverOutput.from_result` (solve.py): first line of stdout ↦ sat / unsat / unknown / err, return code ignored;
  `is_model_valid` (needle `f_evm_`); `from_error` ↦ err;
* `solve_low_level`: `subprocess.TimeoutExpired` ↦ unknown, any other exception of `future.result()` propagates;
* `solve_end_to_end`: unsat-core cache hit ↦ unsat (without running, without core); refine once when the model is
  invalid and `refine` changes the query — the refined result replaces the first one;
* `CounterexampleHandler._get_solver_output`: executor already shut down ↦ err (checked first), exception ↦ err;
* `_solve_end_to_end_callback`: append to `solver_outputs`; unsat with a non-empty core ↦ `unsat_cores.append`;
  valid model ∧ `--early-exit` ↦ `executor.shutdown(wait=False)`;
* `run_test`: loop over the paths in exploration order: loop-top `is_shutdown()` ↦ break; classification chain
  (`Gen.pathChain`); potential ↦ submit to the thread pool; stuck ↦ `solve_low_level` *on the main thread, unguarded*
  (stuck unless `unsat`; an exception — also `ShutdownError` from `executor.submit`, or the `OSError` of a process
  killed by an early exit — escapes `run_test`); join of the thread pool; the verdict if-chain (`Gen.verdictChain`);
* `run_tests`: exception escaping `run_test` ↦ `Exitcode.EXCEPTION`;
* `run_contract` (setUp failure ↦ no results) and `_main` (num_failed = num_found − num_passed; exit code).

Concurrency is a small-step interleaving of the main thread (`Ev.main`: its next micro-step) with the worker events
`Ev.start i` (the pool thread enters `solve_end_to_end` for path `i`: the unsat-core cache is consulted *here*) and
`Ev.finish i` (the done-callback of path `i` runs).  The number of pool threads is not modelled (every schedule that
is possible with `--solver-threads N` is a schedule here).  The tables of `Gen.Verdict` are interpreted, not copied.

Core Lean only.
-/
import HalmosVerif.Gen.Verdict

namespace HalmosVerif.Model.Verdict

open HalmosVerif.Gen.Verdict (VCond PCond PAct)

/-! ## Exit codes and result kinds -/

/-- `class Exitcode(Enum)` -/
inductive Exitcode where
  | pass | counterexample | timeout | stuck | revertAll | exception
  deriving DecidableEq, Repr

def Exitcode.name : Exitcode → String
  | .pass => "PASS" | .counterexample => "COUNTEREXAMPLE" | .timeout => "TIMEOUT"
  | .stuck => "STUCK" | .revertAll => "REVERT_ALL" | .exception => "EXCEPTION"

def Exitcode.all : List Exitcode := [.pass, .counterexample, .timeout, .stuck, .revertAll, .exception]

def Exitcode.ofName (s : String) : Option Exitcode := Exitcode.all.find? (fun e => e.name == s)

/-- the integer halmos stores in `TestResult.exitcode` (255 if the enum lost the member: never on the pinned code) -/
def Exitcode.code (e : Exitcode) : Nat :=
  match HalmosVerif.Gen.Verdict.exitcodes.find? (fun p => p.1 == e.name) with
  | some p => p.2
  | none => 255

/-- `str(SolverOutput.result)` -/
inductive RKind where
  | sat | unsat | unknown | err
  deriving DecidableEq, Repr

def RKind.name : RKind → String
  | .sat => "sat" | .unsat => "unsat" | .unknown => "unknown" | .err => "err"

def RKind.ofName (s : String) : Option RKind := [RKind.sat, .unsat, .unknown, .err].find? (fun k => k.name == s)

/-- a `SolverOutput` as far as the verdict is concerned -/
inductive Res where
  | sat (valid : Bool)        -- `model.is_valid`
  | unsat (core : List Nat)   -- `unsat_core` (`[]` = None or empty: never appended to the cache)
  | unknown
  | err
  deriving DecidableEq, Repr

def Res.kind : Res → RKind
  | .sat _ => .sat | .unsat _ => .unsat | .unknown => .unknown | .err => .err

/-! ## `SolverOutput.from_result` on raw text -/

/-- `stdout[:stdout.find("\n")]`, or all of it when there is no newline -/
def firstLine (cs : List Char) : List Char := cs.takeWhile (fun c => c != '\n')

/-- `needle in text` -/
def hasInfix (needle : List Char) : List Char → Bool
  | [] => needle.isPrefixOf []
  | c :: cs => needle.isPrefixOf (c :: cs) || hasInfix needle cs

/-- `is_model_valid` -/
def isModelValid (stdout : List Char) : Bool := !hasInfix HalmosVerif.Gen.Verdict.validNeedle.toList stdout

def kindOfName (s : String) : RKind := (RKind.ofName s).getD .err

/-- the `match first_line` of `from_result` -/
def dispatchKind (line : List Char) : RKind :=
  match HalmosVerif.Gen.Verdict.dispatch.find? (fun p => p.1.toList == line) with
  | some p => kindOfName p.2
  | none => kindOfName HalmosVerif.Gen.Verdict.dispatchDefault

/-- `SolverOutput.from_result(stdout, stderr, returncode, path_ctx)`; `core` is what `parse_unsat_core(stdout)` yields
(`[]` for None); the return code takes no part in the decision. -/
def fromResult (cacheSolver : Bool) (stdout : List Char) (_rc : Int) (core : List Nat) : Res :=
  match dispatchKind (firstLine stdout) with
  | .unsat => .unsat (if cacheSolver then core else [])
  | .sat => .sat (isModelValid stdout)
  | .unknown => .unknown
  | .err => .err

/-- what happened to one solver subprocess (`PopenFuture.result()`) -/
inductive Proc where
  | exited (stdout : List Char) (rc : Int) (core : List Nat)
  | timedOut      -- `subprocess.TimeoutExpired`
  | raised        -- any other exception stored by the future (Popen failure, undecodable output, …)
  deriving DecidableEq, Repr

/-- result of the `except subprocess.TimeoutExpired` arm of `solve_low_level` -/
def timeoutRes : Res :=
  match kindOfName HalmosVerif.Gen.Verdict.timeoutResult with
  | .unknown => .unknown | .unsat => .unsat [] | .sat => .sat true | .err => .err

/-- `solve_low_level`; `none` = an exception propagates to the caller -/
def solveLowLevel (cacheSolver : Bool) : Proc → Option Res
  | .exited out rc core => some (fromResult cacheSolver out rc core)
  | .timedOut => some timeoutRes
  | .raised => none

/-- one solver query of a path -/
structure Query where
  asserts : List Nat      -- ids of the path conditions (`SMTQuery.assertions`)
  refinable : Bool        -- `refine(query).smtlib != query.smtlib`
  first : Proc            -- what the solver does on `<path>.smt2`
  second : Proc           -- what it does on `<path>.refined.smt2` (only looked at when refinement happens)
  killRaises : Bool       -- stuck confirmation killed by an early exit: `future.result()` raises (true) or returns empty output
  deriving DecidableEq, Repr

/-- `check_unsat_cores` -/
def checkUnsatCores (asserts : List Nat) (cores : List (List Nat)) : Bool :=
  cores.any (fun core => core.all (fun c => asserts.contains c))

/-- `solve_end_to_end` given whether the cache check at its start hit; `none` = exception -/
def solveEndToEnd (cacheSolver : Bool) (hit : Bool) (q : Query) : Option Res :=
  if hit then some (.unsat [])
  else
    match solveLowLevel cacheSolver q.first with
    | none => none
    | some (.sat false) => if q.refinable then solveLowLevel cacheSolver q.second else some (.sat false)
    | some r => some r

/-- `_get_solver_output` -/
def getSolverOutput (cacheSolver shutdown hit : Bool) (q : Query) : Res :=
  if shutdown then .err
  else match solveEndToEnd cacheSolver hit q with
    | none => .err
    | some r => r

/-! ## Classification of a finished path -/

/-- what `run_test` looks at -/
structure PathObs where
  panicFound : Bool     -- `ex.is_panic_of(args.panic_error_codes)`
  failSet : Bool        -- `is_global_fail_set(ex.context)`
  isStuck : Bool        -- `ex.context.is_stuck()`
  errorOutput : Bool    -- `output.error` is truthy
  deriving DecidableEq, Repr

def pcondHolds (o : PathObs) : PCond → Bool
  | .panicOrFail => o.panicFound || o.failSet
  | .isStuck => o.isStuck
  | .noError => !o.errorOutput

inductive PathClass where
  | potential | confirmStuck | normal | ignored
  deriving DecidableEq, Repr

def classify (o : PathObs) : PathClass :=
  match HalmosVerif.Gen.Verdict.pathChain.find? (fun p => pcondHolds o p.1) with
  | some (_, .potential) => .potential
  | some (_, .confirmStuck) => .confirmStuck
  | some (_, .normal) => .normal
  | none => .ignored

/-- the outcome kinds of the property statement (and a Panic whose code is not in `--panic-error-codes`) -/
inductive PathKind where
  | success | revert | panic | panicOther | failFlag | stuck
  deriving DecidableEq, Repr

def PathKind.obs : PathKind → PathObs
  | .success => ⟨false, false, false, false⟩
  | .revert => ⟨false, false, false, true⟩
  | .panic => ⟨true, false, false, true⟩
  | .panicOther => ⟨false, false, false, true⟩
  | .failFlag => ⟨false, true, false, true⟩
  | .stuck => ⟨false, false, true, true⟩

/-! ## The verdict if-chain -/

def countKind (k : RKind) (outs : List Res) : Nat := outs.countP (fun r => r.kind == k)

def vcondHolds (outs : List Res) (stuck normal : Nat) : VCond → Bool
  | .counterPos key => decide (0 < countKind (kindOfName key) outs) && (RKind.ofName key).isSome
  | .stuckPos => decide (0 < stuck)
  | .normalZero => decide (normal = 0)

def exitOfName (s : String) : Exitcode := (Exitcode.ofName s).getD .exception

/-- the if-chain at the end of `run_test` -/
def verdictOf (outs : List Res) (stuck normal : Nat) : Exitcode :=
  match HalmosVerif.Gen.Verdict.verdictChain.find? (fun p => vcondHolds outs stuck normal p.1) with
  | some p => exitOfName p.2
  | none => exitOfName HalmosVerif.Gen.Verdict.verdictElse

/-! ## One test: interleaving semantics of `run_test` -/

structure Cfg where
  earlyExit : Bool
  cacheSolver : Bool
  deriving DecidableEq, Repr

structure Path where
  obs : PathObs
  q : Query
  deriving DecidableEq, Repr

structure Scenario where
  cfg : Cfg
  paths : List Path     -- in exploration order (path id = index)
  deriving DecidableEq, Repr

inductive Ev where
  | main              -- the main thread executes its next micro-step
  | start (i : Nat)   -- a pool thread enters `solve_end_to_end` for path `i`
  | finish (i : Nat)  -- the done-callback of path `i`
  deriving DecidableEq, Repr

/-- where the main thread is within the loop body of the current path -/
inductive Phase where
  | top     -- before the loop-top `is_shutdown()` check of path `pc`
  | sub     -- stuck path `pc`: before `executor.submit(future)` inside `solve_low_level`
  | wait    -- stuck path `pc`: subprocess running, blocked in `future.result()`
  deriving DecidableEq, Repr

structure St where
  pc : Nat := 0
  phase : Phase := .top
  mainDone : Bool := false         -- the loop is over (exhausted, `break`, or an exception escaped)
  raised : Bool := false           -- an exception escaped `run_test`
  shutdown : Bool := false         -- `executor.is_shutdown()`
  normal : Nat := 0
  stuck : Nat := 0                 -- `len(stuck)`
  submitted : List Nat := []       -- potential paths handed to the thread pool
  started : List (Nat × Bool) := []  -- (path, cache hit at the start of `solve_end_to_end`)
  finished : List Nat := []
  outputs : List Res := []         -- `ctx.solver_outputs`
  cores : List (List Nat) := []    -- `solving_ctx.unsat_cores`
  deriving DecidableEq, Repr

def St.init : St := {}

/-- the main thread's next micro-step (only called when `¬ mainDone`) -/
def mainStep (sc : Scenario) (st : St) : St :=
  match sc.paths[st.pc]? with
  | none => { st with mainDone := true }
  | some p =>
    match st.phase with
    | .top =>
      if st.shutdown then { st with mainDone := true }
      else match classify p.obs with
        | .potential => { st with submitted := st.submitted ++ [st.pc], pc := st.pc + 1 }
        | .confirmStuck => { st with phase := .sub }
        | .normal => { st with normal := st.normal + 1, pc := st.pc + 1 }
        | .ignored => { st with pc := st.pc + 1 }
    | .sub =>
      -- `executor.submit` raises ShutdownError when the executor was shut down after the loop-top check
      if st.shutdown then { st with raised := true, mainDone := true }
      else { st with phase := .wait }
    | .wait =>
      if st.shutdown then
        -- the subprocess was killed by `shutdown(wait=False)`
        if p.q.killRaises then { st with raised := true, mainDone := true }
        else { st with stuck := st.stuck + 1, pc := st.pc + 1, phase := .top }   -- empty output ↦ err ≠ unsat
      else match solveLowLevel sc.cfg.cacheSolver p.q.first with
        | none => { st with raised := true, mainDone := true }
        | some (.unsat _) => { st with pc := st.pc + 1, phase := .top }
        | some _ => { st with stuck := st.stuck + 1, pc := st.pc + 1, phase := .top }

/-- the done-callback of path `i` whose `solve_end_to_end` started with cache status `hit` -/
def finishStep (sc : Scenario) (st : St) (i : Nat) (hit : Bool) (q : Query) : St :=
  let r := getSolverOutput sc.cfg.cacheSolver st.shutdown hit q
  { st with
    finished := i :: st.finished
    outputs := r :: st.outputs
    cores := (match r with
      | .unsat core => if core.isEmpty then st.cores else st.cores ++ [core]
      | _ => st.cores)
    shutdown := st.shutdown || (sc.cfg.earlyExit && r == .sat true) }

def step (sc : Scenario) (st : St) : Ev → Option St
  | .main => if st.mainDone then none else some (mainStep sc st)
  | .start i =>
    if st.raised then none
    else if st.submitted.contains i && !(st.started.any (fun p => p.1 == i)) then
      match sc.paths[i]? with
      | some p =>
        some { st with started := (i, sc.cfg.cacheSolver && checkUnsatCores p.q.asserts st.cores) :: st.started }
      | none => none
    else none
  | .finish i =>
    if st.raised then none
    else if st.finished.contains i then none
    else match st.started.find? (fun p => p.1 == i), sc.paths[i]? with
      | some (_, hit), some p => some (finishStep sc st i hit p.q)
      | _, _ => none

def run (sc : Scenario) : St → List Ev → Option St
  | st, [] => some st
  | st, e :: es => match step sc st e with
    | some st' => run sc st' es
    | none => none

/-- `run_test` has returned or raised: the loop is over and (unless an exception escaped) the pool was joined -/
def St.done (st : St) : Bool :=
  st.mainDone && (st.raised || st.submitted.all (fun i => st.finished.contains i))

/-- what `run_tests` records for the test -/
def St.verdict (st : St) : Exitcode :=
  if st.raised then exitOfName HalmosVerif.Gen.Verdict.runTestsExceptionCode
  else verdictOf st.outputs st.stuck st.normal

/-- verdict of a complete schedule (`none`: the schedule is not an execution, or it is incomplete) -/
def verdictOfSchedule (sc : Scenario) (sched : List Ev) : Option Exitcode :=
  match run sc St.init sched with
  | some st => if st.done then some st.verdict else none
  | none => none

/-- the canonical schedule: explore everything first, then start and finish the queries in the given order
(one thread: `start i, finish i` per query) -/
def sequentialSchedule (sc : Scenario) : List Ev :=
  let nMain := sc.paths.foldl (fun n p => n + (if classify p.obs == .confirmStuck then 3 else 1)) 1
  let pots := (List.range sc.paths.length).filter (fun i => match sc.paths[i]? with
    | some p => classify p.obs == .potential | none => false)
  List.replicate nMain Ev.main ++ pots.flatMap (fun i => [Ev.start i, Ev.finish i])

/-! ## Schedule-free reference (what every schedule is shown to compute when timing cannot matter) -/

def potentialPaths (sc : Scenario) : List Path := sc.paths.filter (fun p => classify p.obs == .potential)

def stuckPaths (sc : Scenario) : List Path := sc.paths.filter (fun p => classify p.obs == .confirmStuck)

def normalCount (sc : Scenario) : Nat := sc.paths.countP (fun p => classify p.obs == .normal)

/-- the stuck confirmation of `p` leaves it in `stuck` -/
def confirmsStuck (cacheSolver : Bool) (p : Path) : Bool :=
  match solveLowLevel cacheSolver p.q.first with
  | some (.unsat _) => false
  | _ => true

def confirmRaises (cacheSolver : Bool) (p : Path) : Bool := (solveLowLevel cacheSolver p.q.first).isNone

def refOutputs (sc : Scenario) : List Res :=
  (potentialPaths sc).map (fun p => getSolverOutput sc.cfg.cacheSolver false false p.q)

def refStuck (sc : Scenario) : Nat := (stuckPaths sc).countP (confirmsStuck sc.cfg.cacheSolver)

/-- verdict computed from the collection of per-path outcomes alone -/
def refVerdict (sc : Scenario) : Exitcode :=
  if (stuckPaths sc).any (confirmRaises sc.cfg.cacheSolver) then exitOfName HalmosVerif.Gen.Verdict.runTestsExceptionCode
  else verdictOf (refOutputs sc) (refStuck sc) (normalCount sc)

/-! ## `setup()`: the solver filter over the non-reverting setUp() paths -/

/-- the loop of `setup()` over the non-reverting paths (in path order), `k` paths kept so far: a path is discarded only when
its feasibility query is answered `unsat`; the loop stops as soon as two paths are kept; `none`: the solver call raised
(the exception makes `run_contract` give up on the contract) -/
def setupLoop (cacheSolver : Bool) : List Proc → Nat → Option Nat
  | [], k => some k
  | p :: ps, k =>
    match solveLowLevel cacheSolver p with
    | none => none
    | some (.unsat _) => setupLoop cacheSolver ps k
    | some _ => if k + 1 > 1 then some (k + 1) else setupLoop cacheSolver ps (k + 1)

/-- does setUp() succeed (exactly one state to run the tests from)? With a single non-reverting path the solver is not asked. -/
def setupOk (cacheSolver : Bool) : List Proc → Bool
  | [] => false
  | [_] => true
  | ps => setupLoop cacheSolver ps 0 == some 1

/-- the feasibility query of a setUp path was NOT answered unsat (unknown, timeout, garbage, nothing, a crash, sat) -/
def notUnsat (cacheSolver : Bool) (p : Proc) : Bool :=
  match solveLowLevel cacheSolver p with
  | some (.unsat _) => false
  | _ => true

/-! ## The process exit code -/

/-- one selected contract: `num_found` tests matched, `run_contract` returned `results` (`[]` when setUp failed) -/
structure ContractRun where
  found : Nat
  results : List Exitcode
  deriving DecidableEq, Repr

def numPassed (c : ContractRun) : Nat := c.results.countP (fun r => r == .pass)

/-- `_main`: contracts without matching tests are skipped; `num_failed = num_found - num_passed` -/
def mainExit (cs : List ContractRun) : Nat :=
  let cs := cs.filter (fun c => c.found != 0)
  let totalFound := (cs.map (·.found)).sum
  let totalFailed := (cs.map (fun c => c.found - numPassed c)).sum
  if totalFound = 0 then HalmosVerif.Gen.Verdict.mainExitNoTests
  else if totalFailed = 0 then HalmosVerif.Gen.Verdict.mainExitAllPassed
  else HalmosVerif.Gen.Verdict.mainExitSomeFailed

end HalmosVerif.Model.Verdict
