/-
Model.VerdictWitness — the concrete scenarios and schedules used by the `_cex` theorems of Props/C05 and replayed on
the real code by tools/props/c05.py (`witness` entries there are checked against these with the driver's `same`).

Core Lean only.
-/
import HalmosVerif.Model.Verdict

namespace HalmosVerif.Model.Verdict.Witness

def obsSuccess : PathObs := PathKind.success.obs
def obsPanic : PathObs := PathKind.panic.obs
def obsStuck : PathObs := PathKind.stuck.obs

def satOut : List Char := "sat\n(\n  (define-fun p_x_uint256_00 () (_ BitVec 256) #x02)\n)\n".toList
def unsatOut : List Char := "unsat\n".toList
def unknownOut : List Char := "unknown\n".toList

def mkQ (asserts : List Nat) (first : Proc) (killRaises : Bool := false) : Query :=
  { asserts := asserts, refinable := false, first := first, second := .raised, killRaises := killRaises }

def noQ : Query := mkQ [] .raised

/-- `--early-exit`: path 0 succeeds, path 1 panics (query: sat with a valid model), path 2 is stuck (its feasibility
query would be answered unsat; killed mid-run its `future.result()` raises). -/
def race : Scenario :=
  { cfg := ⟨true, false⟩
    paths := [⟨obsSuccess, noQ⟩, ⟨obsPanic, mkQ [1] (.exited satOut 0 [])⟩,
              ⟨obsStuck, mkQ [2] (.exited unsatOut 0 []) true⟩] }

/-- the counterexample of path 1 arrives while the main thread waits for the stuck confirmation of path 2 -/
def raceDuring : List Ev := [.main, .main, .main, .main, .start 1, .finish 1, .main]

/-- the same replies, but the counterexample arrives after the exploration -/
def raceAfter : List Ev := [.main, .main, .main, .main, .main, .main, .start 1, .finish 1]

/-- the counterexample arrives between the loop-top check and `executor.submit` of the stuck confirmation -/
def raceBeforeSubmit : List Ev := [.main, .main, .main, .start 1, .finish 1, .main]

/-- no early exit: a query that timed out together with a stuck path -/
def timeoutOverStuck : Scenario :=
  { cfg := ⟨false, false⟩
    paths := [⟨obsSuccess, noQ⟩, ⟨obsPanic, mkQ [1] (.exited unknownOut 0 [])⟩,
              ⟨obsStuck, mkQ [2] (.exited satOut 0 [])⟩] }

/-- no early exit: a counterexample together with a stuck path whose solver call raises -/
def raiseOverFail : Scenario :=
  { cfg := ⟨false, false⟩
    paths := [⟨obsSuccess, noQ⟩, ⟨obsPanic, mkQ [1] (.exited satOut 0 [])⟩, ⟨obsStuck, mkQ [2] .raised⟩] }

/-- `--cache-solver` with a solver that returns an unsat core which is not unsat: path 1's core `[7]` is contained
in the assertions of path 2, whose own answer is sat -/
def cacheLie : Scenario :=
  { cfg := ⟨false, true⟩
    paths := [⟨obsSuccess, noQ⟩, ⟨obsPanic, mkQ [7] (.exited unsatOut 0 [7])⟩, ⟨obsPanic, mkQ [7, 8] (.exited satOut 0 [])⟩] }

def cacheLieFirst : List Ev := [.main, .main, .main, .main, .start 1, .finish 1, .start 2, .finish 2]
def cacheLieSecond : List Ev := [.main, .main, .main, .main, .start 2, .start 1, .finish 1, .finish 2]

def byName (n : String) : Option Scenario :=
  if n = "race" then some race
  else if n = "timeoutOverStuck" then some timeoutOverStuck
  else if n = "raiseOverFail" then some raiseOverFail
  else if n = "cacheLie" then some cacheLie
  else none

end HalmosVerif.Model.Verdict.Witness
