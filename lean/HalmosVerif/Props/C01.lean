import HalmosVerif.Spec.Evm
namespace HalmosVerif.Props.C01
open HalmosVerif.Spec

theorem placeholder : Evm.ceil32 33 = 64 := by decide

end HalmosVerif.Props.C01
