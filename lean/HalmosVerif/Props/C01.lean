/-
Props.C01 — "Every reported execution path is a real EVM behaviour" — for the core machine (Model.Sevm, stage 1 of
DESIGN §"Shared by C01, C02, C09, C10": stack, word instructions, PUSH/DUP/SWAP, PC, JUMP/JUMPI, JUMPDEST, calldata and
transaction-environment reads, memory (MLOAD/MSTORE/MSTORE8 at concrete offsets — a flat array of byte terms, which
halmos' ByteVec refines: Props.C07), CALLDATACOPY / CODECOPY with concrete operands, SLOAD / SSTORE / TLOAD / TSTORE on literal slots below 2^64 of the
executing account (non-symbolic, zero initial storage; hashed or symbolic slots end stuck), STOP/INVALID,
RETURN/REVERT with data; every other opcode ends the path as
*stuck*, which is an error report, never an outcome).

All theorems hold for EVERY program (`code : List Nat`, any length), EVERY fuel / number of steps, EVERY engine
configuration (`--loop`, `--depth`), EVERY symbolic transaction environment `env`, EVERY sound simplifier `s`
(`SimpSound s`: z3's `simplify` preserves meaning), EVERY standard interpretation `I` of variables and uninterpreted
functions (`I.Std`: the abstractions `f_evm_*` mean the exact EVM operation), EVERY concrete initial frame related to
the initial symbolic state, and — for soundness — EVERY oracle `o` whatsoever: nothing is assumed of the solver.

The reference is `Spec.Evm.step` / `Spec.Evm.exec`. halmos does not model the 1024-item stack limit; the model adds
it (`stepL`): a state with more than 1024 stack items ends in an end state tagged `stackLimit`, about which nothing is
claimed (the code would go on).

Message calls (`sound_calls`, for the frame-stack machine Model.SevmCalls `runC`): CALL / CALLCODE with the literal
value 0, DELEGATECALL, STATICCALL to literal targets whose code is known (or absent), nested to any depth, against
`Spec.Evm.exec` with its nested calls; the storage maps of *all* modelled accounts describe the final world (`WRelM`).
`sound_calls_from`: from any first state related to a concrete configuration (a transaction after a transaction:
Model.SevmCalls `nextTx`, Lemmas.SevmCallTx `relC_nextTx`; Props.C03Setup composes setUp and test with it).
`sound_calls_create`: with CREATE followed; `sound_calls_hsto`: with SLOAD / SSTORE at mapping and dynamic-array
locations followed (`SolidityStorage`; the cells written describe the slots from 2^64 on of the final world, `HRel`).

Known finding kept out of the statement by the tag: the end state `jumpi` produces when a JUMPI with a *symbolic*
condition has an invalid destination (`Tag.jumpiInvalidSym`) claims the whole input set although the EVM falls through
when the condition is false; the theorems speak about `Tag.normal` end states (see `tagged_end_unsound_witness`).
-/
import HalmosVerif.Lemmas.SevmExplore
import HalmosVerif.Lemmas.SevmCallExplore
import HalmosVerif.Lemmas.SevmCallHsto
import HalmosVerif.Lemmas.WordStd

namespace HalmosVerif.Props.C01
open HalmosVerif.Model HalmosVerif.Model.Sevm HalmosVerif.Spec HalmosVerif.Lemmas.Sevm HalmosVerif.Lemmas.Word

/-! ### the ingredients, re-exported so that they are audited with the property -/

/-- `Exec.check` answers `unsat` only for conditions no valuation of the path satisfies, provided the solver's
    `unsat` answers are right (`OracleSound`): the literal-false, negation-in-path and solver cases. -/
theorem exCheck_unsat_sound {s : Simp} (hs : SimpSound s) {o : Oracle} (ho : OracleSound o) {π : List B} {c : B}
    (hc : c.WF) (h : exCheck s o π c = .unsat) (I : Interp) (hsat : Sat I π) : c.eval I = false :=
  exCheck_sound hs ho hc h I hsat

/-- the oracle hypothesis is satisfiable: a solver that always times out -/
theorem unknown_oracle_sound : OracleSound (fun _ _ => .unknown) := oracleSound_unknown

/-- a valid jump destination holds a JUMPDEST byte (so landing *after* it, as halmos does, skips exactly one no-op) -/
theorem jumpdest_byte {code : List Nat} {d : Nat} (h : (Evm.validJumpdests code).contains d = true) :
    (code[d]?).getD 0 = 0x5b := jumpdest_opcode h

/-- **step_sound.** One dispatch step of `SEVM.run`, any opcode, any oracle: for a concrete world `w` and frame `f`
    related to the symbolic state `st` under a valuation `I` of its path (stack within the EVM limit; `hW`: the storage
    maps of `st` describe `w` relative to the start world `w0`),
    * every successor whose path `I` satisfies is related to a world and frame the concrete machine reaches from
      `(w, f)` (one `Evm.step`; two for a taken jump, which lands after the JUMPDEST), its storage maps describing that
      world;
    * every untagged end state reporting the EVM outcome `h` has `Evm.step p w f = .halt w h` (with its data
      evaluated), and carries the storage maps of `st`. -/
theorem step_sound {I : Interp} {env : Env} {code : List Nat} {p : Evm.Params} {w : Evm.World} {s : Simp}
    {o : Oracle} {cfg : Cfg} {st : SState} {f : Evm.Frame} (hs : SimpSound s) (hI : I.Std)
    (hR : R I env code p st f) (hsat : Sat I st.path) (hl : f.stack.length ≤ 1024)
    (hmem : cfg.maxMem + 32 ≤ p.memLimit) (hcode : ∀ b ∈ code, b < 256)
    {w0 : Evm.World} (hW : WRel I w0 w f.this st.storage st.transient) :
    (∀ st' ∈ (step s o cfg env code st).next, Sat I st'.path →
        ∃ w' f', CReach p (w, f) (w', f') ∧ R I env code p st' f' ∧
          WRel I w0 w' f.this st'.storage st'.transient) ∧
    (∀ e ∈ (step s o cfg env code st).ends, e.tag = .normal → ∀ h, e.out = .halt h →
        Evm.step p w f = .halt w (haltWith h (e.data.map (·.eval I))) ∧
        e.st.storage = st.storage ∧ e.st.transient = st.transient ∧ (∀ b ∈ e.data, b.WF ∧ b.width = 8)) :=
  Lemmas.Sevm.step_sound hs hI hR hsat hl hmem hcode hW

/-! ### the property -/

/-- the executing account starts with zero storage and transient storage (halmos' non-symbolic initial storage) -/
def ZeroStorage (w : Evm.World) (this : Nat) : Prop :=
  ∀ slot, Evm.lookupD w.storage (this, slot) = 0 ∧ Evm.lookupD w.transient (this, slot) = 0

/-- **C01.sound.** Every untagged end state `e` of `run` that reports an EVM outcome of kind `h` (with return / revert
    data `e.data`, a list of byte terms, and the storage maps `e.st.storage`, `e.st.transient`: slot ↦ term), and every
    valuation `I` satisfying its path conditions: the concrete machine, started in the world `w` and any frame `f0`
    related to the initial state, reaches a world `w'` and a frame at which `Evm.step` halts with exactly that outcome
    — same kind, and the returned bytes are the values of `e.data` under `I` — and `w'` is exactly what the storage
    maps say (`WRel`): every slot of the executing account holds the value of the term last stored there, unwritten
    slots keep their initial value (zero), nothing else of the world differs from `w`.
    (The EVM's limit of 1024 stack items, which the code does not have, is the model's `stepL`: beyond it the path ends
    with an end state tagged `stackLimit`.)
    `hmem`: the reference's memory limit (a modelling parameter on both sides) is at least as permissive as halmos'
    `MAX_MEMORY_SIZE` for a 32-byte access; end states raised by halmos' limit checks are tagged.
    `hz`: the account's storage is zero at the start. Hashed / symbolic slots are outside the core (stuck). -/
theorem sound {s : Simp} (hs : SimpSound s) (o : Oracle) (cfg : Cfg) (env : Env) (code : List Nat) (fuel : Nat)
    (p : Evm.Params) (w : Evm.World) (hmem : cfg.maxMem + 32 ≤ p.memLimit) (hcode : ∀ b ∈ code, b < 256)
    (e : EndState) (he : e ∈ (run s o cfg env code fuel).ends)
    (htag : e.tag = .normal) (h : Evm.Halt) (hout : e.out = .halt h) (I : Interp) (hI : I.Std) (f0 : Evm.Frame)
    (hR0 : R I env code p initState f0) (hz : ZeroStorage w f0.this) (hsat : Sat I e.st.path) :
    ∃ w' f, CReach p (w, f0) (w', f) ∧ Evm.step p w' f = .halt w' (haltWith h (e.data.map (·.eval I))) ∧
        WRel I w w' f0.this e.st.storage e.st.transient := by
  have hgood := explore_sound (o := o) (cfg := cfg) (env := env) (code := code) (p := p) (w := w) hs hmem hcode fuel 0
    [initState] {} (by
      intro st hm
      rw [List.mem_singleton] at hm
      subst hm; exact goodState_init)
    (by intro e hm; cases hm)
  exact hgood e he htag h hout I hI f0 hR0 (WRel.init hz) hsat

/-- **C01.sound, as a terminating run.** The reported outcome, in the world the storage maps describe, is the result of
    `Evm.exec` on the whole program (for some amount of fuel — the statement bounds nothing). -/
theorem sound_exec {s : Simp} (hs : SimpSound s) (o : Oracle) (cfg : Cfg) (env : Env) (code : List Nat) (fuel : Nat)
    (p : Evm.Params) (w : Evm.World) (hmem : cfg.maxMem + 32 ≤ p.memLimit) (hcode : ∀ b ∈ code, b < 256)
    (e : EndState) (he : e ∈ (run s o cfg env code fuel).ends)
    (htag : e.tag = .normal) (h : Evm.Halt) (hout : e.out = .halt h) (I : Interp) (hI : I.Std) (f0 : Evm.Frame)
    (hR0 : R I env code p initState f0) (hz : ZeroStorage w f0.this) (hsat : Sat I e.st.path) :
    ∃ n w', Evm.exec p n w f0 = some (w', haltWith h (e.data.map (·.eval I))) ∧
        WRel I w w' f0.this e.st.storage e.st.transient := by
  obtain ⟨w', f, hr, hstep, hW⟩ := sound hs o cfg env code fuel p w hmem hcode e he htag h hout I hI f0 hR0 hz hsat
  obtain ⟨n, hn⟩ := exec_of_reach hr hstep
  exact ⟨n, w', hn, hW⟩

/-- the initial state of `run` -/
example : initState = ⟨0, [], [], [], [], [], [], [], []⟩ := rfl

/-! ### non-vacuity: a branching program, a concrete oracle, an instance of `R` -/

/-- `PUSH1 4; CALLDATALOAD; PUSH1 42; EQ; PUSH1 10; JUMPI; STOP; JUMPDEST; INVALID` -/
def exCode : List Nat := [0x60, 4, 0x35, 0x60, 42, 0x14, 0x60, 10, 0x57, 0x00, 0x5b, 0xfe]

/-- selector `12345678` followed by the 32-byte argument 42 -/
def exCalldata : List Nat := [0x12, 0x34, 0x56, 0x78] ++ List.replicate 31 0 ++ [42]

/-- the symbolic transaction: the first argument is the variable `x`; every other calldata word is what the bytes say -/
def exEnv : Env where
  caller := .var "msg_sender" 160
  origin := .var "tx_origin" 160
  callvalue := .var "msg_value" 256
  address := .lit 160 0x1000
  cd := fun off => if off = 4 then .var "x" 256 else .lit 256 (Evm.bytesToNat (Evm.readBytes exCalldata off 32))
  cdByte := fun i => .lit 8 ((exCalldata[i]?).getD 0)   -- the byte view, fully concrete here
  cdSize := 36

/-- the valuation `x ↦ 42`, `msg_sender ↦ 0xabc`, everything else 0; arithmetic abstractions standard -/
def exI : Interp := Interp.std (fun x _ => if x = "x" then 42 else if x = "msg_sender" then 0xabc else 0)
  (fun _ => false) (fun _ _ _ _ => 0) (fun _ _ _ => 0)

theorem exI_std : exI.Std := Interp.std_isStd _ _ _ _

/-- the reference's memory limit is set just above halmos' `MAX_MEMORY_SIZE` (hypothesis `hmem`) -/
def exP : Evm.Params := { origin := 0, memLimit := 2 ^ 20 + 32 }

theorem exMem : ({} : Cfg).maxMem + 32 ≤ exP.memLimit := by decide

def exW : Evm.World := { code := [], storage := [], transient := [], balance := [] }
def exF0 : Evm.Frame := { this := 0x1000, caller := 0xabc, value := 0, calldata := exCalldata, code := exCode }

/-- the example world has no storage at all -/
theorem exZero (this : Nat) : ZeroStorage exW this := fun _ => ⟨rfl, rfl⟩

/-- an oracle that never answers (every query `unknown`): sound, and the worst case for exploration -/
def exOracle : Oracle := fun _ _ => .unknown

def exRes : Result := run foldSimp exOracle {} exEnv exCode 100

/-- the model explores both branches: STOP at pc 9 under `¬(x = 42)`, INVALID at pc 11 under `x = 42`; no flag -/
example : exRes.ends.map (fun e => (e.st.pc, e.out, e.tag, e.st.path)) =
    [(9, .halt (.success []), .normal, [.not (.cmp .eq (.var "x" 256) (.lit 256 42))]),
     (11, .halt .invalidOpcode, .normal, [.cmp .eq (.var "x" 256) (.lit 256 42)])] ∧
    exRes.boundedLoops = [] ∧ exRes.depthCut = false ∧ exRes.outOfFuel = false := by
  decide +kernel

/-- the simulation relation holds between the initial symbolic state and the concrete initial frame -/
theorem exR : R exI exEnv exCode exP initState exF0 := by
  refine ⟨rfl, rfl, StackRel.nil, ⟨?_, ?_, ?_, ?_, ?_, ?_, rfl, rfl⟩,
    ⟨fun _ h => absurd h List.not_mem_nil, fun _ _ h => absurd h List.not_mem_nil⟩, MemRel.nil _, MemRel.nil _⟩
  · exact ⟨(by decide : 0 < 160), (by decide : 160 ≤ 256), by decide +kernel⟩
  · exact ⟨(by decide : 0 < 160), (by decide : 160 ≤ 256), by decide +kernel⟩
  · exact ⟨(by decide : 0 < 256), (by decide : 256 ≤ 256), by decide +kernel⟩
  · exact ⟨(by decide : 0 < 160), (by decide : 160 ≤ 256), by decide +kernel⟩
  · intro off
    show (exEnv.cd off).WF ∧ (exEnv.cd off).width = 256 ∧ _
    by_cases h : off = 4
    · subst h
      exact ⟨(by decide : 0 < 256), rfl, by decide +kernel⟩
    · have hcd : exEnv.cd off = .lit 256 (Evm.bytesToNat (Evm.readBytes exCalldata off 32)) := by
        simp only [exEnv, h, ↓reduceIte]
      rw [hcd]
      refine ⟨(by decide : 0 < 256), rfl, ?_⟩
      simp only [T.eval]
      exact Nat.mod_eq_of_lt (push_value_lt _ _ 32 (Nat.le_refl _))
  · intro i
    refine ⟨(by decide : 0 < 8), rfl, ?_⟩
    show ((exCalldata[i]?).getD 0) % 2 ^ 8 = (exCalldata[i]?).getD 0
    have hb : ∀ b ∈ exCalldata, b < 256 := by decide
    have : (exCalldata[i]?).getD 0 < 256 := by
      cases hg : exCalldata[i]? with
      | none => simp
      | some b => simp only [Option.getD_some]; exact hb b (List.mem_of_getElem? hg)
    exact Nat.mod_eq_of_lt (by simpa using this)

/-- the INVALID end state is among the results -/
theorem ex_end : ∃ e ∈ exRes.ends, e.tag = .normal ∧ e.out = .halt .invalidOpcode ∧
    e.st.path = [.cmp .eq (.var "x" 256) (.lit 256 42)] ∧ e.st.storage = [] ∧ e.st.transient = [] := by
  decide +kernel

/-- `sound_exec` applied to the INVALID end state and the valuation `x ↦ 42`: all hypotheses are met, and the
    conclusion is the concrete fact that the reference EVM ends in `invalidOpcode` on calldata `12345678 ‖ 42` -/
example : ∃ n w', Evm.exec exP n exW exF0 = some (w', .invalidOpcode) ∧ WRel exI exW w' exF0.this [] [] := by
  obtain ⟨e, he, htag, hout, hp, hsto, htr⟩ := ex_end
  have := sound_exec foldSimp_sound exOracle {} exEnv exCode 100 exP exW exMem (by decide) e he htag .invalidOpcode hout
    exI exI_std exF0 exR (exZero _) (by rw [hp]; exact sat_singleton.2 (by decide +kernel))
  rw [hsto, htr] at this
  exact this

/-- and the reference interpreter indeed says so (it is the first disjunct that holds) -/
example : (Evm.exec exP 10 exW exF0).map (·.2) = some .invalidOpcode := by decide +kernel

/-! memory and return data -/

/-- `PUSH1 4; CALLDATALOAD; PUSH1 0; MSTORE; PUSH1 0xAB; PUSH1 32; MSTORE8; PUSH1 33; PUSH1 0; RETURN`:
    returns the 32 bytes of the symbolic argument followed by the byte 0xAB -/
def retCode : List Nat := [0x60, 4, 0x35, 0x60, 0, 0x52, 0x60, 0xab, 0x60, 32, 0x53, 0x60, 33, 0x60, 0, 0xf3]

/-- the model's single end state: success, carrying 33 byte terms — `Extract(255-8i, 248-8i, x)` and the literal 0xAB -/
theorem ret_end : ∃ e ∈ (run foldSimp exOracle {} exEnv retCode 100).ends, e.tag = .normal ∧
    e.out = .halt (.success []) ∧ e.st.path = [] ∧
    e.data = ((List.range 32).map fun i => T.extract (8 * (31 - i) + 7) (8 * (31 - i)) (.var "x" 256)) ++ [.lit 8 0xab] := by
  decide +kernel

/-- `sound_exec` on it, for the valuation `x ↦ 42`: the reference EVM returns 31 zero bytes, 42, 0xAB -/
example : ∃ n w', Evm.exec exP n exW { exF0 with code := retCode } =
      some (w', .success (List.replicate 31 0 ++ [42, 0xab])) := by
  obtain ⟨e, he, htag, hout, hp, hd⟩ := ret_end
  have hR : R exI exEnv retCode exP initState { exF0 with code := retCode } :=
    ⟨rfl, rfl, StackRel.nil, exR.env.congr rfl rfl rfl rfl rfl, exR.subst, MemRel.nil _, MemRel.nil _⟩
  have := sound_exec foldSimp_sound exOracle {} exEnv retCode 100 exP exW exMem (by decide) e he htag (.success []) hout exI
    exI_std _ hR (exZero _) (by rw [hp]; exact Sat.nil _)
  have hv : haltWith (.success []) (e.data.map (·.eval exI)) = .success (List.replicate 31 0 ++ [42, 0xab]) := by
    rw [hd]; decide +kernel
  rw [hv] at this
  obtain ⟨n, w', h1, _⟩ := this
  exact ⟨n, w', h1⟩

example : (Evm.exec exP 20 exW { exF0 with code := retCode }).map (·.2) =
    some (.success (List.replicate 31 0 ++ [42, 0xab])) := by decide +kernel

/-- CALLDATACOPY and CODECOPY: `calldatacopy(0, 0, 36); codecopy(36, 0, 4); return(0, 40)` — model and reference
    agree on the 40 returned bytes (the calldata, then the first four code bytes) -/
def cpCode : List Nat :=
  [0x60, 36, 0x60, 0, 0x60, 0, 0x37, 0x60, 4, 0x60, 0, 0x60, 36, 0x39, 0x60, 40, 0x60, 0, 0xf3]

example : (run foldSimp exOracle {} exEnv cpCode 100).ends.map (fun e => (e.out, e.tag, e.data.map (·.eval exI))) =
      [(.halt (.success []), .normal, exCalldata ++ [0x60, 36, 0x60, 0])] ∧
    (Evm.exec exP 20 exW { exF0 with code := cpCode }).map (·.2) =
      some (.success (exCalldata ++ [0x60, 36, 0x60, 0])) := by
  decide +kernel

/-! storage -/

/-- `sstore(1, x); tstore(2, sload(1) + 1); return mem[0..32) = tload(2)`:
    `PUSH1 4; CALLDATALOAD; PUSH1 1; SSTORE; PUSH1 1; PUSH1 1; SLOAD; ADD; PUSH1 2; TSTORE; PUSH1 2; TLOAD; PUSH1 0;
     MSTORE; PUSH1 32; PUSH1 0; RETURN` -/
def stoCode : List Nat :=
  [0x60, 4, 0x35, 0x60, 1, 0x55, 0x60, 1, 0x60, 1, 0x54, 0x01, 0x60, 2, 0x5d, 0x60, 2, 0x5c, 0x60, 0, 0x52,
   0x60, 32, 0x60, 0, 0xf3]

/-- the model's end state carries the storage maps `1 ↦ x` and (transient) `2 ↦ x + 1` -/
theorem sto_end : ∃ e ∈ (run foldSimp exOracle {} exEnv stoCode 100).ends, e.tag = .normal ∧
    e.out = .halt (.success []) ∧ e.st.path = [] ∧ e.st.storage = [(1, .var "x" 256)] ∧
    e.st.transient = [(2, .bin .add (.var "x" 256) (.lit 256 1))] := by
  decide +kernel

/-- `sound_exec` on it for `x ↦ 42`: in the world the reference EVM ends in, slot 1 of the account holds 42, transient
    slot 2 holds 43, every other slot is still zero, and the run returns 43 -/
example : ∃ n w', Evm.exec exP n exW { exF0 with code := stoCode } =
        some (w', .success (List.replicate 31 0 ++ [43])) ∧
      Evm.lookupD w'.storage (0x1000, 1) = 42 ∧ Evm.lookupD w'.transient (0x1000, 2) = 43 ∧
      Evm.lookupD w'.storage (0x1000, 7) = 0 := by
  obtain ⟨e, he, htag, hout, hp, hsto, htr⟩ := sto_end
  have hR : R exI exEnv stoCode exP initState { exF0 with code := stoCode } :=
    ⟨rfl, rfl, StackRel.nil, exR.env.congr rfl rfl rfl rfl rfl, exR.subst, MemRel.nil _, MemRel.nil _⟩
  obtain ⟨n, w', h1, hW⟩ := sound_exec foldSimp_sound exOracle {} exEnv stoCode 100 exP exW exMem (by decide) e he htag
      (.success []) hout exI exI_std _ hR (exZero _) (by rw [hp]; exact Sat.nil _)
  · refine ⟨n, w', ?_, ?_, ?_, ?_⟩
    · have hv : haltWith (.success []) (e.data.map (·.eval exI)) = .success (List.replicate 31 0 ++ [43]) := by
        have hd : e.data.map (·.eval exI) = List.replicate 31 0 ++ [43] := by
          have : ∀ e' ∈ (run foldSimp exOracle {} exEnv stoCode 100).ends,
              e'.data.map (·.eval exI) = List.replicate 31 0 ++ [43] := by decide +kernel
          exact this e he
        rw [hd]; rfl
      rw [← hv]; exact h1
    · rw [hsto, htr] at hW
      exact (hW.hsto 1).trans (by decide +kernel)
    · rw [hsto, htr] at hW
      exact (hW.htr 2).trans (by decide +kernel)
    · rw [hsto, htr] at hW
      exact (hW.hsto 7).trans (by decide +kernel)

/-- and the reference interpreter agrees directly -/
example : (Evm.exec exP 30 exW { exF0 with code := stoCode }).map
      (fun r => (r.2, Evm.lookupD r.1.storage (0x1000, 1), Evm.lookupD r.1.transient (0x1000, 2))) =
    some (.success (List.replicate 31 0 ++ [43]), 42, 43) := by decide +kernel

/-- in a static frame SSTORE ends the path with WriteInStaticContext, on both sides -/
example : (run foldSimp exOracle {} { exEnv with isStatic := true } stoCode 100).ends.map (fun e => (e.st.pc, e.out, e.tag)) =
      [(5, .halt .writeInStatic, .normal)] ∧
    (Evm.exec exP 30 exW { exF0 with code := stoCode, isStatic := true }).map (·.2) = some .writeInStatic := by
  decide +kernel

/-- a write beyond `MAX_MEMORY_SIZE` ends the path with the tagged OutOfGas (`PUSH1 0; PUSH3 0x100001; MSTORE`) -/
example : (run foldSimp exOracle {} exEnv [0x60, 0, 0x62, 0x10, 0x00, 0x01, 0x52, 0x00] 100).ends.map
    (fun e => (e.out, e.tag)) = [(.halt .outOfGas, .memLimit)] := by decide +kernel

/-- the concretization map at work (`Path.concretization.substitution`): after the branch `x = 42` a second
    `CALLDATALOAD 4` pushes the literal 42, so the second `EQ`/`JUMPI` is decided concretely — two end states, not three:
    `PUSH1 4; CALLDATALOAD; PUSH1 42; EQ; PUSH1 10; JUMPI; STOP; JUMPDEST(10); PUSH1 4; CALLDATALOAD; PUSH1 42; EQ;
     PUSH1 21; JUMPI; STOP; JUMPDEST(21); INVALID` -/
example : (run foldSimp exOracle {} exEnv
      [0x60, 4, 0x35, 0x60, 42, 0x14, 0x60, 10, 0x57, 0x00, 0x5b, 0x60, 4, 0x35, 0x60, 42, 0x14, 0x60, 21, 0x57, 0x00,
       0x5b, 0xfe] 100).ends.map (fun e => (e.st.pc, e.out, e.st.path, e.st.subst)) =
    [(9, .halt (.success []), [.not (.cmp .eq (.var "x" 256) (.lit 256 42))], []),
     (22, .halt .invalidOpcode, [.cmp .eq (.var "x" 256) (.lit 256 42)], [(.var "x" 256, .lit 256 42)])] := by
  decide +kernel


/-! ### message calls (Model.SevmCalls) -/

/-- **C01.sound_calls_from.** `sound_calls_gen` from ANY first state `cs0` (`runCFrom`: `SEVM.run(ex0)`) related to a
    concrete configuration — the frame `f0` in the world `ws` — with respect to the base world `w` (the world the
    storage maps, the balance chain and the created accounts of `cs0` are relative to; for a first transaction
    `ws = w`, `cs0 = initC …`: `relC_init`). Every untagged halting end is the outcome of `Evm.exec` from `ws`, `f0`
    under every valuation satisfying its path, its maps describe the final world, and (`EndInv`) its concretization
    map, balance chain and created accounts are well-formed — what `relC_nextTx` needs to start the next transaction
    from it. -/
theorem sound_calls_from {s : Simp} (hs : SimpSound s) (o : Oracle) (cfg : Cfg)
    (codes : List (Nat × List Nat)) (fuel : Nat) (p : Evm.Params) (w ws : Evm.World)
    (S : Nat → Prop) (cs0 : CState) (hSc : ∀ a prog, codeOf codes a = some prog → S a)
    (hmem : cfg.maxMem + 32 ≤ p.memLimit) (hdep : 1024 ≤ p.maxDepth)
    (hcodes : ∀ a, w.codeOf a = codeOf codes a)
    (hcb : ∀ a prog, codeOf codes a = some prog → ∀ b ∈ prog, b < 256)
    (hob : cfg.balances = true → OracleSound o) (hch : CreateHyp cfg p S w)
    (hoh : cfg.hsto = true → OracleSound o ∧ cfg.sha3 = true)
    (ce : CEnd) (hce : ce ∈ (runCFrom s o cfg codes fuel cs0).ends)
    (htag : ce.e.tag = .normal) (h : Evm.Halt) (hout : ce.e.out = .halt h) (I : Interp) (hI : I.Std)
    (hbal : cfg.balances = true → BalHyp I cfg w) (hsha : cfg.sha3 = true → ShaInterp I p cfg)
    (hhs : ∀ cs, VisitedC s o cfg codes cs0 cs → Sat I cs.st.path → HstoOK I p s cfg cs)
    (f0 : Evm.Frame) (hrel0 : RelC I p S w cs0 ws f0 []) (hsat : Sat I ce.e.st.path) :
    ∃ n w', Evm.exec p n ws f0 = some (w', haltWith h (ce.e.data.map (·.eval I))) ∧
        WRelM I S (wd w ce.created ce.nonce) w' (stoOf ce.stores) (evalLogs I ce.logs) (balSem I w ce.bal) ∧
        HRel I p S w' ce.hsto ∧ EndInv I S ce := by
  have hgood := exploreC_sound (o := o) (cfg := cfg) (codes := codes) (p := p) (w0 := w) (ws := ws)
    (S := S) (cs0 := cs0)
    (H := fun I => (cfg.balances = true → BalHyp I cfg w) ∧ (cfg.sha3 = true → ShaInterp I p cfg) ∧
      ∀ cs, VisitedC s o cfg codes cs0 cs → Sat I cs.st.path → HstoOK I p s cfg cs)
    hs hmem hdep hcodes hSc hcb hob (fun _ h => ⟨h.1, h.2.1⟩) hch hoh (fun _ _ h => h.2.2) fuel 0
    [cs0] {} (by
      intro cs hm
      rw [List.mem_singleton] at hm
      subst hm; exact ⟨goodC_init, .start⟩)
    (by intro e hm; cases hm)
  obtain ⟨w', ⟨n, hn⟩, hW, hH, hE⟩ := hgood ce hce htag h hout I hI ⟨hbal, hsha, hhs⟩ f0 hrel0 hsat
  exact ⟨n, w', hn, hW, hH, hE⟩

/-- **C01.sound_calls.** The same statement for the frame-stack machine `runC`, i.e. for programs that make message
    calls — CALL / CALLCODE (value: the literal 0), DELEGATECALL, STATICCALL to literal targets, nested to any depth
    the model follows: the target's code is looked up in `codes` (a target without code succeeds with no output), the
    callee runs on the same worklist, its result resumes the caller (success flag, return area truncated to
    `min(ret_size, len)`, RETURNDATASIZE / RETURNDATACOPY, storage and transient storage of *all* accounts rolled back
    when the callee failed, `msg.sender` / `address(this)` / value / static flag per call kind).
    Every untagged end `ce` of the run that reports an EVM outcome of kind `h`, and every valuation `I` satisfying its
    path: the reference EVM — `Spec.Evm.exec`, which executes nested calls — run on the transaction's first frame `f0`
    in the world `w` terminates with exactly that outcome (kind, and the returned bytes are the values of `ce.e.data`),
    in a world `w'` that is exactly what the end's storage maps say (`WRelM`): every slot of every *modelled* account
    (the transaction's target and every account with known code) holds the value of the term last stored there,
    unwritten slots are zero, and nothing else of the world — other accounts' storage, code, balances, logs —
    differs from `w`.
    Hypotheses, all visible: `hcodes` — the world's code is the known code; `hcb` — code is a byte string; `hz` —
    every modelled account starts with zero storage; `hdep` — the reference's depth limit admits 1024 nested frames
    (beyond it the model's path ends stuck); `hmem` as in `sound`; `hd0` — `f0` is a top-level frame.
    Also covered (decoded by the frame-stack machine): LOG0..LOG4 — `WRelM` says `w'.logs = w.logs ++` the end's
    events evaluated under `I` (emitting account, topics, data bytes; the events of failed callees are gone, as in the
    EVM; LOG in a static frame is WriteInStaticContext) —, EXTCODESIZE / EXTCODECOPY on literal addresses, CODESIZE.
    With `cfg.balances` on (off: those instructions end the path stuck): BALANCE / SELFBALANCE and CALL / CALLCODE with
    any value — `handle_insufficient_fund_case` (the insufficient-funds branch: flag 0, no return data), `transfer_value`
    (the sufficiency condition, the two `Store`s), the value as the callee's `msg.value`, rolled back with the callee;
    `WRelM` then says `w'.balanceOf a =` the model's balance array at `a` under `I` (`balSem`), for every account.
    Two more hypotheses then, both visible: `hob` — the solver's `unsat` answers are right (`Exec.select` simplifies a
    read of the balance array with them; nothing is assumed of the oracle when balances are off); `hbal` — `I`
    interprets the initial balance array as the start world's balances and `balance_00` as the empty array.
    With `cfg.sha3` on: SHA3 of a concrete-size memory range — the digest literal for concrete data, the application
    `f_sha3_<bits>(data)` otherwise, with the path conditions `sha3_data` appends; `hsha`: `I` interprets `f_sha3_<8n>`
    as the reference's hash of the `n` bytes and the model's hash of concrete data is the reference's.
    `hnc`: CREATE is not followed (`Cfg.create` off: it ends the path stuck); with it on see
    `sound_calls_create` below (`crMain` is an instance).
    Symbolic call / EXTCODE* targets, precompiles (as call targets) and cheat-code addresses end the path stuck: an
    error report, about which nothing is claimed. Known finding kept out by the tag `staticValue`: a value-bearing
    CALL in a static frame succeeds in the code (`TODO: revert if context is static`); the model stops there. Tagged ends (no claim):
    see `Tag` — among them `errKind` (LOG in a static frame with too few operands: the code reports
    WriteInStaticContext, the EVM a stack underflow). -/
theorem sound_calls_gen {s : Simp} (hs : SimpSound s) (o : Oracle) (cfg : Cfg) (env : Env)
    (codes : List (Nat × List Nat)) (this : Nat) (fuel : Nat) (p : Evm.Params) (w : Evm.World)
    (S : Nat → Prop) (hS0 : S this) (hSc : ∀ a prog, codeOf codes a = some prog → S a)
    (hmem : cfg.maxMem + 32 ≤ p.memLimit) (hdep : 1024 ≤ p.maxDepth)
    (hcodes : ∀ a, w.codeOf a = codeOf codes a)
    (hcb : ∀ a prog, codeOf codes a = some prog → ∀ b ∈ prog, b < 256)
    (hz : ∀ a, S a → ZeroStorage w a)
    (hob : cfg.balances = true → OracleSound o) (hch : CreateHyp cfg p S w)
    (hoh : cfg.hsto = true → OracleSound o ∧ cfg.sha3 = true)
    (ce : CEnd) (hce : ce ∈ (runC s o cfg env codes this fuel).ends)
    (htag : ce.e.tag = .normal) (h : Evm.Halt) (hout : ce.e.out = .halt h) (I : Interp) (hI : I.Std)
    (hbal : cfg.balances = true → BalHyp I cfg w) (hsha : cfg.sha3 = true → ShaInterp I p cfg)
    (hhs : ∀ cs, VisitedC s o cfg codes (initC env codes this) cs → Sat I cs.st.path → HstoOK I p s cfg cs)
    (f0 : Evm.Frame) (hR0 : R I env ((codeOf codes this).getD []) p initState f0) (hthis : f0.this = this)
    (hd0 : f0.depth = 0) (hsat : Sat I ce.e.st.path) :
    ∃ n w', Evm.exec p n w f0 = some (w', haltWith h (ce.e.data.map (·.eval I))) ∧
        WRelM I S (wd w ce.created ce.nonce) w' (stoOf ce.stores) (evalLogs I ce.logs) (balSem I w ce.bal) ∧
        HRel I p S w' ce.hsto := by
  obtain ⟨n, w', hn, hW, hH, _⟩ := sound_calls_from hs o cfg codes fuel p w w S (initC env codes this) hSc hmem hdep hcodes hcb
    hob hch hoh ce hce htag h hout I hI hbal hsha hhs f0 (relC_init hR0 hthis hd0 hcb hS0 hz) hsat
  exact ⟨n, w', hn, hW, hH⟩

/-- **C01.sound_calls** (statement and commentary above; `hnc`: CREATE is not followed — it ends the path stuck —, so
    nothing is ever created (`runC_noCr`) and the relation is against the start world `w` itself). -/
theorem sound_calls {s : Simp} (hs : SimpSound s) (o : Oracle) (cfg : Cfg) (env : Env)
    (codes : List (Nat × List Nat)) (this : Nat) (fuel : Nat) (p : Evm.Params) (w : Evm.World)
    (hmem : cfg.maxMem + 32 ≤ p.memLimit) (hdep : 1024 ≤ p.maxDepth)
    (hcodes : ∀ a, w.codeOf a = codeOf codes a)
    (hcb : ∀ a prog, codeOf codes a = some prog → ∀ b ∈ prog, b < 256)
    (hz : ∀ a, Modelled codes this a → ZeroStorage w a)
    (hob : cfg.balances = true → OracleSound o) (hnc : cfg.create = false) (hnh : cfg.hsto = false)
    (ce : CEnd) (hce : ce ∈ (runC s o cfg env codes this fuel).ends)
    (htag : ce.e.tag = .normal) (h : Evm.Halt) (hout : ce.e.out = .halt h) (I : Interp) (hI : I.Std)
    (hbal : cfg.balances = true → BalHyp I cfg w) (hsha : cfg.sha3 = true → ShaInterp I p cfg)
    (f0 : Evm.Frame) (hR0 : R I env ((codeOf codes this).getD []) p initState f0) (hthis : f0.this = this)
    (hd0 : f0.depth = 0) (hsat : Sat I ce.e.st.path) :
    ∃ n w', Evm.exec p n w f0 = some (w', haltWith h (ce.e.data.map (·.eval I))) ∧
        WRelM I (Modelled codes this) w w' (stoOf ce.stores) (evalLogs I ce.logs) (balSem I w ce.bal) := by
  obtain ⟨n, w', hn, hW, _⟩ := sound_calls_gen hs o cfg env codes this fuel p w (Modelled codes this) (Or.inl rfl)
    (fun _ _ h => modelled_of_code h) hmem hdep hcodes hcb hz hob (CreateHyp.off hnc)
    (fun h' => by rw [hnh] at h'; cases h') ce hce htag h hout I hI hbal hsha (fun _ _ _ => hstoOK_off hnh)
    f0 hR0 hthis hd0 hsat
  obtain ⟨hc, hn0⟩ := runC_noCr hnc ce hce
  rw [hc, hn0, wd_zero] at hW
  exact ⟨n, w', hn, hW⟩

/-- **C01.sound_calls_create.** The same with CREATE followed (`cfg.create` on, `hcr`), with or without the balances
    layer (a CREATE whose value is not the literal 0 needs it — `cfg.balances` — as a value-bearing CALL does: else it
    ends the path stuck). The modelled accounts now include the allocator's addresses (`ModelledC`), which must have
    no storage in the start world like the others (`hz`). `hal`: the reference's allocator agrees with the code's
    `new_address()` — its `n`-th address from the start world's counter on is `(allocBase + n) mod 2^160`; `hbw`: the
    start world's balances are words. The conclusion's `WRelM … (wd w ce.created ce.nonce) w' …` contains the code
    clause for created accounts: `w'.codeOf a` is the code the model installed (`ce.created`, newest first) and
    `w.codeOf a` elsewhere; and `w'.created = w.created + ce.nonce` (one address per attempt, never rolled back).
    Covered: init code from concrete memory bytes, the insufficient-funds branch and the value transfer into the new
    account, the collision rule, the depth rule of the reference (through `hdep`), constructor frames (empty calldata,
    fresh storage of the new account), code installation, failure with rollback of storage, logs, balances and the
    created accounts, EIP-211 return data, calls into created accounts, nested creates. Error reports (no claim):
    CREATE2, init code or constructor output with symbolic bytes. -/
theorem sound_calls_create {s : Simp} (hs : SimpSound s) (o : Oracle) (cfg : Cfg) (env : Env)
    (codes : List (Nat × List Nat)) (this : Nat) (fuel : Nat) (p : Evm.Params) (w : Evm.World)
    (hmem : cfg.maxMem + 32 ≤ p.memLimit) (hdep : 1024 ≤ p.maxDepth)
    (hcodes : ∀ a, w.codeOf a = codeOf codes a)
    (hcb : ∀ a prog, codeOf codes a = some prog → ∀ b ∈ prog, b < 256)
    (hz : ∀ a, ModelledC cfg codes this a → ZeroStorage w a)
    (hob : cfg.balances = true → OracleSound o) (hcr : cfg.create = true) (hnh : cfg.hsto = false)
    (hal : ∀ n, p.newAddress (w.created + n) = (cfg.allocBase + n) % 2 ^ 160)
    (hbw : ∀ a, w.balanceOf a < 2 ^ 256)
    (ce : CEnd) (hce : ce ∈ (runC s o cfg env codes this fuel).ends)
    (htag : ce.e.tag = .normal) (h : Evm.Halt) (hout : ce.e.out = .halt h) (I : Interp) (hI : I.Std)
    (hbal : cfg.balances = true → BalHyp I cfg w) (hsha : cfg.sha3 = true → ShaInterp I p cfg)
    (f0 : Evm.Frame) (hR0 : R I env ((codeOf codes this).getD []) p initState f0) (hthis : f0.this = this)
    (hd0 : f0.depth = 0) (hsat : Sat I ce.e.st.path) :
    ∃ n w', Evm.exec p n w f0 = some (w', haltWith h (ce.e.data.map (·.eval I))) ∧
        WRelM I (ModelledC cfg codes this) (wd w ce.created ce.nonce) w' (stoOf ce.stores) (evalLogs I ce.logs)
          (balSem I w ce.bal) := by
  obtain ⟨n, w', hn, hW, _⟩ := sound_calls_gen hs o cfg env codes this fuel p w (ModelledC cfg codes this)
    (Or.inl (Or.inl rfl)) (fun _ _ h => Or.inl (modelled_of_code h)) hmem hdep hcodes hcb hz hob
    (fun hc => ⟨hal, fun n => Or.inr ⟨hc, n, rfl⟩, hbw⟩) (fun h' => by rw [hnh] at h'; cases h') ce hce htag h hout
    I hI hbal hsha (fun _ _ _ => hstoOK_off hnh) f0 hR0 hthis hd0 hsat
  exact ⟨n, w', hn, hW⟩

/-- **C01.sound_calls_hsto.** The same with SLOAD / SSTORE at mapping and dynamic-array locations followed
    (`cfg.hsto` on, which needs the SHA3 layer, `hs3`; CREATE on or off — `hch`, `S` as in `sound_calls_gen`: use
    `ModelledC` / `Modelled`). The conclusion gains the storage clause for the hashed cells, `HRel I p S w' ce.hsto`: the
    cells of the chain are well-formed, and every slot from 2^64 on of a modelled account holds, in the final world,
    what the chain of writes of the path says — the value last stored at the location `hLoc` (Keccak-256 of
    key ‖ base, resp. of base plus index) of a cell, zero elsewhere; `WRelM` now speaks about the plain slots (below
    2^64) only. `ho`: the solver's `unsat` answers are right (`Exec.select`).
    That the location word the model decodes as the cell `(kind, base, key)` denotes `hLoc` of that cell is proved
    (`Lemmas.decodeSlot_ok`, from `ShaInterp` and the path conditions). What `hhs` assumes — visibly, in the style
    of `ShaOK`, at every visited state whose path the valuation satisfies, for the location about to be accessed — are
    the two facts about Keccak-256 that halmos assumes too: the location is not a plain slot (≥ 2^64), and no other
    cell written on the path lies there (`HNoColl`: no collision between the hashed cells met).
    The converse directions are `C02.complete_calls_hsto` and `C10.flagged_calls_hsto`. -/
theorem sound_calls_hsto {s : Simp} (hs : SimpSound s) (o : Oracle) (ho : OracleSound o) (cfg : Cfg)
    (hs3 : cfg.sha3 = true)
    (env : Env) (codes : List (Nat × List Nat)) (this : Nat) (fuel : Nat) (p : Evm.Params) (w : Evm.World)
    (S : Nat → Prop) (hS0 : S this) (hSc : ∀ a prog, codeOf codes a = some prog → S a)
    (hmem : cfg.maxMem + 32 ≤ p.memLimit) (hdep : 1024 ≤ p.maxDepth)
    (hcodes : ∀ a, w.codeOf a = codeOf codes a)
    (hcb : ∀ a prog, codeOf codes a = some prog → ∀ b ∈ prog, b < 256)
    (hz : ∀ a, S a → ZeroStorage w a) (hch : CreateHyp cfg p S w)
    (ce : CEnd) (hce : ce ∈ (runC s o cfg env codes this fuel).ends)
    (htag : ce.e.tag = .normal) (h : Evm.Halt) (hout : ce.e.out = .halt h) (I : Interp) (hI : I.Std)
    (hbal : cfg.balances = true → BalHyp I cfg w) (hsha : ShaInterp I p cfg)
    (hhs : ∀ cs, VisitedC s o cfg codes (initC env codes this) cs → Sat I cs.st.path → HstoOK I p s cfg cs)
    (f0 : Evm.Frame) (hR0 : R I env ((codeOf codes this).getD []) p initState f0) (hthis : f0.this = this)
    (hd0 : f0.depth = 0) (hsat : Sat I ce.e.st.path) :
    ∃ n w', Evm.exec p n w f0 = some (w', haltWith h (ce.e.data.map (·.eval I))) ∧
        WRelM I S (wd w ce.created ce.nonce) w' (stoOf ce.stores) (evalLogs I ce.logs) (balSem I w ce.bal) ∧
        HRel I p S w' ce.hsto :=
  sound_calls_gen hs o cfg env codes this fuel p w S hS0 hSc hmem hdep hcodes hcb hz (fun _ => ho) hch
    (fun _ => ⟨ho, hs3⟩) ce hce htag h hout I hI hbal (fun _ => hsha) hhs f0 hR0 hthis hd0 hsat

/-! non-vacuity: a caller and a callee -/

/-- the callee at 0x2000: `sstore(0, 7); mstore(0, 0x2a); return(0, 32)` -/
def calleeCode : List Nat := [0x60, 7, 0x60, 0, 0x55, 0x60, 0x2a, 0x60, 0, 0x52, 0x60, 32, 0x60, 0, 0xf3]

/-- the caller at 0x1000: `call(0, 0x2000, 0, 0, 0, 0, 32); pop; sstore(1, mload(0)); return(0, 32)`:
    `PUSH1 32; PUSH1 0; PUSH1 0; PUSH1 0; PUSH1 0; PUSH2 0x2000; PUSH1 0; CALL; POP; PUSH1 0; MLOAD; PUSH1 1; SSTORE;
     PUSH1 32; PUSH1 0; RETURN` -/
def callerCode : List Nat :=
  [0x60, 32, 0x60, 0, 0x60, 0, 0x60, 0, 0x60, 0, 0x61, 0x20, 0x00, 0x60, 0, 0xf1, 0x50, 0x60, 0, 0x51, 0x60, 1, 0x55,
   0x60, 32, 0x60, 0, 0xf3]

def exCodes : List (Nat × List Nat) := [(0x1000, callerCode), (0x2000, calleeCode)]
def exWC : Evm.World := { code := exCodes, storage := [], transient := [], balance := [] }
def exPC : Evm.Params := { origin := 0, memLimit := 2 ^ 20 + 32, maxDepth := 1024 }

/-- the model's single end: success, the callee's 32 bytes as data, and the maps of both accounts -/
theorem call_end : ∃ ce ∈ (runC foldSimp exOracle {} exEnv exCodes 0x1000 100).ends, ce.e.tag = .normal ∧
    ce.e.out = .halt (.success []) ∧ ce.e.st.path = [] ∧
    ce.e.data.map (·.eval exI) = List.replicate 31 0 ++ [0x2a] ∧
    (stoOf ce.stores 0x2000).storage = [(0, .lit 256 7)] ∧ (stoOf ce.stores 0x1000).storage = [(1, .lit 256 0x2a)] := by
  decide +kernel

/-- `sound_calls` on it: the reference EVM, executing the nested call, returns those bytes, slot 0 of the *callee*
    holds 7 and slot 1 of the caller holds 0x2a in the final world -/
example : ∃ n w', Evm.exec exPC n exWC { exF0 with code := callerCode } =
        some (w', .success (List.replicate 31 0 ++ [0x2a])) ∧
      Evm.lookupD w'.storage (0x2000, 0) = 7 ∧ Evm.lookupD w'.storage (0x1000, 1) = 0x2a ∧
      Evm.lookupD w'.storage (0x2000, 1) = 0 := by
  obtain ⟨ce, hce, htag, hout, hp, hd, hs2, hs1⟩ := call_end
  have hR : R exI exEnv ((codeOf exCodes 0x1000).getD []) exPC initState { exF0 with code := callerCode } :=
    ⟨rfl, rfl, StackRel.nil, ⟨exR.env.caller, exR.env.origin, exR.env.callvalue, exR.env.address, exR.env.cd,
      exR.env.cdByte, exR.env.cdSize, exR.env.isStatic⟩, exR.subst, MemRel.nil _, MemRel.nil _⟩
  obtain ⟨n, w', h1, hW⟩ := sound_calls foldSimp_sound exOracle {} exEnv exCodes 0x1000 100 exPC exWC (by decide)
    (by decide) (fun a => rfl) (by
      intro a prog hc b hb
      have hall : ∀ q ∈ exCodes, ∀ b ∈ q.2, b < 256 := by decide
      unfold codeOf at hc
      cases hf : exCodes.find? (fun q => q.1 == a) with
      | none => rw [hf] at hc; cases hc
      | some q =>
        rw [hf] at hc
        simp only [Option.map_some, Option.some.injEq] at hc
        subst hc
        exact hall q (List.mem_of_find?_eq_some hf) b hb)
    (fun _ _ _ => ⟨rfl, rfl⟩) (fun h => by cases h) rfl rfl ce hce htag (.success []) hout exI exI_std (fun h => by cases h) (fun h => by cases h)
    _ hR rfl rfl (by rw [hp]; exact Sat.nil _)
  refine ⟨n, w', ?_, ?_, ?_, ?_⟩
  · have hv : haltWith (.success []) (ce.e.data.map (·.eval exI)) = .success (List.replicate 31 0 ++ [0x2a]) := by
      rw [hd]; rfl
    rw [← hv]; exact h1
  · have := hW.hsto 0x2000 (Or.inr (by decide)) 0 (by decide)
    rw [hs2] at this
    exact this.trans (by decide +kernel)
  · have := hW.hsto 0x1000 (Or.inl rfl) 1 (by decide)
    rw [hs1] at this
    exact this.trans (by decide +kernel)
  · have := hW.hsto 0x2000 (Or.inr (by decide)) 1 (by decide)
    rw [hs2] at this
    exact this.trans (by decide +kernel)

/-- and the reference interpreter agrees directly -/
example : (Evm.exec exPC 40 exWC { exF0 with code := callerCode }).map
      (fun r => (r.2, Evm.lookupD r.1.storage (0x2000, 0), Evm.lookupD r.1.storage (0x1000, 1))) =
    some (.success (List.replicate 31 0 ++ [0x2a]), 7, 0x2a) := by decide +kernel

/-- the world's log, spelled out: what `sound_calls` says about events -/
theorem sound_calls_logs {s : Simp} (hs : SimpSound s) (o : Oracle) (cfg : Cfg) (env : Env)
    (codes : List (Nat × List Nat)) (this : Nat) (fuel : Nat) (p : Evm.Params) (w : Evm.World)
    (hmem : cfg.maxMem + 32 ≤ p.memLimit) (hdep : 1024 ≤ p.maxDepth)
    (hcodes : ∀ a, w.codeOf a = codeOf codes a)
    (hcb : ∀ a prog, codeOf codes a = some prog → ∀ b ∈ prog, b < 256)
    (hz : ∀ a, Modelled codes this a → ZeroStorage w a)
    (hob : cfg.balances = true → OracleSound o) (hnc : cfg.create = false) (hnh : cfg.hsto = false)
    (ce : CEnd) (hce : ce ∈ (runC s o cfg env codes this fuel).ends)
    (htag : ce.e.tag = .normal) (h : Evm.Halt) (hout : ce.e.out = .halt h) (I : Interp) (hI : I.Std)
    (hbal : cfg.balances = true → BalHyp I cfg w) (hsha : cfg.sha3 = true → ShaInterp I p cfg)
    (f0 : Evm.Frame) (hR0 : R I env ((codeOf codes this).getD []) p initState f0) (hthis : f0.this = this)
    (hd0 : f0.depth = 0) (hsat : Sat I ce.e.st.path) :
    ∃ n w', Evm.exec p n w f0 = some (w', haltWith h (ce.e.data.map (·.eval I))) ∧
        w'.logs = w.logs ++ ce.logs.map (fun l => (l.addr.eval I, l.topics.map (·.denote I), l.data.map (·.eval I))) := by
  obtain ⟨n, w', hn, hW⟩ := sound_calls hs o cfg env codes this fuel p w hmem hdep hcodes hcb hz hob hnc hnh ce hce htag h hout
    I hI hbal hsha f0 hR0 hthis hd0 hsat
  exact ⟨n, w', hn, hW.logs⟩

/-- the balances, spelled out: what `sound_calls` says with `cfg.balances` on — every account's final balance is the
    value, under `I`, of the model's balance array (the `Store`s of the transfers over the start world's balances) -/
theorem sound_calls_balances {s : Simp} (hs : SimpSound s) (o : Oracle) (cfg : Cfg) (env : Env)
    (codes : List (Nat × List Nat)) (this : Nat) (fuel : Nat) (p : Evm.Params) (w : Evm.World)
    (hmem : cfg.maxMem + 32 ≤ p.memLimit) (hdep : 1024 ≤ p.maxDepth)
    (hcodes : ∀ a, w.codeOf a = codeOf codes a)
    (hcb : ∀ a prog, codeOf codes a = some prog → ∀ b ∈ prog, b < 256)
    (hz : ∀ a, Modelled codes this a → ZeroStorage w a)
    (hob : cfg.balances = true → OracleSound o) (hnc : cfg.create = false) (hnh : cfg.hsto = false)
    (ce : CEnd) (hce : ce ∈ (runC s o cfg env codes this fuel).ends)
    (htag : ce.e.tag = .normal) (h : Evm.Halt) (hout : ce.e.out = .halt h) (I : Interp) (hI : I.Std)
    (hbal : cfg.balances = true → BalHyp I cfg w) (hsha : cfg.sha3 = true → ShaInterp I p cfg)
    (f0 : Evm.Frame) (hR0 : R I env ((codeOf codes this).getD []) p initState f0) (hthis : f0.this = this)
    (hd0 : f0.depth = 0) (hsat : Sat I ce.e.st.path) :
    ∃ n w', Evm.exec p n w f0 = some (w', haltWith h (ce.e.data.map (·.eval I))) ∧
        ∀ a, w'.balanceOf a = balSem I w ce.bal a := by
  obtain ⟨n, w', hn, hW⟩ := sound_calls hs o cfg env codes this fuel p w hmem hdep hcodes hcb hz hob hnc hnh ce hce htag h hout
    I hI hbal hsha f0 hR0 hthis hd0 hsat
  exact ⟨n, w', hn, hW.bal⟩

/-- events: the callee at 0x2000 emits `LOG1(topic 7, mem[0..32) = 0x2a)` and then stops (`logCallee true`) or hits
    INVALID (`logCallee false`); the caller calls it and emits an empty `LOG0`. On both sides the world's log is the
    callee's event followed by the caller's when the callee succeeds, and the caller's alone when it fails. -/
def logCallee (ok : Bool) : List Nat :=
  [0x60, 0x2a, 0x60, 0, 0x52, 0x60, 7, 0x60, 32, 0x60, 0, 0xa1, if ok then 0x00 else 0xfe]
def logCaller : List Nat :=
  [0x60, 0, 0x60, 0, 0x60, 0, 0x60, 0, 0x60, 0, 0x61, 0x20, 0x00, 0x60, 0, 0xf1, 0x50, 0x60, 0, 0x60, 0, 0xa0, 0x00]
def logCodes (ok : Bool) : List (Nat × List Nat) := [(0x1000, logCaller), (0x2000, logCallee ok)]

example :
    (runC foldSimp exOracle {} exEnv (logCodes true) 0x1000 100).ends.map (fun ce => (ce.e.out, ce.e.tag)) =
      [(.halt (.success []), .normal)] ∧
    (runC foldSimp exOracle {} exEnv (logCodes true) 0x1000 100).ends.map (fun ce => evalLogs exI ce.logs) =
      [[(0x2000, [7], List.replicate 31 0 ++ [0x2a]), (0x1000, [], [])]] ∧
    (Evm.exec exPC 40 { exWC with code := logCodes true } { exF0 with code := logCaller }).map (fun r => r.1.logs) =
      some [(0x2000, [7], List.replicate 31 0 ++ [0x2a]), (0x1000, [], [])] := by
  decide +kernel

example :
    (runC foldSimp exOracle {} exEnv (logCodes false) 0x1000 100).ends.map (fun ce => (ce.e.out, ce.e.tag)) =
      [(.halt (.success []), .normal)] ∧
    (runC foldSimp exOracle {} exEnv (logCodes false) 0x1000 100).ends.map (fun ce => evalLogs exI ce.logs) =
      [[(0x1000, [], [])]] ∧
    (Evm.exec exPC 40 { exWC with code := logCodes false } { exF0 with code := logCaller }).map (fun r => r.1.logs) =
      some [(0x1000, [], [])] := by
  decide +kernel

/-- EXTCODESIZE / EXTCODECOPY / CODESIZE on both sides: `mstore(0, extcodesize(0x2000)); mstore(32, codesize());
    extcodecopy(0x2000, 64, 0, 4); return(0, 68)` with the callee of the first example at 0x2000 -/
def extCode : List Nat :=
  [0x61, 0x20, 0x00, 0x3b, 0x60, 0, 0x52, 0x38, 0x60, 32, 0x52, 0x60, 4, 0x60, 0, 0x60, 64, 0x61, 0x20, 0x00, 0x3c,
   0x60, 68, 0x60, 0, 0xf3]

example :
    (runC foldSimp exOracle {} exEnv [(0x1000, extCode), (0x2000, calleeCode)] 0x1000 100).ends.map
        (fun ce => (ce.e.out, ce.e.tag, ce.e.data.map (·.eval exI))) =
      [(.halt (.success []), .normal,
        List.replicate 31 0 ++ [15] ++ List.replicate 31 0 ++ [26] ++ [0x60, 7, 0x60, 0])] ∧
    (Evm.exec exPC 40 { exWC with code := [(0x1000, extCode), (0x2000, calleeCode)] } { exF0 with code := extCode }).map
        (·.2) = some (.success (List.replicate 31 0 ++ [15] ++ List.replicate 31 0 ++ [26] ++ [0x60, 7, 0x60, 0])) := by
  decide +kernel

/-- balances (`cfg.balances` on): the caller at 0x1000 — which holds 100 wei in the start world — sends 5 wei to
    0x2000 and returns its own balance: `call(0, 0x2000, 5, 0, 0, 0, 0); pop; mstore(0, selfbalance()); return(0, 32)` -/
def valCaller : List Nat :=
  [0x60, 0, 0x60, 0, 0x60, 0, 0x60, 0, 0x60, 5, 0x61, 0x20, 0x00, 0x60, 0, 0xf1, 0x50, 0x47, 0x60, 0, 0x52,
   0x60, 32, 0x60, 0, 0xf3]
def valCodes : List (Nat × List Nat) := [(0x1000, valCaller), (0x2000, [0x00])]
/-- `balance_0` is 100 at 0x1000 and 0 elsewhere; `balance_00` is the empty array -/
def exIB : Interp := Interp.std (fun x _ => if x = "x" then 42 else 0) (fun _ => false) (fun _ _ _ _ => 0)
  (fun name _ a => if name = "balance_0" ∧ a = 0x1000 then 100 else 0)
def exWB : Evm.World := { code := valCodes, storage := [], transient := [], balance := [(0x1000, 100)] }

/-- the model explores the transfer (path satisfied by the valuation: 95 returned, 95 / 5 wei left) and the
    insufficient-funds branch (not satisfied by it); the reference does the transfer -/
example :
    (runC foldSimp exOracle { balances := true } exEnv valCodes 0x1000 100).ends.map
        (fun ce => (ce.e.st.path.all (·.eval exIB), (ce.e.data.map (·.eval exIB)).getLast?,
          balSem exIB exWB ce.bal 0x1000, balSem exIB exWB ce.bal 0x2000)) =
      [(true, some 95, 95, 5), (false, some 100, 100, 0)] ∧
    (Evm.exec exPC 60 exWB { exF0 with code := valCaller }).map
        (fun r => (r.2.data.getLast?, r.1.balanceOf 0x1000, r.1.balanceOf 0x2000)) = some (some 95, 95, 5) := by
  decide +kernel

/-- the valuation agrees with the start world on the initial balances (`hbal` of `sound_calls`), and the start world
    respects the bound of `C02.complete_calls` -/
theorem exIB_bal : BalHyp exIB { balances := true } exWB := by
  refine ⟨fun a => ?_, fun a => ?_⟩
  · by_cases h : a = 0x1000
    · subst h; decide +kernel
    · have h' : ((0x1000 : Nat) == a) = false := by rw [beq_eq_false_iff_ne]; exact fun e => h e.symm
      simp [baseVal, exIB, Interp.std, h, exWB, Evm.World.balanceOf, Evm.lookupD, List.find?_cons, h']
  · simp [exIB, Interp.std]

theorem exWB_bound : BalBound exWB := by
  refine ⟨[0x1000], by simp, fun a ha => ?_, by decide +kernel⟩
  have h : ¬ a = 0x1000 := by simpa using ha
  have h' : ((0x1000 : Nat) == a) = false := by rw [beq_eq_false_iff_ne]; exact fun e => h e.symm
  simp [exWB, Evm.World.balanceOf, Evm.lookupD, List.find?_cons, h']

/-- SHA3 (`cfg.sha3` on): `mstore(0, 0x2a); mstore(0, keccak256(mem[0..32))); return(0, 32)` — the model pushes the
    digest literal (concrete data) and appends `f_sha3_256(0x2a) == digest` and the two injectivity witnesses; the
    reference (with the real Keccak-256) returns the same digest -/
def shaCode : List Nat := [0x60, 0x2a, 0x60, 0, 0x52, 0x60, 32, 0x60, 0, 0x20, 0x60, 0, 0x52, 0x60, 32, 0x60, 0, 0xf3]

example :
    (runC foldSimp exOracle { sha3 := true } exEnv [(0x1000, shaCode)] 0x1000 100).ends.map
        (fun ce => (ce.e.out, ce.e.tag, ce.e.st.path.length, Evm.bytesToNat (ce.e.data.map (·.eval exI)))) =
      [(.halt (.success []), .normal, 3, Keccak.keccak256 (List.replicate 31 0 ++ [0x2a]))] ∧
    (Evm.exec { exPC with keccak := Keccak.keccak256 } 40 { exWC with code := [(0x1000, shaCode)] }
        { exF0 with code := shaCode }).map (fun r => Evm.bytesToNat r.2.data) =
      some (Keccak.keccak256 (List.replicate 31 0 ++ [0x2a])) := by
  decide +kernel

/-- CREATE (`cfg.create` on: `sound_calls_create`): the runtime
    code `mstore(0, caller); mstore(32, address); return(0, 64)` -/
def crRuntime : List Nat := [0x33, 0x60, 0, 0x52, 0x30, 0x60, 0x20, 0x52, 0x60, 0x40, 0x60, 0, 0xf3]
/-- its constructor: `mstore(0, <runtime>); return(19, 13)` -/
def crInit : List Nat := [0x6c] ++ crRuntime ++ [0x60, 0, 0x52, 0x60, 13, 0x60, 19, 0xf3]
/-- the creator: the init code into memory, `a = create(0, 0, 22)`, `mstore(0x40, a)`, `call(a)` with the return area
    `[0, 0x40)`, `return(0, 0x60)` -/
def crMain : List Nat :=
  [0x7f] ++ crInit ++ List.replicate 10 0 ++ [0x60, 0, 0x52,
   0x60, 22, 0x60, 0, 0x60, 0, 0xf0, 0x80, 0x60, 0x40, 0x52,
   0x60, 0x40, 0x60, 0, 0x60, 0, 0x60, 0, 0x60, 0, 0x85, 0x61, 0xff, 0xff, 0xf1, 0x50, 0x50,
   0x60, 0x60, 0x60, 0, 0xf3]

/-- model and reference agree: the new account `0xaaaa0002` holds the runtime code, which sees the creator as its caller -/
example :
    (runC foldSimp exOracle { create := true } exEnv [(0x1000, crMain)] 0x1000 200).ends.map
        (fun ce => (ce.e.out, ce.e.tag, (ce.e.data.map (·.eval exI)))) =
      [(.halt (.success []), .normal,
        Evm.natToBytes 32 0x1000 ++ Evm.natToBytes 32 0xaaaa0002 ++ Evm.natToBytes 32 0xaaaa0002)] ∧
    (runC foldSimp exOracle { create := true } exEnv [(0x1000, crMain)] 0x1000 200).ends.map
        (fun ce => codeOf ce.created 0xaaaa0002) = [some crRuntime] := by
  decide +kernel

example :
    (Evm.exec exPC 60 { exWC with code := [(0x1000, crMain)] } { exF0 with code := crMain }).map (fun r => r.2) =
      some (.success (Evm.natToBytes 32 0x1000 ++ Evm.natToBytes 32 0xaaaa0002 ++ Evm.natToBytes 32 0xaaaa0002)) ∧
    (Evm.exec exPC 60 { exWC with code := [(0x1000, crMain)] } { exF0 with code := crMain }).map
        (fun r => r.1.codeOf 0xaaaa0002) = some (some crRuntime) := by
  decide +kernel

/-- the reference with the code's allocator (`con_addr(magic_address + new_address_offset + n)`) -/
def crP : Evm.Params := { exPC with newAddress := fun n => (0xaaaa0001 + n) % 2 ^ 160 }
def crCodes : List (Nat × List Nat) := [(0x1000, crMain)]
def crW : Evm.World := { code := crCodes, storage := [], transient := [], balance := [] }

theorem create_end : ∃ ce ∈ (runC foldSimp exOracle { create := true } exEnv crCodes 0x1000 200).ends,
    ce.e.tag = .normal ∧ ce.e.out = .halt (.success []) ∧ ce.e.st.path = [] ∧
    ce.e.data.map (·.eval exI) =
      Evm.natToBytes 32 0x1000 ++ Evm.natToBytes 32 0xaaaa0002 ++ Evm.natToBytes 32 0xaaaa0002 ∧
    codeOf ce.created 0xaaaa0002 = some crRuntime := by
  decide +kernel

/-- `sound_calls_create` on it (non-vacuity): the reference EVM, executing the CREATE and the call into the
    new account, returns those bytes, and the new account `0xaaaa0002` holds the runtime code in the final world -/
example : ∃ n w', Evm.exec crP n crW { exF0 with code := crMain } =
        some (w', .success (Evm.natToBytes 32 0x1000 ++ Evm.natToBytes 32 0xaaaa0002 ++ Evm.natToBytes 32 0xaaaa0002)) ∧
      w'.codeOf 0xaaaa0002 = some crRuntime := by
  obtain ⟨ce, hce, htag, hout, hp, hd, hcr⟩ := create_end
  have hR : R exI exEnv ((codeOf crCodes 0x1000).getD []) crP initState { exF0 with code := crMain } :=
    ⟨rfl, rfl, StackRel.nil, ⟨exR.env.caller, exR.env.origin, exR.env.callvalue, exR.env.address, exR.env.cd,
      exR.env.cdByte, exR.env.cdSize, exR.env.isStatic⟩, exR.subst, MemRel.nil _, MemRel.nil _⟩
  obtain ⟨n, w', h1, hW⟩ := sound_calls_create foldSimp_sound exOracle { create := true } exEnv crCodes 0x1000
    200 crP crW (by decide) (by decide) (fun a => rfl) (by
      intro a prog hc b hb
      have hall : ∀ q ∈ crCodes, ∀ b ∈ q.2, b < 256 := by decide
      unfold codeOf at hc
      cases hf : crCodes.find? (fun q => q.1 == a) with
      | none => rw [hf] at hc; cases hc
      | some q =>
        rw [hf] at hc
        simp only [Option.map_some, Option.some.injEq] at hc
        subst hc
        exact hall q (List.mem_of_find?_eq_some hf) b hb)
    (fun _ _ _ => ⟨rfl, rfl⟩) (fun h => by cases h) rfl rfl
    (fun n => by show (0xaaaa0001 + (0 + n)) % 2 ^ 160 = _; rw [Nat.zero_add])
    (fun a => by show Evm.lookupD [] a 0 < 2 ^ 256; simp [Evm.lookupD])
    ce hce htag (.success []) hout exI exI_std (fun h => by cases h) (fun h => by cases h) _ hR rfl rfl
    (by rw [hp]; exact Sat.nil _)
  refine ⟨n, w', ?_, ?_⟩
  · rw [h1, hd]; rfl
  · rw [hW.code, wd_codeOf, hcr]; rfl

/-- a CREATE with a value (`cfg.create` and `cfg.balances` on): `a = create(5, 0, 0)` (empty init code),
    `mstore(0, a); mstore(32, selfbalance()); return(0, 64)` -/
def crValMain : List Nat :=
  [0x60, 0, 0x60, 0, 0x60, 5, 0xf0, 0x60, 0, 0x52, 0x47, 0x60, 32, 0x52, 0x60, 64, 0x60, 0, 0xf3]
def crValW : Evm.World := { code := [(0x1000, crValMain)], storage := [], transient := [], balance := [(0x1000, 100)] }

/-- the model explores the creation (path satisfied by the valuation: the new address and 95 returned, 5 wei in the
    new account, which exists with empty code) and the insufficient-funds branch (not satisfied by it); the reference
    does the creation -/
example :
    (runC foldSimp exOracle { create := true, balances := true } exEnv [(0x1000, crValMain)] 0x1000 100).ends.map
        (fun ce => (ce.e.st.path.all (·.eval exIB), (ce.e.data.map (·.eval exIB)).getLast?,
          balSem exIB crValW ce.bal 0x1000, balSem exIB crValW ce.bal 0xaaaa0002)) =
      [(true, some 95, 95, 5), (false, some 100, 100, 0)] ∧
    (runC foldSimp exOracle { create := true, balances := true } exEnv [(0x1000, crValMain)] 0x1000 100).ends.map
        (fun ce => (codeOf ce.created 0xaaaa0002, ce.nonce)) = [(some [], 1), (none, 1)] ∧
    (Evm.exec crP 60 crValW { exF0 with code := crValMain }).map
        (fun r => (r.2.data.getLast?, r.1.balanceOf 0x1000, r.1.balanceOf 0xaaaa0002)) = some (some 95, 95, 5) ∧
    (Evm.exec crP 60 crValW { exF0 with code := crValMain }).map
        (fun r => (r.1.codeOf 0xaaaa0002, r.1.created)) = some (some [], 1) := by
  decide +kernel

/-- **C01.mapping_load_partial.** Storage cells at mapping and dynamic-array locations (`cfg.hsto`: SLOAD / SSTORE at
    `f_sha3_512(key ‖ base)` — `SolidityStorage` for a single-level mapping with a 256-bit key, `kind = 2` — and at
    `f_sha3_256(base) + index` — a dynamic array, `kind = 1`, the key term being `0 + index`), cell level: what a load
    returns — `Exec.select` through the chain of stores of the path, the empty array reading 0 at the key (the
    emptiness condition `load` appends) — denotes the value the flat storage described by the chain holds at the
    location `hLoc` of the cell (`keccak(key ‖ base)`, resp. `keccak(base) + index`), under every valuation satisfying the path for which no other cell
    written on the path lies at that location (`HNoColl`: an assumption on the hash, like `ShaOK`). PARTIAL: this is the
    storage-level core only (one load against the flat storage the chain describes); the statement along a run of
    the frame-stack machine, against the reference's storage, is `sound_calls_hsto` above (and
    `C02.complete_calls_hsto`, `C10.flagged_calls_hsto` for the converse). `mapCode` and
    `arrCode` below are instances against the reference with the real Keccak-256. -/
theorem mapping_load_partial {I : Interp} {p : Evm.Params} {s : Simp} {o : Oracle} (hs : SimpSound s)
    (ho : OracleSound o) {path : List B} (hsat : Sat I path) {chain : List HCell} {acct kind base : Nat} {k : T}
    (hc : HChainWF chain) (hk : k.WF) (hkw : k.width = 256) (hn : HNoColl I p chain acct kind base k)
    (he : I.uf1 (hEmptyName acct kind base) 256 (k.eval I) % 2 ^ 256 = 0) :
    (hSelect s o path acct kind base chain k).eval I = hFlat I p chain acct (hLoc p kind (k.eval I) base) :=
  (hSelect_ok hs ho hsat hc hk hkw hn he).2.2

/-- a Solidity mapping at slot 5 (`cfg.sha3` and `cfg.hsto` on): `m[x] = 7; return m[x]` with `x` the calldata word -/
def mapHash : List Nat := [0x60, 4, 0x35, 0x60, 0, 0x52, 0x60, 5, 0x60, 0x20, 0x52, 0x60, 0x40, 0x60, 0, 0x20]
def mapCode : List Nat :=
  [0x60, 7] ++ mapHash ++ [0x55] ++ mapHash ++ [0x54, 0x60, 0, 0x52, 0x60, 32, 0x60, 0, 0xf3]

/-- the model stores into and loads from the cell `m[x]` (one `Store` on the chain, read back); the reference, with
    the real Keccak-256, writes 7 to the slot keccak(x ‖ 5) and returns it -/
example :
    (runC foldSimp exOracle { sha3 := true, hsto := true } exEnv [(0x1000, mapCode)] 0x1000 100).ends.map
        (fun ce => (ce.e.out, ce.e.tag, (ce.e.data.map (·.eval exI)).getLast?, ce.hsto.length)) =
      [(.halt (.success []), .normal, some 7, 1)] ∧
    (runC foldSimp exOracle { sha3 := true, hsto := true } exEnv [(0x1000, mapCode)] 0x1000 100).ends.map
        (fun ce => ce.hsto.map (fun c => [c.acct, c.kind, c.base, c.key.eval exI, c.val.eval exI])) =
      [[[0x1000, 2, 5, 42, 7]]] ∧
    (Evm.exec { exPC with keccak := Keccak.keccak256 } 60 { exWC with code := [(0x1000, mapCode)] }
        { exF0 with code := mapCode }).map
      (fun r => (r.2.data.getLast?, Evm.lookupD r.1.storage (0x1000, hLoc { exPC with keccak := Keccak.keccak256 } 2 42 5))) =
      some (some 7, 7) := by
  decide +kernel

/-- a Solidity dynamic array at slot 7: `a[x] = 9; return a[x]` (no bounds check: the raw element access) -/
def arrLoc : List Nat := [0x60, 4, 0x35, 0x60, 7, 0x60, 0, 0x52, 0x60, 0x20, 0x60, 0, 0x20, 0x01]
def arrCode : List Nat :=
  [0x60, 9] ++ arrLoc ++ [0x55] ++ arrLoc ++ [0x54, 0x60, 0, 0x52, 0x60, 32, 0x60, 0, 0xf3]

/-- the model recognises `keccak(7) + x` through the condition `f_sha3_256(7) == digest` and stores into / loads from
    the element `a[x]`; the reference writes 9 to the slot keccak(7) + x and returns it -/
example :
    (runC foldSimp exOracle { sha3 := true, hsto := true } exEnv [(0x1000, arrCode)] 0x1000 100).ends.map
        (fun ce => (ce.e.out, ce.e.tag, (ce.e.data.map (·.eval exI)).getLast?, ce.hsto.map (·.kind))) =
      [(.halt (.success []), .normal, some 9, [1])] ∧
    (Evm.exec { exPC with keccak := Keccak.keccak256 } 60 { exWC with code := [(0x1000, arrCode)] }
        { exF0 with code := arrCode }).map
      (fun r => (r.2.data.getLast?, Evm.lookupD r.1.storage (0x1000, hLoc { exPC with keccak := Keccak.keccak256 } 1 42 7))) =
      some (some 9, 9) := by
  decide +kernel

/-- a reverting callee: `sstore(0, 7); mstore(0, 0x2a); revert(0, 32)` -/
def revCallee : List Nat := [0x60, 7, 0x60, 0, 0x55, 0x60, 0x2a, 0x60, 0, 0x52, 0x60, 32, 0x60, 0, 0xfd]
/-- its caller: `sstore(1, call(..))`, then returns the return area -/
def revCaller : List Nat :=
  [0x60, 32, 0x60, 0, 0x60, 0, 0x60, 0, 0x60, 0, 0x61, 0x20, 0x00, 0x60, 0, 0xf1, 0x60, 1, 0x55, 0x60, 32, 0x60, 0, 0xf3]
def revCodes : List (Nat × List Nat) := [(0x1000, revCaller), (0x2000, revCallee)]

/-- the callee's SSTORE is rolled back on both sides; the caller sees the flag 0 and the revert data -/
example :
    (runC foldSimp exOracle {} exEnv revCodes 0x1000 100).ends.map
        (fun ce => (ce.e.out, ce.e.tag, ce.e.data.map (·.eval exI))) =
      [(.halt (.success []), .normal, List.replicate 31 0 ++ [0x2a])] ∧
    (runC foldSimp exOracle {} exEnv revCodes 0x1000 100).ends.map
        (fun ce => ((stoOf ce.stores 0x2000).storage.map (fun kv => (kv.1, kv.2.eval exI)),
          (stoOf ce.stores 0x1000).storage.map (fun kv => (kv.1, kv.2.eval exI)))) = [([], [(1, 0)])] ∧
    (Evm.exec exPC 40 { exWC with code := revCodes } { exF0 with code := revCaller }).map
        (fun r => (r.2, Evm.lookupD r.1.storage (0x2000, 0), Evm.lookupD r.1.storage (0x1000, 1))) =
      some (.success (List.replicate 31 0 ++ [0x2a]), 0, 0) := by
  decide +kernel

/-! ### the tagged site is genuinely outside the theorem (known finding) -/

/-- `PUSH1 4; CALLDATALOAD; PUSH1 1; AND; PUSH1 3; JUMPI; STOP`: symbolic condition, destination 3 is not a JUMPDEST -/
def badCode : List Nat := [0x60, 4, 0x35, 0x60, 1, 0x16, 0x60, 3, 0x57, 0x00]

/-- **tagged_end_unsound_witness.** With an oracle that cannot decide, the model (like the code) ends the *whole* state
    with InvalidJumpDest and an empty path condition — tagged `jumpiInvalidSym`; for the input `x = 42` (condition
    `42 & 1 = 0`) the reference EVM falls through to STOP. This is why `sound` is stated for untagged end states. -/
theorem tagged_end_unsound_witness :
    (run foldSimp exOracle {} exEnv badCode 100).ends.map (fun e => (e.out, e.tag, e.st.path)) =
      [(.halt .invalidJump, .jumpiInvalidSym, [])] ∧
    (Evm.exec exP 10 exW { exF0 with code := badCode }).map (·.2) = some (.success []) := by
  decide +kernel

end HalmosVerif.Props.C01
