/-
Props.C02 — "No feasible behaviour is dropped during exploration" — for the core machine (Model.Sevm; see Props.C01
for the instruction set and the quantifiers).

`complete`: for EVERY program, fuel, configuration, sound simplifier, standard valuation `I`, related initial frame and
EVERY oracle whose `unsat` answers are right (`OracleSound`; nothing is assumed about `sat` or `unknown`, so a solver
that times out on every query is covered): whenever the reference EVM terminates on the input `I` describes, the result of `run` has an end state whose path `I`
satisfies and which reports exactly that outcome — or that end state is an error report (stuck) or a tagged end (the
invalid-destination halt of `jumpi` — known finding —, an OutOfGas raised by halmos' own memory-limit check, the
model's stack-limit stop) — or a flag is raised: bounded loop, `--depth` cut, or the model's fuel.

`complete_calls`: the same for the frame-stack machine with message calls (`runC`, see `C01.sound_calls`);
`complete_calls_from` from any related first state (see `C01.sound_calls_from`),
`complete_calls_create` with CREATE, `complete_calls_hsto` with storage cells at mapping / dynamic-array locations
followed (the covering end then also describes the hashed cells of the final world).

The only discarding site of the core is `jumpi`; `discard_only_if_unsat` is its lemma, `unknown_never_discards` the
oracle-free core of it.
-/
import HalmosVerif.Props.C01

namespace HalmosVerif.Props.C02
open HalmosVerif.Model HalmosVerif.Model.Sevm HalmosVerif.Spec HalmosVerif.Lemmas.Sevm HalmosVerif.Lemmas.Word
open HalmosVerif.Props.C01 (exCode exEnv exI exI_std exP exW exF0 exR exOracle exRes)

/-! ### the discarding site -/

/-- **unknown_never_discards.** For ANY oracle: a branch of `jumpi` whose `Exec.check` verdict is not `unsat` (so
    `sat`, or `unknown` after a timeout) is followed (a successor built from `st` by appending that branch's
    condition is pushed), or the loop bound cut it and the jump id is recorded in `bounded_loops`, or the state ended
    in the tagged invalid-destination halt. Nothing else can happen to it. -/
theorem unknown_never_discards {s : Simp} {o : Oracle} {cfg : Cfg} {code : List Nat} {st : SState} {target : Nat}
    {c : B} {nextPc : Nat} :
    (exCheck s o st.path (s.b c) ≠ .unsat →
      (∃ st' ∈ (jumpi s o cfg code st target c nextPc).next, IsTrueSucc s st target c st') ∨
      (jumpi s o cfg code st target c nextPc).bounded = [jumpId code st] ∨
      (∃ e ∈ (jumpi s o cfg code st target c nextPc).ends, e.tag = .jumpiInvalidSym ∧ e.st = st)) ∧
    (exCheck s o st.path (s.b (.not (s.b c))) ≠ .unsat →
      (∃ st' ∈ (jumpi s o cfg code st target c nextPc).next, IsFalseSucc s st nextPc c st') ∨
      (jumpi s o cfg code st target c nextPc).bounded = [jumpId code st] ∨
      (∃ e ∈ (jumpi s o cfg code st target c nextPc).ends, e.tag = .jumpiInvalidSym ∧ e.st = st)) := by
  refine ⟨fun h => ?_, fun h => ?_⟩
  · rcases jumpi_true_cases (cfg := cfg) (code := code) (target := target) (nextPc := nextPc) h with
      ⟨st', hm, hp, _⟩ | hb | he
    · exact Or.inl ⟨st', hm, hp⟩
    · exact Or.inr (Or.inl hb)
    · exact Or.inr (Or.inr he)
  · exact jumpi_false_cases (cfg := cfg) (code := code) (target := target) (nextPc := nextPc) h

/-- what "following a branch" means for path satisfaction: the successor's path is satisfied exactly by the valuations
    of the old path under which the branch condition holds (`Path.append` may simplify it, skip it when it is `true`
    or already present — never change its meaning) -/
theorem succ_sat {s : Simp} (hs : SimpSound s) {st : SState} {target nextPc : Nat} {c : B} (hc : c.WF) (I : Interp)
    {st' : SState} :
    (IsTrueSucc s st target c st' → (Sat I st'.path ↔ Sat I st.path ∧ c.eval I = true)) ∧
    (IsFalseSucc s st nextPc c st' → (Sat I st'.path ↔ Sat I st.path ∧ c.eval I = false)) := by
  have hwfT : (s.b c).WF := hs.wfB c hc
  have hwfF : (s.b (.not (s.b c))).WF := hs.wfB _ (by simpa only [B.WF] using hwfT)
  refine ⟨?_, ?_⟩
  · rintro ⟨pc', vis', rfl, _⟩
    rw [addCond_sat hs hwfT, condTrue_eval hs hc]
  · rintro ⟨vis', rfl⟩
    rw [addCond_sat hs hwfF, condFalse_eval hs hc]
    simp

/-- **discard_only_if_unsat (`jumpi`).** With a sound oracle, the branch the valuation `I` takes (it satisfies the
    path, and the condition evaluates to `b` under it) is never silently dropped. -/
theorem discard_only_if_unsat {s : Simp} (hs : SimpSound s) {o : Oracle} (ho : OracleSound o) {cfg : Cfg}
    {code : List Nat} {st : SState} {target : Nat} {c : B} {nextPc : Nat} (hc : c.WF) (I : Interp)
    (hsat : Sat I st.path) :
    (∃ st' ∈ (jumpi s o cfg code st target c nextPc).next, Sat I st'.path) ∨
    (jumpi s o cfg code st target c nextPc).bounded ≠ [] ∨
    (∃ e ∈ (jumpi s o cfg code st target c nextPc).ends, e.tag = .jumpiInvalidSym ∧ Sat I e.st.path) := by
  have hwfT : (s.b c).WF := hs.wfB c hc
  have hwfF : (s.b (.not (s.b c))).WF := hs.wfB _ (by simpa only [B.WF] using hwfT)
  have hnd := unknown_never_discards (s := s) (o := o) (cfg := cfg) (code := code) (st := st) (target := target)
    (c := c) (nextPc := nextPc)
  cases hcv : c.eval I
  · have hpot : exCheck s o st.path (s.b (.not (s.b c))) ≠ .unsat := by
      intro hu
      have := exCheck_sound hs ho hwfF hu I hsat
      rw [condFalse_eval hs hc, hcv] at this
      cases this
    rcases hnd.2 hpot with ⟨st', hm, hp⟩ | hb | ⟨e, hm, ht, hst⟩
    · left
      exact ⟨st', hm, ((succ_sat (target := target) hs hc I).2 hp).2 ⟨hsat, hcv⟩⟩
    · right; left; rw [hb]; simp
    · right; right; exact ⟨e, hm, ht, by rw [hst]; exact hsat⟩
  · have hpot : exCheck s o st.path (s.b c) ≠ .unsat := by
      intro hu
      have := exCheck_sound hs ho hwfT hu I hsat
      rw [condTrue_eval hs hc, hcv] at this
      cases this
    rcases hnd.1 hpot with ⟨st', hm, hp⟩ | hb | ⟨e, hm, ht, hst⟩
    · left
      exact ⟨st', hm, ((succ_sat (nextPc := nextPc) hs hc I).1 hp).2 ⟨hsat, hcv⟩⟩
    · right; left; rw [hb]; simp
    · right; right; exact ⟨e, hm, ht, by rw [hst]; exact hsat⟩

/-- **step_complete.** One dispatch step, any opcode: if the concrete run from a related world and frame `(w, f)`
    terminates with the result `r` (world and outcome), the step keeps a successor whose path `I` satisfies and that is
    related to a world and frame from which the concrete run still terminates with `r`, or it yields an end state
    covering `r`, or it records a bounded loop. -/
theorem step_complete {I : Interp} {env : Env} {code : List Nat} {p : Evm.Params} {w : Evm.World} {s : Simp}
    {o : Oracle} {cfg : Cfg} {st : SState} {f : Evm.Frame} (hs : SimpSound s) (ho : OracleSound o) (hI : I.Std)
    (hR : R I env code p st f) (hl : f.stack.length ≤ 1024) (hmem : cfg.maxMem + 32 ≤ p.memLimit)
    (hcode : ∀ b ∈ code, b < 256) {w0 : Evm.World} (hW : WRel I w0 w f.this st.storage st.transient)
    (hsat : Sat I st.path) {r : Evm.World × Evm.Halt} (hh : Halts p w f r) :
    (∃ st' ∈ (step s o cfg env code st).next, Sat I st'.path ∧
        ∃ w' f', CReach p (w, f) (w', f') ∧ R I env code p st' f' ∧ WRel I w0 w' f.this st'.storage st'.transient ∧
          Halts p w' f' r) ∨
    (∃ e ∈ (step s o cfg env code st).ends, EndCovers I w0 f.this r e) ∨
    (step s o cfg env code st).bounded ≠ [] :=
  Lemmas.Sevm.step_complete hs ho hI hR hl hmem hcode hW hsat hh

/-! ### the property -/

/-- **C02.complete.** (`hmem`, `hcode`, `hz` as in `C01.sound`; an end state "reports" the concrete result `(w', h)`
    when its kind together with its data evaluated under `I` is `h` and its storage maps describe `w'`) -/
theorem complete {s : Simp} (hs : SimpSound s) {o : Oracle} (ho : OracleSound o) (cfg : Cfg) (env : Env)
    (code : List Nat) (fuel : Nat) (p : Evm.Params) (w : Evm.World) (hmem : cfg.maxMem + 32 ≤ p.memLimit)
    (hcode : ∀ b ∈ code, b < 256) (I : Interp) (hI : I.Std) (f0 : Evm.Frame)
    (hR0 : R I env code p initState f0) (hz : C01.ZeroStorage w f0.this) (n : Nat) (w' : Evm.World) (h : Evm.Halt)
    (hex : Evm.exec p n w f0 = some (w', h)) :
    (∃ e ∈ (run s o cfg env code fuel).ends, Sat I e.st.path ∧
        ((∃ h0, e.out = .halt h0 ∧ haltWith h0 (e.data.map (·.eval I)) = h ∧ e.tag = .normal ∧
            WRel I w w' f0.this e.st.storage e.st.transient ∧ (∀ b ∈ e.data, b.WF ∧ b.width = 8)) ∨
         (∃ r, e.out = .stuck r) ∨ e.tag ≠ .normal)) ∨
    (run s o cfg env code fuel).boundedLoops ≠ [] ∨
    (run s o cfg env code fuel).depthCut = true ∨
    (run s o cfg env code fuel).outOfFuel = true :=
  explore_complete (cfg := cfg) (r := (w', h)) hs ho hmem hcode hI fuel 0 [initState] {}
    ⟨initState, List.mem_singleton.2 rfl, Sat.nil I, w, f0, hR0, rfl, WRel.init hz, n, hex⟩

/-! ### non-vacuity -/

/-- `complete` on the branching program of Props.C01 with the never-answering oracle and the input `x = 42`: the
    reference EVM ends in `invalidOpcode`; no flag is raised in that run, so the first disjunct must hold — and the
    model's result indeed contains the INVALID end state under the path `x = 42` -/
example : ∃ e ∈ exRes.ends, Sat exI e.st.path ∧
    ((∃ h0, e.out = .halt h0 ∧ haltWith h0 (e.data.map (·.eval exI)) = .invalidOpcode ∧ e.tag = .normal) ∨
     (∃ r, e.out = .stuck r) ∨ e.tag ≠ .normal) := by
  suffices hs : ∃ w', ∃ e ∈ exRes.ends, Sat exI e.st.path ∧
      ((∃ h0, e.out = .halt h0 ∧ haltWith h0 (e.data.map (·.eval exI)) = .invalidOpcode ∧ e.tag = .normal ∧
          WRel exI exW w' exF0.this e.st.storage e.st.transient ∧ (∀ b ∈ e.data, b.WF ∧ b.width = 8)) ∨
       (∃ r, e.out = .stuck r) ∨ e.tag ≠ .normal) by
    obtain ⟨w', e, hm, hsat, hc⟩ := hs
    refine ⟨e, hm, hsat, ?_⟩
    rcases hc with ⟨h0, a, b, c, _⟩ | hc | hc
    · exact Or.inl ⟨h0, a, b, c⟩
    · exact Or.inr (Or.inl hc)
    · exact Or.inr (Or.inr hc)
  have hex : ∃ w', Evm.exec exP 10 exW exF0 = some (w', .invalidOpcode) := by
    have : (Evm.exec exP 10 exW exF0).map (·.2) = some .invalidOpcode := by decide +kernel
    match h : Evm.exec exP 10 exW exF0, this with
    | some (w', _), this => exact ⟨w', by simp only [Option.map_some, Option.some.injEq] at this; rw [← this]⟩
  obtain ⟨w', hex⟩ := hex
  refine ⟨w', ?_⟩
  have hflags : exRes.boundedLoops = [] ∧ exRes.depthCut = false ∧ exRes.outOfFuel = false := by decide +kernel
  rcases complete foldSimp_sound oracleSound_unknown {} exEnv exCode 100 exP exW C01.exMem (by decide) exI exI_std exF0 exR
      (C01.exZero _) 10 w' .invalidOpcode hex with h | h | h | h
  · exact h
  · exact absurd hflags.1 h
  · rw [show (run foldSimp (fun _ _ => Verdict.unknown) {} exEnv exCode 100) = exRes from rfl, hflags.2.1] at h
    cases h
  · rw [show (run foldSimp (fun _ _ => Verdict.unknown) {} exEnv exCode 100) = exRes from rfl, hflags.2.2] at h
    cases h

/-- an oracle answering `unsat` to everything is NOT sound, and `complete` does fail for it: every branch is pruned
    and the run reports nothing at all for this program (so the hypothesis `OracleSound` is needed, and used) -/
example : (run foldSimp (fun _ _ => .unsat) {} exEnv exCode 100).ends = [] ∧
    (run foldSimp (fun _ _ => .unsat) {} exEnv exCode 100).boundedLoops = [] ∧
    ¬ OracleSound (fun _ _ => Verdict.unsat) := by
  refine ⟨by decide +kernel, by decide +kernel, ?_⟩
  intro h
  have := h [] (.lit true) rfl exI (Sat.nil _)
  cases this

/-! ### message calls (Model.SevmCalls) -/

/-- **C02.complete_calls.** The same for the frame-stack machine `runC` (see `C01.sound_calls` for what it models and
    for the hypotheses): whenever the reference EVM — executing nested calls — terminates with `(w', h)` on the input
    `I` describes, the result of `runC` has an end whose path `I` satisfies and which reports exactly `h` (kind, and
    its data evaluated under `I`), untagged, its storage maps of all modelled accounts describing exactly `w'` — or
    that end is an error report (stuck: also a symbolic call target, a precompile, a call with a value, depth 1024) or
    a tagged end — or a flag is raised. Nothing a callee or a resumed caller does is dropped silently.
    With `cfg.balances` on: `hbal` as in `C01.sound_calls`, and `hbound` — finitely many accounts hold ether and their
    total is at most 2^128 (`BalBound`): halmos appends `balance <= MAX_ETH` to the path for every balance it reads (the
    documented modelling assumption of the property), and a run in which a balance exceeds the bound is outside the
    explored set; the total is what transfers preserve.
    With `cfg.sha3` on: `hsha` as in `C01.sound_calls`, and `hshaok` — the conditions `sha3_data` appends (digest
    non-zero and at most 2^256 − 2^64; `f_inv_sha3_<bits>` / `f_inv_sha3_size` invert the hash on its low 160 bits)
    are true under `I` at every state the exploration visits whose path `I` satisfies the SHA3 of: they are modelling
    assumptions of halmos, not consequences; `shaOK_of_ideal` derives it from the inputs being ideal (`HashIdeal`). -/
theorem complete_calls_gen {s : Simp} (hs : SimpSound s) {o : Oracle} (ho : OracleSound o) (cfg : Cfg) (env : Env)
    (codes : List (Nat × List Nat)) (this : Nat) (fuel : Nat) (p : Evm.Params) (w : Evm.World)
    (SS : Nat → Prop) (hS0 : SS this) (hSc : ∀ a prog, codeOf codes a = some prog → SS a)
    (hmem : cfg.maxMem + 32 ≤ p.memLimit) (hdep : 1024 ≤ p.maxDepth)
    (hcodes : ∀ a, w.codeOf a = codeOf codes a)
    (hcb : ∀ a prog, codeOf codes a = some prog → ∀ b ∈ prog, b < 256)
    (hz : ∀ a, SS a → C01.ZeroStorage w a) (hch : CreateHyp cfg p SS w)
    (I : Interp) (hI : I.Std) (hbal : cfg.balances = true → BalHyp I cfg w)
    (hbound : cfg.balances = true → BalBound w) (hsha : cfg.sha3 = true → ShaInterp I p cfg)
    (hoh : cfg.hsto = true → cfg.sha3 = true ∧ HEmptyZero I)
    (hshaok : ∀ cs, VisitedC s o cfg codes (initC env codes this) cs → ShaOK I s cfg cs)
    (hhs : ∀ cs, VisitedC s o cfg codes (initC env codes this) cs → Sat I cs.st.path → HstoOK I p s cfg cs)
    (f0 : Evm.Frame)
    (hR0 : R I env ((codeOf codes this).getD []) p initState f0) (hthis : f0.this = this) (hd0 : f0.depth = 0)
    (n : Nat) (w' : Evm.World) (h : Evm.Halt) (hex : Evm.exec p n w f0 = some (w', h)) :
    (∃ ce ∈ (runC s o cfg env codes this fuel).ends, Sat I ce.e.st.path ∧
        ((∃ h0, ce.e.out = .halt h0 ∧ haltWith h0 (ce.e.data.map (·.eval I)) = h ∧ ce.e.tag = .normal ∧
            WRelM I SS (wd w ce.created ce.nonce) w' (stoOf ce.stores) (evalLogs I ce.logs)
              (balSem I w ce.bal) ∧
            (∀ b ∈ ce.e.data, b.WF ∧ b.width = 8) ∧ HRel I p SS w' ce.hsto) ∨
         (∃ r, ce.e.out = .stuck r) ∨ ce.e.tag ≠ .normal)) ∨
    (runC s o cfg env codes this fuel).boundedLoops ≠ [] ∨
    (runC s o cfg env codes this fuel).depthCut = true ∨
    (runC s o cfg env codes this fuel).outOfFuel = true :=
  exploreC_complete (cfg := cfg) (codes := codes) (S := SS) (r := (w', h)) hs ho hmem hdep hcodes
    hSc hcb hI hbal hsha hch hoh hshaok hhs fuel 0 [initC env codes this] {}
    (fun cs hm => by rw [List.mem_singleton.1 hm]; exact .start)
    ⟨initC env codes this, List.mem_singleton.2 rfl, Sat.nil I, w, f0, [], relC_init hR0 hthis hd0 hcb hS0 hz, ⟨n, hex⟩,
      fun hC => ⟨hbound hC, fun kc hm => absurd hm List.not_mem_nil⟩⟩

/-- **C02.complete_calls_from.** `complete_calls_gen` from ANY first state `cs0` (`runCFrom`) related to a concrete
    configuration (`f0` in `ws`) with respect to the base world `w` (see `C01.sound_calls_from`). -/
theorem complete_calls_from {s : Simp} (hs : SimpSound s) {o : Oracle} (ho : OracleSound o) (cfg : Cfg)
    (codes : List (Nat × List Nat)) (fuel : Nat) (p : Evm.Params) (w ws : Evm.World)
    (SS : Nat → Prop) (cs0 : CState) (hSc : ∀ a prog, codeOf codes a = some prog → SS a)
    (hmem : cfg.maxMem + 32 ≤ p.memLimit) (hdep : 1024 ≤ p.maxDepth)
    (hcodes : ∀ a, w.codeOf a = codeOf codes a)
    (hcb : ∀ a prog, codeOf codes a = some prog → ∀ b ∈ prog, b < 256)
    (hch : CreateHyp cfg p SS w)
    (I : Interp) (hI : I.Std) (hbal : cfg.balances = true → BalHyp I cfg w)
    (hbound : cfg.balances = true → BalBound ws) (hsha : cfg.sha3 = true → ShaInterp I p cfg)
    (hoh : cfg.hsto = true → cfg.sha3 = true ∧ HEmptyZero I)
    (hshaok : ∀ cs, VisitedC s o cfg codes cs0 cs → ShaOK I s cfg cs)
    (hhs : ∀ cs, VisitedC s o cfg codes cs0 cs → Sat I cs.st.path → HstoOK I p s cfg cs)
    (f0 : Evm.Frame) (hrel0 : RelC I p SS w cs0 ws f0 []) (hsat0 : Sat I cs0.st.path)
    (n : Nat) (w' : Evm.World) (h : Evm.Halt) (hex : Evm.exec p n ws f0 = some (w', h)) :
    (∃ ce ∈ (runCFrom s o cfg codes fuel cs0).ends, Sat I ce.e.st.path ∧
        ((∃ h0, ce.e.out = .halt h0 ∧ haltWith h0 (ce.e.data.map (·.eval I)) = h ∧ ce.e.tag = .normal ∧
            WRelM I SS (wd w ce.created ce.nonce) w' (stoOf ce.stores) (evalLogs I ce.logs)
              (balSem I w ce.bal) ∧
            (∀ b ∈ ce.e.data, b.WF ∧ b.width = 8) ∧ HRel I p SS w' ce.hsto) ∨
         (∃ r, ce.e.out = .stuck r) ∨ ce.e.tag ≠ .normal)) ∨
    (runCFrom s o cfg codes fuel cs0).boundedLoops ≠ [] ∨
    (runCFrom s o cfg codes fuel cs0).depthCut = true ∨
    (runCFrom s o cfg codes fuel cs0).outOfFuel = true :=
  exploreC_complete (cfg := cfg) (codes := codes) (S := SS) (r := (w', h)) hs ho hmem hdep hcodes
    hSc hcb hI hbal hsha hch hoh hshaok hhs fuel 0 [cs0] {}
    (fun cs hm => by rw [List.mem_singleton.1 hm]; exact .start)
    ⟨cs0, List.mem_singleton.2 rfl, hsat0, ws, f0, [], hrel0, ⟨n, hex⟩,
      fun hC => ⟨hbound hC, fun kc hm => absurd hm List.not_mem_nil⟩⟩

/-- **C02.complete_calls** (statement and commentary above; `hnc`: CREATE is not followed — it ends the path stuck, and
    nothing is ever created: `runC_noCr`). -/
theorem complete_calls {s : Simp} (hs : SimpSound s) {o : Oracle} (ho : OracleSound o) (cfg : Cfg) (env : Env)
    (codes : List (Nat × List Nat)) (this : Nat) (fuel : Nat) (p : Evm.Params) (w : Evm.World)
    (hmem : cfg.maxMem + 32 ≤ p.memLimit) (hdep : 1024 ≤ p.maxDepth)
    (hcodes : ∀ a, w.codeOf a = codeOf codes a)
    (hcb : ∀ a prog, codeOf codes a = some prog → ∀ b ∈ prog, b < 256)
    (hz : ∀ a, Modelled codes this a → C01.ZeroStorage w a) (hnc : cfg.create = false) (hnh : cfg.hsto = false)
    (I : Interp) (hI : I.Std) (hbal : cfg.balances = true → BalHyp I cfg w)
    (hbound : cfg.balances = true → BalBound w) (hsha : cfg.sha3 = true → ShaInterp I p cfg)
    (hshaok : ∀ cs, VisitedC s o cfg codes (initC env codes this) cs → ShaOK I s cfg cs) (f0 : Evm.Frame)
    (hR0 : R I env ((codeOf codes this).getD []) p initState f0) (hthis : f0.this = this) (hd0 : f0.depth = 0)
    (n : Nat) (w' : Evm.World) (h : Evm.Halt) (hex : Evm.exec p n w f0 = some (w', h)) :
    (∃ ce ∈ (runC s o cfg env codes this fuel).ends, Sat I ce.e.st.path ∧
        ((∃ h0, ce.e.out = .halt h0 ∧ haltWith h0 (ce.e.data.map (·.eval I)) = h ∧ ce.e.tag = .normal ∧
            WRelM I (Modelled codes this) w w' (stoOf ce.stores) (evalLogs I ce.logs) (balSem I w ce.bal) ∧
            (∀ b ∈ ce.e.data, b.WF ∧ b.width = 8)) ∨
         (∃ r, ce.e.out = .stuck r) ∨ ce.e.tag ≠ .normal)) ∨
    (runC s o cfg env codes this fuel).boundedLoops ≠ [] ∨
    (runC s o cfg env codes this fuel).depthCut = true ∨
    (runC s o cfg env codes this fuel).outOfFuel = true := by
  rcases complete_calls_gen hs ho cfg env codes this fuel p w (Modelled codes this) (Or.inl rfl)
    (fun _ _ h => modelled_of_code h) hmem hdep hcodes hcb hz (CreateHyp.off hnc) I hI hbal hbound hsha
    (fun h' => by rw [hnh] at h'; cases h') hshaok (fun _ _ _ => hstoOK_off hnh) f0 hR0
    hthis hd0 n w' h hex with ⟨ce, hm, hsat, hc⟩ | hr
  · refine Or.inl ⟨ce, hm, hsat, ?_⟩
    rcases hc with ⟨h0, a1, a2, a3, hW, a5⟩ | hc
    · obtain ⟨hc0, hn0⟩ := runC_noCr hnc ce hm
      rw [hc0, hn0, wd_zero] at hW
      exact Or.inl ⟨h0, a1, a2, a3, hW, a5.1⟩
    · exact Or.inr hc
  · exact Or.inr hr

/-- **C02.complete_calls_create.** The same with CREATE followed (`hcr`), with or without the balances layer; the
    hypotheses `hal`, `hbw`, `hz` over `ModelledC` and what is covered as in `C01.sound_calls_create`. -/
theorem complete_calls_create {s : Simp} (hs : SimpSound s) {o : Oracle} (ho : OracleSound o) (cfg : Cfg)
    (env : Env) (codes : List (Nat × List Nat)) (this : Nat) (fuel : Nat) (p : Evm.Params) (w : Evm.World)
    (hmem : cfg.maxMem + 32 ≤ p.memLimit) (hdep : 1024 ≤ p.maxDepth)
    (hcodes : ∀ a, w.codeOf a = codeOf codes a)
    (hcb : ∀ a prog, codeOf codes a = some prog → ∀ b ∈ prog, b < 256)
    (hz : ∀ a, ModelledC cfg codes this a → C01.ZeroStorage w a)
    (hcr : cfg.create = true) (hnh : cfg.hsto = false)
    (hal : ∀ n, p.newAddress (w.created + n) = (cfg.allocBase + n) % 2 ^ 160)
    (hbw : ∀ a, w.balanceOf a < 2 ^ 256)
    (I : Interp) (hI : I.Std) (hbal : cfg.balances = true → BalHyp I cfg w)
    (hbound : cfg.balances = true → BalBound w) (hsha : cfg.sha3 = true → ShaInterp I p cfg)
    (hshaok : ∀ cs, VisitedC s o cfg codes (initC env codes this) cs → ShaOK I s cfg cs) (f0 : Evm.Frame)
    (hR0 : R I env ((codeOf codes this).getD []) p initState f0) (hthis : f0.this = this) (hd0 : f0.depth = 0)
    (n : Nat) (w' : Evm.World) (h : Evm.Halt) (hex : Evm.exec p n w f0 = some (w', h)) :
    (∃ ce ∈ (runC s o cfg env codes this fuel).ends, Sat I ce.e.st.path ∧
        ((∃ h0, ce.e.out = .halt h0 ∧ haltWith h0 (ce.e.data.map (·.eval I)) = h ∧ ce.e.tag = .normal ∧
            WRelM I (ModelledC cfg codes this) (wd w ce.created ce.nonce) w' (stoOf ce.stores) (evalLogs I ce.logs)
              (balSem I w ce.bal) ∧
            (∀ b ∈ ce.e.data, b.WF ∧ b.width = 8)) ∨
         (∃ r, ce.e.out = .stuck r) ∨ ce.e.tag ≠ .normal)) ∨
    (runC s o cfg env codes this fuel).boundedLoops ≠ [] ∨
    (runC s o cfg env codes this fuel).depthCut = true ∨
    (runC s o cfg env codes this fuel).outOfFuel = true := by
  rcases complete_calls_gen hs ho cfg env codes this fuel p w (ModelledC cfg codes this) (Or.inl (Or.inl rfl))
    (fun _ _ h => Or.inl (modelled_of_code h)) hmem hdep hcodes hcb hz
    (fun hc => ⟨hal, fun n => Or.inr ⟨hc, n, rfl⟩, hbw⟩) I hI hbal hbound hsha
    (fun h' => by rw [hnh] at h'; cases h') hshaok (fun _ _ _ => hstoOK_off hnh) f0 hR0 hthis hd0 n w' h hex with
    ⟨ce, hm, hsat, hc⟩ | hr
  · refine Or.inl ⟨ce, hm, hsat, ?_⟩
    rcases hc with ⟨h0, a1, a2, a3, hW, a5⟩ | hc
    · exact Or.inl ⟨h0, a1, a2, a3, hW, a5.1⟩
    · exact Or.inr hc
  · exact Or.inr hr

/-- **C02.complete_calls_hsto.** The same with SLOAD / SSTORE at mapping and dynamic-array locations followed
    (`cfg.hsto` on, with the SHA3 layer, `hs3`; CREATE on or off — `hch`, `SS` as in `complete_calls_gen`). The covering
    end now also describes the hashed cells of the final world (`HRel I p SS w' ce.hsto`, as in `C01.sound_calls_hsto`).
    `hez`: the valuation reads the arrays of the empty storage as zero (`HEmptyZero` — the condition
    `SolidityStorage.load` appends for every key loaded, the counterpart of `hz` for the start world: a valuation under
    which an untouched cell is non-zero describes no run from zero storage); `hhs`: the two assumptions on Keccak-256
    at the states visited, as in `C01.sound_calls_hsto` (the location is not a plain slot; no collision between the
    cells met). -/
theorem complete_calls_hsto {s : Simp} (hs : SimpSound s) {o : Oracle} (ho : OracleSound o) (cfg : Cfg)
    (hs3 : cfg.sha3 = true) (env : Env)
    (codes : List (Nat × List Nat)) (this : Nat) (fuel : Nat) (p : Evm.Params) (w : Evm.World)
    (SS : Nat → Prop) (hS0 : SS this) (hSc : ∀ a prog, codeOf codes a = some prog → SS a)
    (hmem : cfg.maxMem + 32 ≤ p.memLimit) (hdep : 1024 ≤ p.maxDepth)
    (hcodes : ∀ a, w.codeOf a = codeOf codes a)
    (hcb : ∀ a prog, codeOf codes a = some prog → ∀ b ∈ prog, b < 256)
    (hz : ∀ a, SS a → C01.ZeroStorage w a) (hch : CreateHyp cfg p SS w)
    (I : Interp) (hI : I.Std) (hbal : cfg.balances = true → BalHyp I cfg w)
    (hbound : cfg.balances = true → BalBound w) (hsha : ShaInterp I p cfg) (hez : HEmptyZero I)
    (hshaok : ∀ cs, VisitedC s o cfg codes (initC env codes this) cs → ShaOK I s cfg cs)
    (hhs : ∀ cs, VisitedC s o cfg codes (initC env codes this) cs → Sat I cs.st.path → HstoOK I p s cfg cs)
    (f0 : Evm.Frame)
    (hR0 : R I env ((codeOf codes this).getD []) p initState f0) (hthis : f0.this = this) (hd0 : f0.depth = 0)
    (n : Nat) (w' : Evm.World) (h : Evm.Halt) (hex : Evm.exec p n w f0 = some (w', h)) :
    (∃ ce ∈ (runC s o cfg env codes this fuel).ends, Sat I ce.e.st.path ∧
        ((∃ h0, ce.e.out = .halt h0 ∧ haltWith h0 (ce.e.data.map (·.eval I)) = h ∧ ce.e.tag = .normal ∧
            WRelM I SS (wd w ce.created ce.nonce) w' (stoOf ce.stores) (evalLogs I ce.logs)
              (balSem I w ce.bal) ∧
            (∀ b ∈ ce.e.data, b.WF ∧ b.width = 8) ∧ HRel I p SS w' ce.hsto) ∨
         (∃ r, ce.e.out = .stuck r) ∨ ce.e.tag ≠ .normal)) ∨
    (runC s o cfg env codes this fuel).boundedLoops ≠ [] ∨
    (runC s o cfg env codes this fuel).depthCut = true ∨
    (runC s o cfg env codes this fuel).outOfFuel = true :=
  complete_calls_gen hs ho cfg env codes this fuel p w SS hS0 hSc hmem hdep hcodes hcb hz hch I hI hbal hbound
    (fun _ => hsha) (fun _ => ⟨hs3, hez⟩) hshaok hhs f0 hR0 hthis hd0 n w' h hex

/-- `complete_calls` on the caller / callee pair of Props.C01: the reference EVM returns the callee's 32 bytes; no
    flag is raised in that run and its only end is an untagged halt, so it must be the reporting one -/
example : ∃ ce ∈ (runC foldSimp exOracle {} exEnv C01.exCodes 0x1000 100).ends,
    haltWith (.success []) (ce.e.data.map (·.eval exI)) = .success (List.replicate 31 0 ++ [0x2a]) := by
  have hex : ∃ w', Evm.exec C01.exPC 40 C01.exWC { exF0 with code := C01.callerCode } =
      some (w', .success (List.replicate 31 0 ++ [0x2a])) := by
    have : (Evm.exec C01.exPC 40 C01.exWC { exF0 with code := C01.callerCode }).map (·.2) =
        some (.success (List.replicate 31 0 ++ [0x2a])) := by decide +kernel
    match h : Evm.exec C01.exPC 40 C01.exWC { exF0 with code := C01.callerCode }, this with
    | some (w', _), this => exact ⟨w', by simp only [Option.map_some, Option.some.injEq] at this; rw [← this]⟩
  obtain ⟨w', hex⟩ := hex
  have hR : R exI exEnv ((codeOf C01.exCodes 0x1000).getD []) C01.exPC initState { exF0 with code := C01.callerCode } :=
    ⟨rfl, rfl, StackRel.nil, ⟨exR.env.caller, exR.env.origin, exR.env.callvalue, exR.env.address, exR.env.cd,
      exR.env.cdByte, exR.env.cdSize, exR.env.isStatic⟩, exR.subst, MemRel.nil _, MemRel.nil _⟩
  have hshape : ∀ ce ∈ (runC foldSimp exOracle {} exEnv C01.exCodes 0x1000 100).ends,
      ce.e.out = .halt (.success []) ∧ ce.e.tag = .normal := by decide +kernel
  have hflags : (runC foldSimp exOracle {} exEnv C01.exCodes 0x1000 100).boundedLoops = [] ∧
      (runC foldSimp exOracle {} exEnv C01.exCodes 0x1000 100).depthCut = false ∧
      (runC foldSimp exOracle {} exEnv C01.exCodes 0x1000 100).outOfFuel = false := by decide +kernel
  rcases complete_calls foldSimp_sound oracleSound_unknown {} exEnv C01.exCodes 0x1000 100 C01.exPC C01.exWC
      (by decide) (by decide) (fun a => rfl) (by
        intro a prog hc b hb
        have hall : ∀ q ∈ C01.exCodes, ∀ b ∈ q.2, b < 256 := by decide
        unfold codeOf at hc
        cases hf : C01.exCodes.find? (fun q => q.1 == a) with
        | none => rw [hf] at hc; cases hc
        | some q =>
          rw [hf] at hc
          simp only [Option.map_some, Option.some.injEq] at hc
          subst hc
          exact hall q (List.mem_of_find?_eq_some hf) b hb)
      (fun _ _ _ => ⟨rfl, rfl⟩) rfl rfl exI exI_std (fun h => by cases h) (fun h => by cases h) (fun h => by cases h)
      (fun _ _ => shaOK_off rfl) _ hR rfl rfl 40 w' _ hex with
    ⟨ce, hm, _, hc⟩ | h | h | h
  · obtain ⟨ho', ht'⟩ := hshape ce hm
    rcases hc with ⟨h0, ho0, hw, _⟩ | ⟨r, hr⟩ | ht
    · rw [ho'] at ho0
      cases ho0
      exact ⟨ce, hm, hw⟩
    · rw [ho'] at hr; cases hr
    · exact absurd ht' ht
  · exact absurd hflags.1 h
  · exact absurd (show (runC foldSimp exOracle {} exEnv C01.exCodes 0x1000 100).depthCut = true from h)
      (by rw [hflags.2.1]; decide)
  · exact absurd (show (runC foldSimp exOracle {} exEnv C01.exCodes 0x1000 100).outOfFuel = true from h)
      (by rw [hflags.2.2]; decide)

end HalmosVerif.Props.C02
