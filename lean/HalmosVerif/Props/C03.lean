/-
Props.C03 — PASS means no admissible input violates the test (end to end): the composition theorem.

`pass_sound` is stated over arbitrary lists of explored paths. Its hypotheses are the statements of the layer properties,
kept explicit and named after the property that discharges each:

  H1  coverage (C02, with C10 for the flag): every admissible input satisfies the path predicate of some reported path, unless a
      bound / incompleteness warning was raised;
  H2  path faithfulness (C01, with C12 for "inputs are instances of the symbolic calldata"): for an input satisfying a path's
      predicate, the concrete execution from the post-setUp state has that path's outcome kind;
  H3  query = path (C11 serialisation, C13 hash model): on admissible inputs the query submitted for a potential path asserts no
      more than the path predicate;
  H4  solver soundness on `unsat` (trusted): an `unsat` answer means no input satisfies the query.

Conclusion: verdict PASS and no flag ⇒ no admissible input makes the concrete run end in a configured Panic or set the fail flag.
`setup_single_path` is the rule "exactly one successful setUp path" as `setup()` implements it.
-/
import HalmosVerif.Lemmas.Main

namespace HalmosVerif.Props.C03

open HalmosVerif.Model.Main

/-- the concrete execution of the test on input `i` is a failure: Panic with a configured code, or the global fail flag -/
def Fails {Input} (codes : List Nat) (conc : Input → Outcome) (i : Input) : Prop :=
  classify codes (conc i) = .potential

/-- H1 (C02 / C10) -/
def Covered {Input} (adm : Input → Prop) (run : Run Input) : Prop :=
  ∀ i, adm i → (∃ p ∈ run.paths, p.pred i) ∨ run.flagged = true

/-- H2 (C01 / C12) -/
def Faithful {Input} (conc : Input → Outcome) (run : Run Input) : Prop :=
  ∀ p ∈ run.paths, ∀ i, p.pred i → conc i = p.outcome

/-- H3 (C11 / C13) -/
def QueryIsPath {Input} (codes : List Nat) (adm : Input → Prop) (run : Run Input) : Prop :=
  ∀ p ∈ run.paths, classify codes p.outcome = .potential → ∀ i, adm i → p.pred i → p.queryPred i

/-- H4 (external solver) -/
def SolverSoundOnUnsat {Input} (run : Run Input) : Prop :=
  ∀ p ∈ run.paths, p.query = .unsat → ∀ i, ¬ p.queryPred i

/-- **pass_sound** -/
theorem pass_sound {Input} (codes : List Nat) (adm : Input → Prop) (conc : Input → Outcome) (run : Run Input)
    (H1 : Covered adm run) (H2 : Faithful conc run) (H3 : QueryIsPath codes adm run) (H4 : SolverSoundOnUnsat run)
    (hpass : verdict codes run.paths = .pass) (hflag : run.flagged = false) :
    ∀ i, adm i → ¬ Fails codes conc i := by
  intro i hadm hfail
  rcases H1 i hadm with ⟨p, hp, hpi⟩ | hf
  · have hout : conc i = p.outcome := H2 p hp i hpi
    have hpot : classify codes p.outcome = .potential := by rw [← hout]; exact hfail
    have hun : p.query = .unsat := pass_potential_unsat codes run.paths hpass p hp hpot
    exact H4 p hp hun i (H3 p hp hpot i hadm hpi)
  · rw [hflag] at hf; cases hf

/-- equivalently: a test whose failure is reachable by an admissible input is never reported PASS without a flag -/
theorem reachable_failure_not_pass {Input} (codes : List Nat) (adm : Input → Prop) (conc : Input → Outcome) (run : Run Input)
    (H1 : Covered adm run) (H2 : Faithful conc run) (H3 : QueryIsPath codes adm run) (H4 : SolverSoundOnUnsat run)
    (i : Input) (hadm : adm i) (hfail : Fails codes conc i) :
    verdict codes run.paths ≠ .pass ∨ run.flagged = true := by
  by_cases hp : verdict codes run.paths = .pass
  · right
    cases hf : run.flagged with
    | true => rfl
    | false => exact absurd hfail (pass_sound codes adm conc run H1 H2 H3 H4 hp hf i hadm)
  · left; exact hp

/-- and a FAIL verdict always comes with a potential path whose query was answered `sat` -/
theorem fail_has_counterexample {Input} (codes : List Nat) (run : Run Input) (h : verdict codes run.paths = .fail) :
    ∃ p ∈ run.paths, classify codes p.outcome = .potential ∧ p.query = .sat :=
  fail_has_sat codes run.paths h

/-- a PASS also means: some path returned normally, and every stuck path was refuted -/
theorem pass_shape {Input} (codes : List Nat) (run : Run Input) (h : verdict codes run.paths = .pass) :
    (∃ p ∈ run.paths, classify codes p.outcome = .normal) ∧
      ∀ p ∈ run.paths, classify codes p.outcome = .stuck → p.query = .unsat :=
  ⟨pass_has_normal codes run.paths h, pass_no_stuck codes run.paths h⟩

/-! non-vacuity: `check(x)`: `if x == 42 then Panic(1)`, two paths; with the guard `x == 42 ∧ x ≠ 42` the failing path is refuted -/

def exRunFail : Run Nat :=
  { paths := [{ pred := fun x => x ≠ 42, outcome := .success, queryPred := fun _ => False, query := .unsat },
              { pred := fun x => x = 42, outcome := .panic 1, queryPred := fun x => x = 42, query := .sat }],
    flagged := false }

def exRunPass : Run Nat :=
  { paths := [{ pred := fun _ => True, outcome := .success, queryPred := fun _ => False, query := .unsat },
              { pred := fun _ => False, outcome := .panic 1, queryPred := fun _ => False, query := .unsat }],
    flagged := false }

example : verdict [1] exRunFail.paths = .fail ∧ verdict [1] exRunPass.paths = .pass := by decide

example : Covered (fun _ => True) exRunPass ∧ Faithful (fun _ => .success) exRunPass
    ∧ QueryIsPath [1] (fun _ => True) exRunPass ∧ SolverSoundOnUnsat exRunPass := by
  refine ⟨?_, ?_, ?_, ?_⟩
  · intro i _; left; exact ⟨_, List.mem_cons_self, trivial⟩
  · intro p hp i hi
    simp only [exRunPass, List.mem_cons, List.not_mem_nil, or_false] at hp
    rcases hp with h | h <;> subst h
    · rfl
    · exact absurd hi (by simp)
  · intro p hp _ i _ hi
    simp only [exRunPass, List.mem_cons, List.not_mem_nil, or_false] at hp
    rcases hp with h | h <;> subst h
    · simp [classify, isPanicOf] at *
    · exact hi
  · intro p hp _ i
    simp only [exRunPass, List.mem_cons, List.not_mem_nil, or_false] at hp
    rcases hp with h | h <;> subst h <;> simp

/-- a configured-code mismatch is not a failure: Panic(0x11) with codes {1} is classified `other`; with the empty set (`*`) it is potential -/
example : classify [1] (.panic 0x11) = .other ∧ classify [] (.panic 0x11) = .potential ∧ classify [1] .failFlag = .potential := by
  decide

/-! ## setUp -/

/-- **setup_single_path**: when `setup` succeeds with state `s`, either exactly one setUp path ended without error and it is `s`
(taken without a feasibility check, as the code does), or several did and exactly one of them is not refuted by the solver -/
theorem setup_single_path {S} (ps : List (SetupPath S)) (s : S) (h : setup ps = .ok s) :
    (∃ p, ps.filter (fun p => !p.error) = [p] ∧ p.state = s) ∨
    (∃ p, 2 ≤ (ps.filter (fun p => !p.error)).length ∧
      (ps.filter (fun p => !p.error)).filter (fun p => p.query != .unsat) = [p] ∧ p.state = s) := by
  unfold setup at h
  split at h
  · cases h
  · rename_i p hp
    left
    exact ⟨p, hp, by injection h⟩
  · rename_i ne h1 h2
    split at h
    · cases h
    · rename_i q hq
      right
      refine ⟨q, ?_, hq, by injection h⟩
      match hne : ps.filter (fun p => !p.error) with
      | [] => exact absurd hne h1
      | [x] => exact absurd hne (h2 x)
      | _ :: _ :: _ => rw [hne]; simp
    · cases h

/-- the chosen state belongs to a path that ended without error -/
theorem setup_ok_mem {S} (ps : List (SetupPath S)) (s : S) (h : setup ps = .ok s) :
    ∃ p ∈ ps, p.error = false ∧ p.state = s := by
  rcases setup_single_path ps s h with ⟨p, hp, hs⟩ | ⟨p, _, hp, hs⟩
  · have : p ∈ ps.filter (fun p => !p.error) := by rw [hp]; exact List.mem_cons_self
    rw [List.mem_filter] at this
    exact ⟨p, this.1, by simpa using this.2, hs⟩
  · have : p ∈ (ps.filter (fun p => !p.error)).filter (fun p => p.query != .unsat) := by rw [hp]; exact List.mem_cons_self
    rw [List.mem_filter, List.mem_filter] at this
    exact ⟨p, this.1.1, by simpa using this.1.2, hs⟩

/-- two feasible successful setUp paths, or none, are an error -/
example : (match setup [⟨1, false, .sat⟩, ⟨2, false, .unknown⟩] with | .multiple => true | _ => false) = true
    ∧ (match setup [⟨1, true, .sat⟩] with | .noPath => true | _ => false) = true
    ∧ (match setup [⟨1, false, .unsat⟩, ⟨2, false, .sat⟩, ⟨3, true, .sat⟩] with | .ok 2 => true | _ => false) = true
    ∧ (match setup [⟨7, false, .unsat⟩] with | .ok 7 => true | _ => false) = true := by
  decide

end HalmosVerif.Props.C03
