/-
Props.C03Calls — the end-to-end PASS theorem on the frame-stack machine (Model.SevmCalls `runC`: message calls to any
depth, balances and value transfers, SHA3, LOG, EXTCODE*, CREATE, storage cells at mapping / dynamic-array locations;
see Props.C01 `sound_calls`, `sound_calls_create`, `sound_calls_hsto` for what each layer of `Cfg` follows).

As Props.C03Core does for the per-frame machine `run`, this file instantiates the abstract `Run Input` of Model.Main
with `runC` and discharges two of the four hypotheses of `C03.pass_sound`:

  H1  coverage      `covered_calls`   from `C02.complete_calls_gen` (= `complete_calls_hsto` and the others);
  H2′ faithfulness  `faithful_calls`  from `C01.sound_calls_gen` (= `sound_calls_hsto` and the others) and the
                                      determinism of `Evm.exec` in its fuel (`exec_det`, through `conc_of_exec`);

leaving H3 (the query asserts no more than the path: C11) and H4 (the solver is right when it says `unsat`).

The instance:

  Input      the valuations `I : Interp`; `c0 : Interp → Start` the transaction each describes (as in C03Core);
  AdmC       every visible hypothesis of the `*_hsto` / `*_gen` simulation theorems that speaks about the valuation or
             the concrete start, collected into one predicate (below): standard valuation, related initial frame at
             depth 0 running `this`, zero storage on the modelled set, the world's code is the model's `codes`,
             limits, `CreateHyp`, `BalHyp` / `BalBound`, `ShaInterp` / `ShaOK`, `HEmptyZero`, `HstoOK` at the visited
             states, and termination of the (gas-free) reference run;
  conc I     `ofHalt` of the halt `Spec.Evm.exec` ends in — of the whole transaction, nested calls included;
  paths      one `PathRec` per end `ce` of `runC …`: `pred I := Sat I ce.e.st.path`, `outcome := endOutcome codes ce.e`;
  flagged    `bounded_loops` non-empty ∨ `--depth` cut ∨ model fuel exhausted ∨ some end is stuck or tagged.

Hypotheses that do not depend on the valuation stay hypotheses of the theorems: `SimpSound`, `OracleSound` (only the
`unsat` answers of the branching oracle), the modelled set `S` contains `this` and every account with code, code bytes
are bytes, `cfg.hsto = true → cfg.sha3 = true` (hashed storage needs the SHA3 layer), and `hlit` (C03Core: revert
data literal where `is_panic_of` reads them; cannot be dropped, `C03Core.hlit_needed`).
-/
import HalmosVerif.Props.C03Core

namespace HalmosVerif.Props.C03Calls
open HalmosVerif.Model HalmosVerif.Model.Sevm HalmosVerif.Spec HalmosVerif.Lemmas.Sevm HalmosVerif.Lemmas.Word
open HalmosVerif.Lemmas.C03Core
open HalmosVerif.Model.Main (Outcome Class QRes PathRec Run classify isPanicOf)
open HalmosVerif.Props.C03Core (Start Terminates conc conc_of_exec conc_of_not_terminates FaithfulClass pass_sound_class
  endFlag)
open HalmosVerif.Props.C01 (exEnv exI exI_std exF0 exOracle)

/-! ### the instance -/

/-- the record `run_test` keeps of one end of the frame-stack run -/
def corePathC (codes : List Nat) (qp : CEnd → Interp → Prop) (q : CEnd → QRes) (ce : CEnd) : PathRec Interp where
  pred := fun I => Sat I ce.e.st.path
  outcome := endOutcome codes ce.e
  queryPred := qp ce
  query := q ce

def coreFlaggedC (res : ResultC) : Bool :=
  !res.boundedLoops.isEmpty || res.depthCut || res.outOfFuel || res.ends.any (fun ce => endFlag ce.e)

def coreRunC (codes : List Nat) (qp : CEnd → Interp → Prop) (q : CEnd → QRes) (res : ResultC) : Run Interp where
  paths := res.ends.map (corePathC codes qp q)
  flagged := coreFlaggedC res

theorem coreFlaggedC_false {res : ResultC} (h : coreFlaggedC res = false) :
    res.boundedLoops = [] ∧ res.depthCut = false ∧ res.outOfFuel = false ∧
      ∀ ce ∈ res.ends, (∀ r, ce.e.out ≠ .stuck r) ∧ ce.e.tag = .normal := by
  simp only [coreFlaggedC, Bool.or_eq_false_iff, Bool.not_eq_false', List.isEmpty_iff, List.any_eq_false] at h
  obtain ⟨⟨⟨h1, h2⟩, h3⟩, h4⟩ := h
  refine ⟨h1, h2, h3, fun ce he => ?_⟩
  have := h4 ce he
  simp only [endFlag, Bool.or_eq_true, bne_iff_ne, ne_eq, not_or, Decidable.not_not] at this
  refine ⟨fun r hr => ?_, this.2⟩
  rw [hr] at this
  exact this.1 rfl

/-- **admissible valuations** of a run of the frame-stack machine: the visible hypotheses of `C01.sound_calls_gen` /
    `C02.complete_calls_gen` (hence of the `*_hsto`, `*_create` and plain forms) about the valuation `I` and the
    concrete start `c0 I`, in the order: standard valuation; the first frame is related to the initial symbolic state,
    runs `this` at depth 0; the modelled accounts start with zero storage; the reference's limits are as permissive as
    halmos'; the world's code is the model's; the allocator agreement when CREATE is followed; the balance hypotheses
    when balances are followed; Keccak-256 is what `f_sha3_*` denote, and the conditions `sha3_data` appends hold,
    when SHA3 is followed; the empty-storage arrays read zero, a hashed location met is not a plain slot and no two
    cells met collide, when hashed storage is followed; the reference run terminates. -/
def AdmC (s : Simp) (o : Oracle) (cfg : Cfg) (env : Env) (codes : List (Nat × List Nat)) (this : Nat) (S : Nat → Prop)
    (c0 : Interp → Start) (I : Interp) : Prop :=
  I.Std ∧
  R I env ((codeOf codes this).getD []) (c0 I).p initState (c0 I).f ∧ (c0 I).f.this = this ∧ (c0 I).f.depth = 0 ∧
  (∀ a, S a → C01.ZeroStorage (c0 I).w a) ∧
  cfg.maxMem + 32 ≤ (c0 I).p.memLimit ∧ 1024 ≤ (c0 I).p.maxDepth ∧
  (∀ a, (c0 I).w.codeOf a = codeOf codes a) ∧
  CreateHyp cfg (c0 I).p S (c0 I).w ∧
  (cfg.balances = true → BalHyp I cfg (c0 I).w) ∧ (cfg.balances = true → BalBound (c0 I).w) ∧
  (cfg.sha3 = true → ShaInterp I (c0 I).p cfg) ∧
  (∀ cs, VisitedC s o cfg codes (initC env codes this) cs → ShaOK I s cfg cs) ∧
  (cfg.hsto = true → HEmptyZero I) ∧
  (∀ cs, VisitedC s o cfg codes (initC env codes this) cs → Sat I cs.st.path → HstoOK I (c0 I).p s cfg cs) ∧
  Terminates (c0 I)

section
variable {s : Simp} {o : Oracle} (cfg : Cfg) (env : Env) (codes : List (Nat × List Nat)) (this : Nat) (fuel : Nat)
variable (S : Nat → Prop) (c0 : Interp → Start)
variable (pcodes : List Nat) (qp : CEnd → Interp → Prop) (q : CEnd → QRes)

/-- **covered_calls (H1)** from `C02.complete_calls_gen`: every admissible valuation satisfies the path of some end of
    the frame-stack run, or the run is flagged. -/
theorem covered_calls (hs : SimpSound s) (ho : OracleSound o) (hS0 : S this)
    (hSc : ∀ a prog, codeOf codes a = some prog → S a)
    (hcb : ∀ a prog, codeOf codes a = some prog → ∀ b ∈ prog, b < 256)
    (hs3 : cfg.hsto = true → cfg.sha3 = true) :
    C03.Covered (AdmC s o cfg env codes this S c0) (coreRunC pcodes qp q (runC s o cfg env codes this fuel)) := by
  rintro I ⟨hI, hR, hthis, hd0, hz, hmem, hdep, hcodes, hch, hbal, hbound, hsha, hshaok, hez, hhs, n, ⟨w', h⟩, hex⟩
  rcases C02.complete_calls_gen hs ho cfg env codes this fuel (c0 I).p (c0 I).w S hS0 hSc hmem hdep hcodes hcb hz hch
      I hI hbal hbound hsha (fun hc => ⟨hs3 hc, hez hc⟩) hshaok hhs (c0 I).f hR hthis hd0 n w' h hex with
    ⟨ce, hm, hsat, _⟩ | hb | hd | hf
  · exact Or.inl ⟨corePathC pcodes qp q ce, List.mem_map_of_mem hm, hsat⟩
  · right
    have : (runC s o cfg env codes this fuel).boundedLoops.isEmpty = false := by
      cases hbl : (runC s o cfg env codes this fuel).boundedLoops with
      | nil => exact absurd hbl hb
      | cons _ _ => rfl
    simp [coreRunC, coreFlaggedC, this]
  · right; simp [coreRunC, coreFlaggedC, hd]
  · right; simp [coreRunC, coreFlaggedC, hf]

/-- **faithful_calls (H2′)** from `C01.sound_calls_gen` and the determinism of `Evm.exec`: in an unflagged run whose
    revert data are literal where `is_panic_of` reads them, the concrete outcome — of the whole transaction — of an
    admissible valuation satisfying the path of an end is classified as that end is. -/
theorem faithful_calls (hs : SimpSound s) (ho : OracleSound o) (hS0 : S this)
    (hSc : ∀ a prog, codeOf codes a = some prog → S a)
    (hcb : ∀ a prog, codeOf codes a = some prog → ∀ b ∈ prog, b < 256)
    (hs3 : cfg.hsto = true → cfg.sha3 = true)
    (hlit : ∀ ce ∈ (runC s o cfg env codes this fuel).ends, endLit pcodes ce.e = true) :
    FaithfulClass pcodes (AdmC s o cfg env codes this S c0) (conc c0)
      (coreRunC pcodes qp q (runC s o cfg env codes this fuel)) := by
  intro hflag p hp I hadm hsat
  obtain ⟨hI, hR, hthis, hd0, hz, hmem, hdep, hcodes, hch, hbal, _, hsha, _, _, hhs, _⟩ := hadm
  obtain ⟨ce, he, rfl⟩ := List.mem_map.1 hp
  obtain ⟨_, _, _, hends⟩ := coreFlaggedC_false hflag
  obtain ⟨hns, htag⟩ := hends ce he
  cases hout : ce.e.out with
  | stuck r => exact absurd hout (hns r)
  | halt h0 =>
    obtain ⟨n, w', hex, _⟩ := C01.sound_calls_gen hs o cfg env codes this fuel (c0 I).p (c0 I).w S hS0 hSc hmem hdep
      hcodes hcb hz (fun _ => ho) hch (fun hc => ⟨ho, hs3 hc⟩) ce he htag h0 hout I hI hbal hsha hhs (c0 I).f hR hthis hd0
      hsat
    rw [conc_of_exec hex]
    exact (endOutcome_class hout (hlit ce he) I).symm

/-- **pass_sound_calls, in the vocabulary of C03** -/
theorem pass_sound_calls_fails (hs : SimpSound s) (ho : OracleSound o) (hS0 : S this)
    (hSc : ∀ a prog, codeOf codes a = some prog → S a)
    (hcb : ∀ a prog, codeOf codes a = some prog → ∀ b ∈ prog, b < 256)
    (hs3 : cfg.hsto = true → cfg.sha3 = true)
    (hlit : ∀ ce ∈ (runC s o cfg env codes this fuel).ends, endLit pcodes ce.e = true)
    (H3 : C03.QueryIsPath pcodes (AdmC s o cfg env codes this S c0)
      (coreRunC pcodes qp q (runC s o cfg env codes this fuel)))
    (H4 : C03.SolverSoundOnUnsat (coreRunC pcodes qp q (runC s o cfg env codes this fuel)))
    (hpass : Main.verdict pcodes (coreRunC pcodes qp q (runC s o cfg env codes this fuel)).paths = .pass)
    (hflag : (coreRunC pcodes qp q (runC s o cfg env codes this fuel)).flagged = false) :
    ∀ I, AdmC s o cfg env codes this S c0 I → ¬ C03.Fails pcodes (conc c0) I :=
  pass_sound_class pcodes _ _ _ (covered_calls cfg env codes this fuel S c0 pcodes qp q hs ho hS0 hSc hcb hs3)
    (faithful_calls cfg env codes this fuel S c0 pcodes qp q hs ho hS0 hSc hcb hs3 hlit) H3 H4 hpass hflag

/-- **pass_sound_calls.** Verdict PASS and no flag on the frame-stack machine ⇒ for every admissible valuation `I`
    (`AdmC`, termination aside: it is the hypothesis `hex`) and the concrete transaction it describes, whenever the
    reference EVM terminates — with any fuel `n`, nested calls, creations and all — it does not end in a Panic with a
    configured code. Assumed besides `AdmC`: `SimpSound`, `OracleSound` (only `unsat` answers of the branching
    oracle), H3 (C11), H4 (the solver), `hlit`. -/
theorem pass_sound_calls (hs : SimpSound s) (ho : OracleSound o) (hS0 : S this)
    (hSc : ∀ a prog, codeOf codes a = some prog → S a)
    (hcb : ∀ a prog, codeOf codes a = some prog → ∀ b ∈ prog, b < 256)
    (hs3 : cfg.hsto = true → cfg.sha3 = true)
    (hlit : ∀ ce ∈ (runC s o cfg env codes this fuel).ends, endLit pcodes ce.e = true)
    (H3 : C03.QueryIsPath pcodes (AdmC s o cfg env codes this S c0)
      (coreRunC pcodes qp q (runC s o cfg env codes this fuel)))
    (H4 : C03.SolverSoundOnUnsat (coreRunC pcodes qp q (runC s o cfg env codes this fuel)))
    (hpass : Main.verdict pcodes (coreRunC pcodes qp q (runC s o cfg env codes this fuel)).paths = .pass)
    (hflag : (coreRunC pcodes qp q (runC s o cfg env codes this fuel)).flagged = false)
    (I : Interp) (n : Nat) (w' : Evm.World) (h : Evm.Halt)
    (hex : Evm.exec (c0 I).p n (c0 I).w (c0 I).f = some (w', h))
    (hadm : Terminates (c0 I) → AdmC s o cfg env codes this S c0 I) :
    classify pcodes (ofHalt h) ≠ .potential := by
  have := pass_sound_calls_fails cfg env codes this fuel S c0 pcodes qp q hs ho hS0 hSc hcb hs3 hlit H3 H4 hpass hflag I
    (hadm ⟨n, _, hex⟩)
  unfold C03.Fails at this
  rwa [conc_of_exec hex] at this

/-- the conclusion spelled out on the bytes: the reference EVM does not revert with `4e487b71 ‖ code`, `code` configured -/
theorem pass_sound_calls_bytes (hs : SimpSound s) (ho : OracleSound o) (hS0 : S this)
    (hSc : ∀ a prog, codeOf codes a = some prog → S a)
    (hcb : ∀ a prog, codeOf codes a = some prog → ∀ b ∈ prog, b < 256)
    (hs3 : cfg.hsto = true → cfg.sha3 = true)
    (hlit : ∀ ce ∈ (runC s o cfg env codes this fuel).ends, endLit pcodes ce.e = true)
    (H3 : C03.QueryIsPath pcodes (AdmC s o cfg env codes this S c0)
      (coreRunC pcodes qp q (runC s o cfg env codes this fuel)))
    (H4 : C03.SolverSoundOnUnsat (coreRunC pcodes qp q (runC s o cfg env codes this fuel)))
    (hpass : Main.verdict pcodes (coreRunC pcodes qp q (runC s o cfg env codes this fuel)).paths = .pass)
    (hflag : (coreRunC pcodes qp q (runC s o cfg env codes this fuel)).flagged = false)
    (I : Interp) (n : Nat) (w' : Evm.World) (d : List Nat)
    (hex : Evm.exec (c0 I).p n (c0 I).w (c0 I).f = some (w', .revert d))
    (hadm : Terminates (c0 I) → AdmC s o cfg env codes this S c0 I) :
    ¬ (d.length = 36 ∧ d.take 4 = panicSelector ∧ (pcodes = [] ∨ Evm.bytesToNat (d.drop 4) ∈ pcodes)) := by
  rintro ⟨h1, h2, h3⟩
  refine pass_sound_calls cfg env codes this fuel S c0 pcodes qp q hs ho hS0 hSc hcb hs3 hlit H3 H4 hpass hflag I n w' _
    hex hadm ?_
  have : ofHalt (.revert d) = .panic (Evm.bytesToNat (d.drop 4)) := by
    simp only [ofHalt, bytesOutcome, h1, h2, and_self, if_true]
  rw [this]
  rcases h3 with h3 | h3
  · subst h3; exact classify_panic_any _
  · simp [classify, isPanicOf, h3]

/-- non-terminating inputs included: no valuation that is admissible but for termination is a failure -/
theorem pass_sound_calls_all (hs : SimpSound s) (ho : OracleSound o) (hS0 : S this)
    (hSc : ∀ a prog, codeOf codes a = some prog → S a)
    (hcb : ∀ a prog, codeOf codes a = some prog → ∀ b ∈ prog, b < 256)
    (hs3 : cfg.hsto = true → cfg.sha3 = true)
    (hlit : ∀ ce ∈ (runC s o cfg env codes this fuel).ends, endLit pcodes ce.e = true)
    (H3 : C03.QueryIsPath pcodes (AdmC s o cfg env codes this S c0)
      (coreRunC pcodes qp q (runC s o cfg env codes this fuel)))
    (H4 : C03.SolverSoundOnUnsat (coreRunC pcodes qp q (runC s o cfg env codes this fuel)))
    (hpass : Main.verdict pcodes (coreRunC pcodes qp q (runC s o cfg env codes this fuel)).paths = .pass)
    (hflag : (coreRunC pcodes qp q (runC s o cfg env codes this fuel)).flagged = false)
    (I : Interp) (hadm : Terminates (c0 I) → AdmC s o cfg env codes this S c0 I) :
    ¬ C03.Fails pcodes (conc c0) I := by
  by_cases ht : Terminates (c0 I)
  · exact pass_sound_calls_fails cfg env codes this fuel S c0 pcodes qp q hs ho hS0 hSc hcb hs3 hlit H3 H4 hpass hflag I
      (hadm ht)
  · unfold C03.Fails
    rw [conc_of_not_terminates ht]
    simp [classify, isPanicOf]

/-- H3 and H4 for the instance, unfolded to the ends (what C11 and the solver have to provide) -/
theorem queryIsPath_calls_iff (res : ResultC) :
    C03.QueryIsPath pcodes (AdmC s o cfg env codes this S c0) (coreRunC pcodes qp q res) ↔
      ∀ ce ∈ res.ends, classify pcodes (endOutcome pcodes ce.e) = .potential →
        ∀ I, AdmC s o cfg env codes this S c0 I → Sat I ce.e.st.path → qp ce I := by
  unfold C03.QueryIsPath coreRunC
  simp only [List.mem_map, forall_exists_index, and_imp, forall_apply_eq_imp_iff₂]
  rfl

theorem solverSound_calls_iff (res : ResultC) :
    C03.SolverSoundOnUnsat (coreRunC pcodes qp q res) ↔ ∀ ce ∈ res.ends, q ce = .unsat → ∀ I, ¬ qp ce I := by
  unfold C03.SolverSoundOnUnsat coreRunC
  simp only [List.mem_map, forall_exists_index, and_imp, forall_apply_eq_imp_iff₂]
  rfl

end

/-! ### non-vacuity -/

/-- the caller at 0x1000: `if (x == 42) { call(0, 0x2000, 0, 0, 0, 0, 36); revert(0, 36) }` — it hands the callee's revert
    data on: `PUSH1 4; CALLDATALOAD; PUSH1 42; EQ; PUSH1 10; JUMPI; STOP; JUMPDEST(10); PUSH1 36; PUSH1 0; PUSH1 0;
    PUSH1 0; PUSH1 0; PUSH2 0x2000; PUSH1 0; CALL; POP; PUSH1 36; PUSH1 0; REVERT` -/
def failCaller : List Nat :=
  [0x60, 4, 0x35, 0x60, 42, 0x14, 0x60, 10, 0x57, 0x00, 0x5b,
   0x60, 36, 0x60, 0, 0x60, 0, 0x60, 0, 0x60, 0, 0x61, 0x20, 0x00, 0x60, 0, 0xf1, 0x50, 0x60, 36, 0x60, 0, 0xfd]

/-- the callee at 0x2000 reverts with `Panic(1)` -/
def failCodes : List (Nat × List Nat) := [(0x1000, failCaller), (0x2000, C03Core.panicBody)]
def failW : Evm.World := { code := failCodes, storage := [], transient := [], balance := [] }
def failStart : Interp → Start := fun _ => ⟨C01.exPC, failW, { exF0 with code := failCaller }⟩
def failResC : ResultC := runC foldSimp exOracle {} exEnv failCodes 0x1000 100

theorem failCodes_bytes : ∀ a prog, codeOf failCodes a = some prog → ∀ b ∈ prog, b < 256 := by
  intro a prog hc b hb
  have hall : ∀ q ∈ failCodes, ∀ b ∈ q.2, b < 256 := by decide
  unfold codeOf at hc
  cases hf : failCodes.find? (fun q => q.1 == a) with
  | none => rw [hf] at hc; cases hc
  | some q =>
    rw [hf] at hc
    simp only [Option.map_some, Option.some.injEq] at hc
    subst hc
    exact hall q (List.mem_of_find?_eq_some hf) b hb

/-- the reference EVM, on `x = 42`: the nested call reverts with `Panic(1)` and the caller reverts with the same data -/
theorem fail_exec : ∃ w', Evm.exec C01.exPC 60 failW { exF0 with code := failCaller } =
    some (w', .revert C03Core.panic1) := by
  have : (Evm.exec C01.exPC 60 failW { exF0 with code := failCaller }).map (·.2) = some (.revert C03Core.panic1) := by
    decide +kernel
  match h : Evm.exec C01.exPC 60 failW { exF0 with code := failCaller }, this with
  | some (w', _), this => exact ⟨w', by simp only [Option.map_some, Option.some.injEq] at this; rw [← this]⟩

/-- the valuation `x = 42` is admissible for the run (every layer of `Cfg` off: the conditional clauses are void) -/
theorem fail_adm : AdmC foldSimp exOracle {} exEnv failCodes 0x1000 (Modelled failCodes 0x1000) failStart exI := by
  obtain ⟨w', hex⟩ := fail_exec
  have hR : R exI exEnv ((codeOf failCodes 0x1000).getD []) C01.exPC initState { exF0 with code := failCaller } :=
    ⟨rfl, rfl, StackRel.nil, ⟨C01.exR.env.caller, C01.exR.env.origin, C01.exR.env.callvalue, C01.exR.env.address,
      C01.exR.env.cd, C01.exR.env.cdByte, C01.exR.env.cdSize, C01.exR.env.isStatic⟩, C01.exR.subst, MemRel.nil _,
      MemRel.nil _⟩
  refine ⟨exI_std, hR, rfl, rfl, ?_, ?_, ?_, ?_, ?_, ?_, ?_, ?_, ?_, ?_, ?_, 60, _, hex⟩
  · exact fun _ _ _ => ⟨rfl, rfl⟩
  · decide
  · decide
  · exact fun _ => rfl
  · exact CreateHyp.off rfl
  · intro h; cases h
  · intro h; cases h
  · intro h; cases h
  · exact fun _ _ => shaOK_off rfl
  · intro h; cases h
  · exact fun _ _ _ => hstoOK_off rfl

/-- **a failing nested call is not PASS.** Whatever the queries and their answers, as long as H3 and H4 hold, the run
    of the caller / Panicking-callee pair is not reported PASS: `pass_sound_calls` at the admissible input `x = 42`,
    on which the reference EVM — through the nested call — reverts with `Panic(1)` -/
theorem failing_call_not_pass (qp : CEnd → Interp → Prop) (q : CEnd → QRes)
    (H3 : C03.QueryIsPath [1] (AdmC foldSimp exOracle {} exEnv failCodes 0x1000 (Modelled failCodes 0x1000) failStart)
      (coreRunC [1] qp q failResC))
    (H4 : C03.SolverSoundOnUnsat (coreRunC [1] qp q failResC)) :
    Main.verdict [1] (coreRunC [1] qp q failResC).paths ≠ .pass := by
  intro hpass
  obtain ⟨w', hex⟩ := fail_exec
  have hlit : ∀ ce ∈ failResC.ends, endLit [1] ce.e = true := by decide +kernel
  have hflag : (coreRunC [1] qp q failResC).flagged = false := by
    show coreFlaggedC failResC = false
    decide +kernel
  refine pass_sound_calls (s := foldSimp) (o := exOracle) {} exEnv failCodes 0x1000 100 (Modelled failCodes 0x1000)
    failStart [1] qp q foldSimp_sound oracleSound_unknown (Or.inl rfl) (fun _ _ h => modelled_of_code h) failCodes_bytes
    (fun h => by cases h) hlit H3 H4 hpass hflag exI 60 w' _ hex (fun _ => fail_adm) ?_
  decide

/-- honest queries: the query of a potential path asserts the path -/
def qpPathC (pcodes : List Nat) (ce : CEnd) (I : Interp) : Prop :=
  classify pcodes (endOutcome pcodes ce.e) = .potential ∧ Sat I ce.e.st.path

/-- a solver that finds the counterexample -/
def qFailC (ce : CEnd) : QRes := if classify [1] (endOutcome [1] ce.e) = .potential then .sat else .unsat

/-- on that pair, with honest queries and a right solver: H3 and H4 hold, the run is unflagged, its revert data are
    literal (the callee's bytes, copied through the return area), `x = 42` is admissible, the model's ends are the
    fall-through success and the handed-on `Panic(1)` — and the verdict is FAIL -/
example :
    C03.QueryIsPath [1] (AdmC foldSimp exOracle {} exEnv failCodes 0x1000 (Modelled failCodes 0x1000) failStart)
      (coreRunC [1] (qpPathC [1]) qFailC failResC) ∧
    C03.SolverSoundOnUnsat (coreRunC [1] (qpPathC [1]) qFailC failResC) ∧
    (coreRunC [1] (qpPathC [1]) qFailC failResC).flagged = false ∧ (∀ ce ∈ failResC.ends, endLit [1] ce.e = true) ∧
    AdmC foldSimp exOracle {} exEnv failCodes 0x1000 (Modelled failCodes 0x1000) failStart exI ∧
    Main.verdict [1] (coreRunC [1] (qpPathC [1]) qFailC failResC).paths = .fail ∧
    failResC.ends.map (fun ce => endOutcome [1] ce.e) = [.success, .panic 1] := by
  refine ⟨?_, ?_, ?_, by decide +kernel, fail_adm, by decide +kernel, by decide +kernel⟩
  · rw [queryIsPath_calls_iff]
    exact fun ce _ hpot I _ hsat => ⟨hpot, hsat⟩
  · rw [solverSound_calls_iff]
    intro ce _ hq I hqp
    simp [qFailC, hqp.1] at hq
  · show coreFlaggedC failResC = false
    decide +kernel

/-- the caller with an unsatisfiable guard: `if (x & 1 == 2) { call(0x2000 …); revert(0, 36) }` -/
def guardCaller : List Nat :=
  [0x60, 4, 0x35, 0x60, 1, 0x16, 0x60, 2, 0x14, 0x60, 13, 0x57, 0x00, 0x5b,
   0x60, 36, 0x60, 0, 0x60, 0, 0x60, 0, 0x60, 0, 0x61, 0x20, 0x00, 0x60, 0, 0xf1, 0x50, 0x60, 36, 0x60, 0, 0xfd]

def guardCodes : List (Nat × List Nat) := [(0x1000, guardCaller), (0x2000, C03Core.panicBody)]
def guardW : Evm.World := { code := guardCodes, storage := [], transient := [], balance := [] }
def guardStart : Interp → Start := fun _ => ⟨C01.exPC, guardW, { exF0 with code := guardCaller }⟩
def guardResC : ResultC := runC foldSimp exOracle {} exEnv guardCodes 0x1000 100

theorem guard_exec : ∃ w', Evm.exec C01.exPC 60 guardW { exF0 with code := guardCaller } = some (w', .success []) := by
  have : (Evm.exec C01.exPC 60 guardW { exF0 with code := guardCaller }).map (·.2) = some (.success []) := by
    decide +kernel
  match h : Evm.exec C01.exPC 60 guardW { exF0 with code := guardCaller }, this with
  | some (w', _), this => exact ⟨w', by simp only [Option.map_some, Option.some.injEq] at this; rw [← this]⟩

theorem guard_adm : AdmC foldSimp exOracle {} exEnv guardCodes 0x1000 (Modelled guardCodes 0x1000) guardStart exI := by
  obtain ⟨w', hex⟩ := guard_exec
  have hR : R exI exEnv ((codeOf guardCodes 0x1000).getD []) C01.exPC initState { exF0 with code := guardCaller } :=
    ⟨rfl, rfl, StackRel.nil, ⟨C01.exR.env.caller, C01.exR.env.origin, C01.exR.env.callvalue, C01.exR.env.address,
      C01.exR.env.cd, C01.exR.env.cdByte, C01.exR.env.cdSize, C01.exR.env.isStatic⟩, C01.exR.subst, MemRel.nil _,
      MemRel.nil _⟩
  refine ⟨exI_std, hR, rfl, rfl, ?_, ?_, ?_, ?_, ?_, ?_, ?_, ?_, ?_, ?_, ?_, 60, _, hex⟩
  · exact fun _ _ _ => ⟨rfl, rfl⟩
  · decide
  · decide
  · exact fun _ => rfl
  · exact CreateHyp.off rfl
  · intro h; cases h
  · intro h; cases h
  · intro h; cases h
  · exact fun _ _ => shaOK_off rfl
  · intro h; cases h
  · exact fun _ _ _ => hstoOK_off rfl

/-- every potential end of the guarded pair — the Panic handed on from the nested call — carries the guard as its path -/
theorem guard_paths : ∀ ce ∈ guardResC.ends, classify [1] (endOutcome [1] ce.e) = .potential →
    ce.e.st.path = [.cmp .eq (.bin .band (.lit 256 1) (.var "x" 256)) (.lit 256 2)] := by
  decide +kernel

/-- on the guarded pair (the model, with an oracle that cannot decide, does explore the nested call and its Panic) the
    solver's `unsat` for that path is *right* (`C03Core.guard_unsat`): H3, H4 and the other hypotheses of
    `pass_sound_calls` hold, the verdict is PASS, and the admissible input `x = 42` is among those the conclusion
    speaks about -/
example :
    C03.QueryIsPath [1] (AdmC foldSimp exOracle {} exEnv guardCodes 0x1000 (Modelled guardCodes 0x1000) guardStart)
      (coreRunC [1] (qpPathC [1]) (fun _ => .unsat) guardResC) ∧
    C03.SolverSoundOnUnsat (coreRunC [1] (qpPathC [1]) (fun _ => .unsat) guardResC) ∧
    (coreRunC [1] (qpPathC [1]) (fun _ => .unsat) guardResC).flagged = false ∧
    (∀ ce ∈ guardResC.ends, endLit [1] ce.e = true) ∧
    AdmC foldSimp exOracle {} exEnv guardCodes 0x1000 (Modelled guardCodes 0x1000) guardStart exI ∧
    Main.verdict [1] (coreRunC [1] (qpPathC [1]) (fun _ => .unsat) guardResC).paths = .pass ∧
    guardResC.ends.map (fun ce => endOutcome [1] ce.e) = [.success, .panic 1] := by
  refine ⟨?_, ?_, ?_, by decide +kernel, guard_adm, by decide +kernel, by decide +kernel⟩
  · rw [queryIsPath_calls_iff]
    exact fun ce _ hpot I _ hsat => ⟨hpot, hsat⟩
  · rw [solverSound_calls_iff]
    intro ce he _ I hqp
    have hp := guard_paths ce he hqp.1
    have := sat_singleton.1 (hp ▸ hqp.2)
    rw [C03Core.guard_unsat I] at this
    cases this
  · show coreFlaggedC guardResC = false
    decide +kernel

end HalmosVerif.Props.C03Calls
