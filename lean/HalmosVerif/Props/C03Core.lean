/-
Props.C03Core — the bridge: two of the four hypotheses of `Props.C03.pass_sound` discharged for the exploration-core
machine (Model.Sevm, see Props.C01 for its instruction set) from the simulation theorems `C02.complete` and
`C01.sound_exec`.

The instance of the abstract `Run Input` of Model.Main:

  Input      the valuations `I : Interp` of the symbolic transaction (variables and uninterpreted functions);
  concrete   a family `c0 : Interp → Start` (parameters, world, initial frame of the reference EVM: the transaction the
             valuation describes); `Adm`: `I.Std`, the initial frame is related to the initial symbolic state (`R`), the
             executing account starts with zero storage, the reference's memory limit is as permissive as halmos', and
             the reference run terminates (the reference is gas-free; for a non-terminating input nothing is claimed
             by coverage — and nothing needs to be: it is not a failure, see `pass_sound_core`);
  conc I     `ofHalt` of the halt `Spec.Evm.exec` ends in (success / `Panic(code)` decoded from the 36 bytes
             `4e487b71 ‖ code` of revert data / any other revert or exceptional halt). The global fail flag does not
             exist in the core machine (cheatcode calls end the model path stuck), so `conc` never is `.failFlag`;
  paths      one `PathRec` per end state `e` of `run s o cfg env code fuel`: `pred I := Sat I e.st.path`,
             `outcome := endOutcome codes e` — what `is_panic_of` reads off the byte *terms* of the end state; the query
             and what it asserts (`qp`, `q`) are parameters: they are the subject of H3 (C11) and H4 (the solver);
  flagged    `bounded_loops` non-empty ∨ `--depth` cut ∨ model fuel exhausted ∨ some end state is stuck or tagged.

`outcome` is one value per path while the data of an end state are terms. This is handled in two steps, both visible:
  * `FaithfulClass` (H2′): only the *classification* of the concrete outcome has to agree with that of the path, only
    for admissible inputs, and only in unflagged runs. `C03.Faithful → FaithfulClass`, and `pass_sound_class` is
    `pass_sound` from H2′;
  * `hlit` (`endLit`): the revert data of every end state is literal where `is_panic_of` reads it (36 bytes ⇒ literal
    selector; Panic selector and a configured code set ⇒ literal code). Compiled Panics are. Where it fails the code
    itself is not faithful ("symbolic error code will be silently ignored", sevm.py `is_panic_of`), so this
    hypothesis cannot be dropped; it is a decidable property of the result (`decide` in the examples).

Stuck end states are paths with outcome `.stuck` *and* raise the flag here (the task of refuting them by a query —
`pass_no_stuck` — is not used).
-/
import HalmosVerif.Props.C03
import HalmosVerif.Props.C10
import HalmosVerif.Lemmas.C03Core

namespace HalmosVerif.Props.C03Core
open HalmosVerif.Model HalmosVerif.Model.Sevm HalmosVerif.Spec HalmosVerif.Lemmas.Sevm HalmosVerif.Lemmas.Word
open HalmosVerif.Lemmas.C03Core
open HalmosVerif.Model.Main (Outcome Class QRes PathRec Run classify isPanicOf)
open HalmosVerif.Props.C01 (exEnv exI exI_std exP exW exF0 exR exOracle)

/-! ### H2′ and the composition theorem from it (any `Run`) -/

/-- H2′: in an unflagged run, for an admissible input satisfying a path's predicate the concrete outcome is classified
    as the path's outcome is -/
def FaithfulClass {Input} (codes : List Nat) (adm : Input → Prop) (conc : Input → Outcome) (run : Run Input) : Prop :=
  run.flagged = false → ∀ p ∈ run.paths, ∀ i, adm i → p.pred i → classify codes (conc i) = classify codes p.outcome

/-- H2 ⇒ H2′ -/
theorem faithfulClass_of_faithful {Input} (codes : List Nat) (adm : Input → Prop) (conc : Input → Outcome)
    (run : Run Input) (H2 : C03.Faithful conc run) : FaithfulClass codes adm conc run :=
  fun _ p hp i _ hpi => by rw [H2 p hp i hpi]

/-- **pass_sound_class**: `C03.pass_sound` with H2′ in place of H2 -/
theorem pass_sound_class {Input} (codes : List Nat) (adm : Input → Prop) (conc : Input → Outcome) (run : Run Input)
    (H1 : C03.Covered adm run) (H2 : FaithfulClass codes adm conc run) (H3 : C03.QueryIsPath codes adm run)
    (H4 : C03.SolverSoundOnUnsat run) (hpass : Main.verdict codes run.paths = .pass) (hflag : run.flagged = false) :
    ∀ i, adm i → ¬ C03.Fails codes conc i := by
  intro i hadm hfail
  rcases H1 i hadm with ⟨p, hp, hpi⟩ | hf
  · have hpot : classify codes p.outcome = .potential := by rw [← H2 hflag p hp i hadm hpi]; exact hfail
    have hun : p.query = .unsat := Main.pass_potential_unsat codes run.paths hpass p hp hpot
    exact H4 p hp hun i (H3 p hp hpot i hadm hpi)
  · rw [hflag] at hf; cases hf

/-- `C03.pass_sound` is the instance H2 ⇒ H2′ -/
example {Input} (codes : List Nat) (adm : Input → Prop) (conc : Input → Outcome) (run : Run Input)
    (H1 : C03.Covered adm run) (H2 : C03.Faithful conc run) (H3 : C03.QueryIsPath codes adm run)
    (H4 : C03.SolverSoundOnUnsat run) (hpass : Main.verdict codes run.paths = .pass) (hflag : run.flagged = false) :
    ∀ i, adm i → ¬ C03.Fails codes conc i :=
  pass_sound_class codes adm conc run H1 (faithfulClass_of_faithful codes adm conc run H2) H3 H4 hpass hflag

/-! ### the instance -/

/-- where the reference EVM starts for one valuation: parameters (ORIGIN, memory limit, …), world, initial frame -/
structure Start where
  p : Evm.Params
  w : Evm.World
  f : Evm.Frame

/-- the reference run terminates (it is gas-free, so it need not) -/
def Terminates (c : Start) : Prop := ∃ n r, Evm.exec c.p n c.w c.f = some r

/-- admissible valuations -/
def Adm (cfg : Cfg) (env : Env) (code : List Nat) (c0 : Interp → Start) (I : Interp) : Prop :=
  I.Std ∧ R I env code (c0 I).p initState (c0 I).f ∧ C01.ZeroStorage (c0 I).w (c0 I).f.this ∧
    cfg.maxMem + 32 ≤ (c0 I).p.memLimit ∧ Terminates (c0 I)

open Classical in
/-- the outcome of the concrete execution on the input `I` describes (`.revert` — "any other error" — when the gas-free
    reference does not terminate: the EVM would run out of gas) -/
noncomputable def conc (c0 : Interp → Start) (I : Interp) : Outcome :=
  if h : Terminates (c0 I) then ofHalt (Classical.choose (Classical.choose_spec h)).2 else .revert

/-- `conc` is the outcome of *every* terminating `exec` (determinism in the fuel) -/
theorem conc_of_exec {c0 : Interp → Start} {I : Interp} {n : Nat} {w' : Evm.World} {h : Evm.Halt}
    (hex : Evm.exec (c0 I).p n (c0 I).w (c0 I).f = some (w', h)) : conc c0 I = ofHalt h := by
  have ht : Terminates (c0 I) := ⟨n, _, hex⟩
  unfold conc
  rw [dif_pos ht]
  have hc := Classical.choose_spec (Classical.choose_spec ht)
  rw [exec_det hc hex]

/-- a non-terminating input is not a failure -/
theorem conc_of_not_terminates {c0 : Interp → Start} {I : Interp} (h : ¬ Terminates (c0 I)) : conc c0 I = .revert := by
  unfold conc; rw [dif_neg h]

/-- the record `run_test` keeps of one end state; `qp e` / `q e`: what the query built for it asserts / was answered -/
def corePath (codes : List Nat) (qp : EndState → Interp → Prop) (q : EndState → QRes) (e : EndState) : PathRec Interp where
  pred := fun I => Sat I e.st.path
  outcome := endOutcome codes e
  queryPred := qp e
  query := q e

/-- the end state is an error report (HalmosException) or one of the tagged ends (see Props.C01) -/
def endFlag (e : EndState) : Bool :=
  (match e.out with | .stuck _ => true | .halt _ => false) || e.tag != .normal

def coreFlagged (res : Result) : Bool :=
  !res.boundedLoops.isEmpty || res.depthCut || res.outOfFuel || res.ends.any endFlag

def coreRun (codes : List Nat) (qp : EndState → Interp → Prop) (q : EndState → QRes) (res : Result) : Run Interp where
  paths := res.ends.map (corePath codes qp q)
  flagged := coreFlagged res

theorem coreFlagged_false {res : Result} (h : coreFlagged res = false) :
    res.boundedLoops = [] ∧ res.depthCut = false ∧ res.outOfFuel = false ∧
      ∀ e ∈ res.ends, (∀ r, e.out ≠ .stuck r) ∧ e.tag = .normal := by
  simp only [coreFlagged, Bool.or_eq_false_iff, Bool.not_eq_false', List.isEmpty_iff, List.any_eq_false] at h
  obtain ⟨⟨⟨h1, h2⟩, h3⟩, h4⟩ := h
  refine ⟨h1, h2, h3, fun e he => ?_⟩
  have := h4 e he
  simp only [endFlag, Bool.or_eq_true, bne_iff_ne, ne_eq, not_or, Decidable.not_not] at this
  refine ⟨fun r hr => ?_, this.2⟩
  rw [hr] at this
  exact this.1 rfl

section
variable {s : Simp} {o : Oracle} (cfg : Cfg) (env : Env) (code : List Nat) (fuel : Nat) (c0 : Interp → Start)
variable (codes : List Nat) (qp : EndState → Interp → Prop) (q : EndState → QRes)

/-- **covered_core (H1)** from `C02.complete`: every admissible valuation satisfies the path of some end state, or the
    run is flagged. Any sound simplifier, any oracle whose `unsat` answers are right, any program, fuel, configuration. -/
theorem covered_core (hs : SimpSound s) (ho : OracleSound o) (hcode : ∀ b ∈ code, b < 256) :
    C03.Covered (Adm cfg env code c0) (coreRun codes qp q (run s o cfg env code fuel)) := by
  rintro I ⟨hI, hR, hz, hmem, n, ⟨w', h⟩, hex⟩
  rcases C02.complete hs ho cfg env code fuel (c0 I).p (c0 I).w hmem hcode I hI (c0 I).f hR hz n w' h hex with
    ⟨e, hm, hsat, _⟩ | hb | hd | hf
  · exact Or.inl ⟨corePath codes qp q e, List.mem_map_of_mem hm, hsat⟩
  · right
    have : (run s o cfg env code fuel).boundedLoops.isEmpty = false := by
      cases hbl : (run s o cfg env code fuel).boundedLoops with
      | nil => exact absurd hbl hb
      | cons _ _ => rfl
    simp [coreRun, coreFlagged, this]
  · right; simp [coreRun, coreFlagged, hd]
  · right; simp [coreRun, coreFlagged, hf]

/-- **faithful_core (H2′)** from `C01.sound_exec` and the determinism of `Evm.exec`: in an unflagged run whose revert
    data are literal where `is_panic_of` reads them, the concrete outcome of an admissible valuation satisfying the
    path of an end state is classified as that end state is. Any oracle whatsoever. -/
theorem faithful_core (hs : SimpSound s) (hcode : ∀ b ∈ code, b < 256)
    (hlit : ∀ e ∈ (run s o cfg env code fuel).ends, endLit codes e = true) :
    FaithfulClass codes (Adm cfg env code c0) (conc c0) (coreRun codes qp q (run s o cfg env code fuel)) := by
  intro hflag p hp I hadm hsat
  obtain ⟨hI, hR, hz, hmem, _⟩ := hadm
  obtain ⟨e, he, rfl⟩ := List.mem_map.1 hp
  obtain ⟨_, _, _, hends⟩ := coreFlagged_false hflag
  obtain ⟨hns, htag⟩ := hends e he
  cases hout : e.out with
  | stuck r => exact absurd hout (hns r)
  | halt h0 =>
    obtain ⟨n, w', hex, _⟩ := C01.sound_exec hs o cfg env code fuel (c0 I).p (c0 I).w hmem hcode e he htag h0 hout I hI
      (c0 I).f hR hz hsat
    rw [conc_of_exec hex]
    exact (endOutcome_class hout (hlit e he) I).symm

/-- **pass_sound_core, in the vocabulary of C03**: for the core machine, H3 (the query asserts no more than the path:
    C11) and H4 (the solver is right when it says `unsat`) are all that is left to assume -/
theorem pass_sound_core_fails (hs : SimpSound s) (ho : OracleSound o) (hcode : ∀ b ∈ code, b < 256)
    (hlit : ∀ e ∈ (run s o cfg env code fuel).ends, endLit codes e = true)
    (H3 : C03.QueryIsPath codes (Adm cfg env code c0) (coreRun codes qp q (run s o cfg env code fuel)))
    (H4 : C03.SolverSoundOnUnsat (coreRun codes qp q (run s o cfg env code fuel)))
    (hpass : Main.verdict codes (coreRun codes qp q (run s o cfg env code fuel)).paths = .pass)
    (hflag : (coreRun codes qp q (run s o cfg env code fuel)).flagged = false) :
    ∀ I, Adm cfg env code c0 I → ¬ C03.Fails codes (conc c0) I :=
  pass_sound_class codes _ _ _ (covered_core cfg env code fuel c0 codes qp q hs ho hcode)
    (faithful_core cfg env code fuel c0 codes qp q hs hcode hlit) H3 H4 hpass hflag

/-- **pass_sound_core.** Verdict PASS and no flag on the core machine ⇒ for every standard valuation `I` and the
    concrete transaction it describes (`R`, zero initial storage), whenever the reference EVM terminates — with any
    fuel `n` — it does not end in a Panic with a configured code (nor, vacuously, with the fail flag).
    Assumed: `SimpSound`, `OracleSound` (only `unsat` answers of the branching oracle), H3, H4, `hlit`. -/
theorem pass_sound_core (hs : SimpSound s) (ho : OracleSound o) (hcode : ∀ b ∈ code, b < 256)
    (hlit : ∀ e ∈ (run s o cfg env code fuel).ends, endLit codes e = true)
    (H3 : C03.QueryIsPath codes (Adm cfg env code c0) (coreRun codes qp q (run s o cfg env code fuel)))
    (H4 : C03.SolverSoundOnUnsat (coreRun codes qp q (run s o cfg env code fuel)))
    (hpass : Main.verdict codes (coreRun codes qp q (run s o cfg env code fuel)).paths = .pass)
    (hflag : (coreRun codes qp q (run s o cfg env code fuel)).flagged = false)
    (I : Interp) (hI : I.Std) (hR : R I env code (c0 I).p initState (c0 I).f)
    (hz : C01.ZeroStorage (c0 I).w (c0 I).f.this) (hmem : cfg.maxMem + 32 ≤ (c0 I).p.memLimit)
    (n : Nat) (w' : Evm.World) (h : Evm.Halt) (hex : Evm.exec (c0 I).p n (c0 I).w (c0 I).f = some (w', h)) :
    classify codes (ofHalt h) ≠ .potential := by
  have hadm : Adm cfg env code c0 I := ⟨hI, hR, hz, hmem, n, _, hex⟩
  have := pass_sound_core_fails cfg env code fuel c0 codes qp q hs ho hcode hlit H3 H4 hpass hflag I hadm
  unfold C03.Fails at this
  rwa [conc_of_exec hex] at this

/-- the conclusion spelled out on the bytes: the reference EVM does not revert with `4e487b71 ‖ code`, `code` configured -/
theorem pass_sound_core_bytes (hs : SimpSound s) (ho : OracleSound o) (hcode : ∀ b ∈ code, b < 256)
    (hlit : ∀ e ∈ (run s o cfg env code fuel).ends, endLit codes e = true)
    (H3 : C03.QueryIsPath codes (Adm cfg env code c0) (coreRun codes qp q (run s o cfg env code fuel)))
    (H4 : C03.SolverSoundOnUnsat (coreRun codes qp q (run s o cfg env code fuel)))
    (hpass : Main.verdict codes (coreRun codes qp q (run s o cfg env code fuel)).paths = .pass)
    (hflag : (coreRun codes qp q (run s o cfg env code fuel)).flagged = false)
    (I : Interp) (hI : I.Std) (hR : R I env code (c0 I).p initState (c0 I).f)
    (hz : C01.ZeroStorage (c0 I).w (c0 I).f.this) (hmem : cfg.maxMem + 32 ≤ (c0 I).p.memLimit)
    (n : Nat) (w' : Evm.World) (d : List Nat)
    (hex : Evm.exec (c0 I).p n (c0 I).w (c0 I).f = some (w', .revert d)) :
    ¬ (d.length = 36 ∧ d.take 4 = panicSelector ∧ (codes = [] ∨ Evm.bytesToNat (d.drop 4) ∈ codes)) := by
  rintro ⟨h1, h2, h3⟩
  refine pass_sound_core cfg env code fuel c0 codes qp q hs ho hcode hlit H3 H4 hpass hflag I hI hR hz hmem n w' _ hex ?_
  have : ofHalt (.revert d) = .panic (Evm.bytesToNat (d.drop 4)) := by
    simp only [ofHalt, bytesOutcome, h1, h2, and_self, if_true]
  rw [this]
  rcases h3 with h3 | h3
  · subst h3; exact classify_panic_any _
  · simp [classify, isPanicOf, h3]

/-- the whole-run, non-terminating inputs included: no admissible-but-for-termination valuation is a failure -/
theorem pass_sound_core_all (hs : SimpSound s) (ho : OracleSound o) (hcode : ∀ b ∈ code, b < 256)
    (hlit : ∀ e ∈ (run s o cfg env code fuel).ends, endLit codes e = true)
    (H3 : C03.QueryIsPath codes (Adm cfg env code c0) (coreRun codes qp q (run s o cfg env code fuel)))
    (H4 : C03.SolverSoundOnUnsat (coreRun codes qp q (run s o cfg env code fuel)))
    (hpass : Main.verdict codes (coreRun codes qp q (run s o cfg env code fuel)).paths = .pass)
    (hflag : (coreRun codes qp q (run s o cfg env code fuel)).flagged = false)
    (I : Interp) (hI : I.Std) (hR : R I env code (c0 I).p initState (c0 I).f)
    (hz : C01.ZeroStorage (c0 I).w (c0 I).f.this) (hmem : cfg.maxMem + 32 ≤ (c0 I).p.memLimit) :
    ¬ C03.Fails codes (conc c0) I := by
  by_cases ht : Terminates (c0 I)
  · exact pass_sound_core_fails cfg env code fuel c0 codes qp q hs ho hcode hlit H3 H4 hpass hflag I ⟨hI, hR, hz, hmem, ht⟩
  · unfold C03.Fails
    rw [conc_of_not_terminates ht]
    simp [classify, isPanicOf]

/-- H3 and H4 for the instance, unfolded to end states (what C11 and the solver have to provide) -/
theorem queryIsPath_core_iff (res : Result) :
    C03.QueryIsPath codes (Adm cfg env code c0) (coreRun codes qp q res) ↔
      ∀ e ∈ res.ends, classify codes (endOutcome codes e) = .potential →
        ∀ I, Adm cfg env code c0 I → Sat I e.st.path → qp e I := by
  unfold C03.QueryIsPath coreRun
  simp only [List.mem_map, forall_exists_index, and_imp, forall_apply_eq_imp_iff₂]
  rfl

theorem solverSound_core_iff (res : Result) :
    C03.SolverSoundOnUnsat (coreRun codes qp q res) ↔ ∀ e ∈ res.ends, q e = .unsat → ∀ I, ¬ qp e I := by
  unfold C03.SolverSoundOnUnsat coreRun
  simp only [List.mem_map, forall_exists_index, and_imp, forall_apply_eq_imp_iff₂]
  rfl

end

/-! ### non-vacuity -/

/-- `revert Panic(1)`: `PUSH32 4e487b71 00…00; PUSH1 0; MSTORE; PUSH1 1; PUSH1 4; MSTORE; PUSH1 36; PUSH1 0; REVERT` -/
def panicBody : List Nat :=
  [0x7f, 0x4e, 0x48, 0x7b, 0x71] ++ List.replicate 28 0 ++
  [0x60, 0, 0x52, 0x60, 1, 0x60, 4, 0x52, 0x60, 36, 0x60, 0, 0xfd]

/-- `if (x == 42) Panic(1)`: `PUSH1 4; CALLDATALOAD; PUSH1 42; EQ; PUSH1 10; JUMPI; STOP; JUMPDEST(10); …` -/
def failCode : List Nat := [0x60, 4, 0x35, 0x60, 42, 0x14, 0x60, 10, 0x57, 0x00, 0x5b] ++ panicBody

/-- `if (x & 1 == 2) Panic(1)` -/
def guardCode : List Nat := [0x60, 4, 0x35, 0x60, 1, 0x16, 0x60, 2, 0x14, 0x60, 13, 0x57, 0x00, 0x5b] ++ panicBody

def failRes : Result := run foldSimp exOracle {} exEnv failCode 100
def guardRes : Result := run foldSimp exOracle {} exEnv guardCode 100

def exStart (code : List Nat) : Interp → Start := fun _ => ⟨exP, exW, { exF0 with code := code }⟩

theorem exStart_R (code : List Nat) : R exI exEnv code exP initState { exF0 with code := code } :=
  ⟨rfl, rfl, StackRel.nil, exR.env.congr rfl rfl rfl rfl rfl, exR.subst, MemRel.nil _, MemRel.nil _⟩

def panic1 : List Nat := panicSelector ++ List.replicate 31 0 ++ [1]

theorem fail_exec : ∃ w', Evm.exec exP 30 exW { exF0 with code := failCode } = some (w', .revert panic1) := by
  have : (Evm.exec exP 30 exW { exF0 with code := failCode }).map (·.2) = some (.revert panic1) := by decide +kernel
  match h : Evm.exec exP 30 exW { exF0 with code := failCode }, this with
  | some (w', _), this => exact ⟨w', by simp only [Option.map_some, Option.some.injEq] at this; rw [← this]⟩

/-- honest queries: the query of a potential path asserts the path; the others are not queried -/
def qpPath (codes : List Nat) (e : EndState) (I : Interp) : Prop :=
  classify codes (endOutcome codes e) = .potential ∧ Sat I e.st.path

theorem failing_not_pass (qp : EndState → Interp → Prop) (q : EndState → QRes)
    (H3 : C03.QueryIsPath [1] (Adm {} exEnv failCode (exStart failCode)) (coreRun [1] qp q failRes))
    (H4 : C03.SolverSoundOnUnsat (coreRun [1] qp q failRes)) :
    Main.verdict [1] (coreRun [1] qp q failRes).paths ≠ .pass := by
  intro hpass
  obtain ⟨w', hex⟩ := fail_exec
  have hlit : ∀ e ∈ failRes.ends, endLit [1] e = true := by decide +kernel
  have hflag : (coreRun [1] qp q failRes).flagged = false := by
    show coreFlagged failRes = false
    decide +kernel
  refine pass_sound_core (s := foldSimp) (o := exOracle) {} exEnv failCode 100 (exStart failCode) [1] qp q foldSimp_sound
    oracleSound_unknown (by decide) hlit H3 H4 hpass hflag exI exI_std (exStart_R failCode) (C01.exZero _) C01.exMem
    30 w' _ hex ?_
  decide

theorem guard_unsat (I : Interp) :
    (B.cmp .eq (.bin .band (.lit 256 1) (.var "x" 256)) (.lit 256 2)).eval I = false := by
  simp only [B.eval, T.eval, BinOp.eval, CmpOp.eval]
  have h1 : (1 % 2 ^ 256) &&& (I.bv "x" 256 % 2 ^ 256) ≤ 1 % 2 ^ 256 := Nat.and_le_left
  have h2 : (1 : Nat) % 2 ^ 256 = 1 := by decide
  have h3 : (2 : Nat) % 2 ^ 256 = 2 := by decide
  rw [h2] at h1
  rw [h2, h3]
  simp only [beq_eq_false_iff_ne, ne_eq]
  omega


/-- a solver that finds the counterexample -/
def qFail (e : EndState) : QRes := if classify [1] (endOutcome [1] e) = .potential then .sat else .unsat

/-- on the failing program, honest queries and a right solver: H3 and H4 hold, the run is unflagged, its revert data
    literal, the input `x = 42` admissible — and the verdict is FAIL -/
example : C03.QueryIsPath [1] (Adm {} exEnv failCode (exStart failCode)) (coreRun [1] (qpPath [1]) qFail failRes) ∧
    C03.SolverSoundOnUnsat (coreRun [1] (qpPath [1]) qFail failRes) ∧
    (coreRun [1] (qpPath [1]) qFail failRes).flagged = false ∧ (∀ e ∈ failRes.ends, endLit [1] e = true) ∧
    Adm {} exEnv failCode (exStart failCode) exI ∧
    Main.verdict [1] (coreRun [1] (qpPath [1]) qFail failRes).paths = .fail := by
  refine ⟨?_, ?_, ?_, by decide +kernel, ?_, by decide +kernel⟩
  · rw [queryIsPath_core_iff]
    exact fun e _ hpot I _ hsat => ⟨hpot, hsat⟩
  · rw [solverSound_core_iff]
    intro e _ hq I hqp
    simp [qFail, hqp.1] at hq
  · show coreFlagged failRes = false
    decide +kernel
  · obtain ⟨w', hex⟩ := fail_exec
    exact ⟨exI_std, exStart_R failCode, C01.exZero _, C01.exMem, 30, _, hex⟩

/-- every potential end state of the guarded program carries the (unsatisfiable) guard as its path -/
theorem guard_paths : ∀ e ∈ guardRes.ends, classify [1] (endOutcome [1] e) = .potential →
    e.st.path = [.cmp .eq (.bin .band (.lit 256 1) (.var "x" 256)) (.lit 256 2)] := by
  decide +kernel

theorem guard_exec : ∃ w', Evm.exec exP 30 exW { exF0 with code := guardCode } = some (w', .success []) := by
  have : (Evm.exec exP 30 exW { exF0 with code := guardCode }).map (·.2) = some (.success []) := by decide +kernel
  match h : Evm.exec exP 30 exW { exF0 with code := guardCode }, this with
  | some (w', _), this => exact ⟨w', by simp only [Option.map_some, Option.some.injEq] at this; rw [← this]⟩

/-- on the guarded program (the model, with an oracle that cannot decide, does explore the Panic path) the solver's
    `unsat` for that path is *right* (`guard_unsat`): H3, H4 and the other hypotheses of `pass_sound_core` hold, the
    verdict is PASS, and the admissible input `x = 42` is among those the conclusion speaks about -/
example : C03.QueryIsPath [1] (Adm {} exEnv guardCode (exStart guardCode)) (coreRun [1] (qpPath [1]) (fun _ => .unsat) guardRes) ∧
    C03.SolverSoundOnUnsat (coreRun [1] (qpPath [1]) (fun _ => .unsat) guardRes) ∧
    (coreRun [1] (qpPath [1]) (fun _ => .unsat) guardRes).flagged = false ∧ (∀ e ∈ guardRes.ends, endLit [1] e = true) ∧
    Adm {} exEnv guardCode (exStart guardCode) exI ∧
    Main.verdict [1] (coreRun [1] (qpPath [1]) (fun _ => .unsat) guardRes).paths = .pass ∧
    (guardRes.ends.map (endOutcome [1])) = [.success, .panic 1] := by
  refine ⟨?_, ?_, ?_, by decide +kernel, ?_, by decide +kernel, by decide +kernel⟩
  · rw [queryIsPath_core_iff]
    exact fun e _ hpot I _ hsat => ⟨hpot, hsat⟩
  · rw [solverSound_core_iff]
    intro e he _ I hqp
    have hp := guard_paths e he hqp.1
    have := sat_singleton.1 (hp ▸ hqp.2)
    rw [guard_unsat I] at this
    cases this
  · show coreFlagged guardRes = false
    decide +kernel
  · obtain ⟨w', hex⟩ := guard_exec
    exact ⟨exI_std, exStart_R guardCode, C01.exZero _, C01.exMem, 30, _, hex⟩


/-! ### `hlit` cannot be dropped -/

/-- `if (x == 0) STOP else Panic(x)`: `PUSH1 4; CALLDATALOAD; ISZERO; PUSH1 54; JUMPI; PUSH32 4e487b71 00…00; PUSH1 0;
    MSTORE; PUSH1 4; CALLDATALOAD; PUSH1 4; MSTORE; PUSH1 36; PUSH1 0; REVERT; JUMPDEST(54); STOP` -/
def symCode : List Nat :=
  [0x60, 4, 0x35, 0x15, 0x60, 54, 0x57, 0x7f, 0x4e, 0x48, 0x7b, 0x71] ++ List.replicate 28 0 ++
  [0x60, 0, 0x52, 0x60, 4, 0x35, 0x60, 4, 0x52, 0x60, 36, 0x60, 0, 0xfd, 0x5b, 0x00]

def symRes : Result := run foldSimp exOracle {} exEnv symCode 100

theorem sym_exec : ∃ w', Evm.exec exP 30 exW { exF0 with code := symCode } =
    some (w', .revert (panicSelector ++ List.replicate 31 0 ++ [42])) := by
  have : (Evm.exec exP 30 exW { exF0 with code := symCode }).map (·.2) =
      some (.revert (panicSelector ++ List.replicate 31 0 ++ [42])) := by decide +kernel
  match h : Evm.exec exP 30 exW { exF0 with code := symCode }, this with
  | some (w', _), this => exact ⟨w', by simp only [Option.map_some, Option.some.injEq] at this; rw [← this]⟩

/-- **hlit_needed.** With the configured code set `{42}` the Panic of `symCode` carries a *symbolic* code: `is_panic_of`
    ignores it ("symbolic error code will be silently ignored"), no path is potential, the verdict is PASS with H3, H4,
    no flag — and the admissible input `x = 42` makes the reference EVM revert with `Panic(42)`. Only `hlit` fails. -/
theorem hlit_needed :
    C03.QueryIsPath [42] (Adm {} exEnv symCode (exStart symCode)) (coreRun [42] (qpPath [42]) (fun _ => .unsat) symRes) ∧
    C03.SolverSoundOnUnsat (coreRun [42] (qpPath [42]) (fun _ => .unsat) symRes) ∧
    (coreRun [42] (qpPath [42]) (fun _ => .unsat) symRes).flagged = false ∧
    Main.verdict [42] (coreRun [42] (qpPath [42]) (fun _ => .unsat) symRes).paths = .pass ∧
    Adm {} exEnv symCode (exStart symCode) exI ∧ C03.Fails [42] (conc (exStart symCode)) exI ∧
    symRes.ends.map (endLit [42]) = [false, true] := by
  obtain ⟨w', hex⟩ := sym_exec
  refine ⟨?_, ?_, ?_, by decide +kernel, ?_, ?_, by decide +kernel⟩
  · rw [queryIsPath_core_iff]
    exact fun e _ hpot I _ hsat => ⟨hpot, hsat⟩
  · rw [solverSound_core_iff]
    intro e he _ I hqp
    have : ∀ e ∈ symRes.ends, classify [42] (endOutcome [42] e) ≠ .potential := by decide +kernel
    exact this e he hqp.1
  · show coreFlagged symRes = false
    decide +kernel
  · exact ⟨exI_std, exStart_R symCode, C01.exZero _, C01.exMem, 30, _, hex⟩
  · unfold C03.Fails
    rw [conc_of_exec (c0 := exStart symCode) hex]
    decide

end HalmosVerif.Props.C03Core
