/-
Props.C03Setup — the end-to-end PASS theorem for a whole test run of the frame-stack machine: the setUp transaction
followed by the test transaction on the world setUp left ("setUp then check_*": what `halmos` runs for every test).

Two runs of Model.SevmCalls composed as `__main__.run_message` / `SEVM.run_message` compose them:

  run 1   `runC s o cfg env1 codes this fuel` — the setUp message from the start world;
  pick    one end `ce1` of run 1 (the `setup_ex` that `setup()` returns: `C03.setup_single_path`);
  run 2   `runCFrom s o cfg codes fuel (nextTx codes env2 this ce1)` — the test message from the state
          `SEVM.run_message` builds out of `ce1` (Model.SevmCalls `nextTx`: storage, code, balances, counters, hashed
          cells, path conditions and concretization inherited; transient storage fresh; stack, memory, loop counters empty).

The concrete side: `Evm.exec` of the setUp frame `f1` from the start world `w` ending in success with the world `w1`,
then `Evm.exec` of the test frame `f2` from `txWorld w1` (`w1` with empty transient storage: a new transaction). An
input whose concrete setUp does not succeed is not a test failure (the test is not run) — `conc2` is `.revert` there.

`pass_sound_test`: verdict PASS on run 2, no flag on either run, run 1 single-path for the valuation (`hsel`), H3, H4,
`hlit` ⇒ for every admissible valuation the concrete test transaction after the concrete setUp transaction does not
end in a configured Panic. H1 and H2′ of `C03.pass_sound` are discharged from `C02.complete_calls_gen` (run 1),
`C01.sound_calls_from` (run 1, for the relation at `ce1`), `Lemmas.relC_nextTx` (the hand-over), and
`C02.complete_calls_from` / `C01.sound_calls_from` (run 2).
-/
import HalmosVerif.Props.C03Calls
import HalmosVerif.Lemmas.SevmCallTx

namespace HalmosVerif.Props.C03Setup
open HalmosVerif.Model HalmosVerif.Model.Sevm HalmosVerif.Spec HalmosVerif.Lemmas.Sevm HalmosVerif.Lemmas.Word
open HalmosVerif.Lemmas.C03Core
open HalmosVerif.Model.Main (Outcome Class QRes PathRec Run classify isPanicOf)
open HalmosVerif.Props.C03Core (FaithfulClass pass_sound_class endFlag)
open HalmosVerif.Props.C03Calls (corePathC coreRunC coreFlaggedC coreFlaggedC_false)

/-! ### the concrete side -/

/-- where the reference EVM starts for one valuation: parameters, the world before setUp, the frame of the setUp
    message and the frame of the test message -/
structure Start2 where
  p : Evm.Params
  w : Evm.World
  f1 : Evm.Frame
  f2 : Evm.Frame

/-- the concrete setUp transaction succeeds and leaves the world `w1` -/
def SetupOk (c : Start2) (w1 : Evm.World) : Prop := ∃ n d, Evm.exec c.p n c.w c.f1 = some (w1, .success d)

/-- setUp succeeds and the test transaction on the world it left terminates -/
def Terminates2 (c : Start2) : Prop :=
  ∃ w1, SetupOk c w1 ∧ ∃ n r, Evm.exec c.p n (txWorld w1) c.f2 = some r

theorem setupOk_unique {c : Start2} {w1 w1' : Evm.World} (h : SetupOk c w1) (h' : SetupOk c w1') : w1 = w1' := by
  obtain ⟨n, d, hn⟩ := h
  obtain ⟨n', d', hn'⟩ := h'
  exact (Prod.mk.inj (exec_det hn hn')).1

open Classical in
/-- the outcome of the concrete test transaction after the concrete setUp transaction (`.revert` — not a failure — when
    setUp does not succeed or the gas-free reference does not terminate) -/
noncomputable def conc2 (c0 : Interp → Start2) (I : Interp) : Outcome :=
  if h : Terminates2 (c0 I) then
    ofHalt (Classical.choose (Classical.choose_spec (Classical.choose_spec h).2)).2
  else .revert

theorem conc2_of_exec {c0 : Interp → Start2} {I : Interp} {w1 : Evm.World} (h1 : SetupOk (c0 I) w1)
    {n : Nat} {w' : Evm.World} {h : Evm.Halt}
    (hex : Evm.exec (c0 I).p n (txWorld w1) (c0 I).f2 = some (w', h)) : conc2 c0 I = ofHalt h := by
  have ht : Terminates2 (c0 I) := ⟨w1, h1, n, _, hex⟩
  unfold conc2
  rw [dif_pos ht]
  have hs := Classical.choose_spec ht
  have hc := Classical.choose_spec (Classical.choose_spec hs.2)
  have hw : Classical.choose ht = w1 := setupOk_unique hs.1 h1
  have hex' : Evm.exec (c0 I).p n (txWorld (Classical.choose ht)) (c0 I).f2 = some (w', h) := by rw [hw]; exact hex
  rw [exec_det hc hex']

theorem conc2_of_not_terminates {c0 : Interp → Start2} {I : Interp} (h : ¬ Terminates2 (c0 I)) :
    conc2 c0 I = .revert := by
  unfold conc2; rw [dif_neg h]

/-! ### the instance -/

/-- an end without error: untagged, reporting success (`setup()` keeps those of setUp) -/
def okEnd (ce : CEnd) : Bool :=
  ce.e.tag == .normal && (match ce.e.out with | .halt (.success _) => true | _ => false)

/-- **admissible valuations** of a test run (setUp then test): the clauses of `C03Calls.AdmC` for the setUp run (frame
    `f1`, environment `env1`, visited states of run 1) and for the test run (frame `f2`, environment `env2`, the code of
    `this` as setUp left it, visited states of run 2 — from `nextTx … ce1`); the start world has empty transient
    storage; the world setUp leaves respects the balance bound when balances are followed; setUp succeeds concretely
    and the test transaction terminates. -/
def AdmT (s : Simp) (o : Oracle) (cfg : Cfg) (env1 env2 : Env) (codes : List (Nat × List Nat)) (this : Nat)
    (S : Nat → Prop) (ce1 : CEnd) (c0 : Interp → Start2) (I : Interp) : Prop :=
  I.Std ∧
  R I env1 ((codeOf codes this).getD []) (c0 I).p initState (c0 I).f1 ∧ (c0 I).f1.this = this ∧ (c0 I).f1.depth = 0 ∧
  R I env2 ((codeOf (ce1.created ++ codes) this).getD []) (c0 I).p initState (c0 I).f2 ∧ (c0 I).f2.this = this ∧
    (c0 I).f2.depth = 0 ∧
  (∀ a, S a → C01.ZeroStorage (c0 I).w a) ∧ (∀ a slot, Evm.lookupD (c0 I).w.transient (a, slot) = 0) ∧
  cfg.maxMem + 32 ≤ (c0 I).p.memLimit ∧ 1024 ≤ (c0 I).p.maxDepth ∧
  (∀ a, (c0 I).w.codeOf a = codeOf codes a) ∧
  CreateHyp cfg (c0 I).p S (c0 I).w ∧
  (cfg.balances = true → BalHyp I cfg (c0 I).w) ∧ (cfg.balances = true → BalBound (c0 I).w) ∧
  (cfg.balances = true → ∀ w1, SetupOk (c0 I) w1 → BalBound (txWorld w1)) ∧
  (cfg.sha3 = true → ShaInterp I (c0 I).p cfg) ∧
  (∀ cs, VisitedC s o cfg codes (initC env1 codes this) cs → ShaOK I s cfg cs) ∧
  (∀ cs, VisitedC s o cfg codes (nextTx codes env2 this ce1) cs → ShaOK I s cfg cs) ∧
  (cfg.hsto = true → HEmptyZero I) ∧
  (∀ cs, VisitedC s o cfg codes (initC env1 codes this) cs → Sat I cs.st.path → HstoOK I (c0 I).p s cfg cs) ∧
  (∀ cs, VisitedC s o cfg codes (nextTx codes env2 this ce1) cs → Sat I cs.st.path → HstoOK I (c0 I).p s cfg cs) ∧
  Terminates2 (c0 I)

section
variable {s : Simp} {o : Oracle} (cfg : Cfg) (env1 env2 : Env) (codes : List (Nat × List Nat)) (this : Nat) (fuel : Nat)
variable (S : Nat → Prop) (ce1 : CEnd) (c0 : Interp → Start2)
variable (pcodes : List Nat) (qp : CEnd → Interp → Prop) (q : CEnd → QRes)

/-- the test run: `SEVM.run_message` from the chosen setUp end -/
def testRun (s : Simp) (o : Oracle) (cfg : Cfg) (env2 : Env) (codes : List (Nat × List Nat)) (this : Nat) (fuel : Nat)
    (ce1 : CEnd) : ResultC :=
  runCFrom s o cfg codes fuel (nextTx codes env2 this ce1)

/-- **the hand-over.** For an admissible valuation: the concrete setUp run is the chosen end `ce1` (its path is
    satisfied), and the first state of the test run is related to the test frame in the world setUp left. -/
theorem adm_rel (hs : SimpSound s) (ho : OracleSound o) (hS0 : S this)
    (hSc : ∀ a prog, codeOf codes a = some prog → S a)
    (hcb : ∀ a prog, codeOf codes a = some prog → ∀ b ∈ prog, b < 256)
    (hs3 : cfg.hsto = true → cfg.sha3 = true)
    (hce1 : ce1 ∈ (runC s o cfg env1 codes this fuel).ends)
    (hflag1 : coreFlaggedC (runC s o cfg env1 codes this fuel) = false)
    (hsel : ∀ I, ∀ ce ∈ (runC s o cfg env1 codes this fuel).ends, okEnd ce = true → Sat I ce.e.st.path → ce = ce1)
    {I : Interp} (hadm : AdmT s o cfg env1 env2 codes this S ce1 c0 I) {w1 : Evm.World} (h1 : SetupOk (c0 I) w1) :
    Sat I ce1.e.st.path ∧
      RelC I (c0 I).p S (c0 I).w (nextTx codes env2 this ce1) (txWorld w1) (c0 I).f2 [] := by
  obtain ⟨hI, hR1, hthis1, hd1, hR2, hthis2, hd2, hz, ht0, hmem, hdep, hcodes, hch, hbal, hbound, _, hsha, hshaok1, _,
    hez, hhs1, _, _⟩ := hadm
  obtain ⟨n, d, hex1⟩ := h1
  obtain ⟨hb0, hd0, hf0, hends⟩ := coreFlaggedC_false hflag1
  rcases C02.complete_calls_gen hs ho cfg env1 codes this fuel (c0 I).p (c0 I).w S hS0 hSc hmem hdep hcodes hcb hz hch
      I hI hbal hbound hsha (fun hc => ⟨hs3 hc, hez hc⟩) hshaok1 hhs1 (c0 I).f1 hR1 hthis1 hd1 n w1 _ hex1 with
    ⟨ce, hm, hsat, hc⟩ | hb | hd | hf
  · obtain ⟨hns, htag⟩ := hends ce hm
    rcases hc with ⟨h0, hout, hw, _, _⟩ | ⟨r, hr⟩ | ht
    · have hok : okEnd ce = true := by
        unfold okEnd
        rw [htag, hout]
        cases h0 <;> simp_all [haltWith]
      have hce : ce = ce1 := hsel I ce hm hok hsat
      subst hce
      obtain ⟨n', w', hex', hW, hH, hE⟩ := C01.sound_calls_from hs o cfg codes fuel (c0 I).p (c0 I).w (c0 I).w S
        (initC env1 codes this) hSc hmem hdep hcodes hcb (fun _ => ho) hch (fun hc => ⟨ho, hs3 hc⟩) ce hm htag h0 hout I hI
        hbal hsha hhs1 (c0 I).f1 (relC_init hR1 hthis1 hd1 hcb hS0 hz) hsat
      have hww : w' = w1 := (Prod.mk.inj (exec_det hex' hex1)).1
      subst hww
      exact ⟨hsat, relC_nextTx hW hH hE hR2 hthis2 hd2 hS0 hcb ht0⟩
    · exact absurd hr (hns r)
    · exact absurd htag ht
  · exact absurd hb0 hb
  · rw [hd0] at hd; cases hd
  · rw [hf0] at hf; cases hf

/-- **covered_test (H1)** -/
theorem covered_test (hs : SimpSound s) (ho : OracleSound o) (hS0 : S this)
    (hSc : ∀ a prog, codeOf codes a = some prog → S a)
    (hcb : ∀ a prog, codeOf codes a = some prog → ∀ b ∈ prog, b < 256)
    (hs3 : cfg.hsto = true → cfg.sha3 = true)
    (hce1 : ce1 ∈ (runC s o cfg env1 codes this fuel).ends)
    (hflag1 : coreFlaggedC (runC s o cfg env1 codes this fuel) = false)
    (hsel : ∀ I, ∀ ce ∈ (runC s o cfg env1 codes this fuel).ends, okEnd ce = true → Sat I ce.e.st.path → ce = ce1) :
    C03.Covered (AdmT s o cfg env1 env2 codes this S ce1 c0)
      (coreRunC pcodes qp q (testRun s o cfg env2 codes this fuel ce1)) := by
  intro I hadm
  have hadm' := hadm
  obtain ⟨hI, _, _, _, _, _, _, _, _, hmem, hdep, hcodes, hch, hbal, _, hbound2, hsha, _, hshaok2, hez, _, hhs2,
    w1, h1, n, ⟨w', h⟩, hex⟩ := hadm
  obtain ⟨hsat1, hrel⟩ := adm_rel cfg env1 env2 codes this fuel S ce1 c0 hs ho hS0 hSc hcb hs3 hce1 hflag1 hsel hadm' h1
  rcases C02.complete_calls_from hs ho cfg codes fuel (c0 I).p (c0 I).w (txWorld w1) S (nextTx codes env2 this ce1) hSc
      hmem hdep hcodes hcb hch I hI hbal (fun hc => hbound2 hc w1 h1) hsha (fun hc => ⟨hs3 hc, hez hc⟩) hshaok2 hhs2
      (c0 I).f2 hrel hsat1 n w' h hex with
    ⟨ce, hm, hsat, _⟩ | hb | hd | hf
  · exact Or.inl ⟨corePathC pcodes qp q ce, List.mem_map_of_mem hm, hsat⟩
  · right
    have : (testRun s o cfg env2 codes this fuel ce1).boundedLoops.isEmpty = false := by
      cases hbl : (testRun s o cfg env2 codes this fuel ce1).boundedLoops with
      | nil => exact absurd hbl hb
      | cons _ _ => rfl
    simp [coreRunC, coreFlaggedC, this]
  · right
    have : (testRun s o cfg env2 codes this fuel ce1).depthCut = true := hd
    simp [coreRunC, coreFlaggedC, this]
  · right
    have : (testRun s o cfg env2 codes this fuel ce1).outOfFuel = true := hf
    simp [coreRunC, coreFlaggedC, this]

/-- **faithful_test (H2′)** -/
theorem faithful_test (hs : SimpSound s) (ho : OracleSound o) (hS0 : S this)
    (hSc : ∀ a prog, codeOf codes a = some prog → S a)
    (hcb : ∀ a prog, codeOf codes a = some prog → ∀ b ∈ prog, b < 256)
    (hs3 : cfg.hsto = true → cfg.sha3 = true)
    (hce1 : ce1 ∈ (runC s o cfg env1 codes this fuel).ends)
    (hflag1 : coreFlaggedC (runC s o cfg env1 codes this fuel) = false)
    (hsel : ∀ I, ∀ ce ∈ (runC s o cfg env1 codes this fuel).ends, okEnd ce = true → Sat I ce.e.st.path → ce = ce1)
    (hlit : ∀ ce ∈ (testRun s o cfg env2 codes this fuel ce1).ends, endLit pcodes ce.e = true) :
    FaithfulClass pcodes (AdmT s o cfg env1 env2 codes this S ce1 c0) (conc2 c0)
      (coreRunC pcodes qp q (testRun s o cfg env2 codes this fuel ce1)) := by
  intro hflag p hp I hadm hsat
  have hadm' := hadm
  obtain ⟨hI, _, _, _, _, _, _, _, _, hmem, hdep, hcodes, hch, hbal, _, _, hsha, _, _, _, _, hhs2, w1, h1, _⟩ := hadm
  obtain ⟨_, hrel⟩ := adm_rel cfg env1 env2 codes this fuel S ce1 c0 hs ho hS0 hSc hcb hs3 hce1 hflag1 hsel hadm' h1
  obtain ⟨ce, he, rfl⟩ := List.mem_map.1 hp
  obtain ⟨_, _, _, hends⟩ := coreFlaggedC_false hflag
  obtain ⟨hns, htag⟩ := hends ce he
  cases hout : ce.e.out with
  | stuck r => exact absurd hout (hns r)
  | halt h0 =>
    obtain ⟨n, w', hex, _⟩ := C01.sound_calls_from hs o cfg codes fuel (c0 I).p (c0 I).w (txWorld w1) S
      (nextTx codes env2 this ce1) hSc hmem hdep hcodes hcb (fun _ => ho) hch (fun hc => ⟨ho, hs3 hc⟩) ce he htag h0 hout I
      hI hbal hsha hhs2 (c0 I).f2 hrel hsat
    rw [conc2_of_exec h1 hex]
    exact (endOutcome_class hout (hlit ce he) I).symm

/-- **pass_sound_test, in the vocabulary of C03** -/
theorem pass_sound_test_fails (hs : SimpSound s) (ho : OracleSound o) (hS0 : S this)
    (hSc : ∀ a prog, codeOf codes a = some prog → S a)
    (hcb : ∀ a prog, codeOf codes a = some prog → ∀ b ∈ prog, b < 256)
    (hs3 : cfg.hsto = true → cfg.sha3 = true)
    (hce1 : ce1 ∈ (runC s o cfg env1 codes this fuel).ends)
    (hflag1 : coreFlaggedC (runC s o cfg env1 codes this fuel) = false)
    (hsel : ∀ I, ∀ ce ∈ (runC s o cfg env1 codes this fuel).ends, okEnd ce = true → Sat I ce.e.st.path → ce = ce1)
    (hlit : ∀ ce ∈ (testRun s o cfg env2 codes this fuel ce1).ends, endLit pcodes ce.e = true)
    (H3 : C03.QueryIsPath pcodes (AdmT s o cfg env1 env2 codes this S ce1 c0)
      (coreRunC pcodes qp q (testRun s o cfg env2 codes this fuel ce1)))
    (H4 : C03.SolverSoundOnUnsat (coreRunC pcodes qp q (testRun s o cfg env2 codes this fuel ce1)))
    (hpass : Main.verdict pcodes (coreRunC pcodes qp q (testRun s o cfg env2 codes this fuel ce1)).paths = .pass)
    (hflag : (coreRunC pcodes qp q (testRun s o cfg env2 codes this fuel ce1)).flagged = false) :
    ∀ I, AdmT s o cfg env1 env2 codes this S ce1 c0 I → ¬ C03.Fails pcodes (conc2 c0) I :=
  pass_sound_class pcodes _ _ _
    (covered_test cfg env1 env2 codes this fuel S ce1 c0 pcodes qp q hs ho hS0 hSc hcb hs3 hce1 hflag1 hsel)
    (faithful_test cfg env1 env2 codes this fuel S ce1 c0 pcodes qp q hs ho hS0 hSc hcb hs3 hce1 hflag1 hsel hlit)
    H3 H4 hpass hflag

/-- **pass_sound_test.** setUp explored without a flag and single-path for the valuation (`hsel`: the end `ce1` that
    `setup()` returned is the only successful end whose path the valuation satisfies — `setup_single_path`: the only
    successful one at all, `hsel_of_single`, or the only one the solver did not refute), the test run from it
    reported PASS without a flag ⇒ for every admissible valuation `I`: whenever the concrete setUp transaction
    succeeds leaving `w1` and the concrete test transaction from `txWorld w1` terminates — with any fuel —, it does not
    end in a Panic with a configured code. Assumed besides `AdmT`: `SimpSound`, `OracleSound`, H3, H4, `hlit`. -/
theorem pass_sound_test (hs : SimpSound s) (ho : OracleSound o) (hS0 : S this)
    (hSc : ∀ a prog, codeOf codes a = some prog → S a)
    (hcb : ∀ a prog, codeOf codes a = some prog → ∀ b ∈ prog, b < 256)
    (hs3 : cfg.hsto = true → cfg.sha3 = true)
    (hce1 : ce1 ∈ (runC s o cfg env1 codes this fuel).ends)
    (hflag1 : coreFlaggedC (runC s o cfg env1 codes this fuel) = false)
    (hsel : ∀ I, ∀ ce ∈ (runC s o cfg env1 codes this fuel).ends, okEnd ce = true → Sat I ce.e.st.path → ce = ce1)
    (hlit : ∀ ce ∈ (testRun s o cfg env2 codes this fuel ce1).ends, endLit pcodes ce.e = true)
    (H3 : C03.QueryIsPath pcodes (AdmT s o cfg env1 env2 codes this S ce1 c0)
      (coreRunC pcodes qp q (testRun s o cfg env2 codes this fuel ce1)))
    (H4 : C03.SolverSoundOnUnsat (coreRunC pcodes qp q (testRun s o cfg env2 codes this fuel ce1)))
    (hpass : Main.verdict pcodes (coreRunC pcodes qp q (testRun s o cfg env2 codes this fuel ce1)).paths = .pass)
    (hflag : (coreRunC pcodes qp q (testRun s o cfg env2 codes this fuel ce1)).flagged = false)
    (I : Interp) (w1 : Evm.World) (h1 : SetupOk (c0 I) w1) (n : Nat) (w' : Evm.World) (h : Evm.Halt)
    (hex : Evm.exec (c0 I).p n (txWorld w1) (c0 I).f2 = some (w', h))
    (hadm : Terminates2 (c0 I) → AdmT s o cfg env1 env2 codes this S ce1 c0 I) :
    classify pcodes (ofHalt h) ≠ .potential := by
  have := pass_sound_test_fails cfg env1 env2 codes this fuel S ce1 c0 pcodes qp q hs ho hS0 hSc hcb hs3 hce1 hflag1 hsel
    hlit H3 H4 hpass hflag I (hadm ⟨w1, h1, n, _, hex⟩)
  unfold C03.Fails at this
  rwa [conc2_of_exec h1 hex] at this

/-- `hsel` when exactly one setUp end is without error (the first case of `C03.setup_single_path`) -/
theorem hsel_of_single (res1 : ResultC) (h : res1.ends.filter okEnd = [ce1]) :
    ∀ I : Interp, ∀ ce ∈ res1.ends, okEnd ce = true → Sat I ce.e.st.path → ce = ce1 := by
  intro _ ce hm hok _
  have : ce ∈ res1.ends.filter okEnd := List.mem_filter.2 ⟨hm, hok⟩
  rw [h] at this
  exact List.mem_singleton.1 this

end

/-! ### non-vacuity -/

open HalmosVerif.Props.C01 (exEnv exI exI_std exF0 exOracle)

/-- the test contract at 0x1000, one code for both messages: `if (sload(0) == 0) { sstore(0, 1); stop }` — the setUp
    transaction: it runs in zero storage — `else if (x == 42) { call(0x2000 …); revert(0, 36) }` — the test, which sees
    the slot setUp wrote and hands on the revert data of the callee (which Panics): `PUSH1 0; SLOAD; PUSH1 12; JUMPI;
    PUSH1 1; PUSH1 0; SSTORE; STOP; JUMPDEST(12); PUSH1 4; CALLDATALOAD; PUSH1 42; EQ; PUSH1 23; JUMPI; STOP;
    JUMPDEST(23); PUSH1 36; PUSH1 0; PUSH1 0; PUSH1 0; PUSH1 0; PUSH2 0x2000; PUSH1 0; CALL; POP; PUSH1 36; PUSH1 0;
    REVERT` -/
def testCode : List Nat :=
  [0x60, 0, 0x54, 0x60, 12, 0x57, 0x60, 1, 0x60, 0, 0x55, 0x00, 0x5b,
   0x60, 4, 0x35, 0x60, 42, 0x14, 0x60, 23, 0x57, 0x00, 0x5b,
   0x60, 36, 0x60, 0, 0x60, 0, 0x60, 0, 0x60, 0, 0x61, 0x20, 0x00, 0x60, 0, 0xf1, 0x50, 0x60, 36, 0x60, 0, 0xfd]

def testCodes : List (Nat × List Nat) := [(0x1000, testCode), (0x2000, C03Core.panicBody)]
def testW : Evm.World := { code := testCodes, storage := [], transient := [], balance := [] }
def testStart : Interp → Start2 :=
  fun _ => ⟨C01.exPC, testW, { exF0 with code := testCode }, { exF0 with code := testCode }⟩
def setupRes : ResultC := runC foldSimp exOracle {} exEnv testCodes 0x1000 100
def dummyEnd : CEnd := { e := { st := { pc := 0, stack := [], path := [] }, out := .stuck .notConcrete }, this := 0, stores := [] }
/-- the end `setup()` returns: the only one without error -/
def setupEnd : CEnd := (setupRes.ends.filter okEnd).getD 0 dummyEnd
def testRes : ResultC := testRun foldSimp exOracle {} exEnv testCodes 0x1000 100 setupEnd

theorem setup_single : setupRes.ends.filter okEnd = [setupEnd] := by
  have h : (setupRes.ends.filter okEnd).length = 1 := by decide +kernel
  unfold setupEnd
  match hl : setupRes.ends.filter okEnd, h with
  | [c], _ => rfl

theorem setupEnd_mem : setupEnd ∈ setupRes.ends := by
  have : setupEnd ∈ setupRes.ends.filter okEnd := by rw [setup_single]; exact List.mem_singleton.2 rfl
  exact (List.mem_filter.1 this).1

/-- the world the concrete setUp transaction leaves -/
def testW1 : Evm.World := ((Evm.exec C01.exPC 30 testW { exF0 with code := testCode }).map (·.1)).getD testW

theorem setup_exec : SetupOk (testStart exI) testW1 := by
  have : (Evm.exec C01.exPC 30 testW { exF0 with code := testCode }).map (·.2) = some (.success []) := by
    decide +kernel
  refine ⟨30, [], ?_⟩
  show Evm.exec C01.exPC 30 testW { exF0 with code := testCode } = some (testW1, .success [])
  unfold testW1
  match h : Evm.exec C01.exPC 30 testW { exF0 with code := testCode }, this with
  | some (w', _), this =>
    simp only [Option.map_some, Option.some.injEq] at this
    simp only [Option.map_some, Option.getD_some, ← this]

/-- the reference EVM, on `x = 42`, after setUp: the test transaction reverts with `Panic(1)` through the nested call -/
theorem test_exec : ∃ w', Evm.exec C01.exPC 60 (txWorld testW1) { exF0 with code := testCode } =
    some (w', .revert C03Core.panic1) := by
  have : (Evm.exec C01.exPC 60 (txWorld testW1) { exF0 with code := testCode }).map (·.2) =
      some (.revert C03Core.panic1) := by decide +kernel
  match h : Evm.exec C01.exPC 60 (txWorld testW1) { exF0 with code := testCode }, this with
  | some (w', _), this => exact ⟨w', by simp only [Option.map_some, Option.some.injEq] at this; rw [← this]⟩

theorem testCodes_bytes : ∀ a prog, codeOf testCodes a = some prog → ∀ b ∈ prog, b < 256 := by
  intro a prog hc b hb
  have hall : ∀ q ∈ testCodes, ∀ b ∈ q.2, b < 256 := by decide
  unfold codeOf at hc
  cases hf : testCodes.find? (fun q => q.1 == a) with
  | none => rw [hf] at hc; cases hc
  | some q =>
    rw [hf] at hc
    simp only [Option.map_some, Option.some.injEq] at hc
    subst hc
    exact hall q (List.mem_of_find?_eq_some hf) b hb

/-- the valuation `x = 42` is admissible for the test run (every layer of `Cfg` off) -/
theorem test_adm : AdmT foldSimp exOracle {} exEnv exEnv testCodes 0x1000 (Modelled testCodes 0x1000) setupEnd testStart exI := by
  obtain ⟨w', hex⟩ := test_exec
  have hcr : setupEnd.created = [] := by decide +kernel
  have hR : R exI exEnv ((codeOf testCodes 0x1000).getD []) C01.exPC initState { exF0 with code := testCode } :=
    ⟨rfl, rfl, StackRel.nil, ⟨C01.exR.env.caller, C01.exR.env.origin, C01.exR.env.callvalue, C01.exR.env.address,
      C01.exR.env.cd, C01.exR.env.cdByte, C01.exR.env.cdSize, C01.exR.env.isStatic⟩, C01.exR.subst, MemRel.nil _,
      MemRel.nil _⟩
  refine ⟨exI_std, hR, rfl, rfl, by rw [hcr]; exact hR, rfl, rfl, ?_, ?_, ?_, ?_, ?_, ?_, ?_, ?_, ?_, ?_, ?_, ?_, ?_, ?_, ?_,
    testW1, setup_exec, 60, _, hex⟩
  · exact fun _ _ _ => ⟨rfl, rfl⟩
  · exact fun _ _ => rfl
  · decide
  · decide
  · exact fun _ => rfl
  · exact CreateHyp.off rfl
  · intro h; cases h
  · intro h; cases h
  · intro h; cases h
  · intro h; cases h
  · exact fun _ _ => shaOK_off rfl
  · exact fun _ _ => shaOK_off rfl
  · intro h; cases h
  · exact fun _ _ _ => hstoOK_off rfl
  · exact fun _ _ _ => hstoOK_off rfl

/-- **a test failing after setUp is not PASS.** Whatever the queries and their answers, as long as H3 and H4 hold, the
    test run started from setUp's end is not reported PASS: `pass_sound_test` at the admissible input `x = 42`, on which
    the reference EVM — setUp transaction, then the test transaction on the world it left — reverts with `Panic(1)` -/
theorem failing_test_not_pass (qp : CEnd → Interp → Prop) (q : CEnd → QRes)
    (H3 : C03.QueryIsPath [1] (AdmT foldSimp exOracle {} exEnv exEnv testCodes 0x1000 (Modelled testCodes 0x1000) setupEnd
      testStart) (coreRunC [1] qp q testRes))
    (H4 : C03.SolverSoundOnUnsat (coreRunC [1] qp q testRes)) :
    Main.verdict [1] (coreRunC [1] qp q testRes).paths ≠ .pass := by
  intro hpass
  obtain ⟨w', hex⟩ := test_exec
  have hlit : ∀ ce ∈ testRes.ends, endLit [1] ce.e = true := by decide +kernel
  have hflag : (coreRunC [1] qp q testRes).flagged = false := by
    show coreFlaggedC testRes = false
    decide +kernel
  have hflag1 : coreFlaggedC setupRes = false := by decide +kernel
  refine pass_sound_test (s := foldSimp) (o := exOracle) {} exEnv exEnv testCodes 0x1000 100 (Modelled testCodes 0x1000)
    setupEnd testStart [1] qp q foldSimp_sound oracleSound_unknown (Or.inl rfl) (fun _ _ h => modelled_of_code h)
    testCodes_bytes (fun h => by cases h) setupEnd_mem hflag1 (hsel_of_single setupEnd setupRes setup_single) hlit H3 H4
    hpass hflag exI testW1 setup_exec 60 w' _ hex (fun _ => test_adm) ?_
  decide

/-- the two runs: setUp has the single end (success, slot 0 written); the test run from it sees the slot (it takes the
    test branch) and has the fall-through success and the handed-on `Panic(1)` -/
example : setupRes.ends.map (fun ce => (endOutcome [1] ce.e, ce.e.st.pc)) = [(.success, 11)] ∧
    testRes.ends.map (fun ce => endOutcome [1] ce.e) = [.success, .panic 1] := by
  decide +kernel

end HalmosVerif.Props.C03Setup
