/-
Props.C04 — "Counterexamples marked valid are reproducible": the parsing / labelling half.
(The replay half — a valid model drives the concrete execution to the reported failure — is stated on top of the shared
EVM interpreter elsewhere.)

Statements are about Model.ModelParse, tied to solve.parse_const_value / parse_model_str / is_model_valid /
SolverOutput.from_result by tools/props/c04.py (real yices-smt2 and z3 outputs and synthetic strings through both).
-/
import HalmosVerif.Lemmas.ModelParse

namespace HalmosVerif.Props.C04
open HalmosVerif.Model.ReBT HalmosVerif.Model.Rx HalmosVerif.Model.ModelParse HalmosVerif.Gen.SolveTables
open HalmosVerif.Lemmas.ModelParse

/-! ### constants -/

/-- For every width and every value, each of the three syntaxes solvers use for bit-vector constants
    (`#b…` padded to the width, `#x…` padded to width/4, `(_ bvN W)`) parses back to the value. -/
theorem const_roundtrip (w v : Nat) :
    parseConstValue (printBin w v) = .ok v ∧
    parseConstValue (printHex w v) = .ok v ∧
    parseConstValue (printDec w v) = .ok v := by
  refine ⟨?_, ?_, ?_⟩
  · simp only [printBin, parseConstValue]
    exact pyInt_padded 2 (by decide) (by decide) w v
  · simp only [printHex, parseConstValue]
    exact pyInt_padded 16 (by decide) (by decide) (w / 4) v
  · have hsplit : splitWs (printDec w v) =
        ['(', '_'] :: (['b', 'v'] ++ Nat.toDigits 10 v) :: splitWsGo [] (Nat.toDigits 10 w ++ [')']) := by
      simp only [splitWs, printDec, List.cons_append, List.nil_append, splitWsGo, List.append_assoc]
      have h1 : isWs '(' = false := by decide
      have h2 : isWs '_' = false := by decide
      have h3 : isWs ' ' = true := by decide
      have h4 : isWs 'b' = false := by decide
      have h5 : isWs 'v' = false := by decide
      simp only [h1, h2, h3, h4, h5, Bool.false_eq_true, if_false, if_true, List.isEmpty_cons, List.isEmpty_nil,
        List.nil_append, List.cons_append]
      rw [splitWsGo_nonws (Nat.toDigits 10 v) _ _ (digits10_nonws v)]
      simp only [splitWsGo, h3, if_true, List.cons_append, List.nil_append, List.isEmpty_cons, Bool.false_eq_true, if_false]
    unfold parseConstValue
    simp only [printDec, List.cons_append, List.nil_append]
    have : (splitWs (printDec w v)).find? (fun t => (stripPrefix ['b', 'v'] t).isSome)
        = some (['b', 'v'] ++ Nat.toDigits 10 v) := by
      rw [hsplit]
      simp [List.find?, stripPrefix]
    simp only [printDec, List.cons_append, List.nil_append] at this
    rw [this]
    simp only [List.cons_append, List.nil_append, List.drop_succ_cons, List.drop_zero]
    exact pyInt_digits 10 (by decide) (by decide) v

/-- non-vacuity / concreteness: the 256-bit constants of tests/test_solve.py -/
example : String.ofList (printBin 8 5) = "#b00000101" ∧ String.ofList (printHex 16 255) = "#x00ff" ∧
    String.ofList (printDec 256 42) = "(_ bv42 256)" := by decide +kernel

/-- malformed constants are rejected (Python raises ValueError), never read as some number -/
example : parseConstValue "#b".toList = .error .value ∧ parseConstValue "#b012".toList = .error .value ∧
    parseConstValue "#xg".toList = .error .value ∧ parseConstValue "(_ cv1 8)".toList = .error .value ∧
    parseConstValue "(_ bv 8)".toList = .error .value := by decide +kernel

/-! ### a printed model line is the model -/

/-- `_parse_halmos_var_match` on the groups of a line `(define-fun NAME () (_ BitVec W) CONST)`: for every name with
    at least three `_`-separated parts and no surrounding blanks, every width and value and each constant syntax,
    the variable read is exactly (NAME, W, value) — the values halmos prints are the solver's. -/
theorem printed_is_model (name p0 vn st : List Char) (rest : List (List Char)) (w v : Nat)
    (hstrip : strip name = name) (hparts : splitOn '_' name = p0 :: vn :: st :: rest)
    (c : List Char) (hc : c = printBin w v ∨ c = printHex w v ∨ c = printDec w v) :
    mkVar name "BitVec".toList (Nat.toDigits 10 w) c =
      .ok { fullName := name, variableName := vn, solidityType := st,
            smtType := "BitVec".toList ++ [' '] ++ Nat.toDigits 10 w, sizeBits := w, value := v } := by
  have hv : parseConstValue c = .ok v := by
    rcases hc with rfl | rfl | rfl
    · exact (const_roundtrip w v).1
    · exact (const_roundtrip w v).2.1
    · exact (const_roundtrip w v).2.2
  unfold mkVar
  rw [hstrip, pyInt_digits 10 (by decide) (by decide) w, hv]
  simp only [bind, Except.bind, hparts]
  rfl

/-- whole solver outputs (z3 layout, yices layout, with an abstraction left in the model) through the regex -/
example :
    parseModelStr "sat\n(\n  (define-fun p_x_uint256_00 () (_ BitVec 256)\n    #x00ff)\n  (define-fun |halmos_y_bool_1_02| () (_ BitVec 8) (_ bv7 8))\n)".toList
      = .ok [ { fullName := "p_x_uint256_00".toList, variableName := ['x'], solidityType := "uint256".toList,
                smtType := "BitVec 256".toList, sizeBits := 256, value := 255 },
              { fullName := "halmos_y_bool_1_02".toList, variableName := ['y'], solidityType := "bool".toList,
                smtType := "BitVec 8".toList, sizeBits := 8, value := 7 } ] := by
  decide +kernel

example :
    parseModelStr "(define-fun\n    halmos_z_uint256_cabf047_02\n    ()\n    (_ BitVec 8)\n    #b10000001)".toList
      = .ok [ { fullName := "halmos_z_uint256_cabf047_02".toList, variableName := ['z'], solidityType := "uint256".toList,
                smtType := "BitVec 8".toList, sizeBits := 8, value := 129 } ] := by
  decide +kernel

/-- the hand transcription `halmosVarRe` is of this regex; a change in solve.py changes Gen.SolveTables and breaks this -/
theorem var_pattern_pinned : halmosVarPattern =
    "\\(\\s*define-fun\\s+\\|?((?:halmos_|p_)[^ |]+)\\|?\\s+\\(\\)\\s+\\(_\\s+([^ ]+)\\s+(\\d+)\\)\\s+(\\#b[01]+|\\#x[0-9a-fA-F]+|\\(_\\s+bv\\d+\\s+\\d+\\))" := by
  decide +kernel

/-! ### labelling -/

theorem needle_is : validNeedle.toList = ['f', '_', 'e', 'v', 'm', '_'] := by decide +kernel

/-- A solver answer that mentions an arithmetic abstraction anywhere is never labelled valid. -/
theorem abstract_never_valid (stdout a b : List Char) (h : stdout = a ++ ['f', '_', 'e', 'v', 'm', '_'] ++ b) :
    labelledValid (fromResult stdout) = false := by
  have hi : isInfix validNeedle.toList stdout = true := by
    rw [needle_is]; exact (isInfix_iff _ _).2 ⟨a, b, h⟩
  by_cases hk : resultKind stdout = "sat" <;> simp [fromResult, labelledValid, isModelValid, hi, hk]

theorem resultKind_sat (s : List Char) (h : resultKind s = "sat") : firstLine s = ['s', 'a', 't'] := by
  unfold resultKind at h
  have ht : firstLineTable = [("unsat", "unsat"), ("sat", "sat"), ("unknown", "unknown")] := by decide +kernel
  have hd : firstLineDefault = "err" := by decide +kernel
  rw [ht, hd] at h
  by_cases h1 : (['u', 'n', 's', 'a', 't'] == firstLine s) = true
  · simp [List.find?, h1] at h
  · by_cases h2 : (['s', 'a', 't'] == firstLine s) = true
    · exact (beq_iff_eq.1 h2).symm
    · by_cases h4 : (['u', 'n', 'k', 'n', 'o', 'w', 'n'] == firstLine s) = true
      · simp [List.find?, h1, h2, h4] at h
      · simp [List.find?, h1, h2, h4] at h

/-- A model is labelled valid only if the answer's first line is exactly `sat` and no `f_evm_` occurs in it. -/
theorem valid_means_no_abstraction (stdout : List Char) (h : labelledValid (fromResult stdout) = true) :
    firstLine stdout = ['s', 'a', 't'] ∧ ¬ ∃ a b, stdout = a ++ ['f', '_', 'e', 'v', 'm', '_'] ++ b := by
  by_cases hk : resultKind stdout = "sat"
  · simp only [fromResult, labelledValid, hk, if_true, isModelValid, Bool.and_eq_true, decide_eq_true_eq,
      Option.some.injEq, Bool.not_eq_true'] at h
    refine ⟨resultKind_sat stdout hk, ?_⟩
    · intro hex
      have := (isInfix_iff _ _).2 hex
      rw [← needle_is, h.2] at this
      exact Bool.noConfusion this
  · simp [fromResult, labelledValid, hk] at h

/-- non-vacuity: a clean `sat` answer is labelled valid; the same answer with an abstraction in the model is not;
    `unsat`, `unknown`, garbage and `sat\r` are not models at all -/
example :
    labelledValid (fromResult "sat\n((define-fun p_x_uint256_00 () (_ BitVec 8) #x01))".toList) = true ∧
    labelledValid (fromResult "sat\n((define-fun p_x_uint256_00 () (_ BitVec 8) #x01)\n(define-fun f_evm_exp_256 ((a (_ BitVec 256))) (_ BitVec 256) #x00))".toList) = false ∧
    (fromResult "unsat\n".toList).kind = "unsat" ∧ (fromResult "unknown".toList).kind = "unknown" ∧
    (fromResult "sat\r\n".toList).kind = "err" ∧ (fromResult "(error \"x\")\nsat".toList).kind = "err" ∧
    (fromResult "".toList).kind = "err" := by
  decide +kernel

end HalmosVerif.Props.C04
