/-
Props.C05 — verdict aggregation is fail-safe and independent of solver timing.

Model: `Model.Verdict` (interleaving semantics of `run_test` over an arbitrary list of paths and an arbitrary schedule,
`from_result`, `solve_end_to_end`, the verdict if-chain and `_main`'s exit code, with the tables regenerated from the
source in `Gen.Verdict`).  Spec: `Spec.Verdict` (the property's own words).  Run-level invariants: `Lemmas.VerdictRun`.

Findings proved here as `_cex` theorems (each witness is replayed on the real code by tools/props/c05.py):
* `perm_invariant_early_exit_cex` — under `--early-exit` the verdict DOES depend on timing: a counterexample that arrives
  while the main thread is inside the (unguarded) solver call confirming a stuck path makes an exception escape
  `run_test`: ERROR instead of FAIL.
* `precedence_timeout_over_stuck_cex`, `precedence_exception_over_counterexample_cex` — two places where the if-chain /
  the unguarded stuck confirmation do not follow "FAIL, ERROR, TIMEOUT in that precedence".
* `cache_inconsistent_cex` — with `--cache-solver` and a solver that returns an unsound unsat core the verdict depends on
  the completion order (not a halmos defect: it is why `CoresConsistent` is a hypothesis).
-/
import HalmosVerif.Lemmas.VerdictSpec

namespace HalmosVerif.Props.C05

open HalmosVerif HalmosVerif.Model.Verdict

/-! ## `from_result`, timeouts, failures -/

/-- garbage is `err`: whatever the return code, an output whose first line is none of sat / unsat / unknown (in
particular empty output, or a non-zero exit with no answer) is a failed call — never unsat, never sat. -/
theorem garbage_is_err (cacheSolver : Bool) (out : List Char) (rc : Int) (core : List Nat)
    (h1 : firstLine out ≠ "sat".toList) (h2 : firstLine out ≠ "unsat".toList) (h3 : firstLine out ≠ "unknown".toList) :
    fromResult cacheSolver out rc core = .err := by
  rw [fromResult_eq, if_neg h2, if_neg h1, if_neg h3]

example : fromResult true "Segmentation fault\nunsat\n".toList 139 [1, 2] = .err ∧ fromResult false [] 1 [] = .err
    ∧ fromResult true " unsat\n".toList 0 [3] = .err ∧ fromResult false "sat\r\n".toList 0 [] = .err := by decide

/-- empty output is `err` -/
theorem empty_output_is_err (cacheSolver : Bool) (rc : Int) (core : List Nat) : fromResult cacheSolver [] rc core = .err := by
  apply garbage_is_err <;> decide

/-- the answer is `unsat` exactly when the first line is `unsat` — nothing else is ever read as unsat -/
theorem unsat_only_from_unsat_line (cacheSolver : Bool) (out : List Char) (rc : Int) (core : List Nat) :
    (fromResult cacheSolver out rc core).kind = .unsat ↔ firstLine out = "unsat".toList :=
  fromResult_kind_unsat_iff cacheSolver out rc core

/-- the return code takes no part in the classification (z3 exits 1 after `(get-unsat-core)` on a sat query) -/
theorem returncode_ignored (cacheSolver : Bool) (out : List Char) (rc rc' : Int) (core : List Nat) :
    fromResult cacheSolver out rc core = fromResult cacheSolver out rc' core := rfl

example : fromResult false "sat\n(model)\n".toList 1 [] = .sat true := by decide

/-- a timeout is never unsat: `solve_low_level` maps it to unknown; so does `solve_end_to_end` (also when it is the refined
query that times out); `_get_solver_output` keeps it; a stuck path whose confirmation timed out stays stuck. -/
theorem timeout_never_unsat (cacheSolver : Bool) :
    solveLowLevel cacheSolver .timedOut = some .unknown ∧
    (∀ q : Query, q.first = .timedOut → solveEndToEnd cacheSolver false q = some .unknown ∧
        getSolverOutput cacheSolver false false q = .unknown) ∧
    (∀ q : Query, solveLowLevel cacheSolver q.first = some (.sat false) → q.refinable = true → q.second = .timedOut →
        solveEndToEnd cacheSolver false q = some .unknown) ∧
    (∀ p : Path, p.q.first = .timedOut → confirmsStuck cacheSolver p = true) := by
  have h0 : solveLowLevel cacheSolver .timedOut = some .unknown := by simp [solveLowLevel, timeoutRes_eq]
  refine ⟨h0, ?_, ?_, ?_⟩
  · intro q hq
    have : solveEndToEnd cacheSolver false q = some .unknown := by simp [solveEndToEnd, hq, h0]
    exact ⟨this, by simp [getSolverOutput, this]⟩
  · intro q h1 h2 h3
    simp [solveEndToEnd, h1, h2, h3, h0]
  · intro p hp
    simp [confirmsStuck, hp, h0]

example : solveEndToEnd false false ⟨[1], false, .timedOut, .raised, false⟩ = some .unknown := by decide

/-- a solver call that raises (Popen failure, undecodable output) is `err` for a potential query; the executor being
shut down makes every later result `err`, whatever the solver said -/
theorem failure_is_err (cacheSolver hit : Bool) (q : Query) :
    (q.first = .raised → getSolverOutput cacheSolver false false q = .err) ∧
    getSolverOutput cacheSolver true hit q = .err := by
  constructor
  · intro h; simp [getSolverOutput, solveEndToEnd, solveLowLevel, h]
  · simp [getSolverOutput]

/-- refinement: when the first model is invalid and refinement changes the query, the refined result wins outright -/
theorem refined_result_wins (cacheSolver : Bool) (q : Query) (h1 : solveLowLevel cacheSolver q.first = some (.sat false))
    (h2 : q.refinable = true) : solveEndToEnd cacheSolver false q = solveLowLevel cacheSolver q.second := by
  simp [solveEndToEnd, h1, h2]

example : solveEndToEnd false false
    ⟨[1], true, .exited "sat\n(f_evm_bvmul_256)".toList 0 [], .exited "unsat\n".toList 0 [], false⟩ = some (.unsat []) := by decide

/-! ## the verdict if-chain -/

/-- precedence: a counterexample beats everything; then a failed solver call; then a timeout; then a stuck path; then
"no path succeeded"; PASS only when nothing of this holds (this is the chain of the pinned source, see the `_cex`
theorems below for where it departs from FAIL > ERROR > TIMEOUT). -/
theorem precedence_order (outs : List Res) (stuck normal : Nat) :
    ((∃ r ∈ outs, r.kind = .sat) → verdictOf outs stuck normal = .counterexample) ∧
    ((∀ r ∈ outs, r.kind ≠ .sat) → (∃ r ∈ outs, r.kind = .err) → verdictOf outs stuck normal = .exception) ∧
    ((∀ r ∈ outs, r.kind ≠ .sat ∧ r.kind ≠ .err) → (∃ r ∈ outs, r.kind = .unknown) →
        verdictOf outs stuck normal = .timeout) ∧
    ((∀ r ∈ outs, r.kind = .unsat) → 0 < stuck → verdictOf outs stuck normal = .stuck) ∧
    ((∀ r ∈ outs, r.kind = .unsat) → stuck = 0 → normal = 0 → verdictOf outs stuck normal = .revertAll) ∧
    ((∀ r ∈ outs, r.kind = .unsat) → stuck = 0 → 0 < normal → verdictOf outs stuck normal = .pass) := by
  have zero : ∀ k, (∀ r ∈ outs, r.kind ≠ k) → ¬ 0 < countKind k outs := by
    intro k h; have := (countKind_zero_iff k outs).mpr h; omega
  have zu : (∀ r ∈ outs, r.kind = .unsat) → ∀ k, k ≠ RKind.unsat → ¬ 0 < countKind k outs := by
    intro h k hk; apply zero; intro r hr hrk; exact hk (by rw [← hrk, h r hr])
  refine ⟨?_, ?_, ?_, ?_, ?_, ?_⟩
  · intro h; rw [verdictOf_eq, if_pos ((countKind_pos_iff _ _).mpr h)]
  · intro h1 h2; rw [verdictOf_eq, if_neg (zero _ h1), if_pos ((countKind_pos_iff _ _).mpr h2)]
  · intro h1 h2
    rw [verdictOf_eq, if_neg (zero _ fun r hr => (h1 r hr).1), if_neg (zero _ fun r hr => (h1 r hr).2),
      if_pos ((countKind_pos_iff _ _).mpr h2)]
  · intro h hs
    rw [verdictOf_eq, if_neg (zu h _ (by decide)), if_neg (zu h _ (by decide)), if_neg (zu h _ (by decide)), if_pos hs]
  · intro h hs hn
    rw [verdictOf_eq, if_neg (zu h _ (by decide)), if_neg (zu h _ (by decide)), if_neg (zu h _ (by decide)),
      if_neg (by omega), if_pos hn]
  · intro h hs hn
    exact (verdictOf_pass_iff outs stuck normal).mpr ⟨h, hs, hn⟩

example : verdictOf [.unsat [], .sat false, .err, .unknown] 2 0 = .counterexample ∧ verdictOf [.unknown, .err] 1 0 = .exception
    ∧ verdictOf [.unknown, .unsat []] 1 0 = .timeout ∧ verdictOf [.unsat []] 1 0 = .stuck ∧ verdictOf [] 0 0 = .revertAll
    ∧ verdictOf [.unsat [1]] 0 1 = .pass := by decide

/-- the exit codes stored in `TestResult.exitcode` are the values of the `Exitcode` enum of the source -/
theorem exitcode_values : Exitcode.all.map Exitcode.code = [0, 1, 2, 3, 4, 5] := by decide

/-- PASS, on the recorded outcomes: every recorded solver output is unsat, no path is stuck, some path succeeded -/
theorem pass_iff_recorded (outs : List Res) (stuck normal : Nat) :
    verdictOf outs stuck normal = .pass ↔ (∀ r ∈ outs, r.kind = .unsat) ∧ stuck = 0 ∧ 0 < normal :=
  verdictOf_pass_iff outs stuck normal

/-- `pass_iff`: for every complete schedule of every scenario (any number of paths, early exit or not, cache or not,
sound cores): the test is reported PASS iff some path succeeded, every potential-violation query is answered unsat, no
stuck path survives its confirmation, and no solver call of a stuck confirmation raised. In particular PASS implies that
no solver call failed, crashed or timed out (those answers are not `unsat`). -/
theorem pass_iff (sc : Scenario) (hcons : CoresConsistent sc) (sched : List Ev) (v : Exitcode)
    (h : verdictOfSchedule sc sched = some v) :
    v = .pass ↔
      (0 < normalCount sc ∧ (∀ p ∈ potentialPaths sc, (getSolverOutput sc.cfg.cacheSolver false false p.q).kind = .unsat) ∧
        (∀ p ∈ stuckPaths sc, confirmsStuck sc.cfg.cacheSolver p = false)) := by
  obtain ⟨st, hrun, hdone, rfl⟩ := verdictOfSchedule_some h
  have hI := Inv.run hcons hrun
  -- the reference verdict is PASS iff the right-hand side holds
  have href : refVerdict sc = .pass ↔
      (0 < normalCount sc ∧ (∀ p ∈ potentialPaths sc, (getSolverOutput sc.cfg.cacheSolver false false p.q).kind = .unsat) ∧
        (∀ p ∈ stuckPaths sc, confirmsStuck sc.cfg.cacheSolver p = false)) := by
    by_cases hR : ∀ p ∈ stuckPaths sc, confirmRaises sc.cfg.cacheSolver p = false
    · rw [refVerdict_of_noraise hR, verdictOf_pass_iff]
      constructor
      · rintro ⟨ho, hs, hn⟩
        refine ⟨hn, ?_, ?_⟩
        · intro p hp; exact ho _ (List.mem_map.mpr ⟨p, hp, rfl⟩)
        · intro p hp
          have := List.countP_eq_zero.mp hs p hp
          simpa using this
      · rintro ⟨hn, ho, hs⟩
        refine ⟨?_, ?_, hn⟩
        · intro r hr
          obtain ⟨p, hp, rfl⟩ := List.mem_map.mp hr
          exact ho p hp
        · exact List.countP_eq_zero.mpr (fun p hp => by simp [hs p hp])
    · have hR' : ∃ p ∈ stuckPaths sc, confirmRaises sc.cfg.cacheSolver p = true := by
        cases hany : (stuckPaths sc).any (confirmRaises sc.cfg.cacheSolver) with
        | true => exact List.any_eq_true.mp hany
        | false =>
          exfalso; apply hR; intro p hp
          have := List.any_eq_false.mp hany p hp
          simpa using this
      obtain ⟨p, hp, hr⟩ := hR'
      rw [refVerdict_of_raise hp hr]
      constructor
      · intro h; cases h
      · rintro ⟨_, _, hs⟩
        have h1 := hs p hp
        have : confirmsStuck sc.cfg.cacheSolver p = true := by
          simp only [confirmRaises, Option.isNone_iff_eq_none] at hr
          simp [confirmsStuck, hr]
        rw [this] at h1; cases h1
  cases hr : st.raised with
  | true =>
    rw [verdict_of_raised hr]
    constructor
    · intro h; cases h
    · intro hrhs
      -- an exception escaped although the reference verdict is PASS: impossible
      have hp := href.mpr hrhs
      rcases raised_cause sc sched st hrun hr with ⟨p, hp', hr'⟩ | ⟨hsd, _, _⟩
      · rw [refVerdict_of_raise hp' hr'] at hp; cases hp
      · obtain ⟨_, hsat⟩ := shutdown_cause sc sched st hrun hsd
        obtain ⟨p, hp', hres⟩ := hI.i3.sat_out hsat
        have := hrhs.2.1 p hp'
        simp only [refRes] at hres
        rw [hres] at this; cases this
  | false =>
    cases hs : st.shutdown with
    | false => rw [verdict_eq_ref_of_not_shutdown hI hdone hr hs]; exact href
    | true =>
      obtain ⟨_, hsat⟩ := shutdown_cause sc sched st hrun hs
      have hv : st.verdict = .counterexample := by
        simp only [St.verdict, hr, Bool.false_eq_true, if_false]
        exact verdictOf_of_sat hsat _ _
      rw [hv]
      constructor
      · intro h; cases h
      · intro hrhs
        obtain ⟨p, hp', hres⟩ := hI.i3.sat_out hsat
        have := hrhs.2.1 p hp'
        simp only [refRes] at hres
        rw [hres] at this; cases this

/-- non-vacuity: a passing scenario (success, panic answered unsat, stuck shown infeasible) and a complete schedule -/
example :
    let sc : Scenario := ⟨⟨true, true⟩, [⟨Witness.obsSuccess, Witness.noQ⟩,
      ⟨Witness.obsPanic, Witness.mkQ [1, 2] (.exited Witness.unsatOut 0 [1, 2])⟩,
      ⟨Witness.obsStuck, Witness.mkQ [1, 3] (.exited Witness.unsatOut 0 [])⟩]⟩
    verdictOfSchedule sc [.main, .main, .start 1, .main, .main, .finish 1, .main, .main] = some .pass := by decide

/-! ## independence of the completion order -/

/-- `perm_invariant`, no `--early-exit`: every complete schedule (every interleaving of exploration, query starts and
completion callbacks, hence every completion order) of a scenario with any number of paths yields the same verdict —
the schedule-free `refVerdict`. `CoresConsistent` (sound unsat cores) is only needed for `--cache-solver`. -/
theorem perm_invariant (sc : Scenario) (hE : sc.cfg.earlyExit = false) (hcons : CoresConsistent sc)
    (s₁ s₂ : List Ev) (v₁ v₂ : Exitcode) (h₁ : verdictOfSchedule sc s₁ = some v₁) (h₂ : verdictOfSchedule sc s₂ = some v₂) :
    v₁ = v₂ ∧ v₁ = refVerdict sc := by
  have a := verdict_eq_ref_noEarly sc hE hcons s₁ v₁ h₁
  have b := verdict_eq_ref_noEarly sc hE hcons s₂ v₂ h₂
  exact ⟨a.trans b.symm, a⟩

/-- without `--cache-solver` no hypothesis on the solver is needed -/
theorem perm_invariant_noCache (sc : Scenario) (hE : sc.cfg.earlyExit = false) (hC : sc.cfg.cacheSolver = false)
    (s₁ s₂ : List Ev) (v₁ v₂ : Exitcode) (h₁ : verdictOfSchedule sc s₁ = some v₁) (h₂ : verdictOfSchedule sc s₂ = some v₂) :
    v₁ = v₂ :=
  (perm_invariant sc hE (coresConsistent_of_noCache sc hC) s₁ s₂ v₁ v₂ h₁ h₂).1

/-- non-vacuity: two different completion orders of a scenario with three potential queries (sat, unknown, garbage) -/
example :
    let q (out : String) : Query := Witness.mkQ [1] (.exited out.toList 0 [])
    let sc : Scenario := ⟨⟨false, false⟩, [⟨Witness.obsPanic, q "unknown\n"⟩, ⟨Witness.obsPanic, q "sat\n"⟩, ⟨Witness.obsPanic, q "boom"⟩]⟩
    verdictOfSchedule sc [.main, .main, .main, .main, .start 0, .start 1, .start 2, .finish 2, .finish 0, .finish 1] = some .counterexample ∧
    verdictOfSchedule sc [.main, .start 0, .finish 0, .main, .main, .start 2, .main, .start 1, .finish 1, .finish 2] = some .counterexample := by
  decide

/- Full statement for `--early-exit` (FALSE of the pinned code, see `perm_invariant_early_exit_cex`):
     ∀ sc (hcons : CoresConsistent sc) s₁ s₂ v₁ v₂,
       verdictOfSchedule sc s₁ = some v₁ → verdictOfSchedule sc s₂ = some v₂ → v₁ = v₂
   What holds: it is true whenever no exception escapes `run_test` (`perm_invariant_early_exit_partial`), in particular
   for every scenario without stuck paths (`perm_invariant_no_stuck`); and an escape can only turn FAIL into ERROR
   (`early_exit_fail_partial`). -/

/-- with or without `--early-exit`: two complete schedules from which no exception escaped agree (and agree with the
schedule-free verdict), for any number of paths; `hR`: no stuck confirmation raises by itself -/
theorem perm_invariant_early_exit_partial (sc : Scenario) (hcons : CoresConsistent sc)
    (hR : ∀ p ∈ stuckPaths sc, confirmRaises sc.cfg.cacheSolver p = false)
    (s₁ s₂ : List Ev) (st₁ st₂ : St) (h₁ : run sc St.init s₁ = some st₁) (h₂ : run sc St.init s₂ = some st₂)
    (d₁ : st₁.done = true) (d₂ : st₂.done = true) (r₁ : st₁.raised = false) (r₂ : st₂.raised = false) :
    st₁.verdict = st₂.verdict ∧ st₁.verdict = refVerdict sc := by
  have a := verdict_eq_ref_of_not_raised sc hcons hR s₁ st₁ h₁ d₁ r₁
  have b := verdict_eq_ref_of_not_raised sc hcons hR s₂ st₂ h₂ d₂ r₂
  exact ⟨a.trans b.symm, a⟩

/-- no stuck path: full order-independence, early exit or not -/
theorem perm_invariant_no_stuck (sc : Scenario) (hcons : CoresConsistent sc) (hS : stuckPaths sc = [])
    (s₁ s₂ : List Ev) (v₁ v₂ : Exitcode) (h₁ : verdictOfSchedule sc s₁ = some v₁) (h₂ : verdictOfSchedule sc s₂ = some v₂) :
    v₁ = v₂ :=
  (verdict_eq_ref_noStuck sc hcons hS s₁ v₁ h₁).trans (verdict_eq_ref_noStuck sc hcons hS s₂ v₂ h₂).symm

/-- non-vacuity (early exit, two valid counterexamples, two orders: the later one is recorded as `err` in each) -/
example :
    let q : Query := Witness.mkQ [1] (.exited Witness.satOut 0 [])
    let sc : Scenario := ⟨⟨true, false⟩, [⟨Witness.obsSuccess, Witness.noQ⟩, ⟨Witness.obsPanic, q⟩, ⟨Witness.obsPanic, q⟩]⟩
    stuckPaths sc = [] ∧
    verdictOfSchedule sc [.main, .main, .main, .main, .start 1, .start 2, .finish 1, .finish 2] = some .counterexample ∧
    verdictOfSchedule sc [.main, .main, .main, .start 2, .finish 2, .main, .start 1, .finish 1] = some .counterexample := by
  decide

/-- `early_exit_fail` (what holds of it): if some potential query has a valid counterexample, every complete schedule
reports FAIL, or ERROR when an exception escaped — never PASS, TIMEOUT or anything else.
Full statement ("… every order yields FAIL") is false: `perm_invariant_early_exit_cex`. -/
theorem early_exit_fail_partial (sc : Scenario) (hcons : CoresConsistent sc)
    (hR : ∀ p ∈ stuckPaths sc, confirmRaises sc.cfg.cacheSolver p = false)
    (hsat : ∃ p ∈ potentialPaths sc, getSolverOutput sc.cfg.cacheSolver false false p.q = .sat true)
    (sched : List Ev) (v : Exitcode) (h : verdictOfSchedule sc sched = some v) : v = .counterexample ∨ v = .exception :=
  early_exit_fail_or_exception sc hcons hR hsat sched v h

/-- an exception escapes `run_test` only from a stuck confirmation: one that raises by itself, or one that is running
(or about to be submitted) when an early exit shuts the executor down -/
theorem escape_only_from_stuck_confirmation (sc : Scenario) (sched : List Ev) (st : St)
    (hrun : run sc St.init sched = some st) (hr : st.raised = true) :
    (∃ p ∈ stuckPaths sc, confirmRaises sc.cfg.cacheSolver p = true) ∨
      (st.shutdown = true ∧ sc.cfg.earlyExit = true ∧ stuckPaths sc ≠ []) :=
  raised_cause sc sched st hrun hr

/-- FINDING (timing dependence under `--early-exit`): same scenario, same solver replies, two completion orders, two
verdicts. `Witness.race`: path 1 panics (valid counterexample), path 2 is stuck. If the counterexample arrives while the
main thread is blocked in the stuck confirmation of path 2 (`raceDuring`), or between the loop-top check and
`executor.submit` (`raceBeforeSubmit`), an exception escapes `run_test` and the test is reported ERROR (exit code 5);
if it arrives after the exploration (`raceAfter`) the test is reported FAIL (exit code 1). -/
theorem perm_invariant_early_exit_cex :
    ¬ (∀ (sc : Scenario) (_ : CoresConsistent sc) (s₁ s₂ : List Ev) (v₁ v₂ : Exitcode),
        verdictOfSchedule sc s₁ = some v₁ → verdictOfSchedule sc s₂ = some v₂ → v₁ = v₂) := by
  intro h
  have hc : CoresConsistent Witness.race := coresConsistent_of_noCache _ rfl
  have := h Witness.race hc Witness.raceDuring Witness.raceAfter .exception .counterexample (by decide) (by decide)
  cases this

theorem race_verdicts :
    verdictOfSchedule Witness.race Witness.raceDuring = some .exception ∧
    verdictOfSchedule Witness.race Witness.raceBeforeSubmit = some .exception ∧
    verdictOfSchedule Witness.race Witness.raceAfter = some .counterexample ∧
    refVerdict Witness.race = .counterexample := by decide

/-- `--cache-solver` with an unsound core: order-dependent (this is why `CoresConsistent` is assumed) -/
theorem cache_inconsistent_cex :
    ¬ CoresConsistent Witness.cacheLie ∧
    verdictOfSchedule Witness.cacheLie Witness.cacheLieFirst = some .pass ∧
    verdictOfSchedule Witness.cacheLie Witness.cacheLieSecond = some .counterexample := by
  refine ⟨?_, by decide, by decide⟩
  intro h
  have := h ⟨Witness.obsPanic, Witness.mkQ [7] (.exited Witness.unsatOut 0 [7])⟩ (by decide) [7] (by decide) (by decide)
    ⟨Witness.obsPanic, Witness.mkQ [7, 8] (.exited Witness.satOut 0 [])⟩ (by decide) (by decide)
  obtain ⟨c, hc⟩ := this
  have e : solveEndToEnd Witness.cacheLie.cfg.cacheSolver false (Witness.mkQ [7, 8] (.exited Witness.satOut 0 [])) =
      some (.sat true) := by decide
  rw [e] at hc
  exact absurd (Option.some.inj hc) (by simp)

/-! ## against the property's own words (Spec.Verdict) -/

/-- FINDING (precedence): a timed-out query together with a stuck path (or with no successful path) is reported TIMEOUT,
where the property puts ERROR before TIMEOUT -/
theorem precedence_timeout_over_stuck_cex :
    refVerdict Witness.timeoutOverStuck = .timeout ∧
    Spec.Verdict.verdict (outcomesOf Witness.timeoutOverStuck) = .error ∧
    (refVerdict Witness.timeoutOverStuck).cls ≠ Spec.Verdict.verdict (outcomesOf Witness.timeoutOverStuck) := by decide

/-- FINDING (precedence): a counterexample together with a stuck path whose solver call raises is reported ERROR
(the exception escapes `run_test`), where the property puts FAIL first -/
theorem precedence_exception_over_counterexample_cex :
    refVerdict Witness.raiseOverFail = .exception ∧
    verdictOfSchedule Witness.raiseOverFail [.main, .main, .main, .main, .main] = some .exception ∧
    Spec.Verdict.verdict (outcomesOf Witness.raiseOverFail) = .fail := by decide

/- Full statement (FALSE of the pinned code — the three findings above/below are exactly the exceptions):
     ∀ sc (hcons : CoresConsistent sc) sched v, verdictOfSchedule sc sched = some v →
       v.cls = Spec.Verdict.verdict (outcomesOf sc)
   What holds: outside `Deviates` (TIMEOUT over a stuck / no-success ERROR), with no stuck confirmation that raises, and
   when no exception escaped (always the case without `--early-exit`), the reported verdict IS the property's verdict
   of the list of per-path outcomes — for every schedule, any number of paths. -/

/-- model = property, for every complete schedule from which no exception escaped -/
theorem verdict_matches_property_partial (sc : Scenario) (hcons : CoresConsistent sc)
    (hR : ∀ p ∈ stuckPaths sc, confirmRaises sc.cfg.cacheSolver p = false)
    (hD : Deviates (outcomesOf sc) = false)
    (sched : List Ev) (st : St) (hrun : run sc St.init sched = some st) (hdone : st.done = true)
    (hnr : st.raised = false) : st.verdict.cls = Spec.Verdict.verdict (outcomesOf sc) := by
  rw [verdict_eq_ref_of_not_raised sc hcons hR sched st hrun hdone hnr]
  exact refVerdict_cls_eq_spec sc hR hD

/-- without `--early-exit`: model = property for every complete schedule -/
theorem verdict_matches_property_noEarly_partial (sc : Scenario) (hE : sc.cfg.earlyExit = false) (hcons : CoresConsistent sc)
    (hR : ∀ p ∈ stuckPaths sc, confirmRaises sc.cfg.cacheSolver p = false)
    (hD : Deviates (outcomesOf sc) = false)
    (sched : List Ev) (v : Exitcode) (h : verdictOfSchedule sc sched = some v) :
    v.cls = Spec.Verdict.verdict (outcomesOf sc) := by
  rw [verdict_eq_ref_noEarly sc hE hcons sched v h]
  exact refVerdict_cls_eq_spec sc hR hD

/-- non-vacuity: a scenario with all five kinds of outcome that meets every hypothesis; both sides say FAIL -/
example :
    let sc : Scenario := ⟨⟨false, false⟩, [⟨Witness.obsSuccess, Witness.noQ⟩, ⟨PathKind.revert.obs, Witness.noQ⟩,
      ⟨Witness.obsPanic, Witness.mkQ [1] (.exited Witness.satOut 0 [])⟩,
      ⟨PathKind.failFlag.obs, Witness.mkQ [2] .timedOut⟩,
      ⟨Witness.obsStuck, Witness.mkQ [3] (.exited Witness.unknownOut 0 [])⟩]⟩
    Deviates (outcomesOf sc) = false ∧ (∀ p ∈ stuckPaths sc, confirmRaises sc.cfg.cacheSolver p = false) ∧
    refVerdict sc = .counterexample ∧ Spec.Verdict.verdict (outcomesOf sc) = .fail := by decide

/-- the Spec is a function of the multiset of outcomes: invariant under every permutation of the paths -/
theorem spec_perm_invariant {a b : List Spec.Verdict.Outcome} (h : a.Perm b) :
    Spec.Verdict.verdict a = Spec.Verdict.verdict b := by
  have hany : ∀ f : Spec.Verdict.Outcome → Bool, a.any f = b.any f := by
    intro f
    cases hb : b.any f with
    | true =>
      obtain ⟨x, hx, hf⟩ := List.any_eq_true.mp hb
      exact List.any_eq_true.mpr ⟨x, h.mem_iff.mpr hx, hf⟩
    | false =>
      rw [List.any_eq_false] at hb ⊢
      intro x hx; exact hb x (h.mem_iff.mp hx)
  simp only [Spec.Verdict.verdict, hany]

/-- Spec: PASS exactly under the conditions the property lists -/
theorem spec_pass_iff (os : List Spec.Verdict.Outcome) :
    Spec.Verdict.verdict os = .pass ↔ Spec.Verdict.isPass os = true := by
  simp only [Spec.Verdict.verdict, Spec.Verdict.isPass]
  cases os.any Spec.Verdict.Outcome.isCex <;> cases os.any Spec.Verdict.Outcome.isError <;>
    cases os.any Spec.Verdict.Outcome.isSuccess <;> cases os.any Spec.Verdict.Outcome.isTimeout <;> simp

/-! ## the setUp() filter -/

theorem setupLoop_one (c : Bool) (ps : List Proc) (k : Nat) (h : setupLoop c ps k = some 1) :
    k + ps.countP (notUnsat c) = 1 := by
  induction ps generalizing k with
  | nil => simp only [setupLoop, Option.some.injEq] at h; simp [h]
  | cons p t ih =>
    unfold setupLoop at h
    rw [List.countP_cons]
    cases hs : solveLowLevel c p with
    | none => rw [hs] at h; cases h
    | some r =>
      rw [hs] at h
      cases r with
      | unsat core =>
        have hn : notUnsat c p = false := by simp [notUnsat, hs]
        have := ih k h
        simp [hn]; omega
      | sat v =>
        have hn : notUnsat c p = true := by simp [notUnsat, hs]
        simp only at h
        split at h
        · simp only [Option.some.injEq] at h; omega
        · have := ih (k + 1) h; simp [hn]; omega
      | unknown =>
        have hn : notUnsat c p = true := by simp [notUnsat, hs]
        simp only at h
        split at h
        · simp only [Option.some.injEq] at h; omega
        · have := ih (k + 1) h; simp [hn]; omega
      | err =>
        have hn : notUnsat c p = true := by simp [notUnsat, hs]
        simp only at h
        split at h
        · simp only [Option.some.injEq] at h; omega
        · have := ih (k + 1) h; simp [hn]; omega

/-- `setup_filter_only_unsat_discards`: when setUp() ends with two or more non-reverting paths and is accepted, exactly ONE
of them was not answered `unsat` — a path whose feasibility query came back unknown, timed out, crashed, or printed garbage
or nothing is kept (never silently dropped), so two such paths make setUp() fail and no test of the contract can PASS. -/
theorem setup_filter_only_unsat_discards (c : Bool) (ps : List Proc) (h2 : 2 ≤ ps.length) (hok : setupOk c ps = true) :
    ps.countP (notUnsat c) = 1 := by
  match ps, h2 with
  | a :: b :: t, _ =>
    simp only [setupOk, beq_iff_eq] at hok
    have := setupLoop_one c (a :: b :: t) 0 hok
    omega

/-- fail-safe reading: two setUp paths that the solver did not refute ⇒ setUp() is rejected -/
theorem setup_rejects_two_unrefuted (c : Bool) (ps : List Proc) (h2 : 2 ≤ ps.length)
    (h : 2 ≤ ps.countP (notUnsat c)) : setupOk c ps = false := by
  cases hok : setupOk c ps with
  | false => rfl
  | true => have := setup_filter_only_unsat_discards c ps h2 hok; omega

example : setupOk false [.exited Witness.satOut 0 [], .exited Witness.unknownOut 0 []] = false
    ∧ setupOk false [.exited Witness.satOut 0 [], .timedOut] = false ∧ setupOk false [.exited [] 1 [], .exited Witness.satOut 0 []] = false
    ∧ setupOk false [.exited Witness.satOut 0 [], .exited Witness.unsatOut 0 []] = true
    ∧ setupOk false [.exited Witness.unsatOut 0 [], .exited Witness.unsatOut 0 []] = false := by decide

/-! ## the process exit code -/

/-- `exit_nonzero_iff`: for a non-empty selection, the exit code is non-zero iff some selected test did not pass (a test
of a contract whose setUp failed has no result and counts as not passed) -/
theorem exit_nonzero_iff (cs : List ContractRun) (hw : ∀ c ∈ cs, c.wf) (hsel : ∃ c ∈ cs, c.found ≠ 0) :
    mainExit cs ≠ 0 ↔ ∃ c ∈ cs, c.found ≠ 0 ∧ ¬ c.allPassed := by
  rw [mainExit_eq]
  obtain ⟨c0, hc0, hf0⟩ := hsel
  have hne : ¬ ((cs.filter (fun c => c.found != 0)).map (·.found)).sum = 0 := by
    rw [sum_eq_zero_iff]
    intro h
    exact hf0 (h c0.found (List.mem_map.mpr ⟨c0, List.mem_filter.mpr ⟨hc0, by simpa using hf0⟩, rfl⟩))
  simp only [hne, if_false]
  by_cases hz : ((cs.filter (fun c => c.found != 0)).map (fun c => c.found - numPassed c)).sum = 0
  · simp only [hz, if_true, ne_eq, not_true, false_iff]
    rintro ⟨c, hc, hf, hnp⟩
    have := (sum_eq_zero_iff _).mp hz (c.found - numPassed c)
      (List.mem_map.mpr ⟨c, List.mem_filter.mpr ⟨hc, by simpa using hf⟩, rfl⟩)
    exact hnp ((failed_zero_iff c (hw c hc) hf).mp this)
  · simp only [hz, if_false, ne_eq, Nat.succ_ne_zero, not_false_eq_true, true_iff]
    apply Classical.byContradiction
    intro hall
    apply hz
    rw [sum_eq_zero_iff]
    intro x hx
    obtain ⟨c, hc, rfl⟩ := List.mem_map.mp hx
    obtain ⟨hc1, hc2⟩ := List.mem_filter.mp hc
    have hf : c.found ≠ 0 := by simpa using hc2
    apply (failed_zero_iff c (hw c hc1) hf).mpr
    apply Classical.byContradiction
    intro hnp
    exact hall ⟨c, hc1, hf, hnp⟩

example : mainExit [⟨2, [.pass, .pass]⟩, ⟨0, []⟩, ⟨1, [.pass]⟩] = 0 ∧ mainExit [⟨2, [.pass, .timeout]⟩] = 1
    ∧ mainExit [⟨2, [.pass, .pass]⟩, ⟨3, []⟩] = 1 := by decide

/-- the empty selection exits 1 (by design: "No tests with …"), whatever else -/
theorem exit_empty_selection (cs : List ContractRun) (h : ∀ c ∈ cs, c.found = 0) : mainExit cs = 1 := by
  rw [mainExit_eq]
  have : cs.filter (fun c => c.found != 0) = [] := by
    rw [List.filter_eq_nil_iff]; intro c hc; simp [h c hc]
  simp [this]

example : mainExit [] = 1 ∧ mainExit [⟨0, []⟩] = 1 := by decide

/-- the exit code is 0 or 1 -/
theorem exit_zero_or_one (cs : List ContractRun) : mainExit cs = 0 ∨ mainExit cs = 1 := by
  rw [mainExit_eq]
  simp only
  split
  · exact Or.inr rfl
  · split
    · exact Or.inl rfl
    · exact Or.inr rfl

/-- a test that raised (recorded as `Exitcode.EXCEPTION` by `run_tests`) is never a pass: the process exits 1 whenever
some selected contract has such a result -/
theorem raising_test_fails_run (cs : List ContractRun) (hw : ∀ c ∈ cs, c.wf) (c : ContractRun) (hc : c ∈ cs)
    (hf : c.found ≠ 0) (hr : Exitcode.exception ∈ c.results) : mainExit cs = 1 := by
  have hne : mainExit cs ≠ 0 := (exit_nonzero_iff cs hw ⟨c, hc, hf⟩).mpr
    ⟨c, hc, hf, fun hp => by have := hp.2 _ hr; cases this⟩
  rcases exit_zero_or_one cs with h0 | h1
  · exact absurd h0 hne
  · exact h1

example : mainExit [⟨3, [.pass, .exception, .pass]⟩] = 1 ∧ (St.verdict { raised := true }) = .exception := by decide

/-- the selected tests as the property sees them: a verdict per test, `none` for a test that never ran -/
def statuses (cs : List ContractRun) : List (Option Spec.Verdict.Verdict) :=
  (cs.filter (fun c => c.found != 0)).flatMap (fun c =>
    if c.results.length = c.found then c.results.map (fun r => some r.cls) else List.replicate c.found none)

/-- `_main`'s exit code is the property's exit code of the selected tests (empty selection included) -/
theorem exit_matches_property (cs : List ContractRun) (hw : ∀ c ∈ cs, c.wf) :
    mainExit cs = Spec.Verdict.exitCode (statuses cs) := by
  have hcls : ∀ r : Exitcode, (some r.cls == some Spec.Verdict.Verdict.pass) = true ↔ r = .pass := by
    intro r; cases r <;> simp [Exitcode.cls]
  by_cases hsel : ∃ c ∈ cs, c.found ≠ 0
  · obtain ⟨c0, hc0, hf0⟩ := hsel
    have hne : (statuses cs).isEmpty = false := by
      rw [Bool.eq_false_iff]
      intro he
      have hnil : statuses cs = [] := List.isEmpty_iff.mp he
      unfold statuses at hnil
      rw [List.flatMap_eq_nil_iff] at hnil
      have := hnil c0 (List.mem_filter.mpr ⟨hc0, by simpa using hf0⟩)
      by_cases hl : c0.results.length = c0.found
      · rw [if_pos hl, List.map_eq_nil_iff] at this
        rw [this] at hl; exact hf0 hl.symm
      · rw [if_neg hl, List.replicate_eq_nil_iff] at this
        exact hf0 this
    have hall : (statuses cs).all (fun t => t == some .pass) = true ↔ ¬ ∃ c ∈ cs, c.found ≠ 0 ∧ ¬ c.allPassed := by
      unfold statuses
      rw [List.all_flatMap, List.all_eq_true]
      constructor
      · intro h
        rintro ⟨c, hc, hf, hnp⟩
        have := h c (List.mem_filter.mpr ⟨hc, by simpa using hf⟩)
        by_cases hl : c.results.length = c.found
        · rw [if_pos hl, List.all_map, List.all_eq_true] at this
          exact hnp ⟨hl, fun r hr => (hcls r).mp (this r hr)⟩
        · rw [if_neg hl, List.all_eq_true] at this
          have hm : (none : Option Spec.Verdict.Verdict) ∈ List.replicate c.found none :=
            List.mem_replicate.mpr ⟨hf, rfl⟩
          have := this none hm
          simp at this
      · intro h c hc
        obtain ⟨hc1, hc2⟩ := List.mem_filter.mp hc
        have hf : c.found ≠ 0 := by simpa using hc2
        have hp : c.allPassed := Classical.byContradiction fun hnp => h ⟨c, hc1, hf, hnp⟩
        rw [if_pos hp.1, List.all_map, List.all_eq_true]
        intro r hr
        exact (hcls r).mpr (hp.2 r hr)
    have hex := exit_nonzero_iff cs hw ⟨c0, hc0, hf0⟩
    unfold Spec.Verdict.exitCode
    rw [hne]
    simp only [Bool.false_eq_true, if_false]
    by_cases hbad : ∃ c ∈ cs, c.found ≠ 0 ∧ ¬ c.allPassed
    · have h1 : ¬ (statuses cs).all (fun t => t == some .pass) = true := fun h => (hall.mp h) hbad
      rw [if_neg h1]
      have := hex.mpr hbad
      rcases exit_zero_or_one cs with h0 | h1'
      · exact absurd h0 this
      · exact h1'
    · rw [if_pos (hall.mpr hbad)]
      exact Classical.byContradiction fun hne0 => hbad (hex.mp hne0)
  · have h0 : ∀ c ∈ cs, c.found = 0 := by
      intro c hc
      exact Classical.byContradiction fun hf => hsel ⟨c, hc, hf⟩
    rw [exit_empty_selection cs h0]
    have : statuses cs = [] := by
      unfold statuses
      have : cs.filter (fun c => c.found != 0) = [] := by
        rw [List.filter_eq_nil_iff]; intro c hc; simp [h0 c hc]
      rw [this]; rfl
    rw [this]; rfl

example : statuses [⟨2, [.pass, .timeout]⟩, ⟨2, []⟩, ⟨0, []⟩] = [some .pass, some .timeout, none, none] := by decide

end HalmosVerif.Props.C05
