import HalmosVerif.Model.SimpFold
namespace HalmosVerif.Props.C06
open HalmosVerif.Model HalmosVerif.Spec

theorem placeholder : Word.add 1 2 = 3 := by decide

end HalmosVerif.Props.C06
