/-
Props.C06 — "Word-level instruction semantics are exact and total".

Every theorem quantifies over ALL operands in every representation class (int-backed, term-backed, literal
Bool, symbolic Bool), EVERY sound simplifier `s` (`SimpSound s`: the trusted property of z3's `simplify`) and
EVERY interpretation `I` of free constants / uninterpreted functions that is standard (`I.Std`: the
abstractions `f_evm_*` mean the exact EVM operation, by-zero = 0).

The model (`Model.BitVecOps`) is tied to bitvec.py / sevm.py by the differential harness tools/props/c06.py.
The per-method lemmas (`bvAdd_ok`, `bvMul_ok`, …, generic in the bit-vector size) are in `Lemmas/Word*.lean`.
-/
import HalmosVerif.Lemmas.WordExec
import HalmosVerif.Lemmas.WordCost

namespace HalmosVerif.Props.C06
open HalmosVerif.Model HalmosVerif.Spec HalmosVerif.Lemmas.Word

/-! ### foundations re-exported (so that they are audited with the property) -/

/-- Python's `pow(b, e, m)` (square-and-multiply) is `b ^ e % m` -/
theorem powMod_eq (b e m : Nat) : powMod b e m = b ^ e % m := Lemmas.Word.powMod_eq b e m

/-- a well-formed term evaluates below `2 ^ width` under every interpretation -/
theorem eval_lt (I : Interp) (t : T) (h : t.WF) : t.eval I < 2 ^ t.width := T.eval_lt I t h

/-- the hypotheses `SimpSound s` are satisfiable: the constant folder used by the driver, and the identity -/
theorem foldSimp_sound : SimpSound foldSimp := Lemmas.Word.foldSimp_sound
theorem idSimp_sound : SimpSound idSimp := Lemmas.Word.idSimp_sound

/-- a standard interpretation used by the examples: `x ↦ 7`, `y ↦ 2^255`, Booleans true -/
def exI : Interp := Interp.std (fun x _ => if x = "x" then 7 else 2 ^ 255) (fun _ => true)
  (fun _ _ _ _ => 0) (fun _ _ _ => 0)

theorem exI_std : exI.Std := Interp.std_isStd _ _ _ _

example : powMod 3 (2 ^ 200 + 5) (2 ^ 256) = 3 ^ 5 * powMod 3 (2 ^ 200) (2 ^ 256) % 2 ^ 256 := by
  decide +kernel

/-! ### 1. exactness and totality -/

/-- **op_exact.** Every word instruction, on stack items of any representation, returns (no Python
    exception) a well-formed word whose denotation is the Yellow-Paper result on the operands'
    denotations, and every auxiliary path constraint it emits is true.
    Guard: SIGNEXTEND requires a concrete size operand (the code raises `NotConcreteError` otherwise,
    by design — see `signextend_symbolic_size_rejected`). -/
theorem op_exact {s : Simp} (hs : SimpSound s) {I : Interp} (hI : I.Std) (cfg : WordCfg) (op : WordOp)
    (args : List HV) (hlen : args.length = arity op) (hargs : ∀ a ∈ args, a.WF ∧ a.IsWord)
    (hse : op = .SIGNEXTEND → ∀ a, args.head? = some a → (toBV256 s a).isConcrete = true) :
    ∃ r aux, execWord s cfg op args = .ok (r, aux) ∧ r.WF ∧ r.IsWord ∧
      r.denote I = specOp op (args.map (·.denote I)) ∧ ∀ c ∈ aux, c.eval I = true := by
  cases op
  case ISZERO =>
    obtain ⟨a, rfl⟩ := len1 hlen
    exact exec_ISZERO hs hI cfg (hargs a (by simp))
  case NOT =>
    obtain ⟨a, rfl⟩ := len1 hlen
    exact exec_NOT hs hI cfg (hargs a (by simp))
  case ADDMOD =>
    obtain ⟨a, b, n, rfl⟩ := len3 hlen
    exact exec_ADDMOD hs hI cfg (hargs a (by simp)) (hargs b (by simp)) (hargs n (by simp))
  case MULMOD =>
    obtain ⟨a, b, n, rfl⟩ := len3 hlen
    exact exec_MULMOD hs hI cfg (hargs a (by simp)) (hargs b (by simp)) (hargs n (by simp))
  case SIGNEXTEND =>
    obtain ⟨a, b, rfl⟩ := len2 hlen
    exact exec_SIGNEXTEND hs hI cfg (hargs a (by simp)) (hargs b (by simp)) (hse rfl a rfl)
  all_goals
    obtain ⟨a, b, rfl⟩ := len2 hlen
    have ha := hargs a (by simp)
    have hb := hargs b (by simp)
    first
      | exact exec_ADD hs hI cfg ha hb | exact exec_MUL hs hI cfg ha hb | exact exec_SUB hs hI cfg ha hb
      | exact exec_DIV hs hI cfg ha hb | exact exec_SDIV hs hI cfg ha hb | exact exec_MOD hs hI cfg ha hb
      | exact exec_SMOD hs hI cfg ha hb | exact exec_EXP hs hI cfg ha hb | exact exec_LT hs hI cfg ha hb
      | exact exec_GT hs hI cfg ha hb | exact exec_SLT hs hI cfg ha hb | exact exec_SGT hs hI cfg ha hb
      | exact exec_EQ hs hI cfg ha hb | exact exec_AND hs hI cfg ha hb | exact exec_OR hs hI cfg ha hb
      | exact exec_XOR hs hI cfg ha hb | exact exec_BYTE hs hI cfg ha hb | exact exec_SHL hs hI cfg ha hb
      | exact exec_SHR hs hI cfg ha hb | exact exec_SAR hs hI cfg ha hb

/-- the operands of the non-vacuity example, one of each kind: a symbolic Bool (true under `exI`), a term
    (`y = 2^255`) and an int-backed word: MULMOD(b, y, 1000) -/
def exArgs : List HV :=
  [.bool (.sym (.var "b")), .bv 256 (.sym (.var "y" 256)), .bv 256 (.con 1000)]

theorem exArgs_ok : ∀ a ∈ exArgs, a.WF ∧ a.IsWord := by
  intro a ha
  simp only [exArgs, List.mem_cons, List.not_mem_nil, or_false] at ha
  rcases ha with rfl | rfl | rfl
  · exact word_bool trivial
  · exact word_var "y"
  · exact word_con (by decide)

/-- `op_exact` instantiated at the constant folder, a standard interpretation and mixed operands:
    MULMOD(b, y, 1000) with b = true, y = 2^255 returns a well-formed word denoting `2^255 % 1000 = 968` -/
example : ∃ r aux, execWord foldSimp {} .MULMOD exArgs = .ok (r, aux) ∧ r.WF ∧ r.IsWord ∧
    r.denote exI = 968 ∧ ∀ c ∈ aux, c.eval exI = true := by
  have h := op_exact foldSimp_sound exI_std {} .MULMOD exArgs rfl exArgs_ok (by intro h; cases h)
  have hv : specOp .MULMOD (exArgs.map (·.denote exI)) = 968 := by decide +kernel
  rw [hv] at h
  exact h

/-- **signextend_symbolic_size_rejected.** The one input class `op_exact` excludes: SIGNEXTEND whose size
    operand is still symbolic after `popi()` raises `NotConcreteError` (never a wrong result). -/
theorem signextend_symbolic_size_rejected {s : Simp} (hs : SimpSound s) (cfg : WordCfg) (a b : HV)
    (ha : a.WF ∧ a.IsWord) (hb : b.WF ∧ b.IsWord) (hsym : (toBV256 s a).isConcrete = false) :
    execWord s cfg .SIGNEXTEND [a, b] = .error .notConcrete := by
  obtain ⟨ra, ea, _, _⟩ := (toBV256_ok hs Interp.zero ha.1 ha.2).ok_inj
  obtain ⟨rb, eb, _, _⟩ := (toBV256_ok hs Interp.zero hb.1 hb.2).ok_inj
  rw [ea] at hsym
  cases ra with
  | con k => exact absurd hsym (by simp [HV.isConcrete])
  | sym t => simp only [execWord, ea, eb]; rfl

example : execWord idSimp {} .SIGNEXTEND [.bv 256 (.sym (.var "x" 256)), .bv 256 (.con 5)] =
    .error .notConcrete :=
  signextend_symbolic_size_rejected idSimp_sound {} _ _ (word_var "x") (word_con (by decide)) rfl

/-- **abstraction_axioms_valid.** The side constraints `SEVM.arith` appends for DIV and MOD
    (`(x / y) <= x`, `(x % y) <= y`) hold under every standard interpretation: they never exclude a real input. -/
theorem abstraction_axioms_valid {s : Simp} (hs : SimpSound s) {I : Interp} (hI : I.Std) (cfg : WordCfg)
    (op : WordOp) (hop : op = .DIV ∨ op = .MOD) (a b : HV) (ha : a.WF ∧ a.IsWord) (hb : b.WF ∧ b.IsWord)
    (r : HV) (aux : List B) (hex : execWord s cfg op [a, b] = .ok (r, aux)) :
    ∀ c ∈ aux, c.eval I = true := by
  have hargs : ∀ v ∈ [a, b], v.WF ∧ v.IsWord := by
    intro v hv
    simp only [List.mem_cons, List.not_mem_nil, or_false] at hv
    rcases hv with rfl | rfl
    · exact ha
    · exact hb
  obtain ⟨r', aux', he, _, _, _, haux⟩ := op_exact hs hI cfg op [a, b]
    (by rcases hop with rfl | rfl <;> rfl) hargs (by rcases hop with rfl | rfl <;> (intro h; cases h))
  rw [hex] at he
  cases he
  exact haux

/-- the constraint really is emitted: symbolic `x / y` yields `f_evm_bvudiv_256(x, y) <= x` -/
example : ∃ r c, execWord idSimp {} .DIV [.bv 256 (.sym (.var "x" 256)), .bv 256 (.sym (.var "y" 256))] =
    .ok (r, [c]) ∧ c.eval exI = true := by
  refine ⟨_, _, rfl, ?_⟩
  exact abstraction_axioms_valid idSimp_sound exI_std {} .DIV (Or.inl rfl) _ _
    (word_var "x") (word_var "y") _ _ rfl _ (List.mem_singleton.2 rfl)

/-! ### 2. concrete fast paths agree with the symbolic path -/

/-- **fast_eq_slow.** Two operand lists with equal denotations — e.g. one int-backed (concrete fast paths),
    one term-backed (symbolic paths) — give results with equal denotations. -/
theorem fast_eq_slow {s : Simp} (hs : SimpSound s) {I : Interp} (hI : I.Std) (cfg : WordCfg) (op : WordOp)
    (args args' : List HV) (hlen : args.length = arity op) (hlen' : args'.length = arity op)
    (hargs : ∀ a ∈ args, a.WF ∧ a.IsWord) (hargs' : ∀ a ∈ args', a.WF ∧ a.IsWord)
    (hse : op = .SIGNEXTEND → ∀ a, args.head? = some a → (toBV256 s a).isConcrete = true)
    (hse' : op = .SIGNEXTEND → ∀ a, args'.head? = some a → (toBV256 s a).isConcrete = true)
    (hden : args.map (·.denote I) = args'.map (·.denote I)) :
    ∃ r aux r' aux', execWord s cfg op args = .ok (r, aux) ∧ execWord s cfg op args' = .ok (r', aux') ∧
      r.denote I = r'.denote I := by
  obtain ⟨r, aux, he, _, _, hd, _⟩ := op_exact hs hI cfg op args hlen hargs hse
  obtain ⟨r', aux', he', _, _, hd', _⟩ := op_exact hs hI cfg op args' hlen' hargs' hse'
  exact ⟨r, aux, r', aux', he, he', by rw [hd, hd', hden]⟩

/-- SDIV of int-backed (-8, 3) against the same values hidden in terms the simplifier does not fold
    (`idSimp`): the fast path and the abstraction path denote the same word -/
example : ∃ r aux r' aux',
    execWord idSimp {} .SDIV [.bv 256 (.con (2 ^ 256 - 8)), .bv 256 (.con 3)] = .ok (r, aux) ∧
    execWord idSimp {} .SDIV [.bv 256 (.sym (.lit 256 (2 ^ 256 - 8))), .bv 256 (.sym (.lit 256 3))] = .ok (r', aux') ∧
    r.denote exI = r'.denote exI :=
  fast_eq_slow idSimp_sound exI_std {} .SDIV _ _ rfl rfl
    (by
      intro a ha
      simp only [List.mem_cons, List.not_mem_nil, or_false] at ha
      rcases ha with rfl | rfl <;> exact word_con (by decide))
    (by
      intro a ha
      simp only [List.mem_cons, List.not_mem_nil, or_false] at ha
      rcases ha with rfl | rfl <;> exact word_lit _)
    (by intro h; cases h) (by intro h; cases h) (by decide +kernel)

/-! ### 3. Bool <-> bit-vector coercions -/

/-- **bool_coercion.** A Bool-typed stack item denotes 0 or 1; `popi()` (`toBV256` = `as_bv(256)`),
    `HalmosBitVec(b, size=256)` (`reBV`) turn it into a well-formed 256-bit word with the same denotation;
    `is_zero` negates it; and `is_non_zero` of a word denotes `if x ≠ 0 then 1 else 0`. -/
theorem bool_coercion {s : Simp} (hs : SimpSound s) (I : Interp) (r : BRep) (hwf : (HV.bool r).WF) :
    (HV.bool r).denote I ≤ 1 ∧
    (∃ r', toBV256 s (.bool r) = .bv 256 r' ∧ (HV.bv 256 r').WF ∧
      (HV.bv 256 r').denote I = (HV.bool r).denote I) ∧
    (∃ r', boolAsBV s r 256 = .bv 256 r' ∧ (HV.bv 256 r').WF ∧
      (HV.bv 256 r').denote I = (HV.bool r).denote I) ∧
    (∃ r', reBV s (.bool r) 256 = .bv 256 r' ∧ (HV.bv 256 r').WF ∧
      (HV.bv 256 r').denote I = (HV.bool r).denote I) ∧
    (∃ r', boolIsZero s r = .ok (.bool r') ∧ (HV.bool r').WF ∧
      (HV.bool r').denote I = 1 - (HV.bool r).denote I) :=
  ⟨bool_denote_le_one I r,
   (toBV256_ok hs I hwf trivial).ok_inj,
   (boolAsBV_ok hs I (by decide) hwf).ok_inj,
   (reBV_bool_ok hs I (by decide) hwf).ok_inj,
   by
     obtain ⟨r', h1, h2, h3⟩ := boolIsZero_ok hs I hwf
     refine ⟨r', h1, h2, ?_⟩
     rw [h3, bool_denote]
     cases BRep.val I r <;> rfl⟩

/-- word → Bool: `is_non_zero` / `is_zero` of a bit-vector of any size -/
theorem bv_truth {s : Simp} (hs : SimpSound s) (I : Interp) (size : Nat) (x : Rep) (hwf : (HV.bv size x).WF) :
    (∃ r', bvIsNonZero s x = .ok (.bool r') ∧ (HV.bool r').WF ∧
      (HV.bool r').denote I = if (HV.bv size x).denote I ≠ 0 then 1 else 0) ∧
    (∃ r', bvIsZero s x = .ok (.bool r') ∧ (HV.bool r').WF ∧
      (HV.bool r').denote I = if (HV.bv size x).denote I = 0 then 1 else 0) := by
  constructor
  · obtain ⟨r', h1, h2, h3⟩ := bvIsNonZero_ok hs I hwf
    refine ⟨r', h1, h2, ?_⟩
    rw [h3]
    by_cases h : (HV.bv size x).denote I = 0
    · rw [h]; rfl
    · rw [if_pos h, bne_iff_ne.2 h, if_pos rfl]
  · obtain ⟨r', h1, h2, h3⟩ := bvIsZero_ok hs I hwf
    exact ⟨r', h1, h2, h3.trans (ite_beq_nat _ 0)⟩

/-- `ISZERO ∘ ISZERO` of any stack word denotes `if x ≠ 0 then 1 else 0` -/
theorem iszero_iszero {s : Simp} (hs : SimpSound s) {I : Interp} (hI : I.Std) (cfg : WordCfg) (a : HV)
    (ha : a.WF ∧ a.IsWord) :
    ∃ r1 aux1 r2 aux2, execWord s cfg .ISZERO [a] = .ok (r1, aux1) ∧
      execWord s cfg .ISZERO [r1] = .ok (r2, aux2) ∧ r2.WF ∧ r2.IsWord ∧
      r2.denote I = if a.denote I ≠ 0 then 1 else 0 := by
  obtain ⟨r1, aux1, e1, w1, i1, d1, _⟩ := exec_ISZERO hs hI cfg ha
  obtain ⟨r2, aux2, e2, w2, i2, d2, _⟩ := exec_ISZERO hs hI cfg ⟨w1, i1⟩
  refine ⟨r1, aux1, r2, aux2, e1, e2, w2, i2, ?_⟩
  rw [d2, d1]
  unfold Word.iszero
  by_cases h : a.denote I = 0
  · rw [if_pos h, if_neg (by decide), if_neg (by omega)]
  · rw [if_neg h, if_pos rfl, if_pos h]

example : ∃ r', toBV256 foldSimp (.bool (.sym (.not (.var "b")))) = .bv 256 r' ∧ (HV.bv 256 r').WF ∧
    (HV.bv 256 r').denote exI = 0 :=
  (bool_coercion foldSimp_sound exI (.sym (.not (.var "b"))) trivial).2.1

example : ∃ r1 aux1 r2 aux2, execWord foldSimp {} .ISZERO [.bv 256 (.sym (.var "y" 256))] = .ok (r1, aux1) ∧
    execWord foldSimp {} .ISZERO [r1] = .ok (r2, aux2) ∧ r2.WF ∧ r2.IsWord ∧ r2.denote exI = 1 :=
  iszero_iszero foldSimp_sound exI_std {} _ (word_var "y")

/-! ### 4. EXP by a small constant -/

/-- **exp_by_const.** For a symbolic base and a concrete exponent `2 ≤ k ≤ smt_exp_by_const` the EXP
    instruction returns the unrolled product `x·(x·(…·x))` built with the multiplication abstraction
    (whatever the exponentiation abstraction means — `I` need not be standard for `f_evm_exp_256`),
    and it denotes `x ^ k % 2 ^ 256`. -/
theorem exp_by_const {s : Simp} (hs : SimpSound s) {I : Interp}
    (hmul : UfIs I (ufName "bvmul" 256) 256 (fun a b => a * b % 2 ^ 256))
    (cfg : WordCfg) (t : T) (ht : t.WF) (hw : t.width = 256) (k : Nat) (h2 : 2 ≤ k)
    (hk : k ≤ cfg.smtExpByConst) :
    ∃ r, execWord s cfg .EXP [.bv 256 (.sym t), .bv 256 (.con k)] = .ok (r, []) ∧ r.WF ∧ r.IsWord ∧
      r.denote I = Word.exp (t.eval I) k ∧
      .ok r = bvExp.loop s 256 (.sym t) (some (ufName "bvmul" 256)) (k - 1) (.bv 256 (.sym t)) := by
  have hx : (HV.bv 256 (.sym t)).WF := ⟨by decide, ht, hw⟩
  obtain ⟨e, r, h1, h2', h3⟩ := bvExp_const_ok hs I (some (ufName "exp" 256)) (some (ufName "bvmul" 256))
    cfg.smtExpByConst (fun f hf => Option.some.inj hf ▸ hmul) hx h2 hk
  refine ⟨.bv 256 r, ?_, h2', rfl, h3, ?_⟩
  · simp only [execWord, withBV2, toBV256, h1]; rfl
  · rw [← e, h1]

example : ∃ r, execWord foldSimp { smtExpByConst := 4 } .EXP [.bv 256 (.sym (.var "x" 256)), .bv 256 (.con 3)] =
      .ok (r, []) ∧ r.WF ∧ r.IsWord ∧ r.denote exI = 343 := by
  obtain ⟨r, h1, h2, h3, h4, _⟩ := exp_by_const foldSimp_sound (I := exI) (std_mul256 exI_std)
    { smtExpByConst := 4 } (.var "x" 256) (by decide : 0 < 256) rfl 3 (by decide) (by decide)
  exact ⟨r, h1, h2, h3, h4.trans (by decide +kernel)⟩

/-! ### 5. promptness -/

/-- **op_prompt.** `opCost` annotates the model with the bit length of the largest Python integer its
    int-backed paths create (`a + b`, `a * b`, `x << k` for `k < 256`, the intermediates of `pow(a, b, 2**256)`,
    `x - (1 << 256)`). For all operands it is at most 512 (so certainly `≤ 2·512 + 64`): in particular concrete EXP
    never builds `a ** b`. (`opCost` is a hand annotation of the model's branches, not derived from `execWord`;
    the harness additionally runs every real instruction under a wall-clock alarm.) -/
theorem op_prompt (op : WordOp) (args : List HV) (hargs : ∀ a ∈ args, a.WF ∧ a.IsWord) :
    opCost op args ≤ 512 ∧ opCost op args ≤ 2 * 512 + 64 := by
  have := opCost_le op args hargs
  exact ⟨this, by omega⟩

/-- the intermediates of `pow(b, e, 2**256)` never exceed 512 bits, whatever the exponent -/
theorem powMod_prompt (b e : Nat) (hb : b < 2 ^ 256) : powModCost b e (2 ^ 256) ≤ 512 := by
  have := powModCost_le (k := 256) (m := 2 ^ 256) (by decide) (Nat.le_refl _) (by decide) e b hb
  omega

/-- 3^1000 mod 2^256 on the concrete path: intermediates of at most 512 bits (`#eval` gives exactly 512),
    where `3 ** 1000` has 1585 bits -/
example : opCost .EXP [.bv 256 (.con 3), .bv 256 (.con 1000)] ≤ 512 ∧ bitLength (3 ^ 1000) = 1585 :=
  ⟨(op_prompt .EXP _ (by
      intro a ha
      simp only [List.mem_cons, List.not_mem_nil, or_false] at ha
      rcases ha with rfl | rfl <;> exact word_con (by decide))).1, by decide +kernel⟩

end HalmosVerif.Props.C06
