/-
Props.C06Algebra — corollaries of `Props.C06.op_exact` that state, outright and for every combination of
operand representation (int-backed, term-backed, literal Bool, symbolic Bool), the laws the property text
names or that an asymmetric fast path would break:

* `by_zero_gives_zero`     DIV / SDIV / MOD / SMOD with a divisor that *denotes* 0 (a literal 0, or a term that
                           evaluates to 0 under the interpretation at hand) and ADDMOD / MULMOD with such a
                           modulus return a word denoting 0 — no exception, whatever the other operands are;
* `commutative_ops`        ADD, MUL, AND, OR, XOR, EQ: swapping the operands (hence swapping which one is the
                           Bool-typed / int-backed / term-backed one) does not change the denotation;
* `compare_mirror`         LT a b = GT b a and SLT a b = SGT b a across representations;
* `iszero_is_eq_zero`      ISZERO a = EQ a 0;
* `self_cancel`            SUB a a and XOR a a denote 0;
* `oversize_shift`, `byte_out_of_range`, `exp_zero_exponent`, `sdiv_overflow_wraps`: the corner regions the
                           property names (shifts ≥ 256, BYTE index ≥ 32, `0^0`, `-2^255 / -1`), for every representation;

* `spec_closed`, `result_in_range`: the reference semantics `Spec.Word` (trusted as the meaning of the EVM) maps
                           256-bit words to 256-bit words for all 25 instructions, and so does the model;

All are about the generated model `execWord` (tied to bitvec.py / sevm.py by tools/props/c06.py); none adds a
hypothesis beyond those of `op_exact`.
-/
import HalmosVerif.Props.C06

namespace HalmosVerif.Props.C06Algebra
open HalmosVerif.Model HalmosVerif.Spec HalmosVerif.Lemmas.Word HalmosVerif.Props.C06

theorem mem2 {a b : HV} {P : HV → Prop} (ha : P a) (hb : P b) : ∀ x ∈ [a, b], P x := by
  intro x hx
  simp only [List.mem_cons, List.not_mem_nil, or_false] at hx
  rcases hx with rfl | rfl <;> assumption

theorem mem3 {a b c : HV} {P : HV → Prop} (ha : P a) (hb : P b) (hc : P c) : ∀ x ∈ [a, b, c], P x := by
  intro x hx
  simp only [List.mem_cons, List.not_mem_nil, or_false] at hx
  rcases hx with rfl | rfl | rfl <;> assumption

/-- the four division-like instructions -/
def IsDivLike (op : WordOp) : Prop := op = .DIV ∨ op = .SDIV ∨ op = .MOD ∨ op = .SMOD

/-- **by_zero_gives_zero (binary).** DIV, SDIV, MOD, SMOD by an operand denoting 0 — in any representation,
    the dividend in any representation — succeed and denote 0. -/
theorem by_zero_gives_zero {s : Simp} (hs : SimpSound s) {I : Interp} (hI : I.Std) (cfg : WordCfg)
    (op : WordOp) (hop : IsDivLike op) (a b : HV) (ha : a.WF ∧ a.IsWord) (hb : b.WF ∧ b.IsWord)
    (hz : b.denote I = 0) :
    ∃ r aux, execWord s cfg op [a, b] = .ok (r, aux) ∧ r.WF ∧ r.IsWord ∧ r.denote I = 0 ∧
      ∀ c ∈ aux, c.eval I = true := by
  have harity : ([a, b] : List HV).length = arity op := by
    rcases hop with rfl | rfl | rfl | rfl <;> rfl
  have hse : op = .SIGNEXTEND → ∀ x, ([a, b] : List HV).head? = some x → (toBV256 s x).isConcrete = true := by
    intro h; rcases hop with rfl | rfl | rfl | rfl <;> cases h
  obtain ⟨r, aux, he, hwf, hw, hd, haux⟩ := op_exact hs hI cfg op [a, b] harity (mem2 ha hb) hse
  refine ⟨r, aux, he, hwf, hw, ?_, haux⟩
  rw [hd]
  rcases hop with rfl | rfl | rfl | rfl <;>
    simp [specOp, hz, Word.div, Word.sdiv, Word.mod, Word.smod]

/-- **by_zero_gives_zero (ternary).** ADDMOD and MULMOD with a modulus denoting 0 succeed and denote 0. -/
theorem modzero_gives_zero {s : Simp} (hs : SimpSound s) {I : Interp} (hI : I.Std) (cfg : WordCfg)
    (op : WordOp) (hop : op = .ADDMOD ∨ op = .MULMOD) (a b n : HV)
    (ha : a.WF ∧ a.IsWord) (hb : b.WF ∧ b.IsWord) (hn : n.WF ∧ n.IsWord) (hz : n.denote I = 0) :
    ∃ r aux, execWord s cfg op [a, b, n] = .ok (r, aux) ∧ r.WF ∧ r.IsWord ∧ r.denote I = 0 ∧
      ∀ c ∈ aux, c.eval I = true := by
  have harity : ([a, b, n] : List HV).length = arity op := by
    rcases hop with rfl | rfl <;> rfl
  have hse : op = .SIGNEXTEND → ∀ x, ([a, b, n] : List HV).head? = some x → (toBV256 s x).isConcrete = true := by
    intro h; rcases hop with rfl | rfl <;> cases h
  obtain ⟨r, aux, he, hwf, hw, hd, haux⟩ := op_exact hs hI cfg op [a, b, n] harity (mem3 ha hb hn) hse
  refine ⟨r, aux, he, hwf, hw, ?_, haux⟩
  rw [hd]
  rcases hop with rfl | rfl <;> simp [specOp, hz, Word.addmod, Word.mulmod]

/-- the commutative instructions -/
def IsComm (op : WordOp) : Prop :=
  op = .ADD ∨ op = .MUL ∨ op = .AND ∨ op = .OR ∨ op = .XOR ∨ op = .EQ

theorem spec_comm (op : WordOp) (hop : IsComm op) (x y : Nat) : specOp op [x, y] = specOp op [y, x] := by
  rcases hop with rfl | rfl | rfl | rfl | rfl | rfl
  · simp [specOp, Word.add, Nat.add_comm]
  · simp [specOp, Word.mul, Nat.mul_comm]
  · simp [specOp, Word.and, Nat.and_comm]
  · simp [specOp, Word.or, Nat.or_comm]
  · simp [specOp, Word.xor, Nat.xor_comm]
  · simp [specOp, Word.eq, eq_comm]

/-- a binary instruction other than SIGNEXTEND on two words, with its `op_exact` conclusion -/
theorem bin_exact {s : Simp} (hs : SimpSound s) {I : Interp} (hI : I.Std) (cfg : WordCfg)
    (op : WordOp) (har : arity op = 2) (hne : op ≠ .SIGNEXTEND) (a b : HV)
    (ha : a.WF ∧ a.IsWord) (hb : b.WF ∧ b.IsWord) :
    ∃ r aux, execWord s cfg op [a, b] = .ok (r, aux) ∧ r.WF ∧ r.IsWord ∧
      r.denote I = specOp op [a.denote I, b.denote I] ∧ ∀ c ∈ aux, c.eval I = true :=
  op_exact hs hI cfg op [a, b] har.symm (mem2 ha hb) (fun h => absurd h hne)

/-- **commutative_ops.** For ADD, MUL, AND, OR, XOR, EQ both operand orders succeed and denote the same word,
    for every pair of representations (so `and(lt(a,5), y)` and `and(y, lt(a,5))` agree). -/
theorem commutative_ops {s : Simp} (hs : SimpSound s) {I : Interp} (hI : I.Std) (cfg : WordCfg)
    (op : WordOp) (hop : IsComm op) (a b : HV) (ha : a.WF ∧ a.IsWord) (hb : b.WF ∧ b.IsWord) :
    ∃ r aux r' aux', execWord s cfg op [a, b] = .ok (r, aux) ∧ execWord s cfg op [b, a] = .ok (r', aux') ∧
      r.denote I = r'.denote I := by
  have har : arity op = 2 := by rcases hop with rfl | rfl | rfl | rfl | rfl | rfl <;> rfl
  have hne : op ≠ .SIGNEXTEND := by rcases hop with rfl | rfl | rfl | rfl | rfl | rfl <;> intro h <;> cases h
  obtain ⟨r, aux, he, _, _, hd, _⟩ := bin_exact hs hI cfg op har hne a b ha hb
  obtain ⟨r', aux', he', _, _, hd', _⟩ := bin_exact hs hI cfg op har hne b a hb ha
  exact ⟨r, aux, r', aux', he, he', by rw [hd, hd', spec_comm op hop]⟩

/-- **compare_mirror.** `LT a b` and `GT b a` (and `SLT a b`, `SGT b a`) denote the same word, whatever the
    representations of `a` and `b`. -/
theorem compare_mirror {s : Simp} (hs : SimpSound s) {I : Interp} (hI : I.Std) (cfg : WordCfg)
    (a b : HV) (ha : a.WF ∧ a.IsWord) (hb : b.WF ∧ b.IsWord) :
    (∃ r aux r' aux', execWord s cfg .LT [a, b] = .ok (r, aux) ∧ execWord s cfg .GT [b, a] = .ok (r', aux') ∧
      r.denote I = r'.denote I) ∧
    (∃ r aux r' aux', execWord s cfg .SLT [a, b] = .ok (r, aux) ∧ execWord s cfg .SGT [b, a] = .ok (r', aux') ∧
      r.denote I = r'.denote I) := by
  constructor
  · obtain ⟨r, aux, he, _, _, hd, _⟩ := bin_exact hs hI cfg .LT rfl (by intro h; cases h) a b ha hb
    obtain ⟨r', aux', he', _, _, hd', _⟩ := bin_exact hs hI cfg .GT rfl (by intro h; cases h) b a hb ha
    exact ⟨r, aux, r', aux', he, he', by rw [hd, hd']; simp [specOp, Word.lt, Word.gt]⟩
  · obtain ⟨r, aux, he, _, _, hd, _⟩ := bin_exact hs hI cfg .SLT rfl (by intro h; cases h) a b ha hb
    obtain ⟨r', aux', he', _, _, hd', _⟩ := bin_exact hs hI cfg .SGT rfl (by intro h; cases h) b a hb ha
    exact ⟨r, aux, r', aux', he, he', by rw [hd, hd']; simp [specOp, Word.slt, Word.sgt]⟩

/-- **iszero_is_eq_zero.** `ISZERO a` and `EQ a 0` (0 int-backed) denote the same word. -/
theorem iszero_is_eq_zero {s : Simp} (hs : SimpSound s) {I : Interp} (hI : I.Std) (cfg : WordCfg)
    (a : HV) (ha : a.WF ∧ a.IsWord) :
    ∃ r aux r' aux', execWord s cfg .ISZERO [a] = .ok (r, aux) ∧
      execWord s cfg .EQ [a, .bv 256 (.con 0)] = .ok (r', aux') ∧ r.denote I = r'.denote I := by
  have hz : (HV.bv 256 (.con 0)).WF ∧ (HV.bv 256 (.con 0)).IsWord := word_con (by decide)
  obtain ⟨r, aux, he, _, _, hd, _⟩ := op_exact hs hI cfg .ISZERO [a] rfl
    (by intro x hx; simp only [List.mem_cons, List.not_mem_nil, or_false] at hx; subst hx; exact ha)
    (by intro h; cases h)
  obtain ⟨r', aux', he', _, _, hd', _⟩ := bin_exact hs hI cfg .EQ rfl (by intro h; cases h) a _ ha hz
  refine ⟨r, aux, r', aux', he, he', ?_⟩
  rw [hd, hd']
  have h0 : (HV.bv 256 (.con 0)).denote I = 0 := rfl
  simp [specOp, Word.iszero, Word.eq, h0]

/-- **self_cancel.** `SUB a a` and `XOR a a` denote 0 for an operand of any representation. -/
theorem self_cancel {s : Simp} (hs : SimpSound s) {I : Interp} (hI : I.Std) (cfg : WordCfg)
    (a : HV) (ha : a.WF ∧ a.IsWord) (hlt : a.denote I < Word.W) :
    (∃ r aux, execWord s cfg .SUB [a, a] = .ok (r, aux) ∧ r.denote I = 0) ∧
    (∃ r aux, execWord s cfg .XOR [a, a] = .ok (r, aux) ∧ r.denote I = 0) := by
  constructor
  · obtain ⟨r, aux, he, _, _, hd, _⟩ := bin_exact hs hI cfg .SUB rfl (by intro h; cases h) a a ha ha
    refine ⟨r, aux, he, ?_⟩
    rw [hd]
    simp only [specOp, Word.sub]
    rw [Nat.mod_eq_of_lt hlt]
    have : a.denote I + (Word.W - a.denote I) = Word.W := by omega
    rw [this]; exact Nat.mod_self _
  · obtain ⟨r, aux, he, _, _, hd, _⟩ := bin_exact hs hI cfg .XOR rfl (by intro h; cases h) a a ha ha
    exact ⟨r, aux, he, by rw [hd]; simp [specOp, Word.xor]⟩

/-! ### corner regions named by the property: oversize shifts, BYTE index, EXP 0, SDIV overflow -/

/-- **oversize_shift.** SHL / SHR by an amount denoting ≥ 256 (in any representation: `2^64`, `2^255`, a term)
    denote 0; SAR denotes 0 or `2^256 - 1` according to the sign of the shifted word. No exception, no
    `x << 2^255`-sized integer (promptness is `C06.op_prompt`). -/
theorem oversize_shift {s : Simp} (hs : SimpSound s) {I : Interp} (hI : I.Std) (cfg : WordCfg)
    (sh x : HV) (hsh : sh.WF ∧ sh.IsWord) (hx : x.WF ∧ x.IsWord) (hge : 256 ≤ sh.denote I) :
    (∃ r aux, execWord s cfg .SHL [sh, x] = .ok (r, aux) ∧ r.denote I = 0) ∧
    (∃ r aux, execWord s cfg .SHR [sh, x] = .ok (r, aux) ∧ r.denote I = 0) ∧
    (∃ r aux, execWord s cfg .SAR [sh, x] = .ok (r, aux) ∧
      r.denote I = if toInt 256 (x.denote I) < 0 then Word.W - 1 else 0) := by
  refine ⟨?_, ?_, ?_⟩
  · obtain ⟨r, aux, he, _, _, hd, _⟩ := bin_exact hs hI cfg .SHL rfl (by intro h; cases h) sh x hsh hx
    exact ⟨r, aux, he, by rw [hd]; simp [specOp, Word.shl, hge]⟩
  · obtain ⟨r, aux, he, _, _, hd, _⟩ := bin_exact hs hI cfg .SHR rfl (by intro h; cases h) sh x hsh hx
    exact ⟨r, aux, he, by rw [hd]; simp [specOp, Word.shr, hge]⟩
  · obtain ⟨r, aux, he, _, _, hd, _⟩ := bin_exact hs hI cfg .SAR rfl (by intro h; cases h) sh x hsh hx
    exact ⟨r, aux, he, by rw [hd]; simp [specOp, Word.sar, hge]⟩

/-- **byte_out_of_range.** BYTE with an index denoting ≥ 32 denotes 0. -/
theorem byte_out_of_range {s : Simp} (hs : SimpSound s) {I : Interp} (hI : I.Std) (cfg : WordCfg)
    (i x : HV) (hi : i.WF ∧ i.IsWord) (hx : x.WF ∧ x.IsWord) (hge : 32 ≤ i.denote I) :
    ∃ r aux, execWord s cfg .BYTE [i, x] = .ok (r, aux) ∧ r.denote I = 0 := by
  obtain ⟨r, aux, he, _, _, hd, _⟩ := bin_exact hs hI cfg .BYTE rfl (by intro h; cases h) i x hi hx
  exact ⟨r, aux, he, by rw [hd]; simp [specOp, Word.byte, hge]⟩

/-- **exp_zero_exponent.** `EXP x 0` denotes 1 for every base, including `0 ^ 0`, whether the exponent is the
    literal 0, a Bool-typed false or a term evaluating to 0 (the `f_evm_exp` abstraction under `I.Std`). -/
theorem exp_zero_exponent {s : Simp} (hs : SimpSound s) {I : Interp} (hI : I.Std) (cfg : WordCfg)
    (x e : HV) (hx : x.WF ∧ x.IsWord) (he0 : e.WF ∧ e.IsWord) (hz : e.denote I = 0) :
    ∃ r aux, execWord s cfg .EXP [x, e] = .ok (r, aux) ∧ r.denote I = 1 := by
  obtain ⟨r, aux, he, _, _, hd, _⟩ := bin_exact hs hI cfg .EXP rfl (by intro h; cases h) x e hx he0
  refine ⟨r, aux, he, ?_⟩
  rw [hd]
  simp only [specOp, Word.exp, hz, Nat.pow_zero]
  decide

/-- **sdiv_overflow_wraps.** `SDIV (-2^255) (-1)` denotes `-2^255` (the one overflowing signed division), for
    operands of any representation with those denotations. -/
theorem sdiv_overflow_wraps {s : Simp} (hs : SimpSound s) {I : Interp} (hI : I.Std) (cfg : WordCfg)
    (a b : HV) (ha : a.WF ∧ a.IsWord) (hb : b.WF ∧ b.IsWord)
    (ha0 : a.denote I = 2 ^ 255) (hb0 : b.denote I = 2 ^ 256 - 1) :
    ∃ r aux, execWord s cfg .SDIV [a, b] = .ok (r, aux) ∧ r.denote I = 2 ^ 255 := by
  obtain ⟨r, aux, he, _, _, hd, _⟩ := bin_exact hs hI cfg .SDIV rfl (by intro h; cases h) a b ha hb
  refine ⟨r, aux, he, ?_⟩
  rw [hd, ha0, hb0]
  decide +kernel

/-! ### non-vacuity -/

/-- DIV of a symbolic Bool by a *term* that evaluates to 0 under `I0` (`x ↦ 0`): the abstraction path, not the
    literal-zero fast path -/
def I0 : Interp := Interp.std (fun _ _ => 0) (fun _ => true) (fun _ _ _ _ => 0) (fun _ _ _ => 0)

example : ∃ r aux, execWord idSimp {} .DIV [.bool (.sym (.var "b")), .bv 256 (.sym (.var "x" 256))] = .ok (r, aux) ∧
    r.WF ∧ r.IsWord ∧ r.denote I0 = 0 ∧ ∀ c ∈ aux, c.eval I0 = true :=
  by_zero_gives_zero C06.idSimp_sound (Interp.std_isStd _ _ _ _) {} .DIV (Or.inl rfl) _ _
    (word_bool trivial) (word_var "x") (by decide +kernel)

/-- AND of a Bool-typed item and a term, both orders -/
example : ∃ r aux r' aux',
    execWord foldSimp {} .AND [.bool (.sym (.var "b")), .bv 256 (.sym (.var "y" 256))] = .ok (r, aux) ∧
    execWord foldSimp {} .AND [.bv 256 (.sym (.var "y" 256)), .bool (.sym (.var "b"))] = .ok (r', aux') ∧
    r.denote exI = r'.denote exI :=
  commutative_ops C06.foldSimp_sound exI_std {} .AND (Or.inr (Or.inr (Or.inl rfl))) _ _
    (word_bool trivial) (word_var "y")

/-- SHL of a term by the int-backed amount `2^255`, and SDIV of the term `y = 2^255` (under `exI`) by int-backed -1 -/
example : ∃ r aux, execWord foldSimp {} .SHL [.bv 256 (.con (2 ^ 255)), .bv 256 (.sym (.var "y" 256))] = .ok (r, aux) ∧
    r.denote exI = 0 :=
  (oversize_shift C06.foldSimp_sound exI_std {} _ _ (word_con (by decide)) (word_var "y") (by decide +kernel)).1

example : ∃ r aux, execWord idSimp {} .SDIV [.bv 256 (.sym (.var "y" 256)), .bv 256 (.con (2 ^ 256 - 1))] = .ok (r, aux) ∧
    r.denote exI = 2 ^ 255 :=
  sdiv_overflow_wraps C06.idSimp_sound exI_std {} _ _ (word_var "y") (word_con (by decide))
    (by decide +kernel) (by decide +kernel)

/-! ### the reference semantics is well-typed, and so is every result -/

theorem ofInt_lt (n : Nat) (i : Int) : ofInt n i < 2 ^ n := by
  unfold ofInt
  have hpos : (0 : Int) < ((2 ^ n : Nat) : Int) := by exact_mod_cast Nat.two_pow_pos n
  have h1 := Int.emod_lt_of_pos i hpos
  have h0 := Int.emod_nonneg i (by omega : ((2 ^ n : Nat) : Int) ≠ 0)
  omega

theorem W_pos : 0 < Word.W := Nat.two_pow_pos 256

/-- the reference semantics is closed on 256-bit words: every instruction maps words to a word -/
theorem spec_closed (op : WordOp) (args : List Nat) (hlen : args.length = arity op) (hargs : ∀ a ∈ args, a < Word.W) :
    specOp op args < Word.W := by
  have hW : Word.W = 2 ^ 256 := rfl
  cases op
  case ISZERO => obtain ⟨a, rfl⟩ := len1 hlen; simp only [specOp, Word.iszero]; split <;> decide
  case NOT => obtain ⟨a, rfl⟩ := len1 hlen; simp only [specOp, Word.not]; have := W_pos; omega
  case ADDMOD =>
    obtain ⟨a, b, n, rfl⟩ := len3 hlen
    have hn := hargs n (by simp)
    simp only [specOp, Word.addmod]; split
    · exact W_pos
    · exact Nat.lt_trans (Nat.mod_lt _ (by omega)) hn
  case MULMOD =>
    obtain ⟨a, b, n, rfl⟩ := len3 hlen
    have hn := hargs n (by simp)
    simp only [specOp, Word.mulmod]; split
    · exact W_pos
    · exact Nat.lt_trans (Nat.mod_lt _ (by omega)) hn
  case SAR =>
    obtain ⟨a, b, rfl⟩ := len2 hlen
    simp only [specOp, Word.sar]
    split
    · split
      · have := W_pos; omega
      · exact W_pos
    · exact ofInt_lt 256 _
  all_goals
    obtain ⟨a, b, rfl⟩ := len2 hlen
    have ha := hargs a (by simp)
    have hb := hargs b (by simp)
    simp only [specOp, Word.add, Word.mul, Word.sub, Word.div, Word.sdiv, Word.mod, Word.smod, Word.exp,
      Word.signextend, Word.lt, Word.gt, Word.slt, Word.sgt, Word.eq, Word.and, Word.or, Word.xor, Word.byte,
      Word.shl, Word.shr]
    first
      | exact Nat.mod_lt _ W_pos
      | (split <;> first | exact W_pos | exact ofInt_lt 256 _ | exact Nat.mod_lt _ W_pos | decide
                         | exact Nat.lt_of_le_of_lt (Nat.div_le_self _ _) ha
                         | exact Nat.lt_of_le_of_lt (Nat.div_le_self _ _) hb
                         | exact Nat.lt_of_le_of_lt (Nat.mod_le _ _) ha
                         | assumption
                         | (have := W_pos; omega))
      | (rw [hW] at *; first | exact Nat.and_lt_two_pow _ hb | exact Nat.or_lt_two_pow ha hb | exact Nat.xor_lt_two_pow ha hb)

/-- a well-formed stack word of any representation denotes a number below `2^256` -/
theorem word_denote_lt (I : Interp) (a : HV) (ha : a.WF ∧ a.IsWord) : a.denote I < Word.W := by
  cases a with
  | bv size r =>
    have hs : size = 256 := ha.2
    subst hs
    exact denote_lt ha.1
  | bool r => cases r <;> simp only [HV.denote] <;> split <;> decide

/-- **result_in_range.** Under the hypotheses of `op_exact` the result denotes a 256-bit word equal to the
    spec's result on 256-bit operands (so nothing "leaks" above bit 255 in any representation). -/
theorem result_in_range {s : Simp} (hs : SimpSound s) {I : Interp} (hI : I.Std) (cfg : WordCfg) (op : WordOp)
    (args : List HV) (hlen : args.length = arity op) (hargs : ∀ a ∈ args, a.WF ∧ a.IsWord)
    (hse : op = .SIGNEXTEND → ∀ a, args.head? = some a → (toBV256 s a).isConcrete = true) :
    ∃ r aux, execWord s cfg op args = .ok (r, aux) ∧ r.denote I < Word.W := by
  obtain ⟨r, aux, he, _, _, hd, _⟩ := op_exact hs hI cfg op args hlen hargs hse
  refine ⟨r, aux, he, ?_⟩
  rw [hd]
  apply spec_closed op _ (by simpa using hlen)
  intro x hx
  obtain ⟨a, ha, rfl⟩ := List.mem_map.1 hx
  exact word_denote_lt I a (hargs a ha)

/-- **not_involutive.** `NOT (NOT a)` denotes what `a` denotes — also for a Bool-typed `a` (the case the
    logical-negation defect fixed in 94e0e3b got wrong: `NOT` of a Bool is the 256-bit complement). -/
theorem not_involutive {s : Simp} (hs : SimpSound s) {I : Interp} (hI : I.Std) (cfg : WordCfg)
    (a : HV) (ha : a.WF ∧ a.IsWord) :
    ∃ r aux r' aux', execWord s cfg .NOT [a] = .ok (r, aux) ∧ execWord s cfg .NOT [r] = .ok (r', aux') ∧
      r'.denote I = a.denote I := by
  have one : ∀ x : HV, x.WF ∧ x.IsWord → ∀ y ∈ [x], y.WF ∧ y.IsWord := by
    intro x hx y hy
    simp only [List.mem_cons, List.not_mem_nil, or_false] at hy
    subst hy; exact hx
  obtain ⟨r, aux, he, hwf, hw, hd, _⟩ := op_exact hs hI cfg .NOT [a] rfl (one a ha) (by intro h; cases h)
  obtain ⟨r', aux', he', _, _, hd', _⟩ := op_exact hs hI cfg .NOT [r] rfl (one r ⟨hwf, hw⟩) (by intro h; cases h)
  refine ⟨r, aux, r', aux', he, he', ?_⟩
  have hlt := word_denote_lt I a ha
  rw [hd']
  simp only [List.map_cons, List.map_nil, hd, specOp, Word.not]
  omega

end HalmosVerif.Props.C06Algebra
