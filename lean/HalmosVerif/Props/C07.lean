/-
Props.C07 — Byte sequences behave as a flat zero-extended byte array (work in progress: theorems are added below).
-/
import HalmosVerif.Model.ByteVec

namespace HalmosVerif.Props.C07
open HalmosVerif.Spec HalmosVerif.Model.BV

/-- the 3-operation witness (two appends to set the stage): `a[0:5] = b; b[1:3] = "$$"; read a` -/
def aliasWitness : List Op :=
  [ .append "a" (.raw (.conc [1, 2, 3, 4, 5] 0 5)),
    .append "b" (.raw (.conc [0xaa, 0xbb, 0xcc, 0xdd, 0xee] 0 5)),
    .setSlice "a" 0 5 (.obj "b"),
    .setSlice "b" 1 3 (.raw (.conc [0x24, 0x24] 0 2)),
    .unwrap "a" ]

/-- The aliasing variant (bytevec.py as it stands) does **not** refine the flat arrays. -/
theorem history_refines_alias_cex :
    ¬ ∀ ops : List Op, run true ops = FlatPool.run FlatPool.init ops := by
  intro h
  have := h aliasWitness
  revert this
  decide

end HalmosVerif.Props.C07
